(* END-TO-END exactness of the executable posting-list index model (Model/Index.v) for builders whose
   fields may be configured with the PATTERN (CAc) and RANGE (CRange) containers, repaired builder
   (wildcard_first = false), for BOTH the k-groups index and the compact index.
   Generalises Proofs/IndexCorrect.v (which covers the case of no ConfigField call).
   Everything is Qed and closed under the global context.

   Built on Proofs/HoldersBuildInv.v (builder invariant GRepr over keys KId/KKw/KZ/KPiece),
   Proofs/RangeIdxProof.v (piece lists), Proofs/ConcreteScan.v (cursor loops).

   SPECIFICATION (all executable)
     ehit c p v e            expression e is hit by the assigned value v, by container kind c:
        CDefault   parse_assign p v = POk ids and some id is among the parsed values of e (val_hit)
        CAc        ac_parse_dict (e_val e) = POk ks, ac_query_text [32] v = POk t, t is NOT EMPTY and some
                   keyword w of ks (possibly the EMPTY keyword) has kw_found w t = true
        CRange     parse_integers true v = POk xs and some x of xs has range_hit e x:
                     OpEQ: parse_integers true (e_val e) = POk zs and x among zs
                     OpGT/OpLT/OpBetween: parse_range (e_op e) true (e_val e) = POk (l, r) and l <= x < r
     field_sat' c p v es     (no include expression, or some include expression is hit) and no exclude expression is hit
     conj_sat' parsers cfg q cj   for every (f, es) of cj: field_sat' (cfg f) (parsers f) (field_val q f) es
   See the end of the file for the main theorems and remarks. *)
From Coq Require Import List NArith ZArith Bool Lia Permutation Sorting.Sorted Arith.
From Coq Require Import ZifyN ZifyBool.
From BE Require Import Model.GoTypes Model.GoVal Model.Parsers Model.Scan Model.Cursor Model.RangeIdx Model.Index.
From BE Require Import Proofs.ScanProof Proofs.CursorProof Proofs.Refine Proofs.ConcreteScan Proofs.IndexBuildInv.
From BE Require Import Proofs.IndexCorrect Proofs.RangeIdxProof Proofs.HoldersBuildInv.
From BE Require Gen.IdsGen Proofs.IdsProof Proofs.RoaringProof Proofs.AcProof Proofs.RangeHolderProof.
Import ListNotations.
Ltac Zify.zify_post_hook ::= Z.div_mod_to_equations.

(* ------------------------------------------------------------------------------------------ *)
(* the specification *)
Definition nonempty_t (t : text) : bool := match t with [] => false | _ => true end.

Definition range_hit (e : expr) (x : Z) : bool :=
  match e_op e with
  | OpEQ => match parse_integers true (e_val e) with POk zs => existsb (Z.eqb x) zs | _ => false end
  | OpGT | OpLT | OpBetween =>
    match parse_range (e_op e) true (e_val e) with POk (l, r) => (l <=? x)%Z && (x <? r)%Z | _ => false end
  | OpOther => false
  end.

Definition ehit (c : cont_kind) (p : parser_kind) (v : gval) (e : expr) : bool :=
  match c with
  | CDefault => match parse_assign p v with
                | POk ids => existsb (fun id => RoaringProof.val_hit p id e) ids
                | _ => false end
  | CAc => match ac_parse_dict (e_val e), ac_query_text [32%N] v with
           | POk ks, POk t => nonempty_t t && existsb (fun w => kw_found w t) ks
           | _, _ => false end
  | CRange => match parse_integers true v with POk xs => existsb (range_hit e) xs | _ => false end
  end.

Definition field_sat' (c : cont_kind) (p : parser_kind) (v : gval) (es : list expr) : bool :=
  (negb (existsb e_incl es) || existsb (fun e => e_incl e && ehit c p v e) es)
  && negb (existsb (fun e => negb (e_incl e) && ehit c p v e) es).

Definition conj_sat' (parsers : fname -> parser_kind) (cfg : fname -> cont_kind) (q : assignment) (cj : conj) : bool :=
  forallb (fun fe => field_sat' (cfg (fst fe)) (parsers (fst fe)) (field_val q (fst fe)) (snd fe)) cj.

(* the assigned value is accepted by the field's container *)
Definition qv_ok (c : cont_kind) (p : parser_kind) (v : gval) : bool :=
  match c with
  | CDefault => is_ok (parse_assign p v)
  | CAc => is_ok (ac_query_text [32%N] v)
  | CRange => is_ok (parse_integers true v)
  end.

(* a nil slice has no elements (true of every Go value; the model's gval does not enforce it) *)
Definition nil_slice_wf (v : gval) : Prop :=
  match v with
  | VSlice _ true vs => vs = []
  | VList true vs => vs = []
  | _ => True
  end.

Lemma field_sat'_iff c p v es :
  field_sat' c p v es = true <->
  ((forall e, In e es -> e_incl e = false) \/ exists e, In e es /\ e_incl e = true /\ ehit c p v e = true) /\
  (forall e, In e es -> e_incl e = false -> ehit c p v e = false).
Proof.
  unfold field_sat'. rewrite andb_true_iff, orb_true_iff, !negb_true_iff. split.
  - intros [Hi He]. split.
    + destruct Hi as [Hi|Hi]; [left|right].
      * intros e Hin. destruct (e_incl e) eqn:E; [|reflexivity].
        assert (existsb e_incl es = true) by (apply existsb_exists; exists e; auto). congruence.
      * apply existsb_exists in Hi. destruct Hi as (e & Hin & H). apply andb_true_iff in H. exists e. tauto.
    + intros e Hin Hie. destruct (ehit c p v e) eqn:E; [|reflexivity].
      assert (existsb (fun e => negb (e_incl e) && ehit c p v e) es = true); [|congruence].
      apply existsb_exists. exists e. rewrite Hie, E. auto.
  - intros [Hi He]. split.
    + destruct Hi as [Hi|(e & Hin & H1 & H2)]; [left|right].
      * destruct (existsb e_incl es) eqn:E; [|reflexivity]. apply existsb_exists in E.
        destruct E as (e & Hin & H). rewrite (Hi e Hin) in H. discriminate.
      * apply existsb_exists. exists e. rewrite H1, H2. auto.
    + destruct (existsb (fun e => negb (e_incl e) && ehit c p v e) es) eqn:E; [|reflexivity].
      apply existsb_exists in E. destruct E as (e & Hin & H). apply andb_true_iff in H. destruct H as [H1 H2].
      apply negb_true_iff in H1. rewrite (He e Hin H1) in H2. discriminate.
Qed.

Lemma forallb_ext_In {A} (f g : A -> bool) l : (forall x, In x l -> f x = g x) -> forallb f l = forallb g l.
Proof.
  induction l as [|a l IH]; intros H; cbn [forallb]; [reflexivity|].
  rewrite (H a (or_introl eq_refl)), IH; [reflexivity|]. intros x Hx. apply H. right. exact Hx.
Qed.

(* with no configured field and parsable assigned values this is IndexCorrect.conj_sat *)
Lemma conj_sat'_default parsers q cj :
  (forall f es, In (f, es) cj -> exists ids, parse_assign (parsers f) (field_val q f) = POk ids) ->
  conj_sat' parsers (fun _ => CDefault) q cj = conj_sat parsers q cj.
Proof.
  intros H. unfold conj_sat', conj_sat. apply forallb_ext_In. intros [f es] Hin. cbn [fst snd].
  destruct (H f es Hin) as [ids E]. unfold field_sat', ehit. rewrite E. reflexivity.
Qed.

(* ------------------------------------------------------------------------------------------ *)
(* values and util.NilInterface *)
Lemma ehit_VNil c p e : ehit c p VNil e = false.
Proof.
  destruct c; cbn [ehit].
  - rewrite parse_assign_nil. reflexivity.
  - destruct (ac_parse_dict (e_val e)); reflexivity.
  - reflexivity.
Qed.

Lemma parse_integers_nil_interface v xs : parse_integers true v = POk xs ->
  exists b, nil_interface v = POk b /\ (b = true -> xs = []).
Proof.
  unfold parse_integers. destruct (nil_interface v) as [[|]| | | |]; cbn [pbind]; intros H; try discriminate;
    (eexists; split; [reflexivity|]); intros E; try discriminate; congruence.
Qed.

Lemma ac_query_nil_interface v t : ac_query_text [32%N] v = POk t ->
  exists b, nil_interface v = POk b /\ (nil_slice_wf v -> b = true -> t = []).
Proof.
  destruct v;
    try (unfold ac_query_text; cbn [type_of];
         repeat match goal with |- context [if ?c then _ else _] => destruct c end; discriminate).
  - intros _. exists false. split; [reflexivity|discriminate].
  - unfold ac_query_text. cbn [type_of]. intros H.
    destruct (ty_in TypeSwitchGen.sw_BuildAcMatchContent Tstring t0) eqn:E1; [discriminate|].
    destruct (ty_in TypeSwitchGen.sw_BuildAcMatchContent TSstring t0) eqn:E2.
    + assert (t0 = TSstring) by (destruct t0; try discriminate; reflexivity). subst t0.
      exists isnil. split; [reflexivity|]. intros Hw ->. cbn [nil_slice_wf] in Hw. subst vs.
      cbn in H. congruence.
    + destruct (ty_in TypeSwitchGen.sw_BuildAcMatchContent TSiface t0) eqn:E3; [|discriminate].
      assert (t0 = TSiface) by (destruct t0; try discriminate; reflexivity). subst t0. discriminate.
  - intros H. exists isnil. split; [reflexivity|]. intros Hw ->. cbn [nil_slice_wf] in Hw. subst vs.
    cbn in H. congruence.
Qed.

Lemma qv_ok_nil_interface c p v : qv_ok c p v = true -> exists b, nil_interface v = POk b.
Proof.
  destruct c; cbn [qv_ok].
  - destruct (parse_assign p v) as [ids| | | |] eqn:E; try discriminate. intros _.
    destruct (parse_assign_nil_interface _ _ _ E) as (b & Hb & _). eauto.
  - destruct (ac_query_text [32%N] v) as [t| | | |] eqn:E; try discriminate. intros _.
    destruct (ac_query_nil_interface _ _ E) as (b & Hb & _). eauto.
  - destruct (parse_integers true v) as [xs| | | |] eqn:E; try discriminate. intros _.
    destruct (parse_integers_nil_interface _ _ E) as (b & Hb & _). eauto.
Qed.

Lemma ehit_nonnil c p v e : (c = CAc -> nil_slice_wf v) -> ehit c p v e = true -> nonnil v = true.
Proof.
  intros Hw. destruct c; cbn [ehit].
  - destruct (parse_assign p v) as [ids| | | |] eqn:E; try discriminate. intros H.
    destruct (parse_assign_nil_interface _ _ _ E) as (b & Hb & Hn). unfold nonnil. rewrite Hb.
    destruct b; [|reflexivity]. rewrite (Hn eq_refl) in H. discriminate.
  - destruct (ac_parse_dict (e_val e)); try discriminate.
    destruct (ac_query_text [32%N] v) as [t| | | |] eqn:E; try discriminate. intros H.
    destruct (ac_query_nil_interface _ _ E) as (b & Hb & Hn). unfold nonnil. rewrite Hb.
    destruct b; [|reflexivity]. rewrite (Hn (Hw eq_refl) eq_refl) in H. discriminate.
  - destruct (parse_integers true v) as [xs| | | |] eqn:E; try discriminate. intros H.
    destruct (parse_integers_nil_interface _ _ E) as (b & Hb & Hn). unfold nonnil. rewrite Hb.
    destruct b; [|reflexivity]. rewrite (Hn eq_refl) in H. discriminate.
Qed.

Lemma assign_size_g : forall q : assignment,
  (forall f v, In (f, v) q -> exists b, nil_interface v = POk b) ->
  assign_size q = POk (Z.of_nat (length (filter (fun fv => nonnil (snd fv)) q))).
Proof.
  induction q as [|[f v] q IH]; intros Hp; cbn [assign_size filter]; [reflexivity|].
  destruct (Hp f v (or_introl eq_refl)) as [b Hb]. cbn [snd]. unfold nonnil at 1. rewrite Hb. cbn [pbind].
  rewrite IH by (intros f' v' H; apply (Hp f'); right; exact H). cbn [pbind].
  destruct b; cbn [length]; [reflexivity|]. f_equal. lia.
Qed.

(* ------------------------------------------------------------------------------------------ *)
(* parse_range never yields an empty pair l = r (NewRange bumps the right end) *)
Lemma pnew_range_ne l r a b : Parsers.new_range l r = (a, b) -> a <> b.
Proof.
  unfold Parsers.new_range. destruct (Z.eqb_spec l r) as [->|Hne]; intros [= <- <-]; [|exact Hne].
  unfold wrap_i64, two63, two64. lia.
Qed.

Lemma parse_between_ne v l r : parse_between v = POk (l, r) -> l <> r.
Proof.
  unfold parse_between. intros H.
  repeat match type of H with
         | context [if ?c then _ else _] => destruct c
         | context [match ?x with _ => _ end] => destruct x; try discriminate
         | context [pbind ?x _] => destruct x; cbn [pbind] in H; try discriminate
         end; try discriminate; injection H as H; eapply pnew_range_ne; exact H.
Qed.

Lemma parse_range_ne op v l r : parse_range op true v = POk (l, r) -> l <> r.
Proof.
  unfold parse_range. destruct op; try discriminate.
  - destruct (parse_integer_number true v); cbn [pbind]; try discriminate. intros [= H]. eapply pnew_range_ne; exact H.
  - destruct (parse_integer_number true v); cbn [pbind]; try discriminate. intros [= H]. eapply pnew_range_ne; exact H.
  - apply parse_between_ne.
Qed.

(* ------------------------------------------------------------------------------------------ *)
(* which keys an assigned value selects, by container kind *)
Definition qkeyc (c : cont_kind) (p : parser_kind) (v : gval) (key : key) : Prop :=
  match c, key with
  | CDefault, KId id => exists ids, parse_assign p v = POk ids /\ In id ids
  | CAc, KKw w => exists t, ac_query_text [32%N] v = POk t /\ t <> [] /\ kw_found w t = true
  | CRange, KZ z => exists xs, parse_integers true v = POk xs /\ In z xs
  | CRange, KPiece x => exists xs, parse_integers true v = POk xs /\ In x xs
  | _, _ => False
  end.

Lemma nonempty_lists_In l ls : In l (nonempty_lists ls) <-> In l ls /\ l <> [].
Proof.
  unfold nonempty_lists. rewrite filter_In. split; intros [H1 H2]; (split; [exact H1|]).
  - intros ->. discriminate.
  - destruct l; [contradiction|reflexivity].
Qed.

Lemma lk_nil {K} (eqb : K -> K -> bool) k : lk eqb k (@nil (K * list N)) = [].
Proof. reflexivity. Qed.

Lemma lk_some {K} (eqb : K -> K -> bool) k (m : list (K * list N)) l : alookup eqb k m = Some l -> lk eqb k m = l.
Proof. unfold lk. intros ->. reflexivity. Qed.

Lemma lk_pair {K} (eqb : K -> K -> bool) (eqb_spec : forall a b, reflect (a = b) (eqb a b)) w (m : list (K * list N)) l :
  NoDup (map fst m) -> In (w, l) m -> lk eqb w m = l.
Proof. intros Hnd Hin. unfold lk. rewrite (In_alookup_g eqb eqb_spec w m l Hnd Hin). reflexivity. Qed.

Lemma lk_In_pair {K} (eqb : K -> K -> bool) (eqb_spec : forall a b, reflect (a = b) (eqb a b)) w (m : list (K * list N)) x :
  In x (lk eqb w m) -> In (w, lk eqb w m) m.
Proof.
  unfold lk. destruct (alookup eqb w m) as [l|] eqn:E; [|intros []]. intros _.
  apply (alookup_In_g eqb eqb_spec). exact E.
Qed.

(* pattern holder *)
Lemma ac_entries fd fid vals v t : NoDup (map fst vals) -> ac_query_text [32%N] v = POk t ->
  exists ls, get_entries fd fid (HAc vals) v = POk ls /\
    Forall (fun l => l <> [] /\ exists w, l = lk text_eqb w vals) ls /\
    forall x, In x (concat ls) <-> (t <> [] /\ exists w, kw_found w t = true /\ In x (lk text_eqb w vals)).
Proof.
  intros Hnd Ht. cbn [get_entries]. destruct vals as [|kv0 vals'] eqn:Ev.
  - exists []. split; [reflexivity|]. split; [constructor|]. intros x. cbn [concat In]. split; [intros []|].
    intros (_ & w & _ & H). exact H.
  - rewrite Ht. cbn [pbind]. destruct t as [|c t'].
    + exists []. split; [reflexivity|]. split; [constructor|]. intros x. cbn [concat In]. split; [intros []|].
      intros (H & _). congruence.
    + rewrite <- Ev in *. eexists. split; [reflexivity|].
      assert (Hin : forall l, In l (nonempty_lists (flat_map (fun kv : text * list N =>
                      if kw_found (fst kv) (c :: t') then [snd kv] else []) vals)) <->
                    l <> [] /\ exists w, In (w, l) vals /\ kw_found w (c :: t') = true).
      { intros l. rewrite nonempty_lists_In, in_flat_map. split.
        - intros [([w l'] & Hkv & Hl) Hne]. cbn [fst snd] in Hl. destruct (kw_found w (c :: t')) eqn:Es; [|destruct Hl].
          destruct Hl as [->|[]]. split; [exact Hne|]. exists w. auto.
        - intros [Hne (w & Hkv & Hs)]. split; [|exact Hne]. exists (w, l). split; [exact Hkv|]. cbn [fst snd].
          rewrite Hs. left. reflexivity. }
      split.
      * apply Forall_forall. intros l Hl. apply Hin in Hl. destruct Hl as [Hne (w & Hkv & _)]. split; [exact Hne|].
        exists w. symmetry. apply (lk_pair text_eqb RoaringProof.text_eqb_spec); assumption.
      * intros x. rewrite in_concat. split.
        -- intros (l & Hl & Hx). apply Hin in Hl. destruct Hl as [_ (w & Hkv & Hs)]. split; [discriminate|].
           exists w. split; [exact Hs|]. rewrite (lk_pair text_eqb RoaringProof.text_eqb_spec w vals l Hnd Hkv). exact Hx.
        -- intros (_ & w & Hs & Hx). exists (lk text_eqb w vals). split; [|exact Hx]. apply Hin. split.
           ++ intros E. rewrite E in Hx. destruct Hx.
           ++ exists w. split; [|exact Hs]. eapply (lk_In_pair text_eqb RoaringProof.text_eqb_spec). exact Hx.
Qed.

(* range holder *)
Lemma chain_In_bounds lo hi pcs p : chain lo hi pcs -> In p pcs -> (lo <= pl p /\ pl p < pr p /\ pr p <= hi)%Z.
Proof.
  revert lo. induction pcs as [|a pcs IH]; intros lo Hc Hin; [destruct Hin|]. cbn [chain] in Hc.
  destruct Hc as (H1 & H2 & H3). destruct Hin as [->|Hin].
  - pose proof (chain_le _ _ _ H3). lia.
  - specialize (IH _ H3 Hin). lia.
Qed.

Lemma chain_entries_at lo hi pcs p z : chain lo hi pcs -> In p pcs -> contains p z = true -> entries_at z pcs = pe p.
Proof.
  revert lo. induction pcs as [|a pcs IH]; intros lo Hc Hin Hz; [destruct Hin|]. cbn [chain] in Hc.
  destruct Hc as (H1 & H2 & H3).
  assert (Hzz : (pl p <= z < pr p)%Z) by (unfold contains in Hz; lia).
  destruct Hin as [->|Hin].
  - apply entries_at_cons_in. exact Hzz.
  - pose proof (chain_In_bounds _ _ _ _ H3 Hin). rewrite entries_at_cons_out by lia. eapply IH; eassumption.
Qed.

Lemma entries_at_piece x pcs y : In y (entries_at x pcs) ->
  exists p, In p pcs /\ contains p x = true /\ entries_at x pcs = pe p.
Proof.
  unfold entries_at. destruct (find (fun p => contains p x) pcs) as [p|] eqn:E; [|intros []]. intros _.
  apply find_some in E. exists p. tauto.
Qed.

Lemma range_entries fd fid kv pcs v xs : chain min_i64 max_i64 pcs -> parse_integers true v = POk xs ->
  exists ls, get_entries fd fid (HRange kv pcs) v = POk ls /\
    Forall (fun l => l <> [] /\ ((exists z, l = lk Z.eqb z kv) \/
                                 (exists x, (min_i64 <= x < max_i64)%Z /\ l = entries_at x pcs))) ls /\
    forall y, In y (concat ls) <->
      (exists z, In z xs /\ In y (lk Z.eqb z kv)) \/
      (exists x, In x xs /\ (min_i64 <= x < max_i64)%Z /\ In y (entries_at x pcs)).
Proof.
  intros Hc Hp. cbn [get_entries]. rewrite Hp. cbn [pbind]. eexists. split; [reflexivity|].
  set (kvs := flat_map (fun z => match alookup Z.eqb z kv with Some l => [l] | None => [] end) xs).
  set (hit := filter (fun p => existsb (fun z => contains p z && (min_i64 <=? z)%Z && (z <? max_i64)%Z) xs) pcs).
  assert (Hkv : forall l, In l kvs <-> exists z, In z xs /\ alookup Z.eqb z kv = Some l).
  { intros l. unfold kvs. rewrite in_flat_map. split.
    - intros (z & Hz & Hl). exists z. split; [exact Hz|]. destruct (alookup Z.eqb z kv); [destruct Hl as [->|[]]; reflexivity|destruct Hl].
    - intros (z & Hz & E). exists z. split; [exact Hz|]. rewrite E. left. reflexivity. }
  assert (Hh : forall l, In l (map pe hit) <->
             exists p z, In p pcs /\ In z xs /\ contains p z = true /\ (min_i64 <= z < max_i64)%Z /\ l = pe p).
  { intros l. unfold hit. rewrite in_map_iff. split.
    - intros (p & <- & Hin). apply filter_In in Hin. destruct Hin as [Hin He]. apply existsb_exists in He.
      destruct He as (z & Hz & Hb). apply andb_true_iff in Hb. destruct Hb as [Hb Hb3].
      apply andb_true_iff in Hb. destruct Hb as [Hb1 Hb2]. exists p, z. repeat split; auto; lia.
    - intros (p & z & Hin & Hz & Hcz & Hb & ->). exists p. split; [reflexivity|]. apply filter_In. split; [exact Hin|].
      apply existsb_exists. exists z. split; [exact Hz|]. rewrite Hcz. lia. }
  split.
  - apply Forall_forall. intros l Hl. apply nonempty_lists_In in Hl. destruct Hl as [Hl Hne]. split; [exact Hne|].
    apply in_app_or in Hl. destruct Hl as [Hl|Hl].
    + apply Hkv in Hl. destruct Hl as (z & _ & E). left. exists z. unfold lk. rewrite E. reflexivity.
    + apply Hh in Hl. destruct Hl as (p & z & Hin & _ & Hcz & Hb & ->). right. exists z. split; [exact Hb|].
      symmetry. eapply chain_entries_at; eassumption.
  - intros y. rewrite in_concat. split.
    + intros (l & Hl & Hy). apply nonempty_lists_In in Hl. destruct Hl as [Hl _]. apply in_app_or in Hl. destruct Hl as [Hl|Hl].
      * apply Hkv in Hl. destruct Hl as (z & Hz & E). left. exists z. split; [exact Hz|]. unfold lk. rewrite E. exact Hy.
      * apply Hh in Hl. destruct Hl as (p & z & Hin & Hz & Hcz & Hb & ->). right. exists z. split; [exact Hz|].
        split; [exact Hb|]. rewrite (chain_entries_at _ _ _ _ _ Hc Hin Hcz). exact Hy.
    + intros [(z & Hz & Hy)|(x & Hx & Hb & Hy)].
      * exists (lk Z.eqb z kv). split; [|exact Hy]. apply nonempty_lists_In. split; [|intros E; rewrite E in Hy; destruct Hy].
        apply in_or_app. left. apply Hkv. exists z. split; [exact Hz|]. unfold lk in *.
        destruct (alookup Z.eqb z kv); [reflexivity|destruct Hy].
      * exists (entries_at x pcs). split; [|exact Hy]. apply nonempty_lists_In. split; [|intros E; rewrite E in Hy; destruct Hy].
        apply in_or_app. right. apply Hh. destruct (entries_at_piece _ _ _ Hy) as (p & Hin & Hcx & E).
        exists p, x. repeat split; auto; lia.
Qed.

Lemma hlist_KId h v : hlist h (KId v) = [].
Proof. destruct h; reflexivity. Qed.

(* the lists a configured holder selects, by key *)
Lemma holder_entries c p fd fid h v : c <> CDefault -> HInv c h -> qv_ok c p v = true ->
  exists ls, get_entries fd fid h v = POk ls /\
    Forall (fun l => l <> [] /\ exists key, key_ok key /\ l = hlist h key) ls /\
    forall x, In x (concat ls) <-> exists key, qkeyc c p v key /\ key_ok key /\ In x (hlist h key).
Proof.
  intros Hc Hi Hq. destruct c; [contradiction| |]; destruct h; cbn [HInv] in Hi; try contradiction; cbn [qv_ok] in Hq.
  - destruct (ac_query_text [32%N] v) as [t| | | |] eqn:Et; try discriminate.
    destruct (ac_entries fd fid vals v t Hi Et) as (ls & E & Hf & Hx). exists ls. split; [exact E|]. split.
    + eapply Forall_impl; [|exact Hf]. intros l [Hne (w & ->)]. split; [exact Hne|]. exists (KKw w). split; [exact I|reflexivity].
    + intros x. rewrite Hx. split.
      * intros (Hne & w & Hs & Hin). exists (KKw w). split; [exists t; auto|]. split; [exact I|exact Hin].
      * intros (key & Hk & _ & Hin). destruct key; cbn [qkeyc] in Hk; try contradiction.
        destruct Hk as (t' & Et' & Hne & Hs). rewrite Et in Et'. inversion Et'; subst t'. split; [exact Hne|]. exists w. auto.
  - destruct (parse_integers true v) as [xs| | | |] eqn:Ex; try discriminate.
    destruct (range_entries fd fid kv pieces v xs Hi Ex) as (ls & E & Hf & Hx). exists ls. split; [exact E|]. split.
    + eapply Forall_impl; [|exact Hf]. intros l [Hne [(z & ->)|(x & Hb & ->)]]; (split; [exact Hne|]).
      * exists (KZ z). split; [exact I|reflexivity].
      * exists (KPiece x). split; [exact Hb|reflexivity].
    + intros y. rewrite Hx. split.
      * intros [(z & Hz & Hin)|(x & Hxx & Hb & Hin)].
        -- exists (KZ z). split; [exists xs; auto|]. split; [exact I|exact Hin].
        -- exists (KPiece x). split; [exists xs; auto|]. split; [exact Hb|exact Hin].
      * intros (key & Hk & Hok & Hin). destruct key; cbn [qkeyc] in Hk; try contradiction;
          destruct Hk as (xs' & Ex' & Hz); rewrite Ex in Ex'; inversion Ex'; subst xs'.
        -- left. exists z. auto.
        -- right. exists x. auto.
Qed.

Lemma compile_HInv c h : HInv c h -> HInv c (compile_holder h).
Proof.
  destruct c, h; cbn [HInv compile_holder]; try contradiction.
  - rewrite map_map. cbn [fst]. auto.
  - clear kv. revert pieces. generalize min_i64. intros lo pcs. revert lo.
    induction pcs as [|p pcs IH]; intros lo; cbn [chain map pl pr]; [auto|]. intros (H1 & H2 & H3). auto.
Qed.

(* ------------------------------------------------------------------------------------------ *)
(* the stored transaction data agree with the specification, whatever the expansion threshold *)
Lemma existsb_Zeqb x zs : existsb (Z.eqb x) zs = true <-> In x zs.
Proof.
  rewrite existsb_exists. split.
  - intros (y & Hy & E). apply Z.eqb_eq in E. subst. exact Hy.
  - intros H. exists x. split; [exact H|apply Z.eqb_refl].
Qed.

Lemma range_keys p v (d : txdata) :
  (exists key, qkeyc CRange p v key /\ key_ok key /\ tx_has d key) <->
  exists xs, parse_integers true v = POk xs /\
    exists x, In x xs /\ (tx_has d (KZ x) \/ ((min_i64 <= x < max_i64)%Z /\ tx_has d (KPiece x))).
Proof.
  split.
  - intros (key & Hq & Hk & Ht). destruct key; cbn [qkeyc] in Hq; try contradiction; destruct Hq as (xs & E & Hin);
      exists xs; (split; [exact E|]).
    + exists z. auto.
    + exists x. cbn [key_ok] in Hk. auto.
  - intros (xs & E & x & Hin & [Ht|[Hb Ht]]).
    + exists (KZ x). split; [exists xs; auto|]. split; [exact I|exact Ht].
    + exists (KPiece x). split; [exists xs; auto|]. split; [exact Hb|exact Ht].
Qed.

Lemma range_tx_keys thr l r x : l <> r ->
  (range_size_lt l r thr = false -> (min_i64 <= l /\ l <= r /\ r <= max_i64)%Z) ->
  let d := if range_size_lt l r thr then TxEq (z_range (Z.to_nat (r - l)) l) else TxRange l r in
  (tx_has d (KZ x) \/ ((min_i64 <= x < max_i64)%Z /\ tx_has d (KPiece x))) <-> (l <= x < r)%Z.
Proof.
  intros Hne Hw. destruct (range_size_lt l r thr); cbn [tx_has].
  - rewrite RangeHolderProof.z_range_spec. split; [intros [H|[_ []]]; lia|]. intros H. left. lia.
  - specialize (Hw eq_refl). unfold norm_r. destruct (Z.eqb_spec l r); [contradiction|]. split.
    + intros [[]|[_ H]]. exact H.
    + intros H. right. split; [lia|exact H].
Qed.

Lemma etx_if (b : bool) (A B : txdata) :
  match (if b then POk A else POk B) with POk d => d | _ => TxIds [] end = if b then A else B.
Proof. destruct b; reflexivity. Qed.

Lemma lhit_ehit thr parsers cfg f v e : expr_ok' parsers cfg f e = true -> erwf thr cfg f e ->
  ((exists key, qkeyc (cfg f) (parsers f) v key /\ key_ok key /\ tx_has (etx thr parsers cfg f e) key) <->
   ehit (cfg f) (parsers f) v e = true).
Proof.
  unfold etx, indexing_tx, expr_ok', erwf. cbn [mkfd fd_cont fd_parser]. destruct (cfg f) eqn:Ec.
  - unfold expr_ok. destruct (e_op e); try discriminate.
    destruct (parse_value (parsers f) (e_val e)) as [ids| | | |] eqn:Ep; try discriminate. intros _ _. cbn [pbind ehit].
    split.
    + intros (key & Hq & _ & Ht). destruct key; cbn [qkeyc tx_has] in Hq, Ht; try contradiction.
      destruct Hq as (qs & Eq & Hin). rewrite Eq. apply existsb_exists. exists v0. split; [exact Hin|].
      unfold RoaringProof.val_hit. rewrite Ep. apply existsb_pid_In. exact Ht.
    + destruct (parse_assign (parsers f) v) as [qs| | | |] eqn:Eq; try discriminate. intros H.
      apply existsb_exists in H. destruct H as (id & Hin & Hv). exists (KId id). split; [exists qs; auto|].
      split; [exact I|]. cbn [tx_has]. unfold RoaringProof.val_hit in Hv. rewrite Ep in Hv. apply existsb_pid_In. exact Hv.
  - destruct (e_op e); try discriminate.
    destruct (ac_parse_dict (e_val e)) as [ks| | | |] eqn:Ep; try discriminate. intros _ _. cbn [pbind ehit]. rewrite Ep.
    split.
    + intros (key & Hq & _ & Ht). destruct key; cbn [qkeyc tx_has] in Hq, Ht; try contradiction.
      destruct Hq as (t & Et & Hne & Hs). rewrite Et. apply andb_true_iff. split; [destruct t; [contradiction|reflexivity]|].
      apply existsb_exists. exists w. auto.
    + destruct (ac_query_text [32%N] v) as [t| | | |] eqn:Et; try discriminate. intros H.
      apply andb_true_iff in H. destruct H as [Hne H]. apply existsb_exists in H. destruct H as (w & Hin & Hs).
      exists (KKw w). split; [|split; [exact I|exact Hin]]. exists t. split; [exact Et|]. split; [|exact Hs].
      intros ->. discriminate.
  - intros Hok Hw. specialize (Hw eq_refl). rewrite range_keys. cbn [ehit].
    assert (Hex : forall P : Z -> Prop, (forall x, P x <-> range_hit e x = true) ->
              ((exists xs, parse_integers true v = POk xs /\ exists x, In x xs /\ P x) <->
               match parse_integers true v with POk xs => existsb (range_hit e) xs | _ => false end = true)).
    { intros P HP. destruct (parse_integers true v) as [xs| | | |]; try (split; [intros (? & ? & _); discriminate|discriminate]).
      rewrite existsb_exists. split.
      - intros (xs' & [= <-] & x & Hin & Hx). exists x. split; [exact Hin|]. apply HP. exact Hx.
      - intros (x & Hin & Hx). exists xs. split; [reflexivity|]. exists x. split; [exact Hin|]. apply HP. exact Hx. }
    apply Hex. intros x. unfold range_hit.
    destruct (e_op e) eqn:Eo; try discriminate.
    + destruct (parse_integers true (e_val e)) as [zs| | | |]; try discriminate. cbn [pbind tx_has].
      rewrite existsb_Zeqb. split; [intros [H|[_ []]]; exact H|auto].
    + destruct (parse_range OpGT true (e_val e)) as [[l r]| | | |] eqn:Ep; try discriminate. cbn [pbind].
      rewrite etx_if, (range_tx_keys thr l r x (parse_range_ne _ _ _ _ Ep) (Hw l r eq_refl)). lia.
    + destruct (parse_range OpLT true (e_val e)) as [[l r]| | | |] eqn:Ep; try discriminate. cbn [pbind].
      rewrite etx_if, (range_tx_keys thr l r x (parse_range_ne _ _ _ _ Ep) (Hw l r eq_refl)). lia.
    + destruct (parse_range OpBetween true (e_val e)) as [[l r]| | | |] eqn:Ep; try discriminate. cbn [pbind].
      rewrite etx_if, (range_tx_keys thr l r x (parse_range_ne _ _ _ _ Ep) (Hw l r eq_refl)). lia.
Qed.

(* ------------------------------------------------------------------------------------------ *)
(* a built index that represents a database *)
Section GQuery.
Variables (kind : index_kind) (pol : policy) (thr : Z) (parsers : fname -> parser_kind) (cfg : fname -> cont_kind).
Variables (st : bstate) (db : cdb).
Hypothesis HF : GInv kind pol thr parsers cfg st.
Hypothesis HR : GRepr kind thr parsers cfg st db.
Hypothesis Hdb60 : forall cid cj, In (cid, cj) db -> (cid < 2^60)%N.
Hypothesis Hdbu : forall cid cj cj', In (cid, cj) db -> In (cid, cj') db -> cj = cj'.
Hypothesis Hdbok : forall cid cj, In (cid, cj) db -> conj_ok' parsers cfg cj = true.
Hypothesis Hdbrw : forall cid cj, In (cid, cj) db -> conj_rwf thr cfg cj.

Notation ix := (build_index st).
Notation ecs k := (nth k (b_conts st) new_econtainer).
Notation cec k := (nth k (ix_conts (build_index st)) new_econtainer).
Notation gfd := (mkfd parsers cfg).
Notation gtx := (etx thr parsers cfg).

Lemma gcec_eq k : cec k = compile_cont (ecs k).
Proof.
  change (ix_conts ix) with (map compile_cont (b_conts st)).
  change new_econtainer with (compile_cont new_econtainer) at 1. apply map_nth.
Qed.

Lemma cec_ECInv k : ECInv cfg (cec k).
Proof.
  rewrite gcec_eq. destruct (gi_ec _ _ _ _ _ _ HF k) as [[pls E] Hh]. split.
  - unfold compile_cont. cbn [ec_default]. rewrite E. cbn [compile_holder]. eexists; reflexivity.
  - intros f h. rewrite fholder_compile. destruct (fholder (ecs k) f) as [h0|] eqn:E0; cbn [option_map]; [|discriminate].
    intros [= <-]. apply compile_HInv. apply Hh. exact E0.
Qed.

Lemma cklist_eq k f key : klist (cec k) f key = sort_entries (klist (ecs k) f key).
Proof. rewrite gcec_eq. apply klist_compile. apply (eci_def _ _ (gi_ec _ _ _ _ _ _ HF k)). Qed.

Lemma cklist_In k f key x : key_ok key ->
  (In x (klist (cec k) f key) <->
   exists cid cj es e, In (cid, cj) db /\ cidx kind (calc_size cj) = k /\ In (f, es) cj /\ In e es /\
     tx_has (gtx f e) key /\ x = IdsGen.NewEntryID cid (e_incl e)).
Proof. intros Hk. rewrite cklist_eq, sort_entries_In. apply (gr_kl _ _ _ _ _ _ HR). exact Hk. Qed.

Lemma cklist_sorted k f key : sortedN (klist (cec k) f key).
Proof. rewrite cklist_eq. apply sort_entries_sortedN. Qed.

Lemma cklist_wf k f key x : key_ok key -> In x (klist (cec k) f key) -> wf_entry x.
Proof.
  intros Hk Hx. apply (cklist_In k f key x Hk) in Hx. destruct Hx as (cid & cj & es & e & H1 & _ & _ & _ & _ & ->).
  apply new_entry_wf. eapply Hdb60; eassumption.
Qed.

Lemma find_field_gfd f fd : find_field f (b_fields st) = Some fd -> fd = gfd f.
Proof.
  intros Ef. apply find_field_some in Ef. destruct Ef as [Hin Hn].
  pose proof (gi_fields _ _ _ _ _ _ HF) as D. rewrite Forall_forall in D. rewrite (D _ Hin), Hn. reflexivity.
Qed.

(* ---- the posting lists selected in one container for one assigned field ---- *)
Definition qvok (f : fname) (v : gval) : bool := qv_ok (cfg f) (parsers f) v.
Definition qkey (f : fname) (v : gval) (key : key) : Prop := qkeyc (cfg f) (parsers f) v key.

Definition gsel (k : nat) (f : fname) (v : gval) : list (list N) :=
  match find_field f (b_fields st) with
  | None => []
  | Some fd =>
    match get_holder (cec k) fd with
    | None => []
    | Some h => match get_entries fd (fd_name fd) h v with POk ls => ls | _ => [] end
    end
  end.

Lemma klist_hlist ec f h key : fholder ec f = Some h -> (forall v, key <> KId v) -> klist ec f key = hlist h key.
Proof. intros E Hk. destruct key; cbn [klist]; try rewrite E; try reflexivity. destruct (Hk v eq_refl). Qed.

Lemma gsel_spec k f v : qvok f v = true ->
  (forall fd h, find_field f (b_fields st) = Some fd -> get_holder (cec k) fd = Some h ->
     get_entries fd (fd_name fd) h v = POk (gsel k f v)) /\
  Forall (fun l => l <> [] /\ exists key, key_ok key /\ l = klist (cec k) f key) (gsel k f v) /\
  forall x, In x (concat (gsel k f v)) <-> exists key, qkey f v key /\ key_ok key /\ In x (klist (cec k) f key).
Proof.
  intros Hq. unfold gsel, qvok, qkey in *. destruct (find_field f (b_fields st)) as [fd|] eqn:Ef.
  - apply find_field_gfd in Ef. subst fd.
    destruct (cec_ECInv k) as [[cpl Ecpl] Hh].
    assert (Hgh : get_holder (cec k) (gfd f) =
                  match cfg f with CDefault => Some (HDefault cpl) | _ => fholder (cec k) f end).
    { unfold get_holder. cbn [mkfd fd_cont fd_name]. rewrite Ecpl. reflexivity. }
    rewrite Hgh. cbn [mkfd fd_name].
    destruct (cfg f) eqn:Ec.
    + (* default holder *)
      cbn [qv_ok] in Hq. destruct (parse_assign (parsers f) v) as [ids| | | |] eqn:Ep; try discriminate.
      cbn [get_entries mkfd fd_parser]. rewrite Ep. cbn [pbind]. fold (sel cpl f ids).
      assert (Hpl : forall id, plist (cec k) f id = lk term_key_eqb (f, id) cpl) by (intros id; unfold plist; rewrite Ecpl; reflexivity).
      split; [|split].
      * intros fd h [= <-] Eh. rewrite Hgh in Eh. inversion Eh; subst h. cbn [get_entries mkfd fd_parser fd_name]. rewrite Ep. reflexivity.
      * apply Forall_forall. intros l Hl. apply sel_In in Hl. destruct Hl as [Hne (id & _ & E)]. split; [exact Hne|].
        exists (KId id). split; [exact I|]. cbn [klist]. rewrite Hpl. symmetry. apply lk_some. exact E.
      * intros x. rewrite sel_concat_In. split.
        -- intros (id & Hid & Hx). exists (KId id). split; [exists ids; auto|]. split; [exact I|]. cbn [klist]. rewrite Hpl. exact Hx.
        -- intros (key & Hk & _ & Hx). destruct key; cbn [qkeyc] in Hk; try contradiction.
           destruct Hk as (ids' & Ei & Hin). rewrite Ep in Ei. inversion Ei; subst ids'. exists v0. split; [exact Hin|]. cbn [klist] in Hx. rewrite Hpl in Hx. exact Hx.
    + (* pattern holder *)
      destruct (fholder (cec k) f) as [h|] eqn:Eh.
      * pose proof (Hh f h Eh) as Hi. rewrite Ec in Hi.
        destruct (holder_entries CAc (parsers f) (gfd f) f h v ltac:(discriminate) Hi Hq) as (ls & E & Hf & Hx).
        rewrite E. split; [|split].
        -- intros fd h' [= <-] Eh'. rewrite Hgh in Eh'. inversion Eh'; subst h'. exact E.
        -- eapply Forall_impl; [|exact Hf]. intros l [Hne (key & Hk & ->)]. split; [exact Hne|]. exists key. split; [exact Hk|].
           symmetry. apply klist_hlist; [exact Eh|]. intros v0 ->. rewrite hlist_KId in Hne. contradiction.
        -- intros x. rewrite Hx. split; intros (key & Hk & Hok & Hin); exists key; (split; [exact Hk|]; split; [exact Hok|]).
           ++ rewrite (klist_hlist _ _ _ _ Eh); [exact Hin|]. intros v0 ->. rewrite hlist_KId in Hin. destruct Hin.
           ++ rewrite (klist_hlist _ _ _ _ Eh) in Hin; [exact Hin|]. intros v0 ->. exact Hk.
      * split; [intros fd h [= <-] Eh'; rewrite Hgh in Eh'; discriminate|]. split; [constructor|]. intros x. cbn [concat In]. split; [intros []|].
        intros (key & Hk & _ & Hin). destruct key; cbn [qkeyc] in Hk; try contradiction.
        cbn [klist] in Hin. rewrite Eh in Hin. exact Hin.
    + (* range holder *)
      destruct (fholder (cec k) f) as [h|] eqn:Eh.
      * pose proof (Hh f h Eh) as Hi. rewrite Ec in Hi.
        destruct (holder_entries CRange (parsers f) (gfd f) f h v ltac:(discriminate) Hi Hq) as (ls & E & Hf & Hx).
        rewrite E. split; [|split].
        -- intros fd h' [= <-] Eh'. rewrite Hgh in Eh'. inversion Eh'; subst h'. exact E.
        -- eapply Forall_impl; [|exact Hf]. intros l [Hne (key & Hk & ->)]. split; [exact Hne|]. exists key. split; [exact Hk|].
           symmetry. apply klist_hlist; [exact Eh|]. intros v0 ->. rewrite hlist_KId in Hne. contradiction.
        -- intros x. rewrite Hx. split; intros (key & Hk & Hok & Hin); exists key; (split; [exact Hk|]; split; [exact Hok|]).
           ++ rewrite (klist_hlist _ _ _ _ Eh); [exact Hin|]. intros v0 ->. rewrite hlist_KId in Hin. destruct Hin.
           ++ rewrite (klist_hlist _ _ _ _ Eh) in Hin; [exact Hin|]. intros v0 ->. exact Hk.
      * split; [intros fd h [= <-] Eh'; rewrite Hgh in Eh'; discriminate|]. split; [constructor|]. intros x. cbn [concat In]. split; [intros []|].
        intros (key & Hk & _ & Hin). destruct key; cbn [qkeyc] in Hk; try contradiction;
          cbn [klist] in Hin; rewrite Eh in Hin; exact Hin.
  - split; [intros fd h [=]|]. split; [constructor|]. intros x. cbn [concat In]. split; [intros []|].
    intros (key & _ & Hok & Hin). apply (cklist_In k f key x Hok) in Hin.
    destruct Hin as (cid & cj & es & e & H1 & _ & H3 & H4 & _).
    apply (gr_known _ _ _ _ _ _ HR cid cj f es H1 H3); [intros ->; destruct H4|exact Ef].
Qed.

Lemma gsel_wf k f v : qvok f v = true ->
  Forall sortedN (gsel k f v) /\ Forall (fun l => forall x, In x l -> wf_entry x) (gsel k f v) /\
  Forall (fun l => l <> []) (gsel k f v).
Proof.
  intros Hq. destruct (gsel_spec k f v Hq) as (_ & Hf & _). rewrite Forall_forall in Hf.
  split; [|split]; apply Forall_forall; intros l Hl; destruct (Hf l Hl) as [Hne (key & Hk & ->)].
  - apply cklist_sorted.
  - intros x. apply cklist_wf. exact Hk.
  - exact Hne.
Qed.

(* ---- streams of one container for an assignment ---- *)
Definition gfstream (k : nat) (fv : fname * gval) : stream :=
  sort_stream (map dec (concat (gsel k (fst fv) (snd fv)))).
Definition hit (f : fname) (v : gval) (e : expr) : Prop := ehit (cfg f) (parsers f) v e = true.

Lemma db_expr_ok cid cj f es e : In (cid, cj) db -> In (f, es) cj -> In e es ->
  expr_ok' parsers cfg f e = true /\ erwf thr cfg f e.
Proof.
  intros Hc Hf He. split; [|eapply Hdbrw; eassumption].
  pose proof (Hdbok _ _ Hc) as Hok. unfold conj_ok' in Hok. rewrite forallb_forall in Hok.
  specialize (Hok _ Hf). cbn [fst snd] in Hok. rewrite forallb_forall in Hok. apply Hok. exact He.
Qed.

Lemma gfstream_mem k f v c b : qvok f v = true ->
  (mem (c, b) (gfstream k (f, v)) = true <->
   exists cj es e, In (c, cj) db /\ cidx kind (calc_size cj) = k /\ In (f, es) cj /\ In e es /\
                   e_incl e = b /\ hit f v e).
Proof.
  intros Hq. unfold gfstream. cbn [fst snd]. rewrite sort_stream_mem, in_map_iff.
  destruct (gsel_spec k f v Hq) as (_ & _ & Hx). split.
  - intros (x & Hd & Hin). apply Hx in Hin. destruct Hin as (key & Hk & Hok & Hin).
    apply (cklist_In k f key x Hok) in Hin. destruct Hin as (cid & cj & es & e & H1 & H2 & H3 & H4 & H5 & ->).
    destruct (new_entry_wf cid (e_incl e) (Hdb60 _ _ H1)) as [_ Hdec]. rewrite Hdec in Hd. inversion Hd; subst.
    exists cj, es, e. repeat split; auto. destruct (db_expr_ok _ _ _ _ _ H1 H3 H4) as [Ho Hw].
    apply (lhit_ehit thr parsers cfg f v e Ho Hw). exists key. auto.
  - intros (cj & es & e & H1 & H2 & H3 & H4 & H5 & Hh). destruct (db_expr_ok _ _ _ _ _ H1 H3 H4) as [Ho Hw].
    apply (lhit_ehit thr parsers cfg f v e Ho Hw) in Hh. destruct Hh as (key & Hk & Hok & Ht).
    exists (IdsGen.NewEntryID c (e_incl e)). split.
    + destruct (new_entry_wf c (e_incl e) (Hdb60 _ _ H1)) as [_ Hdec]. rewrite Hdec, H5. reflexivity.
    + apply Hx. exists key. split; [exact Hk|]. split; [exact Hok|]. apply (cklist_In k f key _ Hok).
      exists c, cj, es, e. repeat split; auto.
Qed.

Lemma ginit_cursors k : forall q : assignment, (forall f v, In (f, v) q -> qvok f v = true) ->
  exists cs, init_field_cursors (ix_fields ix) (cec k) q = POk cs /\
    Forall2 Rel cs (filter nonempty_s (map (gfstream k) q)) /\ Forall live cs.
Proof.
  induction q as [|[f v] q IH]; intros Hp; cbn [init_field_cursors map filter].
  - exists []. repeat constructor.
  - destruct IH as (rest & Er & HF2 & HL). { intros f' v' H. apply Hp. right. exact H. }
    pose proof (Hp f v (or_introl eq_refl)) as Hq.
    destruct (gsel_spec k f v Hq) as (Hget & _ & _). destruct (gsel_wf k f v Hq) as (Hs & Hw & Hn).
    assert (Hskip : gsel k f v = [] -> exists cs, pbind (init_field_cursors (ix_fields ix) (cec k) q) (fun rest0 => POk rest0) = POk cs /\
              Forall2 Rel cs (if nonempty_s (gfstream k (f, v)) then gfstream k (f, v) :: filter nonempty_s (map (gfstream k) q)
                              else filter nonempty_s (map (gfstream k) q)) /\ Forall live cs).
    { intros E. unfold gfstream at 1. cbn [fst snd]. rewrite E. cbn [concat map]. change (sort_stream []) with (@nil entry).
      cbn [nonempty_s]. exists rest. rewrite Er. auto. }
    change (ix_fields ix) with (b_fields st) in *.
    destruct (find_field f (b_fields st)) as [fd|] eqn:Ef.
    + destruct (get_holder (cec k) fd) as [h|] eqn:Eh.
      * rewrite (Hget fd h eq_refl Eh). cbn [pbind]. rewrite Er. cbn [pbind].
        destruct (gsel k f v) as [|l ls] eqn:Es.
        -- destruct (Hskip eq_refl) as (cs & E & H). rewrite Er in E. cbn [pbind] in E. inversion E; subst cs.
           exists rest. split; [reflexivity|exact H].
        -- exists (new_fcursor (l :: ls) :: rest). split; [reflexivity|].
           assert (Efs : gfstream k (f, v) = sort_stream (map dec (concat (l :: ls)))).
           { unfold gfstream. cbn [fst snd]. rewrite Es. reflexivity. }
           assert (Hne : nonempty_s (gfstream k (f, v)) = true).
           { rewrite Efs. destruct (sort_stream (map dec (concat (l :: ls)))) eqn:E; [|reflexivity].
             apply (proj1 (sort_stream_nil _)) in E. inversion Hn; subst. destruct l; [contradiction|discriminate]. }
           rewrite Hne. split.
           ++ constructor; [|exact HF2]. rewrite Efs. apply Rel_new; [discriminate|exact Hs|exact Hw].
           ++ constructor; [|exact HL]. apply live_new; [discriminate|exact Hs|exact Hw|exact Hn].
      * assert (E : gsel k f v = []) by (unfold gsel; rewrite Ef, Eh; reflexivity).
        destruct (Hskip E) as (cs & E' & H). rewrite Er in E'. cbn [pbind] in E'. inversion E'; subst cs.
        exists rest. split; [exact Er|exact H].
    + assert (E : gsel k f v = []) by (unfold gsel; rewrite Ef; reflexivity).
      destruct (Hskip E) as (cs & E' & H). rewrite Er in E'. cbn [pbind] in E'. inversion E'; subst cs.
      exists rest. split; [exact Er|exact H].
Qed.

(* ---- the assignment ---- *)
Variable q : assignment.
Hypothesis Hq : NoDup (map fst q).
Hypothesis Hqp : forall f v, In (f, v) q -> qvok f v = true.
Hypothesis Hqnil : forall f v, In (f, v) q -> cfg f = CAc -> nil_slice_wf v.
Hypothesis Hcj : forall cid cj, In (cid, cj) db -> NoDup (map fst cj).

Definition gQe (k : nat) (e : entry) : list (fname * gval) := filter (fun fv => mem e (gfstream k fv)) q.
Definition gfss (k : nat) : list stream := filter nonempty_s (map (gfstream k) q).

Lemma cnt_gfss k e : cnt e (gfss k) = length (gQe k e).
Proof. unfold gfss, gQe. rewrite cnt_filter_nonempty, cnt_map. reflexivity. Qed.

Lemma gQe_In k c cj b f v : In (c, cj) db ->
  (In (f, v) (gQe k (c, b)) <->
   In (f, v) q /\ cidx kind (calc_size cj) = k /\
   exists es e, In (f, es) cj /\ In e es /\ e_incl e = b /\ hit f v e).
Proof.
  intros Hc. unfold gQe. rewrite filter_In. split.
  - intros [H1 Hm]. apply (gfstream_mem k f v c b (Hqp f v H1)) in Hm. destruct Hm as (cj' & es & e & H2 & H3 & H4).
    assert (cj' = cj) by (eapply Hdbu; eassumption). subst cj'.
    split; [exact H1|]. split; [exact H3|]. exists es, e. exact H4.
  - intros [H1 [H2 (es & e & H3)]]. split; [exact H1|]. apply (gfstream_mem k f v c b (Hqp f v H1)). exists cj, es, e. auto.
Qed.

Lemma gQe_nonempty_db k x b : gQe k (x, b) <> [] -> exists cj, In (x, cj) db /\ cidx kind (calc_size cj) = k.
Proof.
  destruct (gQe k (x, b)) as [|[f v] r] eqn:E; [congruence|]. intros _.
  assert (Hin : In (f, v) (gQe k (x, b))) by (rewrite E; left; reflexivity).
  unfold gQe in Hin. apply filter_In in Hin. destruct Hin as [Hv Hm]. apply (gfstream_mem k f v x b (Hqp f v Hv)) in Hm.
  destruct Hm as (cj & es & e & H1 & H2 & _). exists cj. auto.
Qed.

Lemma gQe_true_le k c cj : In (c, cj) db -> (length (gQe k (c, true)) <= Z.to_nat (calc_size cj))%nat.
Proof.
  intros Hc. rewrite <- incl_fields_length, <- (map_length fst (gQe k (c, true))). apply NoDup_incl_length.
  - apply NoDup_map_filter. exact Hq.
  - intros f Hf. apply in_map_iff in Hf. destruct Hf as ([g v] & <- & Hin). cbn [fst].
    apply (gQe_In k c cj true g v Hc) in Hin. destruct Hin as (_ & _ & es & e & H1 & H2 & H3 & _).
    apply incl_fields_In. exists es. split; [exact H1|]. apply existsb_exists. exists e. auto.
Qed.

(* hits in terms of the value assigned to the field (nil when unassigned) *)
Definition hitf (f : fname) (e : expr) : Prop := hit f (field_val q f) e.

Lemma gfield_val_In f v : In (f, v) q -> field_val q f = v.
Proof. intros H. unfold field_val, RoaringProof.field_val. rewrite (In_alookup f q v Hq H). reflexivity. Qed.

Lemma hit_hitf f e : (exists v, In (f, v) q /\ hit f v e) <-> hitf f e.
Proof.
  split.
  - intros (v & Hin & Hh). unfold hitf. rewrite (gfield_val_In f v Hin). exact Hh.
  - unfold hitf, hit, field_val, RoaringProof.field_val. destruct (alookup N.eqb f q) as [v|] eqn:E.
    + intros H. exists v. split; [apply alookup_In; exact E|exact H].
    + rewrite ehit_VNil. discriminate.
Qed.

Lemma conj_sat'_iff cj :
  conj_sat' parsers cfg q cj = true <->
  forall f es, In (f, es) cj ->
    ((forall e, In e es -> e_incl e = false) \/ exists e, In e es /\ e_incl e = true /\ hitf f e) /\
    (forall e, In e es -> e_incl e = false -> ~ hitf f e).
Proof.
  unfold conj_sat'. rewrite forallb_forall. split.
  - intros H f es Hin. specialize (H (f, es) Hin). cbn [fst snd] in H. apply field_sat'_iff in H.
    destruct H as [Hi He]. split; [exact Hi|]. intros e H1 H2 Hh. unfold hitf, hit in Hh. rewrite (He e H1 H2) in Hh. discriminate.
  - intros H [f es] Hin. cbn [fst snd]. apply field_sat'_iff. destruct (H f es Hin) as [Hi He]. split; [exact Hi|].
    intros e H1 H2. destruct (ehit (cfg f) (parsers f) (field_val q f) e) eqn:E; [|reflexivity].
    exfalso. apply (He e H1 H2). exact E.
Qed.

Lemma no_excl_iff k c cj : In (c, cj) db -> cidx kind (calc_size cj) = k ->
  (length (gQe k (c, false)) = O <->
   forall f es e, In (f, es) cj -> In e es -> e_incl e = false -> ~ hitf f e).
Proof.
  intros Hc Hk. split.
  - intros Hl f es e H1 H2 H3 Hh. apply hit_hitf in Hh. destruct Hh as (v & Hv & Hh).
    assert (Hin : In (f, v) (gQe k (c, false))).
    { apply (gQe_In k c cj false f v Hc). split; [exact Hv|]. split; [exact Hk|]. exists es, e. auto. }
    destruct (gQe k (c, false)); [destruct Hin|discriminate].
  - intros H. destruct (gQe k (c, false)) as [|[f v] r] eqn:E; [reflexivity|exfalso].
    assert (Hin : In (f, v) (gQe k (c, false))) by (rewrite E; left; reflexivity).
    apply (gQe_In k c cj false f v Hc) in Hin. destruct Hin as (Hv & _ & es & e & H1 & H2 & H3 & H4).
    apply (H f es e H1 H2 H3). apply hit_hitf. exists v. auto.
Qed.

Lemma all_incl_iff k c cj : In (c, cj) db -> cidx kind (calc_size cj) = k ->
  ((Z.to_nat (calc_size cj) <= length (gQe k (c, true)))%nat <->
   forall f es, In (f, es) cj -> existsb e_incl es = true -> exists e, In e es /\ e_incl e = true /\ hitf f e).
Proof.
  intros Hc Hk. rewrite <- incl_fields_length, <- (map_length fst (gQe k (c, true))).
  assert (Hsub : incl (map fst (gQe k (c, true))) (incl_fields cj)).
  { intros f Hf. apply in_map_iff in Hf. destruct Hf as ([g v] & <- & Hin). cbn [fst].
    apply (gQe_In k c cj true g v Hc) in Hin. destruct Hin as (_ & _ & es & e & H1 & H2 & H3 & _).
    apply incl_fields_In. exists es. split; [exact H1|]. apply existsb_exists. exists e. auto. }
  assert (Hnd : NoDup (map fst (gQe k (c, true)))) by (apply NoDup_map_filter; exact Hq).
  split.
  - intros Hlen f es H1 H2.
    assert (Hincl : incl (incl_fields cj) (map fst (gQe k (c, true)))) by (apply NoDup_length_incl; assumption).
    assert (Hf : In f (incl_fields cj)) by (apply incl_fields_In; exists es; auto).
    apply Hincl in Hf. apply in_map_iff in Hf. destruct Hf as ([g v] & Eg & Hin). cbn [fst] in Eg. subst g.
    apply (gQe_In k c cj true f v Hc) in Hin. destruct Hin as (Hv & _ & es' & e & H3 & H4 & H5 & H6).
    assert (es' = es) by (eapply NoDup_fst_unique; [eapply Hcj; exact Hc|exact H3|exact H1]).
    subst es'. exists e. split; [exact H4|]. split; [exact H5|]. apply hit_hitf. exists v. auto.
  - intros H. apply NoDup_incl_length.
    + unfold incl_fields. apply NoDup_map_filter. eapply Hcj; eassumption.
    + intros f Hf. apply incl_fields_In in Hf. destruct Hf as (es & H1 & H2).
      destruct (H f es H1 H2) as (e & H3 & H4 & H5). apply hit_hitf in H5. destruct H5 as (v & Hv & Hh).
      apply in_map_iff. exists (f, v). split; [reflexivity|].
      apply (gQe_In k c cj true f v Hc). split; [exact Hv|]. split; [exact Hk|]. exists es, e. auto.
Qed.

Lemma conj_sat'_cnt k c cj : In (c, cj) db -> cidx kind (calc_size cj) = k ->
  (conj_sat' parsers cfg q cj = true <->
   length (gQe k (c, false)) = O /\ (Z.to_nat (calc_size cj) <= length (gQe k (c, true)))%nat).
Proof.
  intros Hc Hk. rewrite conj_sat'_iff, (no_excl_iff k c cj Hc Hk), (all_incl_iff k c cj Hc Hk). split.
  - intros H. split.
    + intros f es e H1 H2 H3. destruct (H f es H1) as [_ He]. apply He; assumption.
    + intros f es H1 H2. destruct (H f es H1) as [[Hi|Hi] _]; [|exact Hi].
      apply existsb_exists in H2. destruct H2 as (e & H3 & H4). rewrite (Hi e H3) in H4. discriminate.
  - intros [He Hi] f es H1. split.
    + destruct (existsb e_incl es) eqn:E; [right; apply (Hi f es H1 E)|left].
      intros e H2. destruct (e_incl e) eqn:E2; [|reflexivity].
      assert (existsb e_incl es = true) by (apply existsb_exists; exists e; auto). congruence.
    + intros e H2 H3. apply (He f es e H1 H2 H3).
Qed.

(* ---- the wildcard (Z) stream ---- *)
Definition gzstream : stream := sort_stream (map dec (concat [ix_z ix])).
Definition gzpart : list stream := match ix_z ix with [] => [] | _ => [gzstream] end.

Lemma gz_entry x : In x (ix_z ix) <->
  exists cid cj, In (cid, cj) db /\ calc_size cj = 0%Z /\ x = IdsGen.NewEntryID cid true.
Proof. change (ix_z ix) with (sort_entries (b_z st)). rewrite sort_entries_In. apply (gr_z _ _ _ _ _ _ HR). Qed.

Lemma gz_cursor_rel : Forall2 Rel (z_cursor (ix_z ix)) gzpart /\ Forall live (z_cursor (ix_z ix)).
Proof.
  unfold z_cursor, gzpart, gzstream. pose proof gz_entry as Hz.
  assert (Hs : sortedN (ix_z ix)) by apply sort_entries_sortedN.
  destruct (ix_z ix) as [|n l]; [split; constructor|].
  assert (H1 : Forall sortedN [n :: l]) by (constructor; [exact Hs|constructor]).
  assert (H2 : Forall (fun l0 : list N => forall x, In x l0 -> wf_entry x) [n :: l]).
  { constructor; [|constructor]. intros x Hx. apply Hz in Hx. destruct Hx as (cid & cj & Hc & _ & ->).
    apply new_entry_wf. eapply Hdb60; eassumption. }
  split; (constructor; [|constructor]).
  - apply Rel_new; [discriminate|exact H1|exact H2].
  - apply live_new; [discriminate|exact H1|exact H2|]. constructor; [discriminate|constructor].
Qed.

Lemma gzstream_mem c b : mem (c, b) gzstream = true <-> b = true /\ exists cj, In (c, cj) db /\ calc_size cj = 0%Z.
Proof.
  unfold gzstream. rewrite sort_stream_mem, in_map_iff. cbn [concat]. rewrite app_nil_r. split.
  - intros (x & Hd & Hx). apply gz_entry in Hx. destruct Hx as (cid & cj & Hc & H0 & ->).
    destruct (new_entry_wf cid true (Hdb60 _ _ Hc)) as [_ Hdec]. rewrite Hdec in Hd. inversion Hd; subst.
    split; [reflexivity|]. exists cj. auto.
  - intros (-> & cj & Hc & H0). exists (IdsGen.NewEntryID c true). split.
    + apply (new_entry_wf c true (Hdb60 _ _ Hc)).
    + apply gz_entry. exists c, cj. auto.
Qed.

Lemma gzstream_excl c : mem (c, false) gzstream = false.
Proof. destruct (mem (c, false) gzstream) eqn:E; [|reflexivity]. apply gzstream_mem in E. destruct E; discriminate. Qed.

Lemma gzpart_cnt e : cnt e gzpart = if mem e gzstream then 1%nat else 0%nat.
Proof.
  unfold gzpart. destruct (ix_z ix) as [|n l] eqn:E.
  - unfold gzstream. rewrite E. reflexivity.
  - unfold cnt. cbn [filter]. destruct (mem e gzstream); reflexivity.
Qed.

(* ------------------------------------------------------------------------------------------ *)
(* the k-groups index *)
Section GKG.
Hypothesis Hkind : kind = IKGroups.

Lemma gcidx_kg s : cidx kind s = Z.to_nat s.
Proof. unfold cidx. rewrite Hkind. reflexivity. Qed.

Section GOneK.
Variable k : nat.
Definition gkss : list stream := (match k with O => gzpart | _ => [] end) ++ gfss k.
Definition gkneed : nat := Nat.max k 1.

Lemma gkss_cnt e :
  cnt e gkss = ((match k with O => if mem e gzstream then 1 else 0 | _ => 0 end) + length (gQe k e))%nat.
Proof. unfold gkss. rewrite cnt_app, cnt_gfss. destruct k; [rewrite gzpart_cnt|]; reflexivity. Qed.

Lemma gkss_bound x : (cnt (x, true) gkss <= gkneed)%nat.
Proof.
  rewrite gkss_cnt. unfold gkneed. destruct (gQe k (x, true)) as [|fv r] eqn:E.
  - cbn [length]. destruct k; [destruct (mem (x, true) gzstream)|]; lia.
  - destruct (gQe_nonempty_db k x true) as (cj & Hc & Hk); [rewrite E; discriminate|].
    pose proof (gQe_true_le k x cj Hc) as Hle. rewrite E in Hle. cbn [length] in *. rewrite gcidx_kg in Hk.
    destruct k; lia.
Qed.

Lemma gkss_sat x : sat gkneed gkss x <->
  exists cj, In (x, cj) db /\ Z.to_nat (calc_size cj) = k /\ conj_sat' parsers cfg q cj = true.
Proof.
  unfold sat, gkneed. rewrite !gkss_cnt. split.
  - intros [Hf Ht].
    assert (Hex : exists cj, In (x, cj) db /\ Z.to_nat (calc_size cj) = k).
    { destruct (gQe k (x, true)) as [|fv r] eqn:E.
      - cbn [length] in Ht. destruct k; [|lia]. destruct (mem (x, true) gzstream) eqn:Em; [|lia].
        apply gzstream_mem in Em. destruct Em as (_ & cj & Hc & H0). exists cj. split; [exact Hc|lia].
      - destruct (gQe_nonempty_db k x true) as (cj & Hc & Hk); [rewrite E; discriminate|].
        rewrite gcidx_kg in Hk. exists cj. auto. }
    destruct Hex as (cj & Hc & Hk). exists cj. split; [exact Hc|]. split; [exact Hk|].
    apply (conj_sat'_cnt k x cj Hc); [rewrite gcidx_kg; exact Hk|]. split; [lia|].
    rewrite Hk. destruct k; lia.
  - intros (cj & Hc & Hk & Hs). apply (conj_sat'_cnt k x cj Hc) in Hs; [|rewrite gcidx_kg; exact Hk].
    destruct Hs as [He Hi]. rewrite Hk in Hi. rewrite He. split.
    + destruct k; [rewrite gzstream_excl|]; reflexivity.
    + destruct k; [|lia].
      assert (Em : mem (x, true) gzstream = true).
      { apply gzstream_mem. split; [reflexivity|]. exists cj. split; [exact Hc|]. pose proof (calc_size_nonneg cj). lia. }
      rewrite Em. lia.
Qed.

Lemma gkg_step : exists fcs hk,
  init_field_cursors (ix_fields ix) (cec k) q = POk fcs /\
  retrieve_k gkneed ((match k with O => z_cursor (ix_z ix) | _ => [] end) ++ fcs) [] = Some hk /\
  (forall x, In x (map snd hk) <->
     exists cj, In (x, cj) db /\ Z.to_nat (calc_size cj) = k /\ conj_sat' parsers cfg q cj = true) /\
  NoDup (map snd hk) /\ (forall h, In h hk -> fst h = IdsGen.ConjID_DocID (snd h)).
Proof.
  destruct (ginit_cursors k q Hqp) as (fcs & E1 & HF2 & _).
  assert (HR2 : Forall2 Rel ((match k with O => z_cursor (ix_z ix) | _ => [] end) ++ fcs) gkss).
  { unfold gkss. apply Forall2_app; [|exact HF2]. destruct k; [apply gz_cursor_rel|constructor]. }
  destruct (retrieve_k_correct gkneed _ _ ltac:(unfold gkneed; lia) HR2 gkss_bound) as (hk & E2 & H3 & H4 & H5).
  exists fcs, hk. split; [exact E1|]. split; [exact E2|]. split; [|split; assumption].
  intros x. rewrite H3. apply gkss_sat.
Qed.
End GOneK.

Lemma gkgroups_from_correct : forall k res0, exists hits,
  kgroups_from ix q k res0 = ROk (res0 ++ hits) /\ NoDup (map snd hits) /\
  (forall x, In x (map snd hits) <->
     exists cj, In (x, cj) db /\ (Z.to_nat (calc_size cj) <= k)%nat /\ conj_sat' parsers cfg q cj = true) /\
  (forall h, In h hits -> fst h = IdsGen.ConjID_DocID (snd h)).
Proof.
  induction k as [|k IH]; intros res0; cbn [kgroups_from].
  - destruct (gkg_step O) as (fcs & hk & E1 & E2 & H3 & H4 & H5); unfold gkneed in E2;
    rewrite E1; cbn [pres_to_rres]; rewrite retrieve_k_acc, E2; cbn [option_map].
    exists hk. split; [reflexivity|]. split; [exact H4|]. split; [|exact H5].
    intros x. rewrite H3. split; intros (cj & A & B & C); exists cj; (split; [exact A|]; split; [lia|exact C]).
  - destruct (gkg_step (S k)) as (fcs & hk & E1 & E2 & H3 & H4 & H5); unfold gkneed in E2;
    rewrite E1; cbn [pres_to_rres]; rewrite retrieve_k_acc, E2; cbn [option_map].
    destruct (IH (res0 ++ hk)) as (hits & E & N1 & I1 & O1). rewrite E. exists (hk ++ hits).
    split; [rewrite app_assoc; reflexivity|]. split; [|split].
    + rewrite map_app. apply RoaringProof.NoDup_app'; [exact H4|exact N1|].
      intros x Hx Hx'. apply H3 in Hx. apply I1 in Hx'. destruct Hx as (cj & A & B & _), Hx' as (cj' & A' & B' & _).
      assert (cj = cj') by (eapply Hdbu; eassumption). subst cj'. lia.
    + intros x. rewrite map_app, in_app_iff, H3, I1. split.
      * intros [(cj & A & B & C)|(cj & A & B & C)]; exists cj; (split; [exact A|]; split; [lia|exact C]).
      * intros (cj & A & B & C). destruct (Nat.eq_dec (Z.to_nat (calc_size cj)) (S k)) as [Ek|Ek].
        -- left. exists cj. auto.
        -- right. exists cj. split; [exact A|]. split; [lia|exact C].
    + intros h Hh. apply in_app_or in Hh. destruct Hh; auto.
Qed.

(* a satisfied conjunction of size k needs k assigned fields with non-nil values *)
Lemma gsat_size_le c cj : In (c, cj) db -> conj_sat' parsers cfg q cj = true ->
  (Z.to_nat (calc_size cj) <= length (filter (fun fv => nonnil (snd fv)) q))%nat.
Proof.
  intros Hc Hs. rewrite <- incl_fields_length, <- (map_length fst (filter (fun fv => nonnil (snd fv)) q)).
  apply NoDup_incl_length.
  - unfold incl_fields. apply NoDup_map_filter. eapply Hcj; eassumption.
  - intros f Hf. apply incl_fields_In in Hf. destruct Hf as (es & H1 & H2).
    rewrite conj_sat'_iff in Hs. destruct (Hs f es H1) as [[Hi|(e & H3 & H4 & Hh)] _].
    + apply existsb_exists in H2. destruct H2 as (e & H3 & H4). rewrite (Hi e H3) in H4. discriminate.
    + apply hit_hitf in Hh. destruct Hh as (v & Hv & Hh).
      apply in_map_iff. exists (f, v). split; [reflexivity|]. apply filter_In. split; [exact Hv|]. cbn [snd].
      eapply ehit_nonnil; [|exact Hh]. intros Ec. apply (Hqnil f v Hv Ec).
Qed.

Theorem gkgroups_hits_correct : exists hits,
  retrieve_hits ix q = ROk hits /\ NoDup (map snd hits) /\
  (forall x, In x (map snd hits) <-> exists cj, In (x, cj) db /\ conj_sat' parsers cfg q cj = true) /\
  (forall h, In h hits -> fst h = IdsGen.ConjID_DocID (snd h)).
Proof.
  unfold retrieve_hits. change (ix_kind ix) with (b_kind st). rewrite (gi_kind _ _ _ _ _ _ HF), Hkind.
  unfold retrieve_kgroups_hits.
  rewrite (assign_size_g q (fun f v H => qv_ok_nil_interface _ _ _ (Hqp f v H))). cbn [pres_to_rres].
  change (ix_conts ix) with (map compile_cont (b_conts st)). rewrite map_length.
  set (sz := Z.of_nat (length (filter (fun fv => nonnil (snd fv)) q))).
  set (k0 := Z.min sz (Z.of_nat (length (b_conts st)) - 1)).
  destruct (Z.ltb_spec k0 0) as [Hlt|Hge].
  - exists []. split; [reflexivity|]. split; [constructor|]. split; [|intros h []].
    intros x. split; [intros []|]. intros (cj & Hc & _). pose proof (gr_len _ _ _ _ _ _ HR _ _ Hc). lia.
  - destruct (gkgroups_from_correct (Z.to_nat k0) []) as (hits & E & N1 & I1 & O1).
    change (map compile_cont (b_conts st)) with (ix_conts ix) in E.
    exists hits. split; [exact E|]. split; [exact N1|]. split; [|exact O1].
    intros x. rewrite I1. split.
    + intros (cj & A & _ & C). exists cj. auto.
    + intros (cj & A & C). exists cj. split; [exact A|]. split; [|exact C].
      pose proof (gr_len _ _ _ _ _ _ HR _ _ A) as Hl. rewrite gcidx_kg in Hl.
      pose proof (gsat_size_le x cj A C). lia.
Qed.
End GKG.

(* ------------------------------------------------------------------------------------------ *)
(* the compact index: one container, need = max 1 (size encoded in the conjunction id) *)
Section GCP.
Hypothesis Hkind : kind = ICompact.
Hypothesis Hsize : forall cid cj, In (cid, cj) db -> IdsGen.ConjID_Size cid = calc_size cj.

Lemma gcidx_cp s : cidx kind s = O.
Proof. unfold cidx. rewrite Hkind. reflexivity. Qed.

Definition gcss : list stream := gzpart ++ gfss O.

Lemma gcss_cnt e : cnt e gcss = ((if mem e gzstream then 1 else 0) + length (gQe O e))%nat.
Proof. unfold gcss. rewrite cnt_app, cnt_gfss, gzpart_cnt. reflexivity. Qed.

Lemma gcneed_db c cj : In (c, cj) db -> cneed c = Nat.max 1 (Z.to_nat (calc_size cj)).
Proof.
  intros Hc. unfold cneed. pose proof (Hdb60 _ _ Hc) as Hlt. apply N.ltb_lt in Hlt. rewrite Hlt.
  rewrite (Hsize _ _ Hc). reflexivity.
Qed.

Lemma gcss_bound x : (cnt (x, true) gcss <= cneed x)%nat.
Proof.
  clear Hqnil. rewrite gcss_cnt. destruct (mem (x, true) gzstream) eqn:Em.
  - apply gzstream_mem in Em. destruct Em as (_ & cj & Hc & H0).
    pose proof (gQe_true_le O x cj Hc) as Hle. rewrite (gcneed_db x cj Hc). lia.
  - destruct (gQe O (x, true)) as [|fv r] eqn:E; [cbn [length]; lia|].
    destruct (gQe_nonempty_db O x true) as (cj & Hc & _); [rewrite E; discriminate|].
    pose proof (gQe_true_le O x cj Hc) as Hle. rewrite E in Hle. rewrite (gcneed_db x cj Hc). lia.
Qed.

Lemma gcss_sat x : satf cneed gcss x <-> exists cj, In (x, cj) db /\ conj_sat' parsers cfg q cj = true.
Proof.
  clear Hqnil. unfold satf. rewrite !gcss_cnt, gzstream_excl. split.
  - intros [Hf Ht]. pose proof (cneed_pos x) as Hpos.
    assert (Hex : exists cj, In (x, cj) db).
    { destruct (mem (x, true) gzstream) eqn:Em.
      - apply gzstream_mem in Em. destruct Em as (_ & cj & Hc & _). exists cj. exact Hc.
      - destruct (gQe O (x, true)) as [|fv r] eqn:E; [cbn [length] in Ht; lia|].
        destruct (gQe_nonempty_db O x true) as (cj & Hc & _); [rewrite E; discriminate|]. exists cj. exact Hc. }
    destruct Hex as (cj & Hc). exists cj. split; [exact Hc|].
    apply (conj_sat'_cnt O x cj Hc (gcidx_cp _)). split; [lia|]. rewrite (gcneed_db x cj Hc) in Ht.
    destruct (mem (x, true) gzstream) eqn:Em; [|lia].
    apply gzstream_mem in Em. destruct Em as (_ & cj' & Hc' & H0).
    assert (cj' = cj) by (eapply Hdbu; eassumption). subst cj'. lia.
  - intros (cj & Hc & Hs). apply (conj_sat'_cnt O x cj Hc (gcidx_cp _)) in Hs. destruct Hs as [He Hi].
    split; [lia|]. rewrite (gcneed_db x cj Hc). pose proof (calc_size_nonneg cj).
    destruct (Z.eq_dec (calc_size cj) 0) as [E0|E0]; [|lia].
    assert (Em : mem (x, true) gzstream = true).
    { apply gzstream_mem. split; [reflexivity|]. exists cj. auto. }
    rewrite Em, E0. cbn. lia.
Qed.

Theorem gcompact_hits_correct : exists hits,
  retrieve_hits ix q = ROk hits /\ NoDup (map snd hits) /\
  (forall x, In x (map snd hits) <-> exists cj, In (x, cj) db /\ conj_sat' parsers cfg q cj = true) /\
  (forall h, In h hits -> fst h = IdsGen.ConjID_DocID (snd h)).
Proof.
  unfold retrieve_hits. change (ix_kind ix) with (b_kind st). rewrite (gi_kind _ _ _ _ _ _ HF), Hkind.
  unfold retrieve_compact_hits. destruct (ginit_cursors O q Hqp) as (fcs & E1 & HF2 & HL). rewrite E1.
  cbn [pres_to_rres]. destruct gz_cursor_rel as [Z1 Z2].
  assert (HR2 : Forall2 Rel (z_cursor (ix_z ix) ++ fcs) gcss) by (apply Forall2_app; assumption).
  assert (HL2 : Forall live (z_cursor (ix_z ix) ++ fcs)) by (apply Forall_app; split; assumption).
  destruct (cp_loop_correct _ _ HR2 HL2 gcss_bound) as (res & E2 & H3 & H4 & H5).
  rewrite E2. exists res. split; [reflexivity|]. split; [exact H4|]. split; [|exact H5].
  intros x. rewrite H3. apply gcss_sat.
Qed.
End GCP.

End GQuery.

(* ------------------------------------------------------------------------------------------ *)
(* the database of a list of documents *)
Lemma gdocs_db_In parsers cfg ds cid cj : In (cid, cj) (gdocs_db parsers cfg ds) <->
  exists d i, In d ds /\ In (i, cj) (indexed_from 0%Z (d_conjs d)) /\
              IdsGen.NewConjID (d_id d) i (calc_size cj) = Some cid /\ conj_ok' parsers cfg cj = true.
Proof.
  unfold gdocs_db, gdoc_db. rewrite in_flat_map. split.
  - intros (d & Hd & H). apply in_flat_map in H. destruct H as ([i c] & Hi & H). unfold gconj_db in H. cbn [fst snd] in H.
    destruct (IdsGen.NewConjID (d_id d) i (calc_size c)) as [cid'|] eqn:E; [|destruct H].
    destruct (conj_ok' parsers cfg c) eqn:Eo; [|destruct H]. destruct H as [[= <- <-]|[]]. exists d, i. auto.
  - intros (d & i & Hd & Hi & E & Eo). exists d. split; [exact Hd|]. apply in_flat_map. exists (i, cj).
    split; [exact Hi|]. unfold gconj_db. cbn [fst snd]. rewrite E, Eo. left. reflexivity.
Qed.

Lemma gdocs_db_has parsers cfg ds cid cj : In (cid, cj) (gdocs_db parsers cfg ds) ->
  (exists d k, has_conj ds d k cj cid) /\ conj_ok' parsers cfg cj = true.
Proof.
  intros H. apply gdocs_db_In in H. destruct H as (d & i & Hd & Hi & E & Ho). split; [|exact Ho].
  apply NoTrace.indexed_from_in in Hi. destruct Hi as [Hge Hn]. rewrite Z.sub_0_r in Hn.
  exists d, (Z.to_nat i). split; [exact Hd|]. split; [exact Hn|]. rewrite Z2Nat.id by exact Hge. exact E.
Qed.

Lemma has_gdocs_db parsers cfg ds d k cj cid : has_conj ds d k cj cid -> conj_ok' parsers cfg cj = true ->
  In (cid, cj) (gdocs_db parsers cfg ds).
Proof.
  intros (Hd & Hn & E) Ho. apply gdocs_db_In. exists d, (Z.of_nat k). split; [exact Hd|]. split; [|auto].
  apply (indexed_from_nth _ 0%Z) in Hn. exact Hn.
Qed.

(* the configuration enters every definition pointwise *)
Lemma expr_ok'_ext parsers c1 c2 f e : c1 f = c2 f -> expr_ok' parsers c1 f e = expr_ok' parsers c2 f e.
Proof. unfold expr_ok'. intros ->. reflexivity. Qed.
Lemma conj_ok'_ext parsers c1 c2 cj : (forall f, c1 f = c2 f) -> conj_ok' parsers c1 cj = conj_ok' parsers c2 cj.
Proof.
  intros H. unfold conj_ok'. apply forallb_ext_In. intros [f es] _. cbn [fst snd].
  apply forallb_ext_In. intros e _. apply expr_ok'_ext. apply H.
Qed.
Lemma conj_rwf_ext thr c1 c2 cj : (forall f, c1 f = c2 f) -> conj_rwf thr c1 cj -> conj_rwf thr c2 cj.
Proof. intros H Hw f es e H1 H2 Hc. apply (Hw f es e H1 H2). rewrite H. exact Hc. Qed.
Lemma conj_sat'_ext parsers c1 c2 q cj : (forall f, c1 f = c2 f) -> conj_sat' parsers c1 q cj = conj_sat' parsers c2 q cj.
Proof. intros H. unfold conj_sat'. apply forallb_ext_In. intros [f es] _. cbn [fst snd]. rewrite H. reflexivity. Qed.

(* ------------------------------------------------------------------------------------------ *)
(* END TO END, both index kinds, any configuration *)
Theorem index_correct_holders kind pol thr parsers cfgl st0 ds st os q :
  config_fields (new_builder kind pol thr parsers) cfgl = Some st0 ->
  add_documents false st0 ds = (st, os) ->
  Forall (eq AddOk) os ->
  NoDup (map d_id ds) ->
  (forall d cj, In d ds -> In cj (d_conjs d) -> NoDup (map fst cj)) ->
  (pol <> PolSkip \/ forall d cj, In d ds -> In cj (d_conjs d) -> conj_ok' parsers (cfg_of cfgl) cj = true) ->
  (forall d cj, In d ds -> In cj (d_conjs d) -> conj_rwf thr (cfg_of cfgl) cj) ->
  NoDup (map fst q) ->
  (forall f v, In (f, v) q -> qv_ok (cfg_of cfgl f) (parsers f) v = true) ->
  (kind = IKGroups -> forall f v, In (f, v) q -> cfg_of cfgl f = CAc -> nil_slice_wf v) ->
  exists hits,
    retrieve_hits (build_index st) q = ROk hits /\
    NoDup (map snd hits) /\
    (forall d k cj cid, has_conj ds d k cj cid ->
       (In cid (map snd hits) <-> conj_sat' parsers (cfg_of cfgl) q cj = true)) /\
    (forall h, In h hits -> fst h = IdsGen.ConjID_DocID (snd h) /\
                            exists d k cj, has_conj ds d k cj (snd h)).
Proof.
  intros Hcfg Hadd Hok Hnd Hcjs Hpol Hrw Hq Hqp Hqnil.
  destruct (configured_GInv _ _ _ _ _ _ Hcfg) as (_ & _ & Hext).
  assert (Hext' : forall f, cfg_of cfgl f = fields_cfg st0 f) by (intros f; symmetry; apply Hext).
  set (cfg := fields_cfg st0) in *.
  assert (Hrw' : forall d c, In d ds -> In c (d_conjs d) -> conj_rwf thr cfg c).
  { intros d c Hd Hc. eapply conj_rwf_ext; [exact Hext'|]. eapply Hrw; eassumption. }
  destruct (add_documents_grepr kind pol thr parsers cfgl st0 ds st os Hcfg Hrw' Hadd Hok) as (HF & HR & Hall & _).
  fold cfg in HF, HR, Hall.
  assert (Hok_all : forall d cj, In d ds -> In cj (d_conjs d) -> conj_ok' parsers cfg cj = true).
  { destruct Hpol as [Hp|Hp]; [exact (Hall Hp)|]. intros d cj Hd Hc. rewrite (conj_ok'_ext parsers cfg (cfg_of cfgl) cj Hext).
    eapply Hp; eassumption. }
  set (db := gdocs_db parsers cfg ds) in *.
  assert (H60 : forall cid cj, In (cid, cj) db -> (cid < 2^60)%N).
  { intros cid cj H. apply gdocs_db_has in H. destruct H as [(d & k & H) _]. apply (has_conj_facts _ _ _ _ _ H). }
  assert (Hu : forall cid cj cj', In (cid, cj) db -> In (cid, cj') db -> cj = cj').
  { intros cid cj cj' H H'. apply gdocs_db_has in H, H'. destruct H as [(d & k & H) _], H' as [(d' & k' & H') _].
    apply (has_conj_unique _ _ _ _ _ _ _ _ Hnd H H'). }
  assert (Hndc : forall cid cj, In (cid, cj) db -> NoDup (map fst cj)).
  { intros cid cj H. apply gdocs_db_has in H. destruct H as [(d & k & Hd & Hn & _) _].
    apply (Hcjs d cj Hd). eapply nth_error_In. exact Hn. }
  assert (Hsz : forall cid cj, In (cid, cj) db -> IdsGen.ConjID_Size cid = calc_size cj).
  { intros cid cj H. apply gdocs_db_has in H. destruct H as [(d & k & H) _]. apply (has_conj_facts _ _ _ _ _ H). }
  assert (Hdbok : forall cid cj, In (cid, cj) db -> conj_ok' parsers cfg cj = true).
  { intros cid cj H. apply gdocs_db_has in H. apply H. }
  assert (Hdbrw : forall cid cj, In (cid, cj) db -> conj_rwf thr cfg cj).
  { intros cid cj H. apply gdocs_db_has in H. destruct H as [(d & k & Hd & Hn & _) _].
    apply (Hrw' d cj Hd). eapply nth_error_In. exact Hn. }
  assert (Hqp' : forall f v, In (f, v) q -> qvok parsers cfg f v = true).
  { intros f v H. unfold qvok, cfg. rewrite Hext. apply Hqp. exact H. }
  assert (Hqnil' : kind = IKGroups -> forall f v, In (f, v) q -> cfg f = CAc -> nil_slice_wf v).
  { intros Hk f v H Hc. apply (Hqnil Hk f v H). rewrite Hext'. exact Hc. }
  assert (core : exists hits, retrieve_hits (build_index st) q = ROk hits /\ NoDup (map snd hits) /\
            (forall x, In x (map snd hits) <-> exists cj, In (x, cj) db /\ conj_sat' parsers cfg q cj = true) /\
            (forall h, In h hits -> fst h = IdsGen.ConjID_DocID (snd h))).
  { destruct kind.
    - apply (gkgroups_hits_correct IKGroups pol thr parsers cfg st db HF HR H60 Hu Hdbok Hdbrw q Hq Hqp' (Hqnil' eq_refl) Hndc eq_refl).
    - apply (gcompact_hits_correct ICompact pol thr parsers cfg st db HF HR H60 Hu Hdbok Hdbrw q Hq Hqp' Hndc eq_refl Hsz). }
  destruct core as (hits & E & N1 & I1 & O1). exists hits. split; [exact E|]. split; [exact N1|]. split.
  - intros d k cj cid Hh. rewrite I1, <- (conj_sat'_ext parsers cfg (cfg_of cfgl) q cj Hext). split.
    + intros (cj' & Hc & Hs). apply gdocs_db_has in Hc. destruct Hc as [(d' & k' & Hh') _].
      destruct (has_conj_unique _ _ _ _ _ _ _ _ Hnd Hh Hh') as (_ & _ & ->). exact Hs.
    + intros Hs. exists cj. split; [|exact Hs]. apply (has_gdocs_db parsers cfg ds d k cj cid Hh).
      destruct Hh as (Hd & Hn & _). apply (Hok_all d cj Hd). eapply nth_error_In. exact Hn.
  - intros h Hh. split; [apply O1; exact Hh|].
    assert (Hin : In (snd h) (map snd hits)) by (apply in_map; exact Hh).
    apply I1 in Hin. destruct Hin as (cj & Hc & _). apply gdocs_db_has in Hc. destruct Hc as [(d & k & H) _].
    exists d, k, cj. exact H.
Qed.

Corollary kgroups_index_correct_holders pol thr parsers cfgl st0 ds st os q :
  config_fields (new_builder IKGroups pol thr parsers) cfgl = Some st0 ->
  add_documents false st0 ds = (st, os) ->
  Forall (eq AddOk) os ->
  NoDup (map d_id ds) ->
  (forall d cj, In d ds -> In cj (d_conjs d) -> NoDup (map fst cj)) ->
  (pol <> PolSkip \/ forall d cj, In d ds -> In cj (d_conjs d) -> conj_ok' parsers (cfg_of cfgl) cj = true) ->
  (forall d cj, In d ds -> In cj (d_conjs d) -> conj_rwf thr (cfg_of cfgl) cj) ->
  NoDup (map fst q) ->
  (forall f v, In (f, v) q -> qv_ok (cfg_of cfgl f) (parsers f) v = true) ->
  (forall f v, In (f, v) q -> cfg_of cfgl f = CAc -> nil_slice_wf v) ->
  exists hits,
    retrieve_kgroups_hits (build_index st) q = ROk hits /\
    NoDup (map snd hits) /\
    (forall d k cj cid, has_conj ds d k cj cid ->
       (In cid (map snd hits) <-> conj_sat' parsers (cfg_of cfgl) q cj = true)) /\
    (forall h, In h hits -> fst h = IdsGen.ConjID_DocID (snd h) /\
                            exists d k cj, has_conj ds d k cj (snd h)).
Proof.
  intros Hcfg Hadd Hok Hnd Hcjs Hpol Hrw Hq Hqp Hqnil.
  destruct (index_correct_holders IKGroups pol thr parsers cfgl st0 ds st os q Hcfg Hadd Hok Hnd Hcjs Hpol Hrw Hq Hqp
              (fun _ => Hqnil)) as (hits & E & H).
  exists hits. split; [|exact H]. unfold retrieve_hits in E.
  assert (Hrw' : forall d c, In d ds -> In c (d_conjs d) -> conj_rwf thr (fields_cfg st0) c).
  { destruct (configured_GInv _ _ _ _ _ _ Hcfg) as (_ & _ & Hext). intros d c Hd Hc.
    eapply conj_rwf_ext; [intros f; symmetry; apply Hext|]. eapply Hrw; eassumption. }
  destruct (add_documents_grepr IKGroups pol thr parsers cfgl st0 ds st os Hcfg Hrw' Hadd Hok) as (HF & _).
  change (ix_kind (build_index st)) with (b_kind st) in E. rewrite (gi_kind _ _ _ _ _ _ HF) in E. exact E.
Qed.

Corollary compact_index_correct_holders pol thr parsers cfgl st0 ds st os q :
  config_fields (new_builder ICompact pol thr parsers) cfgl = Some st0 ->
  add_documents false st0 ds = (st, os) ->
  Forall (eq AddOk) os ->
  NoDup (map d_id ds) ->
  (forall d cj, In d ds -> In cj (d_conjs d) -> NoDup (map fst cj)) ->
  (pol <> PolSkip \/ forall d cj, In d ds -> In cj (d_conjs d) -> conj_ok' parsers (cfg_of cfgl) cj = true) ->
  (forall d cj, In d ds -> In cj (d_conjs d) -> conj_rwf thr (cfg_of cfgl) cj) ->
  NoDup (map fst q) ->
  (forall f v, In (f, v) q -> qv_ok (cfg_of cfgl f) (parsers f) v = true) ->
  exists hits,
    retrieve_compact_hits (build_index st) q = ROk hits /\
    NoDup (map snd hits) /\
    (forall d k cj cid, has_conj ds d k cj cid ->
       (In cid (map snd hits) <-> conj_sat' parsers (cfg_of cfgl) q cj = true)) /\
    (forall h, In h hits -> fst h = IdsGen.ConjID_DocID (snd h) /\
                            exists d k cj, has_conj ds d k cj (snd h)).
Proof.
  intros Hcfg Hadd Hok Hnd Hcjs Hpol Hrw Hq Hqp.
  destruct (index_correct_holders ICompact pol thr parsers cfgl st0 ds st os q Hcfg Hadd Hok Hnd Hcjs Hpol Hrw Hq Hqp
              ltac:(discriminate)) as (hits & E & H).
  exists hits. split; [|exact H]. unfold retrieve_hits in E.
  assert (Hrw' : forall d c, In d ds -> In c (d_conjs d) -> conj_rwf thr (fields_cfg st0) c).
  { destruct (configured_GInv _ _ _ _ _ _ Hcfg) as (_ & _ & Hext). intros d c Hd Hc.
    eapply conj_rwf_ext; [intros f; symmetry; apply Hext|]. eapply Hrw; eassumption. }
  destruct (add_documents_grepr ICompact pol thr parsers cfgl st0 ds st os Hcfg Hrw' Hadd Hok) as (HF & _).
  change (ix_kind (build_index st)) with (b_kind st) in E. rewrite (gi_kind _ _ _ _ _ _ HF) in E. exact E.
Qed.

(* documents: DocIDCollector *)
Theorem retrieve_docs_correct_holders kind pol thr parsers cfgl st0 ds st os q :
  config_fields (new_builder kind pol thr parsers) cfgl = Some st0 ->
  add_documents false st0 ds = (st, os) ->
  Forall (eq AddOk) os ->
  NoDup (map d_id ds) ->
  (forall d cj, In d ds -> In cj (d_conjs d) -> NoDup (map fst cj)) ->
  (pol <> PolSkip \/ forall d cj, In d ds -> In cj (d_conjs d) -> conj_ok' parsers (cfg_of cfgl) cj = true) ->
  (forall d cj, In d ds -> In cj (d_conjs d) -> conj_rwf thr (cfg_of cfgl) cj) ->
  NoDup (map fst q) ->
  (forall f v, In (f, v) q -> qv_ok (cfg_of cfgl f) (parsers f) v = true) ->
  (kind = IKGroups -> forall f v, In (f, v) q -> cfg_of cfgl f = CAc -> nil_slice_wf v) ->
  exists docs,
    retrieve (build_index st) q = ROk docs /\
    (forall d, In d ds ->
       (In (d_id d) docs <-> exists cj, In cj (d_conjs d) /\ conj_sat' parsers (cfg_of cfgl) q cj = true)) /\
    (forall z, In z docs -> exists d, In d ds /\ z = d_id d).
Proof.
  intros Hcfg Hadd Hok Hnd Hcjs Hpol Hrw Hq Hqp Hqnil.
  destruct (index_correct_holders kind pol thr parsers cfgl st0 ds st os q Hcfg Hadd Hok Hnd Hcjs Hpol Hrw Hq Hqp Hqnil)
    as (hits & E & _ & I1 & O1).
  assert (Hrw' : forall d c, In d ds -> In c (d_conjs d) -> conj_rwf thr (fields_cfg st0) c).
  { destruct (configured_GInv _ _ _ _ _ _ Hcfg) as (_ & _ & Hext). intros d c Hd Hc.
    eapply conj_rwf_ext; [intros f; symmetry; apply Hext|]. eapply Hrw; eassumption. }
  destruct (add_documents_grepr kind pol thr parsers cfgl st0 ds st os Hcfg Hrw' Hadd Hok) as (_ & _ & _ & Hids).
  assert (Hfst : forall h, In h hits -> exists d k cj, has_conj ds d k cj (snd h) /\
             wrap_i64 (Z.of_N (Z.to_N (wrap_u64 (fst h)))) = d_id d).
  { intros h Hh. destruct (O1 h Hh) as [Ef (d & k & cj & Hc)]. exists d, k, cj. split; [exact Hc|].
    destruct (has_conj_facts _ _ _ _ _ Hc) as (_ & _ & Hd & Hr). rewrite Ef, Hd. apply cast_roundtrip. lia. }
  exists (collect_docs hits). unfold retrieve. rewrite E. split; [reflexivity|]. split.
  - intros d Hd. rewrite collect_docs_In. split.
    + intros (h & Hh & Ez). destruct (Hfst h Hh) as (d' & k & cj & Hc & Er). rewrite Er in Ez.
      assert (d = d') by (destruct Hc as (Hd' & _); eapply NoDup_map_eq; eassumption). subst d'.
      exists cj. split; [destruct Hc as (_ & Hn & _); eapply nth_error_In; exact Hn|].
      apply (I1 d k cj (snd h) Hc). apply in_map. exact Hh.
    + intros (cj & Hcj & Hs). apply In_nth_error in Hcj. destruct Hcj as [k Hk].
      destruct (IdsGen.NewConjID (d_id d) (Z.of_nat k) (calc_size cj)) as [cid|] eqn:Ec;
        [|exfalso; exact (Hids d k cj Hd Hk Ec)].
      assert (Hc : has_conj ds d k cj cid) by (split; [exact Hd|split; [exact Hk|exact Ec]]).
      apply (I1 d k cj cid Hc) in Hs. apply in_map_iff in Hs. destruct Hs as (h & Eh & Hh).
      exists h. split; [exact Hh|]. destruct (Hfst h Hh) as (d' & k' & cj' & Hc' & Er). rewrite Er.
      rewrite Eh in Hc'. destruct (has_conj_unique _ _ _ _ _ _ _ _ Hnd Hc Hc') as (-> & _). reflexivity.
  - intros z Hz. apply collect_docs_In in Hz. destruct Hz as (h & Hh & ->).
    destruct (Hfst h Hh) as (d & k & cj & Hc & Er). exists d. split; [apply Hc|exact Er].
Qed.

(* ------------------------------------------------------------------------------------------ *)
(* sufficient conditions for the side condition conj_rwf (kept intervals inside [min_i64, max_i64]) *)
Lemma erwf_not_range thr cfg f e : cfg f <> CRange -> erwf thr cfg f e.
Proof. intros H Hc. contradiction. Qed.
Lemma erwf_eq thr cfg f e : e_op e = OpEQ -> erwf thr cfg f e.
Proof. intros H _ l r Hp. rewrite H in Hp. discriminate. Qed.
(* every range whose ends are int64 values and that is not inverted *)
Lemma erwf_bounds thr cfg f e :
  (forall l r, parse_range (e_op e) true (e_val e) = POk (l, r) -> (min_i64 <= l /\ l <= r /\ r <= max_i64)%Z) ->
  erwf thr cfg f e.
Proof. intros H _ l r Hp _. apply H. exact Hp. Qed.

(* ------------------------------------------------------------------------------------------ *)
(* Prop-level readings of the executable hit predicate *)
Lemma ehit_default_iff p v e : ehit CDefault p v e = true <->
  exists ids id, parse_assign p v = POk ids /\ In id ids /\ RoaringProof.val_hit p id e = true.
Proof.
  cbn [ehit]. destruct (parse_assign p v) as [ids| | | |]; try (split; [discriminate|intros (? & ? & ? & _); discriminate]).
  rewrite existsb_exists. split.
  - intros (id & H1 & H2). exists ids, id. auto.
  - intros (ids' & id & [= <-] & H1 & H2). exists id. auto.
Qed.

Lemma ehit_ac_iff p v e : ehit CAc p v e = true <->
  exists ks t, ac_parse_dict (e_val e) = POk ks /\ ac_query_text [32%N] v = POk t /\ t <> [] /\
               exists w, In w ks /\ kw_found w t = true.
Proof.
  cbn [ehit]. destruct (ac_parse_dict (e_val e)) as [ks| | | |]; try (split; [discriminate|intros (? & ? & ? & _); discriminate]).
  destruct (ac_query_text [32%N] v) as [t| | | |]; try (split; [discriminate|intros (? & ? & _ & ? & _); discriminate]).
  rewrite andb_true_iff, existsb_exists. split.
  - intros [Hne (w & H1 & H2)]. exists ks, t. repeat split; auto. { intros ->. discriminate. } exists w. auto.
  - intros (ks' & t' & [= <-] & [= <-] & Hne & w & H1 & H2). split; [destruct t; [contradiction|reflexivity]|]. exists w. auto.
Qed.

Lemma ehit_range_iff p v e : ehit CRange p v e = true <->
  exists xs x, parse_integers true v = POk xs /\ In x xs /\ range_hit e x = true.
Proof.
  cbn [ehit]. destruct (parse_integers true v) as [xs| | | |]; try (split; [discriminate|intros (? & ? & ? & _); discriminate]).
  rewrite existsb_exists. split.
  - intros (x & H1 & H2). exists xs, x. auto.
  - intros (xs' & x & [= <-] & H1 & H2). exists x. auto.
Qed.

Lemma range_hit_in e x : e_op e = OpEQ ->
  (range_hit e x = true <-> exists zs, parse_integers true (e_val e) = POk zs /\ In x zs).
Proof.
  intros Ho. unfold range_hit. rewrite Ho.
  destruct (parse_integers true (e_val e)) as [zs| | | |]; try (split; [discriminate|intros (? & ? & _); discriminate]).
  rewrite existsb_Zeqb. split; [intros H; exists zs; auto|intros (zs' & [= <-] & H); exact H].
Qed.

Lemma range_hit_op e x : e_op e = OpGT \/ e_op e = OpLT \/ e_op e = OpBetween ->
  (range_hit e x = true <-> exists l r, parse_range (e_op e) true (e_val e) = POk (l, r) /\ (l <= x < r)%Z).
Proof.
  intros Ho. unfold range_hit.
  assert (E : match e_op e with
              | OpEQ => match parse_integers true (e_val e) with POk zs => existsb (Z.eqb x) zs | _ => false end
              | OpGT | OpLT | OpBetween =>
                match parse_range (e_op e) true (e_val e) with POk (l, r) => (l <=? x)%Z && (x <? r)%Z | _ => false end
              | OpOther => false end =
              match parse_range (e_op e) true (e_val e) with POk (l, r) => (l <=? x)%Z && (x <? r)%Z | _ => false end).
  { destruct Ho as [->|[->| ->]]; reflexivity. }
  rewrite E. destruct (parse_range (e_op e) true (e_val e)) as [[l r]| | | |];
    try (split; [discriminate|intros (? & ? & ? & _); discriminate]).
  split.
  - intros H. exists l, r. split; [reflexivity|lia].
  - intros (l' & r' & [= <- <-] & H). lia.
Qed.

(* ------------------------------------------------------------------------------------------ *)
(* concrete runs (by computation) *)
Module WitnessH.
  Local Open Scope Z_scope.
  Definition ps : fname -> parser_kind := fun _ => PNumber.
  Definition cfgl : list (fname * cont_kind) := [(10%N, CAc); (20%N, CRange)].
  Definition kw (b : bool) (s : text) := {| e_incl := b; e_op := OpEQ; e_val := VStr s |}.
  Definition num (b : bool) (z : Z) := {| e_incl := b; e_op := OpEQ; e_val := VInt KI z |}.
  Definition nums (b : bool) (zs : list Z) := {| e_incl := b; e_op := OpEQ; e_val := VSlice TSint false (map (VInt KI) zs) |}.
  Definition btw (b : bool) (l r : Z) :=
    {| e_incl := b; e_op := OpBetween; e_val := VSlice TSint64 false [VInt KI64 l; VInt KI64 r] |}.
  Definition gt (b : bool) (z : Z) := {| e_incl := b; e_op := OpGT; e_val := VInt KI z |}.
  Definition lt (b : bool) (z : Z) := {| e_incl := b; e_op := OpLT; e_val := VInt KI z |}.
  (* field 10: pattern container, field 20: range container, field 1: default container.
     "ab" = [97;98], "zz" = [122;122], "z" = [122], "xaby" = [120;97;98;121] *)
  Definition d1 := {| d_id := 1; d_conjs := [[(10%N, [kw true [97;98]%N]); (20%N, [btw true 5 300])]] |}.
  Definition d2 := {| d_id := 2; d_conjs := [[(20%N, [nums false [7;8]]); (1%N, [num true 7])]] |}.
  Definition d3 := {| d_id := -3; d_conjs := [[(20%N, [gt true 1000]); (10%N, [kw false [122;122]%N])];
                                               [(20%N, [btw true 1 4; lt false (-5)])]] |}.
  Definition d4 := {| d_id := 4; d_conjs := [[(20%N, [btw true 6 7; gt false 5000]); (10%N, [kw false [122]%N])]] |}.
  Definition q1 : assignment := [(10%N, VStr [120;97;98;121]%N); (20%N, VInt KI 6); (1%N, VInt KI 7)].
  Definition q2 : assignment := [(20%N, VSlice TSint false [VInt KI 7; VInt KI 2000]); (10%N, VStr [122]%N)].

  Definition run k (ds : list doc) (q : assignment) :=
    match config_fields (new_builder k PolError 256 ps) cfgl with
    | Some st0 => let '(st, os) := add_documents false st0 ds in
                  Some (os, retrieve (build_index st) q,
                        map (fun d => map (conj_sat' ps (cfg_of cfgl) q) (d_conjs d)) ds)
    | None => None
    end.

  (* the hypotheses are satisfiable; kept (5..300, > 1000, < -5, > 5000) and expanded (1..4, 6..7) ranges mix *)
  Example run_both_kinds : forall k,
    run k [d1; d2; d3; d4] q1 = Some ([AddOk; AddOk; AddOk; AddOk], ROk [1; 2; 4], [[true]; [true]; [false; false]; [true]]) /\
    run k [d1; d2; d3; d4] q2 = Some ([AddOk; AddOk; AddOk; AddOk], ROk [-3], [[false]; [false]; [true; false]; [false]]).
  Proof. intros []; vm_compute; split; reflexivity. Qed.

  (* (1) THE REQUESTED READING "hit iff some NON-EMPTY keyword occurs in the text" IS FALSE of the model:
     the EMPTY keyword "" is stored like any other, kw_found [] t = true, so it is hit by every
     NON-EMPTY text (and by no empty text: an empty text selects nothing). *)
  Definition ehit_ne (c : cont_kind) (p : parser_kind) (v : gval) (e : expr) : bool :=
    match c with
    | CAc => match ac_parse_dict (e_val e), ac_query_text [32%N] v with
             | POk ks, POk t => existsb (fun w => nonempty_t w && kw_found w t) ks
             | _, _ => false end
    | _ => ehit c p v e
    end.
  Definition dE := {| d_id := 5; d_conjs := [[(10%N, [kw true []])]] |}.
  Example empty_keyword_counterexample : forall k,
    run k [dE] [(10%N, VStr [97%N])] = Some ([AddOk], ROk [5], [[true]]) /\      (* reported, as conj_sat' says *)
    ehit_ne CAc PNumber (VStr [97%N]) (kw true []) = false /\                       (* "non-empty keyword" reading: not hit *)
    run k [dE] [(10%N, VStr [])] = Some ([AddOk], ROk [], [[false]]).              (* empty text: nothing *)
  Proof. intros []; vm_compute; repeat split. Qed.

  (* (2) nil_slice_wf IS needed for the k-groups index: a nil-flagged slice carrying elements is not
     counted by Assignments.Size() (so the size-1 group is never scanned) but BuildAcMatchContent
     reads its elements.  The compact index does not call Size(). *)
  Definition dB := {| d_id := 6; d_conjs := [[(10%N, [kw true [97;98]%N])]] |}.
  Example nil_slice_counterexample :
    run IKGroups [dB] [(10%N, VSlice TSstring true [VStr [97;98]%N])] = Some ([AddOk], ROk [], [[true]]) /\
    run ICompact [dB] [(10%N, VSlice TSstring true [VStr [97;98]%N])] = Some ([AddOk], ROk [6], [[true]]).
  Proof. vm_compute. split; reflexivity. Qed.

  (* (3) conj_rwf IS needed: the model's integers are unbounded; a kept interval reaching outside
     [min_i64, max_i64] (impossible for int64 operands) is not indexed as the specification reads it *)
  Definition dC := {| d_id := 7; d_conjs := [[(20%N, [btw true (-9223372036854775818) 0])]] |}.
  Definition dC2 := {| d_id := 7; d_conjs := [[(20%N, [btw true 0 9223372036854775817])]] |}.
  Example out_of_int64_counterexample :
    run IKGroups [dC] [(20%N, VInt KI (-3))] = Some ([AddOk], ROk [], [[true]]) /\
    run IKGroups [dC2] [(20%N, VInt KI 9223372036854775807)] = Some ([AddOk], ROk [], [[true]]) /\
    run IKGroups [dC2] [(20%N, VInt KI 3)] = Some ([AddOk], ROk [7], [[true]]).
  Proof. vm_compute. repeat split. Qed.

  (* (4) edge semantics of the range operators (model and specification agree; the operators' meaning is odd):
     "< min_i64" denotes [min_i64, min_i64+1) and so matches min_i64; "> n" denotes [n+1, max_i64) and so
     never matches max_i64; "> max_i64-1" denotes the inverted pair (max_i64, min_i64): nothing. *)
  Example range_edges :
    parse_range OpLT true (VInt KI (-9223372036854775808)) = POk (-9223372036854775808, -9223372036854775807) /\
    parse_range OpGT true (VInt KI 9223372036854775805) = POk (9223372036854775806, 9223372036854775807) /\
    parse_range OpGT true (VInt KI 9223372036854775806) = POk (9223372036854775807, -9223372036854775808) /\
    let dD := {| d_id := 8; d_conjs := [[(20%N, [lt true (-9223372036854775808)])];
                                        [(20%N, [gt true 9223372036854775805])];
                                        [(20%N, [gt true 9223372036854775806])]] |} in
    run IKGroups [dD] [(20%N, VInt KI (-9223372036854775808))] = Some ([AddOk], ROk [8], [[true; false; false]]) /\
    run IKGroups [dD] [(20%N, VInt KI 9223372036854775807)] = Some ([AddOk], ROk [], [[false; false; false]]).
  Proof. vm_compute. repeat split. Qed.
End WitnessH.

(* MAIN THEOREMS
   Hypotheses: st0 is new_builder kind pol thr parsers followed by the successful ConfigField calls cfgl
   (config_fields; success = distinct fields), cfg := cfg_of cfgl, add_documents false st0 ds = (st, os) with
   all outcomes AddOk, NoDup (map d_id ds), every conjunction has distinct fields, NoDup (map fst q),
        pol <> PolSkip  \/  every conjunction of every document is conj_ok' (accepted by IndexingBETx),
   conj_rwf: every range expression KEPT as an interval (not range_size_lt l r thr) has
        min_i64 <= l <= r <= max_i64   (erwf_bounds: true of int64 operands),
   qv_ok: every assigned value is accepted by its field's container (parse_assign / ac_query_text /
        parse_integers succeed), and, for the k-groups index only, nil_slice_wf of the values of pattern fields.
     index_correct_holders (any kind), kgroups_index_correct_holders, compact_index_correct_holders:
       exists hits, retrieve_hits (build_index st) q = ROk hits                      (a)
         /\ NoDup (map snd hits)                                                     (b)
         /\ (has_conj ds d k cj cid -> (In cid (map snd hits) <-> conj_sat' parsers cfg q cj = true))   (c)
         /\ (In h hits -> fst h = ConjID_DocID (snd h) /\ exists d k cj, has_conj ds d k cj (snd h))  (d)
     retrieve_docs_correct_holders: the same for retrieve / document ids.
   conj_sat'_default: with no configured field conj_sat' is IndexCorrect.conj_sat. *)
Check index_correct_holders.
Check kgroups_index_correct_holders.
Check compact_index_correct_holders.
Check retrieve_docs_correct_holders.
Print Assumptions index_correct_holders.
Print Assumptions kgroups_index_correct_holders.
Print Assumptions compact_index_correct_holders.
Print Assumptions retrieve_docs_correct_holders.
Print Assumptions gkgroups_hits_correct.
Print Assumptions gcompact_hits_correct.
Print Assumptions lhit_ehit.
