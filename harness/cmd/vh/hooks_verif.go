//go:build verif

package main

import (
	be "github.com/echoface/be_indexer"
	"sort"
)

const hooksAvailable = true

// indexEntries all posting-list entries and the wildcard entries of a built index.
// indexEntries: every posting-list entry and the wildcard entries, as multisets (sorted: the hook walks Go maps)
func indexEntries(index be.BEIndex) (entries, z []uint64, ok bool) {
	entries, z, ok = be.VerifIndexEntries(index)
	entries = append([]uint64{}, entries...)
	z = append([]uint64{}, z...)
	sort.Slice(entries, func(i, j int) bool { return entries[i] < entries[j] })
	sort.Slice(z, func(i, j int) bool { return z[i] < z[j] })
	return
}

func fieldTablesShared(b *be.IndexerBuilder, index be.BEIndex) (shared, ok bool) {
	bt := be.VerifBuilderFieldTable(b)
	it := be.VerifFieldTablePtr(index)
	if bt == nil || it == nil {
		return false, false
	}
	// two maps are the same object iff a write through one is visible through the other
	const probe = be.BEField("\x00verif-probe")
	bt[probe] = nil
	_, seen := it[probe]
	delete(bt, probe)
	return seen, true
}

func retrieveK(cursors be.FieldCursors, need int, c be.ResultCollector) bool {
	be.VerifRetrieveK(cursors, need, c)
	return true
}
