(* C03  Roaring-bitmap index returns exactly the documents whose DNF is satisfied.  Statements only.
   All statements are about Model/Roaring.v, the executable model compared with the code on every run
   (builder with its wildcard rule, default/pattern containers, scanner with inited/ended flags and
   the early break).  `conj_sat_field q cj (f, container)` (Proofs/RoaringProof.v) is the satisfaction
   rule of the property for one field: no exclude expression of cj on f is hit by the assigned values
   and, if cj has include expressions on f, one of them is. *)
From Coq Require Import List NArith ZArith Bool Permutation.
From BE Require Import Model.GoTypes Model.GoVal Model.Parsers Model.Index Model.Roaring Proofs.RoaringProof.
From BE Require Gen.IdsGen Model.Spec Proofs.RoaringHolders Proofs.RoaringSpec.
Import ListNotations.

(* END TO END, default containers: for ANY accepted document set with distinct ids over any non-empty
   set of configured fields and ANY assignment on which retrieval succeeds, the id of the k-th
   conjunction of document d is in a fresh scanner's raw result exactly when the conjunction is
   satisfied on every configured field (fields the conjunction does not mention are unconstrained) *)
Theorem C03_roaring_index_exact : forall b0 ds b os q s d k cj x,
  all_new (rb_conts b0) -> rb_conts b0 <> [] ->
  radd_documents b0 ds = (b, os) -> Forall (eq AddOk) os ->
  NoDup (map d_id ds) -> In d ds -> nth_error (d_conjs d) k = Some cj ->
  IdsGen.NewConjunctionID (Z.of_nat k) (d_id d) = Some x ->
  sc_retrieve (rb_conts b) q fresh_scanner = POk s ->
  bm_mem x (sc_res s) = forallb (conj_sat_field q cj) (rb_conts b).
Proof. exact roaring_index_correct. Qed.

(* ... and nothing else is ever returned *)
Theorem C03_roaring_index_sound : forall b0 ds b os q s x,
  all_new (rb_conts b0) -> radd_documents b0 ds = (b, os) -> Forall (eq AddOk) os ->
  sc_retrieve (rb_conts b) q fresh_scanner = POk s -> bm_mem x (sc_res s) = true ->
  exists d cj i, In d ds /\ In (i, cj) (indexed_from 0%Z (d_conjs d)) /\ IdsGen.NewConjunctionID i (d_id d) = Some x.
Proof. exact roaring_index_sound. Qed.

(* the scanner's OR-first / AND-rest fold is the intersection of the field results ... *)
Theorem C03_fold_is_intersection : forall conts q s,
  conts <> [] -> sc_retrieve conts q fresh_scanner = POk s ->
  forall x, bm_mem x (sc_res s) = all_in q x conts.
Proof. exact sc_retrieve_fresh. Qed.

(* ... for EVERY order in which Go's map iteration presents the fields: identical results *)
Theorem C03_any_field_order : forall conts conts' q s s', Permutation conts conts' ->
  sc_retrieve conts q fresh_scanner = POk s -> sc_retrieve conts' q fresh_scanner = POk s' ->
  sc_res s = sc_res s'.
Proof. exact sc_retrieve_perm_eq. Qed.

(* one field of the default container: wildcard or some include, and no exclude (exclusion dominates) *)
Theorem C03_default_container_rule : forall p wc inc exc v b,
  rc_retrieve (RCDefault p wc inc exc) v = POk b ->
  exists ids, rc_query_ids p v = POk ids /\
    forall x, bm_mem x b = (bm_mem x wc || existsb (look_mem pid_eqb inc x) ids)
                           && negb (existsb (look_mem pid_eqb exc x) ids).
Proof. exact rc_retrieve_default. Qed.

(* with no configured field the fold returns nothing whereas the intersection over no fields is
   everything: `at least one field` is a necessary premise (known finding F14) *)
Theorem C03_refuted_nofields : forall q, sc_retrieve [] q fresh_scanner = POk fresh_scanner.
Proof. exact sc_retrieve_nofields. Qed.

(* END TO END, ANY MIX of default and pattern containers (Proofs/RoaringHolders.v): the same exactness with the
   satisfaction rule conj_sat_r -- on a pattern field: the expression's keywords against the query text (one
   string, or the strings joined by one space; no text = empty text), an empty keyword never matches; no exclude
   expression hit and, if there are include expressions, one of them hit *)
Theorem C03_roaring_index_exact_any_container : forall b0 ds b os q s d k cj x,
  RoaringHolders.all_new_r (rb_conts b0) -> rb_conts b0 <> [] ->
  radd_documents b0 ds = (b, os) -> Forall (eq AddOk) os -> NoDup (map d_id ds) ->
  In d ds -> nth_error (d_conjs d) k = Some cj ->
  IdsGen.NewConjunctionID (Z.of_nat k) (d_id d) = Some x ->
  sc_retrieve (rb_conts b) q fresh_scanner = POk s ->
  bm_mem x (sc_res s) = RoaringHolders.conj_sat_r q cj (rb_conts b).
Proof. exact RoaringHolders.roaring_index_correct_r. Qed.

(* AGAINST THE SPECIFICATION (Model/Spec.v; Proofs/RoaringSpec.v): for any builder with at least one configured
   field (default or pattern container, any parser), any accepted document set and any supported assignment, the
   fresh scanner's retrieval succeeds and a conjunction id is in the raw result iff the specification's sat_conj
   says the conjunction is satisfied; nothing else is in it.  (doc_good_r / asg_good_r: values are Go values the
   model represents exactly and the assigned values denote something; see the witnesses in RoaringSpec.SpecWitness
   for why each hypothesis is needed.  Zero configured fields: C03_refuted_nofields, finding F14.) *)
Theorem C03_roaring_index_exact_against_spec : forall b0 b ds os parsers q,
  RoaringHolders.all_new_r (rb_conts b0) -> rb_conts b0 <> [] -> NoDup (map fst (rb_conts b0)) ->
  radd_documents b0 ds = (b, os) -> Forall (eq AddOk) os -> NoDup (map d_id ds) ->
  (forall d cj, In d ds -> In cj (d_conjs d) -> NoDup (map fst cj)) ->
  (forall d, In d ds -> RoaringSpec.doc_good_r (RoaringSpec.conts_fields (rb_conts b0)) d) ->
  RoaringSpec.asg_good_r (RoaringSpec.conts_fields (rb_conts b0)) q ->
  exists s, sc_retrieve (rb_conts b) q fresh_scanner = POk s /\
    (forall d k cj x sc, In d ds -> nth_error (d_conjs d) k = Some cj ->
       IdsGen.NewConjunctionID (Z.of_nat k) (d_id d) = Some x ->
       Spec.conj_sem (RoaringSpec.conts_fields (rb_conts b0)) parsers cj = Some sc ->
       (bm_mem x (sc_res s) = true <-> Spec.sat_conj (RoaringSpec.conts_fields (rb_conts b0)) parsers q sc = Some true)) /\
    (forall x, bm_mem x (sc_res s) = true ->
       exists d k cj, In d ds /\ nth_error (d_conjs d) k = Some cj /\ IdsGen.NewConjunctionID (Z.of_nat k) (d_id d) = Some x).
Proof. exact RoaringSpec.roaring_index_correct_spec. Qed.

(* ... the raw result, as (document, position) pairs, is a permutation of the specification's sat_hits *)
Theorem C03_roaring_raw_result_is_the_specifications : forall b0 b ds os parsers q pol,
  RoaringHolders.all_new_r (rb_conts b0) -> rb_conts b0 <> [] -> NoDup (map fst (rb_conts b0)) ->
  radd_documents b0 ds = (b, os) -> Forall (eq AddOk) os -> NoDup (map d_id ds) ->
  (forall d cj, In d ds -> In cj (d_conjs d) -> NoDup (map fst cj)) ->
  (forall d, In d ds -> RoaringSpec.doc_good_r (RoaringSpec.conts_fields (rb_conts b0)) d) ->
  RoaringSpec.asg_good_r (RoaringSpec.conts_fields (rb_conts b0)) q ->
  (forall d cj, In d ds -> In cj (d_conjs d) -> Spec.conj_sem (RoaringSpec.conts_fields (rb_conts b0)) parsers cj <> None) ->
  exists s spec_hits, sc_retrieve (rb_conts b) q fresh_scanner = POk s /\
    Spec.sat_hits (RoaringSpec.conts_fields (rb_conts b0)) parsers pol RoaringSpec.rr_docok ds q = Some spec_hits /\
    Permutation (map RoaringSpec.rr_pair (sc_res s)) (map (fun t : Z * (Z * Z) => (fst t, fst (snd t))) spec_hits).
Proof. exact RoaringSpec.roaring_sat_hits. Qed.

Print Assumptions C03_roaring_index_exact.
Print Assumptions C03_roaring_index_sound.
Print Assumptions C03_fold_is_intersection.
Print Assumptions C03_any_field_order.
Print Assumptions C03_default_container_rule.
Print Assumptions C03_roaring_index_exact_any_container.
Print Assumptions C03_roaring_index_exact_against_spec.
Print Assumptions C03_roaring_raw_result_is_the_specifications.
