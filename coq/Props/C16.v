(* C16  Retrieval is total: any assignment yields a result or error, never a panic.  Statements only.
   `q` ranges over ALL Go value shapes of Model/GoVal.v (the datatype has catch-all constructors that
   every type switch sends to its default clause); `ix` over all index states whatsoever. *)
From Coq Require Import List NArith ZArith Bool.
From BE Require Import Model.GoTypes Model.GoVal Model.Parsers Model.Index Model.Roaring Proofs.ParsersProof Proofs.IndexTotal.

Theorem C16_posting_list_retrieval_never_panics : forall (ix : index) (q : assignment),
  retrieve_hits ix q <> RPanic /\ retrieve ix q <> RPanic.
Proof. intros ix q. split; [apply retrieve_hits_nopanic|apply retrieve_nopanic]. Qed.

Theorem C16_roaring_retrieval_never_panics : forall conts (q : assignment) (s : scanner),
  sc_retrieve conts q s <> PPanic /\ sc_retrieve conts q s <> PDiverge.
Proof. intros conts q s. exact (sc_retrieve_np conts q s). Qed.

(* the helper every query-side entry point starts with *)
Theorem C16_nil_interface_never_panics : forall v : gval, nil_interface v <> PPanic.
Proof. intros v. exact (proj1 (nil_interface_np v)). Qed.

Print Assumptions C16_posting_list_retrieval_never_panics.
Print Assumptions C16_roaring_retrieval_never_panics.
Print Assumptions C16_nil_interface_never_panics.
