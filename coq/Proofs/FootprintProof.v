(* C07 / C14: obligations over the write-sets regenerated from the source (Gen/FootprintGen.v). *)
From Coq Require Import List Bool String.
From BE Require Import Gen.FootprintGen.
Import ListNotations.
Local Open Scope string_scope.

(* Go types whose objects are shared by every retrieval on a built index (or belong to the builder) *)
Definition shared_types : list string :=
  ["KGroupsBEIndex"; "CompactBEIndex"; "indexBase"; "EntriesContainer"; "DefaultEntriesHolder"; "ACEntriesHolder";
   "ExtendLgtHolder"; "RangeIdx"; "RangeEntries"; "Range"; "RangePlList"; "IvtBEIndexer"; "DefaultBEContainer"; "ACBEContainer";
   "FieldDesc"; "FieldMeta"; "FieldSetting"; "IndexerBuilder"; "IvtBEIndexerBuilder"; "IDAllocatorImpl"; "HashAllocator";
   "CommonStrParser"; "NumberParser"; "NumberRangeParser"; "StrHashParser"; "Entries"; "Machine"; "BuilderOption"; "RangeHolderOption";
   "ACHolderOption"; "Term";
   (* the caller's query object: not the index's, but nothing stops two retrievals from being handed the same one *)
   "Assignments"].

Definition is_global (owner : string) : bool := String.prefix "global:" owner.
Definition is_shared (owner : string) : bool := existsb (String.eqb owner) shared_types || is_global owner.

(* no function reachable from Retrieve / RetrieveWithCollector / the scanner's methods stores into a
   shared object or a package-level variable *)
Theorem retrieval_writes_private :
  forallb (fun w => negb (is_shared (snd (fst w)))) retrieval_writes = true.
Proof. vm_compute. reflexivity. Qed.

Theorem retrieval_writes_no_globals : retrieval_global_writes = [].
Proof. reflexivity. Qed.

(* the builder does write shared-by-type objects (its own index under construction): non-vacuity of the classification *)
Theorem builder_writes_are_classified_shared :
  existsb (fun w => is_shared (snd (fst w))) builder_writes = true.
Proof. vm_compute. reflexivity. Qed.
