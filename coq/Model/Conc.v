(* Concurrent retrievals on one built index: an interleaving semantics over
     - the immutable index (only read),
     - the process-wide pool (atomic Get/Put, Get may return any pooled object),
     - thread-private state (cursors, context, the collector a thread took from the pool).
   A retrieval is three atomic steps: Get a collector; scan (reads the index, writes only the
   thread's own collector); Reset + Put.  Which objects the scan may write is exactly what the
   regenerated write-set (Gen/FootprintGen.v) is checked against. *)
From Coq Require Import List NArith ZArith Bool.
From BE Require Import Model.GoTypes Model.GoVal Model.Parsers Model.Index Model.Pool.
Import ListNotations.

Inductive pc :=
| PcGet                                  (* about to call PickCollector *)
| PcHave (c : obj)                       (* holds a collector with contents c *)
| PcPut (r : rres (list Z))              (* scanned; result computed from the collector; about to Reset+Put *)
| PcDone (r : rres (list Z)).

Record thread := { t_ix : index; t_q : assignment; t_pc : pc }.
Record world := { w_pool : pool; w_threads : list thread }.

Definition scan_into (ix : index) (q : assignment) (c : obj) : rres (list Z) :=
  match retrieve_hits ix q with
  | ROk hits => ROk (docs_of_bits (c ++ map (fun h => Z.to_N (wrap_u64 (fst h))) hits))
  | RErr => RErr | RPanic => RPanic | ROutOfFuel => ROutOfFuel | RUnmodelled => RUnmodelled
  end.

Definition set_pc (t : thread) (p : pc) : thread := {| t_ix := t_ix t; t_q := t_q t; t_pc := p |}.

(* one atomic step of thread `tid`; `choice` resolves sync.Pool.Get's nondeterminism *)
Definition step (w : world) (tid choice : nat) : world :=
  match nth_error (w_threads w) tid with
  | None => w
  | Some t =>
    match t_pc t with
    | PcGet => let '(c, p') := pool_get (w_pool w) choice in
               {| w_pool := p'; w_threads := update_nth tid (fun t => set_pc t (PcHave c)) (w_threads w) |}
    | PcHave c => {| w_pool := w_pool w;
                     w_threads := update_nth tid (fun t => set_pc t (PcPut (scan_into (t_ix t) (t_q t) c))) (w_threads w) |}
    | PcPut r => {| w_pool := pool_put (w_pool w) [];
                    w_threads := update_nth tid (fun t => set_pc t (PcDone r)) (w_threads w) |}
    | PcDone _ => w
    end
  end.

Definition run (sched : list (nat * nat)) (w : world) : world :=
  fold_left (fun w s => step w (fst s) (snd s)) sched w.

Definition init_world (p : pool) (jobs : list (index * assignment)) : world :=
  {| w_pool := p; w_threads := map (fun j => {| t_ix := fst j; t_q := snd j; t_pc := PcGet |}) jobs |}.
