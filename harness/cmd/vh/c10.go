package main

import (
	"encoding/json"
	"fmt"
	"reflect"
	"runtime"
	"runtime/debug"
	"sort"
	"strings"

	be "github.com/echoface/be_indexer"
	"github.com/echoface/be_indexer/holder/rangeholder"
	"github.com/echoface/be_indexer/roaringidx"
)

const c10Rule = "histories of 20..200 retrievals interleaved over 1..3 posting-list indexes (k-groups and compact, default/pattern/range fields) and a roaring index that share the process-wide collector and bitmap pools; about 15% of the retrievals fail (unsupported value on a known field), debug options on at random, plain Retrieve and recording-collector passes, roaring scanners reset or re-created; each answer is compared with the pure model and the specification in Coq, a tenth of them also with a freshly built real index, and every assignment is deep-copied before the call and compared after. every other list Retrieve returns is overwritten in place by the caller, the others are kept and re-read at the end; a dedicated history of untargeted retrievals (empty assignment, unknown fields, nil values) on indexes with match-everything conjunctions; histories on fields named by the dense id allocator (known, unknown and repeated unknown texts), posting-list and roaring; Non-trivial = the history contains a failing retrieval followed by a successful one that returns documents; distinct = distinct input"

type histCase struct {
	Hist10     bool    `json:"hist10"`
	Cases      []eCase `json:"cases"`
	Rr         *rCase  `json:"rr,omitempty"`
	OneBuilder bool    `json:"one_builder,omitempty"` // the posting-list indexes are successive generations of ONE builder (Reset in between)
	Order      []int   `json:"order"`                 // which index performs the next retrieval (len(Cases) = the roaring one)
}

var extraViolations []string

// setAssign returns a copy of a with field f assigned v (an assignment is a Go map: one value per field)
func setAssign(a []eAssign, f int, v TV) []eAssign {
	out := make([]eAssign, 0, len(a)+1)
	for _, x := range a {
		if x.F != f {
			out = append(out, x)
		}
	}
	return append(out, eAssign{F: f, V: v})
}

func deepCopyAssign(a be.Assignments) be.Assignments {
	out := be.Assignments{}
	for k, v := range a {
		rv := reflect.ValueOf(v)
		if v != nil && rv.Kind() == reflect.Slice && !rv.IsNil() {
			c := reflect.MakeSlice(rv.Type(), rv.Len(), rv.Len())
			reflect.Copy(c, rv)
			out[k] = c.Interface()
		} else {
			out[k] = v
		}
	}
	return out
}

func execHist(raw json.RawMessage) (res execResult, err error) {
	// the process-wide pools (sync.Pool) are emptied by the garbage collector: keep it off during one history,
	// so that what one retrieval puts back really is what the next one takes out
	defer debug.SetGCPercent(debug.SetGCPercent(-1))
	defer runtime.GOMAXPROCS(runtime.GOMAXPROCS(1)) // one P: sync.Pool keeps per-P caches
	var h histCase
	if err = json.Unmarshal(raw, &h); err != nil {
		return
	}
	type live struct {
		c     *eCase
		index be.BEIndex
		docs  []string
		next  int
		qlits []string
		obs   *e2eObs
		state string
	}
	var ls []*live
	var oneBuilder *be.IndexerBuilder
	for i := range h.Cases {
		c := &h.Cases[i]
		restore := installParsers(c.Parsers)
		var b *be.IndexerBuilder
		if h.OneBuilder && oneBuilder != nil {
			b = oneBuilder
			b.Reset()
		} else {
			b = newBuilder(c)
			oneBuilder = b
		}
		l := &live{c: c, obs: &e2eObs{}}
		for j := range c.Docs {
			var aerr error
			p := safeCall(func() { aerr = b.AddDocument(c.Docs[j].build()) })
			out := "IAddOk"
			if p {
				out = "IAddPanic"
			} else if aerr != nil {
				out = "IAddErr"
			} else {
				l.obs.NDocsOK++
			}
			l.docs = append(l.docs, fmt.Sprintf("(%s, %s)", c.Docs[j].coq(), out))
		}
		l.index = b.BuildIndex()
		l.state = "None"
		if es, z, ok := indexEntries(l.index); ok {
			l.state = fmt.Sprintf("(Some (%s, %s))", nlist(es), nlist(z))
		}
		restore()
		ls = append(ls, l)
	}
	var ridx *roaringidx.IvtBEIndexer
	var rsc *roaringidx.IvtScanner
	rnext := 0
	if h.Rr != nil {
		ridx, _, _ = buildRoaring(h.Rr)
		rsc = roaringidx.NewScanner(ridx)
	}
	failThenHit := false
	lastFailed := false
	step := 0
	for _, who := range h.Order {
		step++
		if who < len(ls) {
			l := ls[who]
			if l.next >= len(l.c.Queries) {
				continue
			}
			q := l.c.Queries[l.next : l.next+1]
			l.next++
			before := deepCopyAssign(q[0].build())
			a := q[0].build()
			lits := runIndexQueries(l.index, q, l.obs)
			_ = a
			// the assignment handed in must come back unchanged
			aa := q[0].build()
			func() {
				defer func() { recover() }()
				l.index.Retrieve(aa)
			}()
			if !reflect.DeepEqual(before, aa) {
				extraViolations = append(extraViolations, fmt.Sprintf("assignment modified by Retrieve: %v -> %v", before, aa))
			}
			l.qlits = append(l.qlits, lits...)
			failed := strings.Contains(lits[0], "IErr") || strings.Contains(lits[0], "IPanic")
			if lastFailed && !failed && !strings.Contains(lits[0], "IRes [] []") {
				failThenHit = true
			}
			lastFailed = failed
			// a tenth of the steps: the same retrieval on a freshly built real index
			if step%10 == 0 {
				restore := installParsers(l.c.Parsers)
				fb := newBuilder(l.c)
				for j := range l.c.Docs {
					safeCall(func() { fb.AddDocument(l.c.Docs[j].build()) })
				}
				fresh := fb.BuildIndex()
				restore()
				fl := runIndexQueries(fresh, q, &e2eObs{})
				if fl[0] != lits[0] {
					extraViolations = append(extraViolations, fmt.Sprintf("history-dependent answer: used index %s, fresh index %s", lits[0], fl[0]))
				}
			}
		} else if h.Rr != nil && rnext < len(h.Rr.Ops) {
			// run the next roaring op group (reset + retrieve [+ raw]) just to share the bitmap pool; it is
			// checked by the roaring part below through execRr-style literals
			op := h.Rr.Ops[rnext]
			rnext++
			q := eQuery{A: op.A}
			switch op.Op {
			case "reset":
				rsc.Reset()
			case "retrieve":
				safeCall(func() { rsc.Retrieve(q.build()) })
			case "docs":
				safeCall(func() { rsc.RetrieveDocs(q.build()) })
			case "new":
				rsc = roaringidx.NewScanner(ridx)
			}
		}
	}
	var lits []string
	for _, l := range ls {
		// drain what the order did not reach so that every query of the case is answered once
		for l.next < len(l.c.Queries) {
			l.qlits = append(l.qlits, runIndexQueries(l.index, l.c.Queries[l.next:l.next+1], l.obs)...)
			l.next++
		}
		lits = append(lits, fmt.Sprintf("Build_ecase %s\n    %s\n    %s\n    %s", l.c.header(), listl(l.docs), listl(l.qlits), l.state))
	}
	res.Coq = "[" + strings.Join(lits, ";\n   ") + "]"
	res.Family = "H"
	res.Dist = fmt.Sprintf("indexes=%d/rr=%v", len(ls), h.Rr != nil)
	res.NonTrivial = failThenHit
	res.Summary = map[string]interface{}{"steps": len(h.Order)}
	return
}

func init() {
	props["C10"] = &propDef{
		header:    "From BE Require Import Corr.CheckC10.",
		headers:   map[string]string{"H": "From BE Require Import Corr.CheckHist.", "R": "From BE Require Import Corr.CheckRr."},
		rule:      c10Rule,
		shardSize: 6,
		gen: func(tier string, r *Rand, add func(in interface{})) {
			n := 18
			if tier == "thorough" {
				n = 1200
			}
			for i := 0; i < n; i++ {
				h := histCase{Hist10: true}
				ni := 1 + r.Intn(3)
				total := 0
				for k := 0; k < ni; k++ {
					o := &docsetOpts{kind: pick(r, []string{"kgroups", "compact"}), nFields: 1 + r.Intn(3), maxDocs: 8, valueShape: intsShape, queryShape: intsShape}
					c := genDocset(r, o)
					c.Configs = map[int]string{6: "ac_matcher", 7: "ext_range"}
					c.Docs = append(c.Docs, eDoc{ID: 900 + int64(k), Cons: []eConj{{{F: 6, Inc: true, V: tvStr("red")}, {F: 7, Inc: true, Op: 1, V: tvInt("int64", 10)}}}})
					// a larger conjunction on default fields only: a retrieval can collect it at a high k and
					// still fail later, at the smaller k where the pattern/range holders live
					c.Docs = append(c.Docs, eDoc{ID: 950 + int64(k), Cons: []eConj{{{F: 0, Inc: true, V: tvSlice("[]int", tvInt("int", 1))},
						{F: 1, Inc: true, V: tvSlice("[]int", tvInt("int", 1))}, {F: 2, Inc: true, V: tvSlice("[]int", tvInt("int", 1))}}}})
					big := []eAssign{{F: 0, V: tvInt("int", 1)}, {F: 1, V: tvInt("int", 1)}, {F: 2, V: tvInt("int", 1)}}
					// lengthen the history and inject failing retrievals
					base := c.Queries
					c.Queries = nil
					want := 7 + r.Intn(60)
					for len(c.Queries) < want {
						q := base[r.Intn(len(base))]
						q.Debug = r.Chance(15)
						switch {
						case r.Chance(12): // collects at k=3, then fails at a smaller k
							q = eQuery{A: setAssign(big, pick(r, []int{6, 7}), pick(r, []TV{tvBool(true), {T: "other:struct"}}))}
						case r.Chance(15): // fails: unsupported value on a known field
							q.A = setAssign(q.A, pick(r, []int{0, 6, 7}), pick(r, []TV{tvBool(true), {T: "other:struct"}, tvList(tvList())}))
						case r.Chance(25):
							q.A = setAssign(setAssign(q.A, 6, tvStr("a red b")), 7, tvInt("int", r.I64(5, 15)))
						case r.Chance(25): // list-valued assignments, not in ascending order, with a repeated element: the
							// caller's slices must come back as they were
							t := pick(r, []string{"[]int64", "[]int64", "[]int", "[]int32", "[]uint64"})
							et := t[2:]
							mk := func(v int64) TV {
								if et == "uint64" {
									return tvUint(et, uint64(v))
								}
								return tvInt(et, v)
							}
							l := []TV{mk(r.I64(11, 40)), mk(r.I64(5, 15)), mk(r.I64(16, 30)), mk(r.I64(5, 10))}
							l = append(l, l[1])
							q.A = setAssign(setAssign(q.A, 6, pick(r, []TV{tvSlice("[]string", tvStr("zz"), tvStr("a red"), tvStr("b")), tvSlice("[]string", tvStr(""), tvStr("a red"), tvStr("b")), tvSlice("[]string", tvStr(""), tvStr(""), tvStr("red"))})), 7, tvSlice(t, l...))
						}
						c.Queries = append(c.Queries, q)
					}
					total += len(c.Queries)
					h.Cases = append(h.Cases, c)
				}
				if ni > 1 && i%3 == 1 { // the indexes are successive generations of one builder: same kind, same configuration
					h.OneBuilder = true
					for k := range h.Cases {
						h.Cases[k].Kind, h.Cases[k].Policy = h.Cases[0].Kind, h.Cases[0].Policy
					}
				}
				rr := genRrCase(r, 1+r.Intn(3), 0, 30, 10+r.Intn(20), 1)
				h.Rr = &rr
				total += len(rr.Ops)
				for s := 0; s < total+10; s++ {
					h.Order = append(h.Order, r.Intn(ni+1))
				}
				add(h)
			}
			// dedicated: one value with 5..7 documents (a posting list with spare capacity behind it) next to values
			// with one document each, and retrievals assigning four or more values to the field between retrievals on
			// the first value alone -- a retrieval must leave the index's own lists as they were
			for _, kind := range []string{"kgroups", "compact"} {
				for _, big := range []int{5, 6, 7} {
					c := eCase{Kind: kind, Policy: "error"}
					ids := []int64{2, 5, 9, 14, 20, 23, 27}
					for _, id := range ids[:big] {
						c.Docs = append(c.Docs, eDoc{ID: id, Cons: []eConj{{{F: 0, Inc: true, V: tvSlice("[]int", tvInt("int", 1))}}}})
					}
					for k, id := range []int64{3, 6, 4, 30} {
						c.Docs = append(c.Docs, eDoc{ID: id, Cons: []eConj{{{F: 0, Inc: true, V: tvSlice("[]int", tvInt("int", int64([]int{2, 7, 8, 9}[k])))}}}})
					}
					one := eQuery{A: []eAssign{{F: 0, V: tvInt("int", 1)}}}
					many := eQuery{A: []eAssign{{F: 0, V: tvSlice("[]int", tvInt("int", 1), tvInt("int", 2), tvInt("int", 7), tvInt("int", 8))}}}
					more := eQuery{A: []eAssign{{F: 0, V: tvSlice("[]int", tvInt("int", 9), tvInt("int", 8), tvInt("int", 1), tvInt("int", 7), tvInt("int", 2))}}}
					c.Queries = []eQuery{one, many, one, many, more, one, {A: []eAssign{{F: 0, V: tvSlice("[]int", tvInt("int", 2), tvInt("int", 7))}}}, more, one}
					h := histCase{Hist10: true, Cases: []eCase{c}}
					for range c.Queries {
						h.Order = append(h.Order, 0)
					}
					add(h)
				}
			}
			// dedicated: retrievals with the debug options (WithStepDetail, WithDumpEntries) whose assignment hits 9..12
			// posting lists of one field, between plain retrievals of the same and of smaller assignments (seed C10-8, which
			// the random histories stopped producing): a dump must not reorder what the scan walks
			for _, kind := range []string{"kgroups", "compact"} {
				c := eCase{Kind: kind, Policy: "error"}
				iv := func(ns ...int64) TV {
					l := make([]TV, len(ns))
					for i, n := range ns {
						l[i] = tvInt("int", n)
					}
					return tvSlice("[]int", l...)
				}
				for v := int64(1); v <= 12; v++ {
					c.Docs = append(c.Docs, eDoc{ID: 100 - 7*v, Cons: []eConj{{{F: 0, Inc: true, V: iv(v)}}}}, eDoc{ID: 200 + v, Cons: []eConj{{{F: 0, Inc: true, V: iv(v, 13-v)}, {F: 1, Inc: true, V: tvStr("x")}}}})
				}
				c.Docs = append(c.Docs, eDoc{ID: 7, Cons: []eConj{{{F: 0, Inc: false, V: iv(3, 9)}, {F: 1, Inc: true, V: tvStr("x")}}}})
				all := []eAssign{{F: 0, V: iv(12, 1, 11, 2, 10, 3, 9, 4, 8, 5, 7, 6)}, {F: 1, V: tvStr("x")}}
				nine := []eAssign{{F: 0, V: iv(1, 2, 4, 5, 6, 7, 8, 10, 11)}, {F: 1, V: tvStr("x")}}
				few := []eAssign{{F: 0, V: iv(3, 9)}}
				c.Queries = []eQuery{{A: all}, {A: all, Debug: true}, {A: all}, {A: nine, Debug: true}, {A: few}, {A: nine}, {A: all, Debug: true}, {A: few, Debug: true}, {A: all}}
				h := histCase{Hist10: true, Cases: []eCase{c}}
				for range c.Queries {
					h.Order = append(h.Order, 0)
				}
				add(h)
			}
			// dedicated: untargeted retrievals (empty assignment, unknown fields only, nil values only) on an index with
			// match-everything conjunctions, repeated while the caller overwrites the lists it got
			for _, kind := range []string{"kgroups", "compact"} {
				c := eCase{Kind: kind, Policy: "error"}
				c.Docs = []eDoc{
					{ID: 1, Cons: []eConj{{{F: 0, Inc: false, V: tvSlice("[]int", tvInt("int", 1))}}}},
					{ID: 2, Cons: []eConj{{}}},
					{ID: 3, Cons: []eConj{{{F: 0, Inc: true, V: tvSlice("[]int", tvInt("int", 2))}}, {{F: 1, Inc: false, V: tvStr("x")}}}},
					{ID: 4, Cons: []eConj{{{F: 0, Inc: true, V: tvSlice("[]int", tvInt("int", 2))}}}},
				}
				none, unk, nilv := eQuery{}, eQuery{A: []eAssign{{F: 5, V: tvStr("q")}}}, eQuery{A: []eAssign{{F: 0, V: tvNil()}}}
				two := eQuery{A: []eAssign{{F: 0, V: tvInt("int", 2)}}}
				c.Queries = []eQuery{none, none, unk, none, two, nilv, none, unk, two, none, none}
				h := histCase{Hist10: true, Cases: []eCase{c}}
				for range c.Queries {
					h.Order = append(h.Order, 0)
				}
				add(h)
			}
			// dedicated: fields whose texts are named by the library's DENSE id allocator (a dictionary filled at indexing
			// time): looking a text up at query time -- known, unknown, the same unknown one again -- must leave the
			// dictionary as it was, on the posting-list indexes and on the roaring index
			denseAllocatorCases(func(in interface{}) {
				c := in.(eCase)
				green := eQuery{A: []eAssign{{F: 0, V: tvStr("green")}}}
				c.Queries = append([]eQuery{green, green, {A: []eAssign{{F: 0, V: tvStr("beijing")}}}, green, green}, c.Queries...)
				h := histCase{Hist10: true, Cases: []eCase{c}}
				for range c.Queries {
					h.Order = append(h.Order, 0)
				}
				add(h)
			})
			{
				c := rCase{Fields: []rField{{F: 0, Cont: "default", Parser: "dense"}, {F: 1, Cont: "default"}}}
				c.Docs = []eDoc{{ID: 1, Cons: []eConj{{{F: 0, Inc: true, V: tvStr("red")}}}}, {ID: 2, Cons: []eConj{{{F: 0, Inc: true, V: tvStr("blue")}}}}, {ID: 3, Cons: []eConj{{{F: 0, Inc: false, V: tvStr("red")}, {F: 1, Inc: true, V: tvInt("int", 1)}}}}}
				for i, t := range []string{"green", "green", "red", "green", "green", "blue", "grey", "grey"} {
					c.Ops = append(c.Ops, rOp{S: i % 2, Op: "reset"}, rOp{S: i % 2, Op: []string{"retrieve", "docs"}[i/2%2], A: []eAssign{{F: 0, V: tvStr(t)}, {F: 1, V: tvInt("int", 1)}}}, rOp{S: i % 2, Op: "raw"})
				}
				add(c)
			}
			// roaring histories with failing retrievals: a retrieval that fails half-way (after some field's
			// bitmaps went into the temporary bitmap) must not leak into later retrievals of ANY scanner
			nr := 25
			if tier == "thorough" {
				nr = 1500
			}
			for i := 0; i < nr; i++ {
				c := genRrCase(r, 2+r.Intn(3), 0, 30, 8+r.Intn(16), 1+r.Intn(3))
				injectRrFailures(r, &c, i)
				add(c)
			}
		},
		exec: func(raw json.RawMessage) (execResult, error) {
			var probe struct {
				Fields json.RawMessage `json:"fields"`
			}
			json.Unmarshal(raw, &probe)
			if probe.Fields != nil {
				res, err := execRr(raw)
				res.Family = "R"
				return res, err
			}
			return execHist(raw)
		},
		extra: func(tier string, seed uint64, outdir string) (map[string]interface{}, []string) {
			v := extraViolations
			extraViolations = nil
			calls, pv := mixedRangeHoldersHistoryProbe()
			v = append(v, pv...)
			calls3, pv3 := failedListLookupProbe()
			v = append(v, pv3...)
			calls += calls3
			return map[string]interface{}{"assignment_checks": "every assignment deep-copied before Retrieve and compared after", "fresh_index_comparisons": "every 10th step",
				"mixed_range_holder_history_retrievals": calls}, v
		},
	}
}

// injectRrFailures: before about half of the retrievals of a roaring case, another scanner runs the same
// assignment with an unsupported value on one field (a retrieval that fails half-way), then a third scanner
// runs the unmodified assignment; a failed retrieval must not leak into later retrievals of ANY scanner
func injectRrFailures(r *Rand, c *rCase, i int) {
	var ops []rOp
	for _, op := range c.Ops {
		if (op.Op == "retrieve" || op.Op == "docs") && r.Chance(45) {
			bad := setAssign(op.A, r.Intn(len(c.Fields)), pick(r, []TV{tvBool(true), {T: "other:struct"}}))
			s2 := 5 + r.Intn(3) // other scanners, created on demand (they take a bitmap from the pool)
			ops = append(ops, rOp{S: s2, Op: "reset"}, rOp{S: s2, Op: pick(r, []string{"retrieve", "docs"}), A: bad})
			ops = append(ops, rOp{S: 8 + i%3, Op: "reset"}, rOp{S: 8 + i%3, Op: "retrieve", A: op.A}, rOp{S: 8 + i%3, Op: "raw"})
			// ... and the scanner that failed is itself Reset and reused (twice: the field order of a retrieval is random)
			ops = append(ops, rOp{S: s2, Op: "reset"}, rOp{S: s2, Op: "retrieve", A: op.A}, rOp{S: s2, Op: "raw"},
				rOp{S: s2, Op: "reset"}, rOp{S: s2, Op: pick(r, []string{"retrieve", "docs"}), A: bad},
				rOp{S: s2, Op: "reset"}, rOp{S: s2, Op: "docs", A: op.A}, rOp{S: s2, Op: "raw"})
		}
		ops = append(ops, op)
	}
	c.Ops = ops
}

// mixedRangeHoldersHistoryProbe (Go side; the end-to-end model has the stock range holder only, DESIGN §10): one index
// with a stock range field and a field of a range holder registered with EnableFloat2Int = false.  A number TEXT is
// assigned to one field, then to the other, then to the first again: the first and the third retrieval must agree
// (ids or error alike), whatever the other holder did with the same text in between.  The texts occur nowhere else
// in this process, so the first retrieval is the first time the library sees them.
func mixedRangeHoldersHistoryProbe() (calls int, viol []string) {
	const name = "verif_ext_range_nf_c10"
	be.RegisterEntriesHolder(name, func() be.EntriesHolder {
		o := rangeholder.NewRangeHolderOption()
		o.EnableFloat2Int = false
		return rangeholder.NewNumberExtendRangeHolder(rangeholder.WithRangeHolderOption(o))
	})
	age, level := fieldName(2), fieldName(4)
	outcome := func(idx be.BEIndex, a be.Assignments) string {
		var ids be.DocIDList
		var err error
		if safeCall(func() { ids, err = idx.Retrieve(a) }) {
			return "panic"
		}
		calls++
		if err != nil {
			return "error"
		}
		l := append(be.DocIDList{}, ids...)
		sort.Slice(l, func(i, j int) bool { return l[i] < l[j] })
		return fmt.Sprint(l)
	}
	for ki, kind := range []string{"kgroups", "compact"} {
		c := eCase{Kind: kind, Policy: "error"}
		b := newBuilder(&c)
		b.ConfigField(age, be.FieldOption{Container: be.HolderNameExtendRange})
		b.ConfigField(level, be.FieldOption{Container: name})
		vals := []int64{4237, 4238, 4200, 4239, 4240, 55}
		for i, n := range vals {
			d := be.NewDocument(be.DocID(10 + i))
			d.AddConjunction(be.NewConjunction().In(age, []int64{n}))
			d2 := be.NewDocument(be.DocID(30 + i))
			d2.AddConjunction(be.NewConjunction().In(level, []int64{n}))
			d3 := be.NewDocument(be.DocID(50 + i))
			d3.AddConjunction(be.NewConjunction().GreatThan(level, n).LessThan(age, n+2))
			if err := b.AddDocument(d, d2, d3); err != nil {
				return calls, append(viol, "mixed range holders: AddDocument failed: "+err.Error())
			}
		}
		idx := b.BuildIndex()
		suffix := []string{"", "0"}[ki] // other spellings per index kind: the first use of a text happens once per process
		for ti, t := range []string{"4237.0", "4238.00", "42e2", "4239", "4240.5", "5.5e1", "4237.", "+4238"} {
			t += suffix
			var v interface{} = t
			if ti%3 == 2 {
				v = json.Number(t)
			}
			f1, f2 := level, age
			if ti%2 == 1 {
				f1, f2 = age, level
			}
			o1 := outcome(idx, be.Assignments{f1: v})
			o2 := outcome(idx, be.Assignments{f2: v})
			o3 := outcome(idx, be.Assignments{f1: v})
			o4 := outcome(idx, be.Assignments{f2: v})
			o5 := outcome(idx, be.Assignments{f1: v, f2: v})
			o6 := outcome(idx, be.Assignments{f1: v})
			if o1 != o3 || o1 != o6 || o2 != o4 || o1 == "panic" || o2 == "panic" || o5 == "panic" {
				viol = append(viol, fmt.Sprintf("history-dependent answer (%s, stock range field next to one without float conversion): %q assigned to %s: %s, after the same text went to %s (%s): %s / %s; %s again: %s", kind, t, f1, o1, f2, o2, o3, o6, f2, o4))
			}
		}
	}
	return calls, viol
}

// failedListLookupProbe (Go side): a range field with kept intervals; a retrieval that FAILS half-way through an untyped
// list -- a number that hits an interval followed by an element that is no number -- straight before ordinary
// retrievals, which must answer what they answered before anything failed
func failedListLookupProbe() (calls int, viol []string) {
	age, tag := fieldName(2), fieldName(0)
	for _, kind := range []string{"kgroups", "compact"} {
		c := eCase{Kind: kind, Policy: "error"}
		b := newBuilder(&c)
		b.ConfigField(age, be.FieldOption{Container: be.HolderNameExtendRange})
		mk := func(id int64, cj *be.Conjunction) {
			d := be.NewDocument(be.DocID(id))
			d.AddConjunction(cj)
			b.AddDocument(d)
		}
		mk(1, be.NewConjunction().GreatThan(age, 10))
		mk(2, be.NewConjunction().Between(age, 20, 400))
		mk(3, be.NewConjunction().In(age, []int64{5}))
		mk(4, be.NewConjunction().LessThan(age, 0).In(tag, 1))
		mk(5, be.NewConjunction().In(tag, 1))
		idx := b.BuildIndex()
		answer := func(a be.Assignments) string {
			var ids be.DocIDList
			var err error
			if safeCall(func() { ids, err = idx.Retrieve(a) }) {
				return "panic"
			}
			calls++
			if err != nil {
				return "error"
			}
			l := append(be.DocIDList{}, ids...)
			sort.Slice(l, func(i, j int) bool { return l[i] < l[j] })
			return fmt.Sprint(l)
		}
		probes := []be.Assignments{{age: 5}, {age: 15}, {age: 500}, {age: -3, tag: 1}, {tag: 1}, {}, {age: []int64{5, 7}}}
		base := make([]string, len(probes))
		for i, p := range probes {
			base[i] = answer(p)
		}
		for _, bad := range []interface{}{[]interface{}{15, "oops"}, []interface{}{300, 15, true}, []interface{}{-3, "x"}, []interface{}{15, nil, 7}} {
			for i, p := range probes {
				if r := answer(be.Assignments{age: bad, tag: 1}); r == "panic" {
					viol = append(viol, fmt.Sprintf("%s: Retrieve panicked on age=%v", kind, bad))
				}
				if got := answer(p); got != base[i] {
					viol = append(viol, fmt.Sprintf("history-dependent answer (%s, range field): %v answers %s straight after the failed retrieval age=%v, %s before it", kind, p, got, bad, base[i]))
				}
			}
		}
	}
	if len(viol) > 4 {
		viol = viol[:4]
	}
	return calls, viol
}
