(* C13: a plain build and several builds sharing a (lossy) build cache, same documents, same queries.
   Specification leg: every cached build accepts the same documents and answers every query like the
   plain build. *)
From Coq Require Import List NArith ZArith Bool.
From BE Require Export Corr.SpecJson.
From BE Require Import Model.Spec Corr.Common.
Import ListNotations.

Definition ccase := (ecase * list ecase)%type.     (* (plain build, cached builds in order) *)

(* signature 70: a cached build differs from the plain build *)
Definition spec_verdict_c (c : ccase) : bool * bool * N :=
  let '(p, cs) := c in
  let '(ok_p, dom_p, sig_p) := SpecE2E.spec_verdict p in
  if negb ok_p then (false, dom_p, sig_p) else
  (forallb (fun b => eqb_list iadd_eqb (map snd (k_docs p)) (map snd (k_docs b)) &&
                     eqb_list ires_same (map snd (k_queries p)) (map snd (k_queries b))) cs, dom_p, 70%N).

Definition spec_only_c (c : ccase) : verdict := let '(s, d, g) := spec_verdict_c c in mk_verdict true s d g.
Definition run (cs : list ccase) := check_all spec_only_c cs.
