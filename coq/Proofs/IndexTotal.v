(* Retrieval never panics, for every index state and every assignment of arbitrary Go values
   (posting-list indexes and roaring scanner models). *)
From Coq Require Import List NArith ZArith Bool Lia.
From BE Require Import Model.GoTypes Model.GoVal Model.Parsers Model.Index Model.Roaring Proofs.ParsersProof.
Import ListNotations.

Lemma get_entries_np fd fid h v : np (get_entries fd fid h v).
Proof.
  destruct h as [pls|vals|kv pcs]; cbn [get_entries].
  - apply np_bind; [|intros; apply np_ok].
    destruct (parsers_total (fd_parser fd) v) as (_ & _ & A & B). split; auto.
  - destruct vals; [apply np_ok|]. apply np_bind; [apply ac_text_np|intros t; destruct t; apply np_ok].
  - apply np_bind; [apply integers_np|intros; apply np_ok].
Qed.

Lemma init_field_cursors_np fields ec q : np (init_field_cursors fields ec q).
Proof.
  induction q as [|[f v] q IH]; cbn [init_field_cursors]; [apply np_ok|].
  destruct (find_field f fields) as [fd|]; auto.
  destruct (get_holder ec fd) as [h|]; auto.
  apply np_bind; [apply get_entries_np|intros ls]. apply np_bind; auto. intros rest. apply np_ok.
Qed.

Lemma assign_size_np q : np (assign_size q).
Proof.
  induction q as [|[f v] q IH]; cbn [assign_size]; [apply np_ok|].
  apply np_bind; [apply nil_interface_np|intros b]. apply np_bind; auto. intros n. apply np_ok.
Qed.

Lemma pres_to_rres_nopanic {A B} (r : pres A) (f : A -> rres B) :
  np r -> (forall a, f a <> RPanic) -> pres_to_rres r f <> RPanic.
Proof. intros [H1 H2] Hf. destruct r; cbn [pres_to_rres]; auto; try discriminate; contradiction. Qed.

Lemma kgroups_from_nopanic ix q k : forall res, kgroups_from ix q k res <> RPanic.
Proof.
  induction k as [|k IH]; intros res; cbn [kgroups_from].
  - apply pres_to_rres_nopanic; [apply init_field_cursors_np|intros fcs].
    destruct (retrieve_k _ _ res); discriminate.
  - apply pres_to_rres_nopanic; [apply init_field_cursors_np|intros fcs].
    destruct (retrieve_k _ _ res); [apply IH|discriminate].
Qed.

Theorem retrieve_hits_nopanic ix q : retrieve_hits ix q <> RPanic.
Proof.
  unfold retrieve_hits. destruct (ix_kind ix).
  - unfold retrieve_kgroups_hits. apply pres_to_rres_nopanic; [apply assign_size_np|intros sz].
    destruct (_ <? 0)%Z; [discriminate|apply kgroups_from_nopanic].
  - unfold retrieve_compact_hits. apply pres_to_rres_nopanic; [apply init_field_cursors_np|intros fcs].
    destruct (cp_loop _ _ _); discriminate.
Qed.

Theorem retrieve_nopanic ix q : retrieve ix q <> RPanic.
Proof. unfold retrieve. pose proof (retrieve_hits_nopanic ix q). destruct (retrieve_hits ix q); try discriminate; contradiction. Qed.

(* roaring *)
Lemma rc_retrieve_np c v : np (rc_retrieve c v).
Proof.
  destruct c as [p wc inc exc|wc inc exc]; cbn [rc_retrieve].
  - apply np_bind; [apply nil_interface_np|intros b]. destruct b; [apply np_ok|].
    apply np_bind; [|intros; apply np_ok]. destruct (parsers_total p v) as (_ & _ & A & B). split; auto.
  - apply np_bind; [apply nil_interface_np|intros b]. destruct b; [apply np_ok|].
    apply np_bind; [apply ac_text_np|intros; apply np_ok].
Qed.

Theorem sc_retrieve_np conts q : forall s, np (sc_retrieve conts q s).
Proof.
  induction conts as [|[f c] rest IH]; intros s; cbn [sc_retrieve]; [apply np_ok|].
  destruct (sc_ended s); [apply np_ok|]. apply np_bind; [apply rc_retrieve_np|intros pl; apply IH].
Qed.
