package xlate

import (
	"fmt"
	"go/types"
	"sort"
	"strings"

	"golang.org/x/tools/go/callgraph"
	"golang.org/x/tools/go/callgraph/cha"
	"golang.org/x/tools/go/packages"
	"golang.org/x/tools/go/ssa"
	"golang.org/x/tools/go/ssa/ssautil"
)

// Footprint extraction: every store (field store, slice element store, map update) performed by
// functions of the module reachable from the retrieval entry points, resp. from the builder entry
// points, whose target is not an object allocated by the storing function itself.
// Call graph: CHA (an over-approximation of dynamic calls), traversal restricted to the module's
// own packages (third-party and standard-library bodies are leaves).

type write struct{ fn, owner, field string }

func typeName(t types.Type) string {
	for {
		switch x := t.(type) {
		case *types.Pointer:
			t = x.Elem()
			continue
		case *types.Named:
			return x.Obj().Name()
		case *types.Slice:
			return "[]" + typeName(x.Elem())
		case *types.Map:
			return "map"
		}
		return t.String()
	}
}

// ownerOf walks an address/value back to the object it belongs to.
// kind: "local" (allocated here), "param", "global", "closure", "call", "other"
func ownerOf(v ssa.Value, depth int) (kind, owner, field string) {
	if depth > 20 {
		return "other", "?", ""
	}
	switch x := v.(type) {
	case *ssa.FieldAddr:
		st := x.X.Type().Underlying().(*types.Pointer).Elem().Underlying().(*types.Struct)
		k, o, _ := ownerOf(x.X, depth+1)
		fname := st.Field(x.Field).Name()
		if k == "param" || k == "closure" || k == "call" || k == "other" {
			// the struct that directly holds the field is the owner of interest
			return k, typeName(x.X.Type()), fname
		}
		return k, o, fname
	case *ssa.Field:
		return ownerOf(x.X, depth+1)
	case *ssa.IndexAddr:
		k, o, f := ownerOf(x.X, depth+1)
		if f == "" {
			f = "[]"
		}
		return k, o, f
	case *ssa.UnOp: // load through a pointer: the loaded value lives in the pointed-to object
		return ownerOf(x.X, depth+1)
	case *ssa.Slice:
		return ownerOf(x.X, depth+1)
	case *ssa.ChangeType:
		return ownerOf(x.X, depth+1)
	case *ssa.Convert:
		return ownerOf(x.X, depth+1)
	case *ssa.MakeInterface:
		return ownerOf(x.X, depth+1)
	case *ssa.TypeAssert:
		return ownerOf(x.X, depth+1)
	case *ssa.Extract:
		return ownerOf(x.Tuple, depth+1)
	case *ssa.Lookup:
		return ownerOf(x.X, depth+1)
	case *ssa.Phi:
		// a store through any of the alternatives: report the first non-local one
		for _, e := range x.Edges {
			if k, o, f := ownerOf(e, depth+1); k != "local" {
				return k, o, f
			}
		}
		return "local", "", ""
	case *ssa.Alloc, *ssa.MakeMap, *ssa.MakeSlice, *ssa.MakeChan, *ssa.MakeClosure:
		return "local", "", ""
	case *ssa.Parameter:
		return "param", typeName(x.Type()), ""
	case *ssa.FreeVar:
		return "closure", typeName(x.Type()), ""
	case *ssa.Global:
		return "global", x.Name(), ""
	case *ssa.Call:
		// append(...) returns (a possibly re-allocated copy of) its first argument
		if b, ok := x.Call.Value.(*ssa.Builtin); ok && b.Name() == "append" && len(x.Call.Args) > 0 {
			return ownerOf(x.Call.Args[0], depth+1)
		}
		return "call", typeName(x.Type()), ""
	case *ssa.Const:
		return "local", "", ""
	}
	return "other", typeName(v.Type()), ""
}

// mapWrite classifies an update of map m.  A map of the named type Assignments that the function did
// not make itself is the caller's query object (possibly shared by concurrent retrievals): it is
// reported under that type whatever struct it was reached through.
func mapWrite(m ssa.Value) (kind, owner, field string) {
	kind, owner, field = ownerOf(m, 0)
	if kind != "local" {
		if n, ok := m.Type().(*types.Named); ok && n.Obj().Name() == "Assignments" {
			return kind, "Assignments", "[key]"
		}
	}
	if field == "" {
		field = "[key]"
	}
	return
}

func collectWrites(prog *ssa.Program, cg *callgraph.Graph, roots []*ssa.Function, inModule func(*ssa.Function) bool) (writes []write, globalsTouched []string, reach []string) {
	seen := map[*ssa.Function]bool{}
	var walk func(f *ssa.Function)
	walk = func(f *ssa.Function) {
		if f == nil || seen[f] || !inModule(f) {
			return
		}
		seen[f] = true
		if n := cg.Nodes[f]; n != nil {
			for _, e := range n.Out {
				walk(e.Callee.Func)
			}
		}
		for _, af := range f.AnonFuncs {
			walk(af)
		}
	}
	for _, r := range roots {
		walk(r)
	}
	wset := map[write]bool{}
	gset := map[string]bool{}
	for f := range seen {
		reach = append(reach, f.String())
		for _, b := range f.Blocks {
			for _, in := range b.Instrs {
				var k, o, fld string
				switch v := in.(type) {
				case *ssa.Store:
					k, o, fld = ownerOf(v.Addr, 0)
				case *ssa.MapUpdate:
					k, o, fld = mapWrite(v.Map)
				case *ssa.Call:
					// delete(m, k) and clear(m) write the map (clear(s) the slice) like an element store
					b, ok := v.Call.Value.(*ssa.Builtin)
					if !ok || (b.Name() != "delete" && b.Name() != "clear") || len(v.Call.Args) == 0 {
						continue
					}
					k, o, fld = mapWrite(v.Call.Args[0])
				default:
					continue
				}
				switch k {
				case "local":
					continue
				case "global":
					gset[o] = true
					wset[write{f.String(), "global:" + o, fld}] = true
				default:
					wset[write{f.String(), o, fld}] = true
				}
			}
		}
	}
	for w := range wset {
		writes = append(writes, w)
	}
	sort.Slice(writes, func(i, j int) bool {
		a, b := writes[i], writes[j]
		if a.fn != b.fn {
			return a.fn < b.fn
		}
		if a.owner != b.owner {
			return a.owner < b.owner
		}
		return a.field < b.field
	})
	for g := range gset {
		globalsTouched = append(globalsTouched, g)
	}
	sort.Strings(globalsTouched)
	sort.Strings(reach)
	return
}

func coqStr(s string) string { return `"` + strings.ReplaceAll(s, `"`, `""`) + `"` }

func footprint(pkgs map[string]*packages.Package) (string, []string) {
	var problems []string
	var list []*packages.Package
	var paths []string
	for p := range pkgs {
		paths = append(paths, p)
	}
	sort.Strings(paths)
	for _, p := range paths {
		if strings.Contains(p, "/example") {
			continue
		}
		list = append(list, pkgs[p])
	}
	prog, _ := ssautil.AllPackages(list, ssa.InstantiateGenerics)
	prog.Build()
	cg := cha.CallGraph(prog)
	inModule := func(f *ssa.Function) bool {
		if f.Pkg == nil || f.Pkg.Pkg == nil {
			// instantiated generics / synthetic wrappers: follow the origin's package
			if o := f.Origin(); o != nil && o.Pkg != nil && o.Pkg.Pkg != nil {
				return strings.HasPrefix(o.Pkg.Pkg.Path(), mod) && !strings.Contains(o.Pkg.Pkg.Path(), "/codegen")
			}
			return f.Synthetic != "" && strings.Contains(f.String(), "be_indexer")
		}
		return strings.HasPrefix(f.Pkg.Pkg.Path(), mod) && !strings.Contains(f.Pkg.Pkg.Path(), "/codegen")
	}
	method := func(pkg, typ, name string) *ssa.Function {
		p := prog.ImportedPackage(pkg)
		if p == nil {
			return nil
		}
		t := p.Type(typ)
		if t == nil {
			return nil
		}
		for _, ty := range []types.Type{t.Type(), types.NewPointer(t.Type())} {
			ms := prog.MethodSets.MethodSet(ty)
			if sel := ms.Lookup(p.Pkg, name); sel != nil {
				if f := prog.MethodValue(sel); f != nil {
					return f
				}
			}
		}
		return nil
	}
	mk := func(specs [][3]string) []*ssa.Function {
		var out []*ssa.Function
		for _, s := range specs {
			f := method(s[0], s[1], s[2])
			if f == nil {
				problems = append(problems, fmt.Sprintf("footprint root not found: %s.%s.%s", s[0], s[1], s[2]))
				continue
			}
			out = append(out, f)
		}
		return out
	}
	retrRoots := mk([][3]string{
		{mod, "KGroupsBEIndex", "Retrieve"}, {mod, "KGroupsBEIndex", "RetrieveWithCollector"},
		{mod, "CompactBEIndex", "Retrieve"}, {mod, "CompactBEIndex", "RetrieveWithCollector"},
		{mod + "/roaringidx", "IvtScanner", "Retrieve"}, {mod + "/roaringidx", "IvtScanner", "RetrieveDocs"},
		{mod + "/roaringidx", "IvtScanner", "WithHint"}, {mod + "/roaringidx", "IvtScanner", "Reset"},
		{mod + "/roaringidx", "IvtScanner", "GetRawResult"},
	})
	buildRoots := mk([][3]string{
		{mod, "IndexerBuilder", "Reset"}, {mod, "IndexerBuilder", "AddDocument"},
		{mod, "IndexerBuilder", "BuildIndex"}, {mod, "IndexerBuilder", "ConfigField"},
	})
	rw, rg, rreach := collectWrites(prog, cg, retrRoots, inModule)
	bw, _, _ := collectWrites(prog, cg, buildRoots, inModule)

	// does BuildIndex hand the index a table of its own (a fresh map) or the builder's?
	fresh := "unknown"
	if bi := method(mod, "IndexerBuilder", "BuildIndex"); bi != nil {
		for _, b := range bi.Blocks {
			for _, in := range b.Instrs {
				c, ok := in.(ssa.CallInstruction)
				if !ok {
					continue
				}
				cc := c.Common()
				name := ""
				if cc.IsInvoke() {
					name = cc.Method.Name()
				} else if f := cc.StaticCallee(); f != nil {
					name = f.Name()
				}
				if name != "setFieldDesc" || len(cc.Args) == 0 {
					continue
				}
				arg := cc.Args[len(cc.Args)-1]
				k, _, _ := ownerOf(arg, 0)
				if k == "local" {
					fresh = "true"
				} else {
					fresh = "false"
				}
			}
		}
	}

	var sb strings.Builder
	sb.WriteString(header)
	sb.WriteString("From Coq Require Import String.\nLocal Open Scope string_scope.\n\n")
	sb.WriteString("(* (function, owner type, field) of every store into an object the function did not allocate *)\n")
	emit := func(name string, ws []write) {
		var rows []string
		for _, w := range ws {
			rows = append(rows, fmt.Sprintf("(%s, %s, %s)", coqStr(w.fn), coqStr(w.owner), coqStr(w.field)))
		}
		sb.WriteString(fmt.Sprintf("Definition %s : list (string * string * string) :=\n  [%s].\n\n", name, strings.Join(rows, ";\n   ")))
	}
	emit("retrieval_writes", rw)
	emit("builder_writes", bw)
	var gl []string
	for _, g := range rg {
		gl = append(gl, coqStr(g))
	}
	sb.WriteString(fmt.Sprintf("Definition retrieval_global_writes : list string := [%s].\n\n", strings.Join(gl, "; ")))
	sb.WriteString(fmt.Sprintf("Definition retrieval_reachable_functions : nat := %d.\n\n", len(rreach)))
	sb.WriteString("(* BuildIndex passes setFieldDesc a map allocated in BuildIndex (Some true), the builder's own table (Some false), or the call was not found (None) *)\n")
	switch fresh {
	case "true":
		sb.WriteString("Definition build_index_hands_over_fresh_table : option bool := Some true.\n")
	case "false":
		sb.WriteString("Definition build_index_hands_over_fresh_table : option bool := Some false.\n")
	default:
		sb.WriteString("Definition build_index_hands_over_fresh_table : option bool := None.\n")
	}
	return sb.String(), problems
}
