(* Facts about Model/Parsers.v: totality (no panic, no divergence) for every Go value, the generated
   case tables stay inside the modelled universe, range descriptions. *)
From Coq Require Import List NArith ZArith Bool Lia.
From BE Require Import Model.GoTypes Model.GoVal Model.Parsers Gen.TypeSwitchGen.
Import ListNotations.
Local Open Scope Z_scope.

Lemma tables_within_universe :
  sw_common_ParseAssign_extra = [] /\ sw_common_ParseValue_extra = [] /\ sw_common_allocInterfaceID_extra = [] /\
  sw_common_findInterfaceID_extra = [] /\ sw_ParseIntergers_extra = [] /\ sw_ParseIntegerNumber_extra = [] /\
  sw_number_ParseValue_extra = [] /\ sw_numrange_ParseAssign_extra = [] /\ sw_numrange_ParseValue_extra = [] /\
  sw_strhash_ParseValue_extra = [] /\ sw_NilInterface_extra = [] /\ sw_ParseAcMatchDict_extra = [] /\
  sw_BuildAcMatchContent_extra = [] /\ sw_ParseBetween_extra = [].
Proof. repeat split; reflexivity. Qed.

Definition np {A} (r : pres A) : Prop := r <> PPanic /\ r <> PDiverge.

Lemma np_ok {A} (a : A) : np (POk a). Proof. split; discriminate. Qed.
Lemma np_err {A} : np (@PErr A). Proof. split; discriminate. Qed.
Lemma np_unm {A} : np (@PUnmodelled A). Proof. split; discriminate. Qed.
Lemma np_bind {A B} (r : pres A) (f : A -> pres B) : np r -> (forall a, np (f a)) -> np (pbind r f).
Proof. intros [H1 H2] Hf. destruct r; cbn [pbind]; try (split; discriminate); auto; contradiction. Qed.
Lemma np_pmap {A B} (f : A -> pres B) l : (forall x, np (f x)) -> np (pmap_list f l).
Proof.
  intros Hf. induction l as [|x l IH]; cbn [pmap_list]. apply np_ok.
  apply np_bind; auto. intros y. apply np_bind; auto. intros ys. apply np_ok.
Qed.

Ltac np_leaf := first [apply np_ok | apply np_err | apply np_unm].
Ltac np_step :=
  match goal with
  | |- np (pbind _ _) => apply np_bind; [|intros ?]
  | |- np (pmap_list _ _) => apply np_pmap; intros ?
  | |- np (if ?c then _ else _) => destruct c
  | |- np (match ?x with _ => _ end) => destruct x eqn:?
  | |- np (let '(_, _) := ?x in _) => destruct x
  | _ => np_leaf
  end.
Ltac np_auto := repeat np_step.

Lemma nil_interface_np v : np (nil_interface v).
Proof.
  destruct v as [|k z|w f|s|s|b|t n vs|n vs|t vs|t n]; try (vm_compute; split; intro HH; discriminate HH).
  - destruct k; vm_compute; split; intro HH; discriminate HH.
  - destruct w; vm_compute; split; intro HH; discriminate HH.
  - destruct t; vm_compute; split; intro HH; discriminate HH.
  - destruct t; vm_compute; split; intro HH; discriminate HH.
  - destruct t; vm_compute; split; intro HH; discriminate HH.
Qed.

Lemma float_text_np v : np (float_u64_text v).
Proof. unfold float_u64_text. np_auto. Qed.
Lemma find_iface_np v : np (common_find_iface v).
Proof. unfold common_find_iface. np_auto; apply float_text_np. Qed.
Lemma alloc_iface_np v : np (common_alloc_iface v).
Proof. unfold common_alloc_iface. np_auto; apply float_text_np. Qed.

Lemma common_assign_np v : np (common_parse_assign v).
Proof.
  unfold common_parse_assign. apply np_bind; [apply nil_interface_np|intros isnil].
  np_auto; try apply float_text_np; try apply find_iface_np.
Qed.
Lemma common_value_np v : np (common_parse_value v).
Proof. unfold common_parse_value. np_auto; try apply float_text_np; try apply alloc_iface_np. Qed.

Lemma integer_number_np b v : np (parse_integer_number b v).
Proof. unfold parse_integer_number. np_auto. Qed.
Lemma integers_np b v : np (parse_integers b v).
Proof.
  unfold parse_integers. apply np_bind; [apply nil_interface_np|intros isnil].
  np_auto; apply integer_number_np.
Qed.
Lemma number_value_np v : np (number_parse_value v).
Proof. unfold number_parse_value. np_auto; apply integer_number_np. Qed.
Lemma number_assign_np v : np (number_parse_assign v).
Proof. unfold number_parse_assign. apply np_bind; [apply nil_interface_np|intros b]. destruct b; [apply np_ok|apply number_value_np]. Qed.

Lemma range_desc_step_pos s st e sp : range_desc s = Some (st, e, sp) -> 1 <= sp.
Proof.
  unfold range_desc. destruct (split_colon s) as [|a [|b rest]]; try discriminate.
  destruct (parse_int_text b); try discriminate. destruct (parse_int_text a); try discriminate.
  destruct rest as [|c rest].
  - intros Heq. inversion Heq. lia.
  - destruct (parse_int_text c) as [x|]; try discriminate.
    destruct (Z.ltb_spec x 1) as [Hlt|Hge]; try discriminate. intros Heq. inversion Heq. lia.
Qed.

Lemma expand_desc_np s d : range_desc s = Some d -> np (expand_desc d).
Proof.
  destruct d as [[st e] sp]. intros H. apply range_desc_step_pos in H.
  unfold expand_desc. destruct (e <? st); [apply np_ok|].
  destruct (Z.leb_spec sp 0); [lia|apply np_ok].
Qed.

Lemma numrange_value_np v : np (numrange_parse_value v).
Proof.
  unfold numrange_parse_value.
  np_auto; eapply expand_desc_np; eassumption.
Qed.
Lemma numrange_assign_np v : np (numrange_parse_assign v).
Proof.
  unfold numrange_parse_assign. apply np_bind; [apply nil_interface_np|intros b].
  np_auto; apply integer_number_np.
Qed.

Lemma strhash_value_np v : np (strhash_parse_value v).
Proof. unfold strhash_parse_value. np_auto. Qed.
Lemma strhash_assign_np v : np (strhash_parse_assign v).
Proof. unfold strhash_parse_assign. apply np_bind; [apply nil_interface_np|intros b]. destruct b; [apply np_ok|apply strhash_value_np]. Qed.

Theorem parsers_total (p : parser_kind) (v : gval) :
  parse_value p v <> PPanic /\ parse_value p v <> PDiverge /\
  parse_assign p v <> PPanic /\ parse_assign p v <> PDiverge.
Proof.
  destruct p; cbn [parse_value parse_assign].
  - destruct (common_value_np v), (common_assign_np v); auto.
  - destruct (number_value_np v), (number_assign_np v); auto.
  - destruct (strhash_value_np v), (strhash_assign_np v); auto.
  - destruct (numrange_value_np v), (numrange_assign_np v); auto.
Qed.

Lemma between_np v : np (parse_between v).
Proof. unfold parse_between. np_auto; apply integer_number_np. Qed.
Lemma range_np op v : np (parse_range op true v).
Proof. unfold parse_range. destruct op; try apply np_err; try apply between_np; (apply np_bind; [apply integer_number_np|intros; apply np_ok]). Qed.

Theorem range_helpers_total (op : vop) (v : gval) :
  parse_range op true v <> PPanic /\ parse_range op true v <> PDiverge /\
  parse_integers true v <> PPanic /\ parse_integers true v <> PDiverge /\
  nil_interface v <> PPanic.
Proof. destruct (range_np op v), (integers_np true v), (nil_interface_np v). auto. Qed.

Lemma ac_dict_np v : np (ac_parse_dict v).
Proof. unfold ac_parse_dict. np_auto. Qed.
Lemma ac_text_np sep v : np (ac_query_text sep v).
Proof. unfold ac_query_text. np_auto. Qed.

(* enumeration of a range description *)
Lemma enum_range_in fuel : forall st e sp x, 1 <= sp ->
  (In x (enum_range fuel st e sp) <-> exists k, 0 <= k < Z.of_nat fuel /\ x = st + k * sp /\ x <= e).
Proof.
  induction fuel as [|f IH]; intros st e sp x Hsp; cbn [enum_range].
  - split; [contradiction|]. intros (k & Hk & _). lia.
  - destruct (Z.leb_spec st e) as [Hle|Hgt].
    + cbn [In]. rewrite (IH (st + sp) e sp x Hsp). split.
      * intros [<-|(k & Hk & Hx & Hxe)]; [exists 0; lia|exists (k + 1); lia].
      * intros (k & Hk & Hx & Hxe). destruct (Z.eq_dec k 0) as [->|Hne]; [left; lia|right; exists (k - 1); lia].
    + split; [contradiction|]. intros (k & Hk & Hx & Hxe). nia.
Qed.

(* the enumeration loop in int64 arithmetic, as repaired: no wrap for ANY int64 start / end and step >= 1 *)
Lemma enum_range_above fuel st e sp : e < st -> enum_range fuel st e sp = [].
Proof. intros H. destruct fuel; cbn [enum_range]; [reflexivity|]. destruct (Z.leb_spec st e); [lia|reflexivity]. Qed.
Theorem enum_range_i64_exact : forall fuel st e sp,
  - two63 <= st < two63 -> - two63 <= e < two63 -> 1 <= sp < two63 ->
  enum_range_i64 fuel st e sp = enum_range fuel st e sp.
Proof.
  assert (T64 : two64 = 2 * two63) by reflexivity.
  induction fuel as [|f IH]; intros st e sp Hst He Hsp; cbn [enum_range_i64 enum_range]; [reflexivity|].
  destruct (Z.leb_spec st e) as [Hle|Hgt]; [|reflexivity]. f_equal.
  destruct (Z.ltb_spec (two63 - 1 - sp) st) as [Hov|Hok].
  - symmetry. apply enum_range_above. lia.
  - assert (W : wrap_i64 (st + sp) = st + sp).
    { unfold wrap_i64. rewrite Z.mod_small; lia. }
    rewrite W. apply IH; lia.
Qed.
(* ... and as it was (F19): "MaxInt64-1:MaxInt64" denotes two values, the loop is still running after a thousand *)
Example enum_range_pinned_refuted :
  let st := two63 - 2 in let e := two63 - 1 in
  length (enum_range (Z.to_nat ((e - st) / 1 + 1)) st e 1) = 2%nat /\
  length (enum_range_pinned 1000 st e 1) = 1000%nat /\
  enum_range_i64 1000 st e 1 = [st; e].
Proof. vm_compute. repeat split; reflexivity. Qed.

Theorem enum_range_exact st e sp : 1 <= sp -> st <= e ->
  forall x, In x (enum_range (Z.to_nat ((e - st) / sp + 1)) st e sp) <->
            exists k, 0 <= k /\ x = st + k * sp /\ x <= e.
Proof.
  intros Hsp Hle x. rewrite enum_range_in by auto. split.
  - intros (k & Hk & H). exists k. split; [lia|exact H].
  - intros (k & Hk & Hx & Hxe). exists k. split; [|auto].
    assert (0 <= (e - st) / sp) by (apply Z.div_pos; lia).
    rewrite Z2Nat.id by lia. split; [lia|].
    assert (k * sp <= e - st) by lia.
    assert (k <= (e - st) / sp) by (apply Z.div_le_lower_bound; lia). lia.
Qed.
