(* C06: the range holder's transaction data denote exactly the operator's interval, whatever the
   expansion threshold. *)
From Coq Require Import List NArith ZArith Bool Lia.
From BE Require Import Model.GoTypes Model.GoVal Model.Parsers Model.Index.
Import ListNotations.
Local Open Scope Z_scope.

Lemma z_range_spec : forall n l x, In x (z_range n l) <-> l <= x < l + Z.of_nat n.
Proof.
  induction n as [|n IH]; intros l x; cbn [z_range].
  - split; [contradiction|lia].
  - cbn [In]. rewrite IH. lia.
Qed.

(* which integers a transaction selects *)
Definition tx_selects (t : txdata) (x : Z) : Prop :=
  match t with
  | TxEq zs => In x zs
  | TxRange l r => l <= x < r
  | _ => False
  end.

Definition range_fd : fdesc := {| fd_name := 0%N; fd_cont := CRange; fd_parser := PCommon |}.

(* for ANY threshold: a parsed range operator yields a transaction selecting exactly [l, r) *)
Theorem range_tx_exact thr op v incl l r : op = OpGT \/ op = OpLT \/ op = OpBetween ->
  parse_range op true v = POk (l, r) -> l <= r ->
  exists t, indexing_tx thr range_fd {| e_incl := incl; e_op := op; e_val := v |} = POk t /\
            forall x, tx_selects t x <-> l <= x < r.
Proof.
  intros Hop Hp Hlr. unfold indexing_tx. cbn [fd_cont range_fd e_op e_val].
  assert (E : (match op with
               | OpEQ => pbind (parse_integers true v) (fun zs => POk (TxEq zs))
               | OpGT | OpLT | OpBetween =>
                 pbind (parse_range op true v) (fun lr => let '(l, r) := lr in
                   if range_size_lt l r thr then POk (TxEq (z_range (Z.to_nat (r - l)) l)) else POk (TxRange l r))
               | OpOther => PErr end) =
              (if range_size_lt l r thr then POk (TxEq (z_range (Z.to_nat (r - l)) l)) else POk (TxRange l r))).
  { destruct Hop as [->|[->| ->]]; rewrite Hp; reflexivity. }
  rewrite E. destruct (range_size_lt l r thr).
  - eexists. split; [reflexivity|]. intros x. cbn [tx_selects]. rewrite z_range_spec. lia.
  - eexists. split; [reflexivity|]. intros x. cbn [tx_selects]. lia.
Qed.

(* > a and < b on integers of magnitude up to 2^62 *)
Theorem gt_interval a k : Z.abs a <= 4611686018427387904 -> ikind_signed k = true ->
  parse_range OpGT true (VInt k a) = POk (a + 1, max_i64).
Proof.
  intros Ha Hk. unfold parse_range.
  assert (E : parse_integer_number true (VInt k a) = POk a) by (destruct k; try discriminate; reflexivity).
  rewrite E. cbn [pbind]. unfold new_range, wrap_i64, max_i64, two63, two64.
  replace ((a + 1 + 9223372036854775808) mod 18446744073709551616 - 9223372036854775808) with (a + 1)
    by (rewrite Z.mod_small; lia).
  destruct (Z.eqb_spec (a + 1) (9223372036854775808 - 1)) as [E1|E1]; [lia|reflexivity].
Qed.
Theorem lt_interval b k : Z.abs b <= 4611686018427387904 -> ikind_signed k = true ->
  parse_range OpLT true (VInt k b) = POk (min_i64, b).
Proof.
  intros Hb Hk. unfold parse_range.
  assert (E : parse_integer_number true (VInt k b) = POk b) by (destruct k; try discriminate; reflexivity).
  rewrite E. cbn [pbind]. unfold new_range, min_i64.
  destruct (Z.eqb_spec (- two63) b) as [E1|E1]; [unfold two63 in E1; lia|reflexivity].
Qed.
Theorem between_interval l h n : l < h ->
  parse_range OpBetween true (VSlice TSint64 n [VInt KI64 l; VInt KI64 h]) = POk (l, h).
Proof.
  intros Hlh. unfold parse_range, parse_between. cbn.
  destruct (Z.ltb_spec h l); [lia|]. unfold new_range. destruct (Z.eqb_spec l h) as [E1|E1]; [lia|].
  reflexivity.
Qed.
