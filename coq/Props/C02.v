(* C02  Compact index returns exactly the documents whose DNF is satisfied.  Statements only.
   The compact scan is the generic conjunction scan with needf c = max 1 (size c). *)
From Coq Require Import List NArith ZArith Bool Permutation.
From BE Require Import Model.Scan Model.Cursor Proofs.ScanProof Proofs.Refine Proofs.ConcreteScan.
From BE Require Model.Index Gen.IdsGen.
Import ListNotations.
Local Open Scope N_scope.

(* for ANY sorted streams, monotone need function >= 1 and "a conjunction's include entry sits in at
   most need streams": the scan terminates and returns exactly, once each, the conjunctions with no
   exclude entry and at least `need` include entries *)
Theorem C02_generic_scan_exact : forall (needf : N -> nat) (os : list stream),
  (forall c, (1 <= needf c)%nat) -> (forall c c', c <= c' -> (needf c <= needf c')%nat) ->
  Forall sorted os -> (forall c, (cnt (c, true) os <= needf c)%nat) ->
  exists r, scan needf os = Some r /\
            (forall x, In x r <-> cnt (x, false) os = O /\ (needf x <= cnt (x, true) os)%nat) /\ NoDup r.
Proof. exact scan_correct. Qed.

(* the CONCRETE compact loop of the executable model (Model/Index.v: cp_loop; need = max 1 (size of the
   smallest conjunction), exit when need exceeds the live cursors, exhausted cursors trimmed after every
   round): terminates within its fuel and reports, once each, exactly the conjunctions with no exclude
   entry and at least `cneed c` include entries; cneed c = max 1 (ConjID.Size c) for every real id *)
Theorem C02_concrete_compact_loop_exact : forall cs ss,
  Forall2 Rel cs ss -> Forall live cs -> (forall c, (cnt (c, true) ss <= cneed c)%nat) ->
  exists res, Index.cp_loop (S (Index.fc_total cs)) (sort_fcursors cs) [] = Some res /\
    (forall x, In x (map snd res) <-> satf cneed ss x) /\ NoDup (map snd res) /\
    (forall h, In h res -> fst h = IdsGen.ConjID_DocID (snd h)).
Proof. exact cp_loop_correct. Qed.

Theorem C02_need_is_the_codes : forall c, c < 2^60 -> Z.to_nat (Z.max 1 (IdsGen.ConjID_Size c)) = cneed c.
Proof. exact cneed_eq. Qed.

Print Assumptions C02_generic_scan_exact.
Print Assumptions C02_concrete_compact_loop_exact.
