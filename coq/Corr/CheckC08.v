(* C08 uses the shared end-to-end case format. *)
From BE Require Export Corr.CheckE2E.
