package main

import (
	"encoding/json"
	"fmt"
	"strings"

	be "github.com/echoface/be_indexer"
)

const c07Rule = "sequential part: document sets over default, pattern and range fields on k-groups and compact indexes, every query answered once and compared with model and specification in Coq (these are the sequential reference answers); concurrent part (harness built with -race): the same indexes plus a roaring index are shared by G in {2,4,16} goroutines (one roaring scanner per goroutine), each issuing random queries through Retrieve and through RetrieveWithCollector with its own recording collector for the tier's duration, about 4% of them failing retrievals (a value no parser supports on a known field; 40 more before the concurrent phase); every concurrent answer is compared with the sequential one and any race-detector report is a violation. Non-trivial = some query returns a non-empty proper subset; distinct = distinct input"

func mixedDocset(r *Rand, kind string) eCase {
	o := &docsetOpts{kind: kind, nFields: 1 + r.Intn(3), maxDocs: 8, valueShape: intsShape, queryShape: intsShape}
	c := genDocset(r, o)
	c.Configs = map[int]string{6: "ac_matcher", 7: "ext_range"}
	words := []string{"red", "blue", "re", "x y"}
	for k := 0; k < 3; k++ {
		c.Docs = append(c.Docs, eDoc{ID: 900 + int64(k), Cons: []eConj{{
			{F: 6, Inc: r.Chance(70), V: tvSlice("[]string", tvStr(pick(r, words)), tvStr(pick(r, words)))},
			{F: 7, Inc: true, Op: 1 + r.Intn(2), V: tvInt("int64", r.I64(0, 50))},
			{F: 0, Inc: false, V: tvSlice("[]int", tvInt("int", r.I64(1, 6)))}}}})
	}
	for i := range c.Queries {
		c.Queries[i].Debug = false
		if r.Chance(60) {
			var text TV
			switch r.Intn(3) {
			case 0:
				text = tvStr(pick(r, words) + " " + pick(r, words))
			case 1: // the shape a JSON-decoded query has
				text = tvList(tvStr(pick(r, words)), tvStr(pick(r, words)))
			default:
				text = tvSlice("[]string", tvStr(pick(r, words)), tvStr("x"), tvStr(pick(r, words)))
			}
			c.Queries[i].A = setAssign(setAssign(c.Queries[i].A, 6, text), 7, tvInt("int", r.I64(-5, 60)))
		}
	}
	return c
}

func init() {
	props["C07"] = &propDef{
		header:    "From BE Require Import Corr.CheckC07.",
		rule:      c07Rule,
		shardSize: 10,
		gen: func(tier string, r *Rand, add func(in interface{})) {
			for i := 0; i < 12; i++ {
				add(mixedDocset(r, []string{"kgroups", "compact"}[i%2]))
			}
		},
		exec: execE2E,
		extra: func(tier string, seed uint64, outdir string) (map[string]interface{}, []string) {
			secs := 5.0
			if tier == "thorough" {
				secs = 180
			}
			return runRaceChild("race07", outdir, seed, secs)
		},
	}
}

// ---- C14 ----

const c14Rule = "(every sixth case publishes an EMPTY index, every sixth an index whose every AddDocument failed after indexing part of the document) sequential part: an index is published, half of the queries are answered, then the builder goes through a seeded sequence of Reset / AddDocument (documents introducing new fields) / ConfigField / BuildIndex operations (always starting with Reset), then the other half is answered on the OLD index: all answers must be those of the one pure model index (Coq); through the hook the field table of the published index and the builder's are probed for aliasing; concurrent part (-race build): three goroutines query the published index while a fourth loops Reset -> AddDocument(new fields) -> BuildIndex on its builder; every answer is compared with the one taken before the builder activity and any race-detector report is a violation. op 6 adds a new document carrying the very *Conjunction object the published generation ended with; op 7 re-registers the default-holder factory with parsers over a custom hash function (parser.NewHashAllocator(fn)); a fifth of the sequences (and two dedicated ones) call ConfigField straight after publication, before the first Reset; Non-trivial = some query returns a non-empty proper subset; distinct = distinct input"

type c14In struct {
	C14  bool  `json:"c14"`
	Case eCase `json:"case"`
	Ops  []int `json:"ops"` // 0 Reset, 1 AddDocument(new field), 2 BuildIndex, 3 ConfigField(new), 4 AddDocument(known field only), 5 re-register the default-holder factory with other field parsers, 7 re-register the default-holder factory with parsers over a custom hash function, 6 AddDocument(a new document carrying the SAME *Conjunction object as the last document of the published generation: documents generated from one targeting template)
}

func execC14(raw json.RawMessage) (res execResult, err error) {
	var in c14In
	if err = json.Unmarshal(raw, &in); err != nil {
		return
	}
	c := &in.Case
	restore := installParsers(c.Parsers)
	defer restore()
	obs := &e2eObs{}
	b := newBuilder(c)
	var docLits []string
	var template *be.Conjunction // the last conjunction the published generation parsed
	for i := range c.Docs {
		var aerr error
		doc := c.Docs[i].build()
		p := safeCall(func() { aerr = b.AddDocument(doc) })
		out := "IAddOk"
		if p {
			out = "IAddPanic"
		} else if aerr != nil {
			out = "IAddErr"
		} else {
			obs.NDocsOK++
			if len(doc.Cons) > 0 {
				template = doc.Cons[len(doc.Cons)-1]
			}
		}
		docLits = append(docLits, fmt.Sprintf("(%s, %s)", c.Docs[i].coq(), out))
	}
	index := b.BuildIndex()
	state := "None"
	if es, z, ok := indexEntries(index); ok {
		state = fmt.Sprintf("(Some (%s, %s))", nlist(es), nlist(z))
	}
	half := len(c.Queries) / 2
	qLits := runIndexQueries(index, c.Queries[:half], obs)
	// builder activity after publication
	n := 0
	for _, op := range in.Ops {
		n++
		switch op {
		case 0:
			b.Reset()
		case 1:
			d := be.NewDocument(be.DocID(7000 + n))
			conj := be.NewConjunction()
			conj.In(fieldName(1000+n), []int{1, 2, 3})
			conj.In(fieldName(0), []int{1, 2, 3, 4, 5, 6})
			if _, ok := c.Configs[3000]; ok { // the first use of a field configured (with an empty option) before publication
				conj.In(fieldName(3000), []int{1, 2})
			}
			d.AddConjunction(conj, be.NewConjunction())
			safeCall(func() { b.AddDocument(d) })
		case 4: // one expression on a field of the published generation, at conjunction size 1
			d := be.NewDocument(be.DocID(7000 + n))
			d.AddConjunction(be.NewConjunction().In(fieldName(0), []int{0, 1, 2, 3, 4, 5, 6}))
			safeCall(func() { b.AddDocument(d) })
		case 5: // the process-wide default-holder factory now gives fields of the published generation other parsers
			// (filled into the new holder's table in place): holders created from here on must not share a table
			// with the published index's holders
			undo := installParsers(map[int]string{0: "number", 1: "strhash", 4: "number"})
			defer undo() // back to the stock factory when this case is over (registered last, so it runs before `restore`)
		case 7: // a hash roll-out: from here on the default-holder factory makes holders whose parser hashes texts with a
			// custom function (parser.NewHashAllocator(fn)); the published index keeps the stock one
			undo := installParsers(map[int]string{0: "customhash", 1: "customhash", 4: "customhash", 9999: "customhash"})
			defer undo()
		case 6:
			if template != nil {
				d := be.NewDocument(be.DocID(7000 + n))
				d.AddConjunction(template)
				safeCall(func() { b.AddDocument(d) })
			}
		case 2:
			safeCall(func() { b.BuildIndex() })
		case 3:
			safeCall(func() { b.ConfigField(fieldName(2000+n), be.FieldOption{}) })
		}
	}
	if shared, ok := fieldTablesShared(b, index); ok && shared && len(extraViolations) == 0 {
		extraViolations = append(extraViolations, "the published index and its builder share one field table (map): a later ConfigField/AddDocument on the builder writes into the table the index reads during Retrieve")
	}
	qLits = append(qLits, runIndexQueries(index, c.Queries[half:], obs)...)
	res.Coq = fmt.Sprintf("Build_ecase %s\n    %s\n    %s\n    %s", c.header(), listl(docLits), listl(qLits), state)
	res.NonTrivial = obs.AnyHit && obs.AnyExcl
	res.Dist = c.Kind + "/ops=" + strings.Trim(strings.Join(strings.Fields(fmt.Sprint(in.Ops)), ""), "[]")
	if len(res.Dist) > 40 {
		res.Dist = res.Dist[:40]
	}
	res.Summary = map[string]interface{}{"ops": in.Ops, "results": obs.Results}
	return
}

func init() {
	props["C14"] = &propDef{
		header:    "From BE Require Import Corr.CheckC14.",
		rule:      c14Rule,
		shardSize: 10,
		gen: func(tier string, r *Rand, add func(in interface{})) {
			n := 30
			if tier == "thorough" {
				n = 1500
			}
			// the published generation uses dedicated containers only (nothing in the default holder) and knows a
			// default-container field by configuration; the next generation is the first to index that field
			for _, kind := range []string{"kgroups", "compact"} {
				c := eCase{Kind: kind, Policy: "error", Configs: map[int]string{0: "", 1: "ac_matcher", 2: "ext_range"}}
				c.Docs = []eDoc{
					{ID: 20, Cons: []eConj{{{F: 2, Inc: true, Op: 1, V: tvInt("int64", 18)}}}},
					{ID: 21, Cons: []eConj{{{F: 1, Inc: true, V: tvStr("red")}, {F: 2, Inc: false, Op: 2, V: tvInt("int64", 5)}}, {}}},
				}
				for _, a := range []int64{0, 1, 3, 6, 9} {
					c.Queries = append(c.Queries, eQuery{A: []eAssign{{F: 0, V: tvInt("int", a)}, {F: 2, V: tvInt("int64", 30)}}}, eQuery{A: []eAssign{{F: 0, V: tvInt("int", a)}}},
						eQuery{A: []eAssign{{F: 0, V: tvInt("int", a)}, {F: 1, V: tvStr("a red b")}, {F: 2, V: tvInt("int64", 3)}}})
				}
				add(c14In{C14: true, Case: c, Ops: []int{0, 4, 2, 0, 4, 1, 2}})
			}
			// the next generation starts with a document carrying the very conjunction object the published generation
			// ended with (one template shared by generated documents), before and after a further Reset
			for _, kind := range []string{"kgroups", "compact"} {
				c := eCase{Kind: kind, Policy: "error"}
				c.Docs = []eDoc{
					{ID: 1, Cons: []eConj{{{F: 0, Inc: true, V: tvSlice("[]int", tvInt("int", 1), tvInt("int", 2))}}}},
					{ID: 2, Cons: []eConj{{{F: 0, Inc: true, V: tvSlice("[]int", tvInt("int", 3))}}}},
					{ID: 3, Cons: []eConj{{{F: 0, Inc: true, V: tvSlice("[]int", tvInt("int", 1))}, {F: 4, Inc: true, V: tvSlice("[]int", tvInt("int", 3))}}}},
				}
				for _, a := range [][2]int64{{1, 3}, {3, 3}, {2, 1}, {1, 1}, {1, 3}, {3, 0}, {1, 3}, {2, 3}} {
					c.Queries = append(c.Queries, eQuery{A: []eAssign{{F: 0, V: tvInt("int", a[0])}, {F: 4, V: tvInt("int", a[1])}}})
				}
				add(c14In{C14: true, Case: c, Ops: []int{0, 6, 2, 0, 6, 4, 2}})
				add(c14In{C14: true, Case: c, Ops: []int{7, 0, 4, 1, 2, 0, 4, 2}})
				// ConfigField on the builder straight after publication (BEFORE any Reset), then a new generation: the published
				// index does not know the fields configured later, whatever value a query gives them
				{
					c2 := c
					c2.Queries = append([]eQuery{}, c.Queries...)
					for j := len(c2.Queries) / 2; j < len(c2.Queries); j++ {
						c2.Queries[j].A = setAssign(setAssign(c2.Queries[j].A, 2001, pick(r, []TV{tvBool(true), {T: "other:struct"}, tvInt("int", 2)})), 2002, tvBool(false))
					}
					add(c14In{C14: true, Case: c2, Ops: []int{3, 3, 0, 1, 2}})
					add(c14In{C14: true, Case: c2, Ops: []int{3, 3, 0, 4, 2, 3}}) // (no BuildIndex before the first Reset: until then BuildIndex hands out the SAME index again, by design)
				}
				add(c14In{C14: true, Case: c, Ops: []int{0, 7, 4, 1, 2}})
			}
			for i := 0; i < n; i++ {
				c := mixedDocset(r, []string{"kgroups", "compact"}[(i+i/6)%2])
				ops := []int{0}
				switch i % 6 {
				case 2: // the published index is empty: BuildIndex before any document
					c.Docs = nil
					ops = []int{0, 1, 2}
				case 4: // every AddDocument of the published generation fails after indexing part of the document
					c.Policy = "error"
					for j := range c.Docs {
						c.Docs[j].Cons = append(c.Docs[j].Cons, eConj{{F: 0, Inc: true, V: TV{T: "other:struct"}}})
					}
					ops = []int{0, 1, 2}
				case 1: // every conjunction of the published generation has exactly two include fields: the size groups
					// below stay empty in the published index; the next generation fills them
					c.Docs = []eDoc{
						{ID: 1, Cons: []eConj{{{F: 0, Inc: true, V: tvSlice("[]int", tvInt("int", 1), tvInt("int", 2))}, {F: 4, Inc: true, V: tvSlice("[]int", tvInt("int", 1))}}}},
						{ID: 2, Cons: []eConj{{{F: 0, Inc: true, V: tvSlice("[]int", tvInt("int", 3))}, {F: 4, Inc: true, V: tvSlice("[]int", tvInt("int", 1), tvInt("int", 2))}, {F: 0, Inc: false, V: tvInt("int", 9)}}}},
					}
					c.Configs, c.Parsers = nil, nil
					c.Queries = nil
					for _, a := range [][2]int64{{1, 1}, {3, 2}, {2, 2}, {5, 1}, {1, 9}, {3, 1}, {0, 1}, {6, 2}} {
						c.Queries = append(c.Queries, eQuery{A: []eAssign{{F: 0, V: tvInt("int", a[0])}, {F: 4, V: tvInt("int", a[1])}}}, eQuery{A: []eAssign{{F: 0, V: tvInt("int", a[0])}}})
					}
					ops = []int{0, 4, 1, 2}
				case 5: // the published generation ends with a one-expression conjunction on field 0 and the next
					// generation starts with one (anything the builder remembers about "the previous expression"
					// then points into the published index)
					c.Docs = append(c.Docs, eDoc{ID: 6999, Cons: []eConj{{{F: 0, Inc: true, V: tvSlice("[]int", tvInt("int", 1), tvInt("int", 9))}}}})
					ops = []int{0, 4, 2}
				}
				for k := 1 + r.Intn(19); k > 0; k-- {
					ops = append(ops, r.Intn(8))
				}
				if i%5 == 2 && i%6 != 2 && i%6 != 4 { // ConfigField straight after publication, before the first Reset
					ops = append([]int{3}, ops...)
				}
				if i%6 == 3 { // factory change first, then a new generation through Reset / AddDocument / BuildIndex
					ops = append([]int{0, 5, 0, 4, 1, 2}, ops...)
				}
				// a field configured with an empty option before publication that no document of the published
				// generation uses; later generations are the first to use it
				if i%3 != 2 {
					if c.Configs == nil {
						c.Configs = map[int]string{}
					}
					c.Configs[3000] = ""
					for j := range c.Queries {
						if r.Chance(40) {
							c.Queries[j].A = setAssign(c.Queries[j].A, 3000, pick(r, []TV{tvBool(true), {T: "other:map"}, tvInt("int", 2), tvSlice("[]bool", tvBool(true))}))
						}
					}
				}
				// second half: also values no parser supports on the fields the builder introduces later; the
				// published index does not know these fields and must keep ignoring them
				half := len(c.Queries) / 2
				for j := half; j < len(c.Queries); j++ {
					if r.Chance(50) {
						k := 1 + r.Intn(len(ops))
						c.Queries[j].A = setAssign(c.Queries[j].A, pick(r, []int{1000, 2000})+k, pick(r, []TV{tvBool(true), {T: "other:struct"}, tvInt("int", 2)}))
					}
				}
				add(c14In{C14: true, Case: c, Ops: ops})
			}
		},
		exec: execC14,
		extra: func(tier string, seed uint64, outdir string) (map[string]interface{}, []string) {
			secs := 5.0
			if tier == "thorough" {
				secs = 180
			}
			// the race child reads e2e cases: write them out from the c14 inputs
			ev, v := runRaceChildC14(outdir, seed, secs)
			n, pv := nilHolderFactoryProbe()
			v = append(v, pv...)
			if ev != nil {
				ev["holder_factory_fault_retrievals"] = n
			}
			v = append(v, extraViolations...)
			extraViolations = nil
			return ev, v
		},
	}
}
