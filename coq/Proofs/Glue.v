From Coq Require Import List NArith ZArith Bool Lia Permutation Sorting.Sorted Arith.
From BE Require Import Model.Scan Proofs.ScanProof Model.Build Proofs.BuildProof.
Import ListNotations.
Local Open Scope N_scope.

(* ---------- sort_e ---------- *)
Lemma ins_e_perm x l : Permutation (ins_e x l) (x :: l).
Proof. induction l as [|y l IH]; simpl; auto. destruct (key x <? key y); auto. rewrite IH. apply perm_swap. Qed.
Lemma sort_e_perm l : Permutation (sort_e l) l.
Proof. induction l; simpl; auto. rewrite ins_e_perm. auto. Qed.
Lemma ins_e_sorted x l : sorted l -> sorted (ins_e x l).
Proof.
  unfold sorted. induction 1 as [|y l Hs IH Hall]; simpl.
  - repeat constructor.
  - destruct (N.ltb_spec (key x) (key y)).
    + constructor; [constructor; auto|]. constructor; [unfold le_entry; lia|].
      rewrite Forall_forall in *. intros z Hz. specialize (Hall z Hz). unfold le_entry in *. lia.
    + constructor; auto. rewrite Forall_forall in *. intros z Hz.
      apply (Permutation_in _ (ins_e_perm x l)) in Hz. destruct Hz as [<-|Hz]; auto; unfold le_entry; lia.
Qed.
Lemma sort_e_sorted l : sorted (sort_e l).
Proof. induction l; simpl. constructor. apply ins_e_sorted; auto. Qed.
Lemma mem_sort_e e l : mem e (sort_e l) = true <-> In e l.
Proof. rewrite mem_In. split; apply Permutation_in; [apply sort_e_perm|apply Permutation_sym, sort_e_perm]. Qed.

Lemma mem_false_iff e s : mem e s = false <-> ~ In e s.
Proof. rewrite <- mem_In. destruct (mem e s); split; intros H; try congruence; try tauto; try (exfalso; apply H; auto); intros H'; congruence. Qed.

(* counting through map/filter *)
Lemma cnt_map {A} (F : A -> stream) e (l : list A) : cnt e (map F l) = length (filter (fun a => mem e (F a)) l).
Proof. unfold cnt. induction l as [|a l IH]; simpl; auto. destruct (mem e (F a)); simpl; rewrite IH; auto. Qed.
Local Arguments mem : simpl never.
Lemma cnt_filter_nonempty e (l : list stream) :
  cnt e (filter (fun s => match s with [] => false | _ => true end) l) = cnt e l.
Proof.
  unfold cnt. induction l as [|s l IH]; simpl; auto. destruct s as [|x s]; simpl.
  - replace (mem e []) with false by reflexivity. auto.
  - destruct (mem e (x :: s)); simpl; rewrite IH; auto.
Qed.

Section G.
Variable qval : Type.
Variable qmatch : qval -> term -> bool.
Variable cid_of : Z -> nat -> nat -> N.
Variables (ds : list doc) (q : assignment qval).
Hypothesis Hq : NoDup (map fst q).
(* C11 + distinct document ids: a conjunction id determines the conjunction *)
Hypothesis Hinj : forall d i c d' i' c', has_conj ds d i c -> has_conj ds d' i' c' ->
  cid_of (d_id d) i (calc_size c) = cid_of (d_id d') i' (calc_size c') -> d = d' /\ i = i'.

Notation ix := (build cid_of ds).
Notation hitq := (hit qval qmatch q).
Notation satq := (sat_conj qval qmatch q).
Definition the_cid (d : doc) (i : nat) (c : conj) : N := cid_of (d_id d) i (calc_size c).

Lemma same_conj d i c d' i' c' : has_conj ds d i c -> has_conj ds d' i' c' ->
  the_cid d i c = the_cid d' i' c' -> c = c'.
Proof.
  intros H1 H2 E. destruct (Hinj _ _ _ _ _ _ H1 H2 E) as [-> ->].
  destruct H1 as [_ H1], H2 as [_ H2]. congruence.
Qed.

Lemma lookup_In f v : lookup qval f q = Some v <-> In (f, v) q.
Proof.
  clear Hinj. induction q as [|[g w] q' IH]; simpl; [split; [discriminate|tauto]|].
  inversion Hq; subst. destruct (N.eqb_spec g f) as [->|Hne].
  - split; [intros H; inversion H; auto|]. intros [H|H]; [inversion H; auto|].
    exfalso. apply H1. apply in_map_iff. exists (f, v). auto.
  - rewrite IH by auto. split; auto. intros [H|H]; auto. inversion H; congruence.
Qed.

(* membership in a field stream of the built index *)
Lemma field_stream_mem k f v cid b :
  mem (cid, b) (field_stream qval qmatch ix k f v) = true <->
  exists d i c e t, has_conj ds d i c /\ In e c /\ In t (e_terms e) /\ calc_size c = k /\
     e_field e = f /\ qmatch v t = true /\ cid = the_cid d i c /\ e_incl e = b.
Proof.
  unfold field_stream. rewrite mem_sort_e, in_map_iff. split.
  - intros [x [Hx Hin]]. apply filter_In in Hin. destruct Hin as [Hin Hc].
    apply andb_true_iff in Hc. destruct Hc as [Hc Hm]. apply andb_true_iff in Hc. destruct Hc as [Hk Hf].
    apply Nat.eqb_eq in Hk. apply N.eqb_eq in Hf.
    apply build_facts in Hin. destruct Hin as [d [i [c [e [t [Hc [He [Ht ->]]]]]]]].
    simpl in *. inversion Hx; subst. exists d, i, c, e, t. unfold the_cid. destruct Hc. repeat split; auto.
  - intros [d [i [c [e [t [Hc [He [Ht [Hk [Hf [Hm [-> Hb]]]]]]]]]]]].
    exists (mkfact cid_of d i c e t). split. { simpl. rewrite Hb. reflexivity. }
    apply filter_In. split. { apply build_facts. exists d, i, c, e, t. auto. }
    simpl. rewrite Hk, Hf, Hm, Nat.eqb_refl, N.eqb_refl. reflexivity.
Qed.

(* an expression is hit iff its entry is in the stream of its field *)
Lemma hit_iff d i c e : has_conj ds d i c -> In e c ->
  (hitq e = true <-> exists v, In (e_field e, v) q /\
      mem (the_cid d i c, e_incl e) (field_stream qval qmatch ix (calc_size c) (e_field e) v) = true /\
      exists t, In t (e_terms e) /\ qmatch v t = true).
Proof.
  intros Hc He. unfold hit. split.
  - destruct (lookup qval (e_field e) q) as [v|] eqn:E; [|discriminate]. intros H.
    apply existsb_exists in H. destruct H as [t [Ht Hm]]. apply lookup_In in E.
    exists v. split; auto. split; [|eauto]. apply field_stream_mem. exists d, i, c, e, t. destruct Hc. repeat split; auto.
  - intros [v [Hv [_ [t [Ht Hm]]]]]. apply lookup_In in Hv. rewrite Hv. apply existsb_exists. eauto.
Qed.

(* ---------- counting streams ---------- *)
Variable k : nat.
Notation F := (fun fv : field * qval => field_stream qval qmatch ix k (fst fv) (snd fv)).
Notation SS := (streams qval qmatch ix k q).
Definition Qe (e : entry) : list (field * qval) := filter (fun fv => mem e (F fv)) q.

Definition zpart : list stream :=
  if Nat.eqb k 0 then match ix_z ix with [] => [] | _ => [z_stream ix] end else [].

Lemma cnt_SS e : cnt e SS = (cnt e zpart + length (Qe e))%nat.
Proof. unfold streams. rewrite cnt_app, cnt_filter_nonempty, cnt_map. reflexivity. Qed.

Lemma NoDup_map_filter {A B} (g : A -> B) (p : A -> bool) l : NoDup (map g l) -> NoDup (map g (filter p l)).
Proof.
  induction l as [|a l IH]; simpl; auto. intros H. inversion H; subst. destruct (p a); simpl; auto.
  constructor; auto. intros Hin. apply H2. apply in_map_iff in Hin. destruct Hin as [x [Hx Hin]].
  apply filter_In in Hin. apply in_map_iff. exists x. tauto.
Qed.

Lemma z_stream_mem cid b : mem (cid, b) (z_stream ix) = true <-> b = true /\ In cid (ix_z ix).
Proof.
  unfold z_stream. rewrite mem_sort_e, in_map_iff. split.
  - intros [x [Hx Hin]]. inversion Hx; subst. auto.
  - intros [-> H]. exists cid. auto.
Qed.

Lemma fields_incl_In c f : In f (fields_incl c) <-> exists e, In e c /\ e_incl e = true /\ e_field e = f.
Proof.
  unfold fields_incl. rewrite nodup_In, in_map_iff. split.
  - intros [e [Hf He]]. apply filter_In in He. exists e. tauto.
  - intros [e [He [Hi Hf]]]. exists e. split; auto. apply filter_In. auto.
Qed.

Section OneConj.
Variables (d : doc) (i : nat) (c : conj).
Hypothesis Hc : has_conj ds d i c.
Hypothesis Hk : calc_size c = k.
Notation cid := (the_cid d i c).

(* every expression whose entry shows up under this conjunction id belongs to c *)
Lemma stream_entry_expr f v b : mem (cid, b) (field_stream qval qmatch ix k f v) = true ->
  exists e t, In e c /\ In t (e_terms e) /\ e_field e = f /\ e_incl e = b /\ qmatch v t = true.
Proof.
  intros H. apply field_stream_mem in H. destruct H as [d' [i' [c' [e [t [Hc' [He [Ht [Hk' [Hf [Hm [Hcid Hb]]]]]]]]]]]].
  assert (c = c') by (eapply same_conj; eauto). subst c'. exists e, t. auto.
Qed.

Lemma Qe_incl_fields fv : In fv (Qe (cid, true)) -> In (fst fv) (fields_incl c).
Proof.
  unfold Qe. rewrite filter_In. intros [Hin Hm]. destruct (stream_entry_expr _ _ _ Hm) as [e [t [He [_ [Hf [Hi _]]]]]].
  apply fields_incl_In. exists e. auto.
Qed.

Lemma Qe_len_le : (length (Qe (cid, true)) <= calc_size c)%nat.
Proof.
  unfold calc_size. rewrite <- (map_length fst (Qe (cid, true))). apply NoDup_incl_length.
  - apply NoDup_map_filter. auto.
  - intros f Hf. apply in_map_iff in Hf. destruct Hf as [fv [<- Hfv]]. apply Qe_incl_fields; auto.
Qed.

Definition incl_ok : Prop :=
  forall f, In f (fields_incl c) -> exists e, In e c /\ e_field e = f /\ e_incl e = true /\ hitq e = true.

Lemma hit_in_Qe e : In e c -> hitq e = true -> exists v, In (e_field e, v) (Qe (cid, e_incl e)).
Proof.
  intros He Hh. apply (hit_iff d i c e Hc He) in Hh. destruct Hh as [v [Hv [Hm _]]].
  exists v. unfold Qe. apply filter_In. split; auto. simpl. rewrite <- Hk. auto.
Qed.

Lemma incl_ok_iff : incl_ok <-> (calc_size c <= length (Qe (cid, true)))%nat.
Proof.
  split.
  - intros H. unfold calc_size. rewrite <- (map_length fst (Qe (cid, true))). apply NoDup_incl_length.
    + apply NoDup_nodup.
    + intros f Hf. destruct (H f Hf) as [e [He [Hfe [Hi Hh]]]].
      destruct (hit_in_Qe e He Hh) as [v Hv]. rewrite Hi in Hv. apply in_map_iff. exists (e_field e, v). simpl. auto.
  - intros Hlen f Hf.
    assert (Hincl : incl (fields_incl c) (map fst (Qe (cid, true)))).
    { apply NoDup_length_incl.
      - apply NoDup_map_filter; auto.
      - rewrite map_length. exact Hlen.
      - intros g Hg. apply in_map_iff in Hg. destruct Hg as [fv [<- Hfv]]. apply Qe_incl_fields; auto. }
    specialize (Hincl f Hf). apply in_map_iff in Hincl. destruct Hincl as [[g v] [Hg Hfv]]. simpl in Hg. subst g.
    unfold Qe in Hfv. apply filter_In in Hfv. destruct Hfv as [Hin Hm]. simpl in Hm.
    destruct (stream_entry_expr _ _ _ Hm) as [e [t [He [Ht [Hfe [Hi Hmt]]]]]].
    exists e. repeat split; auto. unfold hit. rewrite Hfe. apply lookup_In in Hin. rewrite Hin.
    apply existsb_exists. eauto.
Qed.

Definition excl_ok : Prop := forall e, In e c -> e_incl e = false -> hitq e = false.

Lemma excl_ok_iff : excl_ok <-> length (Qe (cid, false)) = O.
Proof.
  split.
  - intros H. destruct (Qe (cid, false)) as [|[f v] r] eqn:E; auto. exfalso.
    assert (Hin : In (f, v) (Qe (cid, false))) by (rewrite E; left; auto).
    unfold Qe in Hin. apply filter_In in Hin. destruct Hin as [Hin Hm]. simpl in Hm.
    destruct (stream_entry_expr _ _ _ Hm) as [e [t [He [Ht [Hfe [Hi Hmt]]]]]].
    assert (hitq e = true).
    { unfold hit. rewrite Hfe. apply lookup_In in Hin. rewrite Hin. apply existsb_exists. eauto. }
    rewrite (H e He Hi) in H0. discriminate.
  - intros Hlen e He Hi. destruct (hitq e) eqn:Hh; auto. exfalso.
    destruct (hit_in_Qe e He Hh) as [v Hv]. rewrite Hi in Hv. destruct (Qe (cid, false)); simpl in *; [contradiction|discriminate].
Qed.

Lemma sat_conj_iff : satq c = true <-> incl_ok /\ excl_ok.
Proof.
  unfold sat_conj. rewrite forallb_forall. split.
  - intros H. split.
    + intros f Hf. apply fields_incl_In in Hf. destruct Hf as [e [He [Hi Hfe]]].
      specialize (H e He). rewrite Hi in H. apply existsb_exists in H. destruct H as [e' [He' H]].
      apply andb_true_iff in H. destruct H as [H Hh]. apply andb_true_iff in H. destruct H as [Hf' Hi'].
      apply N.eqb_eq in Hf'. exists e'. repeat split; auto. congruence.
    + intros e He Hi. specialize (H e He). rewrite Hi in H. apply negb_true_iff in H. auto.
  - intros [Hin Hex] e He. destruct (e_incl e) eqn:Hi.
    + assert (Hf : In (e_field e) (fields_incl c)) by (apply fields_incl_In; eauto).
      destruct (Hin _ Hf) as [e' [He' [Hfe [Hi' Hh]]]]. apply existsb_exists. exists e'. split; auto.
      rewrite Hfe, Hi', Hh, N.eqb_refl. reflexivity.
    + apply negb_true_iff. apply Hex; auto.
Qed.
End OneConj.

(* ---------- one size group ---------- *)
Lemma SS_sorted : Forall sorted SS.
Proof.
  unfold streams. apply Forall_app. split.
  - destruct (Nat.eqb k 0); [|constructor]. destruct (ix_z ix); constructor; [|constructor]. apply sort_e_sorted.
  - apply Forall_forall. intros s Hs. apply filter_In in Hs. destruct Hs as [Hs _].
    apply in_map_iff in Hs. destruct Hs as [fv [<- _]]. apply sort_e_sorted.
Qed.

Lemma SS_zpart : SS = zpart ++ filter (fun s => match s with [] => false | _ => true end) (map F q).
Proof. reflexivity. Qed.

Lemma zpart_cnt_le e : (cnt e zpart <= 1)%nat.
Proof. unfold zpart. destruct (Nat.eqb k 0); [|unfold cnt; simpl; lia]. destruct (ix_z ix); unfold cnt; simpl; [lia|]. destruct (mem e _); simpl; lia. Qed.
Lemma zpart_false x : cnt (x, false) zpart = O.
Proof.
  unfold zpart. destruct (Nat.eqb k 0); [|reflexivity]. destruct (ix_z ix) eqn:E; [reflexivity|].
  unfold cnt. simpl. destruct (mem (x, false) (z_stream ix)) eqn:M; auto.
  apply z_stream_mem in M. destruct M; discriminate.
Qed.
Lemma zpart_true x : (0 < cnt (x, true) zpart)%nat <-> k = O /\ In x (ix_z ix).
Proof.
  unfold zpart. destruct (Nat.eqb_spec k 0) as [->|Hne].
  - destruct (ix_z ix) eqn:E. { unfold cnt; simpl. split; [lia|intros [_ []]]. }
    rewrite <- E. unfold cnt. simpl. destruct (mem (x, true) (z_stream ix)) eqn:M; simpl.
    + apply z_stream_mem in M. split; [tauto|lia].
    + split; [lia|]. intros [_ H]. assert (mem (x, true) (z_stream ix) = true) by (apply z_stream_mem; auto). congruence.
  - unfold cnt; simpl. split; [lia|]. intros [H _]; contradiction.
Qed.

Lemma Qe_nonempty_conj x b : Qe (x, b) <> [] -> exists d i c, has_conj ds d i c /\ calc_size c = k /\ x = the_cid d i c.
Proof.
  destruct (Qe (x, b)) as [|fv r] eqn:E; [congruence|]. intros _.
  assert (Hin : In fv (Qe (x, b))) by (rewrite E; left; auto).
  unfold Qe in Hin. apply filter_In in Hin. destruct Hin as [_ Hm].
  apply field_stream_mem in Hm. destruct Hm as [d [i [c [e [t [Hc [_ [_ [Hk [_ [_ [Hx _]]]]]]]]]]]].
  exists d, i, c. auto.
Qed.

Lemma size0_no_incl c : calc_size c = O -> forall e, In e c -> e_incl e = false.
Proof.
  intros H e He. destruct (e_incl e) eqn:Hi; auto. exfalso.
  assert (In (e_field e) (fields_incl c)) by (apply fields_incl_In; eauto).
  unfold calc_size in H. destruct (fields_incl c); [contradiction|discriminate].
Qed.

Lemma Qe_true_k0 x : k = O -> Qe (x, true) = [].
Proof.
  intros Hk0. destruct (Qe (x, true)) as [|fv r] eqn:E; auto. exfalso.
  assert (Hin : In fv (Qe (x, true))) by (rewrite E; left; auto).
  unfold Qe in Hin. apply filter_In in Hin. destruct Hin as [_ Hm].
  apply field_stream_mem in Hm. destruct Hm as [d [i [c [e [t [Hc [He [_ [Hk [_ [_ [_ Hi]]]]]]]]]]]].
  rewrite (size0_no_incl c) in Hi; auto; [discriminate|lia].
Qed.

Definition need : nat := Nat.max k 1.
Definition ssat (x : N) : Prop := cnt (x, false) SS = O /\ (need <= cnt (x, true) SS)%nat.

Lemma S1_SS x : (cnt (x, true) SS <= need)%nat.
Proof.
  rewrite cnt_SS. unfold need. pose proof (zpart_cnt_le (x, true)).
  destruct (Nat.eq_dec k 0) as [Hk0|Hk0].
  - rewrite (Qe_true_k0 x Hk0). simpl. lia.
  - assert (cnt (x, true) zpart = O).
    { unfold zpart. destruct (Nat.eqb_spec k 0); [contradiction|reflexivity]. }
    destruct (Qe (x, true)) eqn:E; [simpl; lia|].
    destruct (Qe_nonempty_conj x true) as [d [i [c [Hc [Hk ->]]]]]; [congruence|].
    rewrite <- E. pose proof (Qe_len_le d i c Hc). lia.
Qed.

Lemma ssat_iff x : ssat x <-> exists d i c, has_conj ds d i c /\ calc_size c = k /\ satq c = true /\ x = the_cid d i c.
Proof.
  unfold ssat. rewrite !cnt_SS, zpart_false. split.
  - intros [Hf Ht].
    assert (Hex : exists d i c, has_conj ds d i c /\ calc_size c = k /\ x = the_cid d i c).
    { destruct (Qe (x, true)) eqn:E.
      - simpl in Ht. assert (Hz : (0 < cnt (x, true) zpart)%nat) by (unfold need in Ht; lia).
        apply zpart_true in Hz. destruct Hz as [Hk0 Hz]. apply build_z in Hz.
        destruct Hz as [d [i [c [Hc [Hs ->]]]]]. exists d, i, c. unfold the_cid. rewrite Hs. auto.
      - apply (Qe_nonempty_conj x true). congruence. }
    destruct Hex as [d [i [c [Hc [Hk ->]]]]]. exists d, i, c.
    split; [exact Hc|]. split; [exact Hk|]. split; [|reflexivity].
    apply (sat_conj_iff c). split.
    + apply (incl_ok_iff d i c Hc Hk). destruct (Nat.eq_dec k 0) as [Hk0|Hk0]; [lia|].
      assert (cnt (the_cid d i c, true) zpart = O).
      { unfold zpart. destruct (Nat.eqb_spec k 0); [contradiction|reflexivity]. }
      unfold need in Ht. lia.
    + apply (excl_ok_iff d i c Hc Hk). simpl in Hf. lia.
  - intros [d [i [c [Hc [Hk [Hs ->]]]]]]. apply (sat_conj_iff c) in Hs. destruct Hs as [Hi He].
    apply (incl_ok_iff d i c Hc Hk) in Hi. apply (excl_ok_iff d i c Hc Hk) in He. split; [simpl; lia|].
    unfold need. destruct (Nat.eq_dec k 0) as [Hk0|Hk0]; [|lia].
    assert (Hz : (0 < cnt (the_cid d i c, true) zpart)%nat).
    { apply zpart_true. split; auto. apply build_z. exists d, i, c.
      split; [exact Hc|]. split; [lia|]. unfold the_cid. f_equal. lia. }
    lia.
Qed.

Theorem retrieve_k_correct :
  exists r, retrieve_k qval qmatch ix k q = Some r /\ NoDup r /\
    forall x, In x r <-> exists d i c, has_conj ds d i c /\ calc_size c = k /\ satq c = true /\ x = the_cid d i c.
Proof.
  unfold retrieve_k. fold need.
  destruct (Nat.ltb_spec (length SS) need) as [Hlt|Hge].
  - exists []. split; auto. split; [constructor|]. intros x. split; [contradiction|].
    intros H. apply ssat_iff in H. destruct H as [_ H]. pose proof (cnt_le_length (x, true) SS). lia.
  - destruct (scan_correct (fun _ => need) SS) as [r [Hr [Hin Hnd]]].
    + intros _. unfold need. lia.
    + intros; lia.
    + apply SS_sorted.
    + intros c. apply S1_SS.
    + exists r. split; auto. split; auto. intros x. rewrite Hin. apply ssat_iff.
Qed.
End G.

Lemma NoDup_app_disj {A} (l l' : list A) : NoDup l -> NoDup l' -> (forall x, In x l -> ~ In x l') -> NoDup (l ++ l').
Proof.
  induction 1 as [|a l Ha Hl IH]; simpl; intros Hl' Hd; auto. constructor.
  - rewrite in_app_iff. intros [H|H]; [auto|]. apply (Hd a); auto.
  - apply IH; auto.
Qed.

Section Final.
Variable qval : Type.
Variable qmatch : qval -> term -> bool.
Variable cid_of : Z -> nat -> nat -> N.
Variables (ds : list doc) (q : assignment qval).
Hypothesis Hq : NoDup (map fst q).
Hypothesis Hinj : forall d i c d' i' c', has_conj ds d i c -> has_conj ds d' i' c' ->
  cid_of (d_id d) i (calc_size c) = cid_of (d_id d') i' (calc_size c') -> d = d' /\ i = i'.
Notation ix := (build cid_of ds).
Notation satq := (sat_conj qval qmatch q).
Notation cidc := (the_cid cid_of).

Lemma retrieve_from_correct k0 :
  exists r, retrieve_from qval qmatch ix k0 q = Some r /\ NoDup r /\
    forall x, In x r <-> exists d i c, has_conj ds d i c /\ (calc_size c <= k0)%nat /\ satq c = true /\ x = cidc d i c.
Proof.
  induction k0 as [|k0 IH]; cbn [retrieve_from].
  - destruct (retrieve_k_correct qval qmatch cid_of ds q Hq Hinj O) as [r [Hr [Hnd Hin]]].
    rewrite Hr. exists r. split; auto. split; auto. intros x. rewrite Hin. split.
    + intros [d [i [c [H1 [H2 [H3 H4]]]]]]. exists d, i, c. split; [exact H1|]. split; [lia|auto].
    + intros [d [i [c [H1 [H2 [H3 H4]]]]]]. exists d, i, c. split; [exact H1|]. split; [lia|auto].
  - destruct (retrieve_k_correct qval qmatch cid_of ds q Hq Hinj (S k0)) as [r [Hr [Hnd Hin]]].
    destruct IH as [r' [Hr' [Hnd' Hin']]]. rewrite Hr, Hr'. exists (r ++ r'). split; auto. split.
    + apply NoDup_app_disj; auto. intros x Hx Hx'. apply Hin in Hx. apply Hin' in Hx'.
      destruct Hx as [d [i [c [H1 [H2 [_ H4]]]]]]. destruct Hx' as [d' [i' [c' [H1' [H2' [_ H4']]]]]].
      assert (c = c') by (eapply (same_conj cid_of ds Hinj); eauto; congruence). subst c'. lia.
    + intros x. rewrite in_app_iff, Hin, Hin'. split.
      * intros [[d [i [c [H1 [H2 [H3 H4]]]]]]|[d [i [c [H1 [H2 [H3 H4]]]]]]]; exists d, i, c; (split; [exact H1|]; split; [lia|auto]).
      * intros [d [i [c [H1 [H2 [H3 H4]]]]]]. destruct (Nat.eq_dec (calc_size c) (S k0)).
        -- left. exists d, i, c. auto.
        -- right. exists d, i, c. split; [exact H1|]. split; [lia|auto].
Qed.

(* a satisfied conjunction has at most as many include fields as there are assigned fields *)
Lemma sat_size_le c : satq c = true -> (calc_size c <= length q)%nat.
Proof.
  intros Hs. apply sat_conj_iff in Hs. destruct Hs as [Hi _].
  unfold calc_size. rewrite <- (map_length fst q). apply NoDup_incl_length. apply NoDup_nodup.
  intros f Hf. destruct (Hi f Hf) as [e [_ [Hfe [_ Hh]]]]. unfold hit in Hh. rewrite Hfe in Hh.
  destruct (lookup qval f q) as [v|] eqn:E; [|discriminate].
  eapply lookup_In in E; eauto. apply in_map_iff. exists (f, v). auto.
Qed.

Theorem retrieve_correct :
  exists r, retrieve qval qmatch ix q = Some r /\ NoDup r /\
    forall x, In x r <-> exists d i c, has_conj ds d i c /\ satq c = true /\ x = cidc d i c.
Proof.
  unfold retrieve. destruct (ix_maxk ix) as [|mk] eqn:E.
  - exists []. split; auto. split; [constructor|]. intros x. split; [contradiction|].
    intros [d [i [c [Hc _]]]]. pose proof (build_maxk cid_of ds d i c Hc). lia.
  - destruct (retrieve_from_correct (Nat.min (length q) mk)) as [r [Hr [Hnd Hin]]].
    exists r. split; auto. split; auto. intros x. rewrite Hin. split.
    + intros [d [i [c [H1 [_ [H3 H4]]]]]]. exists d, i, c. auto.
    + intros [d [i [c [H1 [H3 H4]]]]]. exists d, i, c. split; [exact H1|]. split; [|auto].
      pose proof (build_maxk cid_of ds d i c H1). pose proof (sat_size_le c H3). lia.
Qed.
End Final.
Check retrieve_correct.
Print Assumptions retrieve_correct.
