(* KGroupsBEIndex.retrieveK TRANSLATED from /repo's be_indexer_kgroups.go on every run (Gen/CursorGen.v: the scan loop
   of the size-grouped index over a slice of opaque field cursors read through GetCurEntryID and advanced through
   SkipTo, the id codecs of IdsGen.v, the collector as the list of its Add calls, FieldCursors.Sort as translated;
   statements that only log are dropped) computes what the model's k-groups loop (Model/Index.retrieve_k, the loop every
   C01 theorem is about) computes: whenever the model's loop finishes, the translated function returns the same
   collector calls -- no index out of range, the stated fuel suffices. *)
From Coq Require Import List NArith ZArith Bool Lia Arith Permutation Sorting.Sorted.
From BE Require Import Model.Scan Model.Cursor Model.Index Proofs.ScanProof Proofs.CursorHist Proofs.IdsProof
  Proofs.CursorGenProof Proofs.SortGenProof.
Import ListNotations.

(* the element method SkipTo as a total function: what fcursor_skip_to leaves (it never runs out of fuel on
   well-formed cursors; where the model's loop finishes it did not) *)
Definition skipT (c : fcursor) (id : N) : fcursor :=
  match fcursor_skip_to c id with Some (c', _) => c' | None => c end.

Lemma i64s z : (- 2^63 <= z < 2^63)%Z -> G.i64 z = z.
Proof. intros H. unfold G.i64. rewrite Z.mod_small; lia. Qed.

Section Gen.
Context {T : Type}.
Lemma updNth_mid (f : T -> T) (a : list T) x b : G.updNth f (a ++ x :: b) (length a) = a ++ f x :: b.
Proof. induction a as [|y a IH]; cbn [app length G.updNth]; [reflexivity|]. f_equal. exact IH. Qed.
Lemma updWith_mid (f : T -> T) (a : list T) x b : G.updWith f (a ++ x :: b) (Z.of_nat (length a)) = a ++ f x :: b.
Proof. unfold G.updWith. rewrite Nat2Z.id. apply updNth_mid. Qed.
Lemma inbT_mid (a : list T) x b : G.inbT (a ++ x :: b) (Z.of_nat (length a)) = true.
Proof.
  unfold G.inbT. rewrite app_length. cbn [length]. apply andb_true_intro.
  split; [apply Z.leb_le|apply Z.ltb_lt]; lia.
Qed.
Lemma keyAt_mid' (k : T -> N) (a : list T) x b : G.keyAt k (a ++ x :: b) (Z.of_nat (length a)) = k x.
Proof.
  unfold G.keyAt. rewrite Nat2Z.id. replace (nth_error (a ++ x :: b) (length a)) with (Some x); [reflexivity|].
  symmetry. clear. induction a; cbn; auto.
Qed.
End Gen.

(* what the model's two skipping passes compute, when they finish *)
Lemma skip_first_map next : forall n l r, length l = n -> skip_first n l next = Some r -> r = map (fun c => skipT c next) l.
Proof.
  induction n as [|n IH]; intros l r Hl H.
  - destruct l; [|discriminate]. cbn in H. injection H as <-. reflexivity.
  - destruct l as [|c l]; [discriminate|]. cbn [skip_first] in H. cbn [length] in Hl.
    destruct (fcursor_skip_to c next) as [[c' m]|] eqn:E; [|discriminate].
    destruct (skip_first n l next) as [r'|] eqn:E2; [|discriminate]. injection H as <-.
    cbn [map]. unfold skipT at 1. rewrite E. f_equal. apply IH; [lia|exact E2].
Qed.
Definition skipIf (next : N) (c : fcursor) : fcursor := if (fc_current c <? next)%N then skipT c next else c.
Lemma skip_all_map next : forall l r, skip_all l next = Some r -> r = map (skipIf next) l.
Proof.
  induction l as [|c l IH]; intros r H; cbn [skip_all] in H.
  - injection H as <-. reflexivity.
  - destruct (skip_all l next) as [r'|] eqn:E2.
    2:{ destruct (if (fc_current c <? next)%N then _ else _); discriminate. }
    cbn [map]. unfold skipIf at 1, skipT.
    destruct (fc_current c <? next)%N.
    + destruct (fcursor_skip_to c next) as [[c' m]|]; cbn in H; [|discriminate]. injection H as <-. f_equal. apply IH. reflexivity.
    + injection H as <-. f_equal. apply IH. reflexivity.
Qed.

Section Loops.
Variables (res : list (Z * N)) (e1 e2 c1 c2 next : N).

(* `for i := 0; i < need; i++ { cursors[i].SkipTo(next) }` *)
Lemma loop3_lock : forall k done rest fuel, (k <= length rest)%nat -> (k <= fuel)%nat ->
  (Z.of_nat (length done + length rest) < 2^60)%Z ->
  G.KGroupsBEIndex_retrieveK_loop3 fcursor skipT fuel res (Z.of_nat (length done + k)) e1 e2 c1 c2 next
    (done ++ rest, Z.of_nat (length done)) =
  G.Ret (done ++ map (fun c => skipT c next) (firstn k rest) ++ skipn k rest, Z.of_nat (length done + k)).
Proof.
  assert (P : (2^60 < 2^63)%Z) by (apply Z.pow_lt_mono_r; lia).
  induction k as [|k IH]; intros done rest fuel Hk Hf Hlen.
  - rewrite Nat.add_0_r. cbn [firstn skipn map app].
    destruct fuel; cbn [G.KGroupsBEIndex_retrieveK_loop3]; rewrite Z.ltb_irrefl; reflexivity.
  - destruct rest as [|c rest]; [cbn in Hk; lia|]. destruct fuel as [|f]; [lia|]. cbn [length] in *.
    cbn [G.KGroupsBEIndex_retrieveK_loop3].
    replace (Z.of_nat (length done) <? Z.of_nat (length done + S k))%Z with true by (symmetry; apply Z.ltb_lt; lia).
    rewrite inbT_mid, updWith_mid. cbn [negb G.bind].
    replace (Z.of_nat (length done) + 1)%Z with (Z.of_nat (length (done ++ [skipT c next])))
      by (rewrite app_length; cbn [length]; lia).
    rewrite i64s by (rewrite app_length; cbn [length]; lia).
    replace (done ++ skipT c next :: rest) with ((done ++ [skipT c next]) ++ rest) by (rewrite <- app_assoc; reflexivity).
    replace (length done + S k)%nat with (length (done ++ [skipT c next]) + k)%nat by (rewrite app_length; cbn [length]; lia).
    rewrite IH; [|lia|lia|rewrite app_length; cbn [length]; lia].
    cbn [firstn skipn map app]. rewrite <- app_assoc. reflexivity.
Qed.

(* `for i := need; i < len(cursors); i++ { if cursors[i].GetCurEntryID() < next { cursors[i].SkipTo(next) } }` *)
Lemma loop2_lock : forall rest done fuel need0, (length rest <= fuel)%nat ->
  (Z.of_nat (length done + length rest) < 2^60)%Z ->
  G.KGroupsBEIndex_retrieveK_loop2 fcursor fc_current skipT fuel res need0 e1 e2 c1 c2 next
    (done ++ rest, Z.of_nat (length done)) =
  G.Ret (done ++ map (skipIf next) rest, Z.of_nat (length done + length rest)).
Proof.
  assert (P : (2^60 < 2^63)%Z) by (apply Z.pow_lt_mono_r; lia).
  induction rest as [|c rest IH]; intros done fuel need0 Hf Hlen.
  - cbn [length map]. rewrite Nat.add_0_r, app_nil_r.
    destruct fuel; cbn [G.KGroupsBEIndex_retrieveK_loop2]; rewrite Z.ltb_irrefl; reflexivity.
  - destruct fuel as [|f]; [cbn in Hf; lia|]. cbn [length] in *.
    cbn [G.KGroupsBEIndex_retrieveK_loop2]. rewrite app_length. cbn [length].
    replace (Z.of_nat (length done) <? Z.of_nat (length done + S (length rest)))%Z with true by (symmetry; apply Z.ltb_lt; lia).
    rewrite inbT_mid, keyAt_mid'. cbn [negb G.bind].
    assert (E : G.bind (if (fc_current c <? next)%N
                        then G.Ret (G.updWith (fun e => skipT e next) (done ++ c :: rest) (Z.of_nat (length done)))
                        else G.Ret (done ++ c :: rest)) =
                G.bind (G.Ret (done ++ skipIf next c :: rest)) :> ((list fcursor -> G.res (list fcursor * Z)) -> _)).
    { unfold skipIf. destruct (fc_current c <? next)%N; [rewrite updWith_mid|]; reflexivity. }
    match goal with |- G.bind (G.bind ?a ?k1) ?k2 = _ =>
      replace a with (G.Ret (done ++ skipIf next c :: rest) : G.res (list fcursor))
        by (unfold skipIf; destruct (fc_current c <? next)%N; [rewrite updWith_mid|]; reflexivity) end.
    clear E. cbn [G.bind].
    replace (Z.of_nat (length done) + 1)%Z with (Z.of_nat (length (done ++ [skipIf next c])))
      by (rewrite app_length; cbn [length]; lia).
    rewrite i64s by (rewrite app_length; cbn [length]; lia).
    replace (done ++ skipIf next c :: rest) with ((done ++ [skipIf next c]) ++ rest) by (rewrite <- app_assoc; reflexivity).
    rewrite IH; [|lia|rewrite app_length; cbn [length]; lia].
    rewrite app_length. cbn [length map]. rewrite <- app_assoc. cbn [app].
    replace (length done + 1 + length rest)%nat with (length done + S (length rest))%nat by lia. reflexivity.
Qed.
End Loops.

(* ---- codec facts the loop needs ---- *)
Lemma newentry_incl_bound c : (IdsGen.NewEntryID c true + 1 < 18446744073709551616)%N.
Proof.
  unfold IdsGen.NewEntryID, IdsGen.u64. cbn [negb]. rewrite N.shiftl_mul_pow2.
  change 18446744073709551616%N with (1152921504606846976 * 2^4)%N.
  rewrite N.mul_mod_distr_r by (cbv; discriminate).
  rewrite lor_mul_low by (cbv; reflexivity).
  pose proof (N.mod_upper_bound c 1152921504606846976 ltac:(discriminate)) as H.
  change (2^4)%N with 16%N. lia.
Qed.
Lemma newentry_succ_nowrap c : G.u64 (IdsGen.NewEntryID c true + 1) = (IdsGen.NewEntryID c true + 1)%N.
Proof. unfold G.u64. apply N.mod_small. apply newentry_incl_bound. Qed.

Lemma nth_error_split_len {A} (l : list A) n x : nth_error l n = Some x ->
  exists a b, l = a ++ x :: b /\ length a = n.
Proof. apply nth_error_split. Qed.

Lemma sort_len (l : list fcursor) : length (sort_fcursors l) = length l.
Proof. apply Permutation_length. apply sort_fcursors_spec. Qed.

(* the main loop, round for round *)
Lemma loop1_lock : forall f need cs res out F,
  (1 <= need)%nat -> (need <= length cs)%nat -> (Z.of_nat (length cs) < 2^60)%Z -> (f + 2 * length cs <= F)%nat ->
  kg_loop f need cs res = Some out ->
  exists cs', G.KGroupsBEIndex_retrieveK_loop1 fcursor fc_current skipT F (Z.of_nat need) (res, cs) = G.Ret (out, cs').
Proof.
  assert (P : (2^60 < 2^63)%Z) by (apply Z.pow_lt_mono_r; lia).
  induction f as [|f IH]; intros need cs res out F Hn1 Hn Hlen HF H; [discriminate|].
  cbn [kg_loop] in H.
  destruct (kg_round need cs res) as [[[cs1 res1]|]|] eqn:R; [| |discriminate].
  2:{ (* the loop ends *)
    injection H as <-. unfold kg_round in R.
    destruct (nth_error cs (need - 1)) as [cend|] eqn:En.
    2:{ apply nth_error_None in En. lia. }
    destruct (nth_error_split_len _ _ _ En) as (a & b & -> & La).
    assert (Hi : G.i64 (Z.of_nat need - 1) = Z.of_nat (length a)) by (rewrite i64s by lia; lia).
    exists (a ++ cend :: b).
    destruct (fc_current cend =? NULLENTRY)%N eqn:Enull.
    - destruct F; cbn [G.KGroupsBEIndex_retrieveK_loop1]; rewrite Hi, inbT_mid, keyAt_mid'; cbn [negb];
        unfold IdsGen.EntryID_IsNULLEntry; change 18446744073709551615%N with NULLENTRY; rewrite Enull; reflexivity.
    - exfalso. destruct (a ++ cend :: b) as [|c0 l0] eqn:Ecs; [destruct a; discriminate|].
      revert R. repeat (match goal with |- context [match ?x with _ => _ end] => destruct x end); discriminate. }
  (* one more round *)
  unfold kg_round in R.
  destruct (nth_error cs (need - 1)) as [cend|] eqn:En; [|discriminate].
  destruct (nth_error_split_len _ _ _ En) as (a & b & Ecs & La).
  destruct (fc_current cend =? NULLENTRY)%N eqn:Enull; [discriminate|].
  destruct cs as [|c0 l0] eqn:Ecs0; [discriminate|].
  set (eid := fc_current c0) in *. set (endeid := fc_current cend) in *.
  set (cid := IdsGen.EntryID_GetConjID eid) in *. set (endcid := IdsGen.EntryID_GetConjID endeid) in *.
  set (same := (cid =? endcid)%N) in *.
  set (next := if same then (IdsGen.NewEntryID endcid true + 1)%N else IdsGen.NewEntryID endcid false) in *.
  set (head := firstn need (c0 :: l0)) in *. set (tail := skipn need (c0 :: l0)) in *.
  assert (Lh : length head = need) by (unfold head; apply firstn_length_le; exact Hn).
  assert (Eht : c0 :: l0 = head ++ tail) by (unfold head, tail; symmetry; apply firstn_skipn).
  assert (Lt : (length head + length tail = length (c0 :: l0))%nat) by (pose proof (f_equal (@length _) Eht) as Q; rewrite app_length in Q; lia).
  destruct (if same && negb (IdsGen.EntryID_IsInclude eid) then skip_all tail next else Some tail) as [tail'|] eqn:Et; [|discriminate].
  destruct (skip_first need head next) as [head'|] eqn:Eh; [|discriminate].
  injection R as <- <-.
  apply (skip_first_map next need head head' Lh) in Eh. subst head'.
  assert (Etail : tail' = if same && negb (IdsGen.EntryID_IsInclude eid) then map (skipIf next) tail else tail).
  { destruct (same && negb (IdsGen.EntryID_IsInclude eid)); [apply skip_all_map; exact Et|injection Et as <-; reflexivity]. }
  assert (Ltail' : length tail' = length tail).
  { rewrite Etail. destruct (same && negb _); [apply map_length|reflexivity]. }
  set (cs1 := sort_fcursors (map (fun c => skipT c next) head ++ tail')) in *.
  assert (Lcs1 : length cs1 = length (c0 :: l0)).
  { unfold cs1. rewrite sort_len, app_length, map_length. lia. }
  set (res1 := if same && IdsGen.EntryID_IsInclude eid then res ++ [(IdsGen.ConjID_DocID cid, cid)] else res) in *.
  destruct (IH need cs1 res1 out (pred F) Hn1) as [csf Ef]; [lia|lia|lia|exact H|].
  exists csf.
  destruct F as [|F']; [cbn [length] in *; lia|]. cbn [pred] in Ef.
  cbn [G.KGroupsBEIndex_retrieveK_loop1].
  assert (Hi : G.i64 (Z.of_nat need - 1) = Z.of_nat (length a)) by (rewrite i64s by lia; lia).
  assert (Hin : G.inbT (c0 :: l0) (Z.of_nat (length a)) = true) by (rewrite Ecs; apply inbT_mid).
  assert (Hk : G.keyAt fc_current (c0 :: l0) (Z.of_nat (length a)) = endeid) by (rewrite Ecs; apply keyAt_mid').
  assert (Hnull : IdsGen.EntryID_IsNULLEntry endeid = false) by exact Enull.
  rewrite Hi, Hin, Hk, Hnull. cbn [negb].
  change (G.inbT (c0 :: l0) 0) with true. cbn [negb]. change (G.keyAt fc_current (c0 :: l0) 0) with eid.
  fold cid. fold endcid. fold same.
  (* the two skipping passes and the sort, on head ++ tail *)
  assert (L3 : forall r X, length X = length tail ->
    G.KGroupsBEIndex_retrieveK_loop3 fcursor skipT (S F') r (Z.of_nat need) eid endeid cid endcid next (head ++ X, 0%Z) =
    G.Ret (map (fun c => skipT c next) head ++ X, Z.of_nat need)).
  { intros r X LX.
    pose proof (loop3_lock r eid endeid cid endcid next need [] (head ++ X) (S F')) as L.
    cbn [length app Nat.add Z.of_nat] in L. rewrite L; [|rewrite app_length; lia|cbn [length] in *; lia|rewrite app_length; cbn [length] in *; lia].
    rewrite firstn_app, Lh, Nat.sub_diag. cbn [firstn]. rewrite app_nil_r.
    rewrite firstn_all2 by lia. rewrite skipn_app, Lh, Nat.sub_diag. cbn [skipn].
    rewrite skipn_all2 by lia. reflexivity. }
  assert (LS : forall X, length X = length tail ->
    G.FieldCursors_Sort fcursor fc_current (S F') (map (fun c => skipT c next) head ++ X) =
    G.Ret (sort_fcursors (map (fun c => skipT c next) head ++ X))).
  { intros X LX. apply Sort_translated_spec; rewrite app_length, map_length; cbn [length] in *; lia. }
  rewrite Eht.
  destruct same eqn:Esame.
  - (* same conjunction at both ends *)
    rewrite newentry_succ_nowrap. fold next.
    destruct (IdsGen.EntryID_IsInclude eid) eqn:Einc; cbn [andb negb] in Etail; cbn [G.bind].
    + subst tail'. rewrite L3 by reflexivity. cbn [G.bind]. rewrite LS by reflexivity. cbn [G.bind]. fold cs1.
      cbn [andb] in *. exact Ef.
    + subst tail'.
      pose proof (loop2_lock res eid endeid cid endcid next tail head (S F') (Z.of_nat need)) as L2.
      rewrite Lh in L2. rewrite L2 by (cbn [length] in *; lia). cbn [G.bind].
      rewrite L3 by apply map_length. cbn [G.bind]. rewrite LS by apply map_length. cbn [G.bind]. fold cs1. exact Ef.
  - cbn [andb] in Etail. subst tail'. fold next. cbn [G.bind].
    rewrite L3 by reflexivity. cbn [G.bind]. rewrite LS by reflexivity. cbn [G.bind]. fold cs1. exact Ef.
Qed.

(* KGroupsBEIndex.retrieveK as translated = Model/Index.retrieve_k: whenever the model's scan of one size group
   finishes with the collector calls `out`, so does the translated function, on the same cursors, with
   fc_total + 2 * length + 1 units of fuel, without an index out of range *)
Theorem retrieveK_translated_is_model : forall need cs res out,
  (1 <= need)%nat -> (Z.of_nat (length cs) < 2^60)%Z ->
  retrieve_k need cs res = Some out ->
  exists cs', G.KGroupsBEIndex_retrieveK fcursor fc_current skipT (S (fc_total cs) + 2 * length cs) res cs (Z.of_nat need) =
              G.Ret (cs', out).
Proof.
  intros need cs res out Hn Hlen H. unfold retrieve_k in H. unfold G.KGroupsBEIndex_retrieveK.
  rewrite ltb_nat_Z.
  destruct (Nat.ltb_spec (length cs) need) as [Hlt|Hge].
  - injection H as <-. exists cs. reflexivity.
  - destruct (Sort_translated_spec cs (S (fc_total cs) + 2 * length cs)) as [Es _]; [lia|exact Hlen|].
    rewrite Es. cbn [G.bind].
    destruct (loop1_lock (S (fc_total cs)) need (sort_fcursors cs) res out (S (fc_total cs) + 2 * length cs)) as [cs' E];
      try rewrite sort_len; try lia; try exact H.
    exists cs'. unfold hitrec in *. rewrite E. reflexivity.
Qed.

(* non-vacuity: the translated loop, run on three cursors -- conjunction 1 of size 2 is hit on two fields *)
Example retrieveK_translated_runs :
  let e c i := IdsGen.NewEntryID c i in
  let cs := [new_fcursor [[e 1 true; e 2 true]]; new_fcursor [[e 1 true; e 3 false]]; new_fcursor [[e 2 false]]]%N in
  exists cs', G.KGroupsBEIndex_retrieveK fcursor fc_current skipT 40 [] cs 2 = G.Ret (cs', [(IdsGen.ConjID_DocID 1, 1%N)]) /\
  retrieve_k 2 cs [] = Some [(IdsGen.ConjID_DocID 1, 1%N)].
Proof. eexists. vm_compute. split; reflexivity. Qed.
