(* Builder invariant of the executable posting-list index model (Model/Index.v), default
   containers only (no ConfigField), repaired tree (wildcard_first = false), both index kinds.

   Repr st db : "the posting lists and the wildcard list of builder state st hold exactly the entry
   ids of the database db of (conjunction id, conjunction) pairs":
     - the posting list under term (f, v) of container k contains NewEntryID cid (e_incl e) exactly
       for the (cid, cj) in db that live in container k (cont_index st (calc_size cj) = k) and have
       an expression e on field f with v among its parsed values;
     - b_z contains NewEntryID cid true exactly for the (cid, cj) in db with calc_size cj = 0;
     - every conjunction's container exists, and every field carrying an expression is known.
   add_documents_repr: after add_documents from new_builder with all outcomes AddOk, the state
   represents docs_db ds = all conjunctions that parse (conj_ok); unless the policy is PolSkip all
   conjunctions parse (add_documents_all_ok). *)
From Coq Require Import List NArith ZArith Bool Lia Arith.
From BE Require Import Model.GoTypes Model.GoVal Model.Parsers Model.Index.
From BE Require Gen.IdsGen Proofs.IdsProof Proofs.RoaringProof Proofs.NoTrace.
Import ListNotations.

(* ------------------------------------------------------------------------------------------ *)
(* association lists of posting lists *)

Definition lk {K} (eqb : K -> K -> bool) (k : K) (m : list (K * list N)) : list N :=
  match alookup eqb k m with Some l => l | None => [] end.

Section Assoc.
  Context {K : Type} (eqb : K -> K -> bool) (eqb_spec : forall a b, reflect (a = b) (eqb a b)).

  Lemma lk_aupdate k e m k' :
    lk eqb k' (aupdate eqb k (append_entry e) m) = if eqb k' k then lk eqb k m ++ [e] else lk eqb k' m.
  Proof.
    unfold lk. rewrite (RoaringProof.alookup_aupdate eqb eqb_spec).
    destruct (eqb_spec k' k) as [->|]; [|reflexivity]. destruct (alookup eqb k m); reflexivity.
  Qed.

  Lemma lk_fold {X} (g : X -> K) e k' x xs : forall m,
    In x (lk eqb k' (fold_left (fun acc y => aupdate eqb (g y) (append_entry e) acc) xs m)) <->
    In x (lk eqb k' m) \/ (x = e /\ exists y, In y xs /\ k' = g y).
  Proof.
    induction xs as [|a xs IH]; intros m; cbn [fold_left].
    - split; [auto|]. intros [H|(_ & y & [] & _)]. exact H.
    - rewrite IH, lk_aupdate. destruct (eqb_spec k' (g a)) as [E|E].
      + rewrite in_app_iff. cbn [In]. split.
        * intros [[H|[H|[]]]|(H1 & y & H2 & H3)].
          -- left. rewrite E. exact H.
          -- right. split; [auto|]. exists a. split; [left; reflexivity|exact E].
          -- right. split; [exact H1|]. exists y. split; [right; exact H2|exact H3].
        * intros [H|(H1 & y & [H2|H2] & H3)].
          -- left. left. rewrite <- E. exact H.
          -- left. right. left. auto.
          -- right. split; [exact H1|]. exists y. split; assumption.
      + split.
        * intros [H|(H1 & y & H2 & H3)]; [left; exact H|].
          right. split; [exact H1|]. exists y. split; [right; exact H2|exact H3].
        * intros [H|(H1 & y & [H2|H2] & H3)]; [left; exact H| |].
          -- subst y. contradiction.
          -- right. split; [exact H1|]. exists y. split; assumption.
  Qed.

  Lemma alookup_map_snd (F : list N -> list N) k m :
    alookup eqb k (map (fun kv => (fst kv, F (snd kv))) m) = option_map F (alookup eqb k m).
  Proof.
    induction m as [|[k0 v] m IH]; cbn [map alookup fst snd]; [reflexivity|].
    destruct (eqb k k0); [reflexivity|exact IH].
  Qed.
End Assoc.

Lemma term_key_eqb_spec a b : reflect (a = b) (term_key_eqb a b).
Proof.
  destruct a as [f v], b as [g w]. unfold term_key_eqb. cbn [fst snd].
  destruct (N.eqb_spec f g) as [->|]; cbn [andb].
  - destruct (RoaringProof.pid_eqb_spec v w) as [->|]; constructor; congruence.
  - constructor. congruence.
Qed.

Lemma existsb_pid_In v ids : existsb (pid_eqb v) ids = true <-> In v ids.
Proof.
  rewrite existsb_exists. split.
  - intros (y & Hy & E). destruct (RoaringProof.pid_eqb_spec v y); [subst; exact Hy|discriminate].
  - intros H. exists v. split; [exact H|]. destruct (RoaringProof.pid_eqb_spec v v); congruence.
Qed.

Lemma nodup_by_In x l : In x (nodup_by pid_eqb l) <-> In x l.
Proof.
  induction l as [|a l IH]; cbn [nodup_by]; [tauto|].
  destruct (existsb (pid_eqb a) l) eqn:E.
  - apply existsb_pid_In in E. rewrite IH. cbn [In]. split; [auto|]. intros [<-|H]; auto.
  - cbn [In]. rewrite IH. tauto.
Qed.

(* ------------------------------------------------------------------------------------------ *)
(* list surgery used by the builder *)

Lemma nth_grow {A} (d : A) : forall n l k, nth k (grow n d l) d = nth k l d.
Proof.
  induction n as [|n IH]; intros l k; destruct l as [|x l]; cbn [grow]; try reflexivity.
  - destruct k as [|[|k]]; reflexivity.
  - destruct k as [|k]; cbn [nth]; [reflexivity|]. rewrite IH. destruct k; reflexivity.
  - destruct k as [|k]; cbn [nth]; [reflexivity|]. apply IH.
Qed.
Lemma grow_length {A} (d : A) : forall n l, (n < length (grow n d l) /\ length l <= length (grow n d l))%nat.
Proof.
  induction n as [|n IH]; intros l; destruct l as [|x l]; cbn [grow length]; try lia.
  - specialize (IH []). cbn [length] in IH. lia.
  - specialize (IH l). lia.
Qed.

Lemma update_nth_id {A} (f : A -> A) : (forall x, f x = x) -> forall n l, update_nth n f l = l.
Proof.
  intros Hf. induction n as [|n IH]; intros l; destruct l as [|x l]; cbn [update_nth]; try reflexivity.
  - rewrite Hf. reflexivity.
  - rewrite IH. reflexivity.
Qed.
Lemma update_nth_length {A} (f : A -> A) : forall n l, length (update_nth n f l) = length l.
Proof. induction n as [|n IH]; intros l; destruct l as [|x l]; cbn [update_nth length]; auto. Qed.
Lemma nth_update_nth {A} (f : A -> A) d : forall n l k, (n < length l)%nat ->
  nth k (update_nth n f l) d = if Nat.eqb k n then f (nth k l d) else nth k l d.
Proof.
  induction n as [|n IH]; intros l k Hn; destruct l as [|x l]; cbn [length] in Hn; try lia; cbn [update_nth].
  - destruct k; reflexivity.
  - destruct k as [|k]; cbn [nth Nat.eqb]; [reflexivity|]. apply IH. lia.
Qed.

(* ------------------------------------------------------------------------------------------ *)
(* the represented database *)

Definition plist (ec : econtainer) (f : N) (v : pid) : list N :=
  match ec_default ec with HDefault pls => lk term_key_eqb (f, v) pls | _ => [] end.

Definition cdb := list (N * conj).

Definition mk_fd (parsers : fname -> parser_kind) (f : fname) : fdesc :=
  {| fd_name := f; fd_cont := CDefault; fd_parser := parsers f |}.

Definition expr_ok (p : parser_kind) (e : expr) : bool :=
  match e_op e with
  | OpEQ => match parse_value p (e_val e) with POk _ => true | _ => false end
  | _ => false
  end.
Definition conj_ok (parsers : fname -> parser_kind) (cj : conj) : bool :=
  forallb (fun fe => forallb (expr_ok (parsers (fst fe))) (snd fe)) cj.

Definition expr_ids (p : parser_kind) (e : expr) : list pid :=
  match parse_value p (e_val e) with POk ids => ids | _ => [] end.
Definition expr_tx (parsers : fname -> parser_kind) (cid : N) (f : fname) (e : expr) : tx :=
  {| tx_field := mk_fd parsers f; tx_eid := IdsGen.NewEntryID cid (e_incl e);
     tx_data := TxIds (expr_ids (parsers f) e) |}.
Definition conj_txs parsers cid (cj : conj) : list tx :=
  flat_map (fun fe => map (expr_tx parsers cid (fst fe)) (snd fe)) cj.

Lemma val_hit_ids p v e : RoaringProof.val_hit p v e = true <-> In v (expr_ids p e).
Proof.
  unfold RoaringProof.val_hit, expr_ids. destruct (parse_value p (e_val e)); try (split; [discriminate|intros []]).
  apply existsb_pid_In.
Qed.

Definition is_ok {A} (r : pres A) : bool := match r with POk _ => true | _ => false end.

Lemma indexed_from_nth {A} (l : list A) : forall n k x, nth_error l k = Some x ->
  In ((n + Z.of_nat k)%Z, x) (indexed_from n l).
Proof.
  induction l as [|y l IH]; intros n k x H; destruct k as [|k]; cbn [nth_error] in H; try discriminate.
  - inversion H; subst. cbn [indexed_from]. left. f_equal. lia.
  - cbn [indexed_from]. right. replace (n + Z.of_nat (S k))%Z with ((n + 1) + Z.of_nat k)%Z by lia. apply IH. exact H.
Qed.

Section Inv.
Variables (kind : index_kind) (pol : policy) (parsers : fname -> parser_kind).

Record FInv (st : bstate) : Prop := {
  fi_kind : b_kind st = kind;
  fi_pol : b_policy st = pol;
  fi_parsers : b_parsers st = parsers;
  fi_fields : Forall (fun fd => fd_cont fd = CDefault /\ fd_parser fd = parsers (fd_name fd)) (b_fields st);
  fi_def : forall k, exists pls, ec_default (nth k (b_conts st) new_econtainer) = HDefault pls
}.

Definition cidx (size : Z) : nat := match kind with IKGroups => Z.to_nat size | ICompact => O end.

Lemma cont_index_cidx st k : FInv st -> cont_index st k = cidx k.
Proof. intros H. unfold cont_index, cidx. rewrite (fi_kind _ H). reflexivity. Qed.

Definition known (st : bstate) (f : fname) : Prop := find_field f (b_fields st) <> None.

Record Repr (st : bstate) (db : cdb) : Prop := {
  rp_pl : forall k f v x, In x (plist (nth k (b_conts st) new_econtainer) f v) <->
            exists cid cj es e, In (cid, cj) db /\ cidx (calc_size cj) = k /\ In (f, es) cj /\ In e es /\
              In v (expr_ids (parsers f) e) /\ x = IdsGen.NewEntryID cid (e_incl e);
  rp_z : forall x, In x (b_z st) <->
            exists cid cj, In (cid, cj) db /\ calc_size cj = 0%Z /\ x = IdsGen.NewEntryID cid true;
  rp_len : forall cid cj, In (cid, cj) db -> (cidx (calc_size cj) < length (b_conts st))%nat;
  rp_known : forall cid cj f es, In (cid, cj) db -> In (f, es) cj -> es <> [] -> known st f
}.

(* steps that change neither entries nor configuration *)
Record Quiet (st st' : bstate) : Prop := {
  q_z : b_z st' = b_z st;
  q_nth : forall k, nth k (b_conts st') new_econtainer = nth k (b_conts st) new_econtainer;
  q_len : (length (b_conts st) <= length (b_conts st'))%nat;
  q_known : forall f, known st f -> known st' f
}.

Lemma Quiet_refl st : Quiet st st.
Proof. split; auto. Qed.
Lemma Quiet_trans a b c : Quiet a b -> Quiet b c -> Quiet a c.
Proof.
  intros [A1 A2 A3 A4] [B1 B2 B3 B4]. split.
  - congruence.
  - intros k. rewrite B2. apply A2.
  - lia.
  - auto.
Qed.

Lemma Repr_quiet st st' db : Repr st db -> Quiet st st' -> Repr st' db.
Proof.
  intros [R1 R2 R3 R4] [Q1 Q2 Q3 Q4]. split.
  - intros k f v x. rewrite Q2. apply R1.
  - intros x. rewrite Q1. apply R2.
  - intros cid cj H. specialize (R3 _ _ H). lia.
  - intros cid cj f es H1 H2 H3. apply Q4. eapply R4; eassumption.
Qed.

(* ---- ensure_cont ---- *)
Lemma ensure_cont_FInv st k : FInv st -> FInv (ensure_cont st k).
Proof.
  intros [A B C D E]. split; auto.
  intros j. unfold ensure_cont. cbn [b_conts with_conts]. rewrite nth_grow. apply E.
Qed.
Lemma ensure_cont_quiet st k : Quiet st (ensure_cont st k).
Proof.
  split; auto.
  - intros j. unfold ensure_cont. cbn [b_conts with_conts]. apply nth_grow.
  - unfold ensure_cont. cbn [b_conts with_conts]. apply grow_length.
Qed.
Lemma ensure_cont_len st k : FInv st -> (cidx k < length (b_conts (ensure_cont st k)))%nat.
Proof.
  intros H. unfold ensure_cont. cbn [b_conts with_conts]. rewrite (cont_index_cidx _ _ H). apply grow_length.
Qed.

(* ---- ensure_field ---- *)
Lemma find_field_some f fs d : find_field f fs = Some d -> In d fs /\ fd_name d = f.
Proof. unfold find_field. intros H. apply find_some in H. destruct H as [H1 H2]. apply N.eqb_eq in H2. auto. Qed.

Lemma ensure_field_spec st f : FInv st ->
  FInv (fst (ensure_field st f)) /\ Quiet st (fst (ensure_field st f)) /\
  snd (ensure_field st f) = mk_fd parsers f /\ known (fst (ensure_field st f)) f.
Proof.
  intros [A B C D E]. unfold ensure_field. destruct (find_field f (b_fields st)) as [d|] eqn:Ef; cbn [fst snd].
  - split; [split; auto|]. split; [apply Quiet_refl|]. split.
    + apply find_field_some in Ef. destruct Ef as [Hin Hn]. rewrite Forall_forall in D. destruct (D _ Hin) as [H1 H2].
      destruct d as [n c p]. cbn [fd_name fd_cont fd_parser] in *. subst. reflexivity.
    + unfold known. rewrite Ef. discriminate.
  - split; [|split; [|split]].
    + split; auto. cbn [b_fields with_fields]. apply Forall_app. split; [exact D|].
      constructor; [|constructor]. cbn [fd_cont fd_parser fd_name]. rewrite C. auto.
    + split; auto. intros g. unfold known. cbn [b_fields with_fields]. rewrite NoTrace.find_field_snoc.
      destruct (find_field g (b_fields st)); [discriminate|contradiction].
    + rewrite C. reflexivity.
    + unfold known. cbn [b_fields with_fields]. rewrite NoTrace.find_field_snoc, Ef. cbn [fd_name].
      rewrite N.eqb_refl. discriminate.
Qed.

Lemma create_holder_default ec f : create_holder ec (mk_fd parsers f) = ec.
Proof. reflexivity. Qed.

(* ---- index_exprs / index_conj ---- *)
Lemma indexing_tx_default thr f e :
  indexing_tx thr (mk_fd parsers f) e =
  match e_op e with
  | OpEQ => pbind (parse_value (parsers f) (e_val e)) (fun ids => POk (TxIds ids))
  | _ => PPanic
  end.
Proof. reflexivity. Qed.

Lemma index_exprs_spec : forall es st k cid f acc st' r,
  FInv st -> index_exprs st k cid f es acc = (st', r) ->
  FInv st' /\ Quiet st st' /\ (es <> [] -> known st' f) /\
  is_ok r = forallb (expr_ok (parsers f)) es /\
  (forall txs, r = POk txs -> txs = acc ++ map (expr_tx parsers cid f) es).
Proof.
  induction es as [|e es IH]; intros st k cid f acc st' r HF H; cbn [index_exprs] in H.
  - inversion H; subst. split; [exact HF|]. split; [apply Quiet_refl|]. split; [congruence|].
    split; [reflexivity|]. intros txs [= <-]. rewrite app_nil_r. reflexivity.
  - destruct (ensure_field_spec st f HF) as (F1 & Q1 & Hfd & K1).
    destruct (ensure_field st f) as [st1 fd]. cbn [fst snd] in *. subst fd.
    rewrite (update_nth_id (fun ec => create_holder ec (mk_fd parsers f)) (fun ec => create_holder_default ec f)) in H.
    set (st2 := with_conts st1 (b_conts st1)) in *.
    assert (F2 : FInv st2) by (destruct F1; split; auto).
    assert (Q2 : Quiet st st2) by (eapply Quiet_trans; [exact Q1|]; split; auto).
    assert (K2 : known st2 f) by exact K1.
    rewrite indexing_tx_default in H. cbn [forallb]. unfold expr_ok at 1.
    assert (Hfail : forall r0 : pres (list tx), is_ok r0 = false -> (st2, r0) = (st', r) ->
              FInv st' /\ Quiet st st' /\ (e :: es <> [] -> known st' f) /\
              is_ok r = false /\ (forall txs, r = POk txs -> txs = acc ++ map (expr_tx parsers cid f) (e :: es))).
    { intros r0 Hr0 E. inversion E; subst. split; [exact F2|]. split; [exact Q2|]. split; [intros _; exact K2|].
      split; [exact Hr0|]. intros txs E'. subst r. discriminate. }
    destruct (e_op e); try (apply Hfail in H; [exact H|reflexivity]).
    destruct (parse_value (parsers f) (e_val e)) as [ids| | | |] eqn:Ep; cbn [pbind] in H;
      try (apply Hfail in H; [exact H|reflexivity]).
    destruct (IH _ _ _ _ _ _ _ F2 H) as (F3 & Q3 & K3 & O3 & T3).
    split; [exact F3|]. split; [eapply Quiet_trans; eassumption|]. split; [intros _; apply (q_known _ _ Q3); exact K2|].
    split; [exact O3|]. intros txs E. rewrite (T3 _ E), <- app_assoc. cbn [map app]. do 2 f_equal.
    unfold expr_tx, expr_ids. rewrite Ep. reflexivity.
Qed.

Lemma index_conj_spec : forall cj st k cid acc st' r,
  FInv st -> index_conj st k cid cj acc = (st', r) ->
  FInv st' /\ Quiet st st' /\ is_ok r = conj_ok parsers cj /\
  (forall txs, r = POk txs -> txs = acc ++ conj_txs parsers cid cj /\
     forall f es, In (f, es) cj -> es <> [] -> known st' f).
Proof.
  induction cj as [|[f es] cj IH]; intros st k cid acc st' r HF H; cbn [index_conj] in H.
  - inversion H; subst. split; [exact HF|]. split; [apply Quiet_refl|]. split; [reflexivity|].
    intros txs [= <-]. rewrite app_nil_r. split; [reflexivity|]. intros f es [].
  - destruct (index_exprs st k cid f es acc) as [st1 r1] eqn:E1.
    destruct (index_exprs_spec _ _ _ _ _ _ _ _ HF E1) as (F1 & Q1 & K1 & O1 & T1).
    unfold conj_ok. cbn [forallb fst snd]. fold (conj_ok parsers cj). rewrite <- O1.
    destruct r1 as [acc'| | | |];
      try (inversion H; subst; split; [exact F1|]; split; [exact Q1|]; split; [reflexivity|]; intros; discriminate).
    destruct (IH _ _ _ _ _ _ F1 H) as (F2 & Q2 & O2 & T2).
    split; [exact F2|]. split; [eapply Quiet_trans; eassumption|]. split; [exact O2|].
    intros txs E. destruct (T2 _ E) as [Et Kn]. split.
    + rewrite Et, (T1 _ eq_refl), <- app_assoc. reflexivity.
    + intros g gs [[= <- <-]|Hin] Hne; [|eapply Kn; eassumption].
      apply (q_known _ _ Q2). apply K1. exact Hne.
Qed.

(* ---- commit ---- *)
Record Frame (st st' : bstate) : Prop := {
  fr_z : b_z st' = b_z st;
  fr_fields : b_fields st' = b_fields st;
  fr_len : length (b_conts st') = length (b_conts st)
}.

Lemma commit_one_spec k st f eid ids : FInv st -> (cidx k < length (b_conts st))%nat ->
  let st' := commit_one k st {| tx_field := mk_fd parsers f; tx_eid := eid; tx_data := TxIds ids |} in
  FInv st' /\ Frame st st' /\
  forall k' f' v' x, In x (plist (nth k' (b_conts st') new_econtainer) f' v') <->
     In x (plist (nth k' (b_conts st) new_econtainer) f' v') \/
     (k' = cidx k /\ f' = f /\ In v' ids /\ x = eid).
Proof.
  intros HF Hlen st'. subst st'. unfold commit_one. cbn [tx_field tx_eid tx_data b_conts with_conts].
  rewrite (cont_index_cidx _ _ HF).
  assert (Hnth : forall k', nth k' (update_nth (cidx k)
            (fun ec => match get_holder ec (mk_fd parsers f) with
                       | Some h => set_holder ec (mk_fd parsers f) (commit_tx (fd_name (mk_fd parsers f)) eid (TxIds ids) h)
                       | None => ec end) (b_conts st)) new_econtainer =
          if Nat.eqb k' (cidx k) then
            {| ec_default := commit_tx f eid (TxIds ids) (ec_default (nth k' (b_conts st) new_econtainer));
               ec_fields := ec_fields (nth k' (b_conts st) new_econtainer) |}
          else nth k' (b_conts st) new_econtainer).
  { intros k'. rewrite nth_update_nth by exact Hlen. reflexivity. }
  split; [|split].
  - destruct HF as [A B C D E]. split; auto. intros k'. cbn [b_conts with_conts]. rewrite Hnth.
    destruct (Nat.eqb k' (cidx k)); [|apply E]. cbn [ec_default]. destruct (E k') as [pls ->].
    cbn [commit_tx]. eexists; reflexivity.
  - split; auto. cbn [b_conts with_conts]. apply update_nth_length.
  - intros k' f' v' x. rewrite Hnth. destruct (Nat.eqb_spec k' (cidx k)) as [->|Hne].
    + unfold plist at 1. cbn [ec_default]. destruct (fi_def _ HF (cidx k)) as [pls Epls].
      unfold plist. rewrite Epls. cbn [commit_tx].
      rewrite (lk_fold term_key_eqb term_key_eqb_spec (fun id => (f, id))). split.
      * intros [H|(-> & y & Hy & [= -> ->])]; [left; exact H|]. right. rewrite nodup_by_In in Hy. auto.
      * intros [H|(_ & -> & Hv & ->)]; [left; exact H|]. right. split; [reflexivity|].
        exists v'. split; [rewrite nodup_by_In; exact Hv|reflexivity].
    + split; [auto|]. intros [H|(H & _)]; [exact H|contradiction].
Qed.

Definition tx_default (t : tx) : Prop :=
  exists f ids, tx_field t = mk_fd parsers f /\ tx_data t = TxIds ids.
Definition tx_ids (t : tx) : list pid := match tx_data t with TxIds ids => ids | _ => [] end.

Lemma commit_all_spec k : forall txs st, FInv st -> (cidx k < length (b_conts st))%nat -> Forall tx_default txs ->
  let st' := fold_left (commit_one k) txs st in
  FInv st' /\ Frame st st' /\
  forall k' f' v' x, In x (plist (nth k' (b_conts st') new_econtainer) f' v') <->
     In x (plist (nth k' (b_conts st) new_econtainer) f' v') \/
     (k' = cidx k /\ exists t, In t txs /\ fd_name (tx_field t) = f' /\ In v' (tx_ids t) /\ x = tx_eid t).
Proof.
  induction txs as [|t txs IH]; intros st HF Hlen Htx; cbn [fold_left].
  - split; [exact HF|]. split; [split; reflexivity|]. intros k' f' v' x. split; [auto|].
    intros [H|(_ & t & [] & _)]. exact H.
  - inversion Htx as [|? ? Ht Htxs]; subst. destruct Ht as (f & ids & Ef & Ed).
    assert (Et : t = {| tx_field := mk_fd parsers f; tx_eid := tx_eid t; tx_data := TxIds ids |}).
    { destruct t as [a b c]. cbn [tx_field tx_data tx_eid] in *. subst. reflexivity. }
    destruct (commit_one_spec k st f (tx_eid t) ids HF Hlen) as (F1 & [Z1 Fd1 L1] & P1).
    rewrite <- Et in F1, Z1, Fd1, L1, P1.
    destruct (IH (commit_one k st t) F1 ltac:(lia) Htxs) as (F2 & [Z2 Fd2 L2] & P2).
    split; [exact F2|]. split; [split; congruence|].
    intros k' f' v' x. rewrite P2, P1. split.
    + intros [[H|(H1 & H2 & H3 & H4)]|(H1 & t' & H2 & H3)].
      * left. exact H.
      * right. split; [exact H1|]. exists t. split; [left; reflexivity|]. rewrite Ef. cbn [fd_name].
        unfold tx_ids. rewrite Ed. auto.
      * right. split; [exact H1|]. exists t'. split; [right; exact H2|exact H3].
    + intros [H|(H1 & t' & [<-|H2] & H3 & H4 & H5)].
      * left. left. exact H.
      * left. right. rewrite Ef in H3. cbn [fd_name] in H3. unfold tx_ids in H4. rewrite Ed in H4. auto.
      * right. split; [exact H1|]. exists t'. auto.
Qed.

Lemma conj_txs_default cid cj : Forall tx_default (conj_txs parsers cid cj).
Proof.
  apply Forall_forall. intros t Ht. unfold conj_txs in Ht. apply in_flat_map in Ht.
  destruct Ht as ([f es] & _ & Ht). apply in_map_iff in Ht. destruct Ht as (e & <- & _).
  exists f, (expr_ids (parsers f) e). split; reflexivity.
Qed.

Lemma conj_txs_In cid cj f' v' x :
  (exists t, In t (conj_txs parsers cid cj) /\ fd_name (tx_field t) = f' /\ In v' (tx_ids t) /\ x = tx_eid t) <->
  (exists es e, In (f', es) cj /\ In e es /\ In v' (expr_ids (parsers f') e) /\ x = IdsGen.NewEntryID cid (e_incl e)).
Proof.
  unfold conj_txs. split.
  - intros (t & Ht & H1 & H2 & H3). apply in_flat_map in Ht. destruct Ht as ([f es] & Hfe & Ht).
    apply in_map_iff in Ht. destruct Ht as (e & <- & He). cbn [fst snd expr_tx tx_field tx_eid tx_data mk_fd fd_name tx_ids] in *.
    subst f'. exists es, e. auto.
  - intros (es & e & H1 & H2 & H3 & H4). exists (expr_tx parsers cid f' e). split.
    + apply in_flat_map. exists (f', es). split; [exact H1|]. apply in_map. exact H2.
    + cbn. auto.
Qed.

(* ---- one conjunction ---- *)
Lemma add_conj_spec d st i c st' db :
  FInv st -> Repr st db -> add_conj false d st (i, c) = (st', AddOk) ->
  exists cid, IdsGen.NewConjID d i (calc_size c) = Some cid /\ FInv st' /\
    Repr st' (db ++ (if conj_ok parsers c then [(cid, c)] else [])) /\
    (conj_ok parsers c = false -> pol = PolSkip).
Proof.
  intros HF HR H. unfold add_conj in H.
  destruct (IdsGen.NewConjID d i (calc_size c)) as [cid|]; [|discriminate]. exists cid. split; [reflexivity|].
  cbn [andb negb] in H.
  pose proof (ensure_cont_FInv st (calc_size c) HF) as F0.
  pose proof (ensure_cont_quiet st (calc_size c)) as Q0.
  pose proof (ensure_cont_len st (calc_size c) HF) as L0.
  destruct (index_conj (ensure_cont st (calc_size c)) (calc_size c) cid c []) as [st2 r] eqn:Ei.
  destruct (index_conj_spec _ _ _ _ _ _ _ F0 Ei) as (F2 & Q2 & O2 & T2).
  assert (Q02 : Quiet st st2) by (eapply Quiet_trans; eassumption).
  rewrite <- O2.
  destruct r as [txs| | | |]; try discriminate.
  - (* parsed: commit *)
    cbn [is_ok]. destruct (T2 _ eq_refl) as [Et Kn]. cbn [app] in Et. subst txs.
    set (st3 := if (calc_size c =? 0)%Z then with_z st2 (b_z st2 ++ [IdsGen.NewEntryID cid true]) else st2) in *.
    inversion H as [Hst]. clear H.
    assert (F3 : FInv st3) by (subst st3; destruct (calc_size c =? 0)%Z; [destruct F2; split; auto|exact F2]).
    assert (C3 : b_conts st3 = b_conts st2) by (subst st3; destruct (calc_size c =? 0)%Z; reflexivity).
    assert (Fd3 : b_fields st3 = b_fields st2) by (subst st3; destruct (calc_size c =? 0)%Z; reflexivity).
    assert (L3 : (cidx (calc_size c) < length (b_conts st3))%nat).
    { rewrite C3. pose proof (q_len _ _ Q2). lia. }
    destruct (commit_all_spec (calc_size c) _ st3 F3 L3 (conj_txs_default cid c)) as (F4 & [Z4 Fd4 L4] & P4).
    split; [exact F4|]. split; [|discriminate].
    pose proof (Repr_quiet _ _ _ HR Q02) as [R1 R2 R3 R4]. split.
    + intros k f v x. rewrite P4, C3, R1, conj_txs_In. split.
      * intros [(cid' & cj & es & e & H1 & H2)|(H1 & es & e & H2)].
        -- exists cid', cj, es, e. split; [apply in_or_app; left; exact H1|exact H2].
        -- exists cid, c, es, e. split; [apply in_or_app; right; left; reflexivity|]. split; [auto|exact H2].
      * intros (cid' & cj & es & e & H1 & H2 & H3). apply in_app_or in H1. destruct H1 as [H1|[[= <- <-]|[]]].
        -- left. exists cid', cj, es, e. auto.
        -- right. split; [auto|]. exists es, e. exact H3.
    + intros x. rewrite Z4. subst st3. destruct (Z.eqb_spec (calc_size c) 0) as [E0|E0].
      * cbn [b_z with_z]. rewrite in_app_iff, R2. cbn [In]. split.
        -- intros [(cid' & cj & H1 & H2)|[<-|[]]].
           ++ exists cid', cj. split; [apply in_or_app; left; exact H1|exact H2].
           ++ exists cid, c. split; [apply in_or_app; right; left; reflexivity|auto].
        -- intros (cid' & cj & H1 & H2 & H3). apply in_app_or in H1. destruct H1 as [H1|[[= <- <-]|[]]].
           ++ left. exists cid', cj. auto.
           ++ right. left. auto.
      * rewrite R2. split.
        -- intros (cid' & cj & H1 & H2). exists cid', cj. split; [apply in_or_app; left; exact H1|exact H2].
        -- intros (cid' & cj & H1 & H2 & H3). apply in_app_or in H1. destruct H1 as [H1|[[= <- <-]|[]]].
           ++ exists cid', cj. auto.
           ++ contradiction.
    + intros cid' cj H1. rewrite L4, C3. apply in_app_or in H1. destruct H1 as [H1|[[= <- <-]|[]]].
      * apply R3 in H1. exact H1.
      * pose proof (q_len _ _ Q2). lia.
    + intros cid' cj f es H1 H2 H3. unfold known. rewrite Fd4, Fd3. apply in_app_or in H1. destruct H1 as [H1|[[= <- <-]|[]]].
      * eapply R4; eassumption.
      * eapply Kn; eassumption.
  - (* PErr under PolSkip: nothing was stored *)
    cbn [is_ok]. rewrite app_nil_r.
    assert (Hp : b_policy st = PolSkip) by (destruct (b_policy st); [discriminate|reflexivity|discriminate]).
    inversion H; subst st'. split; [exact F2|]. split; [eapply Repr_quiet; eassumption|].
    intros _. rewrite <- (fi_pol _ HF). exact Hp.
Qed.

(* ---- documents ---- *)
Definition conj_db (d : Z) (ic : Z * conj) : cdb :=
  match IdsGen.NewConjID d (fst ic) (calc_size (snd ic)) with
  | Some cid => if conj_ok parsers (snd ic) then [(cid, snd ic)] else []
  | None => []
  end.
Definition doc_db (d : doc) : cdb := flat_map (conj_db (d_id d)) (indexed_from 0%Z (d_conjs d)).
Definition docs_db (ds : list doc) : cdb := flat_map doc_db ds.

Lemma add_conjs_spec d : forall ics st st' db,
  FInv st -> Repr st db -> add_conjs false d st ics = (st', AddOk) ->
  FInv st' /\ Repr st' (db ++ flat_map (conj_db d) ics) /\
  (pol <> PolSkip -> Forall (fun ic => conj_ok parsers (snd ic) = true) ics) /\
  Forall (fun ic => IdsGen.NewConjID d (fst ic) (calc_size (snd ic)) <> None) ics.
Proof.
  induction ics as [|[i c] ics IH]; intros st st' db HF HR H; cbn [add_conjs] in H.
  - inversion H; subst. cbn [flat_map]. rewrite app_nil_r. auto.
  - destruct (add_conj false d st (i, c)) as [st1 o] eqn:E1. destruct o; try discriminate.
    destruct (add_conj_spec _ _ _ _ _ _ HF HR E1) as (cid & Ec & F1 & R1 & P1).
    destruct (IH _ _ _ F1 R1 H) as (F2 & R2 & P2 & N2).
    split; [exact F2|]. split; [|split].
    + cbn [flat_map]. unfold conj_db at 1. cbn [fst snd]. rewrite Ec, app_assoc. exact R2.
    + intros Hp. constructor; [|apply P2; exact Hp]. cbn [snd].
      destruct (conj_ok parsers c); [reflexivity|]. exfalso. apply Hp. apply P1. reflexivity.
    + constructor; [|exact N2]. cbn [fst snd]. rewrite Ec. discriminate.
Qed.

Lemma add_document_spec st d st' db :
  FInv st -> Repr st db -> add_document false st d = (st', AddOk) ->
  FInv st' /\ Repr st' (db ++ doc_db d) /\
  (pol <> PolSkip -> Forall (fun c => conj_ok parsers c = true) (d_conjs d)) /\
  (forall k cj, nth_error (d_conjs d) k = Some cj ->
     IdsGen.NewConjID (d_id d) (Z.of_nat k) (calc_size cj) <> None).
Proof.
  intros HF HR H. unfold add_document in H. destruct (d_conjs d) as [|c0 cs] eqn:Ed; [discriminate|].
  rewrite <- Ed in *. destruct (255 <? Z.of_nat (length (d_conjs d)))%Z; [discriminate|].
  destruct (add_conjs_spec _ _ _ _ _ HF HR H) as (F1 & R1 & P1 & N1). split; [exact F1|]. split; [exact R1|]. split.
  - intros Hp. specialize (P1 Hp). rewrite Forall_forall in *. intros c Hc.
    apply In_nth_error in Hc. destruct Hc as [k Hk]. apply (indexed_from_nth _ 0%Z) in Hk. apply (P1 _ Hk).
  - intros k cj Hk. apply (indexed_from_nth _ 0%Z) in Hk. rewrite Forall_forall in N1. apply (N1 _ Hk).
Qed.

Lemma add_documents_spec : forall ds st st' os db,
  FInv st -> Repr st db -> add_documents false st ds = (st', os) -> Forall (eq AddOk) os ->
  FInv st' /\ Repr st' (db ++ docs_db ds) /\
  (pol <> PolSkip -> forall d c, In d ds -> In c (d_conjs d) -> conj_ok parsers c = true) /\
  (forall d k cj, In d ds -> nth_error (d_conjs d) k = Some cj ->
     IdsGen.NewConjID (d_id d) (Z.of_nat k) (calc_size cj) <> None).
Proof.
  induction ds as [|d ds IH]; intros st st' os db HF HR H Hok; cbn [add_documents] in H.
  - inversion H; subst. cbn [docs_db flat_map]. rewrite app_nil_r. split; [exact HF|]. split; [exact HR|].
    split; [intros _ d c []|intros d k cj []].
  - destruct (add_document false st d) as [st1 o] eqn:E1. destruct (add_documents false st1 ds) as [st2 os'] eqn:E2.
    inversion H; subst. inversion Hok as [|? ? Ho Hos]; subst.
    destruct (add_document_spec _ _ _ _ HF HR E1) as (F1 & R1 & P1 & N1).
    destruct (IH _ _ _ _ F1 R1 E2 Hos) as (F2 & R2 & P2 & N2).
    split; [exact F2|]. split; [|split].
    + unfold docs_db. cbn [flat_map]. rewrite app_assoc. exact R2.
    + intros Hp d' c [<-|Hd] Hc.
      * specialize (P1 Hp). rewrite Forall_forall in P1. apply P1. exact Hc.
      * eapply P2; eassumption.
    + intros d' k cj [<-|Hd] Hk; [apply N1; exact Hk|eapply N2; eassumption].
Qed.

End Inv.

(* ---- the fresh builder ---- *)
Lemma new_builder_FInv kind pol thr parsers : FInv kind pol parsers (new_builder kind pol thr parsers).
Proof.
  split; try reflexivity; cbn [new_builder b_fields b_conts]; [constructor|].
  intros k. exists []. destruct kind; [destruct k; reflexivity|destruct k as [|[|k]]; reflexivity].
Qed.

Lemma nth_new_conts kind k :
  nth k (match kind with IKGroups => [] | ICompact => [new_econtainer] end) new_econtainer = new_econtainer.
Proof. destruct kind; [destruct k; reflexivity|destruct k as [|[|k]]; reflexivity]. Qed.

Lemma new_builder_Repr kind pol thr parsers : Repr kind parsers (new_builder kind pol thr parsers) [].
Proof.
  split; cbn [new_builder b_conts b_z b_fields].
  - intros k f v x. rewrite nth_new_conts. cbn. split; [intros []|]. intros (cid & cj & es & e & [] & _).
  - intros x. split; [intros []|]. intros (cid & cj & [] & _).
  - intros cid cj [].
  - intros cid cj f es [].
Qed.

Theorem add_documents_repr kind pol thr parsers ds st os :
  add_documents false (new_builder kind pol thr parsers) ds = (st, os) -> Forall (eq AddOk) os ->
  FInv kind pol parsers st /\ Repr kind parsers st (docs_db parsers ds) /\
  (pol <> PolSkip -> forall d c, In d ds -> In c (d_conjs d) -> conj_ok parsers c = true) /\
  (forall d k cj, In d ds -> nth_error (d_conjs d) k = Some cj ->
     IdsGen.NewConjID (d_id d) (Z.of_nat k) (calc_size cj) <> None).
Proof.
  intros H Hok.
  exact (add_documents_spec kind pol parsers ds _ _ _ [] (new_builder_FInv kind pol thr parsers)
           (new_builder_Repr kind pol thr parsers) H Hok).
Qed.

Print Assumptions add_documents_repr.
