From Coq Require Import List NArith Bool Lia Arith Sorting.Sorted.
From BE Require Import Model.Scan.
Import ListNotations.

Definition NULLENTRY : N := 18446744073709551615%N.
Definition ent (l : list N) (i : nat) : N := nth i l NULLENTRY.

Record cursor := { c_pos : nat; c_eid : N }.

(* exponential probe: returns Some (cursor, rightSideIndex), None = out of fuel *)
Fixpoint gallop (fuel : nat) (l : list N) (id : N) (oc cur bound : nat) : option (nat * nat) :=
  let right := (oc + bound)%nat in
  if (right <? length l)%nat && (ent l right <? id)%N then
    match fuel with
    | O => None
    | S f => gallop f l id oc right (2 * bound)
    end
  else Some (cur, right).

Fixpoint bsearch (fuel : nat) (l : list N) (id : N) (cur right : nat) : option nat :=
  if (cur <? right)%nat && (ent l cur <? id)%N then
    match fuel with
    | O => None
    | S f =>
      let mid := Nat.div2 (cur + right) in
      if (id <=? ent l mid)%N then bsearch f l id cur mid else bsearch f l id (S mid) right
    end
  else Some cur.

Definition skip_to (l : list N) (c : cursor) (id : N) : option cursor :=
  if (id <=? c_eid c)%N then Some c else
  match gallop (length l) l id (c_pos c) (c_pos c) 1 with
  | None => None
  | Some (cur, r0) =>
    let rr := if (length l <? r0)%nat then length l else r0 in
    match bsearch (length l) l id cur rr with
    | None => None
    | Some p => Some {| c_pos := p; c_eid := if (length l <=? p)%nat then NULLENTRY else ent l p |}
    end
  end.

Definition new_cursor (l : list N) : cursor := {| c_pos := 0; c_eid := ent l 0 |}.


(* what remains of a list at/after the cursor; the value-level effect of SkipTo *)
Definition remaining (l : list N) (c : cursor) : list N := skipn (c_pos c) l.
Fixpoint drop_lt (id : N) (r : list N) : list N :=
  match r with [] => [] | x :: r' => if (x <? id)%N then drop_lt id r' else r end.

(* ---- field cursors: a group of entry cursors and (the entry of) the current minimum ---- *)
Definition member := (list N * cursor)%type.
Definition fcur := list member.

(* all members skip; used by the refinement proofs *)
Fixpoint fc_skip (id : N) (fc : fcur) : option fcur :=
  match fc with
  | [] => Some []
  | (l, c) :: rest =>
    match skip_to l c id, fc_skip id rest with
    | Some c', Some rest' => Some ((l, c') :: rest')
    | _, _ => None
    end
  end.
Definition fc_cur (fc : fcur) : N := fold_right (fun m acc => N.min (c_eid (snd m)) acc) NULLENTRY fc.

(* the Go object: cursorGroup + current (we keep the current cursor's curEID, which is all
   GetCurEntryID/ReachEnd read).  FieldCursor.SkipTo: newMin starts at NULLENTRY, every member
   skips, `if eid <= newMin { newMin = eid; current = cur }`. *)
Record fcursor := { fc_group : fcur; fc_current : N }.

Fixpoint fc_skip_loop (id : N) (fc : fcur) (newMin : N) : option (fcur * N) :=
  match fc with
  | [] => Some ([], newMin)
  | (l, c) :: rest =>
    match skip_to l c id with
    | None => None
    | Some c' =>
      let nm := if (c_eid c' <=? newMin)%N then c_eid c' else newMin in
      match fc_skip_loop id rest nm with
      | None => None
      | Some (r, m) => Some ((l, c') :: r, m)
      end
    end
  end.
Definition fcursor_skip_to (f : fcursor) (id : N) : option (fcursor * N) :=
  match fc_skip_loop id (fc_group f) NULLENTRY with
  | None => None
  | Some (g, m) => Some ({| fc_group := g; fc_current := m |}, m)
  end.

(* NewFieldCursor: current = first member with the strictly smallest curEID (nil for no members:
   callers never build an empty group; we use NULLENTRY there) *)
Fixpoint new_fc_loop (ms : fcur) (cur : option N) : option N :=
  match ms with
  | [] => cur
  | (_, c) :: rest =>
    new_fc_loop rest (match cur with
                      | None => Some (c_eid c)
                      | Some e => if (c_eid c <? e)%N then Some (c_eid c) else Some e
                      end)
  end.
Definition new_fcursor (ls : list (list N)) : fcursor :=
  let g := map (fun l => (l, new_cursor l)) ls in
  {| fc_group := g; fc_current := match new_fc_loop g None with Some e => e | None => NULLENTRY end |}.

Definition fcursor_reach_end (f : fcursor) : bool := (fc_current f =? NULLENTRY)%N.

(* FieldCursors.Sort: Go's insertion sort on GetCurEntryID (plain uint64 comparison; the sentinel is the maximum) *)
Definition nkey (e : N) : option N := Some e.
Definition sort_fcursors (fs : list fcursor) : list fcursor := isort (fun f => nkey (fc_current f)) fs.
