From Coq Require Import List ZArith Bool Lia.
From BE Require Import Model.RangeIdx.
Import ListNotations.
Local Open Scope Z_scope.

Fixpoint chain (lo hi : Z) (items : list piece) : Prop :=
  match items with
  | [] => lo = hi
  | p :: rest => pl p = lo /\ lo < pr p /\ chain (pr p) hi rest
  end.

Lemma chain_le lo hi items : chain lo hi items -> lo <= hi.
Proof. revert lo. induction items as [|p rest IH]; simpl; intros lo H. lia. destruct H as [? [? H]]. apply IH in H. lia. Qed.

Lemma entries_at_cons_in x p rest : pl p <= x < pr p -> entries_at x (p :: rest) = pe p.
Proof. intros H. unfold entries_at, contains. simpl. destruct (Z.leb_spec (pl p) x), (Z.ltb_spec x (pr p)); simpl; auto; lia. Qed.
Lemma entries_at_cons_out x p rest : ~ (pl p <= x < pr p) -> entries_at x (p :: rest) = entries_at x rest.
Proof. intros H. unfold entries_at, contains. simpl. destruct (Z.leb_spec (pl p) x), (Z.ltb_spec x (pr p)); simpl; auto; lia. Qed.
Lemma entries_at_below x lo hi items : chain lo hi items -> x < lo -> entries_at x items = [].
Proof.
  revert lo. induction items as [|p rest IH]; simpl; intros lo H Hx; auto.
  destruct H as [H1 [H2 H3]]. rewrite entries_at_cons_out by lia. apply (IH (pr p)); auto. lia.
Qed.

(* Explode in the two situations IndexingRange uses it *)
Lemma explode_case1 p rl : pl p <= rl < pr p ->
  explode p rl (pr p) = (if pl p <? rl then [(pl p, rl)] else []) ++ [(rl, pr p)].
Proof.
  intros H. unfold explode, explode_vs.
  destruct (Z.ltb_spec (pl p) rl); destruct (Z.ltb_spec (pr p) (pr p)); try lia; simpl.
  - destruct (Z.ltb_spec (pl p) (pr p)); try lia. destruct (Z.eqb_spec rl (pl p)); try lia.
    destruct (Z.ltb_spec rl (pr p)); try lia. destruct (Z.eqb_spec (pr p) rl); try lia. reflexivity.
  - assert (rl = pl p) by lia. subst rl.
    destruct (Z.ltb_spec (pl p) (pr p)); try lia. destruct (Z.eqb_spec (pr p) (pl p)); try lia. reflexivity.
Qed.

Lemma explode_case2 p rl fr : pl p <= rl < fr -> fr <= pr p ->
  explode p rl fr = (if pl p <? rl then [(pl p, rl)] else []) ++ [(rl, fr)] ++ (if fr <? pr p then [(fr, pr p)] else []).
Proof.
  intros H H2. unfold explode, explode_vs.
  destruct (Z.ltb_spec (pl p) rl); destruct (Z.ltb_spec fr (pr p)); try lia; simpl;
  repeat match goal with
  | |- context [?a <? ?b] => destruct (Z.ltb_spec a b); try lia
  | |- context [?a =? ?b] => destruct (Z.eqb_spec a b); try lia
  end; simpl; try reflexivity;
  repeat match goal with
  | |- context [?a <? ?b] => destruct (Z.ltb_spec a b); try lia
  | |- context [?a =? ?b] => destruct (Z.eqb_spec a b); try lia
  end; try reflexivity; try (f_equal; f_equal; lia); try (replace rl with (pl p) by lia; reflexivity).
Qed.

Definition added (rl fr x : Z) (eid : N) : list N := if (rl <=? x) && (x <? fr) then [eid] else [].

Lemma index_loop_break items rl fr fl eid lo hi : chain lo hi items -> fr <= lo ->
  index_loop items rl fr fl fr fr eid = items.
Proof.
  destruct items as [|p rest]; simpl; auto. intros [H1 _] H. destruct (Z.leb_spec fr (pl p)); auto. lia.
Qed.

Lemma index_loop_spec items : forall lo hi rl fr fl eid,
  chain lo hi items -> fl <= rl < fr -> lo <= rl -> (rl = fl \/ rl = lo) ->
  chain lo hi (index_loop items rl fr fl fr fr eid) /\
  forall x, lo <= x < hi ->
    entries_at x (index_loop items rl fr fl fr fr eid) = entries_at x items ++ added rl fr x eid.
Proof.
  induction items as [|p rest IH]; intros lo hi rl fr fl eid Hc Hr Hlo Hor.
  - simpl in *. split; auto. intros x Hx. lia.
  - simpl in Hc. destruct Hc as [Hpl [Hlt Hrest]]. cbn [index_loop].
    destruct (Z.leb_spec fr (pl p)); [lia|].
    destruct (Z.leb_spec (pr p) rl) as [Hskip|Hin].
    + (* continue *)
      assert (Hfl : rl = fl) by lia.
      destruct (IH (pr p) hi rl fr fl eid Hrest Hr Hskip (or_introl Hfl)) as [Hc' Hspec].
      split. { simpl. auto. }
      intros x Hx. destruct (Z.lt_ge_cases x (pr p)).
      * rewrite !entries_at_cons_in by lia. unfold added.
        destruct (Z.leb_spec rl x); try lia. simpl. rewrite app_nil_r. reflexivity.
      * rewrite !entries_at_cons_out by lia. apply Hspec. lia.
    + assert (Hcont : contains p rl = true).
      { unfold contains. destruct (Z.leb_spec (pl p) rl), (Z.ltb_spec rl (pr p)); auto; lia. }
      rewrite Hcont.
      assert (Hleft : pl p < rl -> contain_range fl fr (pl p) rl = false).
      { intros Hl. unfold contain_range. destruct (Z.leb_spec fl (pl p)); simpl; auto. lia. }
      destruct (Z.ltb_spec (pr p) fr) as [Hc1|Hc2].
      * (* case 1: the range continues into the next piece *)
        unfold new_range. destruct (Z.eqb_spec (pr p) fr); [lia|].
        rewrite explode_case1 by lia.
        assert (Hr' : fl <= pr p < fr) by lia.
        destruct (IH (pr p) hi (pr p) fr fl eid Hrest Hr' (Z.le_refl _) (or_intror eq_refl)) as [Hc' Hspec].
        assert (Hmid : contain_range fl fr rl (pr p) = true).
        { unfold contain_range. destruct (Z.leb_spec fl rl), (Z.leb_spec (pr p) fr), (Z.ltb_spec rl fr); auto; lia. }
        destruct (Z.ltb_spec (pl p) rl) as [Hl|Hl]; cbn [app mk_pieces map]; rewrite ?Hmid, ?(Hleft Hl).
        -- split. { simpl. repeat split; auto; lia. }
           intros x Hx. destruct (Z.lt_ge_cases x rl); [|destruct (Z.lt_ge_cases x (pr p))].
           ++ rewrite (entries_at_cons_in x) by (simpl; lia). rewrite (entries_at_cons_in x p) by lia.
              unfold added. destruct (Z.leb_spec rl x); try lia. simpl. rewrite app_nil_r. reflexivity.
           ++ rewrite (entries_at_cons_out x) by (simpl; lia). rewrite (entries_at_cons_in x) by (simpl; lia).
              rewrite (entries_at_cons_in x p) by lia. unfold added.
              destruct (Z.leb_spec rl x), (Z.ltb_spec x fr); try lia. reflexivity.
           ++ rewrite !(entries_at_cons_out x) by (simpl; lia). rewrite Hspec by lia.
              unfold added. destruct (Z.leb_spec rl x), (Z.leb_spec (pr p) x); try lia. reflexivity.
        -- assert (rl = pl p) by lia. subst rl.
           split. { simpl. repeat split; auto; lia. }
           intros x Hx. destruct (Z.lt_ge_cases x (pr p)).
           ++ rewrite (entries_at_cons_in x) by (simpl; lia). rewrite (entries_at_cons_in x p) by lia.
              unfold added. destruct (Z.leb_spec (pl p) x), (Z.ltb_spec x fr); try lia. reflexivity.
           ++ rewrite !(entries_at_cons_out x) by (simpl; lia). rewrite Hspec by lia.
              unfold added. destruct (Z.leb_spec (pl p) x), (Z.leb_spec (pr p) x); try lia. reflexivity.
      * (* case 2: the range ends inside this piece *)
        rewrite explode_case2 by lia.
        rewrite (index_loop_break rest rl fr fl eid (pr p) hi Hrest) by lia.
        assert (Hmid : contain_range fl fr rl fr = true).
        { unfold contain_range. destruct (Z.leb_spec fl rl), (Z.leb_spec fr fr), (Z.ltb_spec rl fr); auto; lia. }
        assert (Hright : contain_range fl fr fr (pr p) = false).
        { unfold contain_range. rewrite Z.ltb_irrefl. apply andb_false_r. }
        destruct (Z.ltb_spec (pl p) rl) as [Hl|Hl]; destruct (Z.ltb_spec fr (pr p)) as [Hrr|Hrr];
          cbn [app mk_pieces map]; rewrite ?Hmid, ?Hright, ?(Hleft Hl).
        all: try (assert (rl = pl p) by lia; subst rl).
        all: try (assert (fr = pr p) by lia; subst fr).
        all: split; [simpl; repeat split; auto; lia|].
        all: intros x Hx.
        all: repeat match goal with
             | |- context [entries_at ?y ({| pl := ?a; pr := ?b; pe := ?e |} :: ?r)] =>
               destruct (Z.lt_ge_cases y b);
               [ rewrite (entries_at_cons_in y {| pl := a; pr := b; pe := e |} r) by (simpl; lia)
               | rewrite (entries_at_cons_out y {| pl := a; pr := b; pe := e |} r) by (simpl; lia) ]
             end.
        all: try (rewrite (entries_at_cons_in _ p) by lia).
        all: try (rewrite (entries_at_cons_out _ p) by lia).
        all: unfold added.
        all: repeat match goal with
             | |- context [?a <=? ?b] => destruct (Z.leb_spec a b); try lia
             | |- context [?a <? ?b] => destruct (Z.ltb_spec a b); try lia
             end; simpl; rewrite ?app_nil_r; try reflexivity.
Qed.

(* normalised range of IndexingRange(left, right): [left, right) or [left, left+1) when left = right *)
Definition norm_r (l r : Z) : Z := if l =? r then r + 1 else r.

Theorem indexing_range_spec items mn mx l r eid :
  chain mn mx items -> mn <= l -> l <= r ->
  chain mn mx (indexing_range items l r eid) /\
  forall x, mn <= x < mx ->
    entries_at x (indexing_range items l r eid) = entries_at x items ++ added l (norm_r l r) x eid.
Proof.
  intros Hc Hmn Hlr. unfold indexing_range, norm_r, new_range.
  destruct (Z.eqb_spec l r) as [->|Hne].
  - destruct (Z.eqb_spec r (r + 1)); [lia|]. apply index_loop_spec; auto; lia.
  - destruct (Z.eqb_spec l r); [lia|]. apply index_loop_spec; auto; lia.
Qed.

(* histories *)
Definition run (mn mx : Z) (h : list (Z * Z * N)) : list piece :=
  fold_left (fun it x => let '(l, r, e) := x in indexing_range it l r e) h (init mn mx).
Definition covering (x : Z) (h : list (Z * Z * N)) : list N :=
  flat_map (fun y => let '(l, r, e) := y in added l (norm_r l r) x e) h.

Theorem rangeidx_history mn mx h : mn < mx ->
  Forall (fun y => let '(l, r, _) := y in mn <= l /\ l <= r) h ->
  chain mn mx (run mn mx h) /\ forall x, mn <= x < mx -> entries_at x (run mn mx h) = covering x h.
Proof.
  intros Hmm Hh. unfold run.
  assert (G : forall items acc, chain mn mx items ->
     (forall x, mn <= x < mx -> entries_at x items = acc x) ->
     chain mn mx (fold_left (fun it x => let '(l, r, e) := x in indexing_range it l r e) h items) /\
     forall x, mn <= x < mx ->
       entries_at x (fold_left (fun it x => let '(l, r, e) := x in indexing_range it l r e) h items) = acc x ++ covering x h).
  { induction h as [|[[l r] e] h IH]; intros items acc Hc Hacc.
    - simpl. split; auto. intros x Hx. rewrite app_nil_r. auto.
    - inversion Hh; subst. destruct H1 as [H1 H1']. simpl.
      destruct (indexing_range_spec items mn mx l r e Hc H1 H1') as [Hc' Hs].
      destruct (IH H2 _ (fun x => acc x ++ added l (norm_r l r) x e) Hc') as [Hc'' Hs''].
      { intros x Hx. rewrite Hs by auto. rewrite Hacc by auto. reflexivity. }
      split; auto. intros x Hx. rewrite Hs'' by auto. rewrite app_assoc. reflexivity. }
  destruct (G (init mn mx) (fun _ => [])) as [Hc Hs].
  - simpl. repeat split; auto.
  - intros x Hx. unfold init. rewrite entries_at_cons_in by (simpl; lia). reflexivity.
  - split; auto.
Qed.
