(* C07: every interleaving of any number of retrievals yields, for every retrieval that has finished,
   the answer it gives when run alone. *)
From Coq Require Import List NArith ZArith Bool Lia.
From BE Require Import Model.GoTypes Model.GoVal Model.Parsers Model.Index Model.Pool Model.Conc Proofs.PoolProof.
Import ListNotations.

Definition thread_ok (t : thread) : Prop :=
  match t_pc t with
  | PcGet => True
  | PcHave c => c = []
  | PcPut r => r = retrieve (t_ix t) (t_q t)
  | PcDone r => r = retrieve (t_ix t) (t_q t)
  end.
Definition winv (w : world) : Prop := pool_inv (w_pool w) /\ Forall thread_ok (w_threads w).

Lemma update_nth_forall {A} (P : A -> Prop) n f l :
  Forall P l -> (forall x, nth_error l n = Some x -> P x -> P (f x)) -> Forall P (update_nth n f l).
Proof.
  revert n. induction l as [|x l IH]; intros n H Hf; destruct n; cbn; auto; inversion H; subst; constructor; auto.
Qed.

Lemma scan_into_empty ix q : scan_into ix q [] = retrieve ix q.
Proof. unfold scan_into, retrieve. destruct (retrieve_hits ix q); reflexivity. Qed.

Lemma step_inv w tid ch : winv w -> winv (step w tid ch).
Proof.
  intros [Hp Ht]. unfold step. destruct (nth_error (w_threads w) tid) as [t|] eqn:E; [|split; auto].
  assert (Hok : thread_ok t) by (rewrite Forall_forall in Ht; apply Ht; eapply nth_error_In; eauto).
  unfold thread_ok in Hok. destruct (t_pc t) as [|c|r|r] eqn:Epc.
  - destruct (pool_get_inv (w_pool w) ch Hp) as [Hc Hp']. destruct (pool_get (w_pool w) ch) as [c p'].
    cbn [fst snd] in *. subst c. split; cbn [w_pool w_threads]; auto.
    apply update_nth_forall; auto. intros x _ _. unfold thread_ok, set_pc. cbn. reflexivity.
  - subst c. split; cbn [w_pool w_threads]; auto.
    apply update_nth_forall; auto. intros x Hx _. unfold thread_ok, set_pc. cbn. apply scan_into_empty.
  - split; cbn [w_pool w_threads].
    + constructor; auto.
    + apply update_nth_forall; auto. intros x Hx _. rewrite E in Hx. inversion Hx; subst x.
      unfold thread_ok, set_pc. cbn. exact Hok.
  - split; auto.
Qed.

Lemma run_inv sched : forall w, winv w -> winv (run sched w).
Proof.
  induction sched as [|[tid ch] rest IH]; intros w H; cbn [run fold_left]; auto.
  apply IH. apply step_inv. exact H.
Qed.

Lemma init_inv p jobs : pool_inv p -> winv (init_world p jobs).
Proof.
  intros H. split; cbn; auto. induction jobs; cbn; constructor; auto. exact I.
Qed.

(* the job of a thread never changes *)
Lemma step_jobs w tid ch : map (fun t => (t_ix t, t_q t)) (w_threads (step w tid ch)) = map (fun t => (t_ix t, t_q t)) (w_threads w).
Proof.
  unfold step. destruct (nth_error (w_threads w) tid) as [t|]; auto.
  assert (G : forall p l n, map (fun t => (t_ix t, t_q t)) (update_nth n (fun t => set_pc t (p t)) l) = map (fun t => (t_ix t, t_q t)) l).
  { intros p l. induction l as [|x l IH]; intros n; destruct n; cbn; auto. f_equal. apply IH. }
  destruct (t_pc t) as [|c|r|r]; cbn [w_threads]; auto.
  all: try (destruct (pool_get (w_pool w) ch) as [o p']; cbn [w_threads]; apply (G (fun _ => PcHave o))).
  all: try apply (G (fun t0 => PcPut (scan_into (t_ix t0) (t_q t0) c))).
  all: try apply (G (fun _ => PcDone r)).
Qed.
Lemma run_jobs sched : forall w, map (fun t => (t_ix t, t_q t)) (w_threads (run sched w)) = map (fun t => (t_ix t, t_q t)) (w_threads w).
Proof.
  induction sched as [|[tid ch] rest IH]; intros w; cbn [run fold_left]; auto.
  fold (run rest (step w tid ch)). rewrite IH. apply step_jobs.
Qed.

(* every schedule, any number of threads, any pool choices: a finished retrieval returned what it
   returns when run alone *)
Theorem any_interleaving_serial p jobs sched i ix q r : pool_inv p ->
  nth_error jobs i = Some (ix, q) ->
  option_map t_pc (nth_error (w_threads (run sched (init_world p jobs))) i) = Some (PcDone r) ->
  r = retrieve ix q.
Proof.
  intros Hp Hj Hd.
  pose proof (run_inv sched _ (init_inv p jobs Hp)) as [_ Ht].
  pose proof (run_jobs sched (init_world p jobs)) as Hjobs.
  destruct (nth_error (w_threads (run sched (init_world p jobs))) i) as [t|] eqn:E; [|discriminate].
  cbn in Hd. inversion Hd as [Hpc].
  assert (Hok : thread_ok t) by (rewrite Forall_forall in Ht; apply Ht; eapply nth_error_In; eauto).
  unfold thread_ok in Hok. rewrite Hpc in Hok.
  assert (Hjob : (t_ix t, t_q t) = (ix, q)).
  { assert (A : nth_error (map (fun t => (t_ix t, t_q t)) (w_threads (run sched (init_world p jobs)))) i = Some (t_ix t, t_q t))
      by (rewrite nth_error_map, E; reflexivity).
    rewrite Hjobs in A. cbn [init_world w_threads] in A. rewrite map_map in A. cbn in A.
    rewrite nth_error_map in A. rewrite Hj in A. cbn in A. inversion A. reflexivity. }
  inversion Hjob as [[Hi Hq]]. first [exact Hok | rewrite <- Hi, <- Hq; exact Hok].
Qed.
