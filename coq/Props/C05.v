(* C05  Pattern-matching (Aho-Corasick) fields hit exactly on keyword substrings.  Statements only.
   The third-party automaton (anknown/ahocorasick + darts) is not modelled: the holder model
   (Model/Index.v: get_entries on HAc) selects by the Coq function `kw_found` (`substring` on valid UTF-8), i.e. the automaton is
   replaced by its specification; that the real automaton meets it is what the correspondence run
   validates on adversarial keyword sets on every run (one document per keyword). *)
From Coq Require Import List NArith ZArith Bool.
From BE Require Import Model.GoTypes Model.GoVal Model.Parsers Model.Index Proofs.AcProof.
From BE Require Gen.IdsGen Proofs.IndexCorrect Proofs.HoldersBuildInv Proofs.IndexCorrectHolders Proofs.NonVacuous Model.Spec Proofs.SpecBridge Proofs.SpecBridgeHolders.
Import ListNotations.

Theorem C05_substring_means_contiguous_occurrence : forall k t,
  substring k t = true <-> exists pre post, t = pre ++ k ++ post.
Proof. exact substring_spec. Qed.

(* the holder selects the posting list of a keyword exactly when the keyword occurs in the query text *)
Theorem C05_holder_selects_by_substring : forall fd fid vals v t,
  vals <> [] -> ac_query_text [32%N] v = POk t -> t <> [] ->
  exists ls, get_entries fd fid (HAc vals) v = POk ls /\
    forall l, In l ls <-> exists k, In (k, l) vals /\ kw_found k t = true /\ l <> [].
Proof. exact ac_get_entries_spec. Qed.

(* `kw_found` (Model/Index.v) is what automaton + keyword table find.  On strings that are valid UTF-8 -- the
   domain C05 is claimed for -- it is the substring rule.  Go strings that are not valid UTF-8 (items
   1114112 + byte in a model text) are read as the code does: []rune turns each offending byte into U+FFFD, and
   a keyword that holds one is never found (its table key is not the spelling the automaton reports). *)
Theorem C05_found_is_substring_on_valid_utf8 : forall k t,
  valid_text k = true -> valid_text t = true -> kw_found k t = substring k t.
Proof. exact kw_found_valid. Qed.
Theorem C05_found_in_general : forall k t,
  kw_found k t = true <-> valid_text k = true /\ exists pre post, runes t = pre ++ k ++ post.
Proof. exact kw_found_spec. Qed.
Theorem C05_invalid_keyword_never_found : forall k t, valid_text k = false -> kw_found k t = false.
Proof. exact kw_found_invalid. Qed.

(* the query text of several assigned strings is their join with one space *)
Theorem C05_texts_joined_by_one_space : forall a b rest,
  join_sep [32%N] (a :: b :: rest) = a ++ [32%N] ++ join_sep [32%N] (b :: rest).
Proof. intros. apply join_sep_cons. Qed.

(* END TO END over the executable model (Model/Index.v), fields configured with ANY of the three containers
   (default, pattern, range) mixed in one conjunction, both posting-list indexes: for any builder obtained
   by successful ConfigField calls, any accepted document set with distinct ids and any assignment whose
   values their containers accept, the concrete retrieval succeeds and reports, once each, exactly the
   conjunctions satisfied under the per-container hit rule `ehit`:  conj_sat' = on every field of the
   conjunction no exclude expression is hit and, if there are include expressions, one of them is.
   For a pattern field the hit rule is C05_pattern_hit_rule below.
   (conj_rwf: kept intervals lie inside the int64 range -- always true of Go values, the model's Z is
   unbounded; nil_slice_wf: a nil slice has no elements -- always true of Go values.)
   Domain note: the property speaks of NON-EMPTY keywords.  The model stores an empty keyword like any
   other (so it is hit by every non-empty text: IndexCorrectHolders.WitnessH.empty_keyword_counterexample);
   the real BuildIndex panics inside the third-party automaton builder on an empty keyword (DESIGN §7,
   observations) -- the correspondence runs use non-empty keywords only. *)
Theorem C05_any_container_index_exact : forall kind pol thr parsers cfgl st0 ds st os q,
  HoldersBuildInv.config_fields (new_builder kind pol thr parsers) cfgl = Some st0 ->
  add_documents false st0 ds = (st, os) -> Forall (eq AddOk) os -> NoDup (map d_id ds) ->
  (forall d cj, In d ds -> In cj (d_conjs d) -> NoDup (map fst cj)) ->
  (pol <> PolSkip \/ forall d cj, In d ds -> In cj (d_conjs d) ->
       HoldersBuildInv.conj_ok' parsers (HoldersBuildInv.cfg_of cfgl) cj = true) ->
  (forall d cj, In d ds -> In cj (d_conjs d) -> HoldersBuildInv.conj_rwf thr (HoldersBuildInv.cfg_of cfgl) cj) ->
  NoDup (map fst q) ->
  (forall f v, In (f, v) q -> IndexCorrectHolders.qv_ok (HoldersBuildInv.cfg_of cfgl f) (parsers f) v = true) ->
  (kind = IKGroups -> forall f v, In (f, v) q -> HoldersBuildInv.cfg_of cfgl f = CAc -> IndexCorrectHolders.nil_slice_wf v) ->
  exists hits, retrieve_hits (build_index st) q = ROk hits /\ NoDup (map snd hits) /\
    (forall d k cj cid, IndexCorrect.has_conj ds d k cj cid ->
       (In cid (map snd hits) <-> IndexCorrectHolders.conj_sat' parsers (HoldersBuildInv.cfg_of cfgl) q cj = true)) /\
    (forall h, In h hits -> fst h = Gen.IdsGen.ConjID_DocID (snd h) /\ exists d k cj, IndexCorrect.has_conj ds d k cj (snd h)).
Proof. exact IndexCorrectHolders.index_correct_holders. Qed.

(* the hit rule of a pattern field: the expression lists keywords ks, the assigned value gives the text t
   (one string, or the strings joined by one space), t is non-empty and some keyword occurs in it *)
Theorem C05_pattern_hit_rule : forall p v e,
  IndexCorrectHolders.ehit CAc p v e = true <->
  exists ks t, ac_parse_dict (e_val e) = POk ks /\ ac_query_text [32%N] v = POk t /\ t <> [] /\
               exists w, In w ks /\ kw_found w t = true.
Proof. exact IndexCorrectHolders.ehit_ac_iff. Qed.

(* AGAINST THE SPECIFICATION (Model/Spec.v) for builders with any mix of containers (Proofs/SpecBridgeHolders.v): the
   reported (document, position, size) triples are a permutation of sat_hits over the configured field table.
   doc_good' = values are Go values the model represents exactly AND lie in the specification's domain
   (doc_dom, a boolean: keywords non-empty; a range expression's interval representable, i.e. not `> MaxInt64`,
   `< MinInt64`, between [MaxInt64, MaxInt64] -- in particular every bound of magnitude <= 2^62);
   asg_good' = assigned values are supported; asg_dom_for = no assigned integer is MaxInt64 on a field with a `>`. *)
Theorem C05_hits_are_the_specifications_any_container : forall kind pol thr parsers cfgl st0 ds st os q,
  HoldersBuildInv.config_fields (new_builder kind pol thr parsers) cfgl = Some st0 ->
  add_documents false st0 ds = (st, os) -> Forall (eq AddOk) os -> NoDup (map d_id ds) ->
  (forall d cj, In d ds -> In cj (d_conjs d) -> NoDup (map fst cj)) ->
  (forall d, In d ds -> SpecBridgeHolders.doc_good' parsers (HoldersBuildInv.cfg_of cfgl) d) ->
  (pol <> PolSkip \/ forall d cj, In d ds -> In cj (d_conjs d) ->
       Spec.conj_sem (SpecBridgeHolders.cfg_fields parsers cfgl) parsers cj <> None) ->
  ((- two64 < thr)%Z \/ forall d cj, In d ds -> In cj (d_conjs d) -> HoldersBuildInv.conj_rwf thr (HoldersBuildInv.cfg_of cfgl) cj) ->
  NoDup (map fst q) -> SpecBridgeHolders.asg_good' parsers cfgl q ->
  SpecBridgeHolders.asg_dom_for (HoldersBuildInv.cfg_of cfgl) ds q ->
  (kind = IKGroups -> forall f v, In (f, v) q -> HoldersBuildInv.cfg_of cfgl f = CAc -> IndexCorrectHolders.nil_slice_wf v) ->
  exists hits spec_hits,
    retrieve_hits (build_index st) q = ROk hits /\
    Spec.sat_hits (SpecBridgeHolders.cfg_fields parsers cfgl) parsers pol Spec.pl_docok ds q = Some spec_hits /\
    Permutation.Permutation (map (fun h : hitrec => SpecBridge.triple (snd h)) hits) spec_hits.
Proof. exact SpecBridgeHolders.index_sat_hits_holders. Qed.

(* the hypotheses of the end-to-end theorem are met by a concrete builder with a pattern and a range field,
   three documents (kept interval, expanded between, `in`, include and exclude keywords) and two assignments,
   for which the concrete retrievals return [12] and [10] *)
Example C05_end_to_end_nonvacuous :
  NonVacuous.ex2_ok IKGroups = true /\ NonVacuous.ex2_ok ICompact = true /\
  (forall d cj, In d NonVacuous.ex2_docs -> In cj (d_conjs d) -> HoldersBuildInv.conj_rwf 256 (HoldersBuildInv.cfg_of NonVacuous.ex2_cfg) cj).
Proof. split; [exact NonVacuous.holders_hypotheses_met_kgroups | split; [exact NonVacuous.holders_hypotheses_met_compact | exact NonVacuous.ex2_ranges_inside_int64]]. Qed.

Example C05_nonvacuous :
  kw_found [98; 99]%N [97; 98; 99; 100]%N = true /\ kw_found [1114367]%N [1114367]%N = false /\
  kw_found [65533]%N [97; 1114367]%N = true /\
  substring [98; 99]%N [97; 98; 99; 100]%N = true /\ substring [98; 100]%N [97; 98; 99; 100]%N = false /\
  ac_query_text [32%N] (VSlice TSstring false [VStr [97]%N; VStr [98]%N]) = POk [97; 32; 98]%N.
Proof. vm_compute. repeat split. Qed.

(* non-vacuity of the specification-level theorem: every hypothesis discharged on a concrete builder with pattern,
   range and default fields, both index kinds *)
Example C05_spec_nonvacuous : forall k st os,
  add_documents false (SpecBridgeHolders.BridgeWitnessH.st0 k) SpecBridgeHolders.BridgeWitnessH.ds = (st, os) ->
  exists hits spec_hits,
    retrieve_hits (build_index st) IndexCorrectHolders.WitnessH.q1 = ROk hits /\
    Spec.sat_hits SpecBridgeHolders.BridgeWitnessH.fields IndexCorrectHolders.WitnessH.ps PolError Spec.pl_docok
      SpecBridgeHolders.BridgeWitnessH.ds IndexCorrectHolders.WitnessH.q1 = Some spec_hits /\
    Permutation.Permutation (map (fun h : hitrec => SpecBridge.triple (snd h)) hits) spec_hits.
Proof. exact SpecBridgeHolders.BridgeWitnessH.sat_hits_instance. Qed.

Print Assumptions C05_substring_means_contiguous_occurrence.
Print Assumptions C05_holder_selects_by_substring.
Print Assumptions C05_found_is_substring_on_valid_utf8.
Print Assumptions C05_found_in_general.
Print Assumptions C05_invalid_keyword_never_found.
Print Assumptions C05_texts_joined_by_one_space.
Print Assumptions C05_any_container_index_exact.
Print Assumptions C05_pattern_hit_rule.
Print Assumptions C05_hits_are_the_specifications_any_container.
