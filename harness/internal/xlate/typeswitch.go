package xlate

import (
	"fmt"
	"go/ast"
	"go/types"
	"sort"
	"strings"

	"golang.org/x/tools/go/packages"
)

// The fixed universe of Go type shapes the Coq model knows (Model/GoTypes.v, inductive gty).
var scalarNames = []string{"int", "int8", "int16", "int32", "int64", "uint", "uint8", "uint16", "uint32", "uint64",
	"float32", "float64", "string", "json.Number", "bool"}

func gtyName(s string) (string, bool) {
	s = strings.ReplaceAll(s, "byte", "uint8")
	s = strings.ReplaceAll(s, "encoding/json.Number", "json.Number")
	s = strings.ReplaceAll(s, "any", "interface{}")
	id := func(x string) (string, bool) {
		for _, n := range scalarNames {
			if n == x {
				return strings.ReplaceAll(strings.ReplaceAll(x, ".", ""), "json", "json"), true
			}
		}
		return "", false
	}
	switch {
	case s == "[]interface{}":
		return "TSiface", true
	case s == "[2]int64":
		return "TA2int64", true
	case strings.HasPrefix(s, "[]"):
		if n, ok := id(s[2:]); ok {
			return "TS" + n, true
		}
	default:
		if n, ok := id(s); ok {
			return "T" + n, true
		}
	}
	return "", false
}

var kindNames = map[string]bool{"Invalid": true, "Bool": true, "Int": true, "Int8": true, "Int16": true, "Int32": true, "Int64": true,
	"Uint": true, "Uint8": true, "Uint16": true, "Uint32": true, "Uint64": true, "Uintptr": true, "Float32": true, "Float64": true,
	"Complex64": true, "Complex128": true, "Array": true, "Chan": true, "Func": true, "Interface": true, "Map": true, "Ptr": true,
	"Pointer": true, "Slice": true, "String": true, "Struct": true, "UnsafePointer": true}

type swTarget struct {
	pkg  string
	fn   string // Recv_Name or Name
	coq  string // Coq identifier stem
	kind bool   // reflect.Kind switch instead of a type switch
}

var swTargets = []swTarget{
	{mod + "/parser", "CommonStrParser_ParseAssign", "common_ParseAssign", false},
	{mod + "/parser", "CommonStrParser_ParseValue", "common_ParseValue", false},
	{mod + "/parser", "CommonStrParser_allocInterfaceID", "common_allocInterfaceID", false},
	{mod + "/parser", "CommonStrParser_findInterfaceID", "common_findInterfaceID", false},
	{mod + "/parser", "ParseIntergers", "ParseIntergers", false},
	{mod + "/parser", "ParseIntegerNumber", "ParseIntegerNumber", true},
	{mod + "/parser", "NumberParser_ParseValue", "number_ParseValue", false},
	{mod + "/parser", "NumberRangeParser_ParseAssign", "numrange_ParseAssign", false},
	{mod + "/parser", "NumberRangeParser_ParseValue", "numrange_ParseValue", false},
	{mod + "/parser", "StrHashParser_ParseValue", "strhash_ParseValue", false},
	{mod + "/util", "NilInterface", "NilInterface", true},
	{mod + "/holder/ahoholder", "ParseAcMatchDict", "ParseAcMatchDict", false},
	{mod + "/holder/ahoholder", "BuildAcMatchContent", "BuildAcMatchContent", false},
	{mod + "/holder/rangeholder", "ParseBetween", "ParseBetween", false},
}

func findFunc(p *packages.Package, name string) *ast.FuncDecl {
	for _, f := range p.Syntax {
		for _, d := range f.Decls {
			fd, ok := d.(*ast.FuncDecl)
			if !ok || fd.Body == nil {
				continue
			}
			n := fd.Name.Name
			if fd.Recv != nil && len(fd.Recv.List) == 1 {
				n = recvName(p.TypesInfo.TypeOf(fd.Recv.List[0].Type)) + "_" + n
			}
			if n == name {
				return fd
			}
		}
	}
	return nil
}

func typeSwitchTables(pkgs map[string]*packages.Package) (string, []string) {
	var sb strings.Builder
	var problems []string
	sb.WriteString(header)
	sb.WriteString("From Coq Require Import String.\nFrom BE Require Import Model.GoTypes.\nLocal Open Scope string_scope.\n\n")
	for _, tg := range swTargets {
		p := pkgs[tg.pkg]
		var fd *ast.FuncDecl
		if p != nil {
			fd = findFunc(p, tg.fn)
		}
		var clauses [][]string
		var extra []string
		hasDefault := false
		nfound := 0
		if fd != nil {
			ast.Inspect(fd.Body, func(n ast.Node) bool {
				if nfound > 0 {
					return false
				}
				switch s := n.(type) {
				case *ast.TypeSwitchStmt:
					if tg.kind {
						return true
					}
					nfound++
					for _, c := range s.Body.List {
						cc := c.(*ast.CaseClause)
						if cc.List == nil {
							hasDefault = true
							continue
						}
						var cl []string
						for _, e := range cc.List {
							ty := p.TypesInfo.TypeOf(e)
							str := types.TypeString(ty, func(pk *types.Package) string { return pk.Name() })
							if id, ok := e.(*ast.Ident); ok && id.Name == "nil" {
								str = "nil"
							}
							if g, ok := gtyName(str); ok {
								cl = append(cl, g)
							} else {
								extra = append(extra, str)
							}
						}
						clauses = append(clauses, cl)
					}
					return false
				case *ast.SwitchStmt:
					if !tg.kind || s.Tag == nil {
						return true
					}
					call, ok := s.Tag.(*ast.CallExpr)
					if !ok {
						return true
					}
					sel, ok := call.Fun.(*ast.SelectorExpr)
					if !ok || sel.Sel.Name != "Kind" {
						return true
					}
					nfound++
					for _, c := range s.Body.List {
						cc := c.(*ast.CaseClause)
						if cc.List == nil {
							hasDefault = true
							continue
						}
						var cl []string
						for _, e := range cc.List {
							name := ""
							if se, ok := e.(*ast.SelectorExpr); ok {
								name = se.Sel.Name
							}
							if kindNames[name] {
								if name == "Pointer" {
									name = "Ptr"
								}
								cl = append(cl, "K"+name)
							} else {
								extra = append(extra, fmt.Sprint(e))
							}
						}
						clauses = append(clauses, cl)
					}
					return false
				}
				return true
			})
		}
		_ = hasDefault
		if nfound == 0 {
			problems = append(problems, "type switch not found: "+tg.fn)
			sb.WriteString(fmt.Sprintf("Definition sw_%s_untranslatable := tt.\n", tg.coq))
			// keep the model compiling: an empty table sends everything to default
			clauses = nil
		}
		// canonical clause order inside a clause (clause order itself is irrelevant to the model)
		elt := "gty"
		if tg.kind {
			elt = "gkind"
		}
		var rows []string
		for _, cl := range clauses {
			sort.Strings(cl)
			rows = append(rows, "["+strings.Join(cl, "; ")+"]")
		}
		sb.WriteString(fmt.Sprintf("Definition sw_%s : list (list %s) :=\n  [%s].\n", tg.coq, elt, strings.Join(rows, ";\n   ")))
		sort.Strings(extra)
		var ex []string
		for _, e := range extra {
			ex = append(ex, fmt.Sprintf("%q", e))
		}
		sb.WriteString(fmt.Sprintf("Definition sw_%s_extra : list string := [%s].\n\n", tg.coq, strings.Join(ex, "; ")))
	}
	return sb.String(), problems
}
