(* C11, model leg (M) + (S): the translated codecs (Gen/IdsGen.v) against the real ones. *)
From Coq Require Import List NArith ZArith Bool.
From BE Require Import Gen.IdsGen Corr.Common.
From BE Require Export Corr.SpecC11.
Import ListNotations.
Local Open Scope N_scope.

Definition model_ok (c : case) : bool :=
  match c with
  | CConj doc idx size impl =>
    let model := match NewConjID doc idx size with
                 | Some id => Some (id, (ConjID_DocID id, (ConjID_Index id, ConjID_Size id)))
                 | None => None end in
    match model, impl with
    | Some (a, (b, (c, d))), Some (a', (b', (c', d'))) => (a =? a') && (b =? b')%Z && (c =? c')%Z && (d =? d')%Z
    | None, None => true | _, _ => false end
  | CEntry c1 i1 c2 i2 e1 e2 g1 inc1 exc1 null1 =>
    (NewEntryID c1 i1 =? e1) && (NewEntryID c2 i2 =? e2) && (EntryID_GetConjID e1 =? g1) &&
    Bool.eqb (EntryID_IsInclude e1) inc1 && Bool.eqb (EntryID_IsExclude e1) exc1 &&
    Bool.eqb (EntryID_IsNULLEntry e1) null1
  | CRr idx doc impl =>
    let model := match NewConjunctionID idx doc with
                 | Some id => Some (id, (ConjunctionID_DocID id, ConjunctionID_Idx id))
                 | None => None end in
    match model, impl with
    | Some (a, (b, c)), Some (a', (b', c')) => (a =? a') && (b =? b')%Z && (c =? c')
    | None, None => true | _, _ => false end
  | CCast d u back =>
    (u64 (Z.to_N (d mod 18446744073709551616)) =? u) && (i64 (Z.of_N u) =? back)%Z
  end.

Definition check (c : case) : verdict :=
  let '(s, d, g) := spec_verdict c in mk_verdict (model_ok c) s d g.
Definition run (cs : list case) := check_all check cs.
