(* C10: history cases. *)
From BE Require Export Corr.CheckHist.
