module verifharness

go 1.22.0

toolchain go1.23.5

require (
	github.com/echoface/be_indexer v0.0.0
	golang.org/x/tools v0.29.0
)

require (
	github.com/RoaringBitmap/roaring v0.9.4 // indirect
	github.com/anknown/ahocorasick v0.0.0-20190904063843-d75dbd5169c0 // indirect
	github.com/anknown/darts v0.0.0-20151216065714-83ff685239e6 // indirect
	github.com/echoface/proximityhash v0.0.0-20230211105152-91366992edfe // indirect
	github.com/mmcloughlin/geohash v0.10.0 // indirect
	golang.org/x/mod v0.22.0 // indirect
	golang.org/x/sync v0.10.0 // indirect
	google.golang.org/protobuf v1.28.1 // indirect
)

replace github.com/echoface/be_indexer => /repo
