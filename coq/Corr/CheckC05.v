(* C05: end-to-end cases on all three index types (families E and R). *)
From BE Require Export Corr.CheckE2E.
