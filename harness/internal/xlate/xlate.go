// Package xlate regenerates coq/Gen/*.v from the current working tree of /repo.
//
// It translates the straight-line integer/bit subset of Go used by the id codecs into Gallina
// (statement by statement, inserting the 64-bit wrap at every arithmetic/conversion node),
// evaluates the numeric constants the model mentions, extracts the case tables of the type
// switches in the parsers and the write-sets of the retrieval/builder paths.
// Output is deterministic text: an unchanged tree yields byte-identical files.
package xlate

import (
	"fmt"
	"go/ast"
	"go/constant"
	"go/token"
	"go/types"
	"os"
	"path/filepath"
	"sort"
	"strings"

	"golang.org/x/tools/go/packages"
)

type tr struct {
	info *types.Info
	fset *token.FileSet
	errs []string
}

func (t *tr) fail(n ast.Node, msg string) string {
	t.errs = append(t.errs, fmt.Sprintf("%s: %s", t.fset.Position(n.Pos()), msg))
	return "UNTRANSLATABLE"
}

// representation class of a Go type: "Z" signed 64, "N" unsigned 64, "N8" uint8, "B" bool
func (t *tr) cls(ty types.Type) string {
	if ty == nil {
		return "?"
	}
	b, ok := ty.Underlying().(*types.Basic)
	if !ok {
		return "?"
	}
	switch b.Kind() {
	case types.Int, types.Int64, types.UntypedInt:
		return "Z"
	case types.Uint64, types.Uint:
		return "N"
	case types.Uint8:
		return "N8"
	case types.Bool, types.UntypedBool:
		return "B"
	}
	return "?"
}

func wrap(c, e string) string {
	switch c {
	case "Z":
		return "(i64 " + e + ")"
	case "N":
		return "(u64 " + e + ")"
	case "N8":
		return "(u8 " + e + ")"
	}
	return e
}

func lit(v constant.Value, c string) string {
	s := v.ExactString()
	switch c {
	case "Z":
		if strings.HasPrefix(s, "-") {
			return "(" + s + ")%Z"
		}
		return s + "%Z"
	case "N", "N8":
		return s + "%N"
	}
	return s
}

func (t *tr) expr(e ast.Expr) string {
	tv := t.info.Types[e]
	c := t.cls(tv.Type)
	if tv.Value != nil && (c == "Z" || c == "N" || c == "N8") {
		return lit(tv.Value, c)
	}
	switch x := e.(type) {
	case *ast.ParenExpr:
		return t.expr(x.X)
	case *ast.Ident:
		return x.Name
	case *ast.UnaryExpr:
		switch x.Op {
		case token.NOT:
			return "(negb " + t.expr(x.X) + ")"
		case token.SUB:
			if c == "Z" {
				return wrap(c, "(- "+t.expr(x.X)+")")
			}
		}
	case *ast.BinaryExpr:
		l, r := t.expr(x.X), t.expr(x.Y)
		lc := t.cls(t.info.Types[x.X].Type)
		sc := "%Z"
		if lc != "Z" {
			sc = "%N"
		}
		switch x.Op {
		case token.LAND:
			return "(" + l + " && " + r + ")"
		case token.LOR:
			return "(" + l + " || " + r + ")"
		case token.LSS:
			return "(" + l + " <? " + r + ")" + sc
		case token.LEQ:
			return "(" + l + " <=? " + r + ")" + sc
		case token.GTR:
			return "(" + r + " <? " + l + ")" + sc
		case token.GEQ:
			return "(" + r + " <=? " + l + ")" + sc
		case token.EQL:
			if lc == "B" {
				return "(Bool.eqb " + l + " " + r + ")"
			}
			return "(" + l + " =? " + r + ")" + sc
		case token.NEQ:
			if lc == "B" {
				return "(negb (Bool.eqb " + l + " " + r + "))"
			}
			return "(negb (" + l + " =? " + r + ")" + sc + ")"
		case token.ADD:
			if c == "Z" {
				return wrap(c, "("+l+" + "+r+")%Z")
			}
			return wrap(c, "("+l+" + "+r+")%N")
		case token.SUB:
			if c == "Z" {
				return wrap(c, "("+l+" - "+r+")%Z")
			}
			return wrap(c, "(Z.to_N ((Z.of_N "+l+" - Z.of_N "+r+") mod 18446744073709551616))")
		case token.OR:
			if c != "Z" {
				return "(N.lor " + l + " " + r + ")"
			}
		case token.AND:
			if c != "Z" {
				return "(N.land " + l + " " + r + ")"
			}
		case token.SHL:
			amt := t.shiftAmt(x.Y)
			if c == "Z" {
				return wrap(c, "(Z.shiftl "+l+" "+amt+"%Z)")
			}
			return wrap(c, "(N.shiftl "+l+" "+amt+"%N)")
		case token.SHR:
			amt := t.shiftAmt(x.Y)
			if c == "Z" {
				return "(Z.shiftr " + l + " " + amt + "%Z)"
			}
			return "(N.shiftr " + l + " " + amt + "%N)"
		}
	case *ast.CallExpr:
		if ftv, ok := t.info.Types[x.Fun]; ok && ftv.IsType() {
			arg := x.Args[0]
			ac := t.cls(t.info.Types[arg].Type)
			a := t.expr(arg)
			switch {
			case ac == c:
				return a
			case ac == "Z" && (c == "N" || c == "N8"):
				return wrap(c, "(Z.to_N ("+a+" mod 18446744073709551616))")
			case (ac == "N" || ac == "N8") && c == "Z":
				return wrap(c, "(Z.of_N "+a+")")
			case (ac == "N" || ac == "N8") && (c == "N" || c == "N8"):
				return wrap(c, a)
			}
			return t.fail(e, "conversion "+ac+"->"+c)
		}
		var name string
		var args []string
		switch f := x.Fun.(type) {
		case *ast.Ident:
			name = f.Name
		case *ast.SelectorExpr:
			if sel, ok := t.info.Selections[f]; ok {
				name = recvName(sel.Recv()) + "_" + f.Sel.Name
				args = append(args, t.expr(f.X))
			} else {
				name = f.Sel.Name
			}
		}
		if name == "" {
			return t.fail(e, "call")
		}
		for _, a := range x.Args {
			args = append(args, t.expr(a))
		}
		return "(" + name + " " + strings.Join(args, " ") + ")"
	}
	return t.fail(e, fmt.Sprintf("expr %T", e))
}

func (t *tr) shiftAmt(e ast.Expr) string {
	if tv := t.info.Types[e]; tv.Value != nil {
		return tv.Value.ExactString()
	}
	return t.fail(e, "non-constant shift")
}

func recvName(ty types.Type) string {
	if p, ok := ty.(*types.Pointer); ok {
		ty = p.Elem()
	}
	if n, ok := ty.(*types.Named); ok {
		return n.Obj().Name()
	}
	return "?"
}

func assigned(b *ast.BlockStmt) ([]string, bool) {
	m := map[string]bool{}
	for _, s := range b.List {
		a, ok := s.(*ast.AssignStmt)
		if !ok || a.Tok != token.ASSIGN || len(a.Lhs) != 1 {
			return nil, false
		}
		id, ok := a.Lhs[0].(*ast.Ident)
		if !ok {
			return nil, false
		}
		m[id.Name] = true
	}
	var r []string
	for k := range m {
		r = append(r, k)
	}
	sort.Strings(r)
	return r, true
}

func tuple(vs []string) string {
	if len(vs) == 1 {
		return vs[0]
	}
	return "(" + strings.Join(vs, ", ") + ")"
}

func isPanic(s ast.Stmt) bool {
	if x, ok := s.(*ast.ExprStmt); ok {
		if c, ok := x.X.(*ast.CallExpr); ok {
			if id, ok := c.Fun.(*ast.Ident); ok && id.Name == "panic" {
				return true
			}
		}
	}
	return false
}

// translate a statement list into an expression of type option T (partial) or T (total)
func (t *tr) stmts(list []ast.Stmt, partial bool, ind string) string {
	if len(list) == 0 {
		return "UNTRANSLATABLE_fallthrough"
	}
	s, rest := list[0], list[1:]
	ret := func(e string) string {
		if partial {
			return "Some " + e
		}
		return e
	}
	switch x := s.(type) {
	case *ast.ReturnStmt:
		if len(x.Results) == 2 { // (value, error)
			if id, ok := x.Results[1].(*ast.Ident); ok && id.Name == "nil" {
				return "Some " + t.expr(x.Results[0])
			}
			return "None"
		}
		if len(x.Results) == 1 {
			return ret(t.expr(x.Results[0]))
		}
	case *ast.ExprStmt:
		if isPanic(s) {
			return "None"
		}
	case *ast.AssignStmt:
		if len(x.Lhs) == 1 && len(x.Rhs) == 1 {
			if id, ok := x.Lhs[0].(*ast.Ident); ok {
				return "let " + id.Name + " := " + t.expr(x.Rhs[0]) + " in\n" + ind + t.stmts(rest, partial, ind)
			}
		}
	case *ast.IfStmt:
		if x.Init == nil && len(x.Body.List) > 0 {
			cond := t.expr(x.Cond)
			last := x.Body.List[len(x.Body.List)-1]
			_, isRet := last.(*ast.ReturnStmt)
			terminal := isRet || isPanic(last)
			if terminal && x.Else == nil {
				return "if " + cond + " then " + t.stmts(x.Body.List, partial, ind+"  ") + "\n" + ind + "else " + t.stmts(rest, partial, ind)
			}
			if !terminal && x.Else == nil {
				vs, ok := assigned(x.Body)
				if ok {
					body := ""
					for _, bs := range x.Body.List {
						a := bs.(*ast.AssignStmt)
						body += "let " + a.Lhs[0].(*ast.Ident).Name + " := " + t.expr(a.Rhs[0]) + " in "
					}
					pat := tuple(vs)
					if len(vs) > 1 {
						pat = "'" + pat
					}
					return "let " + pat + " := if " + cond + " then " + body + tuple(vs) + " else " + tuple(vs) + " in\n" + ind + t.stmts(rest, partial, ind)
				}
			}
		}
	}
	return t.fail(s, fmt.Sprintf("stmt %T", s))
}

func (t *tr) coqType(ty types.Type) string {
	switch t.cls(ty) {
	case "Z":
		return "Z"
	case "N", "N8":
		return "N"
	case "B":
		return "bool"
	}
	return "UNTRANSLATABLE_type"
}

func hasPanicOrErr(fd *ast.FuncDecl) bool {
	p := false
	ast.Inspect(fd, func(n ast.Node) bool {
		if c, ok := n.(*ast.CallExpr); ok {
			if id, ok := c.Fun.(*ast.Ident); ok && id.Name == "panic" {
				p = true
			}
		}
		return true
	})
	if fd.Type.Results != nil && len(fd.Type.Results.List) == 2 {
		p = true
	}
	return p
}

// Load loads the given packages of /repo with full syntax and types.
func Load(repo string, pats ...string) (map[string]*packages.Package, error) {
	cfg := &packages.Config{Mode: packages.LoadAllSyntax, Dir: repo}
	pkgs, err := packages.Load(cfg, pats...)
	if err != nil {
		return nil, err
	}
	m := map[string]*packages.Package{}
	for _, p := range pkgs {
		if len(p.Errors) > 0 {
			return nil, fmt.Errorf("package %s: %v", p.PkgPath, p.Errors[0])
		}
		m[p.PkgPath] = p
	}
	return m, nil
}

type funcSpec struct {
	pkg   string
	names []string
}

const mod = "github.com/echoface/be_indexer"

// translated function sets, in dependency order
var idFuncs = []funcSpec{
	{mod, []string{"ValidDocID", "ValidIdxOrSize", "NewConjID", "ConjID_Size", "ConjID_Index", "ConjID_DocID",
		"NewEntryID", "EntryID_IsExclude", "EntryID_IsInclude", "EntryID_GetConjID", "EntryID_IsNULLEntry"}},
	{mod + "/roaringidx", []string{"ValidRoaringIdxDocID", "NewConjunctionID", "ConjunctionID_DocID", "ConjunctionID_Idx"}},
}

func translateFuncs(p *packages.Package, want []string) (defs []string, errs []string) {
	t := &tr{info: p.TypesInfo, fset: p.Fset}
	wantSet := map[string]bool{}
	for _, w := range want {
		wantSet[w] = true
	}
	type item struct {
		file string
		pos  token.Pos
		name string
		text string
	}
	var out []item
	found := map[string]bool{}
	for _, f := range p.Syntax {
		for _, d := range f.Decls {
			fd, ok := d.(*ast.FuncDecl)
			if !ok || fd.Body == nil {
				continue
			}
			name := fd.Name.Name
			var params []string
			if fd.Recv != nil && len(fd.Recv.List) == 1 {
				rt := p.TypesInfo.TypeOf(fd.Recv.List[0].Type)
				name = recvName(rt) + "_" + name
				rn := "_"
				if len(fd.Recv.List[0].Names) == 1 {
					rn = fd.Recv.List[0].Names[0].Name
				}
				params = append(params, fmt.Sprintf("(%s : %s)", rn, t.coqType(rt)))
			}
			if !wantSet[name] {
				continue
			}
			found[name] = true
			nerr := len(t.errs)
			for _, fl := range fd.Type.Params.List {
				for _, n := range fl.Names {
					params = append(params, fmt.Sprintf("(%s : %s)", n.Name, t.coqType(p.TypesInfo.TypeOf(fl.Type))))
				}
			}
			text := ""
			if fd.Type.Results == nil || len(fd.Type.Results.List) == 0 {
				t.fail(fd, "no result")
			} else {
				partial := hasPanicOrErr(fd)
				rty := t.coqType(p.TypesInfo.TypeOf(fd.Type.Results.List[0].Type))
				if partial {
					rty = "option " + rty
				}
				body := t.stmts(fd.Body.List, partial, "  ")
				text = fmt.Sprintf("Definition %s %s : %s :=\n  %s.\n", name, strings.Join(params, " "), rty, body)
			}
			if len(t.errs) > nerr || strings.Contains(text, "UNTRANSLATABLE") {
				text = fmt.Sprintf("Definition %s_untranslatable := tt.\n", name)
			}
			out = append(out, item{t.fset.Position(fd.Pos()).Filename, fd.Pos(), name, text})
		}
	}
	for _, w := range want {
		if !found[w] {
			out = append(out, item{"~", 0, w, fmt.Sprintf("Definition %s_untranslatable := tt. (* function not found *)\n", w)})
			t.errs = append(t.errs, "function not found: "+w)
		}
	}
	// keep the requested (dependency) order
	order := map[string]int{}
	for i, w := range want {
		order[w] = i
	}
	sort.SliceStable(out, func(i, j int) bool { return order[out[i].name] < order[out[j].name] })
	for _, o := range out {
		defs = append(defs, o.text)
	}
	return defs, t.errs
}

func constDefs(p *packages.Package, prefix string) []string {
	t := &tr{info: p.TypesInfo, fset: p.Fset}
	var out []string
	scope := p.Types.Scope()
	for _, n := range scope.Names() {
		switch c := scope.Lookup(n).(type) {
		case *types.Const:
			cl := t.cls(c.Type())
			if (cl == "Z" || cl == "N") && c.Val().Kind() == constant.Int {
				out = append(out, fmt.Sprintf("Definition %s%s : %s := %s.", prefix, n, t.coqType(c.Type()), lit(c.Val(), cl)))
			}
		}
	}
	return out
}

// package-level `var X = <const int expr>`
func varConst(p *packages.Package, name string) (string, bool) {
	for _, f := range p.Syntax {
		for _, d := range f.Decls {
			gd, ok := d.(*ast.GenDecl)
			if !ok || gd.Tok != token.VAR {
				continue
			}
			for _, s := range gd.Specs {
				vs := s.(*ast.ValueSpec)
				for i, n := range vs.Names {
					if n.Name == name && i < len(vs.Values) {
						if tv, ok := p.TypesInfo.Types[vs.Values[i]]; ok && tv.Value != nil && tv.Value.Kind() == constant.Int {
							return tv.Value.ExactString(), true
						}
					}
				}
			}
		}
	}
	return "", false
}

// value of key `field` in the first composite literal inside function fn
func compositeField(p *packages.Package, fn, field string) (string, bool) {
	for _, f := range p.Syntax {
		for _, d := range f.Decls {
			fd, ok := d.(*ast.FuncDecl)
			if !ok || fd.Name.Name != fn || fd.Body == nil {
				continue
			}
			res, found := "", false
			ast.Inspect(fd.Body, func(n ast.Node) bool {
				kv, ok := n.(*ast.KeyValueExpr)
				if !ok || found {
					return true
				}
				if id, ok := kv.Key.(*ast.Ident); ok && id.Name == field {
					if tv, ok := p.TypesInfo.Types[kv.Value]; ok && tv.Value != nil {
						v := constant.ToInt(tv.Value)
						if v.Kind() == constant.Int {
							res, found = v.ExactString(), true
						}
					}
				}
				return true
			})
			return res, found
		}
	}
	return "", false
}

const header = `(* generated from /repo by /verif/harness (vh xlate) -- do not edit; regenerated on every run *)
From Coq Require Import NArith ZArith Bool List.
Import ListNotations.
Local Open Scope bool_scope.
`

// Run regenerates all files under outDir (coq/Gen). It returns the list of translation problems
// (which also materialise as *_untranslatable definitions, so that dependent proofs fail).
func Run(repo, outDir string) ([]string, error) {
	pkgs, err := Load(repo, "./...")
	if err != nil {
		return nil, err
	}
	var problems []string
	var sb strings.Builder
	sb.WriteString(header)
	sb.WriteString("Definition u64 (n : N) : N := (n mod 18446744073709551616)%N.\n")
	sb.WriteString("Definition u8 (n : N) : N := (n mod 256)%N.\n")
	sb.WriteString("Definition i64 (z : Z) : Z := ((z + 9223372036854775808) mod 18446744073709551616 - 9223372036854775808)%Z.\n")
	for _, fs := range idFuncs {
		p := pkgs[fs.pkg]
		if p == nil {
			return nil, fmt.Errorf("package %s not loaded", fs.pkg)
		}
		sb.WriteString(fmt.Sprintf("\n(* ---- package %s ---- *)\n", fs.pkg))
		for _, c := range constDefs(p, "") {
			sb.WriteString(c + "\n")
		}
		defs, errs := translateFuncs(p, fs.names)
		for _, d := range defs {
			sb.WriteString(d + "\n")
		}
		problems = append(problems, errs...)
	}
	if err := writeIfChanged(filepath.Join(outDir, "IdsGen.v"), sb.String()); err != nil {
		return nil, err
	}

	// constants that are not Go constants
	var cb strings.Builder
	cb.WriteString(header)
	root := pkgs[mod]
	if v, ok := varConst(root, "BetterToCacheMaxItemsCount"); ok {
		cb.WriteString("Definition BetterToCacheMaxItemsCount : Z := " + v + "%Z.\n")
	} else {
		cb.WriteString("Definition BetterToCacheMaxItemsCount_untranslatable := tt.\n")
		problems = append(problems, "BetterToCacheMaxItemsCount: not a constant initialiser")
	}
	if rh := pkgs[mod+"/holder/rangeholder"]; rh != nil {
		if v, ok := compositeField(rh, "NewRangeHolderOption", "RangeCvtValuesSize"); ok {
			cb.WriteString("Definition RangeCvtValuesSize : Z := " + v + "%Z.\n")
		} else {
			cb.WriteString("Definition RangeCvtValuesSize_untranslatable := tt.\n")
			problems = append(problems, "RangeCvtValuesSize: default not found")
		}
	}
	if err := writeIfChanged(filepath.Join(outDir, "ConstsGen.v"), cb.String()); err != nil {
		return nil, err
	}

	ts, tsProblems := typeSwitchTables(pkgs)
	problems = append(problems, tsProblems...)
	if err := writeIfChanged(filepath.Join(outDir, "TypeSwitchGen.v"), ts); err != nil {
		return nil, err
	}
	cg, cgProblems := cursorGen(pkgs)
	problems = append(problems, cgProblems...)
	if err := writeIfChanged(filepath.Join(outDir, "CursorGen.v"), cg); err != nil {
		return nil, err
	}
	rl, rlProblems := rangeLoopGen(pkgs)
	problems = append(problems, rlProblems...)
	if err := writeIfChanged(filepath.Join(outDir, "RangeLoopGen.v"), rl); err != nil {
		return nil, err
	}
	fp, fpProblems := footprint(pkgs)
	problems = append(problems, fpProblems...)
	if err := writeIfChanged(filepath.Join(outDir, "FootprintGen.v"), fp); err != nil {
		return nil, err
	}
	return problems, nil
}

func writeIfChanged(path, content string) error {
	if old, err := os.ReadFile(path); err == nil && string(old) == content {
		return nil
	}
	if err := os.MkdirAll(filepath.Dir(path), 0o755); err != nil {
		return err
	}
	return os.WriteFile(path, []byte(content), 0o644)
}
