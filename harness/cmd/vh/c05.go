package main

import (
	"encoding/json"
	"strings"
)

const c05Rule = "keyword sets of 1..8 keywords over an 8-rune alphabet (a b c space 日 é x y; overlapping, nested, prefix/suffix chains, duplicates, keywords containing the separator, 1..3-byte runes), query texts of 0..12 runes given as a string, a []string or a []interface{} of 1..3 texts (joined by one space); half of the cases over TWO pattern fields sharing one keyword set; one document per keyword (validates the automaton against substring semantics) and the separator corner (list assignments with empty parts, keywords beginning / ending with / consisting of the separator), texts containing several different keywords, and mixed documents (pattern include/exclude combined with default fields in one conjunction) on the k-groups, compact and roaring indexes. cached builds (cold, then served from a shared cache provider by fresh builders) of conjunctions mixing a short keyword list with a long ordinary expression; pattern holders whose different keyword sets coincide once sorted and joined by a space (two size groups, two fields); posting-list builders built twice without Reset, the later documents listing keywords known at the first build; Non-trivial = some query returns a non-empty proper subset of the documents; distinct = distinct input"

var acAlphabet = []string{"a", "b", "c", " ", "日", "é", "x", "ab"}

func acWord(r *Rand, n int) string {
	var sb strings.Builder
	for i := 0; i < n; i++ {
		sb.WriteString(pick(r, acAlphabet))
	}
	return sb.String()
}

func acKeywords(r *Rand) []string {
	n := 1 + r.Intn(8)
	var ks []string
	for i := 0; i < n; i++ {
		switch {
		case i > 0 && r.Chance(30): // prefix / suffix / nesting of an earlier keyword
			b := ks[r.Intn(len(ks))]
			switch r.Intn(4) {
			case 0:
				ks = append(ks, b+acWord(r, 1))
			case 1:
				ks = append(ks, acWord(r, 1)+b)
			case 2:
				rs := []rune(b)
				ks = append(ks, string(rs[:1+r.Intn(len(rs))]))
			default:
				ks = append(ks, b)
			}
		default:
			ks = append(ks, acWord(r, 1+r.Intn(4)))
		}
	}
	return ks
}

func acQueryValue(r *Rand, ks []string) TV {
	mk := func() string {
		s := acWord(r, r.Intn(8))
		if r.Chance(60) && len(ks) > 0 {
			s = s + ks[r.Intn(len(ks))] + acWord(r, r.Intn(3))
		}
		return s
	}
	switch r.Intn(4) {
	case 0:
		n := 1 + r.Intn(3)
		l := make([]TV, n)
		for i := range l {
			l[i] = tvStr(mk())
		}
		return tvSlice("[]string", l...)
	case 1:
		n := 1 + r.Intn(3)
		l := make([]TV, n)
		for i := range l {
			l[i] = tvStr(mk())
		}
		return tvList(l...)
	}
	return tvStr(mk())
}

func strsTV(r *Rand, ss []string) TV {
	l := make([]TV, len(ss))
	for i, s := range ss {
		l[i] = tvStr(s)
	}
	if len(ss) == 1 && r.Bool() {
		return l[0]
	}
	if r.Chance(30) {
		return tvList(l...)
	}
	return tvSlice("[]string", l...)
}

// acDocsQueries: a keyword set, documents over a pattern field (1) and a default field (0), and queries.
// perKeyword: half of the cases over TWO pattern fields sharing one keyword set; one document per keyword (validates the automaton against substring semantics).
// with acTwoPatternFields set, pattern expressions and texts are spread over fields 1 and 2 (both pattern fields)
var acTwoPatternFields bool

func acDocsQueries(r *Rand, perKeyword bool) ([]eDoc, []eQuery) {
	patField := func() int {
		if acTwoPatternFields && r.Bool() {
			return 2
		}
		return 1
	}
	i := 1
	if perKeyword {
		i = 0
	}
	ks := acKeywords(r)
	var docs []eDoc
	if i%2 == 0 { // one document per keyword: the automaton against substring semantics
		for k, kw := range ks {
			docs = append(docs, eDoc{ID: int64(k + 1), Cons: []eConj{{{F: 1, Inc: true, V: tvStr(kw)}}}})
		}
	} else {
		nd := 1 + r.Intn(5)
		for d := 0; d < nd; d++ {
			doc := eDoc{ID: int64(d+1) * int64(1-2*r.Intn(2))}
			for c := 1 + r.Intn(2); c > 0; c-- {
				var cj eConj
				for e := 1 + r.Intn(3); e > 0; e-- {
					if r.Chance(65) {
						m := 1 + r.Intn(3)
						var sub []string
						for j := 0; j < m; j++ {
							sub = append(sub, ks[r.Intn(len(ks))])
						}
						cj = append(cj, eExpr{F: patField(), Inc: r.Chance(60), V: strsTV(r, sub)})
					} else {
						cj = append(cj, eExpr{F: 0, Inc: r.Chance(70), V: intsShape(r, randVals(r, 1+r.Intn(2), 4))})
					}
				}
				doc.Cons = append(doc.Cons, cj)
			}
			docs = append(docs, doc)
		}
	}
	var qs []eQuery
	for q := 8 + r.Intn(8); q > 0; q-- {
		var a []eAssign
		if r.Chance(85) {
			a = append(a, eAssign{F: 1, V: acQueryValue(r, ks)})
		}
		if acTwoPatternFields && r.Chance(70) {
			a = append(a, eAssign{F: 2, V: acQueryValue(r, ks)})
		}
		if r.Chance(60) {
			a = append(a, eAssign{F: 0, V: tvInt("int", r.I64(1, 5))})
		}
		qs = append(qs, eQuery{A: a})
	}
	qs = append(qs, eQuery{}, eQuery{A: []eAssign{{F: 1, V: tvStr("")}}}, eQuery{A: []eAssign{{F: 1, V: tvSlice("[]string")}}})
	// texts containing several different keywords
	for k := 0; k < 3; k++ {
		a, b := ks[r.Intn(len(ks))], ks[r.Intn(len(ks))]
		qs = append(qs, eQuery{A: []eAssign{{F: 1, V: tvStr(acWord(r, r.Intn(2)) + a + acWord(r, r.Intn(3)) + b)}}},
			eQuery{A: []eAssign{{F: 1, V: tvStr(b + acWord(r, r.Intn(2)) + a)}}},
			eQuery{A: []eAssign{{F: 1, V: tvSlice("[]string", tvStr(b), tvStr(a))}, {F: 0, V: tvInt("int", r.I64(1, 5))}}})
	}
	return docs, qs
}

// the separator corner: list assignments with empty parts, keywords that begin / end with / consist of the separator
func acSeparatorCorner(add func(in interface{})) {
	kw := func(f int, inc bool, ss ...string) eExpr {
		l := make([]TV, len(ss))
		for i, s := range ss {
			l[i] = tvStr(s)
		}
		return eExpr{F: f, Inc: inc, V: tvSlice("[]string", l...)}
	}
	tag := eExpr{F: 0, Inc: true, V: tvSlice("[]int", tvInt("int", 1))}
	docs := []eDoc{
		// include and exclude on the same pattern field of one conjunction: exclusion wins wherever the keywords stand
		{ID: 11, Cons: []eConj{{kw(1, true, "ab"), kw(1, false, "cd")}}}, {ID: 12, Cons: []eConj{{kw(1, true, "b"), kw(1, false, "ab")}}},
		{ID: 13, Cons: []eConj{{kw(1, true, "xyz"), kw(1, false, "z")}}},
		{ID: 1, Cons: []eConj{{kw(1, true, " a"), tag}}},
		{ID: 2, Cons: []eConj{{kw(1, false, " a"), tag}}},
		{ID: 3, Cons: []eConj{{kw(1, true, "a")}}},
		{ID: 4, Cons: []eConj{{kw(1, true, "a ")}}},
		{ID: 5, Cons: []eConj{{kw(1, true, " ")}}},
		{ID: 6, Cons: []eConj{{kw(1, true, "a b", "b  a")}}},
		{ID: 7, Cons: []eConj{{kw(1, false, "  ")}, {kw(1, true, "b ", " b")}}},
	}
	var qs []eQuery
	for _, parts := range [][]string{{"cd ab"}, {"ab cd"}, {"cdab"}, {"ab b"}, {"xyz"}, {"z xyz"}, {"xy", "z"}, {"", "a"}, {"", "", "a"}, {"a", ""}, {"a", "", "b"}, {"", ""}, {""}, {" a"}, {"a"}, {"a", "b"}, {"b", "", "", "a"}, {"", "b", ""}, {"a ", " b"}, {" "}, {"", " "}} {
		l := make([]TV, len(parts))
		for i, s := range parts {
			l[i] = tvStr(s)
		}
		for _, v := range []TV{tvSlice("[]string", l...), tvList(l...)} {
			qs = append(qs, eQuery{A: []eAssign{{F: 1, V: v}, {F: 0, V: tvSlice("[]int", tvInt("int", 1))}}}, eQuery{A: []eAssign{{F: 1, V: v}}})
		}
		if len(parts) == 1 {
			qs = append(qs, eQuery{A: []eAssign{{F: 1, V: l[0]}, {F: 0, V: tvInt("int", 1)}}})
		}
	}
	add(eCase{Kind: "kgroups", Policy: "error", Configs: map[int]string{1: "ac_matcher"}, Docs: docs, Queries: qs})
	add(eCase{Kind: "compact", Policy: "error", Configs: map[int]string{1: "ac_matcher"}, Docs: docs, Queries: qs})
	c := rCase{Fields: []rField{{F: 0, Cont: "default"}, {F: 1, Cont: "ac_matcher"}}, Docs: docs}
	for i, q := range qs {
		c.Ops = append(c.Ops, rOp{S: 0, Op: "reset"}, rOp{S: 0, Op: []string{"retrieve", "docs"}[i%2], A: q.A}, rOp{S: 0, Op: "raw"})
	}
	add(c)
}

// acInvalidUTF8: keywords and texts that are not valid UTF-8.  The matcher works on []rune: every offending
// byte reads as U+FFFD, and a keyword holding one is stored under a spelling the automaton never reports -- it
// is never found (Model/Index.v kw_found); the roaring container used to panic on that lookup.
func acInvalidUTF8(add func(in interface{})) {
	kw := func(f int, inc bool, ss ...string) eExpr {
		l := make([]TV, len(ss))
		for i, s := range ss {
			l[i] = tvStr(s)
		}
		return eExpr{F: f, Inc: inc, V: tvSlice("[]string", l...)}
	}
	docs := []eDoc{
		{ID: 1, Cons: []eConj{{kw(1, true, "\xff")}}},
		{ID: 2, Cons: []eConj{{kw(1, true, "ab\xfe", "cd")}}},
		{ID: 3, Cons: []eConj{{kw(1, false, "\xff", "q\xc3"), {F: 0, Inc: true, V: tvSlice("[]int", tvInt("int", 1))}}}},
		{ID: 4, Cons: []eConj{{kw(1, true, "\uFFFD")}}},
		{ID: 5, Cons: []eConj{{kw(1, true, "é")}}},
		{ID: 6, Cons: []eConj{{kw(1, false, "\uFFFDz"), {F: 0, Inc: true, V: tvSlice("[]int", tvInt("int", 1))}}}},
	}
	var qs []eQuery
	for _, t := range []TV{tvStr("\xff"), tvStr("ab\xfe"), tvStr("cd"), tvStr("\uFFFD"), tvStr("x\xfey"), tvStr("é"), tvStr("q\xc3"), tvStr("ab"),
		tvStr("\xfez"), tvSlice("[]string", tvStr("\xff"), tvStr("cd")), tvList(tvStr("é"), tvStr("\xc3"))} {
		qs = append(qs, eQuery{A: []eAssign{{F: 1, V: t}}}, eQuery{A: []eAssign{{F: 1, V: t}, {F: 0, V: tvInt("int", 1)}}})
	}
	for _, kind := range []string{"kgroups", "compact"} {
		add(eCase{Kind: kind, Policy: "error", Configs: map[int]string{1: "ac_matcher"}, Docs: docs, Queries: qs})
	}
	c := rCase{Fields: []rField{{F: 0, Cont: "default"}, {F: 1, Cont: "ac_matcher"}}, Docs: docs}
	for i, q := range qs {
		c.Ops = append(c.Ops, rOp{S: 0, Op: "reset"}, rOp{S: 0, Op: []string{"retrieve", "docs"}[i%2], A: q.A}, rOp{S: 0, Op: "raw"})
	}
	add(c)
}

// acAllMultibyte: a pattern field whose keywords are ALL multi-byte, probed with texts that have fewer characters than
// the shortest keyword has bytes (and still contain it), and with long texts; include and exclude; with collector
func acAllMultibyte(add func(in interface{})) {
	kw := func(inc bool, ss ...string) eExpr {
		l := make([]TV, len(ss))
		for i, s := range ss {
			l[i] = tvStr(s)
		}
		return eExpr{F: 1, Inc: inc, V: tvSlice("[]string", l...)}
	}
	num := func(v int64) eExpr { return eExpr{F: 0, Inc: true, V: tvSlice("[]int", tvInt("int", v))} }
	docs := []eDoc{
		{ID: 7, Cons: []eConj{{kw(true, "红包"), num(1)}, {kw(true, "优惠券")}}},
		{ID: 8, Cons: []eConj{{kw(false, "色情")}, {kw(true, "红包", "抢"), num(2)}}},
		{ID: 9, Cons: []eConj{{kw(true, "优惠券", "色情片")}}},
	}
	var qs []eQuery
	for _, t := range []string{"发红包", "抢红包", "领优惠券", "红包", "色情片", "色", "包", "今天发红包和优惠券给大家", "没有关键词的长文本", "", "色情"} {
		qs = append(qs, eQuery{A: []eAssign{{F: 1, V: tvStr(t)}}}, eQuery{A: []eAssign{{F: 1, V: tvStr(t)}, {F: 0, V: tvInt("int", 1)}}}, eQuery{A: []eAssign{{F: 1, V: tvSlice("[]string", tvStr("领"), tvStr(t))}, {F: 0, V: tvInt("int", 2)}}})
	}
	for _, kind := range []string{"kgroups", "compact"} {
		add(eCase{Kind: kind, Policy: "error", Configs: map[int]string{1: "ac_matcher"}, Docs: docs, Queries: qs})
	}
	c := rCase{Fields: []rField{{F: 0, Cont: "default"}, {F: 1, Cont: "ac_matcher"}}, Docs: docs}
	for i, q := range qs {
		c.Ops = append(c.Ops, rOp{S: 0, Op: "reset"}, rOp{S: 0, Op: []string{"retrieve", "docs"}[i%2], A: q.A}, rOp{S: 0, Op: "raw"})
	}
	add(c)
}

func init() {
	props["C05"] = &propDef{
		header:    "From BE Require Import Corr.CheckC05.",
		headers:   map[string]string{"E": "From BE Require Import Corr.CheckE2E.", "R": "From BE Require Import Corr.CheckRr.", "C": "From BE Require Import Corr.CheckCache."},
		rule:      c05Rule,
		shardSize: 40,
		gen: func(tier string, r *Rand, add func(in interface{})) {
			n := 60
			if tier == "thorough" {
				n = 5000
			}
			acSeparatorCorner(add)
			acInvalidUTF8(add)
			acAllMultibyte(add)
			acRebuildCases(add)
			acCachedCases(add)
			acJoinedDictionaries(add)
			acLongListsShared(add)
			// a text the pattern field REFUSES (an untyped list holding a non-string) between good queries, on an index whose
			// pattern field has catch-all conjunctions (documents without an include on it)
			{
				kw := func(inc bool, ss ...string) eExpr {
					l := make([]TV, len(ss))
					for i, x := range ss {
						l[i] = tvStr(x)
					}
					return eExpr{F: 1, Inc: inc, V: tvSlice("[]string", l...)}
				}
				c := rCase{Fields: []rField{{F: 0, Cont: "default"}, {F: 1, Cont: "ac_matcher"}}}
				c.Docs = []eDoc{
					{ID: 1, Cons: []eConj{{kw(true, "big sale"), {F: 0, Inc: true, V: tvStr("sh")}}}},
					{ID: 2, Cons: []eConj{{{F: 0, Inc: true, V: tvStr("bj")}}}},
					{ID: 3, Cons: []eConj{{kw(false, "sale")}}},
					{ID: 4, Cons: []eConj{{kw(true, "hello"), {F: 0, Inc: false, V: tvStr("sh")}}}},
				}
				good := [][]eAssign{{{F: 1, V: tvStr("a big sale now")}, {F: 0, V: tvStr("sh")}}, {{F: 1, V: tvStr("hello world")}, {F: 0, V: tvStr("sh")}}, {{F: 1, V: tvStr("hello")}, {F: 0, V: tvStr("gz")}}}
				add(refusedQueryRounds(c, good, []eAssign{{F: 1, V: tvList(tvStr("big sale"), tvInt("int", 5))}, {F: 0, V: tvStr("sh")}}, 6))
			}
			acSecondBuild(add)
			for i := 0; i < n; i++ {
				acTwoPatternFields = i%4 == 1 || i%4 == 3 // two pattern fields: each must keep its own keywords
				docs, qs := acDocsQueries(r, i%2 == 0)
				acTwoPatternFields = false
				switch i % 3 {
				case 0, 1:
					c := eCase{Kind: []string{"kgroups", "compact"}[i%3], Policy: "error", Configs: map[int]string{1: "ac_matcher", 2: "ac_matcher"}, Docs: docs, Queries: qs}
					if i%5 == 0 {
						c = withPre(c)
					}
					add(c)
				default:
					c := rCase{Fields: []rField{{F: 0, Cont: "default"}, {F: 1, Cont: "ac_matcher"}, {F: 2, Cont: "ac_matcher"}}, Docs: docs}
					if len(docs) > 1 && i%2 == 0 { // add, build, add, build: keywords first seen after a build
						c.Rebuild = 1 + r.Intn(len(docs)-1)
					}
					for _, q := range qs {
						op := "retrieve"
						if r.Bool() {
							op = "docs"
						}
						c.Ops = append(c.Ops, rOp{S: 0, Op: "reset"}, rOp{S: 0, Op: op, A: q.A}, rOp{S: 0, Op: "raw"})
					}
					add(c)
				}
			}
		},
		exec: func(raw json.RawMessage) (execResult, error) {
			var probe struct {
				Fields json.RawMessage `json:"fields"`
				Cache  bool            `json:"cache"`
			}
			json.Unmarshal(raw, &probe)
			if probe.Cache {
				return execCache(raw)
			}
			if probe.Fields != nil {
				res, err := execRr(raw)
				res.Family = "R"
				return res, err
			}
			res, err := execE2E(raw)
			res.Family = "E"
			return res, err
		},
	}
}

// acCachedCases: builders with a cache provider (cold build, then builds served from the cache by fresh builders that
// share the provider): conjunctions that mix a pattern field holding FEW keywords with an ordinary expression long
// enough to have the whole conjunction cached, as include and as exclude, next to pattern expressions that are long
// enough themselves and to conjunctions that are not cached at all
func acCachedCases(add func(in interface{})) {
	ints := func(k, off int) TV {
		l := make([]TV, k)
		for i := range l {
			l[i] = tvInt("int", int64(off+i))
		}
		return tvSlice("[]int", l...)
	}
	kw := func(inc bool, ss ...string) eExpr {
		l := make([]TV, len(ss))
		for i, s := range ss {
			l[i] = tvStr(s)
		}
		return eExpr{F: 1, Inc: inc, V: tvSlice("[]string", l...)}
	}
	for _, kind := range []string{"kgroups", "compact"} {
		c := eCase{Kind: kind, Policy: "error", Configs: map[int]string{1: "ac_matcher"}}
		c.Docs = []eDoc{
			{ID: 1, Cons: []eConj{{kw(true, "alpha"), {F: 0, Inc: true, V: ints(5, 0)}}}},
			{ID: 2, Cons: []eConj{{kw(false, "beta", "gamma"), {F: 0, Inc: true, V: ints(4, 2)}}}},
			{ID: 3, Cons: []eConj{{kw(true, "al", "pha", "beta")}}},
			{ID: 4, Cons: []eConj{{{F: 0, Inc: true, V: ints(6, 0)}}, {kw(true, "delta")}}},
			{ID: -5, Cons: []eConj{{kw(true, "delta", "beta"), kw(false, "zz"), {F: 0, Inc: false, V: ints(3, 0)}}}},
		}
		for _, t := range []string{"alpha beta", "gamma", "zzz delta", "alpha", "be ta", ""} {
			for _, v := range []int64{0, 3, 5, 9} {
				c.Queries = append(c.Queries, eQuery{A: []eAssign{{F: 1, V: tvStr(t)}, {F: 0, V: tvInt("int", v)}}})
			}
		}
		add(cacheIn{Cache: true, Case: c, Thr: 2, Seed: 91, MissPct: 0, DropPct: 0})
		add(cacheIn{Cache: true, Case: c, Thr: 2, Seed: 191, MissPct: 0, DropPct: 0, Trunc: 60}) // some writes cut short: entries found with their payload lost
		add(cacheIn{Cache: true, Case: c, Thr: 2, Seed: 92, MissPct: 30, DropPct: 0, Retain: true})
	}
}

// acJoinedDictionaries: several pattern holders in one process (two size groups of one field; two pattern fields;
// both index kinds one after the other) whose DIFFERENT keyword sets are equal in number and read the same once
// sorted and joined by a space -- each holder must match with its own keywords
func acJoinedDictionaries(add func(in interface{})) {
	kw := func(f int, inc bool, ss ...string) eExpr {
		l := make([]TV, len(ss))
		for i, s := range ss {
			l[i] = tvStr(s)
		}
		return eExpr{F: f, Inc: inc, V: tvSlice("[]string", l...)}
	}
	txt := func(f int, s string) eAssign { return eAssign{F: f, V: tvStr(s)} }
	for _, kind := range []string{"kgroups", "compact"} {
		a := eCase{Kind: kind, Policy: "error", Configs: map[int]string{1: "ac_matcher"}}
		a.Docs = []eDoc{
			{ID: 1, Cons: []eConj{{kw(1, true, "big sale", "today")}}},
			{ID: 2, Cons: []eConj{{{F: 0, Inc: true, V: tvSlice("[]int", tvInt("int", 7))}, kw(1, true, "big", "sale today")}}},
			{ID: 3, Cons: []eConj{{{F: 0, Inc: true, V: tvSlice("[]int", tvInt("int", 7))}, {F: 3, Inc: true, V: tvStr("x")}, kw(1, false, "big sale today")}}},
		}
		for _, t := range []string{"a big house", "sale today only", "big sale", "today", "big sale today", "bigsale", "none"} {
			a.Queries = append(a.Queries, eQuery{A: []eAssign{{F: 0, V: tvInt("int", 7)}, txt(1, t)}}, eQuery{A: []eAssign{txt(1, t)}}, eQuery{A: []eAssign{{F: 0, V: tvInt("int", 7)}, txt(1, t), txt(3, "x")}})
		}
		add(a)
		b := eCase{Kind: kind, Policy: "error", Configs: map[int]string{1: "ac_matcher", 2: "ac_matcher"}}
		b.Docs = []eDoc{
			{ID: 1, Cons: []eConj{{kw(1, true, "new york", "times")}}},
			{ID: 2, Cons: []eConj{{kw(2, true, "new", "york times")}}},
			{ID: 3, Cons: []eConj{{kw(1, false, "times"), kw(2, true, "york times")}}},
		}
		for _, q := range [][2]string{{"hard times", "brand new"}, {"new york", "york times"}, {"new", "times"}, {"york times", "new york"}, {"", "new"}, {"times", ""}} {
			b.Queries = append(b.Queries, eQuery{A: []eAssign{txt(1, q[0]), txt(2, q[1])}}, eQuery{A: []eAssign{txt(1, q[0])}}, eQuery{A: []eAssign{txt(2, q[1])}})
		}
		add(b)
	}
}

// acSecondBuild: one posting-list builder, BuildIndex, more documents, BuildIndex (no Reset): the later documents list
// keywords the holder knew at the first build (their posting lists grow after a compile) next to new ones
func acSecondBuild(add func(in interface{})) {
	kw := func(inc bool, ss ...string) eExpr {
		l := make([]TV, len(ss))
		for i, s := range ss {
			l[i] = tvStr(s)
		}
		return eExpr{F: 1, Inc: inc, V: tvSlice("[]string", l...)}
	}
	for _, kind := range []string{"kgroups", "compact"} {
		for _, rebuild := range []int{4, 2} {
			c := eCase{Kind: kind, Policy: "error", Configs: map[int]string{1: "ac_matcher"}, Rebuild: rebuild}
			c.Docs = []eDoc{
				{ID: 1, Cons: []eConj{{kw(true, "red")}}}, {ID: 2, Cons: []eConj{{kw(true, "green")}}}, {ID: 3, Cons: []eConj{{kw(true, "blue", "red")}}}, {ID: 4, Cons: []eConj{{kw(false, "black")}}},
				{ID: 5, Cons: []eConj{{kw(true, "green")}}}, {ID: 6, Cons: []eConj{{kw(true, "red", "white")}}}, {ID: 7, Cons: []eConj{{kw(true, "blue")}}}, {ID: 8, Cons: []eConj{{kw(false, "black", "green")}}},
				{ID: -9, Cons: []eConj{{kw(true, "black")}, {kw(true, "green"), {F: 0, Inc: true, V: tvSlice("[]int", tvInt("int", 1))}}}},
			}
			for _, t := range []string{"a green box", "red", "blue and white", "black", "green black", "none", "white red"} {
				c.Queries = append(c.Queries, eQuery{A: []eAssign{{F: 1, V: tvStr(t)}}}, eQuery{A: []eAssign{{F: 1, V: tvStr(t)}, {F: 0, V: tvInt("int", 1)}}})
			}
			add(c)
		}
	}
}

// acLongListsShared: an expression listing 8..12 keywords that are new to its holder, then later conjunctions of the
// same holder that re-list one of them each (first, middle, last but one, last), as include and as exclude; every
// keyword is then queried alone (one-entry posting lists cut from one block must not grow into their neighbours)
func acLongListsShared(add func(in interface{})) {
	words := []string{"apple", "banana", "cherry", "grape", "lemon", "mango", "peach", "plum", "quince", "raisin", "sloe", "tangerine"}
	kw := func(inc bool, ss ...string) eExpr {
		l := make([]TV, len(ss))
		for i, s := range ss {
			l[i] = tvStr(s)
		}
		return eExpr{F: 1, Inc: inc, V: tvSlice("[]string", l...)}
	}
	tag := eExpr{F: 0, Inc: true, V: tvSlice("[]int", tvInt("int", 1))}
	for _, kind := range []string{"kgroups", "compact"} {
		for _, n := range []int{8, 9, 12} {
			for _, withTag := range []bool{true, false} {
				c := eCase{Kind: kind, Policy: "error", Configs: map[int]string{1: "ac_matcher"}}
				mk := func(id int64, e eExpr) eDoc {
					if withTag {
						return eDoc{ID: id, Cons: []eConj{{tag, e}}}
					}
					return eDoc{ID: id, Cons: []eConj{{e}}}
				}
				c.Docs = append(c.Docs, mk(1, kw(true, words[:n]...)))
				for i, k := range []int{0, n / 2, n - 2, n - 1} {
					c.Docs = append(c.Docs, mk(int64(2+i), kw(true, words[k])))
				}
				c.Docs = append(c.Docs, eDoc{ID: 9, Cons: []eConj{{tag, kw(false, words[1])}}}, mk(10, kw(true, words[2], "zucchini")))
				for _, w := range append(append([]string{}, words[:n]...), "zucchini", "none") {
					c.Queries = append(c.Queries, eQuery{A: []eAssign{{F: 0, V: tvInt("int", 1)}, {F: 1, V: tvStr("fresh " + w + " juice")}}})
				}
				add(c)
			}
		}
	}
}
