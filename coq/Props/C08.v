(* C08  A conjunction that fails to parse leaves no trace, under every policy.  Statements only.
   Model: Model/Index.v add_conj / add_document with wildcard_first = false (the repaired tree).
   The pinned tree registered the match-everything entry before parsing; see C08_refuted_on_pinned_tree. *)
From Coq Require Import List NArith ZArith Bool.
From BE Require Import Model.GoTypes Model.GoVal Model.Parsers Model.Index Proofs.BuilderProof Proofs.NoTrace.
From BE Require Gen.IdsGen Model.Spec Proofs.IndexCorrect Proofs.SpecBridge Proofs.IndexCorrectPolicy Proofs.HoldersBuildInv Proofs.IndexCorrectHolders Proofs.IndexCorrectHoldersPolicy Proofs.SpecBridgeHolders Proofs.SpecBridgeHoldersPolicy.
Import ListNotations.
Local Open Scope Z_scope.

(* no match-everything entry for a conjunction that does not parse: all policies, both index types,
   any container mix, any position/kind of the unparseable expression *)
Theorem C08_bad_conj_no_wildcard : forall d st i c st' out,
  add_conj false d st (i, c) = (st', out) ->
  (forall cid, IdsGen.NewConjID d i (calc_size c) = Some cid ->
     forall txs, snd (index_conj (ensure_cont st (calc_size c)) (calc_size c) cid c []) <> POk txs) ->
  b_z st' = b_z st.
Proof. exact bad_conj_no_wildcard. Qed.

(* NO POSTING ENTRY EITHER: the list of every entry id stored anywhere in the builder state (all posting
   lists of all holders of all containers, and the wildcard list) is literally unchanged by a conjunction
   that does not parse -- every policy, both index types, every container mix *)
Theorem C08_bad_conj_no_trace : forall d st i c st' out,
  add_conj false d st (i, c) = (st', out) ->
  (forall cid, IdsGen.NewConjID d i (calc_size c) = Some cid ->
     forall txs, snd (index_conj (ensure_cont st (calc_size c)) (calc_size c) cid c []) <> POk txs) ->
  st_entries st' = st_entries st.
Proof. exact bad_conj_no_trace. Qed.

(* whole documents, every policy: whatever AddDocument adds is an entry of a conjunction of that
   document THAT PARSES (so under Skip the other conjunctions are indexed exactly as their own entries,
   and a bad one contributes nothing) *)
Theorem C08_document_adds_only_entries_of_parsing_conjunctions : forall st d st' out,
  add_document false st d = (st', out) -> forall e, In e (st_entries st') ->
  In e (st_entries st) \/
  exists i c cid b, 0 <= i /\ nth_error (d_conjs d) (Z.to_nat i) = Some c /\
                    IdsGen.NewConjID (d_id d) i (calc_size c) = Some cid /\
                    conj_parses st c = true /\ e = IdsGen.NewEntryID cid b.
Proof. exact add_document_entries. Qed.

(* Error and (recovered) Panic abandon a document in the same state *)
Theorem C08_error_and_panic_leave_the_same_state : forall wf st1 st2 d,
  b_kind st2 = b_kind st1 -> b_thr st2 = b_thr st1 -> b_fields st2 = b_fields st1 ->
  b_conts st2 = b_conts st1 -> b_z st2 = b_z st1 -> b_parsers st2 = b_parsers st1 ->
  b_policy st1 = PolError -> b_policy st2 = PolPanic ->
  fst (add_document wf st2 d) = set_policy PolPanic (fst (add_document wf st1 d)) /\
  st_entries (fst (add_document wf st2 d)) = st_entries (fst (add_document wf st1 d)) /\
  out_ok (snd (add_document wf st2 d)) = out_ok (snd (add_document wf st1 d)).
Proof. exact error_panic_same_entries. Qed.

(* documents rejected outright (no conjunction, more than 255) leave the builder untouched *)
Theorem C08_rejected_unchanged : forall wf st d,
  d_conjs d = [] \/ 255 < Z.of_nat (length (d_conjs d)) -> add_document wf st d = (st, AddErr).
Proof. exact rejected_unchanged. Qed.

(* the pinned tree (wildcard registered first) violated the property: a size-0 conjunction whose only
   expression is an unparseable exclude leaves its match-everything entry under Skip *)
Definition bad_excl_doc : doc :=
  {| d_id := 5; d_conjs := [ [(0%N, [ {| e_incl := false; e_op := OpEQ; e_val := VBool true |} ])] ] |}.
Theorem C08_refuted_on_pinned_tree :
  let st0 := new_builder IKGroups PolSkip 256 (fun _ => PCommon) in
  b_z (fst (add_document true st0 bad_excl_doc)) <> [] /\ snd (add_document true st0 bad_excl_doc) = AddOk /\
  b_z (fst (add_document false st0 bad_excl_doc)) = [].
Proof. vm_compute. repeat split. discriminate. Qed.

(* THE PROPERTY END TO END, EVERY POLICY AND EVERY OUTCOME (Proofs/IndexCorrectPolicy.v; default-container fields):
   no hypothesis that documents are accepted or that conjunctions parse.  For any document list with distinct ids
   -- documents may be rejected (no / too many conjunctions, id out of range), may contain conjunctions that do
   not parse at any position -- under Skip, Error or Panic, the concrete retrieval on the built index reports, as
   a multiset of (document, position, size), EXACTLY the specification's sat_hits, where the specification
   (Model/Spec.v: doc_sem / indexed_conjs) says which conjunctions are indexed: under Skip every conjunction that
   denotes, under Error/Panic those before the document's first conjunction that does not.  So the index never
   returns a document for an assignment that satisfies none of its successfully indexed conjunctions.
   (sizes_ok: fewer than 256 include fields per conjunction, else the id codec refuses -- C11;
    skip_ok: under Skip no expression makes the holder PANIC rather than return an error, i.e. no operator
    other than `in` on a default-container field: the code panics on those under every policy, DESIGN §7.) *)
Theorem C08_hits_are_the_specifications_every_policy : forall kind pol thr parsers ds st os q,
  add_documents false (new_builder kind pol thr parsers) ds = (st, os) ->
  NoDup (map d_id ds) -> (forall d cj, In d ds -> In cj (d_conjs d) -> NoDup (map fst cj)) ->
  (forall d, In d ds -> SpecBridge.doc_good parsers d) ->
  IndexCorrectPolicy.sizes_ok ds -> IndexCorrectPolicy.skip_ok pol parsers ds ->
  NoDup (map fst q) -> SpecBridge.asg_good parsers q ->
  exists hits spec_hits,
    retrieve_hits (build_index st) q = ROk hits /\
    Spec.sat_hits [] parsers pol Spec.pl_docok ds q = Some spec_hits /\
    Permutation.Permutation (map (fun h : hitrec => SpecBridge.triple (snd h)) hits) spec_hits /\
    NoDup (map snd hits).
Proof. exact IndexCorrectPolicy.index_sat_hits_policy. Qed.

(* conjunction by conjunction: reported iff INDEXED (document admitted; the conjunction denotes; under Error/Panic so
   do all conjunctions before it) and satisfied; positions are those of the original document *)
Theorem C08_reported_iff_indexed_and_satisfied : forall kind pol thr parsers ds st os q,
  add_documents false (new_builder kind pol thr parsers) ds = (st, os) ->
  NoDup (map d_id ds) -> (forall d cj, In d ds -> In cj (d_conjs d) -> NoDup (map fst cj)) ->
  (forall d, In d ds -> SpecBridge.doc_good parsers d) ->
  IndexCorrectPolicy.sizes_ok ds -> IndexCorrectPolicy.skip_ok pol parsers ds ->
  NoDup (map fst q) -> SpecBridge.asg_good parsers q ->
  exists hits, retrieve_hits (build_index st) q = ROk hits /\ NoDup (map snd hits) /\
    (forall d k cj cid, IndexCorrect.has_conj ds d k cj cid ->
       (In cid (map snd hits) <-> IndexCorrectPolicy.s_indexed pol parsers d k cj /\ IndexCorrectPolicy.sat_spec parsers q cj)) /\
    (forall d k cj, In d ds -> IndexCorrectPolicy.s_indexed pol parsers d k cj -> exists cid, IndexCorrect.has_conj ds d k cj cid) /\
    (forall h, In h hits -> fst h = IdsGen.ConjID_DocID (snd h) /\
       exists d k cj, IndexCorrect.has_conj ds d k cj (snd h) /\ IndexCorrectPolicy.s_indexed pol parsers d k cj /\
                      IndexCorrectPolicy.sat_spec parsers q cj).
Proof. exact IndexCorrectPolicy.index_correct_policy. Qed.

(* what AddDocument answers: an error for a document without / with too many conjunctions, a panic for an id out of
   range, success when every conjunction denotes, else what the policy says (Skip: success) *)
Theorem C08_outcomes : forall kind pol thr parsers ds st os,
  add_documents false (new_builder kind pol thr parsers) ds = (st, os) ->
  (forall d, In d ds -> SpecBridge.doc_good parsers d) -> IndexCorrectPolicy.sizes_ok ds -> IndexCorrectPolicy.all_eq ds ->
  os = map (IndexCorrectPolicy.spec_out pol parsers) ds.
Proof. exact IndexCorrectPolicy.outcomes_policy_eq. Qed.

(* under Skip the documents' other conjunctions behave exactly as if the bad ones had not been supplied: the index
   built from the documents with their unparseable conjunctions removed returns the same documents for every query *)
Theorem C08_skip_as_if_not_supplied : forall kind thr parsers ds st os st' os' q,
  add_documents false (new_builder kind PolSkip thr parsers) ds = (st, os) ->
  add_documents false (new_builder kind PolSkip thr parsers) (map (IndexCorrectPolicy.strip parsers) ds) = (st', os') ->
  NoDup (map d_id ds) -> (forall d cj, In d ds -> In cj (d_conjs d) -> NoDup (map fst cj)) ->
  (forall d, In d ds -> Z.of_nat (length (d_conjs d)) <= 255) ->
  (forall d, In d ds -> SpecBridge.doc_good parsers d) ->
  IndexCorrectPolicy.sizes_ok ds -> IndexCorrectPolicy.skip_ok PolSkip parsers ds ->
  NoDup (map fst q) -> SpecBridge.asg_good parsers q ->
  retrieve (build_index st') q = retrieve (build_index st) q.
Proof. exact IndexCorrectPolicy.skip_strip_retrieve_spec. Qed.

(* documents rejected outright leave no trace: any start state, either tree, every query *)
Theorem C08_rejected_documents_leave_no_trace : forall wf st0 ds q,
  retrieve_hits (build_index (fst (add_documents wf st0 (filter Spec.pl_docok ds)))) q =
  retrieve_hits (build_index (fst (add_documents wf st0 ds))) q /\
  retrieve (build_index (fst (add_documents wf st0 (filter Spec.pl_docok ds)))) q =
  retrieve (build_index (fst (add_documents wf st0 ds))) q.
Proof. exact IndexCorrectPolicy.rejected_no_trace_retrieve. Qed.

(* the same for builders with any mix of default, pattern and range containers, against the per-container hit rule
   (xm_indexed: the conjunction parses and, under Error/Panic, so do the ones before it) *)
Theorem C08_any_container_every_policy : forall kind pol thr parsers cfgl st0 ds st os q,
  HoldersBuildInv.config_fields (new_builder kind pol thr parsers) cfgl = Some st0 ->
  add_documents false st0 ds = (st, os) -> NoDup (map d_id ds) ->
  (forall d cj, In d ds -> In cj (d_conjs d) -> NoDup (map fst cj)) ->
  (forall d cj, In d ds -> In cj (d_conjs d) -> HoldersBuildInv.conj_rwf thr (HoldersBuildInv.cfg_of cfgl) cj) ->
  NoDup (map fst q) ->
  (forall f v, In (f, v) q -> IndexCorrectHolders.qv_ok (HoldersBuildInv.cfg_of cfgl f) (parsers f) v = true) ->
  (kind = IKGroups -> forall f v, In (f, v) q -> HoldersBuildInv.cfg_of cfgl f = CAc -> IndexCorrectHolders.nil_slice_wf v) ->
  let cres := IndexCorrectHoldersPolicy.gconj_res thr parsers (HoldersBuildInv.cfg_of cfgl) in
  os = IndexCorrectPolicy.xouts pol cres ds /\
  exists hits, retrieve_hits (build_index st) q = ROk hits /\ NoDup (map snd hits) /\
    (forall x, In x (map snd hits) <->
       exists cj, In (x, cj) (IndexCorrectPolicy.xidb pol cres ds) /\
                  IndexCorrectHolders.conj_sat' parsers (HoldersBuildInv.cfg_of cfgl) q cj = true) /\
    (forall d k cj cid, IndexCorrect.has_conj ds d k cj cid ->
       (In cid (map snd hits) <-> IndexCorrectPolicy.xm_indexed pol cres d k cj /\
                                  IndexCorrectHolders.conj_sat' parsers (HoldersBuildInv.cfg_of cfgl) q cj = true)) /\
    (forall h, In h hits -> fst h = IdsGen.ConjID_DocID (snd h) /\
       exists d k cj, IndexCorrect.has_conj ds d k cj (snd h) /\ IndexCorrectPolicy.xm_indexed pol cres d k cj /\
                      IndexCorrectHolders.conj_sat' parsers (HoldersBuildInv.cfg_of cfgl) q cj = true).
Proof. exact IndexCorrectHoldersPolicy.index_correct_holders_policy. Qed.

(* THE FULL STATEMENT, any container mix, every policy, every outcome, AGAINST THE SPECIFICATION (see Props/C01.v for the
   reading of the hypotheses): the built index reports exactly the specification's sat_hits ... *)
Theorem C08_full_statement : forall kind pol thr parsers cfgl st0 ds st os q,
  HoldersBuildInv.config_fields (new_builder kind pol thr parsers) cfgl = Some st0 ->
  add_documents false st0 ds = (st, os) ->
  NoDup (map d_id ds) ->
  (forall d cj, In d ds -> In cj (d_conjs d) -> NoDup (map fst cj)) ->
  (forall d, In d ds -> SpecBridgeHoldersPolicy.doc_ok parsers cfgl d) ->
  IndexCorrectPolicy.sizes_ok ds ->
  SpecBridgeHoldersPolicy.skip_ok2 pol (SpecBridgeHolders.cfg_fields parsers cfgl) parsers ds ->
  ((- GoVal.two64 < thr)%Z \/
   forall d cj, In d ds -> In cj (d_conjs d) ->
     Spec.conj_sem (SpecBridgeHolders.cfg_fields parsers cfgl) parsers cj <> None ->
     HoldersBuildInv.conj_rwf thr (HoldersBuildInv.cfg_of cfgl) cj) ->
  NoDup (map fst q) ->
  SpecBridgeHolders.asg_good' parsers cfgl q ->
  SpecBridgeHoldersPolicy.asg_dom_den parsers cfgl ds q ->
  (kind = IKGroups -> forall f v, In (f, v) q -> HoldersBuildInv.cfg_of cfgl f = CAc -> IndexCorrectHolders.nil_slice_wf v) ->
  exists hits spec_hits,
    retrieve_hits (build_index st) q = ROk hits /\
    Spec.sat_hits (SpecBridgeHolders.cfg_fields parsers cfgl) parsers pol Spec.pl_docok ds q = Some spec_hits /\
    Permutation.Permutation (map (fun h : hitrec => SpecBridge.triple (snd h)) hits) spec_hits /\
    NoDup (map snd hits).
Proof. exact SpecBridgeHoldersPolicy.index_sat_hits_holders_policy. Qed.

(* ... and AddDocument answers exactly what the specification predicts (no hypothesis on operators or policy):
   error for no / too many conjunctions, panic for an id out of range, else the verdict of the first conjunction that
   does not denote under the policy (Skip: continue; Error: error; Panic: panic; an operator the container does not
   support: panic under every policy), else success *)
Theorem C08_outcomes_any_container : forall kind pol thr parsers cfgl st0 ds st os,
  HoldersBuildInv.config_fields (new_builder kind pol thr parsers) cfgl = Some st0 ->
  add_documents false st0 ds = (st, os) ->
  (forall d, In d ds -> SpecBridgeHoldersPolicy.doc_ok parsers cfgl d) ->
  IndexCorrectPolicy.sizes_ok ds ->
  ((- GoVal.two64 < thr)%Z \/
   forall d cj, In d ds -> In cj (d_conjs d) ->
     Spec.conj_sem (SpecBridgeHolders.cfg_fields parsers cfgl) parsers cj <> None ->
     HoldersBuildInv.conj_rwf thr (HoldersBuildInv.cfg_of cfgl) cj) ->
  os = map (SpecBridgeHoldersPolicy.spec_out' pol (SpecBridgeHolders.cfg_fields parsers cfgl) parsers) ds.
Proof. exact SpecBridgeHoldersPolicy.outcomes_holders_policy_exact. Qed.

(* non-vacuity: five documents (an unparseable middle conjunction, an unparseable first conjunction, an id out of
   range, no conjunctions, a clean one) meet every hypothesis, for every index kind and policy *)
Example C08_nonvacuous : forall kind pol st os,
  add_documents false (new_builder kind pol 256 IndexCorrectPolicy.PolicyWitness.ps) IndexCorrectPolicy.PolicyWitness.docs = (st, os) ->
  (exists hits spec_hits,
     retrieve_hits (build_index st) IndexCorrectPolicy.PolicyWitness.qq = ROk hits /\
     Spec.sat_hits [] IndexCorrectPolicy.PolicyWitness.ps pol Spec.pl_docok IndexCorrectPolicy.PolicyWitness.docs IndexCorrectPolicy.PolicyWitness.qq = Some spec_hits /\
     Permutation.Permutation (map (fun h : hitrec => SpecBridge.triple (snd h)) hits) spec_hits /\ NoDup (map snd hits)) /\
  os = map (IndexCorrectPolicy.spec_out pol IndexCorrectPolicy.PolicyWitness.ps) IndexCorrectPolicy.PolicyWitness.docs.
Proof. exact IndexCorrectPolicy.PolicyWitness.applies. Qed.

Print Assumptions C08_bad_conj_no_wildcard.
Print Assumptions C08_bad_conj_no_trace.
Print Assumptions C08_document_adds_only_entries_of_parsing_conjunctions.
Print Assumptions C08_error_and_panic_leave_the_same_state.
Print Assumptions C08_rejected_unchanged.
Print Assumptions C08_refuted_on_pinned_tree.
Print Assumptions C08_hits_are_the_specifications_every_policy.
Print Assumptions C08_reported_iff_indexed_and_satisfied.
Print Assumptions C08_outcomes.
Print Assumptions C08_skip_as_if_not_supplied.
Print Assumptions C08_rejected_documents_leave_no_trace.
Print Assumptions C08_any_container_every_policy.
Print Assumptions C08_full_statement.
Print Assumptions C08_outcomes_any_container.
