(* Shared helpers of the correspondence check.  A check maps a case (inputs + the observables the
   real code produced) to a verdict:
     flags bit 0 (1): model disagrees with the implementation        (M)
     flags bit 1 (2): implementation disagrees with the specification (S)
     flags bit 2 (4): the case lies outside the domain of the property's theorem
   sig: a small number naming the defect class/call site of an (S) failure (0 = none); the
   driver looks it up in KNOWN_FINDINGS.jsonl. *)
From Coq Require Import List NArith ZArith Bool.
Import ListNotations.
Local Open Scope N_scope.

Record verdict := { v_flags : N; v_sig : N }.
Definition ok_verdict := {| v_flags := 0; v_sig := 0 |}.
Definition mk_verdict (m_ok s_ok in_domain : bool) (sig : N) : verdict :=
  {| v_flags := (if m_ok then 0 else 1) + (if s_ok then 0 else 2) + (if in_domain then 0 else 4);
     v_sig := if s_ok then 0 else sig |}.

Fixpoint run_checks {C} (chk : C -> verdict) (i : N) (cs : list C) : N * list (N * N * N) :=
  match cs with
  | [] => (0, [])
  | c :: cs' =>
    let v := chk c in
    let '(nout, rest) := run_checks chk (N.succ i) cs' in
    let nout' := if N.testbit (v_flags v) 2 then N.succ nout else nout in
    if (N.land (v_flags v) 3 =? 0) then (nout', rest) else (nout', (i, v_flags v, v_sig v) :: rest)
  end.
(* (number of cases evaluated, number outside the theorem's domain, failing cases) *)
Definition check_all {C} (chk : C -> verdict) (cs : list C) : N * N * list (N * N * N) :=
  let '(nout, bad) := run_checks chk 0 cs in (N.of_nat (length cs), nout, bad).

Definition eqb_option {A} (eqb : A -> A -> bool) (a b : option A) : bool :=
  match a, b with Some x, Some y => eqb x y | None, None => true | _, _ => false end.
Fixpoint eqb_list {A} (eqb : A -> A -> bool) (a b : list A) : bool :=
  match a, b with
  | [], [] => true
  | x :: a', y :: b' => eqb x y && eqb_list eqb a' b'
  | _, _ => false
  end.

(* insertion sort of Z / N lists (canonicalisation of set-valued observables) *)
Fixpoint insZ (x : Z) (l : list Z) : list Z :=
  match l with [] => [x] | y :: l' => if (x <=? y)%Z then x :: l else y :: insZ x l' end.
Definition sortZ (l : list Z) : list Z := fold_right insZ [] l.
Fixpoint insN (x : N) (l : list N) : list N :=
  match l with [] => [x] | y :: l' => if x <=? y then x :: l else y :: insN x l' end.
Definition sortN (l : list N) : list N := fold_right insN [] l.
Fixpoint dedupZ (l : list Z) : list Z :=   (* on a sorted list *)
  match l with
  | x :: ((y :: _) as l') => if (x =? y)%Z then dedupZ l' else x :: dedupZ l'
  | _ => l
  end.
Fixpoint dedupN (l : list N) : list N :=
  match l with
  | x :: ((y :: _) as l') => if x =? y then dedupN l' else x :: dedupN l'
  | _ => l
  end.
Definition setZ (l : list Z) : list Z := dedupZ (sortZ l).
Definition setN (l : list N) : list N := dedupN (sortN l).
