(* Go values as the library sees them through interface{}: the shapes the parsers and holders
   distinguish, plus a catch-all for everything else.  Hand written.

   Modelled, not verified (see DESIGN §9): fmt's %v on integers (decimal) and strings; the %v text
   of a float is an attribute supplied with the value (f_text); uint64(float)/int64(float) on
   amd64 for |integer part| < 2^63; strconv.ParseInt (base 10, 64 bit); strconv.ParseFloat only on
   the plain decimal grammar [+-]digits[.digits] with |integer part| < 2^53;
   reflect.Value.IsNil panics on kinds that cannot be nil. *)
From Coq Require Import List NArith ZArith Bool String Ascii DecimalString DecimalZ.
From BE Require Import Model.GoTypes.
Import ListNotations.
Local Open Scope Z_scope.

(* strings are sequences of Unicode code points.  A Go string that is not valid UTF-8 is carried with
   each offending byte b as the item 1114112 + b (above every code point): `valid_text` says there is
   none.  Only what the BUILD does with such a string is modelled (it is an opaque symbol for ids and
   keyword tables; the cache codec refuses it: Model/Cache.v encodable); the pattern matcher's rune view
   of it is not, and the correspondence check never puts one into a query text. *)
Definition text := list N.
Definition valid_text (t : text) : bool := forallb (fun c => (c <? 1114112)%N) t.
Definition text_eqb (a b : text) : bool :=
  (fix go (a b : text) := match a, b with
     | [], [] => true | x :: a', y :: b' => N.eqb x y && go a' b' | _, _ => false end) a b.

(* decimal rendering of an integer: what %v / %d print *)
Definition dec_text (z : Z) : text :=
  map N_of_ascii (list_ascii_of_string (NilZero.string_of_int (Z.to_int z))).

Inductive ikind := KI | KI8 | KI16 | KI32 | KI64 | KU | KU8 | KU16 | KU32 | KU64.
Definition ikind_signed (k : ikind) : bool :=
  match k with KI | KI8 | KI16 | KI32 | KI64 => true | _ => false end.

(* a float as far as the library looks at it *)
Inductive fcls := FFinite | FNaN | FPosInf | FNegInf.
Record fl := { f_ip : Z;          (* integer part, truncated toward zero (finite values) *)
               f_frac : bool;     (* has a fractional part *)
               f_cls : fcls;
               f_text : text }.   (* fmt.Sprintf("%v", f) *)

Inductive gval :=
| VNil                                              (* the nil interface *)
| VInt (k : ikind) (z : Z)
| VFloat (is32 : bool) (f : fl)
| VStr (s : text)
| VJson (s : text)                                  (* json.Number *)
| VBool (b : bool)
| VSlice (t : gty) (isnil : bool) (vs : list gval)  (* typed slice of scalars; t is its (slice) type *)
| VList (isnil : bool) (vs : list gval)             (* []interface{} *)
| VArr (t : gty) (vs : list gval)                   (* fixed-size array *)
| VOther (t : gty) (isnil : bool).                  (* map, pointer, chan, func, struct, complex, other slices *)

Definition ty_of_ikind (k : ikind) : gty :=
  match k with KI => Tint | KI8 => Tint8 | KI16 => Tint16 | KI32 => Tint32 | KI64 => Tint64
             | KU => Tuint | KU8 => Tuint8 | KU16 => Tuint16 | KU32 => Tuint32 | KU64 => Tuint64 end.

Definition type_of (v : gval) : gty :=
  match v with
  | VNil => Tnil
  | VInt k _ => ty_of_ikind k
  | VFloat true _ => Tfloat32 | VFloat false _ => Tfloat64
  | VStr _ => Tstring | VJson _ => TjsonNumber | VBool _ => Tbool
  | VSlice t _ _ => t | VList _ _ => TSiface | VArr t _ => t | VOther t _ => t
  end.

Definition is_nil_value (v : gval) : bool :=
  match v with VSlice _ n _ => n | VList n _ => n | VOther _ n => n | _ => false end.

(* outcomes of library entry points *)
Inductive pres (A : Type) :=
| POk (a : A) | PErr | PPanic | PDiverge
| PUnmodelled.      (* the input leaves the modelled fragment of strconv/float conversion *)
Arguments POk {A} a. Arguments PErr {A}. Arguments PPanic {A}. Arguments PDiverge {A}. Arguments PUnmodelled {A}.

Definition pbind {A B} (r : pres A) (f : A -> pres B) : pres B :=
  match r with POk a => f a | PErr => PErr | PPanic => PPanic | PDiverge => PDiverge | PUnmodelled => PUnmodelled end.
Fixpoint pmap_list {A B} (f : A -> pres B) (l : list A) : pres (list B) :=
  match l with
  | [] => POk []
  | x :: l' => pbind (f x) (fun y => pbind (pmap_list f l') (fun ys => POk (y :: ys)))
  end.

(* reflect.Value.IsNil: defined on chan, func, interface, map, pointer, slice, unsafe pointer; panics otherwise *)
Definition reflect_is_nil (v : gval) : option bool :=
  match kind_of (type_of v) with
  | KChan | KFunc | KInterface | KMap | KPtr | KSlice | KUnsafePointer => Some (is_nil_value v)
  | _ => None
  end.

(* ---- integer conversions ---- *)
Definition two64 : Z := 18446744073709551616.
Definition two63 : Z := 9223372036854775808.
Definition wrap_i64 (z : Z) : Z := (z + two63) mod two64 - two63.
Definition wrap_u64 (z : Z) : Z := z mod two64.

(* uint64(f), int64(f) on amd64, inside |ip| < 2^63; None = outside the modelled fragment *)
Definition float_to_u64 (f : fl) : option Z :=
  match f_cls f with
  | FFinite => if (Z.abs (f_ip f) <? two63) then Some (wrap_u64 (f_ip f)) else None
  | _ => None
  end.
Definition float_to_i64 (f : fl) : option Z :=
  match f_cls f with
  | FFinite => if (Z.abs (f_ip f) <? two63) then Some (f_ip f) else None
  | _ => None
  end.

(* ---- strconv.ParseInt(s, 10, 64) ---- *)
Definition is_digit (c : N) : bool := (48 <=? c)%N && (c <=? 57)%N.
Definition digits_val (ds : text) : Z := fold_left (fun acc c => acc * 10 + (Z.of_N c - 48)) ds 0.
Definition parse_int_text (s : text) : option Z :=
  let '(neg, ds) := match s with
                    | 45%N :: r => (true, r)
                    | 43%N :: r => (false, r)
                    | _ => (false, s) end in
  match ds with
  | [] => None
  | _ => if forallb is_digit ds then
           let v := if neg then - digits_val ds else digits_val ds in
           if (- two63 <=? v) && (v <? two63) then Some v else None
         else None
  end.

(* strconv.ParseFloat on the plain decimal grammar, then int64(f): Some (Some z) = parsed,
   Some None = ParseFloat fails on this grammar-conforming-or-not text in a way we model (not a number),
   None = outside the modelled fragment (exponents, hex, inf/nan, underscores, too many digits) *)
Fixpoint split_at_dot (s : text) : text * option text :=
  match s with
  | [] => ([], None)
  | 46%N :: r => ([], Some r)
  | c :: r => let '(a, b) := split_at_dot r in (c :: a, b)
  end.
Definition only_plain_chars (s : text) : bool :=
  forallb (fun c => is_digit c || (c =? 46)%N || (c =? 45)%N || (c =? 43)%N) s.
(* the plain decimal grammar [+-]digits[.digits] (at least one digit) *)
Definition plain_decimal (s : text) : option (bool * text * text) :=
  let '(neg, body) := match s with
                      | 45%N :: r => (true, r)
                      | 43%N :: r => (false, r)
                      | _ => (false, s) end in
  let '(ip, fp) := split_at_dot body in
  let fpd := match fp with Some d => d | None => [] end in
  if negb (forallb is_digit ip && forallb is_digit fpd) then None
  else match ip, fpd with [], [] => None | _, _ => Some (neg, ip, fpd) end.
(* split at the first e / E *)
Fixpoint split_at_exp (s : text) : text * option text :=
  match s with
  | [] => ([], None)
  | c :: r => if (c =? 101)%N || (c =? 69)%N then ([], Some r)
              else let '(a, b) := split_at_exp r in (c :: a, b)
  end.
Definition is_plain_or_exp (c : N) : bool :=
  is_digit c || (c =? 46)%N || (c =? 45)%N || (c =? 43)%N || (c =? 101)%N || (c =? 69)%N.

Definition parse_float_trunc (s : text) : option (option Z) :=
  if negb (only_plain_chars s) then
    if forallb is_plain_or_exp s then
      (* decimal scientific notation mantissa(e|E)[+-]digits: modelled for at most 15 significant digits and a
         decimal exponent of magnitude at most 30 (the value is then far from any rounding boundary that could
         change its integer part ... for the values it is used on); malformed pieces are rejected by ParseFloat *)
      match split_at_exp s with
      | (m, Some x) =>
        match plain_decimal m, parse_int_text x with
        | Some (neg, ip, fpd), Some e =>
          let ds := ip ++ fpd in
          let d := digits_val ds in
          let scale := e - Z.of_nat (List.length fpd) in
          if (15 <? Z.of_nat (List.length ds)) || (30 <? Z.abs e) then None
          else let v := if 0 <=? scale then d * 10 ^ scale else d / 10 ^ (- scale) in
               if v <? 9007199254740992 then Some (Some (if neg then - v else v)) else None
        | _, _ => match x with
                  | [] => Some None
                  | _ => if forallb (fun c => is_digit c || (c =? 45)%N || (c =? 43)%N) x then
                           (match plain_decimal m with None => Some None | Some _ => match parse_int_text x with None => None | Some _ => None end end)
                         else Some None    (* a second e/E or a dot in the exponent *)
                  end
        end
      | (_, None) => None
      end
    else
    (* a float literal is digits with . e E + - _, a hex float (0x.. p..), or inf / infinity / nan in any case.
       Surely rejected: a character that occurs in none of these, or no digit and no n/N at all.
       Everything else outside the modelled grammars is left unmodelled. *)
    let allowed := [101;69;120;88;112;80;95;105;73;110;78;102;70;116;84;121;89;97;65;98;66;99;67;100;68]%N in
    if negb (forallb (fun c => is_digit c || (c =? 46)%N || (c =? 45)%N || (c =? 43)%N || existsb (N.eqb c) allowed) s) then Some None
    else if negb (existsb is_digit s) && negb (existsb (fun c => (c =? 110)%N || (c =? 78)%N) s) then Some None
    else None
  else
  match plain_decimal s with
  | None => Some None
  | Some (neg, ip, _) =>
    let v := digits_val ip in
    if v <? 9007199254740992 then Some (Some (if neg then - v else v)) else None
  end.
