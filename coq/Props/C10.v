(* C10  Retrieval is pure: no dependence on query history, errors or pooled objects.  Statements only.
   In the functional model the scan itself is a function of (index, assignment); what makes the real
   Retrieve impure-looking are the process-wide sync.Pools.  Model/Pool.v models the pool as a multiset
   from which Get may hand out ANY pooled object (the `choice` of every step is universally quantified). *)
From Coq Require Import List NArith ZArith Bool.
From BE Require Import Model.GoTypes Model.GoVal Model.Parsers Model.Index Model.Pool Proofs.PoolProof.
From BE Require Model.Roaring Model.RoaringPool Proofs.RoaringPoolProof.
Import ListNotations.

(* any history over any indexes (successful and failing retrievals alike), any pool behaviour:
   the i-th answer is the pure answer *)
Theorem C10_history_independent : forall (h : list (index * assignment * nat)) (p : pool), pool_inv p ->
  run_history true h p = map (fun x => retrieve (fst (fst x)) (snd (fst x))) h.
Proof. exact history_independent. Qed.

(* the invariant behind it: pooled objects are empty; kept by success and by failure (deferred Put) *)
Theorem C10_pool_invariant_preserved : forall ix q p ch, pool_inv p ->
  fst (retrieve_pooled true ix q p ch) = retrieve ix q /\ pool_inv (snd (retrieve_pooled true ix q p ch)).
Proof. exact retrieve_pooled_pure. Qed.

(* non-vacuity and necessity: without the Reset before Put a later retrieval sees an earlier one's documents *)
Definition ix1 : index :=
  build_index (fst (add_documents false (new_builder IKGroups PolError 256 (fun _ => PCommon))
    [ {| d_id := 7; d_conjs := [[(0%N, [ {| e_incl := true; e_op := OpEQ; e_val := VInt KI 1 |} ])]] |} ])).
Example C10_put_without_reset_leaks :
  run_history true  [(ix1, [(0%N, VInt KI 1)], 0%nat); (ix1, [(0%N, VInt KI 2)], 0%nat)] [] = [ROk [7%Z]; ROk []] /\
  run_history false [(ix1, [(0%N, VInt KI 1)], 0%nat); (ix1, [(0%N, VInt KI 2)], 0%nat)] [] = [ROk [7%Z]; ROk [7%Z]].
Proof. vm_compute. split; reflexivity. Qed.

(* THE ROARING INDEX (Model/RoaringPool.v: the scanner of Model/Roaring.v WITH the process-wide bitmap pool: a scanner's
   result bitmap and every retrieval's scratch posting list come from the pool -- whatever object Get hands out, the
   choice universally quantified --, each container ORs its wildcard/include lists into the scratch before parsing
   the assigned value, the scanner merges and clears it per field, and releases it; the error path follows the
   policy (put, clr): (false, _) = the code as it is (the scratch is dropped), (true, true) = released cleared).
   For ANY history of operations (new scanner, Reset, WithHint, Retrieve, RetrieveDocs, GetRawResult, other
   allocations) over any number of scanners, successful and failing alike, under any sequence of Get choices and any
   per-retrieval field order: every scanner's answers are those of the pure scanner model run on that scanner's own
   operations, and every pooled bitmap stays empty. *)
Theorem C10_roaring_history_independent : forall put clr (h : list (nat * RoaringPool.rpop * nat)) i,
  RoaringPoolProof.policy_ok put clr -> RoaringPoolProof.hist_wf h ->
  RoaringPool.answers_of i h (fst (RoaringPool.pool_run put clr h RoaringPool.st_init)) =
    fst (RoaringPool.sc_run None (RoaringPool.ops_of i h)) /\
  pool_inv (RoaringPool.st_pool (snd (RoaringPool.pool_run put clr h RoaringPool.st_init))).
Proof. exact RoaringPoolProof.roaring_pool_pure_init. Qed.

(* a scanner that was Reset answers like a fresh one whatever happened before on any scanner ... *)
Theorem C10_roaring_reset_then_retrieve_is_fresh : forall put clr h0 i ps c1 c2 ch2 ord q,
  RoaringPoolProof.policy_ok put clr -> RoaringPoolProof.hist_wf h0 ->
  alookup Nat.eqb i (RoaringPool.st_scs (snd (RoaringPool.pool_run put clr h0 RoaringPool.st_init))) = Some ps ->
  fst (RoaringPool.pool_run put clr [(i, RoaringPool.OReset, c1); (i, RoaringPool.ORetrieve ord q ch2, c2)]
         (snd (RoaringPool.pool_run put clr h0 RoaringPool.st_init))) =
  [RoaringPool.AUnit;
   RoaringPoolProof.retrieve_answer (Roaring.sc_retrieve (RoaringPool.pick ord (RoaringPool.ps_conts ps)) q Roaring.fresh_scanner)].
Proof. exact RoaringPoolProof.reset_retrieve_pure. Qed.

(* ... also when bitmap identities are modelled (the scratch, the document bitmap and a scanner's result bitmap may be the
   same pooled object): pure for the code as it is ([]) and for "released once on the error path" ([true]) *)
Theorem C10_roaring_history_independent_with_identities : forall ep (h : list (nat * RoaringPool.rpop * nat)) i,
  RoaringPoolProof.herr_ok ep -> RoaringPoolProof.hist_wf h ->
  RoaringPool.answers_of i h (fst (RoaringPool.heap_run ep h RoaringPool.hst_init)) =
    fst (RoaringPool.sc_run None (RoaringPool.ops_of i h)) /\
  RoaringPoolProof.hst_inv (snd (RoaringPool.heap_run ep h RoaringPool.hst_init)).
Proof. exact RoaringPoolProof.heap_run_pure_init. Qed.

(* necessity, by computation: returning the scratch UNCLEARED on the error path makes another scanner report a spurious
   conjunction; releasing it TWICE makes two later users share one bitmap and lose a document *)
Example C10_roaring_uncleared_scratch_leaks :
  exists a b c d e f g, fst (RoaringPool.pool_run true false RoaringPoolProof.ex_hist RoaringPool.st_init) =
    [a; b; RoaringPool.AFail PErr; RoaringPool.ADocs [1; 2]%N; c; d; e; f; g].
Proof. do 7 eexists. exact RoaringPoolProof.ex_mutant_uncleared. Qed.
Example C10_roaring_double_release_loses_a_document :
  fst (RoaringPool.heap_run [true; true] RoaringPoolProof.ex_hist2 RoaringPool.hst_init) =
  [RoaringPool.AUnit; RoaringPool.AFail PErr; RoaringPool.AUnit; RoaringPool.ADocs []; RoaringPool.ARaw []].
Proof. exact RoaringPoolProof.exh_mutant_double_release. Qed.

Print Assumptions C10_history_independent.
Print Assumptions C10_pool_invariant_preserved.
Print Assumptions C10_roaring_history_independent.
Print Assumptions C10_roaring_reset_then_retrieve_is_fresh.
Print Assumptions C10_roaring_history_independent_with_identities.
