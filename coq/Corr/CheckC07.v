(* C07 uses the shared end-to-end case format (sequential part). *)
From BE Require Export Corr.CheckE2E.
