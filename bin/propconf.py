"""Per-property configuration shared by bin/check and bin/mkmanifest."""

TRUSTED_BASE_COMMON = [
    "Coq 8.16.1 kernel (coqc); vm_compute for case evaluation and finite obligations; no native_compute",
    "no Axiom/Parameter/Admitted in /verif/coq (scanned on every run)",
    "translator vh xlate (go/types constant evaluation, statement-level Go->Gallina for the id codecs, type-switch tables)",
    "correspondence harness vh cases (typed-value reconstruction, canonicalisation, Gallina literal printer); comparison done inside Coq",
]

PROPS = {
    "C11": {
        "level": "proof",
        "design_ref": "§6 C11",
        "technique": "Coq theorems over Gallina code regenerated from id_types.go/conjunction_types.go by a translator, plus differential check of the translated functions against the real ones (vm_compute)",
        "text": "Round trip, injectivity, refusal outside the range, entry order and result casts are Coq theorems about the Gallina translation of the current id_types.go / roaringidx/conjunction_types.go (regenerated on every run); the translated functions are run against the real ones on a boundary grid and random triples.",
        "note": "Trusted: Coq kernel, the Go->Gallina translator for the straight-line integer subset (cross-checked against the real functions on every run), uint64/int64 wrap semantics written as mod 2^64. No axioms.",
        "assumptions": ["Go integer conversions and shifts wrap modulo 2^64 as modelled by u64/i64 in Gen/IdsGen.v"],
    },
    "C12": {
        "level": "proof",
        "design_ref": "§6 C12",
        "technique": "Coq proof of a statement-level model of EntriesCursor.SkipTo (gallop + binary search with fuel), FieldCursor and insertion sort; model run against the real cursors on random and exhaustive small lists (vm_compute)",
        "text": "SkipTo (index-level and value-level over any target sequence), group minimum and sort are Coq theorems about Model/Cursor.v, a statement-by-statement model of index_scanner.go; the model and the specification are both compared with the real cursors on every call of generated op sequences.",
        "note": "Trusted: Coq kernel; the hand-written model of index_scanner.go (tied to the code only by the correspondence run on this tree); entries are uint64 so every entry <= NULLENTRY. No axioms.",
        "assumptions": ["posting lists are sorted ascending (the builder sorts them; C01/C02 cover that)", "targets and entries are uint64 values"],
    },
    "C01": {
        "level": "proof",
        "design_ref": "§6 C01",
        "technique": "Coq proof that the conjunction scan over the built posting streams equals DNF semantics (any document set/assignment), refinement lemmas from concrete cursors to streams; executable concrete model (builder, holders, cursors, k-groups loop) and DNF specification both compared with the real index inside Coq",
        "text": "documents -> k-groups streams -> scan = DNF semantics is a Coq theorem for all document sets and assignments (termination and exactly-once included); the concrete executable model of builder/holders/cursors/loop and the three-line DNF specification are compared with the real builder and index on generated document sets and queries.",
        "note": "Trusted: Coq kernel; hand-written model Model/Index.v tied to the code by the correspondence run; hash ids modelled injectively (no FNV collision); Go map iteration order modelled as list order (observables compared are order independent). No axioms.",
        "assumptions": ["distinct document ids", "no FNV-64 collision among the values used", "values within the modelled fragment of fmt/strconv"],
    },
    "C02": {
        "level": "proof",
        "design_ref": "§6 C02",
        "technique": "Coq proof of the generic conjunction scan with a monotone need function (compact = max 1 size) for all sorted stream sets; executable concrete model of the compact index and DNF specification compared with the real index inside Coq",
        "text": "the generic scan theorem (any sorted streams, monotone need >= 1) covers the compact loop with need = max(1,size); the concrete executable model and the DNF specification are compared with the real compact builder/index on generated document sets biased to mixed sizes and early exit.",
        "note": "Trusted: as C01.",
        "assumptions": ["distinct document ids", "no FNV-64 collision among the values used"],
    },
    "C04": {
        "level": "proof",
        "design_ref": "§6 C04",
        "technique": "Coq proof at conjunction level (scan result = satisfied conjunction ids, NoDup) plus id round trip; recording ResultCollector on both posting-list indexes compared as a multiset with model and specification inside Coq",
        "text": "the scan theorems return the list of reported conjunction ids: exactly the satisfied ones, without duplicates, for all inputs; C11's round trip gives the (doc, position, size) a collector decodes. A recording collector on the real indexes is compared (multiset of (doc, Index, Size)) with the model's calls and with the specification's satisfied conjunctions.",
        "note": "Trusted: as C01. Roaring raw results are checked by C03/C15's cases.",
        "assumptions": ["distinct document ids", "no FNV-64 collision among the values used"],
    },
    "C03": {
        "level": "proof",
        "design_ref": "§6 C03",
        "technique": "Coq proof that the scanner's OR-first/AND-rest fold equals the intersection of the field results for every field order; executable model of roaring builder/containers/scanner and DNF specification compared with the real index inside Coq",
        "text": "scanner fold = intersection for every iteration order is a Coq theorem; the executable model (builder wildcard rule, containers, scanner) and the DNF specification are compared with the real builder/scanner on generated document sets over 1..5 configured fields.",
        "note": "Trusted: Coq kernel; roaring64 bitmaps as finite sets; hand-written model Model/Roaring.v tied to the code by the correspondence run. Known finding: zero configured fields (F14).",
        "assumptions": ["distinct document ids", "at least one configured field", "no FNV-64 collision among the values used"],
    },
    "C15": {
        "level": "proof",
        "design_ref": "§6 C15",
        "technique": "Coq proof of the hint law (hinted = hints intersected with every field result, any order); executable scanner model compared with real scanners on operation sequences (WithHint/Retrieve/RetrieveDocs/Reset/GetRawResult) inside Coq",
        "text": "hinted result = hint set intersected with the unhinted per-field results for every field order is a Coq theorem; operation sequences over 1..4 scanners sharing an index and the bitmap pool are run on the real code and compared with the model and with the specification (fresh answer, restricted answer, raw result).",
        "note": "Trusted: as C03; sync.Pool behaviour is exercised, not modelled, here (see C10).",
        "assumptions": ["scanner states after a failed retrieval are only compared after Reset (they depend on Go's map iteration order)"],
    },
    "C17": {
        "level": "proof",
        "design_ref": "§6 C17",
        "technique": "Coq proof of totality (no panic, no divergence) of the parser models for every Go value, over type-switch tables regenerated from the source; range-description enumeration theorem; parser models and an independent denotation compared with the real parsers (ids compared exactly through FNV-64 in Coq), step<=0 descriptions run in a guarded child process",
        "text": "for every Go value shape each parser/range helper model returns a result or an error (never panic/diverge), the tables regenerated from the type switches stay inside the modelled universe, and a start:end[:step] description is refused unless step>=1 and otherwise enumerates exactly start+k*step<=end; all are Coq theorems about Model/Parsers.v. The models and an independent denotation (Model/Spec.v) are compared with the real parsers on every shape x parser x direction, malformed strings, between pairs of every typing, and end to end (accepted => matchable).",
        "note": "Trusted: Coq kernel; translator's type-switch extraction; modelled library fragments (fmt %v on integers, strconv.ParseInt, plain-decimal ParseFloat, float->int conversion for |x|<2^63) are compared with the real ones on every run but not proved. No axioms.",
        "assumptions": ["values outside the modelled float/decimal fragment (exponent notation, |x|>=2^63, NaN/Inf) are reported as outside the theorem's domain and only checked for totality"],
    },
    "C16": {
        "level": "proof",
        "design_ref": "§6 C16",
        "technique": "Coq proof that the retrieval models (k-groups, compact, roaring scanner) never panic for any index state and any assignment of arbitrary Go values, over type-switch/kind tables regenerated from the source; exhaustive run of every value shape x field kind x index type against the real code, compared inside Coq",
        "text": "for every index state and every assignment over the full universe of Go value shapes the model's Retrieve returns a result or an error, never a panic (Coq theorem; the NilInterface kind table and the parsers' type-switch tables are regenerated from the source, so re-adding reflect.Array or dropping a nil guard breaks the proof). Every shape is also run against the real k-groups, compact and roaring indexes on default/pattern/range/number-parser/unknown fields, each hostile retrieval followed by ordinary ones.",
        "note": "Trusted: Coq kernel; reflect.Value.IsNil's panic set and the translator's table extraction; hand-written model tied to the code by the correspondence run. Termination of the scan loops (fuel suffices) is part of C01/C02's theorems. No axioms.",
        "assumptions": ["Go values outside the modelled universe are represented by their reflect.Kind class (catch-all constructors)"],
    },
    "C09": {
        "level": "proof",
        "design_ref": "§6 C09",
        "technique": "Coq proof that the common-parser model maps every supported representation (all integer widths, strings, json.Number, floats, typed slices, heterogeneous lists) to the ids of its canonical texts, over type-switch tables regenerated from the source; cross product of representations run through the real parser (ids compared exactly via FNV-64 in Coq), through both indexes, and through a JSON round trip",
        "text": "canonical-text identification at indexing and query time is a Coq theorem for all values of every supported shape (integer widths by a universally quantified kind; slices/lists by induction), against a representation-free specification; the real parser is run on the cross product (index-side shape x query-side shape) of 15 values, the same pairs go through AddDocument/Retrieve, and documents of every operator are marshalled, unmarshalled, rebuilt and compared with the original index.",
        "note": "Trusted: Coq kernel; translator's type-switch extraction; fmt %v / float truncation modelled (compared on every run). Known finding: integers beyond 2^53 lose precision through encoding/json (F13). No axioms.",
        "assumptions": ["no FNV-64 collision among the texts used (theorems identify an id with its text)", "floats inside the modelled fragment |x| < 2^63"],
    },
    "C08": {
        "level": "proof",
        "design_ref": "§6 C08",
        "technique": "Coq proof over the builder model (parse-then-commit, policy switch, wildcard registration where the code has it): no match-everything entry for an unparseable conjunction under every policy, rejected documents leave the state unchanged, plus a vm_compute refutation for the pinned tree's ordering; fault enumeration over every expression position x container kind x policy x index type against the real builder, posting-list contents compared through a hook",
        "text": "for every builder state, document, position and kind of unparseable expression, and every policy, the model registers no match-everything entry for a conjunction that does not parse, and outright-rejected documents change nothing (Coq theorems); the faithful model of the pinned ordering is refuted by computation (that was the defect, repaired by a fix: commit). Fault enumeration runs the real builder on every fault position and compares AddDocument outcomes, posting-list entries (hook) and the answers of trace-revealing queries with the model and with the DNF specification of the document without its bad conjunctions.",
        "note": "Trusted: as C01. The statement 'no posting entry' for the default/pattern/range holders is checked by the correspondence run through the hook (all posting-list entries compared as a multiset).",
        "assumptions": ["unsupported operators on a container (programming error, PanicIf) are outside the property's 'unparseable value'"],
    },
    "C05": {
        "level": "proof",
        "design_ref": "§6 C05",
        "technique": "Coq proof of the holder's hit rule over a model in which the third-party automaton is replaced by its substring specification (proved equivalent to contiguous occurrence); the real automaton is validated against that specification on adversarial keyword sets on every run, and pattern fields are run through all three indexes against model and DNF specification",
        "text": "substring = contiguous occurrence, and the pattern holder selects a keyword's posting list exactly when the keyword occurs in the joined query text, are Coq theorems about Model/Index.v; the anknown/ahocorasick automaton itself is third-party code represented by its specification, which every run validates against the real automaton (one document per keyword, overlapping/nested/duplicate/multi-byte/separator-containing keywords). Mixed pattern/default documents run on k-groups, compact and roaring indexes.",
        "note": "Trusted: Coq kernel; the substring specification as a stand-in for the automaton (validated, not proved); strings as sequences of code points (valid UTF-8 only); empty keywords are outside the property ('non-empty keywords').",
        "assumptions": ["valid UTF-8 keywords and texts", "non-empty keywords"],
    },
    "C06": {
        "level": "proof",
        "design_ref": "§6 C06",
        "technique": "Coq proof by induction over the insert history of a statement-level model of RangeIdx.IndexingRange/Explode (contiguous cover invariant + entries-at-x = covering ranges), operator->interval lemmas for every expansion threshold; model compared piece by piece with the real RangeIdx (hook) and end to end on both indexes inside Coq",
        "text": "for any insert history the interval index is a contiguous cover whose piece at x holds exactly the entries of the ranges containing x, and for any expansion threshold the transaction of >, <, between selects exactly the operator's interval (Coq theorems about the statement-level model of term_ext_range_holder.go); histories run against the real RangeIdx with pieces compared one by one and every boundary +-1 probed, and range documents (include/exclude, narrow/wide, overlapping, +-2^62) run on k-groups and compact indexes against model and specification.",
        "note": "Trusted: Coq kernel; float64 Size() comparison with the threshold modelled as exact integer comparison (either branch is proved right, so rounding cannot change the meaning); sort.Find modelled as lookup of the containing piece (unique by the chain invariant). No axioms.",
        "assumptions": ["bounds of magnitude up to 2^62 (no int64 wrap in a+1 / r++)", "the registered holder uses RangeMin = MinInt64 (ranges below a custom minimum are dropped, recorded as an observation)"],
    },
    "C18": {
        "level": "proof",
        "design_ref": "§6 C18",
        "technique": "Coq theorems stated for an arbitrary term matcher (k-groups end to end at stream level, generic scan for compact, order-independent fold for roaring); identical documents and assignments run through the three real indexes under three parser configurations and compared pairwise, each index also against its executable model, inside Coq",
        "text": "agreement is derived from exactness of each implementation against one satisfaction predicate that is parametric in the matcher induced by the configured parsers (no independent specification of value shapes needed); identical inputs from the representation zoo (incl. shapes without written specification) go to the k-groups, compact and roaring index with common / number / string-hash parsers and the three answers are compared pairwise.",
        "note": "Trusted: as C01/C03. The compact and roaring legs are proved at scan/fold level (any sorted streams / any field results); their builder-level glue is covered by the executable models compared on every run. Known finding: zero configured roaring fields (F14).",
        "assumptions": ["all three accept every document and answer the query", "at least one configured field"],
    },
    "C13": {
        "level": "proof",
        "design_ref": "§6 C13",
        "technique": "Coq proof that every holder's cache codec round-trips every transaction its parser can produce and that a written record reproduces exactly the transactions it was written from (any threshold), with refutations for the pinned tree's codecs; three successive real builds sharing a seeded lossy cache provider compared with the plain build (outcomes, posting-list contents via hook, answers) inside Coq",
        "text": "codec round trip per holder, record -> transactions reproduction for any caching threshold, and 'repeated-field conjunctions are never cached' are Coq theorems about Model/Cache.v (the pinned tree's slot collapse and lost interval are refuted by computation; repaired by three fix: commits). Real builds with a cache provider whose Get misses and Set drops by seeded coin, thresholds {0,2,512}, new or Reset builder, are compared with the plain build.",
        "note": "Trusted: Coq kernel; protobuf / encoding/json as identity on the modelled message shapes (exercised on every run); that a miss or decode error falls back to parsing is read off the code (tryUseIndexingTxCache returns nil) and exercised by the 30%/100% miss runs.",
        "assumptions": ["documents unchanged between builds sharing a cache"],
    },
    "C10": {
        "level": "proof",
        "design_ref": "§6 C10",
        "technique": "Coq proof that, under the Reset-before-Put pool discipline, every retrieval of every history (successful or failing, any object handed out by sync.Pool) returns the pure retrieval function's answer; interleaved histories over several real indexes sharing the process-wide pools compared answer by answer with the pure model and the specification in Coq, with fresh-index and assignment-unchanged checks",
        "text": "the pool is modelled as a multiset from which Get may return any pooled object; with the invariant 'pooled objects are empty' (kept on success and on the deferred Put after an error) the i-th answer of any history equals the pure answer (Coq theorem; without the Reset the model leaks, shown by computation). Histories of 20..200 retrievals interleaved over k-groups/compact/roaring indexes with ~15% failing retrievals, debug options and both collector kinds are replayed on the real code and every answer compared with the pure model.",
        "note": "Trusted: Coq kernel; sync.Pool as an atomic multiset; the scan itself is a function in the model, that the real scan keeps no state between calls is what the history runs and the regenerated write-set obligations of C07 check. 'The assignment is not modified' is checked by deep copy/compare on every call.",
        "assumptions": ["one process; pools shared by all indexes of the process"],
    },
}

# properties not claimed (reason); empty when everything is claimed
NOT_APPLICABLE = {}

# commits in /repo that add hooks (//go:build verif)
HOOK_COMMITS = []
