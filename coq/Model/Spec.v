(* The specification: what documents mean, independent of how they are indexed.
   Short on purpose.  Values are classified by what they are (integer, text, float, list of those),
   never by the library's type-switch tables. *)
From Coq Require Import List NArith ZArith Bool.
From BE Require Import Model.GoTypes Model.GoVal Model.Parsers Model.Index.
Import ListNotations.
Local Open Scope Z_scope.

(* ---------- what a value denotes ---------- *)
(* canonical text of a scalar under the default (common) parser: decimal text of an integer, of a
   float's integer part, or the string itself.  None = not a supported scalar (or outside the
   modelled float fragment). *)
Definition canon_scalar (v : gval) : option text :=
  match v with
  | VInt _ z => Some (dec_text z)
  | VStr s | VJson s => Some s
  | VFloat _ f => match f_cls f with
                  | FFinite => if Z.abs (f_ip f) <? two63 then Some (dec_text (f_ip f)) else None
                  | _ => None end
  | _ => None
  end.

Fixpoint all_some {A} (l : list (option A)) : option (list A) :=
  match l with
  | [] => Some []
  | Some x :: l' => option_map (cons x) (all_some l')
  | None :: _ => None
  end.

(* a value as a list of scalars: scalar, typed slice, heterogeneous list *)
Definition scalars_of (v : gval) : option (list gval) :=
  match v with
  | VInt _ _ | VStr _ | VJson _ | VFloat _ _ => Some [v]
  | VSlice t _ vs => match t with
                     | TSbool | TSother => None
                     | _ => Some vs end
  | VList _ vs => Some vs
  | _ => None
  end.

Definition canon_texts (v : gval) : option (list text) :=
  match scalars_of v with Some vs => all_some (map canon_scalar vs) | None => None end.

(* integer denoted by a scalar (number parser, range container): an integer, a float's integer
   part, a decimal text (its integer part) *)
Definition int_scalar (v : gval) : option Z :=
  match v with
  | VInt k z => Some (wrap_i64 z)
  | VFloat _ f => float_to_i64 f
  | VStr s | VJson s =>
    match parse_int_text s with
    | Some z => Some z
    | None => match parse_float_trunc s with Some (Some z) => Some z | _ => None end
    end
  | _ => None
  end.
Definition ints_of (v : gval) : option (list Z) :=
  match scalars_of v with Some vs => all_some (map int_scalar vs) | None => None end.

Definition str_scalar (v : gval) : option text := match v with VStr s => Some s | _ => None end.
Definition strings_of (v : gval) : option (list text) :=
  match v with
  | VStr s => Some [s]
  | VSlice TSstring _ vs | VList _ vs => all_some (map str_scalar vs)
  | _ => None
  end.

(* start:end[:step], step >= 1 *)
Definition desc_values (s : text) : option (list Z) :=
  match range_desc s with
  | Some (st, e, sp) => if sp <? 1 then None
                        else if e <? st then Some []
                        else Some (enum_range (Z.to_nat ((e - st) / sp + 1)) st e sp)
  | None => None
  end.
Definition descs_of (v : gval) : option (list Z) :=
  match strings_of v with
  | Some ss => option_map (@concat Z) (all_some (map desc_values ss))
  | None => None
  end.

(* nil-like assignment values give no values *)
Definition nil_like (v : gval) : bool :=
  match v with
  | VNil => true | VSlice _ true _ | VList true _ => true
  | VOther t true => match t with Tmap | Tptr | Tchan | TSother => true | _ => false end
  | _ => false
  end.

(* ---------- what an expression denotes ---------- *)
Inductive esem :=
| ETexts (ts : list text)        (* default container, common / string-hash parser *)
| ENums (zs : list Z)            (* default container with number / number-range parser; range container `in` *)
| ERange (l r : Z)               (* range container: l <= x < r *)
| EKeywords (ks : list text).    (* pattern container *)

Definition expr_sem (fd : fdesc) (e : expr) : option esem :=
  match fd_cont fd with
  | CDefault =>
    match e_op e with
    | OpEQ =>
      match fd_parser fd with
      | PCommon => option_map ETexts (canon_texts (e_val e))
      | PStrHash => option_map ETexts (strings_of (e_val e))
      | PNumber => option_map ENums (ints_of (e_val e))
      | PNumRange => option_map ENums (descs_of (e_val e))
      end
    | _ => None
    end
  | CAc =>
    match e_op e with
    | OpEQ => option_map EKeywords (strings_of (e_val e))
    | _ => None
    end
  | CRange =>
    match e_op e with
    | OpEQ => (* a nil-like value lists no values (util.NilInterface, as on the query side) *)
              if nil_like (e_val e) then Some (ENums []) else option_map ENums (ints_of (e_val e))
    | OpGT => match scalars_of (e_val e) with
              | Some [s] => match e_val e with VSlice _ _ _ | VList _ _ => None
                            | _ => option_map (fun a => ERange (a + 1) two63) (int_scalar s) end
              | _ => None end
    | OpLT => match scalars_of (e_val e) with
              | Some [s] => match e_val e with VSlice _ _ _ | VList _ _ => None
                            | _ => option_map (fun b => ERange (- two63) b) (int_scalar s) end
              | _ => None end
    | OpBetween =>
      match e_val e with
      | VArr TA2int64 [VInt _ l; VInt _ h] | VSlice TSint64 _ [VInt _ l; VInt _ h] =>
        if l <? h then Some (ERange l h) else if l =? h then Some (ERange l (h + 1)) else None
      | VStr s => match range_desc s with
                  | Some (l, h, _) => if l <? h then Some (ERange l h) else if l =? h then Some (ERange l (h + 1)) else None
                  | None => None end
      | VList _ [a; b] =>
        match int_scalar a, int_scalar b with
        | Some l, Some h => if l <? h then Some (ERange l h) else if l =? h then Some (ERange l (h + 1)) else None
        | _, _ => None
        end
      | _ => None
      end
    | OpOther => None
    end
  end.

(* ---------- what an assigned value denotes for a field ---------- *)
Inductive qsem := QTexts (ts : list text) | QNums (zs : list Z) | QText (t : text).

Definition assign_sem (fd : fdesc) (v : gval) : option qsem :=
  match fd_cont fd with
  | CDefault =>
    if nil_like v then Some (match fd_parser fd with PCommon | PStrHash => QTexts [] | _ => QNums [] end) else
    match fd_parser fd with
    | PCommon => option_map QTexts (canon_texts v)
    | PStrHash => option_map QTexts (strings_of v)
    | PNumber => option_map QNums (ints_of v)
    | PNumRange => match v with VSlice _ _ _ | VList _ _ | VStr _ => None
                   | _ => option_map QNums (ints_of v) end
    end
  | CAc => match strings_of v with Some ss => Some (QText (join_sep [32%N] ss)) | None => None end
  | CRange => if nil_like v then Some (QNums []) else option_map QNums (ints_of v)
  end.

Definition hit (e : esem) (q : qsem) : bool :=
  match e, q with
  | ETexts ts, QTexts qs => existsb (fun t => existsb (text_eqb t) qs) ts
  | ENums zs, QNums qs => existsb (fun z => existsb (Z.eqb z) qs) zs
  | ERange l r, QNums qs => existsb (fun x => (l <=? x) && (x <? r)) qs
  | EKeywords ks, QText t => existsb (fun k => match k with [] => false | _ => kw_found k t end) ks
  | _, _ => false
  end.

(* ---------- satisfaction ---------- *)
(* the container and parser of a field: as configured, else the default container *)
Definition field_desc (fields : list fdesc) (parsers : fname -> parser_kind) (f : fname) : fdesc :=
  match find_field f fields with
  | Some d => d
  | None => {| fd_name := f; fd_cont := CDefault; fd_parser := parsers f |}
  end.

Section Sat.
  Variable fields : list fdesc.                (* configured fields *)
  Variable parsers : fname -> parser_kind.
  Variable q : assignment.

  Fixpoint lookup_assign (f : fname) (qq : assignment) : option gval :=
    match qq with [] => None | (g, v) :: q' => if N.eqb g f then Some v else lookup_assign f q' end.

  (* does expression e on field f select the assignment?  None = the assigned value is unsupported *)
  Definition expr_hit (f : fname) (es : esem) : option bool :=
    match lookup_assign f q with
    | None => Some false                         (* a missing field gives no values *)
    | Some v => option_map (hit es) (assign_sem (field_desc fields parsers f) v)
    end.

  (* a conjunction whose expressions all denote something: field -> list of (incl, meaning) *)
  Definition sconj := list (fname * list (bool * esem)).

  Definition conj_sem (c : conj) : option sconj :=
    all_some (map (fun fe => option_map (fun l => (fst fe, l))
                     (all_some (map (fun e => option_map (fun s => (e_incl e, s)) (expr_sem (field_desc fields parsers (fst fe)) e)) (snd fe)))) c).

  Definition obind {A B} (o : option A) (f : A -> option B) : option B := match o with Some a => f a | None => None end.
  Fixpoint oforall {A} (f : A -> option bool) (l : list A) : option bool :=
    match l with [] => Some true | x :: l' => obind (f x) (fun b => obind (oforall f l') (fun r => Some (b && r))) end.
  Fixpoint oexists {A} (f : A -> option bool) (l : list A) : option bool :=
    match l with [] => Some false | x :: l' => obind (f x) (fun b => obind (oexists f l') (fun r => Some (b || r))) end.

  (* for every field: no exclude expression is hit, and if there are include expressions one of them is *)
  Definition sat_conj (c : sconj) : option bool :=
    oforall (fun fe : fname * list (bool * esem) =>
      let f := fst fe in
      obind (oexists (fun ie : bool * esem => if fst ie then Some false else expr_hit f (snd ie)) (snd fe)) (fun excluded =>
      obind (oexists (fun ie : bool * esem => if fst ie then expr_hit f (snd ie) else Some false) (snd fe)) (fun included =>
        Some (negb excluded && (negb (existsb (@fst bool esem) (snd fe)) || included))))) c.
End Sat.

(* which conjunctions of a document are indexed: under Skip every parseable one; under Error/Panic
   those before the first unparseable one (the document is then abandoned) *)
Fixpoint indexed_conjs (pol : policy) (cs : list (Z * option (sconj))) : list (Z * sconj) :=
  match cs with
  | [] => []
  | (i, Some c) :: rest => (i, c) :: indexed_conjs pol rest
  | (_, None) :: rest => match pol with PolSkip => indexed_conjs pol rest | _ => [] end
  end.

Definition doc_valid (d : doc) : bool :=
  negb (match d_conjs d with [] => true | _ => false end) && (Z.of_nat (length (d_conjs d)) <=? 255).

(* ---------- answers ---------- *)
Definition valid_doc_id (d : Z) : bool := Z.abs d <=? 8796093022207.

Section Answers.
  Variable fields : list fdesc.
  Variable parsers : fname -> parser_kind.
  Variable pol : policy.
  Variable docok : doc -> bool.         (* admission: number of conjunctions, id range *)

  (* the indexed conjunctions of a document with their positions and meanings *)
  Definition doc_sem (d : doc) : list (Z * sconj) :=
    if docok d
    then indexed_conjs pol (map (fun ic => (fst ic, conj_sem fields parsers (snd ic))) (indexed_from 0 (d_conjs d)))
    else [].

  (* size of a conjunction: number of fields with an include expression *)
  Definition sconj_size (c : sconj) : Z := Z.of_nat (length (filter (fun fe => existsb fst (snd fe)) c)).

  (* the satisfied conjunctions: (document id, position, size); None = some assigned value is unsupported *)
  Definition sat_hits (ds : list doc) (q : assignment) : option (list (Z * (Z * Z))) :=
    option_map (@concat (Z * (Z * Z)))
      (all_some (map (fun d =>
         option_map (@concat (Z * (Z * Z)))
           (all_some (map (fun ic => option_map (fun b : bool => if b then [(d_id d, (fst ic, sconj_size (snd ic)))] else [])
                                        (sat_conj fields parsers q (snd ic))) (doc_sem d)))) ds)).
End Answers.

Definition pl_docok (d : doc) : bool := doc_valid d && valid_doc_id (d_id d).
