//go:build !verif

package main

func runRangeHistory(mn, mx int64, hist [][3]int64, probes []int64) (pieces string, probeLit string, ok bool) {
	return "", "", false
}
