(* C14 uses the shared end-to-end case format (sequential part). *)
From BE Require Export Corr.SpecE2E.
