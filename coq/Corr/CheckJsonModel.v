(* JSON ingest (C09): the MODEL of encoding/json (Model/Json.v: json_roundtrip) against the real decoder.
   The harness (cmd/vh/c09.go: execJSON, tvFromAny) emits for every generated case the ORIGINAL documents and
   the documents as encoding/json actually DECODED them (jcase = original, decoded).  json_model_ok checks,
   expression by expression, that json_roundtrip of the original value is the decoded value:
   same shape, same integer part / fraction flag / class of every float, and the same %v text.
   The decoder hands the fields of a conjunction back in map order (the harness sorts them by name), so the
   decoded expressions of a field are looked up by field. *)
From Coq Require Import List NArith ZArith Bool.
From BE Require Import Model.Spec Model.Json Corr.Common.
From BE Require Export Corr.SpecJson.
Import ListNotations.
Local Open Scope Z_scope.

Definition fcls_eqb (a b : fcls) : bool :=
  match a, b with FFinite, FFinite | FNaN, FNaN | FPosInf, FPosInf | FNegInf, FNegInf => true | _, _ => false end.
(* strict = false: the %v text is not compared beyond 2^53 (there it comes from Json.shortest_int, a search for
   the shortest decimal inside the rounding interval; below, it is the decimal text of the integer itself) *)
Definition fl_same (strict : bool) (a b : fl) : bool :=
  (f_ip a =? f_ip b) && Bool.eqb (f_frac a) (f_frac b) && fcls_eqb (f_cls a) (f_cls b) &&
  (text_eqb (f_text a) (f_text b) || (negb strict && (two53 <? Z.abs (f_ip a)))).
Definition ikind_eqb (a b : ikind) : bool :=
  match a, b with
  | KI, KI | KI8, KI8 | KI16, KI16 | KI32, KI32 | KI64, KI64 | KU, KU | KU8, KU8 | KU16, KU16 | KU32, KU32 | KU64, KU64 => true
  | _, _ => false end.

Fixpoint gval_same (strict : bool) (a b : gval) : bool :=
  let all := fix all (l l' : list gval) : bool :=
               match l, l' with
               | [], [] => true
               | x :: r, y :: r' => gval_same strict x y && all r r'
               | _, _ => false end in
  match a, b with
  | VNil, VNil => true
  | VInt k z, VInt k' z' => ikind_eqb k k' && (z =? z')
  | VFloat w f, VFloat w' f' => Bool.eqb w w' && fl_same strict f f'
  | VStr s, VStr s' | VJson s, VJson s' => text_eqb s s'
  | VBool x, VBool y => Bool.eqb x y
  | VSlice t n vs, VSlice t' n' vs' => gty_beq t t' && Bool.eqb n n' && all vs vs'
  | VList n vs, VList n' vs' => Bool.eqb n n' && all vs vs'
  | VArr t vs, VArr t' vs' => gty_beq t t' && all vs vs'
  | VOther t n, VOther t' n' => gty_beq t t' && Bool.eqb n n'
  | _, _ => false
  end.

Definition vop_eqb (a b : vop) : bool :=
  match a, b with OpEQ, OpEQ | OpGT, OpGT | OpLT, OpLT | OpBetween, OpBetween | OpOther, OpOther => true | _, _ => false end.

(* the model predicts the decoded expression *)
Definition expr_pair_ok (strict : bool) (e e' : expr) : bool :=
  Bool.eqb (e_incl e) (e_incl e') && vop_eqb (e_op e) (e_op e') &&
  match json_roundtrip (e_val e) with Some v' => gval_same strict v' (e_val e') | None => false end.
Definition conj_pair_ok (strict : bool) (c c' : conj) : bool :=
  Nat.eqb (length c) (length c') &&
  forallb (fun fe : fname * list expr =>
             match alookup N.eqb (fst fe) c' with
             | Some es' => eqb_list (expr_pair_ok strict) (snd fe) es'
             | None => false end) c.
Definition doc_pair_ok (strict : bool) (d d' : doc) : bool :=
  (d_id d =? d_id d') && eqb_list (conj_pair_ok strict) (d_conjs d) (d_conjs d').

Definition json_model_ok_gen (strict : bool) (j : jcase) : bool :=
  let '(o, d) := j in eqb_list (doc_pair_ok strict) (map fst (k_docs o)) (map fst (k_docs d)).
Definition json_model_ok : jcase -> bool := json_model_ok_gen false.
Definition json_model_ok_strict : jcase -> bool := json_model_ok_gen true.

(* where the model and the decoder differ: (document id, field) *)
Definition json_model_bad (j : jcase) : list (Z * fname) :=
  let '(o, d) := j in
  flat_map (fun dd : doc * doc => let '(a, b) := dd in
     flat_map (fun cc : conj * conj => let '(c, c') := cc in
        flat_map (fun fe : fname * list expr =>
           match alookup N.eqb (fst fe) c' with
           | Some es' => if eqb_list (expr_pair_ok false) (snd fe) es' then [] else [(d_id a, fst fe)]
           | None => [(d_id a, fst fe)] end) c)
       (combine (d_conjs a) (d_conjs b)))
    (combine (map fst (k_docs o)) (map fst (k_docs d))).

(* as a check of the driver's kind: bit 0 = the model disagrees with the implementation *)
Definition check_jm (j : jcase) : verdict := mk_verdict (json_model_ok j) true true 0%N.
Definition run (cs : list jcase) := check_all check_jm cs.

(* ---- hand-written cases (decoded values as go1.23.5 prints them) ---- *)
Definition mk_case (ds : list doc) : ecase :=
  {| k_kind := IKGroups; k_pol := PolError; k_configs := [(2%N, CRange); (3%N, CAc)]; k_parsers := [];
     k_docs := map (fun d => (d, IAddOk)) ds; k_queries := []; k_state := None |}.
Definition F (ip : Z) (fr : bool) (t : list N) : gval := VFloat false (Build_fl ip fr FFinite t).

(* 1: ints of several widths, a string list, a between pair, a fractional float; fields come back sorted *)
Definition j1 : jcase :=
  (mk_case [Build_doc (-2) [[(2%N, [Build_expr true OpBetween (VSlice TSint64 false [VInt KI64 (-5); VInt KI64 1099511627776])]);
                             (0%N, [Build_expr false OpEQ (VSlice TSuint16 false [VInt KU16 7; VInt KU16 1000]);
                                    Build_expr true OpEQ (VInt KI64 1234567)])];
                            [(3%N, [Build_expr true OpEQ (VSlice TSstring false [VStr [114; 101; 100]%N; VStr [26085; 26412]%N])]);
                             (1%N, [Build_expr true OpEQ (VSlice TSfloat64 false [F 100 true [49; 48; 48; 46; 53]%N])])]]],
   mk_case [Build_doc (-2) [[(0%N, [Build_expr false OpEQ (VList false [F 7 false [55]%N; F 1000 false [49; 48; 48; 48]%N]);
                                    Build_expr true OpEQ (F 1234567 false [49; 46; 50; 51; 52; 53; 54; 55; 101; 43; 48; 54]%N)]);
                             (2%N, [Build_expr true OpBetween (VList false [F (-5) false [45; 53]%N;
                                        F 1099511627776 false [49; 46; 48; 57; 57; 53; 49; 49; 54; 50; 55; 55; 55; 54; 101; 43; 49; 50]%N])])];
                            [(1%N, [Build_expr true OpEQ (VList false [F 100 true [49; 48; 48; 46; 53]%N])]);
                             (3%N, [Build_expr true OpEQ (VList false [VStr [114; 101; 100]%N; VStr [26085; 26412]%N])])]]]).
(* 2: the known findings as the decoder shows them: 2^53+1 -> 9.007199254740992e+15, 2^62+1 -> 4.611686018427388e+18,
      json.Number 1e3 -> 1000, 2.7 -> 2.7, -0 -> -0, 1.0 -> 1; nil slice -> nil *)
Definition j2 : jcase :=
  (mk_case [Build_doc 1 [[(0%N, [Build_expr true OpEQ (VSlice TSint64 false [VInt KI64 9007199254740993; VInt KI64 4611686018427387905]);
                                 Build_expr true OpEQ (VSlice TSjsonNumber false [VJson [49; 101; 51]%N; VJson [55]%N]);
                                 Build_expr true OpEQ (VList false [VJson [49; 46; 48]%N; VStr [114; 101; 100]%N; VJson [50; 46; 55]%N; VJson [45; 48]%N]);
                                 Build_expr false OpEQ (VSlice TSint true [])])]]],
   mk_case [Build_doc 1 [[(0%N, [Build_expr true OpEQ (VList false [F 9007199254740992 false [57; 46; 48; 48; 55; 49; 57; 57; 50; 53; 52; 55; 52; 48; 57; 57; 50; 101; 43; 49; 53]%N;
                                                                   F 4611686018427387904 false [52; 46; 54; 49; 49; 54; 56; 54; 48; 49; 56; 52; 50; 55; 51; 56; 56; 101; 43; 49; 56]%N]);
                                 Build_expr true OpEQ (VList false [F 1000 false [49; 48; 48; 48]%N; F 7 false [55]%N]);
                                 Build_expr true OpEQ (VList false [F 1 false [49]%N; VStr [114; 101; 100]%N; F 2 true [50; 46; 55]%N; F 0 false [45; 48]%N]);
                                 Build_expr false OpEQ VNil])]]]).
(* 3: a decoder that kept 2^53+1 exactly would NOT be the one modelled *)
Definition j3 : jcase :=
  (mk_case [Build_doc 1 [[(0%N, [Build_expr true OpEQ (VInt KI64 9007199254740993)])]]],
   mk_case [Build_doc 1 [[(0%N, [Build_expr true OpEQ (F 9007199254740993 false [57; 46; 48; 48; 55; 49; 57; 57; 50; 53; 52; 55; 52; 48; 57; 57; 51; 101; 43; 49; 53]%N)])]]]).

Example model_ok_1 : json_model_ok j1 = true /\ json_model_ok_strict j1 = true /\ json_model_bad j1 = []. Proof. vm_compute. repeat split. Qed.
Example model_ok_2 : json_model_ok j2 = true /\ json_model_ok_strict j2 = true. Proof. vm_compute. repeat split. Qed.
Example model_ok_3 : json_model_ok j3 = false /\ json_model_bad j3 = [(1, 0%N)]. Proof. vm_compute. repeat split. Qed.
Example model_run : run [j1; j2; j3] = (3%N, 0%N, [(2%N, 1%N, 0%N)]). Proof. vm_compute. reflexivity. Qed.
