(* Build cache (index_builder.go tryUseIndexingTxCache / tryCacheIndexingTx and the holders'
   Encode / DecodeTxData), repaired tree: one record per conjunction id with one slot per field name;
   conjunctions with several expressions on one field are not cached; every holder decodes with the
   codec it encodes with; a kept interval keeps its bounds. *)
From Coq Require Import List NArith ZArith Bool.
From BE Require Import Model.GoTypes Model.GoVal Model.Parsers Model.Index.
Import ListNotations.

(* the bytes of a slot, abstractly: which codec wrote it and what it carries *)
Inductive enc :=
| EncIds (ids : list pid)          (* cache.Uint64ListValues (protobuf) *)
| EncKw (ks : list text)           (* cache.StrListValues (protobuf) *)
| EncLtGt (eq : option (list Z)) (rg : option (Z * Z)).   (* LtGtTxData (JSON): eq_values, range *)

Definition encode (t : txdata) : enc :=
  match t with
  | TxIds ids => EncIds ids
  | TxKeywords ks => EncKw ks
  | TxEq zs => EncLtGt (Some zs) None
  | TxRange l r => EncLtGt None (Some (l, r))
  end.

(* DecodeTxData of the holder of a field's container kind; None = decode error (the builder then parses) *)
Definition decode (k : cont_kind) (e : enc) : option txdata :=
  match k, e with
  | CDefault, EncIds ids => Some (TxIds ids)
  | CAc, EncKw ks => Some (TxKeywords ks)
  | CRange, EncLtGt (Some zs) None => Some (TxEq zs)
  | CRange, EncLtGt None (Some (l, r)) => Some (TxRange l r)
  | _, _ => None
  end.

(* the pinned tree, for the refutations: Range serialised as {} (bounds lost) *)
Definition decode_pinned_range (e : enc) : option txdata :=
  match e with
  | EncLtGt (Some zs) None => Some (TxEq zs)
  | EncLtGt None (Some _) => Some (TxRange 0 0)
  | _ => None
  end.

Definition tx_items (t : txdata) : nat :=
  match t with TxIds ids => length ids | TxKeywords ks => length ks | TxEq zs => length zs | TxRange _ _ => 0 end.
(* BetterToCache: len(values) > BetterToCacheMaxItemsCount *)
Definition better_to_cache (thr : nat) (t : txdata) : bool := Nat.ltb thr (tx_items t).

Definition record := list (fname * (N * enc)).        (* field name -> (entry id, encoded data) *)

Fixpoint has_dup_field (txs : list tx) : bool :=
  match txs with
  | [] => false
  | t :: rest => existsb (fun u => N.eqb (fd_name (tx_field u)) (fd_name (tx_field t))) rest || has_dup_field rest
  end.

(* TxData.Encode: the protobuf codec of the pattern holder refuses a keyword that is not valid UTF-8
   (proto.Marshal: "string field contains invalid UTF-8"); the other codecs carry numbers only *)
Definition encodable (t : txdata) : bool :=
  match t with TxKeywords ks => forallb valid_text ks | _ => true end.

(* tryCacheIndexingTx: None = nothing is written (nothing worth caching, a transaction that does not
   encode, or two transactions on one field: the function returns before Set) *)
Definition record_of (thr : nat) (txs : list tx) : option record :=
  if negb (existsb (fun t => better_to_cache thr (tx_data t)) txs) then None
  else if has_dup_field txs then None
  else if negb (forallb (fun t => encodable (tx_data t)) txs) then None
  else Some (map (fun t => (fd_name (tx_field t), (tx_eid t, encode (tx_data t)))) txs).

(* the pinned tree wrote one slot per field name, later expressions overwriting earlier ones *)
Definition record_of_pinned (txs : list tx) : record :=
  fold_left (fun acc t => aupdate N.eqb (fd_name (tx_field t)) (fun _ => (tx_eid t, encode (tx_data t))) acc) txs [].

(* tryUseIndexingTxCache: rebuild the transactions from a record, given the field table lookup *)
Definition txs_of_record (desc_of : fname -> fdesc) (r : record) : option (list tx) :=
  (fix go (r : record) :=
     match r with
     | [] => Some []
     | (f, (eid, e)) :: rest =>
       match decode (fd_cont (desc_of f)) e, go rest with
       | Some d, Some ts => Some ({| tx_field := desc_of f; tx_eid := eid; tx_data := d |} :: ts)
       | _, _ => None
       end
     end) r.
