(* END-TO-END exactness of the executable posting-list index (Model/Index.v), default-container
   fields, repaired builder (wildcard_first = false), both index kinds, for EVERY bad-conjunction
   policy and EVERY outcome list: the hypotheses `Forall (eq AddOk) os` and
   `pol <> PolSkip \/ all conjunctions conj_ok` of IndexCorrect.index_correct / SpecBridge.index_sat_hits
   are removed.  Everything is Qed and closed under the global context.

   PART A (model level, NO hypothesis on the documents)
     conj_res parsers cj     how parsing conjunction cj ends: POk tt, or the FIRST failure in field /
                             expression order (PErr: the value does not parse; PPanic: operator other
                             than EQ on a default-container field; PDiverge / PUnmodelled)
     Section Run             generic in cres : conj -> pres unit (reused by IndexCorrectHoldersPolicy.v):
       xrun_conjs / xrun_doc   the (conjunction id, conjunction) pairs a document leaves in the index,
                               and its outcome;  xidb ds / xouts ds: of a list of documents
       xpasses d i c           conjunction c at position i lets the builder go on (it has a conjunction
                               id, and parses or -- under PolSkip -- fails with a parse ERROR)
       xm_indexed d k cj       cj is the k-th conjunction of d, d has 1..255 conjunctions, cj parses and
                               all conjunctions before it pass
       run_doc_In / idb_In     In (cid, cj) (xidb ds) <-> has_conj ds d k cj cid /\ xm_indexed d k cj
       run_doc_out_ok          outcome AddOk <-> valid and every conjunction passes
     run_conjs / run_doc / idb / outs / passes / m_indexed pol parsers: the instance cres := conj_res parsers
     add_documents_run       add_documents false (new_builder ...) ds = (st, os) ->
                             FInv st /\ Repr st (idb ds) /\ os = outs ds
     policy_hits             retrieve_hits reports exactly the satisfied members of idb ds, once each
     policy_docs, hits_docs  the same for `retrieve` (document ids)
   PART B (against Model/Spec.v, fields = []), hypotheses doc_good, sizes_ok, skip_ok (see there):
     index_sat_hits_policy   (1) reported triples are a Permutation of sat_hits, NoDup
     index_correct_policy    (2) reported iff s_indexed (Spec's reading of "indexed") and satisfied
     outcomes_policy(_eq)    (3) the outcome list
     retrieve_docs_policy, rejected_no_trace_state / _retrieve, skip_strip_retrieve(_spec)   (4)
   PART C: PolicyWitness -- the hypotheses are satisfiable for every policy, the conclusions are not
     trivial, and each extra hypothesis is needed (skip_panic, oversize, error_policy_panics,
     strip_needs_255). *)
From Coq Require Import List NArith ZArith Bool Lia Permutation Arith Sorting.Sorted.
From BE Require Import Model.GoTypes Model.GoVal Model.Parsers Model.Index Model.Spec.
From BE Require Import Proofs.ParsersProof Proofs.CanonProof Proofs.DenoteProof Proofs.IndexBuildInv Proofs.IndexCorrect Proofs.SpecBridge.
From BE Require Gen.IdsGen Proofs.IdsProof Proofs.RoaringProof Proofs.NoTrace Proofs.BuilderProof.
Import ListNotations.
Local Open Scope Z_scope.

(* ================================================================================== *)
(* A.1  how parsing a conjunction ends                                                  *)
(* ================================================================================== *)
Definition shape {A} (r : pres A) : pres unit :=
  match r with POk _ => POk tt | PErr => PErr | PPanic => PPanic | PDiverge => PDiverge | PUnmodelled => PUnmodelled end.

Definition expr_res (p : parser_kind) (e : expr) : pres unit :=
  match e_op e with OpEQ => shape (parse_value p (e_val e)) | _ => PPanic end.
Fixpoint exprs_res (p : parser_kind) (es : list expr) : pres unit :=
  match es with
  | [] => POk tt
  | e :: es' => match expr_res p e with POk _ => exprs_res p es' | r => r end
  end.
Fixpoint conj_res (parsers : fname -> parser_kind) (cj : conj) : pres unit :=
  match cj with
  | [] => POk tt
  | (f, es) :: cj' => match exprs_res (parsers f) es with POk _ => conj_res parsers cj' | r => r end
  end.

Lemma exprs_res_ok p es : exprs_res p es = POk tt <-> forallb (expr_ok p) es = true.
Proof.
  induction es as [|e es IH]; cbn [exprs_res forallb]; [tauto|].
  unfold expr_res, expr_ok at 1. destruct (e_op e); cbn [andb]; try (split; discriminate).
  destruct (parse_value p (e_val e)); cbn [shape andb]; try (split; discriminate). exact IH.
Qed.
Lemma conj_res_ok parsers cj : conj_res parsers cj = POk tt <-> conj_ok parsers cj = true.
Proof.
  induction cj as [|[f es] cj IH]; cbn [conj_res]; [unfold conj_ok; cbn; tauto|].
  unfold conj_ok. cbn [forallb fst snd]. fold (conj_ok parsers cj).
  pose proof (exprs_res_ok (parsers f) es) as He.
  destruct (exprs_res (parsers f) es) as [[]| | | |]; destruct (forallb (expr_ok (parsers f)) es); cbn [andb];
    try (destruct He as [He1 He2]; first [specialize (He1 eq_refl)|specialize (He2 eq_refl)]; discriminate);
    try exact IH; split; discriminate.
Qed.
Lemma conj_res_not_ok parsers cj : conj_res parsers cj <> POk tt <-> conj_ok parsers cj = false.
Proof. rewrite conj_res_ok. destruct (conj_ok parsers cj); split; congruence. Qed.

(* the policy switch *)
Definition pol_out (pol : policy) : add_out :=
  match pol with PolSkip => AddOk | PolError => AddErr | PolPanic => AddPanic end.
Definition res_out (pol : policy) (r : pres unit) : add_out :=
  match r with
  | POk _ => AddOk | PErr => pol_out pol | PPanic => AddPanic
  | PDiverge => AddDiverge | PUnmodelled => AddUnmodelled
  end.

(* ================================================================================== *)
(* A.2  what a document leaves in the index, and its outcome -- generic in `cres`, the  *)
(*      function telling how parsing a conjunction ends                                *)
(* ================================================================================== *)
Section Run.
Variables (pol : policy) (cres : conj -> pres unit).

Fixpoint xrun_conjs (d : Z) (ics : list (Z * conj)) : cdb * add_out :=
  match ics with
  | [] => ([], AddOk)
  | (i, c) :: rest =>
    match IdsGen.NewConjID d i (calc_size c) with
    | None => ([], AddPanic)
    | Some cid =>
      match cres c with
      | POk _ => let '(db, o) := xrun_conjs d rest in ((cid, c) :: db, o)
      | PErr => match pol with
                | PolSkip => xrun_conjs d rest
                | PolError => ([], AddErr)
                | PolPanic => ([], AddPanic)
                end
      | PPanic => ([], AddPanic)
      | PDiverge => ([], AddDiverge)
      | PUnmodelled => ([], AddUnmodelled)
      end
    end
  end.

Definition xrun_doc (d : doc) : cdb * add_out :=
  match d_conjs d with
  | [] => ([], AddErr)
  | _ => if 255 <? Z.of_nat (length (d_conjs d)) then ([], AddErr)
         else xrun_conjs (d_id d) (indexed_from 0 (d_conjs d))
  end.

Definition xidb (ds : list doc) : cdb := flat_map (fun d => fst (xrun_doc d)) ds.
Definition xouts (ds : list doc) : list add_out := map (fun d => snd (xrun_doc d)) ds.

(* ---- membership in the indexed database, by position in the ORIGINAL document ---- *)
(* conjunction c at position i lets the builder go on to the next conjunction *)
Definition xpasses (d : Z) (i : Z) (c : conj) : Prop :=
  IdsGen.NewConjID d i (calc_size c) <> None /\
  (cres c = POk tt \/ (pol = PolSkip /\ cres c = PErr)).

Lemma passes_dec d i c : {xpasses d i c} + {~ xpasses d i c}.
Proof.
  unfold xpasses. destruct (IdsGen.NewConjID d i (calc_size c)); [|right; intros [H _]; congruence].
  destruct (cres c) as [[]| | | |].
  - left. split; [discriminate|left; reflexivity].
  - destruct pol; [right|left|right]; try (split; [discriminate|right; split; reflexivity]);
      intros [_ [H|[H _]]]; discriminate.
  - right. intros [_ [H|[_ H]]]; discriminate.
  - right. intros [_ [H|[_ H]]]; discriminate.
  - right. intros [_ [H|[_ H]]]; discriminate.
Qed.

Lemma run_conjs_In d : forall cs n cid cj,
  In (cid, cj) (fst (xrun_conjs d (indexed_from n cs))) <->
  exists k, nth_error cs k = Some cj /\ IdsGen.NewConjID d (n + Z.of_nat k) (calc_size cj) = Some cid /\
            cres cj = POk tt /\
            forall j cj', (j < k)%nat -> nth_error cs j = Some cj' -> xpasses d (n + Z.of_nat j) cj'.
Proof.
  induction cs as [|c cs IH]; intros n cid cj; cbn [indexed_from xrun_conjs].
  - cbn [fst In]. split; [intros []|]. intros (k & Hk & _). destruct k; discriminate.
  - assert (Hstop : ~ xpasses d n c ->
              ~ exists k, nth_error (c :: cs) k = Some cj /\ IdsGen.NewConjID d (n + Z.of_nat k) (calc_size cj) = Some cid /\
                cres cj = POk tt /\
                forall j cj', (j < k)%nat -> nth_error (c :: cs) j = Some cj' -> xpasses d (n + Z.of_nat j) cj').
    { intros Hnp (k & Hk & Hc & Hr & Hpre). destruct k as [|k].
      - cbn [nth_error] in Hk. inversion Hk; subst cj. apply Hnp. rewrite Z.add_0_r in Hc.
        split; [congruence|left; exact Hr].
      - apply Hnp. specialize (Hpre O c ltac:(lia) eq_refl). rewrite Z.add_0_r in Hpre. exact Hpre. }
    assert (Hgo : xpasses d n c ->
              ((exists k, nth_error (c :: cs) k = Some cj /\ IdsGen.NewConjID d (n + Z.of_nat k) (calc_size cj) = Some cid /\
                cres cj = POk tt /\
                forall j cj', (j < k)%nat -> nth_error (c :: cs) j = Some cj' -> xpasses d (n + Z.of_nat j) cj') <->
               (c = cj /\ IdsGen.NewConjID d n (calc_size cj) = Some cid /\ cres cj = POk tt) \/
               In (cid, cj) (fst (xrun_conjs d (indexed_from (n + 1) cs))))).
    { intros Hp. rewrite IH. split.
      - intros (k & Hk & Hc & Hr & Hpre). destruct k as [|k].
        + left. cbn [nth_error] in Hk. inversion Hk; subst. rewrite Z.add_0_r in Hc. auto.
        + right. exists k. cbn [nth_error] in Hk. split; [exact Hk|].
          split; [replace (n + 1 + Z.of_nat k) with (n + Z.of_nat (S k)) by lia; exact Hc|]. split; [exact Hr|].
          intros j cj' Hj Hn. replace (n + 1 + Z.of_nat j) with (n + Z.of_nat (S j)) by lia.
          apply Hpre; [lia|exact Hn].
      - intros [(-> & Hc & Hr)|(k & Hk & Hc & Hr & Hpre)].
        + exists O. split; [reflexivity|]. rewrite Z.add_0_r. split; [exact Hc|]. split; [exact Hr|]. intros j cj' Hj. lia.
        + exists (S k). split; [exact Hk|].
          split; [replace (n + Z.of_nat (S k)) with (n + 1 + Z.of_nat k) by lia; exact Hc|]. split; [exact Hr|].
          intros [|j] cj' Hj Hn.
          * cbn [nth_error] in Hn. inversion Hn; subst. rewrite Z.add_0_r. exact Hp.
          * replace (n + Z.of_nat (S j)) with (n + 1 + Z.of_nat j) by lia. apply Hpre; [lia|exact Hn]. }
    destruct (passes_dec d n c) as [Hp|Hnp].
    + rewrite (Hgo Hp). clear Hgo Hstop. destruct Hp as [Hc Hr].
      destruct (IdsGen.NewConjID d n (calc_size c)) as [cid0|] eqn:Ec; [|congruence].
      destruct Hr as [Hr|[Hs Hr]]; rewrite Hr.
      * destruct (xrun_conjs d (indexed_from (n + 1) cs)) as [db' o']. cbn [fst In]. split.
        -- intros [[= <- <-]|H]; [left; auto|right; exact H].
        -- intros [(<- & Hc' & _)|H]; [left; congruence|right; exact H].
      * rewrite Hs. split; [auto|]. intros [(<- & _ & Hr')|H]; [congruence|exact H].
    + split; [|intros H; exfalso; exact (Hstop Hnp H)].
      intros H. exfalso. apply Hnp. unfold xpasses.
      destruct (IdsGen.NewConjID d n (calc_size c)) as [cid0|]; [|destruct H].
      destruct (cres c) as [[]| | | |]; try destruct H.
      * split; [discriminate|left; reflexivity].
      * destruct pol; try destruct H. split; [discriminate|right; split; reflexivity].
Qed.

Lemma run_doc_valid d : doc_valid d = true -> xrun_doc d = xrun_conjs (d_id d) (indexed_from 0 (d_conjs d)).
Proof.
  unfold doc_valid, xrun_doc. destruct (d_conjs d) as [|c cs]; [discriminate|]. cbn [negb andb].
  intros H. apply Z.leb_le in H. destruct (Z.ltb_spec 255 (Z.of_nat (length (c :: cs)))); [lia|reflexivity].
Qed.
Lemma run_doc_invalid d : doc_valid d = false -> xrun_doc d = ([], AddErr).
Proof.
  unfold doc_valid, xrun_doc. destruct (d_conjs d) as [|c cs]; [reflexivity|]. cbn [negb andb].
  intros H. apply Z.leb_gt in H. destruct (Z.ltb_spec 255 (Z.of_nat (length (c :: cs)))); [reflexivity|lia].
Qed.

(* the conjunction at position k of document d is INDEXED (model level) *)
Definition xm_indexed (d : doc) (k : nat) (cj : conj) : Prop :=
  doc_valid d = true /\ nth_error (d_conjs d) k = Some cj /\ cres cj = POk tt /\
  forall j cj', (j < k)%nat -> nth_error (d_conjs d) j = Some cj' -> xpasses (d_id d) (Z.of_nat j) cj'.

Theorem run_doc_In d cid cj :
  In (cid, cj) (fst (xrun_doc d)) <->
  exists k, xm_indexed d k cj /\ IdsGen.NewConjID (d_id d) (Z.of_nat k) (calc_size cj) = Some cid.
Proof.
  destruct (doc_valid d) eqn:Ev.
  - rewrite (run_doc_valid d Ev), run_conjs_In. unfold xm_indexed. rewrite Ev. split.
    + intros (k & A & B & C & D). exists k. rewrite Z.add_0_l in B. split; [|exact B].
      split; [reflexivity|]. split; [exact A|]. split; [exact C|].
      intros j cj' Hj Hn. specialize (D j cj' Hj Hn). rewrite Z.add_0_l in D. exact D.
    + intros (k & (_ & A & C & D) & B). exists k. rewrite Z.add_0_l. split; [exact A|]. split; [exact B|].
      split; [exact C|]. intros j cj' Hj Hn. rewrite Z.add_0_l. apply D; assumption.
  - rewrite (run_doc_invalid d Ev). cbn [fst In]. split; [intros []|].
    intros (k & (H & _) & _). unfold xm_indexed in H. congruence.
Qed.

Theorem idb_In ds cid cj :
  In (cid, cj) (xidb ds) <->
  exists d k, has_conj ds d k cj cid /\ xm_indexed d k cj.
Proof.
  unfold xidb. rewrite in_flat_map. split.
  - intros (d & Hd & H). apply run_doc_In in H. destruct H as (k & Hm & Hc).
    exists d, k. split; [|exact Hm]. split; [exact Hd|]. split; [apply Hm|exact Hc].
  - intros (d & k & (Hd & Hn & Hc) & Hm). exists d. split; [exact Hd|]. apply run_doc_In. exists k. auto.
Qed.

Lemma run_conjs_out_ok d : forall cs n,
  snd (xrun_conjs d (indexed_from n cs)) = AddOk <->
  forall j cj', nth_error cs j = Some cj' -> xpasses d (n + Z.of_nat j) cj'.
Proof.
  induction cs as [|c cs IH]; intros n; cbn [indexed_from xrun_conjs].
  - cbn [snd]. split; [|reflexivity]. intros _ j cj' H. destruct j; discriminate.
  - assert (Hshift : (forall j cj', nth_error (c :: cs) j = Some cj' -> xpasses d (n + Z.of_nat j) cj') <->
             xpasses d n c /\
             forall j cj', nth_error cs j = Some cj' -> xpasses d (n + 1 + Z.of_nat j) cj').
    { split.
      - intros H. split; [specialize (H O c eq_refl); rewrite Z.add_0_r in H; exact H|].
        intros j cj' Hn. replace (n + 1 + Z.of_nat j) with (n + Z.of_nat (S j)) by lia. apply H. exact Hn.
      - intros [H0 H] [|j] cj' Hn.
        + inversion Hn; subst. rewrite Z.add_0_r. exact H0.
        + replace (n + Z.of_nat (S j)) with (n + 1 + Z.of_nat j) by lia. apply H. exact Hn. }
    rewrite Hshift, <- IH. unfold xpasses.
    destruct (IdsGen.NewConjID d n (calc_size c)) as [cid|].
    2:{ cbn [snd]. split; [discriminate|]. intros [[H _] _]. congruence. }
    destruct (cres c) as [[]| | | |].
    + destruct (xrun_conjs d (indexed_from (n + 1) cs)) as [db o]. cbn [snd]. split.
      * intros ->. split; [split; [discriminate|left; reflexivity]|reflexivity].
      * intros [_ H]. exact H.
    + destruct pol; cbn [snd].
      * split; [discriminate|]. intros [[_ [H|[H _]]] _]; discriminate.
      * split; [intros H; split; [split; [discriminate|right; split; reflexivity]|exact H]|intros [_ H]; exact H].
      * split; [discriminate|]. intros [[_ [H|[H _]]] _]; discriminate.
    + cbn [snd]. split; [discriminate|]. intros [[_ [H|[_ H]]] _]; discriminate.
    + cbn [snd]. split; [discriminate|]. intros [[_ [H|[_ H]]] _]; discriminate.
    + cbn [snd]. split; [discriminate|]. intros [[_ [H|[_ H]]] _]; discriminate.
Qed.

Lemma run_conjs_out_cases d : forall cs n,
  (forall cj, In cj cs -> cres cj = POk tt \/ cres cj = PErr \/ cres cj = PPanic) ->
  let o := snd (xrun_conjs d (indexed_from n cs)) in
  (o = AddOk \/ o = AddErr \/ o = AddPanic) /\ (pol = PolPanic -> o = AddOk \/ o = AddPanic).
Proof.
  induction cs as [|c cs IH]; intros n H; cbn [indexed_from xrun_conjs]; cbv zeta.
  - cbn [snd]. auto.
  - specialize (IH (n + 1) (fun cj Hc => H cj (or_intror Hc))). cbv zeta in IH.
    destruct (IdsGen.NewConjID d n (calc_size c)) as [cid|]; [|cbn [snd]; auto].
    destruct (H c (or_introl eq_refl)) as [E|[E|E]]; rewrite E.
    + destruct (xrun_conjs d (indexed_from (n + 1) cs)) as [db o]. cbn [snd] in *. exact IH.
    + destruct pol; cbn [snd]; auto. split; [auto|discriminate].
    + cbn [snd]. auto.
Qed.

Lemma run_doc_bad_id d : doc_valid d = true -> valid_doc_id (d_id d) = false ->
  xrun_doc d = ([], AddPanic).
Proof.
  intros Hv Hid. rewrite (run_doc_valid d Hv). unfold doc_valid in Hv.
  destruct (d_conjs d) as [|c cs]; [discriminate|]. cbn [indexed_from xrun_conjs].
  rewrite IdsProof.NewConjID_refuses; [reflexivity|]. unfold valid_doc_id in Hid. apply Z.leb_gt in Hid. lia.
Qed.


Lemma run_doc_out_ok d :
  snd (xrun_doc d) = AddOk <->
  doc_valid d = true /\ forall j cj', nth_error (d_conjs d) j = Some cj' -> xpasses (d_id d) (Z.of_nat j) cj'.
Proof.
  destruct (doc_valid d) eqn:Hv.
  - rewrite (run_doc_valid d Hv), run_conjs_out_ok. split.
    + intros H. split; [reflexivity|]. intros j cj' Hn. specialize (H j cj' Hn). rewrite Z.add_0_l in H. exact H.
    + intros [_ H] j cj' Hn. rewrite Z.add_0_l. apply H. exact Hn.
  - rewrite (run_doc_invalid d Hv). cbn [snd]. split; [discriminate|]. intros [H _]. discriminate.
Qed.

End Run.

(* the default-container instance *)
Notation run_conjs pol parsers := (xrun_conjs pol (conj_res parsers)).
Notation run_doc pol parsers := (xrun_doc pol (conj_res parsers)).
Notation idb pol parsers := (xidb pol (conj_res parsers)).
Notation outs pol parsers := (xouts pol (conj_res parsers)).
Notation passes pol parsers := (xpasses pol (conj_res parsers)).
Notation m_indexed pol parsers := (xm_indexed pol (conj_res parsers)).

(* the run functions only depend on `cres` pointwise *)
Lemma xrun_conjs_ext pol c1 c2 d : (forall c, c1 c = c2 c) ->
  forall ics, xrun_conjs pol c1 d ics = xrun_conjs pol c2 d ics.
Proof.
  intros H. induction ics as [|[i c] ics IH]; cbn [xrun_conjs]; [reflexivity|]. rewrite H, IH. reflexivity.
Qed.
Lemma xrun_doc_ext pol c1 c2 d : (forall c, c1 c = c2 c) -> xrun_doc pol c1 d = xrun_doc pol c2 d.
Proof. intros H. unfold xrun_doc. rewrite (xrun_conjs_ext pol c1 c2 (d_id d) H). reflexivity. Qed.
Lemma xidb_ext pol c1 c2 ds : (forall c, c1 c = c2 c) -> xidb pol c1 ds = xidb pol c2 ds.
Proof.
  intros H. unfold xidb. induction ds as [|d ds IH]; cbn [flat_map]; [reflexivity|].
  rewrite (xrun_doc_ext pol c1 c2 d H), IH. reflexivity.
Qed.
Lemma xouts_ext pol c1 c2 ds : (forall c, c1 c = c2 c) -> xouts pol c1 ds = xouts pol c2 ds.
Proof. intros H. unfold xouts. apply map_ext. intros d. rewrite (xrun_doc_ext pol c1 c2 d H). reflexivity. Qed.
Lemma xm_indexed_ext pol c1 c2 d k cj : (forall c, c1 c = c2 c) ->
  (xm_indexed pol c1 d k cj <-> xm_indexed pol c2 d k cj).
Proof.
  intros H. unfold xm_indexed, xpasses. rewrite H. split; intros (A & B & C & D); (split; [exact A|split; [exact B|split; [exact C|]]]);
    intros j cj' Hj Hn; specialize (D j cj' Hj Hn); [rewrite <- H|rewrite H]; exact D.
Qed.

(* ================================================================================== *)
(* A.3  the builder, any outcome                                                        *)
(* ================================================================================== *)
Section Build.
Variables (kind : index_kind) (pol : policy) (parsers : fname -> parser_kind).
Notation FInv := (FInv kind pol parsers).
Notation Repr := (Repr kind parsers).

Lemma index_exprs_res : forall es st k cid f acc st' r,
  FInv st -> index_exprs st k cid f es acc = (st', r) -> shape r = exprs_res (parsers f) es.
Proof.
  induction es as [|e es IH]; intros st k cid f acc st' r HF H; cbn [index_exprs] in H.
  - inversion H; subst. reflexivity.
  - destruct (ensure_field_spec kind pol parsers st f HF) as (F1 & Q1 & Hfd & K1).
    destruct (ensure_field st f) as [st1 fd]. cbn [fst snd] in *. subst fd.
    rewrite (update_nth_id (fun ec => create_holder ec (mk_fd parsers f)) (fun ec => create_holder_default parsers ec f)) in H.
    set (st2 := with_conts st1 (b_conts st1)) in *.
    assert (F2 : FInv st2) by (destruct F1; split; auto).
    rewrite indexing_tx_default in H. cbn [exprs_res]. unfold expr_res.
    destruct (e_op e); try (inversion H; subst; reflexivity).
    destruct (parse_value (parsers f) (e_val e)) as [ids| | | |] eqn:Ep; cbn [pbind shape] in *;
      try (inversion H; subst; reflexivity).
    eapply IH; eassumption.
Qed.

Lemma index_conj_res : forall cj st k cid acc st' r,
  FInv st -> index_conj st k cid cj acc = (st', r) -> shape r = conj_res parsers cj.
Proof.
  induction cj as [|[f es] cj IH]; intros st k cid acc st' r HF H; cbn [index_conj] in H.
  - inversion H; subst. reflexivity.
  - destruct (index_exprs st k cid f es acc) as [st1 r1] eqn:E1.
    destruct (index_exprs_spec kind pol parsers _ _ _ _ _ _ _ _ HF E1) as (F1 & _).
    pose proof (index_exprs_res _ _ _ _ _ _ _ _ HF E1) as R1. cbn [conj_res]. rewrite <- R1.
    destruct r1 as [acc'| | | |]; cbn [shape]; try (inversion H; subst; reflexivity).
    eapply IH; eassumption.
Qed.

Lemma add_conj_gen d st i c st' o db :
  FInv st -> Repr st db -> add_conj false d st (i, c) = (st', o) ->
  FInv st' /\
  match IdsGen.NewConjID d i (calc_size c) with
  | None => Repr st' db /\ o = AddPanic
  | Some cid => o = res_out pol (conj_res parsers c) /\
                Repr st' (db ++ (if conj_ok parsers c then [(cid, c)] else []))
  end.
Proof.
  intros HF HR H. pose proof H as H0. unfold add_conj in H.
  destruct (IdsGen.NewConjID d i (calc_size c)) as [cid|] eqn:Ec.
  2:{ inversion H; subst. auto. }
  cbn [andb negb] in H.
  pose proof (ensure_cont_FInv kind pol parsers st (calc_size c) HF) as F0.
  pose proof (ensure_cont_quiet st (calc_size c)) as Q0.
  destruct (index_conj (ensure_cont st (calc_size c)) (calc_size c) cid c []) as [st2 r] eqn:Ei.
  destruct (index_conj_spec kind pol parsers _ _ _ _ _ _ _ F0 Ei) as (F2 & Q2 & O2 & _).
  pose proof (index_conj_res _ _ _ _ _ _ _ F0 Ei) as R2.
  assert (Q02 : Quiet st st2) by (eapply Quiet_trans; eassumption).
  assert (Hfail : is_ok r = false -> (st2, res_out pol (shape r)) = (st', o) ->
            FInv st' /\ o = res_out pol (conj_res parsers c) /\
            Repr st' (db ++ (if conj_ok parsers c then [(cid, c)] else []))).
  { intros Hr E. inversion E; subst. rewrite <- O2, Hr, app_nil_r, R2.
    split; [exact F2|]. split; [reflexivity|]. eapply Repr_quiet; eassumption. }
  destruct r as [txs| | | |]; try (apply Hfail; [reflexivity|]; cbn [shape res_out]; exact H).
  - (* parsed *)
    assert (o = AddOk) by (inversion H; reflexivity). subst o.
    destruct (add_conj_spec kind pol parsers _ _ _ _ _ _ HF HR H0) as (cid' & Ec' & F' & R' & _).
    rewrite Ec in Ec'. inversion Ec'; subst cid'.
    split; [exact F'|]. split; [|exact R']. rewrite <- R2. reflexivity.
  - apply Hfail; [reflexivity|]. cbn [shape res_out]. rewrite <- (fi_pol _ _ _ _ HF).
    unfold pol_out. destruct (b_policy st); exact H.
Qed.

Lemma add_conjs_gen d : forall ics st st' o db,
  FInv st -> Repr st db -> add_conjs false d st ics = (st', o) ->
  FInv st' /\ Repr st' (db ++ fst (run_conjs pol parsers d ics)) /\ o = snd (run_conjs pol parsers d ics).
Proof.
  induction ics as [|[i c] ics IH]; intros st st' o db HF HR H; cbn [add_conjs] in H.
  - inversion H; subst. cbn [xrun_conjs fst snd]. rewrite app_nil_r. auto.
  - destruct (add_conj false d st (i, c)) as [st1 o1] eqn:E1.
    destruct (add_conj_gen _ _ _ _ _ _ _ HF HR E1) as (F1 & G1). cbn [xrun_conjs].
    destruct (IdsGen.NewConjID d i (calc_size c)) as [cid|] eqn:Ec.
    2:{ destruct G1 as [R1 ->]. inversion H; subst. cbn [fst snd]. rewrite app_nil_r. auto. }
    destruct G1 as [Eo R1].
    pose proof (conj_res_ok parsers c) as Hok.
    destruct (conj_res parsers c) as [[]| | | |]; cbn [res_out] in Eo.
    + subst o1. rewrite (proj1 Hok eq_refl) in R1.
      destruct (IH _ _ _ _ F1 R1 H) as (F2 & R2 & E2).
      destruct (run_conjs pol parsers d ics) as [db' o']. cbn [fst snd] in *.
      split; [exact F2|]. split; [|exact E2]. rewrite <- app_assoc in R2. exact R2.
    + assert (Hno : conj_ok parsers c = false).
      { destruct (conj_ok parsers c); [|reflexivity]. destruct Hok as [_ Hok]. specialize (Hok eq_refl). discriminate. }
      rewrite Hno, app_nil_r in R1. unfold pol_out in Eo.
      destruct pol; subst o1.
      * inversion H; subst. cbn [fst snd]. rewrite app_nil_r. auto.
      * exact (IH _ _ _ _ F1 R1 H).
      * inversion H; subst. cbn [fst snd]. rewrite app_nil_r. auto.
    + assert (Hno : conj_ok parsers c = false).
      { destruct (conj_ok parsers c); [|reflexivity]. destruct Hok as [_ Hok]. specialize (Hok eq_refl). discriminate. }
      rewrite Hno, app_nil_r in R1. subst o1. inversion H; subst. cbn [fst snd]. rewrite app_nil_r. auto.
    + assert (Hno : conj_ok parsers c = false).
      { destruct (conj_ok parsers c); [|reflexivity]. destruct Hok as [_ Hok]. specialize (Hok eq_refl). discriminate. }
      rewrite Hno, app_nil_r in R1. subst o1. inversion H; subst. cbn [fst snd]. rewrite app_nil_r. auto.
    + assert (Hno : conj_ok parsers c = false).
      { destruct (conj_ok parsers c); [|reflexivity]. destruct Hok as [_ Hok]. specialize (Hok eq_refl). discriminate. }
      rewrite Hno, app_nil_r in R1. subst o1. inversion H; subst. cbn [fst snd]. rewrite app_nil_r. auto.
Qed.

Lemma add_document_gen st d st' o db :
  FInv st -> Repr st db -> add_document false st d = (st', o) ->
  FInv st' /\ Repr st' (db ++ fst (run_doc pol parsers d)) /\ o = snd (run_doc pol parsers d).
Proof.
  intros HF HR H. unfold add_document in H. unfold xrun_doc.
  destruct (d_conjs d) as [|c0 cs] eqn:Ed.
  - inversion H; subst. cbn [fst snd]. rewrite app_nil_r. auto.
  - rewrite <- Ed in *. destruct (255 <? Z.of_nat (length (d_conjs d))).
    + inversion H; subst. cbn [fst snd]. rewrite app_nil_r. auto.
    + eapply add_conjs_gen; eassumption.
Qed.

Lemma add_documents_gen : forall ds st st' os db,
  FInv st -> Repr st db -> add_documents false st ds = (st', os) ->
  FInv st' /\ Repr st' (db ++ idb pol parsers ds) /\ os = outs pol parsers ds.
Proof.
  induction ds as [|d ds IH]; intros st st' os db HF HR H; cbn [add_documents] in H.
  - inversion H; subst. cbn. rewrite app_nil_r. auto.
  - destruct (add_document false st d) as [st1 o] eqn:E1. destruct (add_documents false st1 ds) as [st2 os'] eqn:E2.
    inversion H; subst.
    destruct (add_document_gen _ _ _ _ _ HF HR E1) as (F1 & R1 & ->).
    destruct (IH _ _ _ _ F1 R1 E2) as (F2 & R2 & ->).
    split; [exact F2|]. split; [|reflexivity].
    unfold xidb in *. cbn [flat_map]. rewrite app_assoc. exact R2.
Qed.

End Build.

(* ================================================================================== *)
(* A.4  the fresh builder, any policy, any outcomes                                     *)
(* ================================================================================== *)
Theorem add_documents_run kind pol thr parsers ds st os :
  add_documents false (new_builder kind pol thr parsers) ds = (st, os) ->
  FInv kind pol parsers st /\ Repr kind parsers st (idb pol parsers ds) /\ os = outs pol parsers ds.
Proof.
  intros H.
  exact (add_documents_gen kind pol parsers ds _ _ _ [] (new_builder_FInv kind pol thr parsers)
           (new_builder_Repr kind pol thr parsers) H).
Qed.

(* retrieval reports exactly the satisfied members of the indexed database, once each *)
Theorem policy_hits kind pol thr parsers ds st os q :
  add_documents false (new_builder kind pol thr parsers) ds = (st, os) ->
  NoDup (map d_id ds) ->
  (forall d cj, In d ds -> In cj (d_conjs d) -> NoDup (map fst cj)) ->
  NoDup (map fst q) ->
  (forall f v, In (f, v) q -> exists ids, parse_assign (parsers f) v = POk ids) ->
  exists hits,
    retrieve_hits (build_index st) q = ROk hits /\
    NoDup (map snd hits) /\
    (forall x, In x (map snd hits) <-> exists cj, In (x, cj) (idb pol parsers ds) /\ conj_sat parsers q cj = true) /\
    (forall h, In h hits -> fst h = IdsGen.ConjID_DocID (snd h)).
Proof.
  intros Hadd Hnd Hcjs Hq Hqp.
  destruct (add_documents_run kind pol thr parsers ds st os Hadd) as (HF & HR & _).
  set (db := idb pol parsers ds) in *.
  assert (Hhas : forall cid cj, In (cid, cj) db -> exists d k, has_conj ds d k cj cid).
  { intros cid cj H. apply idb_In in H. destruct H as (d & k & H & _). eauto. }
  assert (H60 : forall cid cj, In (cid, cj) db -> (cid < 2^60)%N).
  { intros cid cj H. apply Hhas in H. destruct H as (d & k & H). apply (has_conj_facts _ _ _ _ _ H). }
  assert (Hu : forall cid cj cj', In (cid, cj) db -> In (cid, cj') db -> cj = cj').
  { intros cid cj cj' H H'. apply Hhas in H, H'. destruct H as (d & k & H), H' as (d' & k' & H').
    apply (has_conj_unique _ _ _ _ _ _ _ _ Hnd H H'). }
  assert (Hndc : forall cid cj, In (cid, cj) db -> NoDup (map fst cj)).
  { intros cid cj H. apply Hhas in H. destruct H as (d & k & Hd & Hn & _).
    apply (Hcjs d cj Hd). eapply nth_error_In. exact Hn. }
  assert (Hsz : forall cid cj, In (cid, cj) db -> IdsGen.ConjID_Size cid = calc_size cj).
  { intros cid cj H. apply Hhas in H. destruct H as (d & k & H). apply (has_conj_facts _ _ _ _ _ H). }
  destruct kind.
  - apply (kgroups_hits_correct IKGroups pol parsers st db HF HR H60 Hu q Hq Hqp Hndc eq_refl).
  - apply (compact_hits_correct ICompact pol parsers st db HF HR H60 Hu q Hq Hqp Hndc eq_refl Hsz).
Qed.


(* ================================================================================== *)
(* B.  SPEC: against Model/Spec.v (fields = []: default container)                      *)
(* ================================================================================== *)
(* Hypotheses on the documents (besides distinct ids / distinct fields per conjunction):
     doc_good      expression values well formed and inside the modelled fragment (SpecBridge)
     sizes_ok      every conjunction has fewer than 256 fields with an include expression
                   (NewConjID panics otherwise; Spec.pl_docok does not know -- Witness.oversize)
     skip_ok       under PolSkip no conjunction PANICS while parsing, i.e. its first failing
                   expression is not one with an operator other than EQ (the panic is not caught by
                   the policy switch -- Witness.skip_panic).  all_eq (every operator is EQ) implies it. *)
Definition sizes_ok (ds : list doc) : Prop :=
  forall d cj, In d ds -> In cj (d_conjs d) -> calc_size cj < 256.
Definition skip_ok (pol : policy) (parsers : fname -> parser_kind) (ds : list doc) : Prop :=
  pol = PolSkip -> forall d cj, In d ds -> In cj (d_conjs d) -> conj_res parsers cj <> PPanic.
Definition all_eq (ds : list doc) : Prop :=
  forall d cj f es e, In d ds -> In cj (d_conjs d) -> In (f, es) cj -> In e es -> e_op e = OpEQ.

Definition conj_good (parsers : fname -> parser_kind) (cj : conj) : Prop :=
  forall f es e, In (f, es) cj -> In e es -> wf_val (e_val e) /\ val_mod (parsers f) (e_val e).

Lemma expr_res_good (parsers : fname -> parser_kind) (f : fname) e : wf_val (e_val e) -> val_mod (parsers f) (e_val e) ->
  expr_res (parsers f) e = POk tt \/ expr_res (parsers f) e = PErr \/
  (expr_res (parsers f) e = PPanic /\ e_op e <> OpEQ).
Proof.
  intros Hw Hm. unfold expr_res. destruct (e_op e) eqn:Ho; try (right; right; split; [reflexivity|discriminate]).
  rewrite (parse_value_sem parsers f e Ho Hw Hm).
  destruct (expr_sem (mk_fd parsers f) e); cbn [option_map ans shape]; auto.
Qed.

Lemma exprs_res_good (parsers : fname -> parser_kind) (f : fname) es :
  (forall e, In e es -> wf_val (e_val e) /\ val_mod (parsers f) (e_val e)) ->
  exprs_res (parsers f) es = POk tt \/ exprs_res (parsers f) es = PErr \/
  (exprs_res (parsers f) es = PPanic /\ exists e, In e es /\ e_op e <> OpEQ).
Proof.
  induction es as [|e es IH]; intros H; cbn [exprs_res]; [auto|].
  destruct (H e (or_introl eq_refl)) as [Hw Hm].
  destruct (expr_res_good parsers f e Hw Hm) as [E|[E|[E Ho]]]; rewrite E.
  - destruct IH as [I|[I|[I (e' & He' & Ho')]]]; [intros e' He'; apply H; right; exact He'| | |]; auto.
    right. right. split; [exact I|]. exists e'. split; [right; exact He'|exact Ho'].
  - auto.
  - right. right. split; [reflexivity|]. exists e. split; [left; reflexivity|exact Ho].
Qed.

Lemma conj_res_good parsers cj : conj_good parsers cj ->
  conj_res parsers cj = POk tt \/ conj_res parsers cj = PErr \/
  (conj_res parsers cj = PPanic /\ exists f es e, In (f, es) cj /\ In e es /\ e_op e <> OpEQ).
Proof.
  induction cj as [|[f es] cj IH]; intros H; cbn [conj_res]; [auto|].
  destruct (exprs_res_good parsers f es (fun e He => H f es e (or_introl eq_refl) He)) as [E|[E|[E (e & He & Ho)]]]; rewrite E.
  - destruct IH as [I|[I|[I (f' & es' & e' & H1 & H2 & H3)]]]; [intros f' es' e' H1 H2; apply (H f' es' e'); [right; exact H1|exact H2]| | |]; auto.
    right. right. split; [exact I|]. exists f', es', e'. split; [right; exact H1|auto].
  - auto.
  - right. right. split; [reflexivity|]. exists f, es, e. split; [left; reflexivity|auto].
Qed.

Lemma all_eq_skip_ok pol parsers ds : (forall d, In d ds -> doc_good parsers d) -> all_eq ds -> skip_ok pol parsers ds.
Proof.
  intros Hg Ha _ d cj Hd Hcj E.
  destruct (conj_res_good parsers cj (fun f es e H1 H2 => Hg d Hd cj f es e Hcj H1 H2)) as [I|[I|[_ (f & es & e & H1 & H2 & H3)]]];
    try congruence.
  apply H3. exact (Ha d cj f es e Hd Hcj H1 H2).
Qed.

(* a conjunction parses iff it denotes *)
Lemma conj_res_sem parsers cj : conj_good parsers cj ->
  (conj_res parsers cj = POk tt <-> conj_sem [] parsers cj <> None).
Proof. intros H. rewrite conj_res_ok. apply conj_ok_conj_sem. exact H. Qed.

(* ---- Spec.indexed_conjs by position ---- *)
Lemma indexed_conjs_pos pol (F : conj -> option sconj) : forall cs n i sc,
  In (i, sc) (indexed_conjs pol (map (fun ic : Z * conj => (fst ic, F (snd ic))) (indexed_from n cs))) <->
  exists k cj, i = n + Z.of_nat k /\ nth_error cs k = Some cj /\ F cj = Some sc /\
    forall j cj', (j < k)%nat -> nth_error cs j = Some cj' -> pol <> PolSkip -> F cj' <> None.
Proof.
  induction cs as [|c cs IH]; intros n i sc; cbn [indexed_from map indexed_conjs fst snd].
  - split; [intros []|]. intros (k & cj & _ & Hk & _). destruct k; discriminate.
  - assert (Hshift : (exists k cj, i = n + 1 + Z.of_nat k /\ nth_error cs k = Some cj /\ F cj = Some sc /\
               forall j cj', (j < k)%nat -> nth_error cs j = Some cj' -> pol <> PolSkip -> F cj' <> None) ->
             (pol <> PolSkip -> F c <> None) ->
             exists k cj, i = n + Z.of_nat k /\ nth_error (c :: cs) k = Some cj /\ F cj = Some sc /\
               forall j cj', (j < k)%nat -> nth_error (c :: cs) j = Some cj' -> pol <> PolSkip -> F cj' <> None).
    { intros (k & cj & -> & Hk & Hs & Hpre) Hc. exists (S k), cj. split; [lia|]. split; [exact Hk|]. split; [exact Hs|].
      intros [|j] cj' Hj Hn Hp; [inversion Hn; subst; apply Hc; exact Hp|]. apply (Hpre j cj'); [lia|exact Hn|exact Hp]. }
    assert (Hunshift : forall k cj, i = n + Z.of_nat (S k) -> nth_error (c :: cs) (S k) = Some cj -> F cj = Some sc ->
               (forall j cj', (j < S k)%nat -> nth_error (c :: cs) j = Some cj' -> pol <> PolSkip -> F cj' <> None) ->
               exists k cj, i = n + 1 + Z.of_nat k /\ nth_error cs k = Some cj /\ F cj = Some sc /\
               forall j cj', (j < k)%nat -> nth_error cs j = Some cj' -> pol <> PolSkip -> F cj' <> None).
    { intros k cj -> Hk Hs Hpre. exists k, cj. split; [lia|]. split; [exact Hk|]. split; [exact Hs|].
      intros j cj' Hj Hn. apply (Hpre (S j) cj'); [lia|exact Hn]. }
    destruct (F c) as [s|] eqn:Ec.
    + cbn [In]. rewrite IH. split.
      * intros [[= <- <-]|H].
        -- exists O, c. rewrite Z.add_0_r. split; [reflexivity|]. split; [reflexivity|]. split; [exact Ec|]. intros j cj' Hj; lia.
        -- apply Hshift; [exact H|]. intros _. congruence.
      * intros (k & cj & Hi & Hk & Hs & Hpre). destruct k as [|k].
        -- left. inversion Hk; subst. rewrite Z.add_0_r. congruence.
        -- right. eapply Hunshift; eassumption.
    + assert (Hzero : forall cj, nth_error (c :: cs) O = Some cj -> F cj = Some sc -> False).
      { intros cj Hk Hs. inversion Hk; subst. congruence. }
      destruct pol.
      * split; [intros []|]. intros (k & cj & Hi & Hk & Hs & Hpre). destruct k as [|k]; [eapply Hzero; eassumption|].
        apply (Hpre O c); [lia|reflexivity|discriminate|exact Ec].
      * rewrite IH. split.
        -- intros H. apply Hshift; [exact H|]. intros Hp. congruence.
        -- intros (k & cj & Hi & Hk & Hs & Hpre). destruct k as [|k]; [exfalso; eapply Hzero; eassumption|].
           eapply Hunshift; eassumption.
      * split; [intros []|]. intros (k & cj & Hi & Hk & Hs & Hpre). destruct k as [|k]; [eapply Hzero; eassumption|].
        apply (Hpre O c); [lia|reflexivity|discriminate|exact Ec].
Qed.

Lemma indexed_conjs_fst_NoDup pol (l : list (Z * option sconj)) :
  NoDup (map fst l) -> NoDup (map fst (indexed_conjs pol l)).
Proof.
  induction l as [|[j [c|]] l IH]; intros H; cbn [indexed_conjs]; [constructor| |].
  - cbn [map fst] in *. inversion H as [|? ? Hn Hd]; subst. constructor; [|apply IH; exact Hd].
    intros Hin. apply Hn. apply in_map_iff in Hin. destruct Hin as ([i sc] & Ei & Hin). cbn [fst] in Ei. subst i.
    apply indexed_conjs_In in Hin. apply in_map_iff. exists (j, Some sc). auto.
  - cbn [map fst] in H. inversion H as [|? ? Hn Hd]; subst. destruct pol; try constructor. apply IH. exact Hd.
Qed.

(* ---- the specification's reading of "indexed" ---- *)
(* the conjunction cj at position k of document d is indexed: the document passes pl_docok, cj denotes,
   and under Error/Panic so do all the conjunctions before it *)
Definition s_indexed (pol : policy) (parsers : fname -> parser_kind) (d : doc) (k : nat) (cj : conj) : Prop :=
  pl_docok d = true /\ nth_error (d_conjs d) k = Some cj /\ conj_sem [] parsers cj <> None /\
  forall j cj', (j < k)%nat -> nth_error (d_conjs d) j = Some cj' -> pol <> PolSkip -> conj_sem [] parsers cj' <> None.

Lemma doc_sem_In pol parsers d i sc :
  In (i, sc) (doc_sem [] parsers pol pl_docok d) <->
  exists k cj, i = Z.of_nat k /\ s_indexed pol parsers d k cj /\ conj_sem [] parsers cj = Some sc.
Proof.
  unfold doc_sem, s_indexed. destruct (pl_docok d).
  - rewrite (indexed_conjs_pos pol (conj_sem [] parsers) (d_conjs d) 0 i sc). split.
    + intros (k & cj & -> & Hk & Hs & Hpre). exists k, cj. split; [lia|]. split; [|exact Hs].
      split; [reflexivity|]. split; [exact Hk|]. split; [congruence|exact Hpre].
    + intros (k & cj & -> & (_ & Hk & _ & Hpre) & Hs). exists k, cj. split; [lia|]. auto.
  - split; [intros []|]. intros (k & cj & _ & (H & _) & _). discriminate.
Qed.

Lemma pl_docok_iff d : pl_docok d = true <-> doc_valid d = true /\ Z.abs (d_id d) <= 8796093022207.
Proof. unfold pl_docok, valid_doc_id. rewrite andb_true_iff, Z.leb_le. tauto. Qed.

Lemma doc_valid_len d k cj : doc_valid d = true -> nth_error (d_conjs d) k = Some cj -> 0 <= Z.of_nat k < 256.
Proof.
  unfold doc_valid. rewrite andb_true_iff, Z.leb_le. intros [_ Hl] Hk.
  assert (k < length (d_conjs d))%nat by (apply nth_error_Some; congruence). lia.
Qed.

Section Bridge.
Variables (pol : policy) (parsers : fname -> parser_kind) (ds : list doc).
Hypothesis Hg : forall d, In d ds -> doc_good parsers d.
Hypothesis Hsz : sizes_ok ds.
Hypothesis Hskip : skip_ok pol parsers ds.

Lemma good_conj d cj : In d ds -> In cj (d_conjs d) -> conj_good parsers cj.
Proof. intros Hd Hcj f es e H1 H2. exact (Hg d Hd cj f es e Hcj H1 H2). Qed.

(* the model's and the specification's notions of "indexed" coincide *)
Lemma m_indexed_s d k cj cid : In d ds ->
  m_indexed pol parsers d k cj -> IdsGen.NewConjID (d_id d) (Z.of_nat k) (calc_size cj) = Some cid ->
  s_indexed pol parsers d k cj.
Proof.
  intros Hd (Hv & Hk & Hr & Hpre) Hc. apply IdsProof.NewConjID_some_inrange in Hc.
  split; [apply pl_docok_iff; split; [exact Hv|apply Hc]|]. split; [exact Hk|]. split.
  - apply conj_res_sem; [|exact Hr]. eapply good_conj; [exact Hd|]. eapply nth_error_In; exact Hk.
  - intros j cj' Hj Hn Hp. destruct (Hpre j cj' Hj Hn) as [_ [Hr'|[Hs _]]]; [|congruence].
    apply conj_res_sem; [|exact Hr']. eapply good_conj; [exact Hd|]. eapply nth_error_In; exact Hn.
Qed.

Lemma s_indexed_m d k cj : In d ds -> s_indexed pol parsers d k cj ->
  m_indexed pol parsers d k cj /\ exists cid, IdsGen.NewConjID (d_id d) (Z.of_nat k) (calc_size cj) = Some cid.
Proof.
  intros Hd (Hok & Hk & Hs & Hpre). apply pl_docok_iff in Hok. destruct Hok as [Hv Hid].
  assert (Hnew : forall j c, nth_error (d_conjs d) j = Some c ->
            exists cid, IdsGen.NewConjID (d_id d) (Z.of_nat j) (calc_size c) = Some cid).
  { intros j c Hn. destruct (IdsProof.conjid_roundtrip (d_id d) (Z.of_nat j) (calc_size c) Hid
      (doc_valid_len d j c Hv Hn)) as (cid & E & _).
    - split; [apply calc_size_nonneg|]. apply (Hsz d c Hd). eapply nth_error_In; exact Hn.
    - exists cid. exact E. }
  split; [|apply Hnew; exact Hk].
  split; [exact Hv|]. split; [exact Hk|]. split.
  - apply conj_res_sem; [|exact Hs]. eapply good_conj; [exact Hd|]. eapply nth_error_In; exact Hk.
  - intros j cj' Hj Hn. destruct (Hnew j cj' Hn) as [cid Ec]. split; [congruence|].
    assert (Hcj' : In cj' (d_conjs d)) by (eapply nth_error_In; exact Hn).
    pose proof (good_conj d cj' Hd Hcj') as Hgood.
    destruct pol eqn:Ep.
    + left. apply conj_res_sem; [exact Hgood|]. apply (Hpre j cj' Hj Hn). discriminate.
    + destruct (conj_res_good parsers cj' Hgood) as [I|[I|[I _]]]; [left; exact I|right; split; [reflexivity|exact I]|].
      exfalso. exact (Hskip eq_refl d cj' Hd Hcj' I).
    + left. apply conj_res_sem; [exact Hgood|]. apply (Hpre j cj' Hj Hn). discriminate.
Qed.

Theorem idb_In_spec cid cj :
  In (cid, cj) (idb pol parsers ds) <-> exists d k, has_conj ds d k cj cid /\ s_indexed pol parsers d k cj.
Proof.
  rewrite idb_In. split.
  - intros (d & k & Hh & Hm). exists d, k. split; [exact Hh|]. destruct Hh as (Hd & _ & Hc). eapply m_indexed_s; eassumption.
  - intros (d & k & Hh & Hs). exists d, k. split; [exact Hh|]. destruct Hh as (Hd & _). apply (s_indexed_m d k cj Hd Hs).
Qed.

Lemma s_indexed_has d k cj : In d ds -> s_indexed pol parsers d k cj -> exists cid, has_conj ds d k cj cid.
Proof.
  intros Hd Hs. destruct (s_indexed_m d k cj Hd Hs) as [_ [cid Ec]]. exists cid.
  split; [exact Hd|]. split; [apply Hs|exact Ec].
Qed.

End Bridge.

(* ================================================================================== *)
(* B.1  (2) the conjunction-level reading                                               *)
(* ================================================================================== *)
Definition sat_spec (parsers : fname -> parser_kind) (q : assignment) (cj : conj) : Prop :=
  exists sc, conj_sem [] parsers cj = Some sc /\ sat_conj [] parsers q sc = Some true.

Lemma sat_spec_conj_sat parsers q cj : conj_good parsers cj -> asg_good parsers q ->
  conj_sem [] parsers cj <> None -> (sat_spec parsers q cj <-> conj_sat parsers q cj = true).
Proof.
  intros Hc Hq Hs. destruct (conj_sem [] parsers cj) as [sc|] eqn:E; [|congruence].
  assert (Hsat : sat_conj [] parsers q sc = Some (conj_sat parsers q cj)).
  { apply sat_conj_conj_sat; [exact Hc| |exact E]. intros f es v _ H2. exact (Hq f v H2). }
  unfold sat_spec. rewrite E. split.
  - intros (sc' & [= <-] & H). congruence.
  - intros H. exists sc. split; [reflexivity|]. congruence.
Qed.

Theorem index_correct_policy kind pol thr parsers ds st os q :
  add_documents false (new_builder kind pol thr parsers) ds = (st, os) ->
  NoDup (map d_id ds) ->
  (forall d cj, In d ds -> In cj (d_conjs d) -> NoDup (map fst cj)) ->
  (forall d, In d ds -> doc_good parsers d) ->
  sizes_ok ds ->
  skip_ok pol parsers ds ->
  NoDup (map fst q) ->
  asg_good parsers q ->
  exists hits,
    retrieve_hits (build_index st) q = ROk hits /\
    NoDup (map snd hits) /\
    (* a conjunction is reported iff it is indexed and satisfied *)
    (forall d k cj cid, has_conj ds d k cj cid ->
       (In cid (map snd hits) <-> s_indexed pol parsers d k cj /\ sat_spec parsers q cj)) /\
    (* every indexed conjunction has an id (so the previous clause speaks about it) *)
    (forall d k cj, In d ds -> s_indexed pol parsers d k cj -> exists cid, has_conj ds d k cj cid) /\
    (* nothing else is reported *)
    (forall h, In h hits -> fst h = IdsGen.ConjID_DocID (snd h) /\
       exists d k cj, has_conj ds d k cj (snd h) /\ s_indexed pol parsers d k cj /\ sat_spec parsers q cj).
Proof.
  intros Hadd Hnd Hcjs Hg Hsz Hskip Hq Hqg.
  destruct (policy_hits kind pol thr parsers ds st os q Hadd Hnd Hcjs Hq (asg_good_parses parsers q Hqg))
    as (hits & E & N1 & I1 & O1).
  assert (Hsat : forall d k cj, In d ds -> s_indexed pol parsers d k cj ->
            (sat_spec parsers q cj <-> conj_sat parsers q cj = true)).
  { intros d k cj Hd (_ & Hk & Hs & _). apply sat_spec_conj_sat; [|exact Hqg|exact Hs].
    eapply good_conj; [exact Hg|exact Hd|]. eapply nth_error_In; exact Hk. }
  exists hits. split; [exact E|]. split; [exact N1|]. split; [|split].
  - intros d k cj cid Hh. rewrite I1. split.
    + intros (cj' & Hin & Hs). apply (idb_In_spec pol parsers ds Hg Hsz Hskip) in Hin.
      destruct Hin as (d' & k' & Hh' & Hix).
      destruct (has_conj_unique _ _ _ _ _ _ _ _ Hnd Hh Hh') as (<- & <- & <-).
      split; [exact Hix|]. apply (Hsat d k cj); [apply Hh|exact Hix|exact Hs].
    + intros [Hix Hs]. exists cj. split.
      * apply (idb_In_spec pol parsers ds Hg Hsz Hskip). exists d, k. auto.
      * apply (Hsat d k cj); [apply Hh|exact Hix|exact Hs].
  - intros d k cj Hd Hix. eapply s_indexed_has; eassumption.
  - intros h Hh. split; [apply O1; exact Hh|].
    assert (Hin : In (snd h) (map snd hits)) by (apply in_map; exact Hh).
    apply I1 in Hin. destruct Hin as (cj & Hin & Hs).
    apply (idb_In_spec pol parsers ds Hg Hsz Hskip) in Hin. destruct Hin as (d & k & Hhc & Hix).
    exists d, k, cj. split; [exact Hhc|]. split; [exact Hix|]. apply (Hsat d k cj); [apply Hhc|exact Hix|exact Hs].
Qed.

(* ================================================================================== *)
(* B.2  (1) the reported triples are sat_hits                                           *)
(* ================================================================================== *)
Theorem index_sat_hits_policy kind pol thr parsers ds st os q :
  add_documents false (new_builder kind pol thr parsers) ds = (st, os) ->
  NoDup (map d_id ds) ->
  (forall d cj, In d ds -> In cj (d_conjs d) -> NoDup (map fst cj)) ->
  (forall d, In d ds -> doc_good parsers d) ->
  sizes_ok ds ->
  skip_ok pol parsers ds ->
  NoDup (map fst q) ->
  asg_good parsers q ->
  exists hits spec_hits,
    retrieve_hits (build_index st) q = ROk hits /\
    sat_hits [] parsers pol pl_docok ds q = Some spec_hits /\
    Permutation (map (fun h : hitrec => triple (snd h)) hits) spec_hits /\
    NoDup (map snd hits).
Proof.
  intros Hadd Hnd Hcjs Hg Hsz Hskip Hq Hqg.
  destruct (index_correct_policy kind pol thr parsers ds st os q Hadd Hnd Hcjs Hg Hsz Hskip Hq Hqg)
    as (hits & E & N1 & I1 & X1 & O1).
  assert (Hsat : forall d cj sc, In d ds -> In cj (d_conjs d) -> conj_sem [] parsers cj = Some sc ->
            sat_conj [] parsers q sc = Some (conj_sat parsers q cj)).
  { intros d cj sc Hd Hcj Hsc. apply sat_conj_conj_sat; [| |exact Hsc].
    - intros f es e H1 H2. exact (Hg d Hd cj f es e Hcj H1 H2).
    - intros f es v _ H2. exact (Hqg f v H2). }
  exists hits, (hits_of parsers pol pl_docok q ds). split; [exact E|]. split; [|split; [|exact N1]].
  { apply sat_hits_total. intros d [i sc] Hd Hin. cbn [snd].
    apply doc_sem_In in Hin. destruct Hin as (k & cj & _ & (_ & Hk & _) & Hsc). apply nth_error_In in Hk.
    rewrite (Hsat d cj sc Hd Hk Hsc). discriminate. }
  assert (Em : map (fun h : hitrec => triple (snd h)) hits = map triple (map snd hits)) by (rewrite map_map; reflexivity).
  rewrite Em. apply NoDup_Permutation.
  - apply NoDup_map_inj_in; [|exact N1]. intros x y Hx Hy Et.
    apply in_map_iff in Hx, Hy. destruct Hx as (hx & <- & Hx), Hy as (hy & <- & Hy).
    destruct (O1 hx Hx) as [_ (d1 & k1 & c1 & H1 & _)]. destruct (O1 hy Hy) as [_ (d2 & k2 & c2 & H2 & _)].
    rewrite (has_conj_triple _ _ _ _ _ H1), (has_conj_triple _ _ _ _ _ H2) in Et. inversion Et as [[Ed Ek Es]].
    destruct H1 as (_ & _ & E1), H2 as (_ & _ & E2). rewrite Ed, Ek, Es in E1. congruence.
  - unfold hits_of. apply (NoDup_flat_map_keyed _ fst d_id); [| |exact Hnd].
    + intros d y Hd Hy. apply in_flat_map in Hy. destruct Hy as (ic & _ & Hy).
      destruct (satb parsers q (snd ic)); [|destruct Hy]. destruct Hy as [<-|[]]. reflexivity.
    + intros d Hd. apply (NoDup_flat_map_keyed _ (fun y => fst (snd y)) fst).
      * intros ic y _ Hy. destruct (satb parsers q (snd ic)); [|destruct Hy]. destruct Hy as [<-|[]]. reflexivity.
      * intros ic _. destruct (satb parsers q (snd ic)); repeat constructor. intros [].
      * unfold doc_sem. destruct (pl_docok d); [|constructor]. apply indexed_conjs_fst_NoDup.
        rewrite map_map. cbn [fst]. apply indexed_from_fst_NoDup.
  - intros t. split.
    + intros Ht. apply in_map_iff in Ht. destruct Ht as (cid & <- & Hc).
      assert (Hc' := Hc). apply in_map_iff in Hc'. destruct Hc' as (h & <- & Hh).
      destruct (O1 h Hh) as [_ (d & k & cj & Hhc & Hix & (sc & Esc & Hs))].
      rewrite (has_conj_triple _ _ _ _ _ Hhc).
      unfold hits_of. apply in_flat_map. exists d. split; [apply Hhc|].
      apply in_flat_map. exists (Z.of_nat k, sc). split.
      * apply doc_sem_In. exists k, cj. auto.
      * cbn [fst snd]. unfold satb. rewrite Hs. left. rewrite (sconj_size_calc _ _ _ _ Esc). reflexivity.
    + intros Ht. unfold hits_of in Ht. apply in_flat_map in Ht. destruct Ht as (d & Hd & Ht).
      apply in_flat_map in Ht. destruct Ht as ([i sc] & Hin & Ht). cbn [fst snd] in Ht.
      destruct (satb parsers q sc) eqn:Eb; [|destruct Ht]. destruct Ht as [<-|[]].
      apply doc_sem_In in Hin. destruct Hin as (k & cj & -> & Hix & Hsc).
      destruct (X1 d k cj Hd Hix) as [cid Hhc].
      apply in_map_iff. exists cid. split.
      * rewrite (has_conj_triple _ _ _ _ _ Hhc), (sconj_size_calc _ _ _ _ Hsc). reflexivity.
      * apply (I1 d k cj cid Hhc). split; [exact Hix|]. exists sc. split; [exact Hsc|].
        unfold satb in Eb. destruct (sat_conj [] parsers q sc) as [[|]|]; congruence.
Qed.

(* ================================================================================== *)
(* B.3  (3) the outcome list                                                            *)
(* ================================================================================== *)
Lemma run_conjs_out_eq pol parsers d : forall cs n,
  (forall k cj, nth_error cs k = Some cj ->
     IdsGen.NewConjID d (n + Z.of_nat k) (calc_size cj) <> None /\
     (conj_res parsers cj = POk tt \/ conj_res parsers cj = PErr)) ->
  snd (run_conjs pol parsers d (indexed_from n cs)) = if forallb (conj_ok parsers) cs then AddOk else pol_out pol.
Proof.
  induction cs as [|c cs IH]; intros n H; cbn [indexed_from xrun_conjs forallb]; [reflexivity|].
  assert (IH' := IH (n + 1)). clear IH.
  assert (Hrest : forall k cj, nth_error cs k = Some cj ->
     IdsGen.NewConjID d (n + 1 + Z.of_nat k) (calc_size cj) <> None /\
     (conj_res parsers cj = POk tt \/ conj_res parsers cj = PErr)).
  { intros k cj Hk. replace (n + 1 + Z.of_nat k) with (n + Z.of_nat (S k)) by lia. apply H. exact Hk. }
  specialize (IH' Hrest). destruct (H O c eq_refl) as [Hc Hr]. rewrite Z.add_0_r in Hc.
  destruct (IdsGen.NewConjID d n (calc_size c)) as [cid|]; [|congruence].
  destruct Hr as [Hr|Hr]; rewrite Hr.
  - rewrite (proj1 (conj_res_ok parsers c) Hr). cbn [andb].
    destruct (run_conjs pol parsers d (indexed_from (n + 1) cs)) as [db o]. cbn [snd] in *. exact IH'.
  - assert (Hno : conj_ok parsers c = false) by (apply conj_res_not_ok; congruence).
    rewrite Hno. cbn [andb]. destruct pol; cbn [snd pol_out]; try reflexivity.
    rewrite IH'. destruct (forallb (conj_ok parsers) cs); reflexivity.
Qed.

(* what the specification predicts when every operator is EQ *)
Definition denotes (parsers : fname -> parser_kind) (cj : conj) : bool :=
  match conj_sem [] parsers cj with Some _ => true | None => false end.
Definition spec_out (pol : policy) (parsers : fname -> parser_kind) (d : doc) : add_out :=
  if negb (doc_valid d) then AddErr                      (* no / more than 255 conjunctions *)
  else if negb (valid_doc_id (d_id d)) then AddPanic     (* document id out of range *)
  else if forallb (denotes parsers) (d_conjs d) then AddOk
  else pol_out pol.                                      (* Skip: AddOk, Error: AddErr, Panic: AddPanic *)

Lemma forallb_ext_in {A} (f g : A -> bool) l : (forall x, In x l -> f x = g x) -> forallb f l = forallb g l.
Proof.
  induction l as [|a l IH]; intros H; cbn [forallb]; [reflexivity|].
  rewrite (H a) by (left; reflexivity). rewrite IH by (intros; apply H; right; assumption). reflexivity.
Qed.

Section Outcomes.
Variables (pol : policy) (parsers : fname -> parser_kind) (ds : list doc).
Hypothesis Hg : forall d, In d ds -> doc_good parsers d.
Hypothesis Hsz : sizes_ok ds.

Lemma docok_ids d : In d ds -> pl_docok d = true -> forall k cj, nth_error (d_conjs d) k = Some cj ->
  IdsGen.NewConjID (d_id d) (Z.of_nat k) (calc_size cj) <> None.
Proof.
  intros Hd Hok k cj Hk. apply pl_docok_iff in Hok. destruct Hok as [Hv Hid].
  destruct (IdsProof.conjid_roundtrip (d_id d) (Z.of_nat k) (calc_size cj) Hid (doc_valid_len d k cj Hv Hk)) as (cid & E & _).
  - split; [apply calc_size_nonneg|]. apply (Hsz d cj Hd). eapply nth_error_In; exact Hk.
  - congruence.
Qed.

Theorem run_doc_out_eq d : In d ds -> all_eq ds -> snd (run_doc pol parsers d) = spec_out pol parsers d.
Proof.
  intros Hd Ha. unfold spec_out. destruct (doc_valid d) eqn:Hv; cbn [negb].
  2:{ rewrite (run_doc_invalid pol (conj_res parsers) d Hv). reflexivity. }
  destruct (valid_doc_id (d_id d)) eqn:Hid; cbn [negb].
  2:{ rewrite (run_doc_bad_id pol (conj_res parsers) d Hv Hid). reflexivity. }
  assert (Hok : pl_docok d = true) by (unfold pl_docok; rewrite Hv, Hid; reflexivity).
  rewrite (run_doc_valid pol (conj_res parsers) d Hv), run_conjs_out_eq.
  - rewrite (forallb_ext_in (conj_ok parsers) (denotes parsers)); [reflexivity|].
    intros cj Hcj. pose proof (conj_ok_conj_sem parsers cj (good_conj parsers ds Hg d cj Hd Hcj)) as Hiff.
    unfold denotes. destruct (conj_ok parsers cj), (conj_sem [] parsers cj); try reflexivity.
    + exfalso. apply (proj1 Hiff eq_refl). reflexivity.
    + destruct Hiff as [_ Hiff]. apply Hiff. discriminate.
  - intros k cj Hk. rewrite Z.add_0_l. split; [apply (docok_ids d Hd Hok k cj Hk)|].
    assert (Hcj : In cj (d_conjs d)) by (eapply nth_error_In; exact Hk).
    destruct (conj_res_good parsers cj (good_conj parsers ds Hg d cj Hd Hcj)) as [I|[I|[_ (f & es & e & H1 & H2 & H3)]]]; auto.
    exfalso. apply H3. exact (Ha d cj f es e Hd Hcj H1 H2).
Qed.

Hypothesis Hskip : skip_ok pol parsers ds.

(* AddOk iff pl_docok holds and (Skip or every conjunction denotes); otherwise AddErr / AddPanic *)
Definition out_spec (d : doc) (o : add_out) : Prop :=
  (o = AddOk <-> pl_docok d = true /\
                 (pol = PolSkip \/ forall cj, In cj (d_conjs d) -> conj_sem [] parsers cj <> None)) /\
  (o = AddOk \/ o = AddErr \/ o = AddPanic) /\
  (doc_valid d = false -> o = AddErr) /\
  (doc_valid d = true -> valid_doc_id (d_id d) = false -> o = AddPanic) /\
  (pol = PolPanic -> doc_valid d = true -> o = AddOk \/ o = AddPanic).

Theorem run_doc_out_spec d : In d ds -> out_spec d (snd (run_doc pol parsers d)).
Proof.
  intros Hd. unfold out_spec.
  assert (Hgood : forall cj, In cj (d_conjs d) ->
            conj_res parsers cj = POk tt \/ conj_res parsers cj = PErr \/ conj_res parsers cj = PPanic).
  { intros cj Hcj. destruct (conj_res_good parsers cj (good_conj parsers ds Hg d cj Hd Hcj)) as [I|[I|[I _]]]; auto. }
  destruct (doc_valid d) eqn:Hv.
  2:{ rewrite (run_doc_invalid pol (conj_res parsers) d Hv). cbn [snd]. split; [|split; [auto|split; [auto|split; [discriminate|discriminate]]]].
      split; [discriminate|]. intros [H _]. apply pl_docok_iff in H. destruct H; congruence. }
  destruct (valid_doc_id (d_id d)) eqn:Hid.
  2:{ rewrite (run_doc_bad_id pol (conj_res parsers) d Hv Hid). cbn [snd]. split; [|split; [auto|split; [discriminate|auto]]].
      split; [discriminate|]. intros [H _]. unfold pl_docok in H. rewrite Hv, Hid in H. discriminate. }
  assert (Hok : pl_docok d = true) by (unfold pl_docok; rewrite Hv, Hid; reflexivity).
  rewrite (run_doc_valid pol (conj_res parsers) d Hv).
  destruct (run_conjs_out_cases pol (conj_res parsers) (d_id d) (d_conjs d) 0 Hgood) as [Hc Hp]. cbv zeta in Hc, Hp.
  split; [|split; [exact Hc|split; [discriminate|split; [discriminate|intros E _; exact (Hp E)]]]].
  rewrite run_conjs_out_ok. split.
  - intros H. split; [exact Hok|]. destruct pol eqn:Ep; [right|left; reflexivity|right];
      intros cj Hcj; apply In_nth_error in Hcj; destruct Hcj as [k Hk];
      (destruct (H k cj Hk) as [_ [Hr|[Hs _]]]; [|discriminate]);
      (apply conj_res_sem; [eapply good_conj; [exact Hg|exact Hd|eapply nth_error_In; exact Hk]|exact Hr]).
  - intros [_ Hall] j cj' Hn. rewrite Z.add_0_l. split; [apply (docok_ids d Hd Hok j cj' Hn)|].
    assert (Hcj : In cj' (d_conjs d)) by (eapply nth_error_In; exact Hn).
    pose proof (good_conj parsers ds Hg d cj' Hd Hcj) as Hgc.
    destruct Hall as [Hs|Hden].
    + destruct (conj_res_good parsers cj' Hgc) as [I|[I|[I _]]]; [left; exact I|right; auto|].
      exfalso. exact (Hskip Hs d cj' Hd Hcj I).
    + left. apply conj_res_sem; [exact Hgc|]. apply Hden. exact Hcj.
Qed.

End Outcomes.

Theorem outcomes_policy kind pol thr parsers ds st os :
  add_documents false (new_builder kind pol thr parsers) ds = (st, os) ->
  (forall d, In d ds -> doc_good parsers d) ->
  sizes_ok ds ->
  skip_ok pol parsers ds ->
  Forall2 (out_spec pol parsers) ds os.
Proof.
  intros Hadd Hg Hsz Hskip. destruct (add_documents_run kind pol thr parsers ds st os Hadd) as (_ & _ & ->).
  unfold xouts. assert (G : forall l, (forall d, In d l -> In d ds) ->
    Forall2 (out_spec pol parsers) l (map (fun d => snd (run_doc pol parsers d)) l)).
  { induction l as [|d l IH]; intros Hl; cbn [map]; constructor.
    - apply (run_doc_out_spec pol parsers ds Hg Hsz Hskip). apply Hl. left. reflexivity.
    - apply IH. intros x Hx. apply Hl. right. exact Hx. }
  apply G. auto.
Qed.

Theorem outcomes_policy_eq kind pol thr parsers ds st os :
  add_documents false (new_builder kind pol thr parsers) ds = (st, os) ->
  (forall d, In d ds -> doc_good parsers d) ->
  sizes_ok ds ->
  all_eq ds ->
  os = map (spec_out pol parsers) ds.
Proof.
  intros Hadd Hg Hsz Ha. destruct (add_documents_run kind pol thr parsers ds st os Hadd) as (_ & _ & ->).
  unfold xouts. apply map_ext_in. intros d Hd. apply (run_doc_out_eq pol parsers ds Hg Hsz d Hd Ha).
Qed.

(* ================================================================================== *)
(* B.4  (4) documents: what `retrieve` answers (C08)                                    *)
(* ================================================================================== *)
(* generic: from the characterisation of the reported conjunction ids to the reported documents *)
Lemma hits_docs pol (cres : conj -> pres unit) (sat : conj -> bool) ds ix q hits :
  retrieve_hits ix q = ROk hits ->
  (forall x, In x (map snd hits) <-> exists cj, In (x, cj) (xidb pol cres ds) /\ sat cj = true) ->
  (forall h, In h hits -> fst h = IdsGen.ConjID_DocID (snd h)) ->
  retrieve ix q = ROk (collect_docs hits) /\
  (forall z, (exists h, In h hits /\ fst h = z) <->
     exists d cid cj, In d ds /\ z = d_id d /\ In (cid, cj) (fst (xrun_doc pol cres d)) /\ sat cj = true) /\
  (forall z, In z (collect_docs hits) <->
     exists d cid cj, In d ds /\ z = d_id d /\ In (cid, cj) (fst (xrun_doc pol cres d)) /\ sat cj = true).
Proof.
  intros E I1 O1.
  assert (Hid : forall d cid cj, In (cid, cj) (fst (xrun_doc pol cres d)) ->
            IdsGen.ConjID_DocID cid = d_id d /\ Z.abs (d_id d) <= 8796093022207).
  { intros d cid cj H. apply run_doc_In in H. destruct H as (k & (_ & Hk & _) & Hc).
    assert (Hh : has_conj [d] d k cj cid) by (split; [left; reflexivity|split; assumption]).
    destruct (has_conj_facts _ _ _ _ _ Hh) as (_ & _ & A & B). auto. }
  assert (Hfst : forall z, (exists h, In h hits /\ fst h = z) <->
       exists d cid cj, In d ds /\ z = d_id d /\ In (cid, cj) (fst (xrun_doc pol cres d)) /\ sat cj = true).
  { intros z. split.
    - intros (h & Hh & <-). assert (Hin : In (snd h) (map snd hits)) by (apply in_map; exact Hh).
      apply I1 in Hin. destruct Hin as (cj & Hin & Hs). unfold xidb in Hin. apply in_flat_map in Hin.
      destruct Hin as (d & Hd & Hin). exists d, (snd h), cj. split; [exact Hd|]. split; [|auto].
      rewrite (O1 h Hh). apply (Hid d (snd h) cj Hin).
    - intros (d & cid & cj & Hd & -> & Hin & Hs).
      assert (Hc : In cid (map snd hits)).
      { apply I1. exists cj. split; [|exact Hs]. unfold xidb. apply in_flat_map. exists d. auto. }
      apply in_map_iff in Hc. destruct Hc as (h & <- & Hh). exists h. split; [exact Hh|].
      rewrite (O1 h Hh). apply (Hid d (snd h) cj Hin). }
  split; [unfold retrieve; rewrite E; reflexivity|]. split; [exact Hfst|].
  intros z. rewrite collect_docs_In. split.
  - intros (h & Hh & ->). destruct (proj1 (Hfst (fst h)) (ex_intro _ h (Logic.conj Hh eq_refl))) as (d & cid & cj & Hd & Ez & Hin & Hs).
    exists d, cid, cj. split; [exact Hd|]. split; [|auto]. rewrite Ez. apply cast_roundtrip.
    destruct (Hid d cid cj Hin) as [_ Hr]. lia.
  - intros (d & cid & cj & Hd & -> & Hin & Hs).
    destruct (proj2 (Hfst (d_id d)) (ex_intro _ d (ex_intro _ cid (ex_intro _ cj (Logic.conj Hd (Logic.conj eq_refl (Logic.conj Hin Hs))))))) as (h & Hh & Ef).
    exists h. split; [exact Hh|]. rewrite Ef. symmetry. apply cast_roundtrip.
    destruct (Hid d cid cj Hin) as [_ Hr]. lia.
Qed.

(* model level: the reported documents are those with an indexed, satisfied conjunction *)
Theorem policy_docs kind pol thr parsers ds st os q :
  add_documents false (new_builder kind pol thr parsers) ds = (st, os) ->
  NoDup (map d_id ds) ->
  (forall d cj, In d ds -> In cj (d_conjs d) -> NoDup (map fst cj)) ->
  NoDup (map fst q) ->
  (forall f v, In (f, v) q -> exists ids, parse_assign (parsers f) v = POk ids) ->
  exists hits,
    retrieve_hits (build_index st) q = ROk hits /\
    retrieve (build_index st) q = ROk (collect_docs hits) /\
    (forall z, (exists h, In h hits /\ fst h = z) <->
       exists d cid cj, In d ds /\ z = d_id d /\ In (cid, cj) (fst (run_doc pol parsers d)) /\ conj_sat parsers q cj = true) /\
    (forall z, In z (collect_docs hits) <->
       exists d cid cj, In d ds /\ z = d_id d /\ In (cid, cj) (fst (run_doc pol parsers d)) /\ conj_sat parsers q cj = true).
Proof.
  intros Hadd Hnd Hcjs Hq Hqp.
  destruct (policy_hits kind pol thr parsers ds st os q Hadd Hnd Hcjs Hq Hqp) as (hits & E & N1 & I1 & O1).
  exists hits. split; [exact E|].
  exact (hits_docs pol (conj_res parsers) (conj_sat parsers q) ds (build_index st) q hits E I1 O1).
Qed.

(* (4a) against the specification: a document is reported iff one of its INDEXED conjunctions is
   satisfied -- in particular never for an assignment that satisfies none of them *)
Theorem retrieve_docs_policy kind pol thr parsers ds st os q :
  add_documents false (new_builder kind pol thr parsers) ds = (st, os) ->
  NoDup (map d_id ds) ->
  (forall d cj, In d ds -> In cj (d_conjs d) -> NoDup (map fst cj)) ->
  (forall d, In d ds -> doc_good parsers d) ->
  sizes_ok ds ->
  skip_ok pol parsers ds ->
  NoDup (map fst q) ->
  asg_good parsers q ->
  exists docs,
    retrieve (build_index st) q = ROk docs /\
    (forall d, In d ds ->
       (In (d_id d) docs <-> exists k cj, s_indexed pol parsers d k cj /\ sat_spec parsers q cj)) /\
    (forall z, In z docs -> exists d, In d ds /\ z = d_id d).
Proof.
  intros Hadd Hnd Hcjs Hg Hsz Hskip Hq Hqg.
  destruct (policy_docs kind pol thr parsers ds st os q Hadd Hnd Hcjs Hq (asg_good_parses parsers q Hqg))
    as (hits & _ & E & _ & I1).
  exists (collect_docs hits). split; [exact E|]. split.
  - intros d Hd. rewrite I1. split.
    + intros (d' & cid & cj & Hd' & Ez & Hin & Hs).
      assert (d = d') by (eapply NoDup_map_eq; eassumption). subst d'.
      apply run_doc_In in Hin. destruct Hin as (k & Hm & Hc).
      pose proof (m_indexed_s pol parsers ds Hg d k cj cid Hd Hm Hc) as Hix.
      exists k, cj. split; [exact Hix|]. apply sat_spec_conj_sat; [|exact Hqg|apply Hix|exact Hs].
      eapply good_conj; [exact Hg|exact Hd|]. eapply nth_error_In. apply Hix.
    + intros (k & cj & Hix & Hs). destruct (s_indexed_m pol parsers ds Hg Hsz Hskip d k cj Hd Hix) as [Hm [cid Hc]].
      exists d, cid, cj. split; [exact Hd|]. split; [reflexivity|]. split; [apply run_doc_In; exists k; auto|].
      apply sat_spec_conj_sat; [|exact Hqg|apply Hix|exact Hs].
      eapply good_conj; [exact Hg|exact Hd|]. eapply nth_error_In. apply Hix.
  - intros z Hz. apply I1 in Hz. destruct Hz as (d & _ & _ & Hd & Ez & _). eauto.
Qed.

(* ---- (4c) rejected documents leave no trace: the builder STATE is the same ---- *)
Lemma rejected_state wf st d : pl_docok d = false -> fst (add_document wf st d) = st.
Proof.
  intros H. destruct (doc_valid d) eqn:Hv.
  - unfold pl_docok in H. rewrite Hv in H. cbn [andb] in H. unfold valid_doc_id in H. apply Z.leb_gt in H.
    unfold add_document. unfold doc_valid in Hv. destruct (d_conjs d) as [|c cs] eqn:Ec; [discriminate|].
    cbn [negb andb] in Hv. apply Z.leb_le in Hv.
    destruct (Z.ltb_spec 255 (Z.of_nat (length (c :: cs)))); [reflexivity|].
    cbn [indexed_from add_conjs]. rewrite NoTrace.bad_id_unchanged; [reflexivity|].
    apply IdsProof.NewConjID_refuses. lia.
  - rewrite BuilderProof.rejected_unchanged; [reflexivity|]. unfold doc_valid in Hv.
    destruct (d_conjs d) as [|c cs]; [left; reflexivity|right]. cbn [negb andb] in Hv. apply Z.leb_gt in Hv. exact Hv.
Qed.

Theorem rejected_no_trace_state wf : forall ds st,
  fst (add_documents wf st (filter pl_docok ds)) = fst (add_documents wf st ds).
Proof.
  induction ds as [|d ds IH]; intros st; cbn [filter add_documents]; [reflexivity|].
  destruct (pl_docok d) eqn:Hok.
  - cbn [add_documents]. destruct (add_document wf st d) as [st1 o]. specialize (IH st1).
    destruct (add_documents wf st1 (filter pl_docok ds)) as [sa oa]. destruct (add_documents wf st1 ds) as [sb ob].
    exact IH.
  - pose proof (rejected_state wf st d Hok) as Hs. destruct (add_document wf st d) as [st1 o]. cbn [fst] in Hs. subst st1.
    specialize (IH st). destruct (add_documents wf st (filter pl_docok ds)) as [sa oa]. destruct (add_documents wf st ds) as [sb ob].
    exact IH.
Qed.

Corollary rejected_no_trace_retrieve wf st0 ds q :
  retrieve_hits (build_index (fst (add_documents wf st0 (filter pl_docok ds)))) q =
    retrieve_hits (build_index (fst (add_documents wf st0 ds))) q /\
  retrieve (build_index (fst (add_documents wf st0 (filter pl_docok ds)))) q =
    retrieve (build_index (fst (add_documents wf st0 ds))) q.
Proof. rewrite rejected_no_trace_state. split; reflexivity. Qed.

(* ---- (4b) under PolSkip: same answers as without the unparseable conjunctions ---- *)
Definition xstrip (ok : conj -> bool) (d : doc) : doc :=
  {| d_id := d_id d; d_conjs := filter ok (d_conjs d) |}.
Definition strip (parsers : fname -> parser_kind) (d : doc) : doc := xstrip (conj_ok parsers) d.

Lemma dedup_sorted_strict l : StronglySorted N.le l -> StronglySorted N.lt (dedup_sorted l).
Proof.
  induction l as [|a l IH]; intros H; [constructor|]. destruct l as [|b l]; [repeat constructor|].
  change (dedup_sorted (a :: b :: l)) with (if (a =? b)%N then dedup_sorted (b :: l) else a :: dedup_sorted (b :: l)).
  inversion H as [|? ? Hs Hall]; subst. specialize (IH Hs).
  destruct (N.eqb_spec a b) as [->|Hne]; [exact IH|]. constructor; [exact IH|].
  apply Forall_forall. intros x Hx. apply (proj1 (dedup_sorted_In x (b :: l))) in Hx.
  inversion Hall as [|? ? Hab Hal]; subst. destruct Hx as [<-|Hx]; [lia|].
  inversion Hs as [|? ? _ Hbl]; subst. rewrite Forall_forall in Hbl. specialize (Hbl x Hx). lia.
Qed.

Lemma strict_sorted_ext : forall l1 l2, StronglySorted N.lt l1 -> StronglySorted N.lt l2 ->
  (forall x, In x l1 <-> In x l2) -> l1 = l2.
Proof.
  induction l1 as [|a l1 IH]; intros l2 H1 H2 Hm.
  - destruct l2 as [|b l2]; [reflexivity|]. exfalso. apply (proj2 (Hm b)). left. reflexivity.
  - destruct l2 as [|b l2]; [exfalso; apply (proj1 (Hm a)); left; reflexivity|].
    inversion H1 as [|? ? S1 A1]; subst. inversion H2 as [|? ? S2 A2]; subst. rewrite Forall_forall in A1, A2.
    assert (a = b).
    { destruct (proj1 (Hm a) (or_introl eq_refl)) as [E|Ha]; [auto|].
      destruct (proj2 (Hm b) (or_introl eq_refl)) as [E|Hb]; [auto|].
      specialize (A2 a Ha). specialize (A1 b Hb). lia. }
    subst b. f_equal. apply IH; [exact S1|exact S2|]. intros x. split.
    + intros Hx. destruct (proj1 (Hm x) (or_intror Hx)) as [E|H]; [|exact H]. specialize (A1 x Hx). lia.
    + intros Hx. destruct (proj2 (Hm x) (or_intror Hx)) as [E|H]; [|exact H]. specialize (A2 x Hx). lia.
Qed.

Lemma collect_docs_ext h1 h2 :
  (forall z, (exists h, In h h1 /\ fst h = z) <-> (exists h, In h h2 /\ fst h = z)) ->
  collect_docs h1 = collect_docs h2.
Proof.
  intros H. unfold collect_docs. f_equal. apply strict_sorted_ext.
  - apply dedup_sorted_strict, sort_entries_ss.
  - apply dedup_sorted_strict, sort_entries_ss.
  - intros x. rewrite !dedup_sorted_In, !sort_entries_In, !in_map_iff. split.
    + intros (h & <- & Hh). destruct (proj1 (H (fst h)) (ex_intro _ h (Logic.conj Hh eq_refl))) as (h' & Hh' & E).
      exists h'. rewrite E. auto.
    + intros (h & <- & Hh). destruct (proj2 (H (fst h)) (ex_intro _ h (Logic.conj Hh eq_refl))) as (h' & Hh' & E).
      exists h'. rewrite E. auto.
Qed.

Lemma filter_len_le {A} (p : A -> bool) l : (length (filter p l) <= length l)%nat.
Proof. induction l as [|a l IH]; cbn [filter length]; [lia|]. destruct (p a); cbn [length]; lia. Qed.

(* what PolSkip indexes of a document with at most 255 conjunctions, none oversized, none of which
   panics / diverges / leaves the modelled fragment while parsing (generic in `cres`) *)
Lemma skip_run_doc_In (cres : conj -> pres unit) d cj :
  Z.of_nat (length (d_conjs d)) <= 255 ->
  (forall c, In c (d_conjs d) -> calc_size c < 256) ->
  (forall c, In c (d_conjs d) -> cres c = POk tt \/ cres c = PErr) ->
  ((exists cid, In (cid, cj) (fst (xrun_doc PolSkip cres d))) <->
   Z.abs (d_id d) <= 8796093022207 /\ In cj (d_conjs d) /\ cres cj = POk tt).
Proof.
  intros Hlen Hsz Hres. split.
  - intros (cid & H). apply run_doc_In in H. destruct H as (k & (_ & Hk & Hr & _) & Hc).
    apply IdsProof.NewConjID_some_inrange in Hc. split; [apply Hc|]. split; [eapply nth_error_In; exact Hk|exact Hr].
  - intros (Hid & Hcj & Hok). apply In_nth_error in Hcj. destruct Hcj as [k Hk].
    assert (Hv : doc_valid d = true).
    { unfold doc_valid. destruct (d_conjs d) as [|c cs]; [destruct k; discriminate|]. cbn [negb andb]. apply Z.leb_le. exact Hlen. }
    assert (Hnew : forall j c, nth_error (d_conjs d) j = Some c ->
              exists cid, IdsGen.NewConjID (d_id d) (Z.of_nat j) (calc_size c) = Some cid).
    { intros j c Hn. destruct (IdsProof.conjid_roundtrip (d_id d) (Z.of_nat j) (calc_size c) Hid
        (doc_valid_len d j c Hv Hn)) as (cid & E & _).
      - split; [apply calc_size_nonneg|]. apply Hsz. eapply nth_error_In; exact Hn.
      - exists cid. exact E. }
    destruct (Hnew k cj Hk) as [cid Ec]. exists cid. apply run_doc_In. exists k. split; [|exact Ec].
    split; [exact Hv|]. split; [exact Hk|]. split; [exact Hok|].
    intros j cj' Hj Hn. destruct (Hnew j cj' Hn) as [cid' Ec']. split; [congruence|].
    destruct (Hres cj' (nth_error_In _ _ Hn)) as [I|I]; [left; exact I|right; split; [reflexivity|exact I]].
Qed.

Lemma strip_docs_iff (cres : conj -> pres unit) (ok sat : conj -> bool) ds z :
  (forall c, ok c = true <-> cres c = POk tt) ->
  (forall d, In d ds -> Z.of_nat (length (d_conjs d)) <= 255) ->
  sizes_ok ds ->
  (forall d cj, In d ds -> In cj (d_conjs d) -> cres cj = POk tt \/ cres cj = PErr) ->
  ((exists d cid cj, In d (map (xstrip ok) ds) /\ z = d_id d /\
      In (cid, cj) (fst (xrun_doc PolSkip cres d)) /\ sat cj = true) <->
   (exists d cid cj, In d ds /\ z = d_id d /\ In (cid, cj) (fst (xrun_doc PolSkip cres d)) /\ sat cj = true)).
Proof.
  intros Hok Hlen Hsz Hres.
  assert (Hstrip : forall d, In d ds -> forall cj,
            (exists cid, In (cid, cj) (fst (xrun_doc PolSkip cres (xstrip ok d)))) <->
            (exists cid, In (cid, cj) (fst (xrun_doc PolSkip cres d)))).
  { intros d Hd cj. rewrite (skip_run_doc_In cres d cj (Hlen d Hd) (fun c => Hsz d c Hd) (fun c => Hres d c Hd)).
    rewrite skip_run_doc_In.
    - cbn [xstrip d_id d_conjs]. rewrite filter_In. pose proof (Hok cj). tauto.
    - cbn [xstrip d_conjs]. pose proof (filter_len_le ok (d_conjs d)). specialize (Hlen d Hd). lia.
    - cbn [xstrip d_conjs]. intros c Hc. apply filter_In in Hc. apply (Hsz d c Hd). apply Hc.
    - cbn [xstrip d_conjs]. intros c Hc. apply filter_In in Hc. apply (Hres d c Hd). apply Hc. }
  split.
  - intros (d' & cid & cj & Hd' & -> & Hin & Hs). apply in_map_iff in Hd'. destruct Hd' as (d & <- & Hd).
    destruct (proj1 (Hstrip d Hd cj) (ex_intro _ cid Hin)) as [cid' Hin'].
    exists d, cid', cj. auto.
  - intros (d & cid & cj & Hd & -> & Hin & Hs).
    destruct (proj2 (Hstrip d Hd cj) (ex_intro _ cid Hin)) as [cid' Hin'].
    exists (xstrip ok d), cid', cj. split; [apply in_map; exact Hd|]. auto.
Qed.

Theorem skip_strip_retrieve kind thr parsers ds st os st' os' q :
  add_documents false (new_builder kind PolSkip thr parsers) ds = (st, os) ->
  add_documents false (new_builder kind PolSkip thr parsers) (map (strip parsers) ds) = (st', os') ->
  NoDup (map d_id ds) ->
  (forall d cj, In d ds -> In cj (d_conjs d) -> NoDup (map fst cj)) ->
  (forall d, In d ds -> Z.of_nat (length (d_conjs d)) <= 255) ->
  sizes_ok ds ->
  (forall d cj, In d ds -> In cj (d_conjs d) -> conj_res parsers cj = POk tt \/ conj_res parsers cj = PErr) ->
  NoDup (map fst q) ->
  (forall f v, In (f, v) q -> exists ids, parse_assign (parsers f) v = POk ids) ->
  retrieve (build_index st') q = retrieve (build_index st) q.
Proof.
  intros Hadd Hadd' Hnd Hcjs Hlen Hsz Hres Hq Hqp.
  destruct (policy_docs kind PolSkip thr parsers ds st os q Hadd Hnd Hcjs Hq Hqp) as (hits & _ & E & F & _).
  assert (Hnd' : NoDup (map d_id (map (strip parsers) ds))) by (rewrite map_map; exact Hnd).
  assert (Hcjs' : forall d cj, In d (map (strip parsers) ds) -> In cj (d_conjs d) -> NoDup (map fst cj)).
  { intros d' cj Hd' Hcj. apply in_map_iff in Hd'. destruct Hd' as (d & <- & Hd). cbn [strip xstrip d_conjs] in Hcj.
    apply filter_In in Hcj. apply (Hcjs d cj Hd). apply Hcj. }
  destruct (policy_docs kind PolSkip thr parsers (map (strip parsers) ds) st' os' q Hadd' Hnd' Hcjs' Hq Hqp)
    as (hits' & _ & E' & F' & _).
  rewrite E, E'. f_equal. apply collect_docs_ext. intros z. rewrite F, F'.
  apply (strip_docs_iff (conj_res parsers) (conj_ok parsers) (conj_sat parsers q) ds z); try assumption.
  intros c. symmetry. apply conj_res_ok.
Qed.

Corollary skip_strip_retrieve_spec kind thr parsers ds st os st' os' q :
  add_documents false (new_builder kind PolSkip thr parsers) ds = (st, os) ->
  add_documents false (new_builder kind PolSkip thr parsers) (map (strip parsers) ds) = (st', os') ->
  NoDup (map d_id ds) ->
  (forall d cj, In d ds -> In cj (d_conjs d) -> NoDup (map fst cj)) ->
  (forall d, In d ds -> Z.of_nat (length (d_conjs d)) <= 255) ->
  (forall d, In d ds -> doc_good parsers d) ->
  sizes_ok ds ->
  skip_ok PolSkip parsers ds ->
  NoDup (map fst q) ->
  asg_good parsers q ->
  retrieve (build_index st') q = retrieve (build_index st) q.
Proof.
  intros Hadd Hadd' Hnd Hcjs Hlen Hg Hsz Hskip Hq Hqg.
  apply (skip_strip_retrieve kind thr parsers ds st os st' os' q Hadd Hadd' Hnd Hcjs Hlen Hsz); [|exact Hq|apply asg_good_parses; exact Hqg].
  intros d cj Hd Hcj. destruct (conj_res_good parsers cj (good_conj parsers ds Hg d cj Hd Hcj)) as [I|[I|[I _]]]; auto.
  exfalso. exact (Hskip eq_refl d cj Hd Hcj I).
Qed.

(* ================================================================================== *)
(* C.  Concrete runs (by computation): non-vacuity, and why each hypothesis is there    *)
(* ================================================================================== *)
Module PolicyWitness.
  Definition ps : fname -> parser_kind := fun _ => PCommon.
  Definition iv (z : Z) : gval := VInt KI z.
  Definition inc z := {| e_incl := true; e_op := OpEQ; e_val := iv z |}.
  Definition exc z := {| e_incl := false; e_op := OpEQ; e_val := iv z |}.
  Definition bad := {| e_incl := true; e_op := OpEQ; e_val := VBool true |}.       (* does not parse: PErr *)
  Definition gt z := {| e_incl := true; e_op := OpGT; e_val := iv z |}.            (* operator <> EQ: PPanic *)
  (* dA: second conjunction unparseable; dB: first conjunction unparseable; dC: id out of range;
     dD: no conjunction; dE: fine *)
  Definition dA := {| d_id := 1; d_conjs := [ [(1%N,[inc 7])]; [(1%N,[inc 7]); (2%N,[bad])]; [(2%N,[exc 5])] ] |}.
  Definition dB := {| d_id := -2; d_conjs := [ [(1%N,[bad])]; [(1%N,[inc 7; inc 8])] ] |}.
  Definition dC := {| d_id := 8796093022208; d_conjs := [ [(1%N,[inc 7])] ] |}.
  Definition dD := {| d_id := 4; d_conjs := [] |}.
  Definition dE := {| d_id := 5; d_conjs := [ [(1%N,[inc 7]); (3%N, [inc 1])]; [(3%N,[exc 1])] ] |}.
  Definition docs := [dA; dB; dC; dD; dE].
  Definition qq : assignment := [(1%N, iv 7); (2%N, iv 6)].

  Local Ltac good_val :=
    unfold wf_val, val_mod, asg_mod, ps, modelled, wf_shape, float_ok, elems, inc, exc, bad, iv;
    cbn [e_val map slice_ty type_of ty_of_ikind slice_of]; repeat split; repeat constructor.
  Local Ltac enum Hcj Hf He fin :=
    repeat match goal with
    | H : _ \/ _ |- _ => destruct H as [H|H]
    | H : False |- _ => contradiction
    | H : _ = ?d |- _ => is_var d; match type of d with
         | doc => subst d; cbn [d_conjs In dA dB dC dD dE] in Hcj
         | conj => subst d; cbn [In] in Hf
         | expr => subst d; fin
         end
    | H : _ = (_, _) |- _ => inversion H; subst; clear H; cbn [In] in He
    end.

  (* the hypotheses of the theorems hold of the example, for every policy *)
  Example docs_good : forall d, In d docs -> doc_good ps d.
  Proof. intros d Hd cj f es e Hcj Hf He. unfold docs in Hd. cbn [In] in Hd. enum Hcj Hf He good_val. Qed.
  Example docs_all_eq : all_eq docs.
  Proof. intros d cj f es e Hd Hcj Hf He. unfold docs in Hd. cbn [In] in Hd. enum Hcj Hf He reflexivity. Qed.
  Example docs_skip_ok pol : skip_ok pol ps docs.
  Proof. apply all_eq_skip_ok; [exact docs_good|exact docs_all_eq]. Qed.
  Example docs_sizes : sizes_ok docs.
  Proof.
    intros d cj Hd Hcj. unfold docs in Hd. cbn [In] in Hd.
    repeat match goal with
    | H : _ \/ _ |- _ => destruct H as [H|H]
    | H : False |- _ => contradiction
    | H : _ = d |- _ => subst d; cbn [d_conjs In dA dB dC dD dE] in Hcj
    | H : _ = cj |- _ => subst cj; vm_compute; reflexivity
    end.
  Qed.
  Example docs_fields : forall d cj, In d docs -> In cj (d_conjs d) -> NoDup (map fst cj).
  Proof.
    intros d cj Hd Hcj. unfold docs in Hd. cbn [In] in Hd.
    repeat match goal with
    | H : _ \/ _ |- _ => destruct H as [H|H]
    | H : False |- _ => contradiction
    | H : _ = d |- _ => subst d; cbn [d_conjs In dA dB dC dD dE] in Hcj
    | H : _ = cj |- _ => subst cj; repeat constructor; cbn; intuition discriminate
    end.
  Qed.
  Example docs_ids : NoDup (map d_id docs).
  Proof. repeat constructor; cbn; intuition discriminate. Qed.
  Example qq_fields : NoDup (map fst qq).
  Proof. repeat constructor; cbn; intuition discriminate. Qed.
  Example qq_good : asg_good ps qq.
  Proof.
    intros f v H. unfold qq in H. cbn [In] in H.
    repeat match goal with
    | H : _ \/ _ |- _ => destruct H as [H|H]
    | H : False |- _ => contradiction
    | H : _ = (f, v) |- _ => inversion H; subst f v; clear H; split; [|split]; [good_val | good_val | vm_compute; discriminate]
    end.
  Qed.

  (* so the theorems apply to it *)
  Example applies kind pol st os :
    add_documents false (new_builder kind pol 256 ps) docs = (st, os) ->
    (exists hits spec_hits,
      retrieve_hits (build_index st) qq = ROk hits /\
      sat_hits [] ps pol pl_docok docs qq = Some spec_hits /\
      Permutation (map (fun h : hitrec => triple (snd h)) hits) spec_hits /\ NoDup (map snd hits)) /\
    os = map (spec_out pol ps) docs.
  Proof.
    intros H. split.
    - exact (index_sat_hits_policy kind pol 256 ps docs st os qq H docs_ids docs_fields docs_good docs_sizes
               (docs_skip_ok pol) qq_fields qq_good).
    - exact (outcomes_policy_eq kind pol 256 ps docs st os H docs_good docs_sizes docs_all_eq).
  Qed.

  (* ... and what they say is not trivial: outcomes, reported triples, documents, sat_hits *)
  Definition run k pol :=
    let '(st, os) := add_documents false (new_builder k pol 256 ps) docs in
    (os, match retrieve_hits (build_index st) qq with
         | ROk hits => Some (map (fun h : hitrec => triple (snd h)) hits) | _ => None end,
     retrieve (build_index st) qq, sat_hits [] ps pol pl_docok docs qq).
  Example run_skip_kgroups : run IKGroups PolSkip =
    ([AddOk; AddOk; AddPanic; AddErr; AddOk],
     Some [(1, (0, 1)); (-2, (1, 1)); (5, (1, 0)); (1, (2, 0))], ROk [1; 5; -2],
     Some [(1, (0, 1)); (1, (2, 0)); (-2, (1, 1)); (5, (1, 0))]).
  Proof. vm_compute. reflexivity. Qed.
  Example run_skip_compact : run ICompact PolSkip =
    ([AddOk; AddOk; AddPanic; AddErr; AddOk],
     Some [(5, (1, 0)); (1, (2, 0)); (1, (0, 1)); (-2, (1, 1))], ROk [1; 5; -2],
     Some [(1, (0, 1)); (1, (2, 0)); (-2, (1, 1)); (5, (1, 0))]).
  Proof. vm_compute. reflexivity. Qed.
  (* Error: dA is abandoned at its second conjunction, the first one stays indexed; dB leaves nothing *)
  Example run_error_kgroups : run IKGroups PolError =
    ([AddErr; AddErr; AddPanic; AddErr; AddOk],
     Some [(1, (0, 1)); (5, (1, 0))], ROk [1; 5], Some [(1, (0, 1)); (5, (1, 0))]).
  Proof. vm_compute. reflexivity. Qed.
  Example run_panic_compact : run ICompact PolPanic =
    ([AddPanic; AddPanic; AddPanic; AddErr; AddOk],
     Some [(5, (1, 0)); (1, (0, 1))], ROk [1; 5], Some [(1, (0, 1)); (5, (1, 0))]).
  Proof. vm_compute. reflexivity. Qed.

  (* ---- the statements WITHOUT skip_ok / sizes_ok / the 255 bound are false ---- *)
  (* skip_ok: under PolSkip an operator other than EQ makes AddDocument panic (the policy switch only
     sees parse ERRORS); the document is abandoned, the specification goes on to the next conjunction *)
  Definition dW1 := {| d_id := 7; d_conjs := [ [(1%N,[gt 7])]; [(1%N,[inc 7])] ] |}.
  Example skip_panic :
    let '(st, os) := add_documents false (new_builder IKGroups PolSkip 256 ps) [dW1] in
    os = [AddPanic] /\ retrieve_hits (build_index st) qq = ROk [] /\
    sat_hits [] ps PolSkip pl_docok [dW1] qq = Some [(7, (1, 1))] /\
    conj_res ps [(1%N,[gt 7])] = PPanic.
  Proof. vm_compute. repeat split. Qed.
  (* sizes_ok: a conjunction with 256 include fields has no conjunction id: AddDocument panics there *)
  Definition big : conj := map (fun n => (N.of_nat n, [inc 7])) (seq 0 256).
  Definition dW2 := {| d_id := 7; d_conjs := [ big; [(1%N,[inc 7])] ] |}.
  Example oversize :
    let '(st, os) := add_documents false (new_builder IKGroups PolError 256 ps) [dW2] in
    os = [AddPanic] /\ retrieve_hits (build_index st) qq = ROk [] /\
    sat_hits [] ps PolError pl_docok [dW2] qq = Some [(7, (1, 1))] /\ calc_size big = 256.
  Proof. vm_compute. repeat split. Qed.
  (* outcomes: "AddErr under PolError" needs all_eq -- a non-EQ operator panics under every policy *)
  Definition dW3 := {| d_id := 7; d_conjs := [ [(1%N,[gt 7])] ] |}.
  Example error_policy_panics :
    snd (add_documents false (new_builder IKGroups PolError 256 ps) [dW3]) = [AddPanic] /\
    map (spec_out PolError ps) [dW3] = [AddErr].
  Proof. vm_compute. split; reflexivity. Qed.
  (* skip_strip_retrieve needs "at most 255 conjunctions": 256 conjunctions, one unparseable -- the
     document is rejected, its stripped version is accepted *)
  Definition dW4 := {| d_id := 7; d_conjs := [(1%N,[bad])] :: repeat [(1%N,[inc 7])] 255 |}.
  Example strip_needs_255 :
    let '(st, os) := add_documents false (new_builder IKGroups PolSkip 256 ps) [dW4] in
    let '(st', os') := add_documents false (new_builder IKGroups PolSkip 256 ps) (map (strip ps) [dW4]) in
    os = [AddErr] /\ os' = [AddOk] /\ retrieve (build_index st) qq = ROk [] /\ retrieve (build_index st') qq = ROk [7].
  Proof. vm_compute. repeat split. Qed.
End PolicyWitness.

Check add_documents_run.
Check idb_In.
Check policy_hits.
Check hits_docs.
Check policy_docs.
Check index_correct_policy.
Check index_sat_hits_policy.
Check outcomes_policy.
Check outcomes_policy_eq.
Check retrieve_docs_policy.
Check rejected_no_trace_state.
Check rejected_no_trace_retrieve.
Check skip_strip_retrieve.
Check skip_strip_retrieve_spec.
Print Assumptions add_documents_run.
Print Assumptions idb_In.
Print Assumptions policy_hits.
Print Assumptions policy_docs.
Print Assumptions index_correct_policy.
Print Assumptions index_sat_hits_policy.
Print Assumptions outcomes_policy.
Print Assumptions outcomes_policy_eq.
Print Assumptions retrieve_docs_policy.
Print Assumptions rejected_no_trace_state.
Print Assumptions rejected_no_trace_retrieve.
Print Assumptions skip_strip_retrieve.
Print Assumptions skip_strip_retrieve_spec.
Print Assumptions PolicyWitness.applies.
