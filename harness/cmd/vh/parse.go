package main

import (
	"bytes"
	"encoding/json"
	"fmt"
	"os"
	"os/exec"
	"runtime"
	"strings"
	"time"

	be "github.com/echoface/be_indexer"
	"github.com/echoface/be_indexer/holder/ahoholder"
	"github.com/echoface/be_indexer/holder/rangeholder"
	"github.com/echoface/be_indexer/parser"
	"github.com/echoface/be_indexer/util"
)

// parser-level case (inputs)
type pIn struct {
	K      string `json:"k"` // parse | ints | number | range | nil | acdict | actext | match
	Parser string `json:"p,omitempty"`
	Assign bool   `json:"assign,omitempty"`
	Op     int    `json:"op,omitempty"`
	V      TV     `json:"v"`
	V2     *TV    `json:"v2,omitempty"`
}

func theParser(name string) parser.FieldValueParser {
	if p := mkParser(name); p != nil {
		return p
	}
	return parser.NewCommonParser()
}

func idsLit(ids []uint64, err error, panicked bool) string {
	switch {
	case panicked:
		return "PIPanic"
	case err != nil:
		return "PIErr"
	}
	return fmt.Sprintf("(PIOk %s)", nlist(ids))
}

func textListLit(ss []string) string {
	l := make([]string, len(ss))
	for i, s := range ss {
		l[i] = textLit(s)
	}
	return listl(l)
}

// runParseCase executes one parser-level case in this process and returns the pcase literal.
func runParseCase(in *pIn) (lit string, outcome string) {
	v := in.V.Value()
	switch in.K {
	case "parse":
		p := theParser(in.Parser)
		var ids []uint64
		var err error
		pk := safeCall(func() {
			if in.Assign {
				ids, err = p.ParseAssign(v)
			} else {
				ids, err = p.ParseValue(v)
			}
		})
		r := idsLit(ids, err, pk)
		return fmt.Sprintf("PCParse %s %s %s %s", parserCoq(in.Parser), bl(in.Assign), in.V.Coq(), r), strings.Fields(strings.Trim(r, "()"))[0]
	case "ints":
		var zs []int64
		var err error
		pk := safeCall(func() { zs, err = parser.ParseIntergers(v, true) })
		r := "PIPanic"
		if !pk {
			r = "PIErr"
			if err == nil {
				r = fmt.Sprintf("(PIOk %s)", zlist(zs))
			}
		}
		return fmt.Sprintf("PCInts %s %s", in.V.Coq(), r), strings.Fields(strings.Trim(r, "()"))[0]
	case "number":
		var z int64
		var err error
		pk := safeCall(func() { z, err = parser.ParseIntegerNumber(v, true) })
		r := "PIPanic"
		if !pk {
			r = "PIErr"
			if err == nil {
				r = fmt.Sprintf("(PIOk %s)", zl(z))
			}
		}
		return fmt.Sprintf("PCNumber %s %s", in.V.Coq(), r), strings.Fields(strings.Trim(r, "()"))[0]
	case "range":
		r := "PIPanic"
		pk := safeCall(func() {
			rg, err := rangeholder.ParseRange(be.ValueOpt(in.Op), v, true)
			if err != nil {
				r = "PIErr"
				return
			}
			// Range has unexported fields: String() prints them; parse "[l,r)" forms
			l, rr := rangeBounds(rg)
			r = fmt.Sprintf("(PIOk (%s, %s))", zl(l), zl(rr))
		})
		if pk {
			r = "PIPanic"
		}
		return fmt.Sprintf("PCRange %s %s %s", opCoq(in.Op), in.V.Coq(), r), strings.Fields(strings.Trim(r, "()"))[0]
	case "intsnf": // the value lists of a range holder with EnableFloat2Int = false
		var zs []int64
		var err error
		pk := safeCall(func() { zs, err = parser.ParseIntergers(v, false) })
		r := "PIPanic"
		if !pk {
			r = "PIErr"
			if err == nil {
				r = fmt.Sprintf("(PIOk %s)", zlist(zs))
			}
		}
		return fmt.Sprintf("PCIntsNF %s %s", in.V.Coq(), r), strings.Fields(strings.Trim(r, "()"))[0]
	case "rangenf": // the range container's operand decoding as a holder with EnableFloat2Int = false calls it
		r := "PIPanic"
		pk := safeCall(func() {
			rg, err := rangeholder.ParseRange(be.ValueOpt(in.Op), v, false)
			if err != nil {
				r = "PIErr"
				return
			}
			l, rr := rangeBounds(rg)
			r = fmt.Sprintf("(PIOk (%s, %s))", zl(l), zl(rr))
		})
		if pk {
			r = "PIPanic"
		}
		return fmt.Sprintf("PCRangeNF %s %s %s", opCoq(in.Op), in.V.Coq(), r), strings.Fields(strings.Trim(r, "()"))[0]
	case "nil":
		var b bool
		pk := safeCall(func() { b = util.NilInterface(v) })
		r := fmt.Sprintf("(PIOk %s)", bl(b))
		if pk {
			r = "PIPanic"
		}
		return fmt.Sprintf("PCNil %s %s", in.V.Coq(), r), strings.Fields(strings.Trim(r, "()"))[0]
	case "acdict":
		var ks []string
		var err error
		pk := safeCall(func() { ks, err = ahoholder.ParseAcMatchDict(v) })
		r := "PIPanic"
		if !pk {
			r = "PIErr"
			if err == nil {
				r = fmt.Sprintf("(PIOk %s)", textListLit(ks))
			}
		}
		return fmt.Sprintf("PCAcDict %s %s", in.V.Coq(), r), strings.Fields(strings.Trim(r, "()"))[0]
	case "actext":
		var rs []rune
		var err error
		pk := safeCall(func() { rs, err = ahoholder.BuildAcMatchContent(v, " ") })
		r := "PIPanic"
		if !pk {
			r = "PIErr"
			if err == nil {
				r = fmt.Sprintf("(PIOk %s)", textLit(string(rs)))
			}
		}
		return fmt.Sprintf("PCAcText %s %s", in.V.Coq(), r), strings.Fields(strings.Trim(r, "()"))[0]
	case "match":
		p := parser.NewCommonParser()
		var i1, i2 []uint64
		var e1, e2 error
		p1 := safeCall(func() { i1, e1 = p.ParseValue(v) })
		v2 := in.V2.Value()
		p2 := safeCall(func() { i2, e2 = p.ParseAssign(v2) })
		m := "nomatch"
		for _, a := range i1 {
			for _, b := range i2 {
				if a == b {
					m = "match"
				}
			}
		}
		return fmt.Sprintf("PCMatch %s %s %s %s", in.V.Coq(), in.V2.Coq(), idsLit(i1, e1, p1), idsLit(i2, e2, p2)), m
	}
	panic("bad parse case kind " + in.K)
}

// rangeBounds recovers [left,right) of a *Range through its exported String():
// "[l,r)", "[-inf,r)" when l = MinInt64, "[l,+inf)" when l = MaxInt64.
func rangeBounds(rg *rangeholder.Range) (int64, int64) {
	str := rg.String()
	var l, r int64
	if _, err := fmt.Sscanf(str, "[-inf,%d)", &r); err == nil {
		return -1 << 63, r
	}
	if _, err := fmt.Sscanf(str, "[%d,%d)", &l, &r); err == nil {
		return l, r
	}
	if _, err := fmt.Sscanf(str, "[%d,+inf)", &l); err == nil {
		return l, 1<<63 - 1
	}
	panic("unparsable range " + str)
}

// child mode: `vh parse1` reads one pIn on stdin; guards against divergence and memory blow-up
func parse1Main() {
	go func() {
		deadline := time.Now().Add(2 * time.Second)
		var ms runtime.MemStats
		for {
			time.Sleep(20 * time.Millisecond)
			runtime.ReadMemStats(&ms)
			if ms.HeapAlloc > 600<<20 || time.Now().After(deadline) {
				os.Exit(98)
			}
		}
	}()
	var in pIn
	if err := json.NewDecoder(os.Stdin).Decode(&in); err != nil {
		os.Exit(3)
	}
	lit, out := runParseCase(&in)
	fmt.Printf("%s\n%s\n", out, lit)
}

func divergeLit(in *pIn) string {
	switch in.K {
	case "parse":
		return fmt.Sprintf("PCParse %s %s %s PIDiverge", parserCoq(in.Parser), bl(in.Assign), in.V.Coq())
	}
	return ""
}

func execParse(raw json.RawMessage) (res execResult, err error) {
	var in pIn
	if err = json.Unmarshal(raw, &in); err != nil {
		return
	}
	res.Family = "P"
	res.Dist = in.K
	if in.K == "parse" {
		res.Dist = "parse/" + in.Parser
		if in.Parser == "" {
			res.Dist = "parse/common"
		}
	}
	isolated := in.K == "parse" && in.Parser == "numrange" && !in.Assign
	var lit, out string
	if isolated {
		cmd := exec.Command(os.Args[0], "parse1")
		cmd.Stdin = bytes.NewReader(raw)
		var ob bytes.Buffer
		cmd.Stdout = &ob
		e := cmd.Run()
		if e != nil {
			if ee, ok := e.(*exec.ExitError); ok && ee.ExitCode() == 98 {
				lit, out = divergeLit(&in), "PIDiverge"
			} else {
				return res, fmt.Errorf("child failed: %v", e)
			}
		} else {
			parts := strings.SplitN(ob.String(), "\n", 2)
			out, lit = parts[0], strings.TrimSpace(parts[1])
		}
	} else {
		lit, out = runParseCase(&in)
	}
	res.Coq = lit
	res.Dist += "/" + out
	res.NonTrivial = out == "PIOk" || out == "match" || out == "nomatch"
	res.Summary = out
	return
}
