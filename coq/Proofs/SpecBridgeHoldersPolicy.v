(* END-TO-END exactness of the executable posting-list index (Model/Index.v) against the representation-free
   specification (Model/Spec.v) for builders with ANY mix of default / pattern (CAc) / range (CRange)
   containers, for EVERY bad-conjunction policy and EVERY outcome list.
   Combines Proofs/IndexCorrectHoldersPolicy.v (any containers, every policy, model level) with
   Proofs/SpecBridgeHolders.v (any containers against Spec, all documents accepted).
   See the end of the file for the list of results. *)
From Coq Require Import List NArith ZArith Bool Lia Permutation Arith.
From BE Require Import Model.GoTypes Model.GoVal Model.Parsers Model.Index Model.Spec Gen.TypeSwitchGen.
From BE Require Import Proofs.ParsersProof Proofs.CanonProof Proofs.DenoteProof Proofs.IndexBuildInv Proofs.IndexCorrect.
From BE Require Import Proofs.HoldersBuildInv Proofs.IndexCorrectHolders Proofs.SpecBridge Proofs.SpecBridgeHolders.
From BE Require Import Proofs.IndexCorrectPolicy Proofs.IndexCorrectHoldersPolicy.
From BE Require Gen.IdsGen Proofs.IdsProof Proofs.RoaringProof Proofs.NoTrace.
Import ListNotations.
Local Open Scope Z_scope.

(* ================================================================================== *)
(* 1.  how IndexingBETx ends on ONE expression, read off the specification             *)
(* ================================================================================== *)

(* the pattern container's ParseAcMatchDict answers "unmodelled" on a []byte value (byte strings are
   outside the text model); everything else is either accepted or refused with an error *)
Definition ac_mod (v : gval) : Prop := match v with VSlice TSuint8 _ _ => False | _ => True end.

(* the modelled fragment, by container: SpecBridgeHolders.val_mod' plus ac_mod on pattern fields *)
Definition val_mod2 (c : cont_kind) (p : parser_kind) (v : gval) : Prop :=
  match c with CAc => ac_mod v | _ => val_mod' c p v end.

Lemma val_mod2_val_mod' c p v : val_mod2 c p v -> val_mod' c p v.
Proof. destruct c; cbn; auto. Qed.

(* an operator other than EQ on a default or pattern container: util.PanicIf *)
Definition panics (c : cont_kind) (e : expr) : bool :=
  match c with
  | CRange => false
  | _ => match e_op e with OpEQ => false | _ => true end
  end.

Theorem ac_dict_ans v : wf_val v -> ac_mod v -> ac_parse_dict v = ans (strings_of v).
Proof.
  intros Hwf Hm.
  destruct v as [|k z|w f|s|s|b|t n vs|n vs|t vs|t n]; try reflexivity.
  - destruct k; reflexivity.
  - destruct w; reflexivity.
  - destruct (slice_elems _ _ _ Hwf) as [Ht He].
    destruct t; try discriminate Ht; try reflexivity; try contradiction.
    cbn [strings_of]. change (ac_parse_dict (VSlice TSstring n vs)) with
      (pmap_list (fun e => match e with VStr s => POk s | _ => PUnmodelled end) vs).
    rewrite (ac_elem_slice vs He). reflexivity.
  - cbn [strings_of]. change (ac_parse_dict (VList n vs)) with
      (pmap_list (fun e => match e with VStr s => POk s | _ => PErr end) vs).
    rewrite (ac_elem_list vs). reflexivity.
  - destruct Hwf as [Hw _]. cbn [wf_shape] in Hw. destruct t; try contradiction; reflexivity.
  - destruct Hwf as [Hw _]. cbn [wf_shape] in Hw. destruct t; try discriminate; reflexivity.
Qed.

(* the verdict of the specification on one expression *)
Definition sexpr_res (fd : fdesc) (e : expr) : pres unit :=
  if panics (fd_cont fd) e then PPanic else match expr_sem fd e with Some _ => POk tt | None => PErr end.

Theorem gexpr_res_sem thr parsers cfg f e :
  wf_val (e_val e) -> val_mod2 (cfg f) (parsers f) (e_val e) ->
  gexpr_res thr parsers cfg f e = sexpr_res (mkfd parsers cfg f) e.
Proof.
  intros Hw Hm. unfold gexpr_res, sexpr_res, indexing_tx, panics.
  change (fd_cont (mkfd parsers cfg f)) with (cfg f). change (fd_parser (mkfd parsers cfg f)) with (parsers f).
  set (fd := mkfd parsers cfg f).
  destruct (cfg f) eqn:Ec; cbn [val_mod2 val_mod'] in Hm.
  - (* default *)
    destruct (e_op e) eqn:Eo; try reflexivity.
    rewrite (parse_value_sem parsers f e Eo Hw Hm).
    unfold fd. rewrite (mkfd_default parsers cfg f Ec).
    destruct (expr_sem (mk_fd parsers f) e); reflexivity.
  - (* pattern *)
    destruct (e_op e) eqn:Eo; try reflexivity.
    rewrite (ac_dict_ans _ Hw Hm). unfold expr_sem. change (fd_cont fd) with (cfg f). rewrite Ec, Eo.
    destruct (strings_of (e_val e)); reflexivity.
  - (* range *)
    destruct Hm as [Hm Hi].
    assert (Hc : fd_cont fd = CRange) by exact Ec.
    destruct (e_op e) eqn:Eo.
    + rewrite (parse_integers_ans _ Hw Hm Hi). unfold expr_sem. rewrite Hc, Eo.
      destruct (nil_like (e_val e)); [reflexivity|]. destruct (ints_of (e_val e)); reflexivity.
    + rewrite (expr_sem_range fd e Hc) by (rewrite Eo; discriminate). rewrite Eo.
      rewrite (parse_range_full OpGT _ ltac:(discriminate) Hw Hm Hi).
      destruct (range_spec OpGT (e_val e)) as [[l0 r0]|]; cbn [option_map ans pbind shape]; [|reflexivity].
      destruct (mrepr OpGT (l0, r0)) as [l r]. destruct (range_size_lt l r thr); reflexivity.
    + rewrite (expr_sem_range fd e Hc) by (rewrite Eo; discriminate). rewrite Eo.
      rewrite (parse_range_full OpLT _ ltac:(discriminate) Hw Hm Hi).
      destruct (range_spec OpLT (e_val e)) as [[l0 r0]|]; cbn [option_map ans pbind shape]; [|reflexivity].
      destruct (mrepr OpLT (l0, r0)) as [l r]. destruct (range_size_lt l r thr); reflexivity.
    + rewrite (expr_sem_range fd e Hc) by (rewrite Eo; discriminate). rewrite Eo.
      rewrite (parse_range_full OpBetween _ ltac:(discriminate) Hw Hm Hi).
      destruct (range_spec OpBetween (e_val e)) as [[l0 r0]|]; cbn [option_map ans pbind shape]; [|reflexivity].
      destruct (mrepr OpBetween (l0, r0)) as [l r]. destruct (range_size_lt l r thr); reflexivity.
    + unfold expr_sem. rewrite Hc, Eo. reflexivity.
Qed.

Lemma panics_no_sem fd e : panics (fd_cont fd) e = true -> expr_sem fd e = None.
Proof.
  unfold panics, expr_sem. destruct (fd_cont fd); try discriminate; destruct (e_op e); try discriminate; reflexivity.
Qed.

Lemma sexpr_res_ok fd e : sexpr_res fd e = POk tt <-> expr_sem fd e <> None.
Proof.
  unfold sexpr_res. destruct (panics (fd_cont fd) e) eqn:Ep.
  - rewrite (panics_no_sem fd e Ep). split; [discriminate|congruence].
  - destruct (expr_sem fd e); split; congruence.
Qed.

Lemma sexpr_res_cases fd e :
  sexpr_res fd e = POk tt \/ sexpr_res fd e = PErr \/ (sexpr_res fd e = PPanic /\ panics (fd_cont fd) e = true).
Proof.
  unfold sexpr_res. destruct (panics (fd_cont fd) e); [auto|]. destruct (expr_sem fd e); auto.
Qed.

(* ================================================================================== *)
(* 2.  how parsing a CONJUNCTION ends, read off the specification                      *)
(* ================================================================================== *)
(* POk tt when every expression denotes; otherwise the verdict on the FIRST expression (in field /
   expression order) that does not: PPanic for an operator other than EQ on a default or pattern
   container, PErr otherwise *)
Fixpoint sexprs_res (fd : fdesc) (es : list expr) : pres unit :=
  match es with
  | [] => POk tt
  | e :: es' => match sexpr_res fd e with POk _ => sexprs_res fd es' | r => r end
  end.
Fixpoint sconj_res (fields : list fdesc) (parsers : fname -> parser_kind) (cj : conj) : pres unit :=
  match cj with
  | [] => POk tt
  | (f, es) :: cj' => match sexprs_res (field_desc fields parsers f) es with POk _ => sconj_res fields parsers cj' | r => r end
  end.

Lemma sexprs_res_ok fd es : sexprs_res fd es = POk tt <-> forall e, In e es -> expr_sem fd e <> None.
Proof.
  induction es as [|e es IH]; cbn [sexprs_res]; [split; [intros _ e []|reflexivity]|].
  pose proof (sexpr_res_ok fd e) as He.
  destruct (sexpr_res fd e) as [[]| | | |].
  - rewrite IH. split.
    + intros H x [<-|Hx]; [apply He; reflexivity|apply H; exact Hx].
    + intros H x Hx. apply H. right. exact Hx.
  - split; [discriminate|]. intros H. apply He. apply H. left. reflexivity.
  - split; [discriminate|]. intros H. apply He. apply H. left. reflexivity.
  - split; [discriminate|]. intros H. apply He. apply H. left. reflexivity.
  - split; [discriminate|]. intros H. apply He. apply H. left. reflexivity.
Qed.

Lemma sexprs_res_cases fd es :
  sexprs_res fd es = POk tt \/ sexprs_res fd es = PErr \/
  (sexprs_res fd es = PPanic /\ exists e, In e es /\ panics (fd_cont fd) e = true).
Proof.
  induction es as [|e es IH]; cbn [sexprs_res]; [auto|].
  destruct (sexpr_res_cases fd e) as [E|[E|[E Hp]]]; rewrite E.
  - destruct IH as [I|[I|[I (e' & He' & Hp')]]]; auto.
    right. right. split; [exact I|]. exists e'. split; [right; exact He'|exact Hp'].
  - auto.
  - right. right. split; [reflexivity|]. exists e. split; [left; reflexivity|exact Hp].
Qed.

Lemma sconj_res_ok fields parsers cj : sconj_res fields parsers cj = POk tt <-> conj_sem fields parsers cj <> None.
Proof.
  rewrite conj_sem_not_none.
  induction cj as [|[f es] cj IH]; cbn [sconj_res]; [split; [intros _ f es e []|reflexivity]|].
  pose proof (sexprs_res_ok (field_desc fields parsers f) es) as He.
  destruct (sexprs_res (field_desc fields parsers f) es) as [[]| | | |].
  - rewrite IH. split.
    + intros H f' es' e [[= <- <-]|H1] H2; [apply He; [reflexivity|exact H2]|apply (H f' es' e H1 H2)].
    + intros H f' es' e H1 H2. apply (H f' es' e); [right; exact H1|exact H2].
  - split; [discriminate|]. intros H. apply He. intros e H2. apply (H f es e); [left; reflexivity|exact H2].
  - split; [discriminate|]. intros H. apply He. intros e H2. apply (H f es e); [left; reflexivity|exact H2].
  - split; [discriminate|]. intros H. apply He. intros e H2. apply (H f es e); [left; reflexivity|exact H2].
  - split; [discriminate|]. intros H. apply He. intros e H2. apply (H f es e); [left; reflexivity|exact H2].
Qed.

Lemma sconj_res_cases fields parsers cj :
  sconj_res fields parsers cj = POk tt \/ sconj_res fields parsers cj = PErr \/
  (sconj_res fields parsers cj = PPanic /\
   exists f es e, In (f, es) cj /\ In e es /\ panics (fd_cont (field_desc fields parsers f)) e = true).
Proof.
  induction cj as [|[f es] cj IH]; cbn [sconj_res]; [auto|].
  destruct (sexprs_res_cases (field_desc fields parsers f) es) as [E|[E|[E (e & He & Hp)]]]; rewrite E.
  - destruct IH as [I|[I|[I (f' & es' & e' & H1 & H2 & H3)]]]; auto.
    right. right. split; [exact I|]. exists f', es', e'. split; [right; exact H1|auto].
  - auto.
  - right. right. split; [reflexivity|]. exists f, es, e. split; [left; reflexivity|auto].
Qed.

(* every expression value is well formed and inside the modelled fragment of its field's container:
   NOTHING is asked of the expressions that do not denote beyond this *)
Definition conj_wf2 (parsers : fname -> parser_kind) (cfg : fname -> cont_kind) (cj : conj) : Prop :=
  forall f es e, In (f, es) cj -> In e es -> wf_val (e_val e) /\ val_mod2 (cfg f) (parsers f) (e_val e).

(* the model's verdict (IndexCorrectHoldersPolicy.gconj_res) is the specification's *)
Theorem gconj_res_sem thr parsers cfgl cj : conj_wf2 parsers (cfg_of cfgl) cj ->
  gconj_res thr parsers (cfg_of cfgl) cj = sconj_res (cfg_fields parsers cfgl) parsers cj.
Proof.
  induction cj as [|[f es] cj IH]; intros H; cbn [gconj_res sconj_res]; [reflexivity|].
  assert (He : gexprs_res thr parsers (cfg_of cfgl) f es = sexprs_res (field_desc (cfg_fields parsers cfgl) parsers f) es).
  { rewrite field_desc_cfg.
    assert (G : forall e, In e es -> wf_val (e_val e) /\ val_mod2 (cfg_of cfgl f) (parsers f) (e_val e))
      by (intros e He; apply (H f es e); [left; reflexivity|exact He]).
    clear H IH. induction es as [|e es IHe]; cbn [gexprs_res sexprs_res]; [reflexivity|].
    destruct (G e (or_introl eq_refl)) as [Hw Hm]. rewrite (gexpr_res_sem thr parsers (cfg_of cfgl) f e Hw Hm).
    rewrite IHe by (intros e' He'; apply G; right; exact He'). reflexivity. }
  rewrite He, IH by (intros f' es' e H1 H2; apply (H f' es' e); [right; exact H1|exact H2]). reflexivity.
Qed.

(* hence: a conjunction is ACCEPTED iff it DENOTES -- no side condition besides well-formedness
   (SpecBridgeHolders.conj_ok'_conj_sem asked in_nil_ok for accepted -> denotes; since Spec.expr_sem reads a
   nil-like `in` value of a range field as the empty list that condition is not needed) *)
Corollary conj_ok'_conj_sem_wf parsers cfgl cj : conj_wf2 parsers (cfg_of cfgl) cj ->
  (conj_ok' parsers (cfg_of cfgl) cj = true <-> conj_sem (cfg_fields parsers cfgl) parsers cj <> None).
Proof.
  intros H. rewrite <- (gconj_res_ok 0 parsers (cfg_of cfgl) cj), (gconj_res_sem 0 parsers cfgl cj H).
  apply sconj_res_ok.
Qed.

(* ================================================================================== *)
(* 3.  model level: IndexCorrectHoldersPolicy.index_correct_holders_policy with the     *)
(*     int64 side condition asked of the ACCEPTED conjunctions only                    *)
(* ================================================================================== *)
Theorem index_correct_holders_policy_acc kind pol thr parsers cfgl st0 ds st os q :
  config_fields (new_builder kind pol thr parsers) cfgl = Some st0 ->
  add_documents false st0 ds = (st, os) ->
  NoDup (map d_id ds) ->
  (forall d cj, In d ds -> In cj (d_conjs d) -> NoDup (map fst cj)) ->
  (forall d cj, In d ds -> In cj (d_conjs d) -> conj_ok' parsers (cfg_of cfgl) cj = true -> conj_rwf thr (cfg_of cfgl) cj) ->
  NoDup (map fst q) ->
  (forall f v, In (f, v) q -> qv_ok (cfg_of cfgl f) (parsers f) v = true) ->
  (kind = IKGroups -> forall f v, In (f, v) q -> cfg_of cfgl f = CAc -> nil_slice_wf v) ->
  let cres := gconj_res thr parsers (cfg_of cfgl) in
  os = xouts pol cres ds /\
  exists hits,
    retrieve_hits (build_index st) q = ROk hits /\
    NoDup (map snd hits) /\
    (forall x, In x (map snd hits) <->
       exists cj, In (x, cj) (xidb pol cres ds) /\ conj_sat' parsers (cfg_of cfgl) q cj = true) /\
    (forall h, In h hits -> fst h = IdsGen.ConjID_DocID (snd h)).
Proof.
  intros Hcfg Hadd Hnd Hcjs Hrw Hq Hqp Hqnil cres.
  destruct (configured_GInv _ _ _ _ _ _ Hcfg) as (_ & _ & Hext).
  assert (Hext' : forall f, cfg_of cfgl f = fields_cfg st0 f) by (intros f; symmetry; apply Hext).
  set (cfg := fields_cfg st0) in *.
  assert (Hcres : forall c, gconj_res thr parsers cfg c = cres c).
  { intros c. apply gconj_res_ext. exact Hext. }
  assert (Hrw' : forall d c, In d ds -> In c (d_conjs d) -> conj_ok' parsers cfg c = true -> conj_rwf thr cfg c).
  { intros d c Hd Hc Hok. eapply conj_rwf_ext; [exact Hext'|]. eapply Hrw; try eassumption.
    rewrite <- (conj_ok'_ext parsers cfg (cfg_of cfgl) c Hext). exact Hok. }
  destruct (add_documents_grun kind pol thr parsers cfgl st0 ds st os Hcfg Hrw' Hadd) as (HF & HR & Eos).
  fold cfg in HF, HR, Eos.
  rewrite (xidb_ext pol _ cres ds Hcres) in HR. rewrite (xouts_ext pol _ cres ds Hcres) in Eos.
  split; [exact Eos|].
  set (db := xidb pol cres ds) in *.
  assert (Hdbm : forall cid cj, In (cid, cj) db <-> exists d k, has_conj ds d k cj cid /\ xm_indexed pol cres d k cj).
  { intros cid cj. apply idb_In. }
  assert (Hhas : forall cid cj, In (cid, cj) db -> exists d k, has_conj ds d k cj cid).
  { intros cid cj H. apply Hdbm in H. destruct H as (d & k & H & _). eauto. }
  assert (H60 : forall cid cj, In (cid, cj) db -> (cid < 2^60)%N).
  { intros cid cj H. apply Hhas in H. destruct H as (d & k & H). apply (has_conj_facts _ _ _ _ _ H). }
  assert (Hu : forall cid cj cj', In (cid, cj) db -> In (cid, cj') db -> cj = cj').
  { intros cid cj cj' H H'. apply Hhas in H, H'. destruct H as (d & k & H), H' as (d' & k' & H').
    apply (has_conj_unique _ _ _ _ _ _ _ _ Hnd H H'). }
  assert (Hndc : forall cid cj, In (cid, cj) db -> NoDup (map fst cj)).
  { intros cid cj H. apply Hhas in H. destruct H as (d & k & Hd & Hn & _).
    apply (Hcjs d cj Hd). eapply nth_error_In. exact Hn. }
  assert (Hsz : forall cid cj, In (cid, cj) db -> IdsGen.ConjID_Size cid = calc_size cj).
  { intros cid cj H. apply Hhas in H. destruct H as (d & k & H). apply (has_conj_facts _ _ _ _ _ H). }
  assert (Hdbok : forall cid cj, In (cid, cj) db -> conj_ok' parsers cfg cj = true).
  { intros cid cj H. apply Hdbm in H. destruct H as (d & k & _ & (_ & _ & Hr & _)).
    apply (gconj_res_ok thr parsers cfg cj). rewrite Hcres. exact Hr. }
  assert (Hdbrw : forall cid cj, In (cid, cj) db -> conj_rwf thr cfg cj).
  { intros cid cj H. pose proof (Hdbok cid cj H) as Hok. apply Hhas in H. destruct H as (d & k & Hd & Hn & _).
    apply (Hrw' d cj Hd); [eapply nth_error_In; exact Hn|exact Hok]. }
  assert (Hqp' : forall f v, In (f, v) q -> qvok parsers cfg f v = true).
  { intros f v H. unfold qvok, cfg. rewrite Hext. apply Hqp. exact H. }
  assert (Hqnil' : kind = IKGroups -> forall f v, In (f, v) q -> cfg f = CAc -> nil_slice_wf v).
  { intros Hk f v H Hc. apply (Hqnil Hk f v H). rewrite Hext'. exact Hc. }
  assert (core : exists hits, retrieve_hits (build_index st) q = ROk hits /\ NoDup (map snd hits) /\
            (forall x, In x (map snd hits) <-> exists cj, In (x, cj) db /\ conj_sat' parsers cfg q cj = true) /\
            (forall h, In h hits -> fst h = IdsGen.ConjID_DocID (snd h))).
  { destruct kind.
    - apply (gkgroups_hits_correct IKGroups pol thr parsers cfg st db HF HR H60 Hu Hdbok Hdbrw q Hq Hqp' (Hqnil' eq_refl) Hndc eq_refl).
    - apply (gcompact_hits_correct ICompact pol thr parsers cfg st db HF HR H60 Hu Hdbok Hdbrw q Hq Hqp' Hndc eq_refl Hsz). }
  destruct core as (hits & E & N1 & I1 & O1).
  exists hits. split; [exact E|]. split; [exact N1|]. split; [|exact O1].
  intros x. rewrite I1. split; intros (cj & A & B); exists cj; (split; [exact A|]);
    [rewrite <- (conj_sat'_ext parsers cfg (cfg_of cfgl) q cj Hext)|rewrite (conj_sat'_ext parsers cfg (cfg_of cfgl) q cj Hext)]; exact B.
Qed.

(* ================================================================================== *)
(* 4.  SPEC side: hypotheses on documents and assignments                              *)
(* ================================================================================== *)
(* every expression of the document is well formed and modelled ... *)
Definition doc_wf2 (parsers : fname -> parser_kind) (cfg : fname -> cont_kind) (d : doc) : Prop :=
  forall cj, In cj (d_conjs d) -> conj_wf2 parsers cfg cj.
(* ... and the conjunctions that DENOTE lie in the domain on which specification and model agree
   (SpecBridgeHolders.expr_dom: no empty keyword; representable intervals); a boolean *)
Definition conj_dom (cfg : fname -> cont_kind) (cj : conj) : bool :=
  forallb (fun fe : fname * list expr => forallb (expr_dom (cfg (fst fe))) (snd fe)) cj.
Definition doc_dom_den (parsers : fname -> parser_kind) (cfgl : list (fname * cont_kind)) (d : doc) : bool :=
  forallb (fun cj => match conj_sem (cfg_fields parsers cfgl) parsers cj with
                     | Some _ => conj_dom (cfg_of cfgl) cj | None => true end) (d_conjs d).
Definition doc_ok (parsers : fname -> parser_kind) (cfgl : list (fname * cont_kind)) (d : doc) : Prop :=
  doc_wf2 parsers (cfg_of cfgl) d /\ doc_dom_den parsers cfgl d = true.

Lemma conj_dom_spec cfg cj : conj_dom cfg cj = true <->
  forall f es e, In (f, es) cj -> In e es -> expr_dom (cfg f) e = true.
Proof.
  unfold conj_dom. rewrite forallb_forall. split.
  - intros H f es e H1 H2. specialize (H (f, es) H1). cbn [fst snd] in H. rewrite forallb_forall in H. apply H. exact H2.
  - intros H [f es] H1. cbn [fst snd]. apply forallb_forall. intros e H2. apply (H f es e H1 H2).
Qed.

Lemma doc_dom_den_spec parsers cfgl d : doc_dom_den parsers cfgl d = true <->
  forall cj, In cj (d_conjs d) -> conj_sem (cfg_fields parsers cfgl) parsers cj <> None -> conj_dom (cfg_of cfgl) cj = true.
Proof.
  unfold doc_dom_den. rewrite forallb_forall. split.
  - intros H cj Hc Hs. specialize (H cj Hc). destruct (conj_sem (cfg_fields parsers cfgl) parsers cj); [exact H|congruence].
  - intros H cj Hc. specialize (H cj Hc). destruct (conj_sem (cfg_fields parsers cfgl) parsers cj); [apply H; discriminate|reflexivity].
Qed.

(* SpecBridgeHolders.doc_good' (domain asked of EVERY expression) together with ac_mod is sufficient *)
Lemma doc_good'_doc_ok parsers cfgl d : doc_good' parsers (cfg_of cfgl) d ->
  (forall cj f es e, In cj (d_conjs d) -> In (f, es) cj -> In e es -> cfg_of cfgl f = CAc -> ac_mod (e_val e)) ->
  doc_ok parsers cfgl d.
Proof.
  intros [Hw Hd] Hac. split.
  - intros cj Hc f es e H1 H2. destruct (Hw cj f es e Hc H1 H2) as [A B]. split; [exact A|].
    destruct (cfg_of cfgl f) eqn:Ec; cbn [val_mod2]; try exact B. apply (Hac cj f es e Hc H1 H2 Ec).
  - apply doc_dom_den_spec. intros cj Hc _. apply conj_dom_spec. intros f es e H1 H2.
    apply (proj1 (doc_dom_spec _ d) Hd cj f es e Hc H1 H2).
Qed.

(* no assigned integer of a range field that carries a `>` expression in some DENOTING conjunction is MaxInt64 *)
Definition asg_dom_den (parsers : fname -> parser_kind) (cfgl : list (fname * cont_kind)) (ds : list doc) (q : assignment) : Prop :=
  forall d cj f es v, In d ds -> In cj (d_conjs d) -> conj_sem (cfg_fields parsers cfgl) parsers cj <> None ->
    In (f, es) cj -> In (f, v) q -> asg_dom (cfg_of cfgl f) es v = true.
Lemma asg_dom_for_den parsers cfgl ds q : asg_dom_for (cfg_of cfgl) ds q -> asg_dom_den parsers cfgl ds q.
Proof. intros H d cj f es v Hd Hc _ H1 H2. apply (H d cj f es v Hd Hc H1 H2). Qed.

(* under PolSkip no conjunction PANICS: the first expression that does not denote is not one with an
   operator other than EQ on a default or pattern container (the panic is not caught by the policy switch).
   Stated on the specification's side; skip_okb is the same as a boolean. *)
Definition skip_ok2 (pol : policy) (fields : list fdesc) (parsers : fname -> parser_kind) (ds : list doc) : Prop :=
  pol = PolSkip -> forall d cj, In d ds -> In cj (d_conjs d) -> sconj_res fields parsers cj <> PPanic.
Definition is_panic (r : pres unit) : bool := match r with PPanic => true | _ => false end.
Definition skip_okb (pol : policy) (fields : list fdesc) (parsers : fname -> parser_kind) (ds : list doc) : bool :=
  match pol with
  | PolSkip => forallb (fun d => forallb (fun cj => negb (is_panic (sconj_res fields parsers cj))) (d_conjs d)) ds
  | _ => true
  end.
Lemma skip_okb_spec pol fields parsers ds : skip_okb pol fields parsers ds = true <-> skip_ok2 pol fields parsers ds.
Proof.
  unfold skip_okb, skip_ok2. destruct pol; try (split; [intros _ H; discriminate|reflexivity]).
  rewrite forallb_forall. split.
  - intros H _ d cj Hd Hc E. specialize (H d Hd). rewrite forallb_forall in H. specialize (H cj Hc). rewrite E in H. discriminate.
  - intros H d Hd. apply forallb_forall. intros cj Hc. specialize (H eq_refl d cj Hd Hc).
    destruct (sconj_res fields parsers cj); try reflexivity. congruence.
Qed.
(* sufficient: every operator on a default / pattern field is EQ *)
Definition ops_ok (fields : list fdesc) (parsers : fname -> parser_kind) (ds : list doc) : Prop :=
  forall d cj f es e, In d ds -> In cj (d_conjs d) -> In (f, es) cj -> In e es ->
    panics (fd_cont (field_desc fields parsers f)) e = false.
Lemma ops_ok_skip_ok2 pol fields parsers ds : ops_ok fields parsers ds -> skip_ok2 pol fields parsers ds.
Proof.
  intros Ha _ d cj Hd Hc E. destruct (sconj_res_cases fields parsers cj) as [I|[I|[_ (f & es & e & H1 & H2 & H3)]]]; try congruence.
  rewrite (Ha d cj f es e Hd Hc H1 H2) in H3. discriminate.
Qed.

(* ---- the specification's reading of "indexed", configured fields ---- *)
Definition s_indexed' (fields : list fdesc) (pol : policy) (parsers : fname -> parser_kind) (d : doc) (k : nat) (cj : conj) : Prop :=
  pl_docok d = true /\ nth_error (d_conjs d) k = Some cj /\ conj_sem fields parsers cj <> None /\
  forall j cj', (j < k)%nat -> nth_error (d_conjs d) j = Some cj' -> pol <> PolSkip -> conj_sem fields parsers cj' <> None.

Lemma doc_sem_In' fields pol parsers d i sc :
  In (i, sc) (doc_sem fields parsers pol pl_docok d) <->
  exists k cj, i = Z.of_nat k /\ s_indexed' fields pol parsers d k cj /\ conj_sem fields parsers cj = Some sc.
Proof.
  unfold doc_sem, s_indexed'. destruct (pl_docok d).
  - rewrite (indexed_conjs_pos pol (conj_sem fields parsers) (d_conjs d) 0 i sc). split.
    + intros (k & cj & -> & Hk & Hs & Hpre). exists k, cj. split; [lia|]. split; [|exact Hs].
      split; [reflexivity|]. split; [exact Hk|]. split; [congruence|exact Hpre].
    + intros (k & cj & -> & (_ & Hk & _ & Hpre) & Hs). exists k, cj. split; [lia|]. auto.
  - split; [intros []|]. intros (k & cj & _ & (H & _) & _). discriminate.
Qed.

Definition sat_spec' (fields : list fdesc) (parsers : fname -> parser_kind) (q : assignment) (cj : conj) : Prop :=
  exists sc, conj_sem fields parsers cj = Some sc /\ sat_conj fields parsers q sc = Some true.

(* ================================================================================== *)
(* 5.  the model's and the specification's notions of "indexed" coincide               *)
(* ================================================================================== *)
Section Bridge2.
Variables (pol : policy) (thr : Z) (parsers : fname -> parser_kind) (cfgl : list (fname * cont_kind)) (ds : list doc).
Notation fields := (cfg_fields parsers cfgl).
Notation cfg := (cfg_of cfgl).
Notation cres := (gconj_res thr parsers (cfg_of cfgl)).
Hypothesis Hw : forall d, In d ds -> doc_wf2 parsers cfg d.
Hypothesis Hsz : sizes_ok ds.

Lemma gres_sem d cj : In d ds -> In cj (d_conjs d) -> cres cj = sconj_res fields parsers cj.
Proof. intros Hd Hc. apply gconj_res_sem. exact (Hw d Hd cj Hc). Qed.

Lemma cres_denotes d cj : In d ds -> In cj (d_conjs d) -> (cres cj = POk tt <-> conj_sem fields parsers cj <> None).
Proof. intros Hd Hc. rewrite (gres_sem d cj Hd Hc). apply sconj_res_ok. Qed.

Lemma m_indexed_s' d k cj cid : In d ds ->
  xm_indexed pol cres d k cj -> IdsGen.NewConjID (d_id d) (Z.of_nat k) (calc_size cj) = Some cid ->
  s_indexed' fields pol parsers d k cj.
Proof.
  intros Hd (Hv & Hk & Hr & Hpre) Hc. apply IdsProof.NewConjID_some_inrange in Hc.
  split; [apply pl_docok_iff; split; [exact Hv|apply Hc]|]. split; [exact Hk|]. split.
  - apply (cres_denotes d cj Hd); [eapply nth_error_In; exact Hk|exact Hr].
  - intros j cj' Hj Hn Hp. destruct (Hpre j cj' Hj Hn) as [_ [Hr'|[Hs _]]]; [|congruence].
    apply (cres_denotes d cj' Hd); [eapply nth_error_In; exact Hn|exact Hr'].
Qed.

Lemma docok_ids' d : In d ds -> pl_docok d = true -> forall k cj, nth_error (d_conjs d) k = Some cj ->
  exists cid, IdsGen.NewConjID (d_id d) (Z.of_nat k) (calc_size cj) = Some cid.
Proof.
  intros Hd Hok k cj Hk. apply pl_docok_iff in Hok. destruct Hok as [Hv Hid].
  destruct (IdsProof.conjid_roundtrip (d_id d) (Z.of_nat k) (calc_size cj) Hid (doc_valid_len d k cj Hv Hk)) as (cid & E & _).
  - split; [apply calc_size_nonneg|]. apply (Hsz d cj Hd). eapply nth_error_In; exact Hk.
  - exists cid. exact E.
Qed.

Hypothesis Hskip : skip_ok2 pol fields parsers ds.

Lemma s_indexed_m' d k cj : In d ds -> s_indexed' fields pol parsers d k cj ->
  xm_indexed pol cres d k cj /\ exists cid, IdsGen.NewConjID (d_id d) (Z.of_nat k) (calc_size cj) = Some cid.
Proof.
  intros Hd (Hok & Hk & Hs & Hpre).
  pose proof (docok_ids' d Hd Hok) as Hnew. apply pl_docok_iff in Hok. destruct Hok as [Hv Hid].
  split; [|apply Hnew; exact Hk].
  split; [exact Hv|]. split; [exact Hk|]. split.
  - apply (cres_denotes d cj Hd); [eapply nth_error_In; exact Hk|exact Hs].
  - intros j cj' Hj Hn. destruct (Hnew j cj' Hn) as [cid Ec]. split; [congruence|].
    assert (Hcj' : In cj' (d_conjs d)) by (eapply nth_error_In; exact Hn).
    destruct pol eqn:Ep.
    + left. apply (cres_denotes d cj' Hd Hcj'). apply (Hpre j cj' Hj Hn). discriminate.
    + rewrite (gres_sem d cj' Hd Hcj').
      destruct (sconj_res_cases fields parsers cj') as [I|[I|[I _]]]; [left; exact I|right; split; [reflexivity|exact I]|].
      exfalso. exact (Hskip eq_refl d cj' Hd Hcj' I).
    + left. apply (cres_denotes d cj' Hd Hcj'). apply (Hpre j cj' Hj Hn). discriminate.
Qed.

Theorem idb_In_spec' cid cj :
  In (cid, cj) (xidb pol cres ds) <-> exists d k, has_conj ds d k cj cid /\ s_indexed' fields pol parsers d k cj.
Proof.
  rewrite idb_In. split.
  - intros (d & k & Hh & Hm). exists d, k. split; [exact Hh|]. destruct Hh as (Hd & _ & Hc). eapply m_indexed_s'; eassumption.
  - intros (d & k & Hh & Hs). exists d, k. split; [exact Hh|]. destruct Hh as (Hd & _). apply (s_indexed_m' d k cj Hd Hs).
Qed.

Lemma s_indexed_has' d k cj : In d ds -> s_indexed' fields pol parsers d k cj -> exists cid, has_conj ds d k cj cid.
Proof.
  intros Hd Hs. destruct (s_indexed_m' d k cj Hd Hs) as [_ [cid Ec]]. exists cid.
  split; [exact Hd|]. split; [apply Hs|exact Ec].
Qed.

End Bridge2.

(* ================================================================================== *)
(* 6.  END TO END against Model/Spec.v: any containers, every policy, every outcome     *)
(* ================================================================================== *)
Section Main.
Variables (kind : index_kind) (pol : policy) (thr : Z) (parsers : fname -> parser_kind) (cfgl : list (fname * cont_kind)).
Variables (st0 : bstate) (ds : list doc) (st : bstate) (os : list add_out) (q : assignment).
Notation fields := (cfg_fields parsers cfgl).
Notation cfg := (cfg_of cfgl).
Notation cres := (gconj_res thr parsers (cfg_of cfgl)).

Hypothesis Hcfg : config_fields (new_builder kind pol thr parsers) cfgl = Some st0.
Hypothesis Hadd : add_documents false st0 ds = (st, os).
Hypothesis Hnd : NoDup (map d_id ds).
Hypothesis Hcjs : forall d cj, In d ds -> In cj (d_conjs d) -> NoDup (map fst cj).
Hypothesis Hg : forall d, In d ds -> doc_ok parsers cfgl d.
Hypothesis Hsz : sizes_ok ds.
Hypothesis Hskip : skip_ok2 pol fields parsers ds.
Hypothesis Hthr : - two64 < thr \/
  forall d cj, In d ds -> In cj (d_conjs d) -> conj_sem fields parsers cj <> None -> conj_rwf thr cfg cj.
Hypothesis Hq : NoDup (map fst q).
Hypothesis Hqg : asg_good' parsers cfgl q.
Hypothesis Hqd : asg_dom_den parsers cfgl ds q.
Hypothesis Hqnil : kind = IKGroups -> forall f v, In (f, v) q -> cfg f = CAc -> nil_slice_wf v.

Lemma Hw_of_Hg : forall d, In d ds -> doc_wf2 parsers cfg d.
Proof. intros d Hd. apply (Hg d Hd). Qed.

Lemma den_dom d cj f es e : In d ds -> In cj (d_conjs d) -> conj_sem fields parsers cj <> None ->
  In (f, es) cj -> In e es -> expr_dom (cfg f) e = true.
Proof.
  intros Hd Hc Hs H1 H2. destruct (Hg d Hd) as [_ Hdm].
  apply (proj1 (conj_dom_spec cfg cj) (proj1 (doc_dom_den_spec parsers cfgl d) Hdm cj Hc Hs) f es e H1 H2).
Qed.

(* the int64 side condition of IndexCorrectHolders, for the accepted conjunctions *)
Lemma rwf_acc d cj : In d ds -> In cj (d_conjs d) -> conj_ok' parsers cfg cj = true -> conj_rwf thr cfg cj.
Proof.
  intros Hd Hc Hok.
  assert (Hs : conj_sem fields parsers cj <> None)
    by (apply (conj_ok'_conj_sem_wf parsers cfgl cj (Hw_of_Hg d Hd cj Hc)); exact Hok).
  destruct Hthr as [Ht|Hrw]; [|exact (Hrw d cj Hd Hc Hs)].
  intros f es e H1 H2. destruct (Hw_of_Hg d Hd cj Hc f es e H1 H2) as [Hwe Hme].
  pose proof (den_dom d cj f es e Hd Hc Hs H1 H2) as Hde.
  destruct (cfg f) eqn:Ec; try (apply erwf_not_range; rewrite Ec; discriminate).
  cbn [val_mod2 val_mod' expr_dom] in *. destruct Hme as [Hme Hie]. apply erwf_of_dom; assumption.
Qed.

(* Spec.sat_conj on the denoting conjunctions of the documents is the model's conj_sat' *)
Lemma docs_sat_conj2 d cj sc : In d ds -> In cj (d_conjs d) -> conj_sem fields parsers cj = Some sc ->
  sat_conj fields parsers q sc = Some (conj_sat' parsers cfg q cj).
Proof.
  intros Hd Hc Hsc. assert (Hs : conj_sem fields parsers cj <> None) by congruence.
  apply sat_conj_conj_sat'; [| |exact Hsc].
  - intros f es e H1 H2. destruct (Hw_of_Hg d Hd cj Hc f es e H1 H2) as [A B].
    split; [exact A|]. split; [apply val_mod2_val_mod'; exact B|]. apply (den_dom d cj f es e Hd Hc Hs H1 H2).
  - intros f es v H1 H2. destruct (Hqg f v H2) as (A & B & C). split; [exact A|]. split; [exact B|]. split; [|exact C].
    apply (Hqd d cj f es v Hd Hc Hs H1 H2).
Qed.

Lemma sat_spec'_conj_sat' d cj : In d ds -> In cj (d_conjs d) -> conj_sem fields parsers cj <> None ->
  (sat_spec' fields parsers q cj <-> conj_sat' parsers cfg q cj = true).
Proof.
  intros Hd Hc Hs. destruct (conj_sem fields parsers cj) as [sc|] eqn:E; [|congruence].
  pose proof (docs_sat_conj2 d cj sc Hd Hc E) as Hsat. unfold sat_spec'. rewrite E. split.
  - intros (sc' & [= <-] & H). congruence.
  - intros H. exists sc. split; [reflexivity|]. congruence.
Qed.

(* the model-level answer *)
Lemma model_hits :
  os = xouts pol cres ds /\
  exists hits,
    retrieve_hits (build_index st) q = ROk hits /\
    NoDup (map snd hits) /\
    (forall x, In x (map snd hits) <->
       exists cj, In (x, cj) (xidb pol cres ds) /\ conj_sat' parsers cfg q cj = true) /\
    (forall h, In h hits -> fst h = IdsGen.ConjID_DocID (snd h)).
Proof.
  exact (index_correct_holders_policy_acc kind pol thr parsers cfgl st0 ds st os q Hcfg Hadd Hnd Hcjs rwf_acc Hq
           (asg_good'_qv_ok parsers cfgl q Hqg) Hqnil).
Qed.

(* ---------------------------------------------------------------------------------- *)
(* (2) the conjunction-level reading                                                    *)
(* ---------------------------------------------------------------------------------- *)
Theorem index_correct_spec_holders_policy_sec :
  exists hits,
    retrieve_hits (build_index st) q = ROk hits /\
    NoDup (map snd hits) /\
    (* a conjunction is reported iff it is indexed (in the specification's sense) and satisfied *)
    (forall d k cj cid, has_conj ds d k cj cid ->
       (In cid (map snd hits) <-> s_indexed' fields pol parsers d k cj /\ sat_spec' fields parsers q cj)) /\
    (* every indexed conjunction has an id (so the previous clause speaks about it) *)
    (forall d k cj, In d ds -> s_indexed' fields pol parsers d k cj -> exists cid, has_conj ds d k cj cid) /\
    (* nothing else is reported *)
    (forall h, In h hits -> fst h = IdsGen.ConjID_DocID (snd h) /\
       exists d k cj, has_conj ds d k cj (snd h) /\ s_indexed' fields pol parsers d k cj /\ sat_spec' fields parsers q cj).
Proof.
  destruct model_hits as (_ & hits & E & N1 & I1 & O1).
  pose proof (idb_In_spec' pol thr parsers cfgl ds Hw_of_Hg Hsz Hskip) as Hidb.
  assert (Hsat : forall d k cj, In d ds -> s_indexed' fields pol parsers d k cj ->
            (sat_spec' fields parsers q cj <-> conj_sat' parsers cfg q cj = true)).
  { intros d k cj Hd (_ & Hk & Hs & _). apply (sat_spec'_conj_sat' d cj Hd); [eapply nth_error_In; exact Hk|exact Hs]. }
  exists hits. split; [exact E|]. split; [exact N1|]. split; [|split].
  - intros d k cj cid Hh. rewrite I1. split.
    + intros (cj' & Hin & Hs). apply Hidb in Hin. destruct Hin as (d' & k' & Hh' & Hix).
      destruct (has_conj_unique _ _ _ _ _ _ _ _ Hnd Hh Hh') as (<- & <- & <-).
      split; [exact Hix|]. apply (Hsat d k cj); [apply Hh|exact Hix|exact Hs].
    + intros [Hix Hs]. exists cj. split.
      * apply Hidb. exists d, k. auto.
      * apply (Hsat d k cj); [apply Hh|exact Hix|exact Hs].
  - intros d k cj Hd Hix. exact (s_indexed_has' pol thr parsers cfgl ds Hw_of_Hg Hsz Hskip d k cj Hd Hix).
  - intros h Hh. split; [apply O1; exact Hh|].
    assert (Hin : In (snd h) (map snd hits)) by (apply in_map; exact Hh).
    apply I1 in Hin. destruct Hin as (cj & Hin & Hs).
    apply Hidb in Hin. destruct Hin as (d & k & Hhc & Hix).
    exists d, k, cj. split; [exact Hhc|]. split; [exact Hix|]. apply (Hsat d k cj); [apply Hhc|exact Hix|exact Hs].
Qed.

(* ---------------------------------------------------------------------------------- *)
(* (1) the reported triples are sat_hits                                                *)
(* ---------------------------------------------------------------------------------- *)
Theorem index_sat_hits_holders_policy_sec :
  exists hits spec_hits,
    retrieve_hits (build_index st) q = ROk hits /\
    sat_hits fields parsers pol pl_docok ds q = Some spec_hits /\
    Permutation (map (fun h : hitrec => triple (snd h)) hits) spec_hits /\
    NoDup (map snd hits).
Proof.
  destruct index_correct_spec_holders_policy_sec as (hits & E & N1 & I1 & X1 & O1).
  exists hits, (hits_of' fields parsers pol pl_docok q ds). split; [exact E|]. split; [|split; [|exact N1]].
  { apply sat_hits_total'. intros d [i sc] Hd Hin. cbn [snd].
    apply doc_sem_In' in Hin. destruct Hin as (k & cj & _ & (_ & Hk & _) & Hsc). apply nth_error_In in Hk.
    rewrite (docs_sat_conj2 d cj sc Hd Hk Hsc). discriminate. }
  assert (Em : map (fun h : hitrec => triple (snd h)) hits = map triple (map snd hits)) by (rewrite map_map; reflexivity).
  rewrite Em. apply NoDup_Permutation.
  - apply NoDup_map_inj_in; [|exact N1]. intros x y Hx Hy Et.
    apply in_map_iff in Hx, Hy. destruct Hx as (hx & <- & Hx), Hy as (hy & <- & Hy).
    destruct (O1 hx Hx) as [_ (d1 & k1 & c1 & H1 & _)]. destruct (O1 hy Hy) as [_ (d2 & k2 & c2 & H2 & _)].
    rewrite (has_conj_triple _ _ _ _ _ H1), (has_conj_triple _ _ _ _ _ H2) in Et. inversion Et as [[Ed Ek Es]].
    destruct H1 as (_ & _ & E1), H2 as (_ & _ & E2). rewrite Ed, Ek, Es in E1. congruence.
  - unfold hits_of'. apply (NoDup_flat_map_keyed _ fst d_id); [| |exact Hnd].
    + intros d y Hd Hy. apply in_flat_map in Hy. destruct Hy as (ic & _ & Hy).
      destruct (satb' fields parsers q (snd ic)); [|destruct Hy]. destruct Hy as [<-|[]]. reflexivity.
    + intros d Hd. apply (NoDup_flat_map_keyed _ (fun y => fst (snd y)) fst).
      * intros ic y _ Hy. destruct (satb' fields parsers q (snd ic)); [|destruct Hy]. destruct Hy as [<-|[]]. reflexivity.
      * intros ic _. destruct (satb' fields parsers q (snd ic)); repeat constructor. intros [].
      * unfold doc_sem. destruct (pl_docok d); [|constructor]. apply indexed_conjs_fst_NoDup.
        rewrite map_map. cbn [fst]. apply indexed_from_fst_NoDup.
  - intros t. split.
    + intros Ht. apply in_map_iff in Ht. destruct Ht as (cid & <- & Hc).
      assert (Hc' := Hc). apply in_map_iff in Hc'. destruct Hc' as (h & <- & Hh).
      destruct (O1 h Hh) as [_ (d & k & cj & Hhc & Hix & (sc & Esc & Hs))].
      rewrite (has_conj_triple _ _ _ _ _ Hhc).
      unfold hits_of'. apply in_flat_map. exists d. split; [apply Hhc|].
      apply in_flat_map. exists (Z.of_nat k, sc). split.
      * apply doc_sem_In'. exists k, cj. auto.
      * cbn [fst snd]. unfold satb'. rewrite Hs. left. rewrite (sconj_size_calc _ _ _ _ Esc). reflexivity.
    + intros Ht. unfold hits_of' in Ht. apply in_flat_map in Ht. destruct Ht as (d & Hd & Ht).
      apply in_flat_map in Ht. destruct Ht as ([i sc] & Hin & Ht). cbn [fst snd] in Ht.
      destruct (satb' fields parsers q sc) eqn:Eb; [|destruct Ht]. destruct Ht as [<-|[]].
      apply doc_sem_In' in Hin. destruct Hin as (k & cj & -> & Hix & Hsc).
      destruct (X1 d k cj Hd Hix) as [cid Hhc].
      apply in_map_iff. exists cid. split.
      * rewrite (has_conj_triple _ _ _ _ _ Hhc), (sconj_size_calc _ _ _ _ Hsc). reflexivity.
      * apply (I1 d k cj cid Hhc). split; [exact Hix|]. exists sc. split; [exact Hsc|].
        unfold satb' in Eb. destruct (sat_conj fields parsers q sc) as [[|]|]; congruence.
Qed.

(* ---------------------------------------------------------------------------------- *)
(* (4) documents: what `retrieve` answers                                               *)
(* ---------------------------------------------------------------------------------- *)
Theorem retrieve_docs_spec_holders_policy_sec :
  exists docs,
    retrieve (build_index st) q = ROk docs /\
    (forall d, In d ds ->
       (In (d_id d) docs <-> exists k cj, s_indexed' fields pol parsers d k cj /\ sat_spec' fields parsers q cj)) /\
    (forall z, In z docs -> exists d, In d ds /\ z = d_id d).
Proof.
  destruct model_hits as (_ & hits & E & _ & I1 & O1).
  destruct (hits_docs pol cres (conj_sat' parsers cfg q) ds (build_index st) q hits E I1 O1) as (Er & _ & D1).
  exists (collect_docs hits). split; [exact Er|]. split.
  - intros d Hd. rewrite D1. split.
    + intros (d' & cid & cj & Hd' & Ez & Hin & Hs).
      assert (d = d') by (eapply NoDup_map_eq; eassumption). subst d'.
      apply run_doc_In in Hin. destruct Hin as (k & Hm & Hc).
      pose proof (m_indexed_s' pol thr parsers cfgl ds Hw_of_Hg d k cj cid Hd Hm Hc) as Hix.
      exists k, cj. split; [exact Hix|].
      apply (sat_spec'_conj_sat' d cj Hd); [eapply nth_error_In; apply Hix|apply Hix|exact Hs].
    + intros (k & cj & Hix & Hs).
      destruct (s_indexed_m' pol thr parsers cfgl ds Hw_of_Hg Hsz Hskip d k cj Hd Hix) as [Hm [cid Hc]].
      exists d, cid, cj. split; [exact Hd|]. split; [reflexivity|]. split; [apply run_doc_In; exists k; auto|].
      apply (sat_spec'_conj_sat' d cj Hd); [eapply nth_error_In; apply Hix|apply Hix|exact Hs].
  - intros z Hz. apply D1 in Hz. destruct Hz as (d & _ & _ & Hd & Ez & _). eauto.
Qed.

End Main.

(* ================================================================================== *)
(* 7.  (3) the outcome list                                                            *)
(* ================================================================================== *)
(* the outcome of a document whose conjunctions all get a conjunction id, from how each conjunction ends *)
Fixpoint conjs_out (pol : policy) (F : conj -> pres unit) (cs : list conj) : add_out :=
  match cs with
  | [] => AddOk
  | c :: cs' =>
    match F c with
    | POk _ => conjs_out pol F cs'
    | PErr => match pol with PolSkip => conjs_out pol F cs' | PolError => AddErr | PolPanic => AddPanic end
    | PPanic => AddPanic
    | PDiverge => AddDiverge
    | PUnmodelled => AddUnmodelled
    end
  end.

(* what the specification predicts: EXACT, no hypothesis on the operators *)
Definition spec_out' (pol : policy) (fields : list fdesc) (parsers : fname -> parser_kind) (d : doc) : add_out :=
  if negb (doc_valid d) then AddErr                      (* no / more than 255 conjunctions *)
  else if negb (valid_doc_id (d_id d)) then AddPanic     (* document id out of range *)
  else conjs_out pol (sconj_res fields parsers) (d_conjs d).
(* ... and when no operator panics *)
Definition denotes' (fields : list fdesc) (parsers : fname -> parser_kind) (cj : conj) : bool :=
  match conj_sem fields parsers cj with Some _ => true | None => false end.
Definition spec_out_eq (pol : policy) (fields : list fdesc) (parsers : fname -> parser_kind) (d : doc) : add_out :=
  if negb (doc_valid d) then AddErr
  else if negb (valid_doc_id (d_id d)) then AddPanic
  else if forallb (denotes' fields parsers) (d_conjs d) then AddOk
  else pol_out pol.                                      (* Skip: AddOk, Error: AddErr, Panic: AddPanic *)

Lemma run_conjs_out_exact pol (F : conj -> pres unit) d : forall cs n,
  (forall k cj, nth_error cs k = Some cj -> IdsGen.NewConjID d (n + Z.of_nat k) (calc_size cj) <> None) ->
  snd (xrun_conjs pol F d (indexed_from n cs)) = conjs_out pol F cs.
Proof.
  induction cs as [|c cs IH]; intros n H; cbn [indexed_from xrun_conjs conjs_out]; [reflexivity|].
  assert (IH' := IH (n + 1)). clear IH.
  assert (Hrest : forall k cj, nth_error cs k = Some cj -> IdsGen.NewConjID d (n + 1 + Z.of_nat k) (calc_size cj) <> None).
  { intros k cj Hk. replace (n + 1 + Z.of_nat k) with (n + Z.of_nat (S k)) by lia. apply H. exact Hk. }
  specialize (IH' Hrest). pose proof (H O c eq_refl) as Hc. rewrite Z.add_0_r in Hc.
  destruct (IdsGen.NewConjID d n (calc_size c)) as [cid|]; [|congruence].
  destruct (F c) as [[]| | | |]; try reflexivity.
  - destruct (xrun_conjs pol F d (indexed_from (n + 1) cs)) as [db o]. cbn [snd] in *. exact IH'.
  - destruct pol; try reflexivity. exact IH'.
Qed.

Lemma conjs_out_ext_in pol (F G : conj -> pres unit) cs : (forall c, In c cs -> F c = G c) ->
  conjs_out pol F cs = conjs_out pol G cs.
Proof.
  induction cs as [|c cs IH]; intros H; cbn [conjs_out]; [reflexivity|].
  rewrite (H c (or_introl eq_refl)), IH by (intros c' Hc'; apply H; right; exact Hc'). reflexivity.
Qed.

Lemma conjs_out_noPanic pol (F : conj -> pres unit) cs :
  (forall c, In c cs -> F c = POk tt \/ F c = PErr) ->
  conjs_out pol F cs = if forallb (fun c => is_ok (F c)) cs then AddOk else pol_out pol.
Proof.
  induction cs as [|c cs IH]; intros H; cbn [conjs_out forallb]; [reflexivity|].
  specialize (IH (fun c' Hc' => H c' (or_intror Hc'))).
  destruct (H c (or_introl eq_refl)) as [E|E]; rewrite E; cbn [is_ok andb].
  - exact IH.
  - destruct pol; cbn [pol_out]; try reflexivity. rewrite IH. destruct (forallb (fun c0 => is_ok (F c0)) cs); reflexivity.
Qed.

Lemma conjs_out_spec pol (F : conj -> pres unit) cs :
  (forall c, In c cs -> F c = POk tt \/ F c = PErr \/ F c = PPanic) ->
  (pol = PolSkip -> forall c, In c cs -> F c <> PPanic) ->
  let o := conjs_out pol F cs in
  (o = AddOk <-> (pol = PolSkip \/ forall c, In c cs -> F c = POk tt)) /\
  (o = AddOk \/ o = AddErr \/ o = AddPanic) /\
  (pol = PolPanic -> o = AddOk \/ o = AddPanic).
Proof.
  induction cs as [|c cs IH]; intros H Hs; cbn [conjs_out]; cbv zeta.
  - split; [split; [intros _; right; intros c []|reflexivity]|]. auto.
  - specialize (IH (fun c' Hc' => H c' (or_intror Hc')) (fun Hp c' Hc' => Hs Hp c' (or_intror Hc'))). cbv zeta in IH.
    destruct IH as (I1 & I2 & I3).
    destruct (H c (or_introl eq_refl)) as [E|[E|E]]; rewrite E.
    + split; [|auto]. rewrite I1. split.
      * intros [Hp|Ha]; [left; exact Hp|right]. intros c' [<-|Hc']; [exact E|apply Ha; exact Hc'].
      * intros [Hp|Ha]; [left; exact Hp|right]. intros c' Hc'. apply Ha. right. exact Hc'.
    + destruct pol eqn:Ep.
      * split; [|split; [auto|discriminate]]. split; [discriminate|].
        intros [Hp|Ha]; [discriminate|]. specialize (Ha c (or_introl eq_refl)). congruence.
      * split; [|auto]. rewrite I1. split; [intros _; left; reflexivity|intros _; left; reflexivity].
      * split; [|split; [auto|auto]]. split; [discriminate|].
        intros [Hp|Ha]; [discriminate|]. specialize (Ha c (or_introl eq_refl)). congruence.
    + split; [|split; [auto|auto]]. split; [discriminate|].
      intros [Hp|Ha]; [exfalso; apply (Hs Hp c (or_introl eq_refl)); exact E|].
      specialize (Ha c (or_introl eq_refl)). congruence.
Qed.

(* AddOk iff pl_docok holds and (Skip or every conjunction denotes); otherwise AddErr / AddPanic *)
Definition out_spec' (pol : policy) (fields : list fdesc) (parsers : fname -> parser_kind) (d : doc) (o : add_out) : Prop :=
  (o = AddOk <-> pl_docok d = true /\
                 (pol = PolSkip \/ forall cj, In cj (d_conjs d) -> conj_sem fields parsers cj <> None)) /\
  (o = AddOk \/ o = AddErr \/ o = AddPanic) /\
  (doc_valid d = false -> o = AddErr) /\
  (doc_valid d = true -> valid_doc_id (d_id d) = false -> o = AddPanic) /\
  (pol = PolPanic -> doc_valid d = true -> o = AddOk \/ o = AddPanic).

Section Outcomes.
Variables (kind : index_kind) (pol : policy) (thr : Z) (parsers : fname -> parser_kind) (cfgl : list (fname * cont_kind)).
Variables (st0 : bstate) (ds : list doc) (st : bstate) (os : list add_out).
Notation fields := (cfg_fields parsers cfgl).
Notation cfg := (cfg_of cfgl).
Notation cres := (gconj_res thr parsers (cfg_of cfgl)).
Hypothesis Hcfg : config_fields (new_builder kind pol thr parsers) cfgl = Some st0.
Hypothesis Hadd : add_documents false st0 ds = (st, os).
Hypothesis Hg : forall d, In d ds -> doc_ok parsers cfgl d.
Hypothesis Hsz : sizes_ok ds.
Hypothesis Hthr : - two64 < thr \/
  forall d cj, In d ds -> In cj (d_conjs d) -> conj_sem fields parsers cj <> None -> conj_rwf thr cfg cj.

Lemma outs_model : os = xouts pol cres ds.
Proof.
  destruct (configured_GInv _ _ _ _ _ _ Hcfg) as (_ & _ & Hext).
  assert (Hrw' : forall d c, In d ds -> In c (d_conjs d) -> conj_ok' parsers (fields_cfg st0) c = true -> conj_rwf thr (fields_cfg st0) c).
  { intros d c Hd Hc Hok. eapply conj_rwf_ext; [intros f; symmetry; apply Hext|].
    apply (rwf_acc thr parsers cfgl ds Hg Hthr d c Hd Hc).
    rewrite <- (conj_ok'_ext parsers (fields_cfg st0) cfg c Hext). exact Hok. }
  destruct (add_documents_grun kind pol thr parsers cfgl st0 ds st os Hcfg Hrw' Hadd) as (_ & _ & Eos).
  rewrite Eos. apply xouts_ext. intros c. apply gconj_res_ext. exact Hext.
Qed.

Lemma run_doc_spec_out d : In d ds -> snd (xrun_doc pol cres d) = spec_out' pol fields parsers d.
Proof.
  intros Hd. unfold spec_out'. destruct (doc_valid d) eqn:Hv; cbn [negb].
  2:{ rewrite (run_doc_invalid pol cres d Hv). reflexivity. }
  destruct (valid_doc_id (d_id d)) eqn:Hid; cbn [negb].
  2:{ rewrite (run_doc_bad_id pol cres d Hv Hid). reflexivity. }
  assert (Hok : pl_docok d = true) by (unfold pl_docok; rewrite Hv, Hid; reflexivity).
  rewrite (run_doc_valid pol cres d Hv), run_conjs_out_exact.
  - apply conjs_out_ext_in. intros c Hc. apply (gres_sem thr parsers cfgl ds (fun d' Hd' => proj1 (Hg d' Hd')) d c Hd Hc).
  - intros k cj Hk. rewrite Z.add_0_l.
    destruct (docok_ids' ds Hsz d Hd Hok k cj Hk) as [cid E]. congruence.
Qed.

(* EXACT: the outcome list is the one the specification predicts, whatever the operators *)
Theorem outcomes_holders_policy_exact_sec : os = map (spec_out' pol fields parsers) ds.
Proof. rewrite outs_model. unfold xouts. apply map_ext_in. intros d Hd. apply run_doc_spec_out. exact Hd. Qed.

(* when no operator panics (ops_ok: every operator on a default / pattern field is EQ) *)
Lemma spec_out'_eq d : In d ds -> ops_ok fields parsers ds -> spec_out' pol fields parsers d = spec_out_eq pol fields parsers d.
Proof.
  intros Hd Ha. unfold spec_out', spec_out_eq. destruct (negb (doc_valid d)); [reflexivity|].
  destruct (negb (valid_doc_id (d_id d))); [reflexivity|].
  rewrite conjs_out_noPanic.
  - rewrite (forallb_ext_in (fun c => is_ok (sconj_res fields parsers c)) (denotes' fields parsers)); [reflexivity|].
    intros cj Hc. pose proof (sconj_res_ok fields parsers cj) as Hiff. unfold denotes'.
    destruct (sconj_res fields parsers cj) as [[]| | | |], (conj_sem fields parsers cj); cbn [is_ok]; try reflexivity;
      try (exfalso; apply (proj1 Hiff eq_refl); reflexivity);
      try (destruct Hiff as [_ Hiff]; specialize (Hiff ltac:(discriminate)); discriminate).
  - intros cj Hc. destruct (sconj_res_cases fields parsers cj) as [I|[I|[_ (f & es & e & H1 & H2 & H3)]]]; auto.
    rewrite (Ha d cj f es e Hd Hc H1 H2) in H3. discriminate.
Qed.

Theorem outcomes_holders_policy_eq_sec : ops_ok fields parsers ds -> os = map (spec_out_eq pol fields parsers) ds.
Proof.
  intros Ha. rewrite outcomes_holders_policy_exact_sec. apply map_ext_in. intros d Hd. apply spec_out'_eq; assumption.
Qed.

Hypothesis Hskip : skip_ok2 pol fields parsers ds.

Lemma spec_out'_out_spec d : In d ds -> out_spec' pol fields parsers d (spec_out' pol fields parsers d).
Proof.
  intros Hd. unfold out_spec', spec_out'.
  destruct (doc_valid d) eqn:Hv; cbn [negb].
  2:{ split; [|split; [auto|split; [auto|split; [discriminate|discriminate]]]].
      split; [discriminate|]. intros [H _]. apply pl_docok_iff in H. destruct H; congruence. }
  destruct (valid_doc_id (d_id d)) eqn:Hid; cbn [negb].
  2:{ split; [|split; [auto|split; [discriminate|auto]]].
      split; [discriminate|]. intros [H _]. unfold pl_docok in H. rewrite Hv, Hid in H. discriminate. }
  assert (Hok : pl_docok d = true) by (unfold pl_docok; rewrite Hv, Hid; reflexivity).
  destruct (conjs_out_spec pol (sconj_res fields parsers) (d_conjs d)) as (C1 & C2 & C3).
  - intros c Hc. destruct (sconj_res_cases fields parsers c) as [I|[I|[I _]]]; auto.
  - intros Hp c Hc. apply (Hskip Hp d c Hd Hc).
  - cbv zeta in C1, C2, C3. split; [|split; [exact C2|split; [discriminate|split; [discriminate|intros E _; exact (C3 E)]]]].
    rewrite C1. split.
    + intros [Hp|Ha]; (split; [exact Hok|]); [left; exact Hp|right]. intros cj Hc. apply sconj_res_ok. apply Ha. exact Hc.
    + intros [_ [Hp|Ha]]; [left; exact Hp|right]. intros cj Hc. apply sconj_res_ok. apply Ha. exact Hc.
Qed.

Theorem outcomes_holders_policy_sec : Forall2 (out_spec' pol fields parsers) ds os.
Proof.
  rewrite outcomes_holders_policy_exact_sec.
  assert (G : forall l, (forall d, In d l -> In d ds) -> Forall2 (out_spec' pol fields parsers) l (map (spec_out' pol fields parsers) l)).
  { induction l as [|d l IH]; intros Hl; cbn [map]; constructor.
    - apply spec_out'_out_spec. apply Hl. left. reflexivity.
    - apply IH. intros x Hx. apply Hl. right. exact Hx. }
  apply G. auto.
Qed.

End Outcomes.

(* ================================================================================== *)
(* 8.  THE THEOREMS, with their hypotheses spelled out                                 *)
(*     fields := cfg_fields parsers cfgl,  cfg := cfg_of cfgl                           *)
(* ================================================================================== *)
(* (1) the reported triples are a permutation of the specification's sat_hits *)
Theorem index_sat_hits_holders_policy kind pol thr parsers cfgl st0 ds st os q :
  config_fields (new_builder kind pol thr parsers) cfgl = Some st0 ->
  add_documents false st0 ds = (st, os) ->
  NoDup (map d_id ds) ->
  (forall d cj, In d ds -> In cj (d_conjs d) -> NoDup (map fst cj)) ->
  (forall d, In d ds -> doc_ok parsers cfgl d) ->
  sizes_ok ds ->
  skip_ok2 pol (cfg_fields parsers cfgl) parsers ds ->
  (- two64 < thr \/
   forall d cj, In d ds -> In cj (d_conjs d) -> conj_sem (cfg_fields parsers cfgl) parsers cj <> None ->
                conj_rwf thr (cfg_of cfgl) cj) ->
  NoDup (map fst q) ->
  asg_good' parsers cfgl q ->
  asg_dom_den parsers cfgl ds q ->
  (kind = IKGroups -> forall f v, In (f, v) q -> cfg_of cfgl f = CAc -> nil_slice_wf v) ->
  exists hits spec_hits,
    retrieve_hits (build_index st) q = ROk hits /\
    sat_hits (cfg_fields parsers cfgl) parsers pol pl_docok ds q = Some spec_hits /\
    Permutation (map (fun h : hitrec => triple (snd h)) hits) spec_hits /\
    NoDup (map snd hits).
Proof. exact (index_sat_hits_holders_policy_sec kind pol thr parsers cfgl st0 ds st os q). Qed.

(* (2) a conjunction is reported iff it is indexed in the specification's sense and satisfied *)
Theorem index_correct_spec_holders_policy kind pol thr parsers cfgl st0 ds st os q :
  config_fields (new_builder kind pol thr parsers) cfgl = Some st0 ->
  add_documents false st0 ds = (st, os) ->
  NoDup (map d_id ds) ->
  (forall d cj, In d ds -> In cj (d_conjs d) -> NoDup (map fst cj)) ->
  (forall d, In d ds -> doc_ok parsers cfgl d) ->
  sizes_ok ds ->
  skip_ok2 pol (cfg_fields parsers cfgl) parsers ds ->
  (- two64 < thr \/
   forall d cj, In d ds -> In cj (d_conjs d) -> conj_sem (cfg_fields parsers cfgl) parsers cj <> None ->
                conj_rwf thr (cfg_of cfgl) cj) ->
  NoDup (map fst q) ->
  asg_good' parsers cfgl q ->
  asg_dom_den parsers cfgl ds q ->
  (kind = IKGroups -> forall f v, In (f, v) q -> cfg_of cfgl f = CAc -> nil_slice_wf v) ->
  exists hits,
    retrieve_hits (build_index st) q = ROk hits /\
    NoDup (map snd hits) /\
    (forall d k cj cid, has_conj ds d k cj cid ->
       (In cid (map snd hits) <->
        s_indexed' (cfg_fields parsers cfgl) pol parsers d k cj /\ sat_spec' (cfg_fields parsers cfgl) parsers q cj)) /\
    (forall d k cj, In d ds -> s_indexed' (cfg_fields parsers cfgl) pol parsers d k cj -> exists cid, has_conj ds d k cj cid) /\
    (forall h, In h hits -> fst h = IdsGen.ConjID_DocID (snd h) /\
       exists d k cj, has_conj ds d k cj (snd h) /\ s_indexed' (cfg_fields parsers cfgl) pol parsers d k cj /\
                      sat_spec' (cfg_fields parsers cfgl) parsers q cj).
Proof. exact (index_correct_spec_holders_policy_sec kind pol thr parsers cfgl st0 ds st os q). Qed.

(* (3a) the outcome list, EXACTLY, whatever the operators (no skip_ok, no all_eq) *)
Theorem outcomes_holders_policy_exact kind pol thr parsers cfgl st0 ds st os :
  config_fields (new_builder kind pol thr parsers) cfgl = Some st0 ->
  add_documents false st0 ds = (st, os) ->
  (forall d, In d ds -> doc_ok parsers cfgl d) ->
  sizes_ok ds ->
  (- two64 < thr \/
   forall d cj, In d ds -> In cj (d_conjs d) -> conj_sem (cfg_fields parsers cfgl) parsers cj <> None ->
                conj_rwf thr (cfg_of cfgl) cj) ->
  os = map (spec_out' pol (cfg_fields parsers cfgl) parsers) ds.
Proof. exact (outcomes_holders_policy_exact_sec kind pol thr parsers cfgl st0 ds st os). Qed.

(* (3b) analogue of outcomes_policy_eq: every operator on a default / pattern field is EQ *)
Theorem outcomes_holders_policy_eq kind pol thr parsers cfgl st0 ds st os :
  config_fields (new_builder kind pol thr parsers) cfgl = Some st0 ->
  add_documents false st0 ds = (st, os) ->
  (forall d, In d ds -> doc_ok parsers cfgl d) ->
  sizes_ok ds ->
  (- two64 < thr \/
   forall d cj, In d ds -> In cj (d_conjs d) -> conj_sem (cfg_fields parsers cfgl) parsers cj <> None ->
                conj_rwf thr (cfg_of cfgl) cj) ->
  ops_ok (cfg_fields parsers cfgl) parsers ds ->
  os = map (spec_out_eq pol (cfg_fields parsers cfgl) parsers) ds.
Proof. exact (outcomes_holders_policy_eq_sec kind pol thr parsers cfgl st0 ds st os). Qed.

(* (3c) analogue of outcomes_policy *)
Theorem outcomes_holders_policy kind pol thr parsers cfgl st0 ds st os :
  config_fields (new_builder kind pol thr parsers) cfgl = Some st0 ->
  add_documents false st0 ds = (st, os) ->
  (forall d, In d ds -> doc_ok parsers cfgl d) ->
  sizes_ok ds ->
  (- two64 < thr \/
   forall d cj, In d ds -> In cj (d_conjs d) -> conj_sem (cfg_fields parsers cfgl) parsers cj <> None ->
                conj_rwf thr (cfg_of cfgl) cj) ->
  skip_ok2 pol (cfg_fields parsers cfgl) parsers ds ->
  Forall2 (out_spec' pol (cfg_fields parsers cfgl) parsers) ds os.
Proof. exact (outcomes_holders_policy_sec kind pol thr parsers cfgl st0 ds st os). Qed.

(* (4) documents: a document is reported iff one of its INDEXED conjunctions is satisfied *)
Theorem retrieve_docs_spec_holders_policy kind pol thr parsers cfgl st0 ds st os q :
  config_fields (new_builder kind pol thr parsers) cfgl = Some st0 ->
  add_documents false st0 ds = (st, os) ->
  NoDup (map d_id ds) ->
  (forall d cj, In d ds -> In cj (d_conjs d) -> NoDup (map fst cj)) ->
  (forall d, In d ds -> doc_ok parsers cfgl d) ->
  sizes_ok ds ->
  skip_ok2 pol (cfg_fields parsers cfgl) parsers ds ->
  (- two64 < thr \/
   forall d cj, In d ds -> In cj (d_conjs d) -> conj_sem (cfg_fields parsers cfgl) parsers cj <> None ->
                conj_rwf thr (cfg_of cfgl) cj) ->
  NoDup (map fst q) ->
  asg_good' parsers cfgl q ->
  asg_dom_den parsers cfgl ds q ->
  (kind = IKGroups -> forall f v, In (f, v) q -> cfg_of cfgl f = CAc -> nil_slice_wf v) ->
  exists docs,
    retrieve (build_index st) q = ROk docs /\
    (forall d, In d ds ->
       (In (d_id d) docs <->
        exists k cj, s_indexed' (cfg_fields parsers cfgl) pol parsers d k cj /\ sat_spec' (cfg_fields parsers cfgl) parsers q cj)) /\
    (forall z, In z docs -> exists d, In d ds /\ z = d_id d).
Proof. exact (retrieve_docs_spec_holders_policy_sec kind pol thr parsers cfgl st0 ds st os q). Qed.

(* ================================================================================== *)
(* 9.  Concrete runs (by computation): non-vacuity, and why each hypothesis is there    *)
(* ================================================================================== *)
Module HoldersSpecPolicyWitness.
  Definition ps : fname -> parser_kind := fun _ => PNumber.
  Definition cfgl : list (fname * cont_kind) := [(10%N, CAc); (20%N, CRange)].
  Definition fields := cfg_fields ps cfgl.
  Definition cfg := cfg_of cfgl.
  Definition kw (b : bool) (s : text) := {| e_incl := b; e_op := OpEQ; e_val := VStr s |}.
  Definition num (b : bool) (z : Z) := {| e_incl := b; e_op := OpEQ; e_val := VInt KI z |}.
  Definition btw (b : bool) (l r : Z) :=
    {| e_incl := b; e_op := OpBetween; e_val := VSlice TSint64 false [VInt KI64 l; VInt KI64 r] |}.
  Definition gt (b : bool) (z : Z) := {| e_incl := b; e_op := OpGT; e_val := VInt KI z |}.
  Definition rbad := {| e_incl := true; e_op := OpOther; e_val := VInt KI 1 |}.
  Definition kwnum := {| e_incl := true; e_op := OpEQ; e_val := VInt KI 3 |}.
  Definition kwgt := {| e_incl := true; e_op := OpGT; e_val := VStr [97%N] |}.
  (* field 10: pattern, field 20: range, every other field (1): default, number parser.
     dA: the MIDDLE conjunction does not denote (operator OpOther on the range field); it also carries an empty
         keyword, outside expr_dom -- nothing is asked of it beyond well-formedness (doc_dom cfg dA = false)
     dB: first conjunction unparseable (a number as keyword list); dC: id out of range; dD: no conjunction *)
  Definition dA := {| d_id := 1; d_conjs := [ [(10%N, [kw true [97;98]%N]); (20%N, [btw true 5 300])];
                                              [(10%N, [kw true []]); (20%N, [rbad])];
                                              [(1%N, [num true 7]); (20%N, [gt false 1000])] ] |}.
  Definition dB := {| d_id := 2; d_conjs := [ [(10%N, [kwnum])]; [(1%N, [num true 7; num true 8])] ] |}.
  Definition dC := {| d_id := 8796093022208; d_conjs := [ [(1%N, [num true 7])] ] |}.
  Definition dD := {| d_id := 4; d_conjs := [] |}.
  Definition docs := [dA; dB; dC; dD].
  Definition qq : assignment := [(10%N, VStr [120;97;98;121]%N); (20%N, VInt KI 6); (1%N, VInt KI 7)].
  Definition st0 (k : index_kind) (pol : policy) : bstate :=
    match config_fields (new_builder k pol 256 ps) cfgl with Some s => s | None => new_builder k pol 256 ps end.
  Definition run k pol :=
    let '(st, os) := add_documents false (st0 k pol) docs in
    (os, match retrieve_hits (build_index st) qq with
         | ROk hits => Some (map (fun h : hitrec => triple (snd h)) hits) | _ => None end,
     retrieve (build_index st) qq, sat_hits fields ps pol pl_docok docs qq,
     map (spec_out' pol fields ps) docs).

  Ltac enum :=
    repeat match goal with
           | H : In _ (_ :: _) |- _ => destruct H as [H|H]
           | H : In _ [] |- _ => destruct H
           | H : _ \/ _ |- _ => destruct H as [H|H]
           | H : False |- _ => destruct H
           | H : (_, _) = (_, _) |- _ => inversion H; subst; clear H
           | H : _ = _ |- _ => progress subst
           end.
  Ltac arith := intros; try discriminate; try (unfold two63, two64 in *; lia).
  Ltac good := cbn; repeat (first [split | constructor | exact I | reflexivity | arith]).

  Lemma h_cfg k pol : config_fields (new_builder k pol 256 ps) cfgl = Some (st0 k pol).
  Proof. destruct k, pol; vm_compute; reflexivity. Qed.
  Lemma docs_ok : forall d, In d docs -> doc_ok ps cfgl d.
  Proof.
    intros d Hd. split; [|unfold docs in Hd; enum; vm_compute; reflexivity].
    intros cj Hc f es e H2 H3. unfold docs in Hd. repeat (enum; cbn in * |-).
    all: split; [unfold wf_val; good|].
    all: cbn [val_mod2 val_mod' cfg_of cfgl alookup N.eqb Pos.eqb ac_mod e_val kw kwnum]; try exact I.
    all: unfold val_mod, ps, modelled_num, modelled, ints_fit; good.
  Qed.

  Lemma h_nd : NoDup (map d_id docs).
  Proof. cbn; repeat constructor; cbn; intuition discriminate. Qed.
  Lemma h_cj : forall d cj, In d docs -> In cj (d_conjs d) -> NoDup (map fst cj).
  Proof. intros d cj Hd Hc; unfold docs in Hd; repeat (enum; cbn in * |-); cbn; repeat constructor; cbn; intuition discriminate. Qed.
  Lemma h_sizes : sizes_ok docs.
  Proof. intros d cj Hd Hc; unfold docs in Hd; repeat (enum; cbn in * |-); vm_compute; reflexivity. Qed.
  Lemma h_ops : ops_ok fields ps docs.
  Proof. intros d cj f es e Hd Hc H1 H2; unfold docs in Hd; repeat (enum; cbn in * |-); vm_compute; reflexivity. Qed.
  Lemma h_skip pol : skip_ok2 pol fields ps docs.
  Proof. apply ops_ok_skip_ok2. exact h_ops. Qed.
  Lemma h_q : NoDup (map fst qq).
  Proof. cbn; repeat constructor; cbn; intuition discriminate. Qed.
  Lemma qq_good : asg_good' ps cfgl qq.
  Proof.
    intros f v H. unfold qq in H. repeat (enum; cbn in * |-).
    all: split; [unfold wf_val; good|].
    all: split; [|vm_compute; discriminate].
    all: cbn [asg_mod' cfg_of cfgl alookup N.eqb Pos.eqb]; try exact I; unfold asg_mod', asg_mod, ps, modelled_num, modelled, ints_fit; good.
  Qed.
  Lemma h_dom : asg_dom_den ps cfgl docs qq.
  Proof.
    apply asg_dom_for_den. apply below_max_asg_dom_for; intros f v H _; unfold qq in H; repeat (enum; cbn in * |-); vm_compute; reflexivity.
  Qed.
  Lemma h_nil : forall f v, In (f, v) qq -> cfg f = CAc -> nil_slice_wf v.
  Proof. intros f v H _; unfold qq in H; repeat (enum; cbn in * |-); exact I. Qed.
  Lemma h_thr : - two64 < 256. Proof. unfold two64; lia. Qed.

  Example applies kind pol st os :
    add_documents false (st0 kind pol) docs = (st, os) ->
    (exists hits spec_hits,
      retrieve_hits (build_index st) qq = ROk hits /\
      sat_hits fields ps pol pl_docok docs qq = Some spec_hits /\
      Permutation (map (fun h : hitrec => triple (snd h)) hits) spec_hits /\ NoDup (map snd hits)) /\
    os = map (spec_out_eq pol fields ps) docs /\
    (exists dl, retrieve (build_index st) qq = ROk dl /\
       forall d, In d docs -> (In (d_id d) dl <-> exists k cj, s_indexed' fields pol ps d k cj /\ sat_spec' fields ps qq cj)).
  Proof.
    intros H. split; [|split].
    - exact (index_sat_hits_holders_policy kind pol 256 ps cfgl (st0 kind pol) docs st os qq (h_cfg kind pol) H h_nd h_cj docs_ok
               h_sizes (h_skip pol) (or_introl h_thr) h_q qq_good h_dom (fun _ => h_nil)).
    - exact (outcomes_holders_policy_eq kind pol 256 ps cfgl (st0 kind pol) docs st os (h_cfg kind pol) H docs_ok h_sizes
               (or_introl h_thr) h_ops).
    - destruct (retrieve_docs_spec_holders_policy kind pol 256 ps cfgl (st0 kind pol) docs st os qq (h_cfg kind pol) H h_nd h_cj docs_ok
               h_sizes (h_skip pol) (or_introl h_thr) h_q qq_good h_dom (fun _ => h_nil)) as (dl & E & I1 & _).
      exists dl. split; [exact E|exact I1].
  Qed.


  (* ... and what they say is not trivial (by computation): outcomes, reported triples, documents, sat_hits, spec_out' *)
  Example run_skip_kgroups : run IKGroups PolSkip =
    ([AddOk; AddOk; AddPanic; AddErr], Some [(1, (0, 2)); (2, (1, 1)); (1, (2, 1))], ROk [1; 2],
     Some [(1, (0, 2)); (1, (2, 1)); (2, (1, 1))], [AddOk; AddOk; AddPanic; AddErr]).
  Proof. vm_compute. reflexivity. Qed.
  Example run_skip_compact : run ICompact PolSkip =
    ([AddOk; AddOk; AddPanic; AddErr], Some [(2, (1, 1)); (1, (2, 1)); (1, (0, 2))], ROk [1; 2],
     Some [(1, (0, 2)); (1, (2, 1)); (2, (1, 1))], [AddOk; AddOk; AddPanic; AddErr]).
  Proof. vm_compute. reflexivity. Qed.
  (* Error: dA is abandoned at its second conjunction, the first one stays indexed; dB leaves nothing *)
  Example run_error_kgroups : run IKGroups PolError =
    ([AddErr; AddErr; AddPanic; AddErr], Some [(1, (0, 2))], ROk [1], Some [(1, (0, 2))], [AddErr; AddErr; AddPanic; AddErr]).
  Proof. vm_compute. reflexivity. Qed.
  Example run_error_compact : run ICompact PolError =
    ([AddErr; AddErr; AddPanic; AddErr], Some [(1, (0, 2))], ROk [1], Some [(1, (0, 2))], [AddErr; AddErr; AddPanic; AddErr]).
  Proof. vm_compute. reflexivity. Qed.
  Example run_panic_compact : run ICompact PolPanic =
    ([AddPanic; AddPanic; AddPanic; AddErr], Some [(1, (0, 2))], ROk [1], Some [(1, (0, 2))], [AddPanic; AddPanic; AddPanic; AddErr]).
  Proof. vm_compute. reflexivity. Qed.
  (* doc_ok is weaker than SpecBridgeHolders.doc_good': dA is outside doc_dom (empty keyword in a conjunction that does not denote) *)
  Example dA_not_good' : doc_dom cfg dA = false /\ doc_dom_den ps cfgl dA = true.
  Proof. vm_compute. split; reflexivity. Qed.

  (* ---- the statements WITHOUT skip_ok2 / ac_mod are false ---- *)
  Definition runw pol (ds : list doc) :=
    let '(st, os) := add_documents false (st0 IKGroups pol) ds in
    (os, match retrieve_hits (build_index st) qq with
         | ROk hits => Some (map (fun h : hitrec => triple (snd h)) hits) | _ => None end,
     sat_hits fields ps pol pl_docok ds qq, map (spec_out' pol fields ps) ds).
  (* skip_ok2: under PolSkip an operator other than EQ on a PATTERN field makes AddDocument panic (the policy
     switch only sees parse errors); the document is abandoned, the specification goes on to the next conjunction.
     (The exact outcome prediction spec_out' still holds.) *)
  Definition dW1 := {| d_id := 7; d_conjs := [ [(10%N, [kw true [97;98]%N])]; [(10%N, [kwgt])]; [(1%N, [num true 7])] ] |}.
  Example skip_panic :
    runw PolSkip [dW1] = ([AddPanic], Some [(7, (0, 1))], Some [(7, (0, 1)); (7, (2, 1))], [AddPanic]) /\
    skip_okb PolSkip fields ps [dW1] = false /\ sconj_res fields ps [(10%N, [kwgt])] = PPanic.
  Proof. vm_compute. repeat split; reflexivity. Qed.
  (* ac_mod: well-formedness alone does NOT give "does not denote <-> refused with an error": a []byte value on a
     pattern field is well formed, denotes nothing (Spec.strings_of), and ParseAcMatchDict converts it with
     string(bytes) -- outside the text model, answered PUnmodelled: the outcome is AddUnmodelled under every policy *)
  Definition bytes := {| e_incl := true; e_op := OpEQ; e_val := VSlice TSuint8 false [VInt KU8 97] |}.
  Definition dW2 := {| d_id := 7; d_conjs := [ [(10%N, [bytes])]; [(1%N, [num true 7])] ] |}.
  Example bytes_wf : wf_val (e_val bytes) /\ strings_of (e_val bytes) = None.
  Proof. split; [unfold wf_val; good|reflexivity]. Qed.
  Example bytes_unmodelled :
    runw PolSkip [dW2] = ([AddUnmodelled], Some [], Some [(7, (1, 1))], [AddOk]) /\
    runw PolError [dW2] = ([AddUnmodelled], Some [], Some [], [AddErr]) /\
    gconj_res 256 ps cfg [(10%N, [bytes])] = PUnmodelled /\ sconj_res fields ps [(10%N, [bytes])] = PErr.
  Proof. vm_compute. repeat split; reflexivity. Qed.
End HoldersSpecPolicyWitness.

(* RESULTS.  fields := cfg_fields parsers cfgl, cfg := cfg_of cfgl; builder = new_builder kind pol thr parsers followed by
   the ConfigField calls cfgl (any mix of containers); every policy; every outcome list.
   1. gexpr_res_sem / gconj_res_sem   IndexingBETx's verdict on an expression / a conjunction is the one read off the
                                      specification (sexpr_res / sconj_res: POk tt iff it denotes, else PPanic for an operator
                                      other than EQ on a default / pattern field, else PErr), under wf_val + val_mod2 only
      conj_ok'_conj_sem_wf            accepted <-> denotes, with NO in_nil_ok side condition
   2. index_correct_holders_policy_acc  model level, conj_rwf asked of accepted conjunctions only
   3. idb_In_spec'                    indexed (model) <-> s_indexed' (specification)
   4. index_sat_hits_holders_policy (1), index_correct_spec_holders_policy (2),
      outcomes_holders_policy_exact / _eq / outcomes_holders_policy (3), retrieve_docs_spec_holders_policy (4)
   Hypotheses: distinct document ids; distinct fields per conjunction; doc_ok (wf_val + val_mod2 of EVERY expression,
   expr_dom of the expressions of DENOTING conjunctions); sizes_ok; skip_ok2 (= skip_okb, implied by ops_ok);
   -2^64 < thr \/ conj_rwf of denoting conjunctions; distinct assigned fields; asg_good'; asg_dom_den; nil_slice_wf of the
   values assigned to pattern fields (k-groups only). *)
Check gexpr_res_sem.
Check gconj_res_sem.
Check conj_ok'_conj_sem_wf.
Check index_correct_holders_policy_acc.
Check idb_In_spec'.
Check index_sat_hits_holders_policy.
Check index_correct_spec_holders_policy.
Check outcomes_holders_policy_exact.
Check outcomes_holders_policy_eq.
Check outcomes_holders_policy.
Check retrieve_docs_spec_holders_policy.
Print Assumptions gconj_res_sem.
Print Assumptions conj_ok'_conj_sem_wf.
Print Assumptions index_correct_holders_policy_acc.
Print Assumptions index_sat_hits_holders_policy.
Print Assumptions index_correct_spec_holders_policy.
Print Assumptions outcomes_holders_policy_exact.
Print Assumptions outcomes_holders_policy_eq.
Print Assumptions outcomes_holders_policy.
Print Assumptions retrieve_docs_spec_holders_policy.
Print Assumptions HoldersSpecPolicyWitness.applies.
