(* Non-vacuity of the end-to-end theorems: a concrete document set and assignment meet every
   hypothesis of IndexCorrect.index_correct / retrieve_docs_correct, and the conclusion is not
   trivial (a non-empty proper subset of the documents is returned). *)
From Coq Require Import List NArith ZArith Bool.
From BE Require Import Model.GoTypes Model.GoVal Model.Parsers Model.Index Proofs.IndexBuildInv Proofs.IndexCorrect.
Import ListNotations.
Local Open Scope Z_scope.

Definition iv (z : Z) : gval := VInt KI z.
Definition ein (b : bool) (zs : list Z) : expr := {| e_incl := b; e_op := OpEQ; e_val := VSlice TSint false (map iv zs) |}.

(* doc 1: (f0 in {1,2} and f1 not in {3}) or (f1 in {9});  doc -2: f0 not in {1};  doc 3: f0 in {5} and f1 in {3} *)
Definition ex_docs : list doc :=
  [ {| d_id := 1;  d_conjs := [ [(0%N, [ein true [1;2]]); (1%N, [ein false [3]])]; [(1%N, [ein true [9]])] ] |};
    {| d_id := -2; d_conjs := [ [(0%N, [ein false [1]])] ] |};
    {| d_id := 3;  d_conjs := [ [(0%N, [ein true [5]]); (1%N, [ein true [3]])] ] |} ].
Definition ex_parsers : fname -> parser_kind := fun _ => PCommon.
Definition ex_q : assignment := [(0%N, iv 1); (1%N, iv 4)].

Definition ex_ok (k : index_kind) : bool :=
  let '(st, os) := add_documents false (new_builder k PolError 256 ex_parsers) ex_docs in
  forallb (fun o => match o with AddOk => true | _ => false end) os &&
  forallb (fun d => forallb (conj_ok ex_parsers) (d_conjs d)) ex_docs &&
  forallb (fun fv => match parse_assign (ex_parsers (fst fv)) (snd fv) with POk _ => true | _ => false end) ex_q &&
  match retrieve (build_index st) ex_q with
  | ROk docs => match docs with [1] => true | _ => false end
  | _ => false end.

Example hypotheses_met_kgroups : ex_ok IKGroups = true.
Proof. vm_compute. reflexivity. Qed.
Example hypotheses_met_compact : ex_ok ICompact = true.
Proof. vm_compute. reflexivity. Qed.
Example ex_ids_distinct : NoDup (map d_id ex_docs).
Proof. repeat constructor; simpl; intuition discriminate. Qed.

(* ---- fields in the pattern and range containers (IndexCorrectHolders.index_correct_holders) ---- *)
From BE Require Import Proofs.HoldersBuildInv Proofs.IndexCorrectHolders.
Definition sv (s : list N) : gval := VStr s.
Definition ex2_cfg : list (fname * cont_kind) := [(1%N, CAc); (2%N, CRange)].
(* doc 10: kw has "ab" or "c d", and r > 100 (kept interval);  doc -11: kw lacks "b", r between [3,9) (expanded);
   doc 12: f0 in {7} and r in {5, 500} *)
Definition ex2_docs : list doc :=
  [ {| d_id := 10;  d_conjs := [ [(1%N, [{| e_incl := true; e_op := OpEQ; e_val := VSlice TSstring false [sv [97;98]; sv [99;32;100]]%N |}]);
                                   (2%N, [{| e_incl := true; e_op := OpGT; e_val := VInt KI64 100 |}])] ] |};
    {| d_id := -11; d_conjs := [ [(1%N, [{| e_incl := false; e_op := OpEQ; e_val := sv [98]%N |}]);
                                   (2%N, [{| e_incl := true; e_op := OpBetween; e_val := VSlice TSint64 false [VInt KI64 3; VInt KI64 9] |}])] ] |};
    {| d_id := 12;  d_conjs := [ [(0%N, [ein true [7]]);
                                   (2%N, [{| e_incl := true; e_op := OpEQ; e_val := VSlice TSint false [iv 5; iv 500] |}])] ] |} ].
Definition ex2_q : assignment := [(0%N, iv 7); (1%N, VSlice TSstring false [sv [120;97]; sv [98;99]]%N); (2%N, iv 500)].
  (* text "xa bc": contains "b", not "ab" nor "c d" *)
Definition ex2_q' : assignment := [(1%N, sv [120;97;98;120]%N); (2%N, iv 500)].   (* "xabx", r = 500 *)

Definition ex2_ok (k : index_kind) : bool :=
  match config_fields (new_builder k PolError 256 ex_parsers) ex2_cfg with
  | None => false
  | Some st0 =>
    let '(st, os) := add_documents false st0 ex2_docs in
    forallb (fun o => match o with AddOk => true | _ => false end) os &&
    forallb (fun d => forallb (conj_ok' ex_parsers (cfg_of ex2_cfg)) (d_conjs d)) ex2_docs &&
    forallb (fun fv => qv_ok (cfg_of ex2_cfg (fst fv)) (ex_parsers (fst fv)) (snd fv)) (ex2_q ++ ex2_q') &&
    match retrieve (build_index st) ex2_q, retrieve (build_index st) ex2_q' with
    | ROk [12], ROk [10] => true
    | _, _ => false end
  end.
Example holders_hypotheses_met_kgroups : ex2_ok IKGroups = true.
Proof. vm_compute. reflexivity. Qed.
Example holders_hypotheses_met_compact : ex2_ok ICompact = true.
Proof. vm_compute. reflexivity. Qed.
Example ex2_ranges_inside_int64 : forall d cj, In d ex2_docs -> In cj (d_conjs d) -> conj_rwf 256 (cfg_of ex2_cfg) cj.
Proof.
  intros d cj Hd Hcj f es e Hf He. apply erwf_bounds. intros l r Hp.
  unfold ex2_docs in Hd. cbn [In] in Hd.
  repeat match goal with
  | H : _ \/ _ |- _ => destruct H as [H|H]
  | H : False |- _ => contradiction
  | H : _ = d |- _ => subst d; cbn [d_conjs In] in Hcj
  | H : _ = cj |- _ => subst cj; cbn [In] in Hf
  | H : _ = (f, es) |- _ => inversion H; subst f es; clear H; cbn [In] in He
  | H : _ = e |- _ => subst e; vm_compute in Hp; try discriminate Hp; inversion Hp; subst l r; vm_compute; intuition discriminate
  end.
Qed.

(* ---- the specification-level theorems (SpecBridge): the example documents and assignment are supported ---- *)
From BE Require Import Model.Spec Proofs.CanonProof Proofs.DenoteProof Proofs.SpecBridge.
Local Ltac good_val :=
  unfold wf_val, val_mod, asg_mod, ex_parsers, modelled, wf_shape, float_ok, elems, ein, iv; cbn [e_val map slice_ty type_of ty_of_ikind slice_of];
  repeat split; repeat constructor.
Example ex_docs_good : forall d, In d ex_docs -> doc_good ex_parsers d.
Proof.
  intros d Hd cj f es e Hcj Hf He. unfold ex_docs in Hd. cbn [In] in Hd.
  repeat match goal with
  | H : _ \/ _ |- _ => destruct H as [H|H]
  | H : False |- _ => contradiction
  | H : _ = d |- _ => subst d; cbn [d_conjs In] in Hcj
  | H : _ = cj |- _ => subst cj; cbn [In] in Hf
  | H : _ = (f, es) |- _ => inversion H; subst f es; clear H; cbn [In] in He
  | H : _ = e |- _ => subst e; good_val
  end.
Qed.
Example ex_q_good : asg_good ex_parsers ex_q.
Proof.
  intros f v H. unfold ex_q in H. cbn [In] in H.
  repeat match goal with
  | H : _ \/ _ |- _ => destruct H as [H|H]
  | H : False |- _ => contradiction
  | H : _ = (f, v) |- _ => inversion H; subst f v; clear H; split; [|split]; [good_val | good_val | vm_compute; discriminate]
  end.
Qed.
Example ex_spec_says : sat_hits [] ex_parsers PolError pl_docok ex_docs ex_q = Some [(1, (0, 1))]%Z.
Proof. vm_compute. reflexivity. Qed.
