(* C12, specification leg: value-level semantics of SkipTo sequences, group minimum, sort. *)
From Coq Require Import List NArith Bool.
From BE Require Import Corr.Common.
Import ListNotations.
Local Open Scope N_scope.

Definition NULLE : N := 18446744073709551615.

(* a long arithmetic list start, start+step, ... (n entries): case files name such lists instead of spelling them out *)
Definition arith_list (n : nat) (start step : N) : list N := map (fun i => (start + step * N.of_nat i)%N) (seq 0 n).

Inductive case :=
| CCur (l : list N) (ts : list N) (init : N) (outs : list (N * N))            (* returned entry, GetCurEntryID *)
| CFc (ls : list (list N)) (ts : list N) (init : N) (outs : list (N * (N * bool)))  (* returned, GetCurEntryID, ReachEnd *)
| CSort (cs : list (list N * N)) (out : list N).                               (* (list, pre-skip target) ; entries after Sort *)

Fixpoint sorted_b (l : list N) : bool :=
  match l with x :: ((y :: _) as l') => (x <=? y) && sorted_b l' | _ => true end.
Fixpoint drop_below_t (t : N) (r : list N) : list N :=
  match r with [] => [] | x :: r' => if x <? t then drop_below_t t r' else r end.
Definition hd_e (r : list N) : N := match r with [] => NULLE | x :: _ => x end.
Definition min_hd (rs : list (list N)) : N := fold_right (fun r acc => N.min (hd_e r) acc) NULLE rs.

Fixpoint spec_cur (r : list N) (ts : list N) : list (N * N) :=
  match ts with [] => [] | t :: ts' => let r' := drop_below_t t r in (hd_e r', hd_e r') :: spec_cur r' ts' end.
Fixpoint spec_fc (rs : list (list N)) (ts : list N) : list (N * (N * bool)) :=
  match ts with
  | [] => []
  | t :: ts' => let rs' := map (drop_below_t t) rs in
                let m := min_hd rs' in (m, (m, m =? NULLE)) :: spec_fc rs' ts'
  end.

Definition eqb_nn (a b : N * N) := (fst a =? fst b) && (snd a =? snd b).
Definition eqb_nnb (a b : N * (N * bool)) := (fst a =? fst b) && (fst (snd a) =? fst (snd b)) && Bool.eqb (snd (snd a)) (snd (snd b)).

Definition spec_verdict (c : case) : bool * bool * N :=
  match c with
  | CCur l ts init outs =>
    let dom := sorted_b l && forallb (fun t => t <=? NULLE) ts && forallb (fun x => x <? NULLE) l in
    (negb dom || ((init =? hd_e l) && eqb_list eqb_nn outs (spec_cur l ts)), dom, 1)
  | CFc ls ts init outs =>
    let dom := forallb sorted_b ls && forallb (fun t => t <=? NULLE) ts && negb (match ls with [] => true | _ => false end)
               && forallb (forallb (fun x => x <? NULLE)) ls in
    (negb dom || ((init =? min_hd ls) && eqb_list eqb_nnb outs (spec_fc ls ts)), dom, 2)
  | CSort cs out =>
    let dom := forallb (fun c => sorted_b (fst c) && forallb (fun x => x <? NULLE) (fst c)) cs in
    let eids := map (fun c => hd_e (drop_below_t (snd c) (fst c))) cs in
    (negb dom || (sorted_b out && eqb_list N.eqb (sortN out) (sortN eids)), dom, 3)
  end.

Definition spec_only (c : case) : verdict := let '(s, d, g) := spec_verdict c in mk_verdict true s d g.
Definition run (cs : list case) := check_all spec_only cs.
