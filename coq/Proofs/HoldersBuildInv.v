(* Builder invariant of the executable posting-list index model (Model/Index.v) for builders whose
   fields may be CONFIGURED with the pattern (CAc) and range (CRange) containers, repaired tree
   (wildcard_first = false), both index kinds.  Generalises Proofs/IndexBuildInv.v.

   cfg : fname -> cont_kind is the configuration (CDefault for fields never configured).
   A "key" names one posting list of a field inside one container:
       KId v     the list under term (f, v) of the default holder
       KKw w     the list under keyword w of the field's pattern holder
       KZ z      the list under the discrete value z of the field's range holder
       KPiece x  the entries of the piece containing x of the field's range holder (min_i64 <= x < max_i64)
   klist ec f key is that list ([] when the holder does not exist).  tx_has d key says that the
   transaction data d (what IndexingBETx produced for one expression) is stored under key.

   GRepr st db : for every container k, field f, key: klist holds NewEntryID cid (e_incl e) exactly for the
   (cid, cj) in db living in container k having an expression e on f whose transaction data
   (etx f e) is stored under key; b_z / lengths / known fields as in IndexBuildInv.Repr.

   add_documents_grepr: after config_fields (any successful sequence of ConfigField calls) and
   add_documents with all outcomes AddOk, the state represents gdocs_db ds (all conjunctions that parse). *)
From Coq Require Import List NArith ZArith Bool Lia Arith.
From BE Require Import Model.GoTypes Model.GoVal Model.Parsers Model.RangeIdx Model.Index.
From BE Require Gen.IdsGen Proofs.IdsProof Proofs.RoaringProof Proofs.NoTrace.
From BE Require Import Proofs.RangeIdxProof Proofs.IndexBuildInv.
Import ListNotations.
Local Open Scope Z_scope.

(* ------------------------------------------------------------------------------------------ *)
(* generic association-list facts *)
Section AssocG.
  Context {K V : Type} (eqb : K -> K -> bool) (eqb_spec : forall a b, reflect (a = b) (eqb a b)).

  Lemma alookup_snoc k k0 (v0 : V) m :
    alookup eqb k (m ++ [(k0, v0)]) =
    match alookup eqb k m with Some x => Some x | None => if eqb k k0 then Some v0 else None end.
  Proof.
    induction m as [|[k1 v1] m IH]; cbn [app alookup]; [reflexivity|].
    destruct (eqb k k1); [reflexivity|exact IH].
  Qed.

  Lemma alookup_map_val {W} (F : V -> W) k (m : list (K * V)) :
    alookup eqb k (map (fun kv => (fst kv, F (snd kv))) m) = option_map F (alookup eqb k m).
  Proof.
    induction m as [|[k0 v] m IH]; cbn [map alookup fst snd]; [reflexivity|].
    destruct (eqb k k0); [reflexivity|exact IH].
  Qed.

  Lemma aupdate_keys_In k f (m : list (K * V)) x :
    In x (map fst (aupdate eqb k f m)) -> x = k \/ In x (map fst m).
  Proof.
    induction m as [|[k0 v] m IH]; cbn [aupdate map fst In].
    - intros [H|[]]; auto.
    - destruct (eqb k k0); cbn [map fst In]; [tauto|]. intros [H|H]; [tauto|]. apply IH in H. tauto.
  Qed.

  Lemma aupdate_NoDup k f (m : list (K * V)) : NoDup (map fst m) -> NoDup (map fst (aupdate eqb k f m)).
  Proof.
    induction m as [|[k0 v] m IH]; cbn [aupdate map fst]; intros H.
    - constructor; [intros []|constructor].
    - inversion H as [|? ? Hn Hd]; subst. destruct (eqb_spec k k0) as [->|Hne]; cbn [map fst].
      + constructor; assumption.
      + constructor; [|apply IH; exact Hd]. intros Hin. apply aupdate_keys_In in Hin.
        destruct Hin as [E|Hin]; [congruence|contradiction].
  Qed.

  Lemma alookup_In_g k (m : list (K * V)) v : alookup eqb k m = Some v -> In (k, v) m.
  Proof.
    induction m as [|[k0 v0] m IH]; cbn [alookup]; [discriminate|].
    destruct (eqb_spec k k0) as [->|Hne].
    - intros [= ->]. left. reflexivity.
    - intros H. right. apply IH. exact H.
  Qed.

  Lemma In_alookup_g k (m : list (K * V)) v : NoDup (map fst m) -> In (k, v) m -> alookup eqb k m = Some v.
  Proof.
    induction m as [|[k0 v0] m IH]; intros Hnd Hin; [destruct Hin|]. cbn [alookup].
    cbn [map fst] in Hnd. inversion Hnd as [|? ? Hn Hd]; subst.
    destruct Hin as [[= -> ->]|Hin].
    - destruct (eqb_spec k k); [reflexivity|congruence].
    - destruct (eqb_spec k k0) as [->|Hne]; [|apply IH; assumption].
      exfalso. apply Hn. apply in_map_iff. exists (k0, v). auto.
  Qed.
End AssocG.

Lemma nodup_by_In_g {A} (eqb : A -> A -> bool) (eqb_spec : forall a b, reflect (a = b) (eqb a b)) x l :
  In x (nodup_by eqb l) <-> In x l.
Proof.
  induction l as [|a l IH]; cbn [nodup_by]; [tauto|].
  destruct (existsb (eqb a) l) eqn:E.
  - apply existsb_exists in E. destruct E as (y & Hy & E). destruct (eqb_spec a y); [subst y|discriminate].
    rewrite IH. cbn [In]. split; [auto|]. intros [<-|H]; auto.
  - cbn [In]. rewrite IH. tauto.
Qed.

Lemma fold_aupdate_NoDup {K X} (eqb : K -> K -> bool) (eqb_spec : forall a b, reflect (a = b) (eqb a b))
  (g : X -> K) e xs : forall m : list (K * list N),
  NoDup (map fst m) -> NoDup (map fst (fold_left (fun acc y => aupdate eqb (g y) (append_entry e) acc) xs m)).
Proof.
  induction xs as [|a xs IH]; intros m H; cbn [fold_left]; [exact H|].
  apply IH. apply (aupdate_NoDup eqb eqb_spec). exact H.
Qed.

Lemma nth_update_nth' {A} (f : A -> A) d : forall n l k,
  nth k (update_nth n f l) d = if Nat.eqb k n && (n <? length l)%nat then f (nth k l d) else nth k l d.
Proof.
  induction n as [|n IH]; intros l k; destruct l as [|x l]; cbn [update_nth length].
  - rewrite andb_false_r. reflexivity.
  - destruct k; reflexivity.
  - rewrite andb_false_r. reflexivity.
  - destruct k as [|k]; cbn [nth Nat.eqb]; [reflexivity|]. rewrite IH. reflexivity.
Qed.

Lemma min_lt_max : min_i64 < max_i64.
Proof. unfold min_i64, max_i64, two63. lia. Qed.

(* ------------------------------------------------------------------------------------------ *)
(* keys and the lists stored under them *)
Inductive key := KId (v : pid) | KKw (w : text) | KZ (z : Z) | KPiece (x : Z).
Definition key_ok (k : key) : Prop := match k with KPiece x => min_i64 <= x < max_i64 | _ => True end.

Definition tx_has (d : txdata) (k : key) : Prop :=
  match d, k with
  | TxIds ids, KId v => In v ids
  | TxKeywords ks, KKw w => In w ks
  | TxEq zs, KZ z => In z zs
  | TxRange l r, KPiece x => l <= x < norm_r l r
  | _, _ => False
  end.

Definition hlist (h : holder) (k : key) : list N :=
  match h, k with
  | HAc vals, KKw w => lk text_eqb w vals
  | HRange kv _, KZ z => lk Z.eqb z kv
  | HRange _ pcs, KPiece x => entries_at x pcs
  | _, _ => []
  end.
Definition fholder (ec : econtainer) (f : fname) : option holder := alookup N.eqb f (ec_fields ec).
Definition klist (ec : econtainer) (f : fname) (k : key) : list N :=
  match k with
  | KId v => plist ec f v
  | _ => match fholder ec f with Some h => hlist h k | None => [] end
  end.

Definition HInv (c : cont_kind) (h : holder) : Prop :=
  match c, h with
  | CAc, HAc vals => NoDup (map fst vals)
  | CRange, HRange kv pcs => chain min_i64 max_i64 pcs
  | _, _ => False
  end.

Definition dcompat (c : cont_kind) (d : txdata) : Prop :=
  match c, d with
  | CDefault, TxIds _ => True
  | CAc, TxKeywords _ => True
  | CRange, TxEq _ => True
  | CRange, TxRange l r => min_i64 <= l /\ l <= r
  | _, _ => False
  end.

Lemma Zeqb_spec a b : reflect (a = b) (Z.eqb a b).
Proof. apply Z.eqb_spec. Qed.
Lemma Neqb_spec a b : reflect (a = b) (N.eqb a b).
Proof. apply N.eqb_spec. Qed.

Lemma new_holder_hlist c key : hlist (new_holder c) key = [].
Proof.
  destruct c, key; cbn [new_holder hlist]; try reflexivity.
  unfold entries_at, init. cbn [find]. destruct (contains _ x); reflexivity.
Qed.

Lemma new_holder_HInv c : c <> CDefault -> HInv c (new_holder c).
Proof.
  destruct c; intros H; [contradiction| |]; cbn [new_holder HInv].
  - constructor.
  - unfold init. cbn [chain pl pr]. pose proof min_lt_max. auto.
Qed.

Lemma commit_tx_HInv c h f eid d : HInv c h -> dcompat c d -> HInv c (commit_tx f eid d h).
Proof.
  destruct c, h, d; cbn [HInv dcompat commit_tx]; try contradiction; intros Hh Hd.
  - apply (fold_aupdate_NoDup text_eqb RoaringProof.text_eqb_spec (fun y => y)). exact Hh.
  - exact Hh.
  - destruct Hd as [H1 H2]. apply (indexing_range_spec pieces min_i64 max_i64 l r eid Hh H1 H2).
Qed.

Lemma In_added l r x eid y : In y (added l r x eid) <-> l <= x < r /\ y = eid.
Proof.
  unfold added. destruct (Z.leb_spec l x), (Z.ltb_spec x r); cbn [andb In]; split; intros Hy.
  all: try (destruct Hy as [<-|[]]; split; [lia|reflexivity]).
  all: try (destruct Hy as [_ ->]; left; reflexivity).
  all: try (destruct Hy as [Hy _]; lia).
  all: destruct Hy.
Qed.

Lemma commit_tx_hlist c h f eid d key x : c <> CDefault -> HInv c h -> dcompat c d -> key_ok key ->
  (In x (hlist (commit_tx f eid d h) key) <-> In x (hlist h key) \/ (tx_has d key /\ x = eid)).
Proof.
  intros Hc. destruct c; [contradiction| |]; destruct h, d; cbn [HInv dcompat commit_tx]; try contradiction;
    intros Hh Hd Hk.
  - (* pattern *)
    destruct key; cbn [hlist tx_has]; try tauto.
    rewrite (lk_fold text_eqb RoaringProof.text_eqb_spec (fun y : text => y)). split.
    + intros [H|(-> & y & Hy & ->)]; [left; exact H|right; auto].
    + intros [H|(Hw & ->)]; [left; exact H|]. right. split; [reflexivity|]. exists w. auto.
  - (* range, discrete values *)
    destruct key; cbn [hlist tx_has]; try tauto.
    rewrite (lk_fold Z.eqb Zeqb_spec (fun y : Z => y)). split.
    + intros [H|(-> & y & Hy & ->)]; [left; exact H|right]. rewrite (nodup_by_In_g Z.eqb Zeqb_spec) in Hy. auto.
    + intros [H|(Hw & ->)]; [left; exact H|]. right. split; [reflexivity|]. exists z.
      rewrite (nodup_by_In_g Z.eqb Zeqb_spec). auto.
  - (* range, kept interval *)
    destruct key; cbn [hlist tx_has]; try tauto. cbn [key_ok] in Hk. destruct Hd as [H1 H2].
    destruct (indexing_range_spec pieces min_i64 max_i64 l r eid Hh H1 H2) as [_ Hs].
    rewrite (Hs x0 Hk), in_app_iff, In_added. tauto.
Qed.

(* compiled holders: every list sorted *)
Lemma entries_at_compile x pcs :
  entries_at x (map (fun p => {| pl := pl p; pr := pr p; pe := sort_entries (pe p) |}) pcs) =
  sort_entries (entries_at x pcs).
Proof.
  unfold entries_at. induction pcs as [|p pcs IH]; cbn [map find]; [reflexivity|].
  unfold contains at 1 3. cbn [pl pr]. destruct ((pl p <=? x) && (x <? pr p)); [reflexivity|exact IH].
Qed.

Lemma lk_compile {K} (eqb : K -> K -> bool) k (m : list (K * list N)) :
  lk eqb k (map (fun kv => (fst kv, sort_entries (snd kv))) m) = sort_entries (lk eqb k m).
Proof. unfold lk. rewrite alookup_map_val. destruct (alookup eqb k m); reflexivity. Qed.

Lemma hlist_compile h key : hlist (compile_holder h) key = sort_entries (hlist h key).
Proof.
  destruct h, key; cbn [compile_holder hlist]; try reflexivity.
  - apply lk_compile.
  - apply lk_compile.
  - apply entries_at_compile.
Qed.

Lemma fholder_compile ec f : fholder (compile_cont ec) f = option_map compile_holder (fholder ec f).
Proof. unfold fholder, compile_cont. cbn [ec_fields]. apply alookup_map_val. Qed.

Lemma plist_compile ec f v : (exists pls, ec_default ec = HDefault pls) ->
  plist (compile_cont ec) f v = sort_entries (plist ec f v).
Proof.
  intros [pls E]. unfold plist, compile_cont. cbn [ec_default]. rewrite E. cbn [compile_holder]. apply lk_compile.
Qed.

Lemma klist_compile ec f key : (exists pls, ec_default ec = HDefault pls) ->
  klist (compile_cont ec) f key = sort_entries (klist ec f key).
Proof.
  intros Hd. destruct key; cbn [klist]; [apply plist_compile; exact Hd| | |];
    rewrite fholder_compile; destruct (fholder ec f); cbn [option_map]; try reflexivity; apply hlist_compile.
Qed.

(* ------------------------------------------------------------------------------------------ *)
Section GInv.
Variables (kind : index_kind) (pol : policy) (thr : Z) (parsers : fname -> parser_kind) (cfg : fname -> cont_kind).

Definition mkfd (f : fname) : fdesc := {| fd_name := f; fd_cont := cfg f; fd_parser := parsers f |}.

(* an expression is accepted by IndexingBETx of its field's container *)
Definition expr_ok' (f : fname) (e : expr) : bool :=
  match cfg f with
  | CDefault => expr_ok (parsers f) e
  | CAc => match e_op e with OpEQ => is_ok (ac_parse_dict (e_val e)) | _ => false end
  | CRange => match e_op e with
              | OpEQ => is_ok (parse_integers true (e_val e))
              | OpGT | OpLT | OpBetween => is_ok (parse_range (e_op e) true (e_val e))
              | OpOther => false
              end
  end.
Definition conj_ok' (cj : conj) : bool := forallb (fun fe => forallb (expr_ok' (fst fe)) (snd fe)) cj.

Definition etx (f : fname) (e : expr) : txdata :=
  match indexing_tx thr (mkfd f) e with POk d => d | _ => TxIds [] end.

Lemma indexing_tx_ok f e : is_ok (indexing_tx thr (mkfd f) e) = expr_ok' f e.
Proof.
  unfold indexing_tx, expr_ok', expr_ok. cbn [mkfd fd_cont fd_parser]. destruct (cfg f).
  - destruct (e_op e); try reflexivity. destruct (parse_value (parsers f) (e_val e)); reflexivity.
  - destruct (e_op e); try reflexivity. destruct (ac_parse_dict (e_val e)); reflexivity.
  - destruct (e_op e); try reflexivity.
    + destruct (parse_integers true (e_val e)); reflexivity.
    + destruct (parse_range OpGT true (e_val e)) as [[l r]| | | |]; cbn [pbind is_ok]; try reflexivity.
      destruct (range_size_lt l r thr); reflexivity.
    + destruct (parse_range OpLT true (e_val e)) as [[l r]| | | |]; cbn [pbind is_ok]; try reflexivity.
      destruct (range_size_lt l r thr); reflexivity.
    + destruct (parse_range OpBetween true (e_val e)) as [[l r]| | | |]; cbn [pbind is_ok]; try reflexivity.
      destruct (range_size_lt l r thr); reflexivity.
Qed.

(* kept intervals lie inside [min_i64, max_i64] (true of every int64 pair; the model's integers are unbounded) *)
Definition erwf (f : fname) (e : expr) : Prop :=
  cfg f = CRange -> forall l r, parse_range (e_op e) true (e_val e) = POk (l, r) ->
    range_size_lt l r thr = false -> min_i64 <= l /\ l <= r /\ r <= max_i64.
Definition conj_rwf (cj : conj) : Prop := forall f es e, In (f, es) cj -> In e es -> erwf f e.

Lemma etx_dcompat f e : expr_ok' f e = true -> erwf f e -> dcompat (cfg f) (etx f e).
Proof.
  unfold etx, indexing_tx, expr_ok', expr_ok, erwf. cbn [mkfd fd_cont fd_parser]. destruct (cfg f).
  - destruct (e_op e); try discriminate. destruct (parse_value (parsers f) (e_val e)); try discriminate.
    intros _ _. exact I.
  - destruct (e_op e); try discriminate. destruct (ac_parse_dict (e_val e)); try discriminate.
    intros _ _. exact I.
  - destruct (e_op e); try discriminate.
    + destruct (parse_integers true (e_val e)); try discriminate. intros _ _. exact I.
    + destruct (parse_range OpGT true (e_val e)) as [[l r]| | | |]; try discriminate. intros _ H. cbn [pbind].
      destruct (range_size_lt l r thr) eqn:Es; [exact I|]. cbn [dcompat]. destruct (H eq_refl l r eq_refl Es). tauto.
    + destruct (parse_range OpLT true (e_val e)) as [[l r]| | | |]; try discriminate. intros _ H. cbn [pbind].
      destruct (range_size_lt l r thr) eqn:Es; [exact I|]. cbn [dcompat]. destruct (H eq_refl l r eq_refl Es). tauto.
    + destruct (parse_range OpBetween true (e_val e)) as [[l r]| | | |]; try discriminate. intros _ H. cbn [pbind].
      destruct (range_size_lt l r thr) eqn:Es; [exact I|]. cbn [dcompat]. destruct (H eq_refl l r eq_refl Es). tauto.
Qed.

Definition expr_tx' (cid : N) (f : fname) (e : expr) : tx :=
  {| tx_field := mkfd f; tx_eid := IdsGen.NewEntryID cid (e_incl e); tx_data := etx f e |}.
Definition conj_txs' cid (cj : conj) : list tx :=
  flat_map (fun fe => map (expr_tx' cid (fst fe)) (snd fe)) cj.

(* ---- structural invariant ---- *)
Record ECInv (ec : econtainer) : Prop := {
  eci_def : exists pls, ec_default ec = HDefault pls;
  eci_h : forall f h, fholder ec f = Some h -> HInv (cfg f) h
}.

Record GInv (st : bstate) : Prop := {
  gi_kind : b_kind st = kind;
  gi_pol : b_policy st = pol;
  gi_parsers : b_parsers st = parsers;
  gi_thr : b_thr st = thr;
  gi_fields : Forall (fun fd => fd = mkfd (fd_name fd)) (b_fields st);
  gi_unknown : forall f, find_field f (b_fields st) = None -> cfg f = CDefault;
  gi_ec : forall k, ECInv (nth k (b_conts st) new_econtainer)
}.

Lemma new_econtainer_ECInv : ECInv new_econtainer.
Proof. split; [exists []; reflexivity|]. intros f h H. discriminate. Qed.

Lemma cont_index_cidx' st k : GInv st -> cont_index st k = cidx kind k.
Proof. intros H. unfold cont_index, cidx. rewrite (gi_kind _ H). reflexivity. Qed.

Notation cnt st k := (nth k (b_conts st) new_econtainer).

Record GRepr (st : bstate) (db : cdb) : Prop := {
  gr_kl : forall k f key x, key_ok key ->
            (In x (klist (cnt st k) f key) <->
             exists cid cj es e, In (cid, cj) db /\ cidx kind (calc_size cj) = k /\ In (f, es) cj /\ In e es /\
               tx_has (etx f e) key /\ x = IdsGen.NewEntryID cid (e_incl e));
  gr_z : forall x, In x (b_z st) <->
            exists cid cj, In (cid, cj) db /\ calc_size cj = 0%Z /\ x = IdsGen.NewEntryID cid true;
  gr_len : forall cid cj, In (cid, cj) db -> (cidx kind (calc_size cj) < length (b_conts st))%nat;
  gr_known : forall cid cj f es, In (cid, cj) db -> In (f, es) cj -> es <> [] -> known st f
}.

(* steps that change neither entries nor configuration (holders may be created) *)
Record GQuiet (st st' : bstate) : Prop := {
  gq_z : b_z st' = b_z st;
  gq_kl : forall k f key, klist (cnt st' k) f key = klist (cnt st k) f key;
  gq_len : (length (b_conts st) <= length (b_conts st'))%nat;
  gq_known : forall f, known st f -> known st' f;
  gq_hold : forall k f, fholder (cnt st k) f <> None -> fholder (cnt st' k) f <> None
}.

Lemma GQuiet_refl st : GQuiet st st.
Proof. split; auto. Qed.
Lemma GQuiet_trans a b c : GQuiet a b -> GQuiet b c -> GQuiet a c.
Proof.
  intros [A1 A2 A3 A4 A5] [B1 B2 B3 B4 B5]. split.
  - congruence.
  - intros k f key. rewrite B2. apply A2.
  - lia.
  - auto.
  - auto.
Qed.

Lemma GRepr_quiet st st' db : GRepr st db -> GQuiet st st' -> GRepr st' db.
Proof.
  intros [R1 R2 R3 R4] [Q1 Q2 Q3 Q4 Q5]. split.
  - intros k f key x Hk. rewrite Q2. apply R1. exact Hk.
  - intros x. rewrite Q1. apply R2.
  - intros cid cj H. specialize (R3 _ _ H). lia.
  - intros cid cj f es H1 H2 H3. apply Q4. eapply R4; eassumption.
Qed.

(* ---- ensure_cont ---- *)
Lemma ensure_cont_GInv st k : GInv st -> GInv (ensure_cont st k).
Proof.
  intros [A B C D E F G]. split; auto.
  intros j. unfold ensure_cont. cbn [b_conts with_conts]. rewrite nth_grow. apply G.
Qed.
Lemma ensure_cont_gquiet st k : GQuiet st (ensure_cont st k).
Proof.
  split; auto.
  - intros j f key. unfold ensure_cont. cbn [b_conts with_conts]. rewrite nth_grow. reflexivity.
  - unfold ensure_cont. cbn [b_conts with_conts]. apply grow_length.
  - intros j f. unfold ensure_cont. cbn [b_conts with_conts]. rewrite nth_grow. auto.
Qed.
Lemma ensure_cont_len' st k : GInv st -> (cidx kind k < length (b_conts (ensure_cont st k)))%nat.
Proof.
  intros H. unfold ensure_cont. cbn [b_conts with_conts]. rewrite (cont_index_cidx' _ _ H). apply grow_length.
Qed.

(* ---- ensure_field ---- *)
Lemma ensure_field_gspec st f : GInv st ->
  GInv (fst (ensure_field st f)) /\ GQuiet st (fst (ensure_field st f)) /\
  snd (ensure_field st f) = mkfd f /\ known (fst (ensure_field st f)) f.
Proof.
  intros [A B C D E F G]. unfold ensure_field. destruct (find_field f (b_fields st)) as [d|] eqn:Ef; cbn [fst snd].
  - split; [split; auto|]. split; [apply GQuiet_refl|]. split.
    + apply find_field_some in Ef. destruct Ef as [Hin Hn]. rewrite Forall_forall in E. rewrite (E _ Hin), Hn. reflexivity.
    + unfold known. rewrite Ef. discriminate.
  - split; [|split; [|split]].
    + split; auto; cbn [b_fields with_fields].
      * apply Forall_app. split; [exact E|]. constructor; [|constructor]. cbn [fd_name]. unfold mkfd.
        rewrite C, (F f Ef). reflexivity.
      * intros g. rewrite NoTrace.find_field_snoc. destruct (find_field g (b_fields st)) eqn:Eg; [discriminate|].
        intros _. apply F. exact Eg.
    + split; auto. intros g. unfold known. cbn [b_fields with_fields]. rewrite NoTrace.find_field_snoc.
      destruct (find_field g (b_fields st)); [discriminate|contradiction].
    + unfold mkfd. rewrite C, (F f Ef). reflexivity.
    + unfold known. cbn [b_fields with_fields]. rewrite NoTrace.find_field_snoc, Ef. cbn [fd_name].
      rewrite N.eqb_refl. discriminate.
Qed.

(* ---- create_holder ---- *)
Lemma fholder_create ec f g :
  fholder (create_holder ec (mkfd f)) g =
  match fholder ec g with
  | Some h => Some h
  | None => if negb (match cfg f with CDefault => true | _ => false end) && N.eqb g f
            then Some (new_holder (cfg f)) else None
  end.
Proof.
  unfold create_holder, get_holder. cbn [mkfd fd_cont fd_name].
  assert (Hd : forall o : option holder, match o with Some h => Some h | None => None end = o) by (intros []; reflexivity).
  destruct (cfg f) eqn:Ec; cbn [negb andb].
  - rewrite Hd. reflexivity.
  - fold (fholder ec f). destruct (fholder ec f) as [h|] eqn:Ef.
    + destruct (fholder ec g) eqn:Eg; [reflexivity|]. destruct (N.eqb_spec g f) as [->|]; [congruence|reflexivity].
    + unfold fholder. cbn [ec_fields]. rewrite alookup_snoc. reflexivity.
  - fold (fholder ec f). destruct (fholder ec f) as [h|] eqn:Ef.
    + destruct (fholder ec g) eqn:Eg; [reflexivity|]. destruct (N.eqb_spec g f) as [->|]; [congruence|reflexivity].
    + unfold fholder. cbn [ec_fields]. rewrite alookup_snoc. reflexivity.
Qed.

Lemma create_holder_default' ec f : ec_default (create_holder ec (mkfd f)) = ec_default ec.
Proof. unfold create_holder. destruct (get_holder ec (mkfd f)); reflexivity. Qed.

Lemma create_holder_klist ec f g key : klist (create_holder ec (mkfd f)) g key = klist ec g key.
Proof.
  assert (Hp : forall v, plist (create_holder ec (mkfd f)) g v = plist ec g v).
  { intros v. unfold plist. rewrite create_holder_default'. reflexivity. }
  destruct key; cbn [klist]; [apply Hp| | |]; rewrite fholder_create; destruct (fholder ec g); try reflexivity;
    (destruct (negb _ && N.eqb g f); [apply new_holder_hlist|reflexivity]).
Qed.

Lemma create_holder_ECInv ec f : ECInv ec -> ECInv (create_holder ec (mkfd f)).
Proof.
  intros [A B]. split; [rewrite create_holder_default'; exact A|].
  intros g h. rewrite fholder_create. destruct (fholder ec g) as [h0|] eqn:Eg.
  - intros [= <-]. apply B. exact Eg.
  - destruct (cfg f) eqn:Ec; cbn [negb andb]; [discriminate| |];
      (destruct (N.eqb_spec g f) as [->|]; [|discriminate]); intros [= <-]; rewrite Ec; apply new_holder_HInv; discriminate.
Qed.

Lemma create_holder_has ec f : cfg f <> CDefault -> fholder (create_holder ec (mkfd f)) f <> None.
Proof.
  intros Hc. rewrite fholder_create. destruct (fholder ec f); [discriminate|]. rewrite N.eqb_refl.
  destruct (cfg f); [contradiction| |]; discriminate.
Qed.

Lemma create_holder_mono ec f g : fholder ec g <> None -> fholder (create_holder ec (mkfd f)) g <> None.
Proof. intros H. rewrite fholder_create. destruct (fholder ec g); [discriminate|contradiction]. Qed.

Definition with_created (st : bstate) (k : Z) (f : fname) : bstate :=
  with_conts st (update_nth (cont_index st k) (fun ec => create_holder ec (mkfd f)) (b_conts st)).

Lemma with_created_spec st k f : GInv st ->
  GInv (with_created st k f) /\ GQuiet st (with_created st k f) /\
  ((cidx kind k < length (b_conts st))%nat -> cfg f <> CDefault ->
     fholder (cnt (with_created st k f) (cidx kind k)) f <> None).
Proof.
  intros HG. pose proof HG as [A B C D E F G]. unfold with_created. rewrite (cont_index_cidx' _ _ HG).
  split; [|split].
  - split; auto. intros j. cbn [b_conts with_conts]. rewrite nth_update_nth'.
    destruct (Nat.eqb j (cidx kind k) && (cidx kind k <? length (b_conts st))%nat); [apply create_holder_ECInv|]; apply G.
  - split; auto; cbn [b_conts with_conts].
    + intros j g key. rewrite nth_update_nth'.
      destruct (Nat.eqb j (cidx kind k) && (cidx kind k <? length (b_conts st))%nat); [apply create_holder_klist|reflexivity].
    + rewrite update_nth_length. lia.
    + intros j g. rewrite nth_update_nth'.
      destruct (Nat.eqb j (cidx kind k) && (cidx kind k <? length (b_conts st))%nat); [apply create_holder_mono|auto].
  - intros Hl Hc. cbn [b_conts with_conts]. rewrite nth_update_nth', Nat.eqb_refl.
    apply Nat.ltb_lt in Hl. rewrite Hl. cbn [andb]. apply create_holder_has. exact Hc.
Qed.

(* ---- index_exprs / index_conj ---- *)
Definition held (st : bstate) (k : Z) (f : fname) : Prop :=
  cfg f <> CDefault -> fholder (cnt st (cidx kind k)) f <> None.

Lemma held_quiet st st' k f : GQuiet st st' -> held st k f -> held st' k f.
Proof. intros Q H Hc. apply (gq_hold _ _ Q). apply H. exact Hc. Qed.

Lemma index_exprs_gspec : forall es st k cid f acc st' r,
  GInv st -> (cidx kind k < length (b_conts st))%nat -> index_exprs st k cid f es acc = (st', r) ->
  GInv st' /\ GQuiet st st' /\ (es <> [] -> known st' f /\ held st' k f) /\
  is_ok r = forallb (expr_ok' f) es /\
  (forall txs, r = POk txs -> txs = acc ++ map (expr_tx' cid f) es).
Proof.
  induction es as [|e es IH]; intros st k cid f acc st' r HF Hlen H; cbn [index_exprs] in H.
  - inversion H; subst. split; [exact HF|]. split; [apply GQuiet_refl|]. split; [congruence|].
    split; [reflexivity|]. intros txs [= <-]. rewrite app_nil_r. reflexivity.
  - destruct (ensure_field_gspec st f HF) as (F1 & Q1 & Hfd & K1).
    destruct (ensure_field st f) as [st1 fd]. cbn [fst snd] in *. subst fd.
    fold (with_created st1 k f) in H.
    assert (Hlen1 : (cidx kind k < length (b_conts st1))%nat) by (pose proof (gq_len _ _ Q1); lia).
    destruct (with_created_spec st1 k f F1) as (F2 & Q12 & H2).
    set (st2 := with_created st1 k f) in *.
    assert (Q2 : GQuiet st st2) by (eapply GQuiet_trans; eassumption).
    assert (K2 : known st2 f) by (apply (gq_known _ _ Q12); exact K1).
    assert (Hh2 : held st2 k f) by (intros Hc; apply H2; assumption).
    assert (Hlen2 : (cidx kind k < length (b_conts st2))%nat) by (pose proof (gq_len _ _ Q12); lia).
    rewrite (gi_thr _ F2) in H. cbn [forallb]. rewrite <- indexing_tx_ok.
    assert (Hfail : forall r0 : pres (list tx), is_ok r0 = false -> (st2, r0) = (st', r) ->
              GInv st' /\ GQuiet st st' /\ (e :: es <> [] -> known st' f /\ held st' k f) /\
              is_ok r = false /\ (forall txs, r = POk txs -> txs = acc ++ map (expr_tx' cid f) (e :: es))).
    { intros r0 Hr0 E. inversion E; subst. split; [exact F2|]. split; [exact Q2|]. split; [intros _; split; assumption|].
      split; [exact Hr0|]. intros txs E'. subst r. discriminate. }
    destruct (indexing_tx thr (mkfd f) e) as [d| | | |] eqn:Ed; cbn [is_ok andb];
      try (apply Hfail in H; [exact H|reflexivity]).
    destruct (IH _ _ _ _ _ _ _ F2 Hlen2 H) as (F3 & Q3 & K3 & O3 & T3).
    split; [exact F3|]. split; [eapply GQuiet_trans; eassumption|]. split.
    + intros _. split; [apply (gq_known _ _ Q3); exact K2|eapply held_quiet; eassumption].
    + split; [exact O3|]. intros txs E. rewrite (T3 _ E), <- app_assoc. cbn [map app]. do 2 f_equal.
      unfold expr_tx', etx. rewrite Ed. reflexivity.
Qed.

Lemma index_conj_gspec : forall cj st k cid acc st' r,
  GInv st -> (cidx kind k < length (b_conts st))%nat -> index_conj st k cid cj acc = (st', r) ->
  GInv st' /\ GQuiet st st' /\ is_ok r = conj_ok' cj /\
  (forall txs, r = POk txs -> txs = acc ++ conj_txs' cid cj /\
     forall f es, In (f, es) cj -> es <> [] -> known st' f /\ held st' k f).
Proof.
  induction cj as [|[f es] cj IH]; intros st k cid acc st' r HF Hlen H; cbn [index_conj] in H.
  - inversion H; subst. split; [exact HF|]. split; [apply GQuiet_refl|]. split; [reflexivity|].
    intros txs [= <-]. rewrite app_nil_r. split; [reflexivity|]. intros f es [].
  - destruct (index_exprs st k cid f es acc) as [st1 r1] eqn:E1.
    destruct (index_exprs_gspec _ _ _ _ _ _ _ _ HF Hlen E1) as (F1 & Q1 & K1 & O1 & T1).
    unfold conj_ok'. cbn [forallb fst snd]. fold (conj_ok' cj). rewrite <- O1.
    destruct r1 as [acc'| | | |];
      try (inversion H; subst; split; [exact F1|]; split; [exact Q1|]; split; [reflexivity|]; intros; discriminate).
    assert (Hlen1 : (cidx kind k < length (b_conts st1))%nat) by (pose proof (gq_len _ _ Q1); lia).
    destruct (IH _ _ _ _ _ _ F1 Hlen1 H) as (F2 & Q2 & O2 & T2).
    split; [exact F2|]. split; [eapply GQuiet_trans; eassumption|]. split; [exact O2|].
    intros txs E. destruct (T2 _ E) as [Et Kn]. split.
    + rewrite Et, (T1 _ eq_refl), <- app_assoc. reflexivity.
    + intros g gs [[= <- <-]|Hin] Hne; [|eapply Kn; eassumption].
      destruct (K1 Hne) as [Ka Kb]. split; [apply (gq_known _ _ Q2); exact Ka|eapply held_quiet; eassumption].
Qed.

(* ---- commit ---- *)
Definition commit_ec (f : fname) (eid : N) (d : txdata) (ec : econtainer) : econtainer :=
  match get_holder ec (mkfd f) with
  | Some h => set_holder ec (mkfd f) (commit_tx f eid d h)
  | None => ec
  end.

Lemma commit_ec_spec f eid d ec : ECInv ec -> dcompat (cfg f) d -> (cfg f <> CDefault -> fholder ec f <> None) ->
  ECInv (commit_ec f eid d ec) /\
  (forall g, fholder ec g <> None -> fholder (commit_ec f eid d ec) g <> None) /\
  forall f' key x, key_ok key ->
    (In x (klist (commit_ec f eid d ec) f' key) <->
     In x (klist ec f' key) \/ (f' = f /\ tx_has d key /\ x = eid)).
Proof.
  intros [[pls Epls] Hh] Hd Hhold. unfold commit_ec, get_holder, set_holder. cbn [mkfd fd_cont fd_name].
  destruct (cfg f) eqn:Ec.
  - (* default holder *)
    destruct d; cbn [dcompat] in Hd; try contradiction. rewrite Epls. cbn [commit_tx].
    split; [|split].
    + split; [eexists; reflexivity|]. exact Hh.
    + auto.
    + intros f' key x Hk. destruct key; cbn [klist tx_has]; try (unfold fholder; cbn [ec_fields]; tauto).
      unfold plist. cbn [ec_default]. rewrite Epls.
      rewrite (lk_fold term_key_eqb term_key_eqb_spec (fun id => (f, id))). split.
      * intros [H|(-> & y & Hy & [= -> ->])]; [left; exact H|]. right. rewrite nodup_by_In in Hy. auto.
      * intros [H|(-> & Hv & ->)]; [left; exact H|]. right. split; [reflexivity|].
        exists v. split; [rewrite nodup_by_In; exact Hv|reflexivity].
  - fold (fholder ec f). destruct (fholder ec f) as [h|] eqn:Ef; [|exfalso; apply Hhold; [discriminate|reflexivity]].
    pose proof (Hh f h Ef) as Hi. rewrite Ec in Hi.
    assert (Hfh : forall g, fholder {| ec_default := ec_default ec;
                     ec_fields := aupdate N.eqb f (fun _ => commit_tx f eid d h) (ec_fields ec) |} g =
                   if N.eqb g f then Some (commit_tx f eid d h) else fholder ec g).
    { intros g. unfold fholder. cbn [ec_fields]. rewrite (RoaringProof.alookup_aupdate N.eqb Neqb_spec). reflexivity. }
    split; [|split].
    + split; [exists pls; exact Epls|]. intros g h'. rewrite Hfh. destruct (N.eqb_spec g f) as [->|].
      * intros [= <-]. rewrite Ec. apply commit_tx_HInv; assumption.
      * apply Hh.
    + intros g Hg. rewrite Hfh. destruct (N.eqb g f); [discriminate|exact Hg].
    + intros f' key x Hk.
      assert (Hnk : forall v, key = KId v -> tx_has d key -> False).
      { intros v -> Ht. destruct d; cbn [dcompat tx_has] in *; contradiction. }
      destruct key as [v|w|z|y]; cbn [klist].
      1: { unfold plist. cbn [ec_default]. split; [auto|]. intros [H|(_ & Ht & _)]; [exact H|]. destruct (Hnk v eq_refl Ht). }
      all: rewrite Hfh; destruct (N.eqb_spec f' f) as [->|Hne];
        [rewrite Ef; rewrite (commit_tx_hlist CAc h f eid d _ x ltac:(discriminate) Hi Hd Hk); tauto|].
      all: split; [auto|]; intros [H|(Hf & _)]; [exact H|contradiction].
  - fold (fholder ec f). destruct (fholder ec f) as [h|] eqn:Ef; [|exfalso; apply Hhold; [discriminate|reflexivity]].
    pose proof (Hh f h Ef) as Hi. rewrite Ec in Hi.
    assert (Hfh : forall g, fholder {| ec_default := ec_default ec;
                     ec_fields := aupdate N.eqb f (fun _ => commit_tx f eid d h) (ec_fields ec) |} g =
                   if N.eqb g f then Some (commit_tx f eid d h) else fholder ec g).
    { intros g. unfold fholder. cbn [ec_fields]. rewrite (RoaringProof.alookup_aupdate N.eqb Neqb_spec). reflexivity. }
    split; [|split].
    + split; [exists pls; exact Epls|]. intros g h'. rewrite Hfh. destruct (N.eqb_spec g f) as [->|].
      * intros [= <-]. rewrite Ec. apply commit_tx_HInv; assumption.
      * apply Hh.
    + intros g Hg. rewrite Hfh. destruct (N.eqb g f); [discriminate|exact Hg].
    + intros f' key x Hk.
      assert (Hnk : forall v, key = KId v -> tx_has d key -> False).
      { intros v -> Ht. destruct d; cbn [dcompat tx_has] in *; contradiction. }
      destruct key as [v|w|z|y]; cbn [klist].
      1: { unfold plist. cbn [ec_default]. split; [auto|]. intros [H|(_ & Ht & _)]; [exact H|]. destruct (Hnk v eq_refl Ht). }
      all: rewrite Hfh; destruct (N.eqb_spec f' f) as [->|Hne];
        [rewrite Ef; rewrite (commit_tx_hlist CRange h f eid d _ x ltac:(discriminate) Hi Hd Hk); tauto|].
      all: split; [auto|]; intros [H|(Hf & _)]; [exact H|contradiction].
Qed.

Lemma commit_one_gspec k st t f : GInv st -> (cidx kind k < length (b_conts st))%nat ->
  tx_field t = mkfd f -> dcompat (cfg f) (tx_data t) -> held st k f ->
  let st' := commit_one k st t in
  GInv st' /\ Frame st st' /\
  (forall k' g, fholder (cnt st k') g <> None -> fholder (cnt st' k') g <> None) /\
  forall k' f' key x, key_ok key ->
    (In x (klist (cnt st' k') f' key) <->
     In x (klist (cnt st k') f' key) \/
     (k' = cidx kind k /\ f' = f /\ tx_has (tx_data t) key /\ x = tx_eid t)).
Proof.
  intros HF Hlen Ef Hd Hheld st'. subst st'. unfold commit_one. cbn [b_conts with_conts].
  rewrite (cont_index_cidx' _ _ HF), Ef. cbn [mkfd fd_name]. fold (mkfd f).
  change (fun ec : econtainer => match get_holder ec (mkfd f) with
            | Some h => set_holder ec (mkfd f) (commit_tx f (tx_eid t) (tx_data t) h)
            | None => ec end) with (commit_ec f (tx_eid t) (tx_data t)).
  assert (Hnth : forall k', nth k' (update_nth (cidx kind k) (commit_ec f (tx_eid t) (tx_data t)) (b_conts st)) new_econtainer =
            if Nat.eqb k' (cidx kind k) then commit_ec f (tx_eid t) (tx_data t) (cnt st k') else cnt st k').
  { intros k'. rewrite nth_update_nth'. apply Nat.ltb_lt in Hlen. rewrite Hlen, andb_true_r. reflexivity. }
  pose proof (commit_ec_spec f (tx_eid t) (tx_data t) (cnt st (cidx kind k)) (gi_ec _ HF _) Hd Hheld) as (C1 & C2 & C3).
  split; [|split; [|split]].
  - destruct HF as [A B C D E F G]. split; auto. intros k'. cbn [b_conts with_conts]. rewrite Hnth.
    destruct (Nat.eqb_spec k' (cidx kind k)) as [->|]; [exact C1|apply G].
  - split; auto. cbn [b_conts with_conts]. apply update_nth_length.
  - intros k' g Hg. rewrite Hnth. destruct (Nat.eqb_spec k' (cidx kind k)) as [->|]; [apply C2; exact Hg|exact Hg].
  - intros k' f' key x Hk. rewrite Hnth. destruct (Nat.eqb_spec k' (cidx kind k)) as [->|Hne].
    + rewrite (C3 f' key x Hk). tauto.
    + split; [auto|]. intros [H|(H & _)]; [exact H|contradiction].
Qed.

Definition tx_good (t : tx) : Prop := tx_field t = mkfd (fd_name (tx_field t)) /\
  dcompat (cfg (fd_name (tx_field t))) (tx_data t).

Lemma commit_all_gspec k : forall txs st, GInv st -> (cidx kind k < length (b_conts st))%nat ->
  Forall tx_good txs -> (forall t, In t txs -> held st k (fd_name (tx_field t))) ->
  let st' := fold_left (commit_one k) txs st in
  GInv st' /\ Frame st st' /\
  forall k' f' key x, key_ok key ->
    (In x (klist (cnt st' k') f' key) <->
     In x (klist (cnt st k') f' key) \/
     (k' = cidx kind k /\ exists t, In t txs /\ fd_name (tx_field t) = f' /\ tx_has (tx_data t) key /\ x = tx_eid t)).
Proof.
  induction txs as [|t txs IH]; intros st HF Hlen Htx Hheld; cbn [fold_left].
  - split; [exact HF|]. split; [split; reflexivity|]. intros k' f' key x Hk. split; [auto|].
    intros [H|(_ & t & [] & _)]. exact H.
  - inversion Htx as [|? ? Ht Htxs]; subst. destruct Ht as (Ef & Ed).
    destruct (commit_one_gspec k st t _ HF Hlen Ef Ed (Hheld t (or_introl eq_refl))) as (F1 & [Z1 Fd1 L1] & M1 & P1).
    assert (Hheld1 : forall t', In t' txs -> held (commit_one k st t) k (fd_name (tx_field t'))).
    { intros t' Hin Hc. apply M1. apply (Hheld t' (or_intror Hin) Hc). }
    destruct (IH (commit_one k st t) F1 ltac:(lia) Htxs Hheld1) as (F2 & [Z2 Fd2 L2] & P2).
    split; [exact F2|]. split; [split; congruence|].
    intros k' f' key x Hk. rewrite (P2 k' f' key x Hk), (P1 k' f' key x Hk). split.
    + intros [[H|(H1 & H2 & H3 & H4)]|(H1 & t' & H2 & H3)].
      * left. exact H.
      * right. split; [exact H1|]. exists t. split; [left; reflexivity|]. auto.
      * right. split; [exact H1|]. exists t'. split; [right; exact H2|exact H3].
    + intros [H|(H1 & t' & [<-|H2] & H3 & H4 & H5)].
      * left. left. exact H.
      * left. right. auto.
      * right. split; [exact H1|]. exists t'. auto.
Qed.

Lemma conj_txs_good cid cj : conj_ok' cj = true -> conj_rwf cj -> Forall tx_good (conj_txs' cid cj).
Proof.
  intros Hok Hrw. apply Forall_forall. intros t Ht. unfold conj_txs' in Ht. apply in_flat_map in Ht.
  destruct Ht as ([f es] & Hfe & Ht). apply in_map_iff in Ht. destruct Ht as (e & <- & He). cbn [fst snd] in *.
  split; [reflexivity|]. cbn [expr_tx' tx_field tx_data mkfd fd_name].
  apply etx_dcompat; [|eapply Hrw; eassumption].
  unfold conj_ok' in Hok. rewrite forallb_forall in Hok. specialize (Hok _ Hfe). cbn [fst snd] in Hok.
  rewrite forallb_forall in Hok. apply Hok. exact He.
Qed.

Lemma conj_txs_In' cid cj f' key x :
  (exists t, In t (conj_txs' cid cj) /\ fd_name (tx_field t) = f' /\ tx_has (tx_data t) key /\ x = tx_eid t) <->
  (exists es e, In (f', es) cj /\ In e es /\ tx_has (etx f' e) key /\ x = IdsGen.NewEntryID cid (e_incl e)).
Proof.
  unfold conj_txs'. split.
  - intros (t & Ht & H1 & H2 & H3). apply in_flat_map in Ht. destruct Ht as ([f es] & Hfe & Ht).
    apply in_map_iff in Ht. destruct Ht as (e & <- & He). cbn [fst snd expr_tx' tx_field tx_eid tx_data mkfd fd_name] in *.
    subst f'. exists es, e. auto.
  - intros (es & e & H1 & H2 & H3 & H4). exists (expr_tx' cid f' e). split.
    + apply in_flat_map. exists (f', es). split; [exact H1|]. apply in_map. exact H2.
    + cbn. auto.
Qed.

(* ---- one conjunction ---- *)
Lemma add_conj_gspec d st i c st' db :
  GInv st -> GRepr st db -> conj_rwf c -> add_conj false d st (i, c) = (st', AddOk) ->
  exists cid, IdsGen.NewConjID d i (calc_size c) = Some cid /\ GInv st' /\
    GRepr st' (db ++ (if conj_ok' c then [(cid, c)] else [])) /\
    (conj_ok' c = false -> pol = PolSkip).
Proof.
  intros HF HR Hrw H. unfold add_conj in H.
  destruct (IdsGen.NewConjID d i (calc_size c)) as [cid|]; [|discriminate]. exists cid. split; [reflexivity|].
  cbn [andb negb] in H.
  pose proof (ensure_cont_GInv st (calc_size c) HF) as F0.
  pose proof (ensure_cont_gquiet st (calc_size c)) as Q0.
  pose proof (ensure_cont_len' st (calc_size c) HF) as L0.
  destruct (index_conj (ensure_cont st (calc_size c)) (calc_size c) cid c []) as [st2 r] eqn:Ei.
  destruct (index_conj_gspec _ _ _ _ _ _ _ F0 L0 Ei) as (F2 & Q2 & O2 & T2).
  assert (Q02 : GQuiet st st2) by (eapply GQuiet_trans; eassumption).
  rewrite <- O2.
  destruct r as [txs| | | |]; try discriminate.
  - (* parsed: commit *)
    cbn [is_ok]. cbn [is_ok] in O2. destruct (T2 _ eq_refl) as [Et Kn]. cbn [app] in Et. subst txs.
    set (st3 := if (calc_size c =? 0)%Z then with_z st2 (b_z st2 ++ [IdsGen.NewEntryID cid true]) else st2) in *.
    inversion H as [Hst]. clear H.
    assert (F3 : GInv st3) by (subst st3; destruct (calc_size c =? 0)%Z; [destruct F2; split; auto|exact F2]).
    assert (C3 : b_conts st3 = b_conts st2) by (subst st3; destruct (calc_size c =? 0)%Z; reflexivity).
    assert (Fd3 : b_fields st3 = b_fields st2) by (subst st3; destruct (calc_size c =? 0)%Z; reflexivity).
    assert (L3 : (cidx kind (calc_size c) < length (b_conts st3))%nat).
    { rewrite C3. pose proof (gq_len _ _ Q2). lia. }
    assert (H3 : forall t, In t (conj_txs' cid c) -> held st3 (calc_size c) (fd_name (tx_field t))).
    { intros t Ht. unfold conj_txs' in Ht. apply in_flat_map in Ht. destruct Ht as ([f es] & Hfe & Ht).
      apply in_map_iff in Ht. destruct Ht as (e & <- & He). cbn [fst snd expr_tx' tx_field mkfd fd_name] in *.
      unfold held. rewrite C3. apply (Kn f es Hfe). intros ->. destruct He. }
    destruct (commit_all_gspec (calc_size c) _ st3 F3 L3 (conj_txs_good cid c (eq_sym O2) Hrw) H3) as (F4 & [Z4 Fd4 L4] & P4).
    split; [exact F4|]. split; [|discriminate].
    pose proof (GRepr_quiet _ _ _ HR Q02) as [R1 R2 R3 R4]. split.
    + intros k f key x Hk. rewrite (P4 k f key x Hk), C3, (R1 k f key x Hk), conj_txs_In'. split.
      * intros [(cid' & cj & es & e & H1 & H2)|(H1 & es & e & H2)].
        -- exists cid', cj, es, e. split; [apply in_or_app; left; exact H1|exact H2].
        -- exists cid, c, es, e. split; [apply in_or_app; right; left; reflexivity|]. split; [auto|exact H2].
      * intros (cid' & cj & es & e & H1 & H2 & H3'). apply in_app_or in H1. destruct H1 as [H1|[[= <- <-]|[]]].
        -- left. exists cid', cj, es, e. auto.
        -- right. split; [auto|]. exists es, e. exact H3'.
    + intros x. rewrite Z4. subst st3. destruct (Z.eqb_spec (calc_size c) 0) as [E0|E0].
      * cbn [b_z with_z]. rewrite in_app_iff, R2. cbn [In]. split.
        -- intros [(cid' & cj & H1 & H2)|[<-|[]]].
           ++ exists cid', cj. split; [apply in_or_app; left; exact H1|exact H2].
           ++ exists cid, c. split; [apply in_or_app; right; left; reflexivity|auto].
        -- intros (cid' & cj & H1 & H2 & H3'). apply in_app_or in H1. destruct H1 as [H1|[[= <- <-]|[]]].
           ++ left. exists cid', cj. auto.
           ++ right. left. auto.
      * rewrite R2. split.
        -- intros (cid' & cj & H1 & H2). exists cid', cj. split; [apply in_or_app; left; exact H1|exact H2].
        -- intros (cid' & cj & H1 & H2 & H3'). apply in_app_or in H1. destruct H1 as [H1|[[= <- <-]|[]]].
           ++ exists cid', cj. auto.
           ++ contradiction.
    + intros cid' cj H1. rewrite L4, C3. apply in_app_or in H1. destruct H1 as [H1|[[= <- <-]|[]]].
      * apply R3 in H1. exact H1.
      * pose proof (gq_len _ _ Q2). lia.
    + intros cid' cj f es H1 H2 H3'. unfold known. rewrite Fd4, Fd3. apply in_app_or in H1. destruct H1 as [H1|[[= <- <-]|[]]].
      * eapply R4; eassumption.
      * eapply Kn; eassumption.
  - (* PErr under PolSkip: nothing was stored *)
    cbn [is_ok]. rewrite app_nil_r.
    assert (Hp : b_policy st = PolSkip) by (destruct (b_policy st); [discriminate|reflexivity|discriminate]).
    inversion H; subst st'. split; [exact F2|]. split; [eapply GRepr_quiet; eassumption|].
    intros _. rewrite <- (gi_pol _ HF). exact Hp.
Qed.

(* ---- documents ---- *)
Definition gconj_db (d : Z) (ic : Z * conj) : cdb :=
  match IdsGen.NewConjID d (fst ic) (calc_size (snd ic)) with
  | Some cid => if conj_ok' (snd ic) then [(cid, snd ic)] else []
  | None => []
  end.
Definition gdoc_db (d : doc) : cdb := flat_map (gconj_db (d_id d)) (indexed_from 0%Z (d_conjs d)).
Definition gdocs_db (ds : list doc) : cdb := flat_map gdoc_db ds.

Lemma add_conjs_gspec d : forall ics st st' db,
  GInv st -> GRepr st db -> Forall (fun ic => conj_rwf (snd ic)) ics -> add_conjs false d st ics = (st', AddOk) ->
  GInv st' /\ GRepr st' (db ++ flat_map (gconj_db d) ics) /\
  (pol <> PolSkip -> Forall (fun ic => conj_ok' (snd ic) = true) ics) /\
  Forall (fun ic => IdsGen.NewConjID d (fst ic) (calc_size (snd ic)) <> None) ics.
Proof.
  induction ics as [|[i c] ics IH]; intros st st' db HF HR Hrw H; cbn [add_conjs] in H.
  - inversion H; subst. cbn [flat_map]. rewrite app_nil_r. auto.
  - inversion Hrw as [|? ? Hrw1 Hrw2]; subst. cbn [snd] in Hrw1.
    destruct (add_conj false d st (i, c)) as [st1 o] eqn:E1. destruct o; try discriminate.
    destruct (add_conj_gspec _ _ _ _ _ _ HF HR Hrw1 E1) as (cid & Ec & F1 & R1 & P1).
    destruct (IH _ _ _ F1 R1 Hrw2 H) as (F2 & R2 & P2 & N2).
    split; [exact F2|]. split; [|split].
    + cbn [flat_map]. unfold gconj_db at 1. cbn [fst snd]. rewrite Ec, app_assoc. exact R2.
    + intros Hp. constructor; [|apply P2; exact Hp]. cbn [snd].
      destruct (conj_ok' c); [reflexivity|]. exfalso. apply Hp. apply P1. reflexivity.
    + constructor; [|exact N2]. cbn [fst snd]. rewrite Ec. discriminate.
Qed.

Lemma indexed_from_snd {A} (l : list A) : forall n ic, In ic (indexed_from n l) -> In (snd ic) l.
Proof.
  induction l as [|y l IH]; intros n ic H; cbn [indexed_from] in H; [destruct H|].
  destruct H as [<-|H]; [left; reflexivity|right; eapply IH; exact H].
Qed.

Lemma add_document_gspec st d st' db :
  GInv st -> GRepr st db -> (forall c, In c (d_conjs d) -> conj_rwf c) -> add_document false st d = (st', AddOk) ->
  GInv st' /\ GRepr st' (db ++ gdoc_db d) /\
  (pol <> PolSkip -> Forall (fun c => conj_ok' c = true) (d_conjs d)) /\
  (forall k cj, nth_error (d_conjs d) k = Some cj ->
     IdsGen.NewConjID (d_id d) (Z.of_nat k) (calc_size cj) <> None).
Proof.
  intros HF HR Hrw H. unfold add_document in H. destruct (d_conjs d) as [|c0 cs] eqn:Ed; [discriminate|].
  rewrite <- Ed in *. destruct (255 <? Z.of_nat (length (d_conjs d)))%Z; [discriminate|].
  assert (Hrw' : Forall (fun ic => conj_rwf (snd ic)) (indexed_from 0%Z (d_conjs d))).
  { apply Forall_forall. intros ic Hic. apply Hrw. eapply indexed_from_snd. exact Hic. }
  destruct (add_conjs_gspec _ _ _ _ _ HF HR Hrw' H) as (F1 & R1 & P1 & N1). split; [exact F1|]. split; [exact R1|]. split.
  - intros Hp. specialize (P1 Hp). rewrite Forall_forall in *. intros c Hc.
    apply In_nth_error in Hc. destruct Hc as [k Hk]. apply (indexed_from_nth _ 0%Z) in Hk. apply (P1 _ Hk).
  - intros k cj Hk. apply (indexed_from_nth _ 0%Z) in Hk. rewrite Forall_forall in N1. apply (N1 _ Hk).
Qed.

Lemma add_documents_gspec : forall ds st st' os db,
  GInv st -> GRepr st db -> (forall d c, In d ds -> In c (d_conjs d) -> conj_rwf c) ->
  add_documents false st ds = (st', os) -> Forall (eq AddOk) os ->
  GInv st' /\ GRepr st' (db ++ gdocs_db ds) /\
  (pol <> PolSkip -> forall d c, In d ds -> In c (d_conjs d) -> conj_ok' c = true) /\
  (forall d k cj, In d ds -> nth_error (d_conjs d) k = Some cj ->
     IdsGen.NewConjID (d_id d) (Z.of_nat k) (calc_size cj) <> None).
Proof.
  induction ds as [|d ds IH]; intros st st' os db HF HR Hrw H Hok; cbn [add_documents] in H.
  - inversion H; subst. cbn [gdocs_db flat_map]. rewrite app_nil_r. split; [exact HF|]. split; [exact HR|].
    split; [intros _ d c []|intros d k cj []].
  - destruct (add_document false st d) as [st1 o] eqn:E1. destruct (add_documents false st1 ds) as [st2 os'] eqn:E2.
    inversion H; subst. inversion Hok as [|? ? Ho Hos]; subst.
    destruct (add_document_gspec _ _ _ _ HF HR (fun c Hc => Hrw d c (or_introl eq_refl) Hc) E1) as (F1 & R1 & P1 & N1).
    destruct (IH _ _ _ _ F1 R1 (fun d' c Hd Hc => Hrw d' c (or_intror Hd) Hc) E2 Hos) as (F2 & R2 & P2 & N2).
    split; [exact F2|]. split; [|split].
    + unfold gdocs_db. cbn [flat_map]. rewrite app_assoc. exact R2.
    + intros Hp d' c [<-|Hd] Hc.
      * specialize (P1 Hp). rewrite Forall_forall in P1. apply P1. exact Hc.
      * eapply P2; eassumption.
    + intros d' k cj [<-|Hd] Hk; [apply N1; exact Hk|eapply N2; eassumption].
Qed.

End GInv.

(* ------------------------------------------------------------------------------------------ *)
(* the configuration phase: any successful sequence of ConfigField calls on a fresh builder *)
Fixpoint config_fields (st : bstate) (l : list (fname * cont_kind)) : option bstate :=
  match l with
  | [] => Some st
  | (f, c) :: l' => match config_field st f c with Some st' => config_fields st' l' | None => None end
  end.

(* the container kind of a field as recorded in the field table; CDefault when unknown *)
Definition fields_cfg (st : bstate) (f : fname) : cont_kind :=
  match find_field f (b_fields st) with Some d => fd_cont d | None => CDefault end.
Definition cfg_of (l : list (fname * cont_kind)) (f : fname) : cont_kind :=
  match alookup N.eqb f l with Some c => c | None => CDefault end.

Record CfgInv (st : bstate) : Prop := {
  ci_nodup : NoDup (map fd_name (b_fields st));
  ci_parser : Forall (fun fd => fd_parser fd = b_parsers st (fd_name fd)) (b_fields st)
}.

Lemma find_field_none_notin f fs : find_field f fs = None -> ~ In f (map fd_name fs).
Proof.
  unfold find_field. intros H Hin. apply in_map_iff in Hin. destruct Hin as (d & <- & Hd).
  apply (find_none _ _ H) in Hd. rewrite N.eqb_refl in Hd. discriminate.
Qed.

Lemma find_field_nodup fs fd : NoDup (map fd_name fs) -> In fd fs -> find_field (fd_name fd) fs = Some fd.
Proof.
  unfold find_field. induction fs as [|a fs IH]; intros Hnd Hin; [destruct Hin|]. cbn [map] in Hnd.
  inversion Hnd as [|? ? Hn Hd]; subst. cbn [find]. destruct Hin as [->|Hin].
  - rewrite N.eqb_refl. reflexivity.
  - destruct (N.eqb_spec (fd_name a) (fd_name fd)) as [E|_]; [|apply IH; assumption].
    exfalso. apply Hn. rewrite E. apply in_map. exact Hin.
Qed.

Lemma NoDup_snoc {A} (l : list A) x : NoDup l -> ~ In x l -> NoDup (l ++ [x]).
Proof.
  induction l as [|a l IH]; intros Hnd Hx; cbn [app]; [constructor; [intros []|constructor]|].
  inversion Hnd as [|? ? Hn Hd]; subst. constructor.
  - rewrite in_app_iff. cbn [In]. intros [H|[<-|[]]]; [contradiction|]. apply Hx. left. reflexivity.
  - apply IH; [exact Hd|]. intros H. apply Hx. right. exact H.
Qed.

Lemma config_field_inv st f c st' : CfgInv st -> config_field st f c = Some st' ->
  CfgInv st' /\ b_kind st' = b_kind st /\ b_policy st' = b_policy st /\ b_thr st' = b_thr st /\
  b_parsers st' = b_parsers st /\ b_conts st' = b_conts st /\ b_z st' = b_z st /\
  b_fields st' = b_fields st ++ [{| fd_name := f; fd_cont := c; fd_parser := b_parsers st f |}] /\
  find_field f (b_fields st) = None.
Proof.
  intros [A B] H. unfold config_field in H. destruct (find_field f (b_fields st)) eqn:Ef; [discriminate|].
  inversion H; subst st'. cbn [b_kind b_policy b_thr b_parsers b_conts b_z b_fields].
  split; [|repeat split; reflexivity]. split; cbn [b_fields b_parsers].
  - rewrite map_app. cbn [map fd_name]. apply NoDup_snoc; [exact A|]. apply find_field_none_notin. exact Ef.
  - apply Forall_app. split; [exact B|]. constructor; [reflexivity|constructor].
Qed.

Lemma config_fields_inv : forall l st st0, CfgInv st -> config_fields st l = Some st0 ->
  CfgInv st0 /\ b_kind st0 = b_kind st /\ b_policy st0 = b_policy st /\ b_thr st0 = b_thr st /\
  b_parsers st0 = b_parsers st /\ b_conts st0 = b_conts st /\ b_z st0 = b_z st /\
  forall f, fields_cfg st0 f = match find_field f (b_fields st) with Some d => fd_cont d | None => cfg_of l f end.
Proof.
  induction l as [|[g c] l IH]; intros st st0 HC H; cbn [config_fields] in H.
  - inversion H; subst. split; [exact HC|]. do 6 (split; [reflexivity|]). intros f. unfold fields_cfg, cfg_of. cbn [alookup].
    destruct (find_field f (b_fields st0)); reflexivity.
  - destruct (config_field st g c) as [st1|] eqn:E1; [|discriminate].
    destruct (config_field_inv _ _ _ _ HC E1) as (C1 & A1 & A2 & A3 & A4 & A5 & A6 & A7 & A8).
    destruct (IH _ _ C1 H) as (C0 & B1 & B2 & B3 & B4 & B5 & B6 & B7).
    split; [exact C0|]. repeat split; try congruence.
    intros f. rewrite B7, A7, NoTrace.find_field_snoc. destruct (find_field f (b_fields st)) eqn:Ef; [reflexivity|].
    cbn [fd_name]. unfold cfg_of at 2. cbn [alookup]. rewrite (N.eqb_sym f g).
    destruct (N.eqb g f); reflexivity.
Qed.

Lemma new_builder_CfgInv kind pol thr parsers : CfgInv (new_builder kind pol thr parsers).
Proof. split; cbn [new_builder b_fields map]; constructor. Qed.

Lemma configured_GInv kind pol thr parsers l st0 :
  config_fields (new_builder kind pol thr parsers) l = Some st0 ->
  GInv kind pol thr parsers (fields_cfg st0) st0 /\ GRepr kind thr parsers (fields_cfg st0) st0 [] /\
  forall f, fields_cfg st0 f = cfg_of l f.
Proof.
  intros H. destruct (config_fields_inv l _ _ (new_builder_CfgInv kind pol thr parsers) H)
    as ([N0 P0] & B1 & B2 & B3 & B4 & B5 & B6 & B7).
  cbn [new_builder b_kind b_policy b_thr b_parsers b_conts b_z b_fields] in *.
  split; [|split].
  - split; auto.
    + rewrite Forall_forall in *. intros fd Hfd. unfold mkfd, fields_cfg.
      rewrite (find_field_nodup _ _ N0 Hfd), <- B4, <- (P0 _ Hfd). destruct fd; reflexivity.
    + intros f Ef. unfold fields_cfg. rewrite Ef. reflexivity.
    + intros k. rewrite B5, nth_new_conts. apply new_econtainer_ECInv.
  - split.
    + intros k f key x Hk. rewrite B5, nth_new_conts. split.
      * destruct key; cbn; intros [].
      * intros (cid & cj & es & e & [] & _).
    + intros x. rewrite B6. split; [intros []|]. intros (cid & cj & [] & _).
    + intros cid cj [].
    + intros cid cj f es [].
  - intros f. rewrite B7. reflexivity.
Qed.

Theorem add_documents_grepr kind pol thr parsers l st0 ds st os :
  config_fields (new_builder kind pol thr parsers) l = Some st0 ->
  (forall d c, In d ds -> In c (d_conjs d) -> conj_rwf thr (fields_cfg st0) c) ->
  add_documents false st0 ds = (st, os) -> Forall (eq AddOk) os ->
  GInv kind pol thr parsers (fields_cfg st0) st /\
  GRepr kind thr parsers (fields_cfg st0) st (gdocs_db parsers (fields_cfg st0) ds) /\
  (pol <> PolSkip -> forall d c, In d ds -> In c (d_conjs d) -> conj_ok' parsers (fields_cfg st0) c = true) /\
  (forall d k cj, In d ds -> nth_error (d_conjs d) k = Some cj ->
     IdsGen.NewConjID (d_id d) (Z.of_nat k) (calc_size cj) <> None).
Proof.
  intros Hc Hrw H Hok. destruct (configured_GInv _ _ _ _ _ _ Hc) as (HF & HR & _).
  exact (add_documents_gspec kind pol thr parsers (fields_cfg st0) ds _ _ _ [] HF HR Hrw H Hok).
Qed.

Print Assumptions add_documents_grepr.
