From Coq Require Import List NArith ZArith Bool Lia Permutation Sorting.Sorted Arith.
From BE Require Import Model.Scan.
Import ListNotations.
Local Open Scope N_scope.

(* ---------- specification level ---------- *)
Definition field := N.
Definition term := N.
Record expr := { e_field : field; e_incl : bool; e_terms : list term }.
Definition conj := list expr.                      (* the expressions of one conjunction, any order *)
Record doc := { d_id : Z; d_conjs : list conj }.

Section WithMatch.
Variable qval : Type.
Variable qmatch : qval -> term -> bool.            (* does the assigned value select this stored term? *)
Definition assignment := list (field * qval).      (* one entry per assigned field *)

Fixpoint lookup (f : field) (q : assignment) : option qval :=
  match q with
  | [] => None
  | (g, v) :: q' => if g =? f then Some v else lookup f q'
  end.

Definition hit (q : assignment) (e : expr) : bool :=
  match lookup (e_field e) q with
  | None => false
  | Some v => existsb (qmatch v) (e_terms e)
  end.

(* exclusion dominates; several includes on one field are alternatives; no include = unconstrained *)
Definition sat_conj (q : assignment) (c : conj) : bool :=
  forallb (fun e => if e_incl e then existsb (fun e' => (e_field e' =? e_field e) && e_incl e' && hit q e') c
                    else negb (hit q e)) c.

(* ---------- builder (posting-list indexes) ---------- *)
Definition fields_incl (c : conj) : list field := nodup N.eq_dec (map e_field (filter e_incl c)).
Definition calc_size (c : conj) : nat := length (fields_incl c).

Variable cid_of : Z -> nat -> nat -> N.            (* NewConjID: document id, position, size *)

Record fact := { f_k : nat; f_field : field; f_term : term; f_cid : N; f_incl : bool }.
Record index := { ix_z : list N; ix_facts : list fact; ix_maxk : nat }.   (* Z = conj ids of size-0 conjunctions *)

Definition conj_facts (cid : N) (k : nat) (c : conj) : list fact :=
  flat_map (fun e => map (fun t => {| f_k := k; f_field := e_field e; f_term := t; f_cid := cid; f_incl := e_incl e |})
                         (nodup N.eq_dec (e_terms e))) c.

Definition add_conj (d : Z) (ix : index) (ic : nat * conj) : index :=
  let '(i, c) := ic in
  let k := calc_size c in
  let cid := cid_of d i k in
  {| ix_z := if Nat.eqb k 0 then ix_z ix ++ [cid] else ix_z ix;
     ix_facts := ix_facts ix ++ conj_facts cid k c;
     ix_maxk := Nat.max (ix_maxk ix) (S k) |}.          (* number of containers *)

Fixpoint indexed {A} (n : nat) (l : list A) : list (nat * A) :=
  match l with [] => [] | x :: l' => (n, x) :: indexed (S n) l' end.

Definition add_doc (ix : index) (d : doc) : index :=
  fold_left (add_conj (d_id d)) (indexed 0 (d_conjs d)) ix.
Definition build (ds : list doc) : index :=
  fold_left add_doc ds {| ix_z := []; ix_facts := []; ix_maxk := 0 |}.

(* ---------- abstract retrieval over the built index ---------- *)
Definition entry_lt (a b : entry) : bool := key a <? key b.
Fixpoint ins_e (x : entry) (l : list entry) : list entry :=
  match l with [] => [x] | y :: l' => if key x <? key y then x :: l else y :: ins_e x l' end.
Definition sort_e (l : list entry) : list entry := fold_right ins_e [] l.

(* the stream of field f in container k under value v: entries of all facts whose term is selected *)
Definition field_stream (ix : index) (k : nat) (f : field) (v : qval) : stream :=
  sort_e (map (fun x => (f_cid x, f_incl x))
              (filter (fun x => Nat.eqb (f_k x) k && (f_field x =? f) && qmatch v (f_term x)) (ix_facts ix))).

Definition z_stream (ix : index) : stream := sort_e (map (fun c => (c, true)) (ix_z ix)).

Definition streams (ix : index) (k : nat) (q : assignment) : list stream :=
  (if Nat.eqb k 0 then match ix_z ix with [] => [] | _ => [z_stream ix] end else []) ++
  filter (fun s => match s with [] => false | _ => true end)
         (map (fun fv => field_stream ix k (fst fv) (snd fv)) q).

Definition retrieve_k (ix : index) (k : nat) (q : assignment) : option (list N) :=
  let need := Nat.max k 1 in
  let ss := streams ix k q in
  if Nat.ltb (length ss) need then Some [] else scan (fun _ => need) ss.

(* K from min(#assigned, maxK) down to 0 *)
Fixpoint retrieve_from (ix : index) (k : nat) (q : assignment) : option (list N) :=
  match retrieve_k ix k q with
  | None => None
  | Some r =>
    match k with
    | O => Some r
    | S k' => match retrieve_from ix k' q with None => None | Some r' => Some (r ++ r') end
    end
  end.

Definition retrieve (ix : index) (q : assignment) : option (list N) :=
  match ix_maxk ix with
  | O => Some []
  | S mk => retrieve_from ix (Nat.min (length q) mk) q
  end.
End WithMatch.

(* smoke test: default matching = membership *)
Definition mm (v : list N) (t : N) : bool := existsb (N.eqb t) v.
Definition cid0 (d : Z) (i k : nat) : N := N.of_nat k * 1000000 + N.of_nat i * 10000 + Z.to_N d.
Definition D1 := {| d_id := 1; d_conjs := [ [ {| e_field := 1; e_incl := true; e_terms := [20;30;40] |};
                                              {| e_field := 1; e_incl := false; e_terms := [30;50] |};
                                              {| e_field := 2; e_incl := true; e_terms := [7;8] |} ] ] |}.
Definition D6 := {| d_id := 6; d_conjs := [ [ {| e_field := 1; e_incl := false; e_terms := [20;30;40] |};
                                              {| e_field := 2; e_incl := false; e_terms := [7;8] |} ] ] |}.
Eval vm_compute in
  (retrieve (list N) mm (build cid0 [D1; D6]) [(1, [40]); (2, [7])],
   retrieve (list N) mm (build cid0 [D1; D6]) [(1, [30]); (2, [7])],
   retrieve (list N) mm (build cid0 [D1; D6]) [(2, [9])],
   retrieve (list N) mm (build cid0 [D1; D6]) []).
