(* encoding/json as the library's documents meet it: Unmarshal(Marshal(v)) for a value v held in an
   interface{} field (BoolValues.Value), decoded again into interface{}.  Definitions only, executable.
   Hand written; nothing here is generated from the Go source.

   /repo/boolean_expr.go, /repo/document.go: BoolValues{Incl bool "inc"; Value interface{} "value";
   Operator ValueOpt "operator,omitempty"}, Conjunction{Expressions map[BEField][]*BoolValues},
   Document{ID DocID; Cons []*Conjunction} carry NO MarshalJSON/UnmarshalJSON (the only custom pair in the
   tree is rangeholder.Range, which is cache data, not document data).  Hence: Incl, Operator, ID and the
   field names are decoded into their static Go types (bool / int / int64 / string: exact), and only
   Value goes through interface{}: numbers -> float64, arrays and slices -> []interface{}, strings ->
   string, null -> nil, objects -> map[string]interface{}.

   MODELLED, NOT VERIFIED (checked against go1.23.5 on samples; compared with the real decoder on every
   harness run through Corr/CheckJsonModel.json_model_ok):
   * Marshal writes an integer of any width as its decimal text, a float64/float32 as the SHORTEST decimal
     that reads back as the same float64/float32 ('f' form below 1e21, else 'e'), a json.Number as its
     literal text when that is a JSON number ("" is written 0), a string as a JSON string (valid UTF-8:
     every escape is undone by the decoder), a nil slice / nil map / nil pointer / nil interface as null,
     any other slice or array element-wise, EXCEPT []byte which is written as a base64 STRING.
   * Unmarshal into interface{} reads a number with strconv.ParseFloat(s, 64): the float64 NEAREST to the
     decimal (ties to even) = Index.f64_of_Z on integers.
   * fmt's %v of a float64 (f_text; the harness prints it for every decoded float): %g with the shortest
     digits, exponent form iff the decimal exponent is < -4 or >= 6 (NOT 21: that is the JSON writer's
     threshold).  f_text is used by no parser and by no definition of Model/Spec.v. *)
From Coq Require Import List NArith ZArith Bool.
From BE Require Import Model.GoTypes Model.GoVal Model.Parsers Model.Index Model.Spec.
Import ListNotations.
Local Open Scope Z_scope.

Definition two53 : Z := 9007199254740992.
Definition two24 : Z := 16777216.

(* ---------- decimal digits and fmt's %v ---------- *)
(* digits are kept as characters '0'..'9' *)
Definition dec_digits (z : Z) : text := dec_text (Z.abs z).
Fixpoint drop_zeros (s : text) : text :=          (* leading '0's *)
  match s with 48%N :: r => drop_zeros r | _ => s end.
Definition strip_zeros (s : text) : text := rev (drop_zeros (rev s)).   (* trailing '0's *)
Definition tlen (s : text) : Z := Z.of_nat (length s).
Definition zeros (n : Z) : text := repeat 48%N (Z.to_nat n).

(* strconv %e with the shortest digits: d[.ddd]e(+|-)XX, at least two exponent digits *)
Definition fmt_e (ds : text) (exp : Z) : text :=
  let mant := match ds with
              | [] => [48%N]
              | [d] => [d]
              | d :: r => d :: 46%N :: r end in
  let ex := dec_text (Z.abs exp) in
  mant ++ [101%N; if exp <? 0 then 45%N else 43%N] ++ (if Z.abs exp <? 10 then 48%N :: ex else ex).
(* strconv %f with the shortest digits; value = 0.d1d2...dn * 10^dp *)
Definition fmt_f (ds : text) (dp : Z) : text :=
  let n := tlen ds in
  let ip := if 0 <? dp then firstn (Z.to_nat dp) ds ++ zeros (dp - n) else [48%N] in
  let fp := if dp <? n then 46%N :: zeros (- dp) ++ skipn (Z.to_nat dp) ds else [] in
  ip ++ fp.
(* %v of a finite float64/float32: neg = sign bit, ds = shortest significant digits (no leading or
   trailing zero; empty for +-0), dp = position of the decimal point *)
Definition fmt_v (neg : bool) (ds : text) (dp : Z) : text :=
  (if neg then [45%N] else []) ++
  match ds with
  | [] => [48%N]
  | _ => let exp := dp - 1 in
         if (exp <? -4) || (6 <=? exp) then fmt_e ds exp else fmt_f ds dp
  end.

(* the integer that strconv's shortest formatting of a float with a `mbits`-bit mantissa prints for the
   (representable) integer z > 0: the decimal with the fewest significant digits inside the rounding
   interval of z, the closest to z among those.  Below 2^mbits the spacing is <= 1: z itself. *)
Definition shortest_int (mbits z : Z) : Z :=
  if z <? 2 ^ mbits then z else
  let e := Z.log2 z - (mbits - 1) in
  let p := 2 ^ e in
  let m := z / p in
  let lo4 := 4 * z - (if m =? 2 ^ (mbits - 1) then p else 2 * p) in
  let hi4 := 4 * z + 2 * p in
  let incl := Z.even m in
  let inb := fun c => if incl then (lo4 <=? 4 * c) && (4 * c <=? hi4) else (lo4 <? 4 * c) && (4 * c <? hi4) in
  let nd := tlen (dec_digits z) in
  (fix go (fuel : nat) (k : Z) : Z :=
     match fuel with
     | O => z
     | S f => let t := 10 ^ k in
              let c1 := (z / t) * t in
              let c2 := c1 + t in
              let '(a, b) := if (z - c1 <=? c2 - z) then (c1, c2) else (c2, c1) in
              if inb a then a else if inb b then b else go f (k - 1)
     end) (Z.to_nat nd) (nd - 1).

(* the float64 holding the integer z (z must be representable: callers pass f64_of_Z _) *)
Definition fl_of_int (z : Z) : fl :=
  {| f_ip := z; f_frac := false; f_cls := FFinite;
     f_text := let c := shortest_int 53 (Z.abs z) in
               fmt_v (z <? 0) (strip_zeros (drop_zeros (dec_digits c))) (if c =? 0 then 0 else tlen (dec_digits c)) |}.
(* +-0 *)
Definition fl_zero (neg : bool) : fl :=
  {| f_ip := 0; f_frac := false; f_cls := FFinite; f_text := fmt_v neg [] 0 |}.

(* ---------- JSON numbers ---------- *)
Fixpoint span_digits (s : text) : text * text :=
  match s with
  | c :: r => if is_digit c then let '(d, r') := span_digits r in (c :: d, r') else ([], s)
  | [] => ([], [])
  end.
(* grammar: optional '-', then 0 or a nonzero digit followed by digits, then optionally '.' and one or more digits,
   then optionally e or E, an optional sign and one or more digits.
   Result: (negative, integer digits, fraction digits, exponent) *)
Definition json_number (s : text) : option (bool * text * text * Z) :=
  let '(neg, r0) := match s with 45%N :: r => (true, r) | _ => (false, s) end in
  let '(ip, r1) := span_digits r0 in
  match ip with
  | [] => None
  | 48%N :: _ :: _ => None                                   (* leading zero *)
  | _ =>
    let fr := match r1 with
              | 46%N :: r => let '(d, r') := span_digits r in
                             match d with [] => None | _ => Some (d, r') end
              | _ => Some ([], r1) end in
    match fr with
    | None => None
    | Some (fp, r2) =>
      match r2 with
      | [] => Some (neg, ip, fp, 0)
      | c :: r =>
        if (c =? 101)%N || (c =? 69)%N then
          let '(eneg, r3) := match r with 45%N :: r' => (true, r') | 43%N :: r' => (false, r') | _ => (false, r) end in
          let '(ed, r4) := span_digits r3 in
          match ed, r4 with
          | _ :: _, [] => Some (neg, ip, fp, if eneg then - digits_val ed else digits_val ed)
          | _, _ => None
          end
        else None
      end
    end
  end.

Definition max_f64 : Z := 2 ^ 1024.
(* the float64 of a JSON number text.  None = Marshal refuses the text (not a JSON number), Unmarshal
   refuses it (out of range), or the text is outside the modelled fragment:
   a non-integral value is modelled only with at most 15 significant digits and a decimal exponent
   within +-300 (then no rounding of ParseFloat can reach an integer, and the shortest digits of the
   float64 are the digits of the text). *)
Definition json_number_float (s : text) : option fl :=
  match json_number (match s with [] => [48%N] | _ => s end) with    (* Number's zero value "" is written 0 *)
  | None => None
  | Some (neg, ip, fp, ex) =>
    let m := digits_val (ip ++ fp) in
    let sc := ex - tlen fp in
    let sg := fun z => if neg then - z else z in
    if m =? 0 then Some (fl_zero neg)
    else if 0 <=? sc then
      (if sc <=? 400 then
         let z := f64_of_Z (m * 10 ^ sc) in
         if z <? max_f64 then Some (fl_of_int (sg z)) else None
       else None)
    else
      let p := 10 ^ (- sc) in
      if (m mod p =? 0) then Some (fl_of_int (sg (f64_of_Z (m / p))))
      else
        let ds := strip_zeros (drop_zeros (dec_digits m)) in
        let dp := tlen (dec_digits m) + sc in
        if (tlen ds <=? 15) && (-300 <=? dp) && (dp <=? 300)
        then Some {| f_ip := sg (m / p); f_frac := true; f_cls := FFinite; f_text := fmt_v neg ds dp |}
        else None
  end.

(* s is the canonical decimal text of the int64 z: what %d prints *)
Definition canonical_int_text (s : text) : option Z :=
  match parse_int_text s with
  | Some z => if text_eqb s (dec_text z) then Some z else None
  | None => None
  end.

(* json.Number: the canonical decimal text of an integer is a JSON number denoting that integer (so the
   general reader below is not needed for it; JsonProof.canonical_agrees checks by computation that both
   routes agree); every other text goes through the general reader *)
Definition json_of_number (s : text) : option fl :=
  match canonical_int_text s with
  | Some z => Some (fl_of_int (f64_of_Z z))
  | None => json_number_float s
  end.

(* a float32 widened through JSON: Marshal writes the shortest decimal that reads back as the same
   FLOAT32, Unmarshal reads that decimal as a float64.  Below 2^24 the integer part and the fraction flag
   survive (integers are float32 values, so the rounding interval of a non-integer holds none); from
   2^24 on the value is an integer and becomes the float64 nearest to its shortest float32 decimal,
   e.g. float32(2^30) = 1073741824 -> 1073741800.  %v prints the same digits before and after. *)
Definition widen32 (f : fl) : option fl :=
  if Z.abs (f_ip f) <? two24 then Some f
  else if f_frac f then None                                  (* no float32 >= 2^23 has a fraction *)
  else let c := f64_of_Z (shortest_int 24 (Z.abs (f_ip f))) in
       Some {| f_ip := if f_ip f <? 0 then - c else c; f_frac := false; f_cls := FFinite; f_text := f_text f |}.

(* ---------- Unmarshal(Marshal(v)) into interface{} ---------- *)
Fixpoint json_roundtrip (v : gval) : option gval :=
  match v with
  | VNil => Some VNil
  | VInt _ z => Some (VFloat false (fl_of_int (f64_of_Z z)))
  | VFloat is32 f =>
    match f_cls f with
    | FFinite => if is32 then option_map (VFloat false) (widen32 f) else Some (VFloat false f)
    | _ => None                                               (* UnsupportedValueError *)
    end
  | VStr s => Some (VStr s)
  | VJson s => option_map (VFloat false) (json_of_number s)
  | VBool b => Some (VBool b)
  | VSlice t isnil vs =>
    if isnil then Some VNil
    else match t with
         | TSuint8 => None                                    (* []byte: a base64 string; not modelled *)
         | _ => option_map (VList false) (all_some (map json_roundtrip vs))
         end
  | VList isnil vs => if isnil then Some VNil else option_map (VList false) (all_some (map json_roundtrip vs))
  | VArr TAother _ => None                                    (* the model does not keep the elements of other arrays *)
  | VArr _ vs => option_map (VList false) (all_some (map json_roundtrip vs))
  | VOther t isnil =>
    match t with
    | Tmap => Some (if isnil then VNil else VOther Tmap false)   (* string/integer keyed map of encodable values -> map[string]interface{} *)
    | Tptr | TSother => if isnil then Some VNil else None     (* pointee / nested slices: not modelled *)
    | _ => None                                               (* chan, func, complex: UnsupportedTypeError; struct: not modelled *)
    end
  end.

Definition expr_roundtrip (e : expr) : option expr :=
  option_map (fun v => {| e_incl := e_incl e; e_op := e_op e; e_val := v |}) (json_roundtrip (e_val e)).
Definition field_roundtrip (fe : fname * list expr) : option (fname * list expr) :=
  option_map (fun es => (fst fe, es)) (all_some (map expr_roundtrip (snd fe))).
Definition conj_roundtrip (c : conj) : option conj := all_some (map field_roundtrip c).
Definition doc_roundtrip (d : doc) : option doc :=
  option_map (fun cs => {| d_id := d_id d; d_conjs := cs |}) (all_some (map conj_roundtrip (d_conjs d))).
Definition docs_roundtrip (ds : list doc) : option (list doc) := all_some (map doc_roundtrip ds).

(* ---------- the safe domain ---------- *)
Definition rt_ok (v : gval) : bool := match json_roundtrip v with Some _ => true | None => false end.

Definition is_scalar (v : gval) : bool :=
  match v with VInt _ _ | VStr _ | VJson _ | VFloat _ _ => true | _ => false end.
Definition is_str (v : gval) : bool := match v with VStr _ => true | _ => false end.

(* a scalar that means the same before and after: an integer of magnitude <= 2^53; a finite float64; a
   finite float32 of magnitude < 2^24; a string that is valid UTF-8; a json.Number holding the canonical decimal text of an
   integer of magnitude <= 2^53.  Anything that is not a scalar only has to be encodable. *)
Definition elem_safe (e : gval) : bool :=
  match e with
  | VInt _ z => Z.abs z <=? two53
  | VFloat is32 f => match f_cls f with
                     | FFinite => negb is32 || (Z.abs (f_ip f) <? two24)
                     | _ => false end
  | VStr s => valid_text s      (* encoding/json replaces the bytes of a string that are not valid UTF-8 *)
  | VJson s => match canonical_int_text s with Some z => Z.abs z <=? two53 | None => false end
  | _ => rt_ok e
  end.

Definition bool_or_other (t : gty) : bool := match t with TSbool | TSother => true | _ => false end.

(* the value as a list of scalars (Spec.scalars_of: canon_texts, ints_of) is the same list *)
Definition lv_safe (v : gval) : bool :=
  match v with
  | VSlice t n vs => forallb elem_safe vs &&
                     (if bool_or_other t then n || existsb (fun e => negb (is_scalar e)) vs else negb n)
  | VList n vs => negb n && forallb elem_safe vs
  | VArr _ vs => forallb elem_safe vs && existsb (fun e => negb (is_scalar e)) vs
  | _ => elem_safe v
  end.
(* the value as a list of strings (Spec.strings_of) is the same list *)
Definition sv_safe (v : gval) : bool :=
  match v with
  | VSlice t n vs => forallb elem_safe vs &&
                     (match t with TSstring => negb n | _ => n || existsb (fun e => negb (is_str e)) vs end)
  | VList n vs => negb n && forallb elem_safe vs
  | VArr _ vs => forallb elem_safe vs && existsb (fun e => negb (is_str e)) vs
  | _ => elem_safe v
  end.
Definition is_pair {A} (l : list A) : bool := match l with [_; _] => true | _ => false end.
Definition small53 (v : gval) : bool := match v with VInt _ z => Z.abs z <=? two53 | _ => false end.
(* between *)
Definition bt_safe (v : gval) : bool :=
  match v with
  | VStr _ => true
  | VList n vs => if is_pair vs then negb n && forallb elem_safe vs else true
  | VArr t vs => if is_pair vs then match t with TA2int64 => forallb small53 vs | _ => false end else true
  | VSlice t n vs => if is_pair vs then match t with TSint64 => negb n && forallb small53 vs | _ => n end else true
  | _ => true
  end.

Definition json_safe (fd : fdesc) (op : vop) (v : gval) : bool :=
  rt_ok v &&
  match fd_cont fd, op with
  | CDefault, OpEQ => match fd_parser fd with
                      | PCommon | PNumber => lv_safe v
                      | PStrHash | PNumRange => sv_safe v end
  | CAc, OpEQ => sv_safe v
  | CRange, OpEQ => nil_like v || lv_safe v
  | CRange, (OpGT | OpLT) => if is_scalar v then elem_safe v else true
  | CRange, OpBetween => bt_safe v
  | _, _ => true                                  (* no meaning before (the document is refused), none after *)
  end.

Definition conj_safe (fields : list fdesc) (parsers : fname -> parser_kind) (c : conj) : bool :=
  forallb (fun fe : fname * list expr =>
             forallb (fun e => json_safe (field_desc fields parsers (fst fe)) (e_op e) (e_val e)) (snd fe)) c.
Definition doc_safe (fields : list fdesc) (parsers : fname -> parser_kind) (d : doc) : bool :=
  forallb (conj_safe fields parsers) (d_conjs d).
