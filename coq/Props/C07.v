(* C07  A built index can be queried concurrently: same answers, no data races.  Statements only.
   PARTIAL by nature of the technique (DESIGN §10): the theorem is about an ownership model -- an
   immutable index, an atomic pool, thread-private cursors/context/collector -- and the write-sets
   regenerated from the source show the code stays inside that model.  That two accesses the model
   calls "reads" are race-free under the Go memory model, and everything inside roaring64, the
   Aho-Corasick machine and sync.Pool, is exhibited only by the -race runs of the correspondence check. *)
From Coq Require Import List NArith ZArith Bool String.
From BE Require Import Model.GoTypes Model.GoVal Model.Parsers Model.Index Model.Pool Model.Conc
                       Proofs.PoolProof Proofs.ConcProof Gen.FootprintGen Proofs.FootprintProof.
Import ListNotations.

(* every schedule of any number of concurrent retrievals (any interleaving of their Get / scan / Put
   steps, any objects handed out by the pool): a retrieval that has finished returned what it returns
   when run alone *)
Theorem C07_any_interleaving_serial : forall p jobs sched i ix q r, pool_inv p ->
  nth_error jobs i = Some (ix, q) ->
  option_map t_pc (nth_error (w_threads (run sched (init_world p jobs))) i) = Some (PcDone r) ->
  r = retrieve ix q.
Proof. exact any_interleaving_serial. Qed.

(* regenerated from the source on every run: nothing reachable from the retrieval entry points stores
   into an index structure, a holder, a field descriptor, a parser, or a package-level variable *)
Theorem C07_retrieval_writes_private :
  forallb (fun w => negb (is_shared (snd (fst w)))) retrieval_writes = true.
Proof. exact retrieval_writes_private. Qed.
Theorem C07_no_package_variable_written : retrieval_global_writes = [].
Proof. exact retrieval_writes_no_globals. Qed.

(* the classification is not vacuous: the builder's write-set does hit shared types *)
Theorem C07_classification_nonvacuous : existsb (fun w => is_shared (snd (fst w))) builder_writes = true.
Proof. exact builder_writes_are_classified_shared. Qed.

Print Assumptions C07_any_interleaving_serial.
Print Assumptions C07_retrieval_writes_private.
Print Assumptions C07_no_package_variable_written.
