package main

import (
	"bufio"
	"bytes"
	"encoding/json"
	"fmt"
	"os"
	"os/exec"
	"path/filepath"
	"reflect"
	"sort"
	"strconv"
	"strings"
	"sync"
	"sync/atomic"
	"time"

	be "github.com/echoface/be_indexer"
	"github.com/echoface/be_indexer/roaringidx"
)

// ---- concurrent workloads (run inside a -race build of this binary) ----

// sharedOpts: an option slice with spare capacity that every goroutine passes on as it is (callers build such
// slices conditionally); the library may read it, not append into it
var sharedOpts = make([]be.IndexOpt, 0, 4)

// sharedHints: a candidate list several goroutines prime their own scanners with (WithHint(sharedHints...))
var sharedHints []int64

type seqAnswer struct {
	docs []int64
	hits [][3]int64
	err  bool
}

func sortedHits(h [][3]int64) [][3]int64 {
	o := append([][3]int64{}, h...)
	sort.Slice(o, func(i, j int) bool {
		for k := 0; k < 3; k++ {
			if o[i][k] != o[j][k] {
				return o[i][k] < o[j][k]
			}
		}
		return false
	})
	return o
}

func answer(index be.BEIndex, q *eQuery) (a seqAnswer) {
	defer func() {
		if recover() != nil {
			a.err = true
		}
	}()
	docs, err := index.Retrieve(q.build())
	if err != nil {
		a.err = true
		return
	}
	a.docs = docIDs(docs)
	rec := &recCollector{}
	if err := index.RetrieveWithCollector(q.build(), rec); err != nil {
		a.err = true
		return
	}
	a.hits = sortedHits(rec.hits)
	return
}

func sameAnswer(a, b seqAnswer) bool {
	return a.err == b.err && reflect.DeepEqual(a.docs, b.docs) && reflect.DeepEqual(a.hits, b.hits)
}

func loadECases(path string, max int) []eCase {
	f, err := os.Open(path)
	if err != nil {
		panic(err)
	}
	defer f.Close()
	var out []eCase
	sc := bufio.NewScanner(f)
	sc.Buffer(make([]byte, 1<<20), 1<<28)
	for sc.Scan() && len(out) < max {
		var c eCase
		if json.Unmarshal(sc.Bytes(), &c) == nil && len(c.Docs) > 0 && c.Kind != "" {
			out = append(out, c)
		}
	}
	return out
}

func buildCase(c *eCase) (*be.IndexerBuilder, be.BEIndex) {
	restore := installParsers(c.Parsers)
	defer restore()
	b := newBuilder(c)
	for j := range c.Docs {
		safeCall(func() { b.AddDocument(c.Docs[j].build()) })
	}
	return b, b.BuildIndex()
}

// race07: G goroutines x shared indexes (posting-list indexes of the given cases + a roaring index with
// one scanner per goroutine); every concurrent answer must equal the sequential one.
func race07Main(args []string) {
	cases := loadECases(args[0], 12)
	seed, _ := strconv.ParseUint(args[1], 10, 64)
	secs, _ := strconv.ParseFloat(args[2], 64)
	type shared struct {
		index    be.BEIndex
		qs       []eQuery
		seq      []seqAnswer
		fields   []int            // fields occurring in the documents
		objs     []be.Assignments // ONE object per query, handed to every goroutine (the library only reads an assignment)
		pristine []be.Assignments // what the shared objects held before the run
	}
	var sh []*shared
	for i := range cases {
		_, idx := buildCase(&cases[i])
		s := &shared{index: idx, qs: cases[i].Queries}
		seenF := map[int]bool{}
		for _, d := range cases[i].Docs {
			for _, cj := range d.Cons {
				for _, e := range cj {
					if !seenF[e.F] {
						seenF[e.F] = true
						s.fields = append(s.fields, e.F)
					}
				}
			}
		}
		for j := range s.qs {
			s.qs[j].Debug = false
			s.seq = append(s.seq, answer(idx, &s.qs[j]))
			o := s.qs[j].build()
			if len(s.fields) > 0 { // a nil value on a known default-container field (ignored like an absent one)
				fn := s.fields[j%len(s.fields)]
				f := fieldName(fn)
				if _, ok := o[f]; !ok && cases[i].Configs[fn] == "" {
					o[f] = nil
				}
			}
			s.objs = append(s.objs, o)
			c := be.Assignments{}
			for k, v := range o {
				c[k] = v
			}
			s.pristine = append(s.pristine, c)
		}
		sh = append(sh, s)
	}
	// a roaring index from the first case's documents (default fields only)
	rfields := map[int]bool{}
	rc := rCase{}
	for _, d := range cases[0].Docs {
		ok := true
		for _, cj := range d.Cons {
			for _, e := range cj {
				if e.Op != 0 {
					ok = false
				}
				rfields[e.F] = true
			}
		}
		if ok {
			rc.Docs = append(rc.Docs, d)
		}
	}
	for f := range rfields {
		cont := "default"
		if cases[0].Configs[f] == "ac_matcher" {
			cont = "ac_matcher"
		} else if cases[0].Configs[f] != "" {
			continue
		}
		rc.Fields = append(rc.Fields, rField{F: f, Cont: cont})
	}
	sort.Slice(rc.Fields, func(i, j int) bool { return rc.Fields[i].F < rc.Fields[j].F })
	var ridx *roaringidx.IvtBEIndexer
	var rseq [][]uint64
	var rerr []bool
	if len(rc.Fields) > 0 && len(rc.Docs) > 0 {
		known := map[int]bool{}
		for _, f := range rc.Fields {
			known[f.F] = true
		}
		var docs []eDoc
		for _, d := range rc.Docs {
			ok := true
			for _, cj := range d.Cons {
				for _, e := range cj {
					if !known[e.F] {
						ok = false
					}
				}
			}
			if ok {
				docs = append(docs, d)
			}
		}
		rc.Docs = docs
		ridx, _, _ = buildRoaring(&rc)
		// one candidate list (every indexed id among 100 unknown ones, in no particular order) that all goroutines
		// pass to WithHint as it is: hinted with it, a scan returns what the unhinted scan returns
		for k := 0; k < 100; k++ {
			sharedHints = append(sharedHints, int64(5000-37*k))
		}
		for k, d := range rc.Docs {
			sharedHints = append(sharedHints, d.ID)
			sharedHints[k%len(sharedHints)], sharedHints[len(sharedHints)-1] = sharedHints[len(sharedHints)-1], sharedHints[k%len(sharedHints)]
		}
		sc := roaringidx.NewScanner(ridx)
		for i := range cases[0].Queries {
			sc.Reset()
			var d []uint64
			var e error
			p := safeCall(func() { d, e = sc.Retrieve(cases[0].Queries[i].build()) })
			rseq = append(rseq, d)
			rerr = append(rerr, p || e != nil)
		}
	}
	var mismatches, ops int64
	var mu sync.Mutex
	var msgs []string
	report := func(m string) {
		atomic.AddInt64(&mismatches, 1)
		mu.Lock()
		if len(msgs) < 5 {
			msgs = append(msgs, m)
		}
		mu.Unlock()
	}
	// rounds of hinted retrievals that all start at once and share ONE fresh candidate list (every indexed id among
	// 1500 unknown ones, shuffled): each must return what the unhinted retrieval returns alone
	if ridx != nil {
		hr := &Rand{s: seed*77 + 5}
		t0 := time.Now()
		for round := 0; round < 80 && time.Since(t0) < 4*time.Second; round++ {
			qi := round % len(rseq)
			if rerr[qi] {
				continue
			}
			list := make([]int64, 0, 1500+len(rc.Docs))
			for k := 0; k < 1500; k++ {
				list = append(list, hr.I64(100000, 1<<40))
			}
			for _, d := range rc.Docs {
				list = append(list, d.ID)
			}
			for k := len(list) - 1; k > 0; k-- {
				j := hr.Intn(k + 1)
				list[k], list[j] = list[j], list[k]
			}
			start := make(chan struct{})
			var hw sync.WaitGroup
			for g := 0; g < 4; g++ {
				hw.Add(1)
				go func() {
					defer hw.Done()
					sc := roaringidx.NewScanner(ridx)
					<-start
					var d []uint64
					var e error
					p := safeCall(func() { sc.WithHint(list...); d, e = sc.Retrieve(cases[0].Queries[qi].build()) })
					atomic.AddInt64(&ops, 1)
					if p || e != nil || !reflect.DeepEqual(d, rseq[qi]) {
						report(fmt.Sprintf("roaring query %d hinted with a candidate list shared by 4 simultaneous retrievals: %d documents, alone %d", qi, len(d), len(rseq[qi])))
					}
				}()
			}
			close(start)
			hw.Wait()
		}
	}
	// failing retrievals (a value no parser supports on a known field) before and during the concurrent
	// phase: an error path that leaves shared state (pools) inconsistent shows up as a race or a wrong answer
	hostile := func(f int) be.Assignments { return be.Assignments{fieldName(f): struct{ X int }{1}} }
	failRoaring := func(sc *roaringidx.IvtScanner, r *Rand) {
		if sc == nil || len(rc.Fields) == 0 {
			return
		}
		sc.Reset()
		safeCall(func() { sc.Retrieve(hostile(rc.Fields[r.Intn(len(rc.Fields))].F)) })
	}
	failIndex := func(s *shared, r *Rand) {
		if len(s.fields) == 0 {
			return
		}
		safeCall(func() { s.index.Retrieve(hostile(s.fields[r.Intn(len(s.fields))])) })
	}
	{
		r := &Rand{s: seed*31 + 7}
		var sc *roaringidx.IvtScanner
		if ridx != nil {
			sc = roaringidx.NewScanner(ridx)
		}
		for k := 0; k < 20; k++ {
			failRoaring(sc, r)
			failIndex(sh[r.Intn(len(sh))], r)
		}
	}
	deadline := time.Now().Add(time.Duration(secs * float64(time.Second)))
	for _, G := range []int{2, 4, 16} {
		var wg sync.WaitGroup
		stop := deadline.Add(-time.Duration(float64(time.Second) * secs * (1 - map[int]float64{2: 0.25, 4: 0.55, 16: 1.0}[G])))
		for g := 0; g < G; g++ {
			wg.Add(1)
			go func(g int) {
				defer wg.Done()
				r := &Rand{s: seed*1000 + uint64(G*100+g)}
				var sc *roaringidx.IvtScanner
				if ridx != nil {
					sc = roaringidx.NewScanner(ridx)
				}
				for time.Now().Before(stop) {
					for k := 0; k < 50; k++ {
						atomic.AddInt64(&ops, 1)
						if r.Chance(4) {
							if r.Bool() {
								failRoaring(sc, r)
							} else {
								failIndex(sh[r.Intn(len(sh))], r)
							}
							continue
						}
						if sc != nil && r.Chance(25) {
							i := r.Intn(len(rseq))
							sc.Reset()
							if r.Bool() {
								sc.WithHint(sharedHints...)
							}
							var d []uint64
							var e error
							p := safeCall(func() { d, e = sc.Retrieve(cases[0].Queries[i].build()) })
							if (p || e != nil) != rerr[i] || (!rerr[i] && !reflect.DeepEqual(d, rseq[i])) {
								report(fmt.Sprintf("roaring query %d: concurrent %v sequential %v", i, d, rseq[i]))
							}
							continue
						}
						s := sh[r.Intn(len(sh))]
						i := r.Intn(len(s.qs))
						if r.Chance(35) { // the shared assignment object
							var d be.DocIDList
							var e error
							p := safeCall(func() { d, e = s.index.Retrieve(s.objs[i]) })
							if (p || e != nil) != s.seq[i].err || (!s.seq[i].err && !reflect.DeepEqual(docIDs(d), s.seq[i].docs)) {
								report(fmt.Sprintf("query %d through a shared assignment object: concurrent %v sequential %+v", i, d, s.seq[i]))
							}
							continue
						}
						if r.Chance(20) { // ONE option slice with spare capacity handed to every retrieval that wants options
							own := be.NewDocIDCollector()
							var e error
							p := safeCall(func() { e = s.index.RetrieveWithCollector(s.qs[i].build(), own, sharedOpts...) })
							if (p || e != nil) != s.seq[i].err || (!s.seq[i].err && !reflect.DeepEqual(docIDs(own.GetDocIDs()), s.seq[i].docs)) {
								report(fmt.Sprintf("query %d with a caller-owned collector and a shared option slice: concurrent %v sequential %+v", i, own.GetDocIDs(), s.seq[i]))
							}
							continue
						}
						if a := answer(s.index, &s.qs[i]); !sameAnswer(a, s.seq[i]) {
							report(fmt.Sprintf("query %d: concurrent %+v sequential %+v", i, a, s.seq[i]))
						}
					}
				}
			}(g)
		}
		wg.Wait()
	}
	// a retrieval that writes its caller's assignment conflicts with every retrieval reading the same object
	for _, s := range sh {
		for i := range s.objs {
			if !reflect.DeepEqual(s.objs[i], s.pristine[i]) {
				report(fmt.Sprintf("query %d: a retrieval wrote to the shared assignment object: now %v, was %v", i, s.objs[i], s.pristine[i]))
			}
		}
	}
	// retrievals that are REFUSED in a smaller size group after a larger one has matched (a range field only
	// one-field conjunctions use, assigned a text its holder cannot read) among good ones, on every goroutine: each good
	// retrieval must return what it returns alone, whichever pooled collector it draws
	for _, kind := range []string{"kgroups", "compact"} {
		c := eCase{Kind: kind, Policy: "error", Configs: map[int]string{2: "ext_range"}}
		sv := func(f int, s string) eExpr { return eExpr{F: f, Inc: true, V: tvStr(s)} }
		c.Docs = []eDoc{
			{ID: 10, Cons: []eConj{{sv(0, "sport"), {F: 1, Inc: true, V: tvSlice("[]int", tvInt("int", 1))}}}},
			{ID: 20, Cons: []eConj{{{F: 2, Inc: true, Op: 1, V: tvInt("int", 18)}}}},
			{ID: 30, Cons: []eConj{{sv(0, "sport")}}},
		}
		_, idx := buildCase(&c)
		good := []eQuery{{A: []eAssign{{F: 0, V: tvStr("sport")}}}, {A: []eAssign{{F: 2, V: tvInt("int", 30)}}}, {}, {A: []eAssign{{F: 0, V: tvStr("sport")}, {F: 1, V: tvInt("int", 1)}}}}
		bad := eQuery{A: []eAssign{{F: 0, V: tvStr("sport")}, {F: 1, V: tvInt("int", 1)}, {F: 2, V: tvStr("unknown")}}}
		alone := make([]seqAnswer, len(good))
		for i := range good {
			alone[i] = answer(idx, &good[i])
		}
		var wg sync.WaitGroup
		for g := 0; g < 4; g++ {
			wg.Add(1)
			go func(g int) {
				defer wg.Done()
				for k := 0; k < 300; k++ {
					if k%3 == g%3 {
						safeCall(func() { idx.Retrieve(bad.build()) })
					}
					i := (k + g) % len(good)
					var d be.DocIDList
					var e error
					p := safeCall(func() { d, e = idx.Retrieve(good[i].build()) })
					atomic.AddInt64(&ops, 1)
					ids := docIDs(d)
					sort.Slice(ids, func(a, b int) bool { return ids[a] < ids[b] })
					want := append([]int64{}, alone[i].docs...)
					sort.Slice(want, func(a, b int) bool { return want[a] < want[b] })
					if p || (e != nil) != alone[i].err || (!alone[i].err && !reflect.DeepEqual(ids, want)) {
						report(fmt.Sprintf("%s, retrievals refused in a smaller size group among good ones: query %d returned %v, alone it returns %v", kind, i, ids, want))
					}
				}
			}(g)
		}
		wg.Wait()
	}
	fmt.Printf("RACE07 ops=%d mismatches=%d indexes=%d roaring=%v\n", ops, mismatches, len(sh), ridx != nil)
	for _, m := range msgs {
		fmt.Println("MISMATCH", m)
	}
}

// race14: queries on a published index while its builder is reset, fed new documents introducing new
// fields and built again.
func race14Main(args []string) {
	cases := loadECases(args[0], 8)
	seed, _ := strconv.ParseUint(args[1], 10, 64)
	secs, _ := strconv.ParseFloat(args[2], 64)
	var mismatches, ops, rebuilds int64
	var msgs []string
	var mu sync.Mutex
	per := secs / float64(len(cases))
	for ci := range cases {
		c := &cases[ci]
		b, idx := buildCase(c)
		var seq []seqAnswer
		for j := range c.Queries {
			c.Queries[j].Debug = false
			seq = append(seq, answer(idx, &c.Queries[j]))
		}
		deadline := time.Now().Add(time.Duration(per * float64(time.Second)))
		var wg sync.WaitGroup
		for g := 0; g < 3; g++ {
			wg.Add(1)
			go func(g int) {
				defer wg.Done()
				r := &Rand{s: seed*77 + uint64(ci*10+g)}
				for time.Now().Before(deadline) {
					i := r.Intn(len(seq))
					atomic.AddInt64(&ops, 1)
					if a := answer(idx, &c.Queries[i]); !sameAnswer(a, seq[i]) {
						atomic.AddInt64(&mismatches, 1)
						mu.Lock()
						if len(msgs) < 5 {
							msgs = append(msgs, fmt.Sprintf("case %d query %d: %+v, before builder activity %+v", ci, i, a, seq[i]))
						}
						mu.Unlock()
					}
				}
			}(g)
		}
		wg.Add(1)
		go func() {
			defer wg.Done()
			n := 0
			for time.Now().Before(deadline) {
				n++
				b.Reset()
				for k := 0; k < 3; k++ {
					d := be.NewDocument(be.DocID(5000 + k))
					conj := be.NewConjunction()
					conj.In(be.BEField(fmt.Sprintf("new_%d_%d", n%50, k)), []int{1, 2, n})
					conj.NotIn(fieldName(0), []int{3})
					d.AddConjunction(conj)
					safeCall(func() { b.AddDocument(d) })
				}
				for j := range c.Docs {
					if j%2 == 0 {
						safeCall(func() { b.AddDocument(c.Docs[j].build()) })
					}
				}
				b.BuildIndex()
				atomic.AddInt64(&rebuilds, 1)
			}
		}()
		wg.Wait()
	}
	fmt.Printf("RACE14 ops=%d rebuilds=%d mismatches=%d indexes=%d\n", ops, rebuilds, mismatches, len(cases))
	for _, m := range msgs {
		fmt.Println("MISMATCH", m)
	}
}

// runRaceChild runs `vh-race <sub> <inputs> <seed> <secs>`; returns evidence fields and violations.
func runRaceChild(sub, outdir string, seed uint64, secs float64) (map[string]interface{}, []string) {
	exe := os.Args[0]
	if !strings.HasSuffix(exe, "-race") {
		exe += "-race"
	}
	ev := map[string]interface{}{"race_seconds": secs}
	if _, err := os.Stat(exe); err != nil {
		ev["race_run"] = "unavailable: no -race build of the harness"
		return ev, nil
	}
	cmd := exec.Command(exe, sub, filepath.Join(outdir, "inputs.jsonl"), strconv.FormatUint(seed, 10), strconv.FormatFloat(secs, 'f', 1, 64))
	cmd.Env = append(os.Environ(), "GORACE=halt_on_error=1 exitcode=66")
	var out, errb bytes.Buffer
	cmd.Stdout, cmd.Stderr = &out, &errb
	err := cmd.Run()
	ev["race_run"] = strings.TrimSpace(firstLineWith(out.String(), "RACE"))
	var v []string
	if strings.Contains(errb.String(), "DATA RACE") {
		rep := errb.String()
		if i := strings.Index(rep, "WARNING: DATA RACE"); i >= 0 {
			rep = rep[i:]
		}
		if len(rep) > 2500 {
			rep = rep[:2500]
		}
		v = append(v, "data race reported by the race detector: "+rep)
	} else if err != nil {
		v = append(v, fmt.Sprintf("race workload failed: %v: %s", err, tail(errb.String(), 800)))
	}
	for _, l := range strings.Split(out.String(), "\n") {
		if strings.HasPrefix(l, "MISMATCH") {
			v = append(v, "concurrent answer differs from the sequential one: "+l)
			break
		}
	}
	return ev, v
}

func firstLineWith(s, sub string) string {
	for _, l := range strings.Split(s, "\n") {
		if strings.Contains(l, sub) {
			return l
		}
	}
	return ""
}
func tail(s string, n int) string {
	if len(s) > n {
		return s[len(s)-n:]
	}
	return s
}

// the C14 inputs wrap the e2e case: unwrap them for the race child
func runRaceChildC14(outdir string, seed uint64, secs float64) (map[string]interface{}, []string) {
	data, err := os.ReadFile(filepath.Join(outdir, "inputs.jsonl"))
	if err != nil {
		return map[string]interface{}{"race_run": "no inputs"}, nil
	}
	tmp := filepath.Join(outdir, "race")
	os.MkdirAll(tmp, 0o755)
	f, _ := os.Create(filepath.Join(tmp, "inputs.jsonl"))
	for _, l := range strings.Split(string(data), "\n") {
		var in c14In
		if json.Unmarshal([]byte(l), &in) == nil && in.C14 {
			b, _ := json.Marshal(in.Case)
			f.Write(b)
			f.Write([]byte("\n"))
		}
	}
	f.Close()
	return runRaceChild("race14", tmp, seed, secs)
}
