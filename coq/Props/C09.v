(* C09  Values match by canonical text, not Go representation.  Statements only.
   Left: Model/Parsers.v (the common parser, dispatching through the type-switch tables regenerated
   from the source).  Right: Model/Spec.v's canon_scalar / canon_texts, which classify a value by
   what it is (integer, string, float) and never mention a Go type table.
   Hash ids are modelled as the hashed text (premise: no FNV-64 collision). *)
From Coq Require Import List NArith ZArith Bool.
From BE Require Import Model.GoTypes Model.GoVal Model.Parsers Model.Index Model.Spec Proofs.CanonProof.
Import ListNotations.

(* a scalar in ANY supported representation (every integer width signed or unsigned, numeric or
   other string, json.Number, float32/64 inside the modelled fragment) is identified by its
   canonical text at indexing time and at query time *)
Theorem C09_scalar_identified_by_text : forall v t, canon_scalar v = Some t ->
  common_parse_value v = POk [PText t] /\ common_parse_assign v = POk [PText t].
Proof. exact value_scalar. Qed.

Theorem C09_every_integer_width : forall (k : ikind) (z : Z),
  common_parse_value (VInt k z) = POk [PText (dec_text z)] /\ common_parse_assign (VInt k z) = POk [PText (dec_text z)].
Proof. intros k z. apply value_scalar. reflexivity. Qed.

(* typed slices of integers, strings, json.Numbers, floats *)
Theorem C09_typed_slice_identified_by_texts : forall t n vs ts,
  wf_gval (VSlice t n vs) -> canon_texts (VSlice t n vs) = Some ts ->
  match t with TSint | TSint8 | TSint16 | TSint32 | TSint64 | TSuint | TSuint8 | TSuint16 | TSuint32 | TSuint64
             | TSstring | TSjsonNumber | TSfloat32 | TSfloat64 => True | _ => False end ->
  common_parse_value (VSlice t n vs) = POk (map PText ts) /\
  (n = false -> common_parse_assign (VSlice t n vs) = POk (map PText ts)).
Proof. exact value_slice. Qed.

(* heterogeneous lists *)
Theorem C09_list_identified_by_texts : forall n vs ts, canon_texts (VList n vs) = Some ts ->
  common_parse_value (VList n vs) = POk (map PText ts) /\
  (n = false -> common_parse_assign (VList n vs) = POk (map PText ts)).
Proof.
  intros n vs ts H. split; [apply value_list; auto|]. intros ->. apply assign_list; auto.
Qed.

(* hence: an expression value and an assigned value share an id exactly when they share a canonical text *)
Theorem C09_match_iff_canonical_text : forall ts1 ts2,
  (exists i, In i (map PText ts1) /\ In i (map PText ts2)) <-> (exists t, In t ts1 /\ In t ts2).
Proof. exact shared_id_iff_text. Qed.

(* non-vacuity: int32(-3), "-3", json.Number("-3"), float64(-3.7) and []uint8{7} / "7" *)
Example C09_nonvacuous :
  common_parse_value (VInt KI32 (-3)) = POk [PText [45; 51]%N] /\
  common_parse_assign (VStr [45; 51]%N) = POk [PText [45; 51]%N] /\
  common_parse_assign (VFloat false (Build_fl (-3) true FFinite [45; 51; 46; 55]%N)) = POk [PText [45; 51]%N] /\
  common_parse_value (VSlice TSuint8 false [VInt KU8 7]) = POk [PText [55]%N].
Proof. vm_compute. repeat split. Qed.

Print Assumptions C09_scalar_identified_by_text.
Print Assumptions C09_every_integer_width.
Print Assumptions C09_typed_slice_identified_by_texts.
Print Assumptions C09_list_identified_by_texts.
Print Assumptions C09_match_iff_canonical_text.
