(* END-TO-END exactness of the roaring-bitmap index (Model/Roaring.v) for builders whose fields use
   the DEFAULT container or the PATTERN (Aho-Corasick) container `RAc`.  Extends Proofs/RoaringProof.v
   (default containers only: there `cont_repr` of an RCAc container is False).

   1. the pattern container: retrieval = (wildcard OR matched includes) AND-NOT matched excludes, where a
      stored keyword matches when it is NOT EMPTY and occurs in the query text; the query text of a
      nil value is "no text" (nothing matches: the wildcard set alone), of a string the string, of
      a string slice / []interface{} of strings the strings joined by ONE space;
   2. builder invariant for both container kinds (cont_step_r / cont_repr_r);
   3. conj_sat_r and the end-to-end theorems: raw result (conjunction ids), unhinted and hinted,
      soundness, and the documents result. *)
From Coq Require Import List NArith ZArith Bool Lia Permutation Sorted.
From BE Require Import Model.GoTypes Model.GoVal Model.Parsers Model.Index Model.Roaring Proofs.RoaringProof.
From BE Require Gen.IdsGen Proofs.IdsProof Proofs.AcProof.
From BE Require Import Gen.TypeSwitchGen.
Import ListNotations.
Local Open Scope N_scope.

(* ================================================================== *)
(* 1. the pattern container                                            *)
(* ================================================================== *)

(* stored keyword k matches query text t: empty keywords never match *)
Definition kw_ok (t k : text) : bool := match k with [] => false | _ => kw_found k t end.

Lemma kw_ok_nil k : kw_ok [] k = false.
Proof. destruct k as [|c k]; [reflexivity|]. unfold kw_ok. apply AcProof.kw_found_nil_r. discriminate. Qed.

(* the text a pattern container matches its keywords against: a nil value gives no text at all
   (the container returns its wildcard set without consulting the automata), which is the same as
   the empty text since no non-empty keyword occurs in it *)
Definition rc_query_text (v : gval) : pres text :=
  pbind (nil_interface v) (fun isnil => if isnil then POk [] else ac_query_text [32] v).

Definition ac_result (wc : bitmap) (inc exc : list (text * bitmap)) (t : text) : bitmap :=
  fold_left bm_andnot (ac_matched t exc) (fold_left bm_or (ac_matched t inc) wc).

Lemma ac_matched_nil m : ac_matched [] m = [].
Proof.
  unfold ac_matched. induction m as [|[k b] m IH]; cbn [flat_map fst snd]; [reflexivity|].
  rewrite IH. destruct k as [|c k]; [reflexivity|]. rewrite (AcProof.kw_found_nil_r (c :: k)) by discriminate. reflexivity.
Qed.

Lemma rc_retrieve_ac_eq wc inc exc v :
  rc_retrieve (RCAc wc inc exc) v = pbind (rc_query_text v) (fun t => POk (ac_result wc inc exc t)).
Proof.
  unfold rc_query_text. cbn [rc_retrieve]. destruct (nil_interface v) as [[|]| | | |]; cbn [pbind]; try reflexivity.
  unfold ac_result. rewrite !ac_matched_nil. reflexivity.
Qed.

Lemma existsb_ac_matched x t m :
  existsb (bm_mem x) (ac_matched t m) = existsb (fun kb => kw_ok t (fst kb) && bm_mem x (snd kb)) m.
Proof.
  unfold ac_matched. induction m as [|[k b] m IH]; cbn [flat_map existsb fst snd]; [reflexivity|].
  rewrite existsb_app, IH. unfold kw_ok. destruct k as [|c k]; cbn [existsb orb andb]; [reflexivity|].
  destruct (kw_found (c :: k) t); cbn [existsb andb orb]; [rewrite orb_false_r|]; reflexivity.
Qed.

(* the pattern container's rule: all matched includes are OR-ed onto the wildcard set, then all
   matched excludes are removed *)
Theorem ac_result_mem wc inc exc t x :
  bm_mem x (ac_result wc inc exc t) =
  (bm_mem x wc || existsb (fun kb => kw_ok t (fst kb) && bm_mem x (snd kb)) inc)
  && negb (existsb (fun kb => kw_ok t (fst kb) && bm_mem x (snd kb)) exc).
Proof. unfold ac_result. rewrite fold_bm_andnot_mem, fold_bm_or_mem, !existsb_ac_matched. reflexivity. Qed.

Theorem rc_retrieve_ac_rule wc inc exc v b :
  rc_retrieve (RCAc wc inc exc) v = POk b ->
  exists t, rc_query_text v = POk t /\
    forall x, bm_mem x b =
      (bm_mem x wc || existsb (fun kb => kw_ok t (fst kb) && bm_mem x (snd kb)) inc)
      && negb (existsb (fun kb => kw_ok t (fst kb) && bm_mem x (snd kb)) exc).
Proof.
  rewrite rc_retrieve_ac_eq. destruct (rc_query_text v) as [t| | | |]; cbn [pbind]; try discriminate.
  intros [= <-]. exists t. split; [reflexivity|]. intros x. apply ac_result_mem.
Qed.

(* x is in SOME bitmap stored under keyword k.  (aupdate keeps keys distinct, but nothing below needs that.) *)
Definition ent_mem (m : list (text * bitmap)) (x : N) (k : text) : bool :=
  existsb (fun kb => text_eqb k (fst kb) && bm_mem x (snd kb)) m.

Lemma text_eqb_refl k : text_eqb k k = true.
Proof. destruct (text_eqb_spec k k); congruence. Qed.

Lemma existsb_ent (g : text -> bool) m x :
  existsb (fun kb => g (fst kb) && bm_mem x (snd kb)) m = true <-> exists k, g k = true /\ ent_mem m x k = true.
Proof.
  unfold ent_mem. rewrite existsb_exists. split.
  - intros ([k b] & Hin & H). cbn [fst snd] in H. apply andb_prop in H. destruct H as [Hg Hb].
    exists k. split; [exact Hg|]. apply existsb_exists. exists (k, b). split; [exact Hin|].
    cbn [fst snd]. rewrite text_eqb_refl, Hb. reflexivity.
  - intros (k & Hg & H). apply existsb_exists in H. destruct H as ([k' b] & Hin & H). cbn [fst snd] in H.
    apply andb_prop in H. destruct H as [He Hb]. destruct (text_eqb_spec k k'); [|discriminate]. subst k'.
    exists (k, b). split; [exact Hin|]. cbn [fst snd]. rewrite Hg, Hb. reflexivity.
Qed.

Lemma ent_mem_add_to k id m x k' :
  ent_mem (add_to text_eqb k id m) x k' = ent_mem m x k' || ((x =? id) && text_eqb k' k).
Proof.
  unfold ent_mem, add_to. induction m as [|[k0 b] m IH]; cbn [aupdate existsb fst snd].
  - rewrite bm_mem_cons, bm_mem_nil. destruct (text_eqb k' k), (x =? id); reflexivity.
  - destruct (text_eqb_spec k k0) as [->|Hne]; cbn [existsb fst snd].
    + rewrite bm_mem_add.
      destruct (text_eqb k' k0), (x =? id), (bm_mem x b); cbn [andb orb]; rewrite ?orb_true_r, ?orb_false_r; reflexivity.
    + rewrite IH, orb_assoc. reflexivity.
Qed.

Lemma ent_mem_fold_add_to id x k' ks : forall m,
  ent_mem (fold_left (fun m k => add_to text_eqb k id m) ks m) x k' =
  ent_mem m x k' || ((x =? id) && existsb (text_eqb k') ks).
Proof.
  induction ks as [|k ks IH]; intros m; cbn [fold_left existsb].
  - rewrite andb_false_r, orb_false_r. reflexivity.
  - rewrite IH, ent_mem_add_to. rewrite <- orb_assoc. f_equal. destruct (x =? id); reflexivity.
Qed.

(* ================================================================== *)
(* 2. builder invariant for both container kinds                       *)
(* ================================================================== *)

(* the keywords an expression contributes to a pattern container: none for a nil value (EncodeExpr
   returns before looking at the operator), else the strings of the value *)
Definition ac_keywords (e : expr) : list text :=
  match nil_interface (e_val e) with
  | POk true => []
  | _ => match ac_parse_dict (e_val e) with POk ks => ks | _ => [] end
  end.

Definition kinc_hit (k : text) (e : expr) : bool := e_incl e && existsb (text_eqb k) (ac_keywords e).
Definition kexc_hit (k : text) (e : expr) : bool := negb (e_incl e) && existsb (text_eqb k) (ac_keywords e).

Definition cont_step_r (id : N) (es : list expr) (addwc : bool) (c c' : rcontainer) : Prop :=
  match c with
  | RCDefault _ _ _ _ => cont_step id es addwc c c'
  | RCAc wc inc exc =>
    exists wc' inc' exc', c' = RCAc wc' inc' exc' /\
      (forall x, bm_mem x wc' = bm_mem x wc || ((x =? id) && addwc)) /\
      (forall x k, ent_mem inc' x k = ent_mem inc x k || ((x =? id) && existsb (kinc_hit k) es)) /\
      (forall x k, ent_mem exc' x k = ent_mem exc x k || ((x =? id) && existsb (kexc_hit k) es))
  end.

Lemma rc_encode_ac wc inc exc id e c' :
  rc_encode (RCAc wc inc exc) id e = POk c' -> cont_step_r id [e] false (RCAc wc inc exc) c'.
Proof.
  cbn [rc_encode cont_step_r existsb]. unfold kinc_hit, kexc_hit, ac_keywords.
  destruct (nil_interface (e_val e)) as [[|]| | | |]; cbn [pbind]; try discriminate.
  - intros [= <-]. exists wc, inc, exc. split; [reflexivity|]. split; [|split]; intros x; try intros k;
      cbn [existsb]; rewrite ?andb_false_r, ?orb_false_r; reflexivity.
  - destruct (e_op e); try discriminate.
    destruct (ac_parse_dict (e_val e)) as [ks| | | |]; cbn [pbind]; try discriminate.
    destruct (e_incl e); intros [= <-]; do 3 eexists; (split; [reflexivity|]);
      (split; [intros x; rewrite andb_false_r, orb_false_r; reflexivity|]);
      split; intros x k; cbn [existsb negb andb]; rewrite ?orb_false_r, ?andb_false_r, ?orb_false_r; try reflexivity;
      apply ent_mem_fold_add_to.
Qed.

Lemma rc_encode_step_r c id e c' : rc_encode c id e = POk c' -> cont_step_r id [e] false c c'.
Proof.
  destruct c as [p wc inc exc|wc inc exc]; intros H.
  - cbn [cont_step_r]. apply rc_encode_default. exact H.
  - apply rc_encode_ac. exact H.
Qed.

Lemma cont_step_r_trans id es1 es2 w1 w2 c1 c2 c3 :
  cont_step_r id es1 w1 c1 c2 -> cont_step_r id es2 w2 c2 c3 -> cont_step_r id (es1 ++ es2) (w1 || w2) c1 c3.
Proof.
  destruct c1 as [p wc inc exc|wc inc exc]; cbn [cont_step_r].
  - intros H1 H2. pose proof H1 as H1'. cbn [cont_step] in H1'. destruct H1' as (wc' & inc' & exc' & -> & _).
    cbn [cont_step_r] in H2. exact (cont_step_trans _ _ _ _ _ _ _ _ H1 H2).
  - intros (wc' & inc' & exc' & -> & Hw & Hi & He). cbn [cont_step_r].
    intros (wc'' & inc'' & exc'' & -> & Hw' & Hi' & He').
    do 3 eexists. split; [reflexivity|]. split; [|split]; intros x.
    + rewrite Hw', Hw. rewrite <- orb_assoc. f_equal. destruct (x =? id); reflexivity.
    + intros k. rewrite Hi', Hi, existsb_app. rewrite <- orb_assoc. f_equal. destruct (x =? id); reflexivity.
    + intros k. rewrite He', He, existsb_app. rewrite <- orb_assoc. f_equal. destruct (x =? id); reflexivity.
Qed.

Lemma cont_step_r_refl id c : cont_step_r id [] false c c.
Proof.
  destruct c as [p wc inc exc|wc inc exc]; cbn [cont_step_r]; [apply cont_step_refl|].
  do 3 eexists. split; [reflexivity|].
  repeat split; intros; cbn [existsb]; rewrite andb_false_r, orb_false_r; reflexivity.
Qed.

Lemma rc_add_wildcard_step_r id c : cont_step_r id [] true c (rc_add_wildcard c id).
Proof.
  destruct c as [p wc inc exc|wc inc exc]; cbn [cont_step_r]; [apply rc_add_wildcard_step|].
  cbn [rc_add_wildcard]. do 3 eexists. split; [reflexivity|]. split; [|split]; intros x.
  - rewrite bm_mem_add, andb_true_r. apply orb_comm.
  - intros k. cbn [existsb]. rewrite andb_false_r, orb_false_r. reflexivity.
  - intros k. cbn [existsb]. rewrite andb_false_r, orb_false_r. reflexivity.
Qed.

Lemma encode_exprs_step_r es : forall c id w c' w',
  encode_exprs c id es w = POk (c', w') ->
  w' = w && negb (existsb e_incl es) /\ cont_step_r id es false c c'.
Proof.
  induction es as [|e es IH]; intros c id w c' w' H; cbn [encode_exprs] in H.
  - inversion H; subst. rewrite andb_true_r. split; [reflexivity | apply cont_step_r_refl].
  - destruct (rc_encode c id e) as [c1| | | |] eqn:E1; cbn [pbind] in H; try discriminate.
    apply IH in H. destruct H as [-> Hs]. split.
    + cbn [existsb]. rewrite negb_orb, andb_assoc. reflexivity.
    + apply rc_encode_step_r in E1.
      exact (cont_step_r_trans id [e] es false false _ _ _ E1 Hs).
Qed.

Lemma encode_exprs_field_step_r es c id c' w' :
  encode_exprs c id es true = POk (c', w') ->
  cont_step_r id es (negb (existsb e_incl es)) c (if w' then rc_add_wildcard c' id else c').
Proof.
  intros H. apply encode_exprs_step_r in H. destruct H as [-> Hs]. cbn [andb].
  destruct (negb (existsb e_incl es)).
  - pose proof (cont_step_r_trans id es [] false true _ _ _ Hs (rc_add_wildcard_step_r id c')) as Ht.
    rewrite app_nil_r in Ht. exact Ht.
  - exact Hs.
Qed.

(* BUILDER INVARIANT, all fields at once, both container kinds *)
Theorem encode_fields_step_r conts : forall id cj conts',
  encode_fields conts id cj = (conts', POk tt) ->
  Forall2 (fun fc fc' => fst fc' = fst fc /\
             cont_step_r id (field_exprs (fst fc) cj) (negb (existsb e_incl (field_exprs (fst fc) cj)))
                       (snd fc) (snd fc')) conts conts'.
Proof.
  induction conts as [|[f c] rest IH]; intros id cj conts' H; cbn [encode_fields] in H.
  - inversion H. constructor.
  - assert (Hwc : alookup N.eqb f cj = None \/ alookup N.eqb f cj = Some [] ->
                  (let '(rest', r) := encode_fields rest id cj in ((f, rc_add_wildcard c id) :: rest', r)) = (conts', POk tt) ->
                  Forall2 (fun fc fc' => fst fc' = fst fc /\
                     cont_step_r id (field_exprs (fst fc) cj) (negb (existsb e_incl (field_exprs (fst fc) cj)))
                       (snd fc) (snd fc')) ((f, c) :: rest) conts').
    { intros Hl H'. destruct (encode_fields rest id cj) as [rest' r] eqn:Er. inversion H'; subst.
      constructor; [|apply IH; exact Er]. cbn [fst snd]. split; [reflexivity|].
      unfold field_exprs. destruct Hl as [-> | ->]; apply rc_add_wildcard_step_r. }
    destruct (alookup N.eqb f cj) as [[|e es]|] eqn:El; [apply Hwc; auto; exact H| |apply Hwc; auto; exact H].
    clear Hwc. destruct (encode_exprs c id (e :: es) true) as [[c' w]| | | |] eqn:Ee; try (inversion H; fail).
    destruct (encode_fields rest id cj) as [rest' r] eqn:Er. inversion H; subst.
    constructor; [|apply IH; exact Er]. cbn [fst snd]. split; [reflexivity|].
    unfold field_exprs. rewrite El. apply encode_exprs_field_step_r. exact Ee.
Qed.

(* ---- the database represented by a builder, both container kinds ---- *)
Definition cont_repr_r (f : fname) (c : rcontainer) (d : db) : Prop :=
  match c with
  | RCDefault _ _ _ _ => cont_repr f c d
  | RCAc wc inc exc =>
    (forall x, bm_mem x wc = db_any d x (fun cj => negb (existsb e_incl (field_exprs f cj)))) /\
    (forall x k, ent_mem inc x k = db_any d x (fun cj => existsb (kinc_hit k) (field_exprs f cj))) /\
    (forall x k, ent_mem exc x k = db_any d x (fun cj => existsb (kexc_hit k) (field_exprs f cj)))
  end.

Definition conts_repr_r (conts : list (fname * rcontainer)) (d : db) : Prop :=
  Forall (fun fc => cont_repr_r (fst fc) (snd fc) d) conts.

Lemma cont_repr_r_step f c c' d id cj :
  cont_repr_r f c d ->
  cont_step_r id (field_exprs f cj) (negb (existsb e_incl (field_exprs f cj))) c c' ->
  cont_repr_r f c' ((id, cj) :: d).
Proof.
  destruct c as [p wc inc exc|wc inc exc]; cbn [cont_repr_r cont_step_r].
  - intros R S. pose proof S as S'. cbn [cont_step] in S'. destruct S' as (wc' & inc' & exc' & -> & _).
    cbn [cont_repr_r]. eapply cont_repr_step; eassumption.
  - intros (Rw & Ri & Re) (wc' & inc' & exc' & -> & Hw & Hi & He). cbn [cont_repr_r].
    unfold db_any in *. cbn [existsb fst snd]. split; [|split]; intros x.
    + rewrite Hw, Rw. apply orb_comm.
    + intros k. rewrite Hi, Ri. apply orb_comm.
    + intros k. rewrite He, Re. apply orb_comm.
Qed.

Theorem encode_fields_repr_r conts id cj conts' d :
  conts_repr_r conts d -> encode_fields conts id cj = (conts', POk tt) -> conts_repr_r conts' ((id, cj) :: d).
Proof.
  intros R H. apply encode_fields_step_r in H. unfold conts_repr_r in *.
  induction H as [|[f c] [f' c'] l l' [Hf Hs] _ IH]; [constructor|].
  cbn [fst snd] in Hf, Hs. subst f'. inversion R; subst. constructor; [|apply IH; assumption].
  cbn [fst snd] in *. eapply cont_repr_r_step; eassumption.
Qed.

(* freshly configured containers (either kind) represent the empty database *)
Definition all_new_r (conts : list (fname * rcontainer)) : Prop :=
  Forall (fun fc => exists k p, snd fc = new_rcontainer k p) conts.

Lemma all_new_all_new_r conts : all_new conts -> all_new_r conts.
Proof. apply Forall_impl. intros fc [p H]. exists RDefault, p. exact H. Qed.

Lemma all_new_r_repr conts : all_new_r conts -> conts_repr_r conts [].
Proof.
  unfold all_new_r, conts_repr_r. apply Forall_impl. intros [f c] (k & p & ->). destruct k; cbn; repeat split.
Qed.

Lemma rb_configure_new_r b f k p : all_new_r (rb_conts b) -> all_new_r (rb_conts (rb_configure b f k p)).
Proof.
  unfold all_new_r. cbn [rb_configure rb_conts]. induction 1 as [|[f0 c0] l H0 Hl IH]; cbn [aupdate].
  - constructor; [|constructor]. exists k, p. reflexivity.
  - destruct (f =? f0); constructor; auto. exists k, p. reflexivity.
Qed.

Lemma new_rbuilder_new_r : all_new_r (rb_conts new_rbuilder).
Proof. constructor. Qed.

(* ---- AddDocument(s) ---- *)
Lemma radd_conjs_repr_r ics : forall b d b' dbs,
  radd_conjs b d ics = (b', AddOk) -> conts_repr_r (rb_conts b) dbs ->
  conts_repr_r (rb_conts b') (rev (conj_entries d ics) ++ dbs).
Proof.
  induction ics as [|[i cj] rest IH]; intros b d b' dbs H R; cbn [radd_conjs conj_entries] in *.
  - inversion H; subst. exact R.
  - destruct (IdsGen.NewConjunctionID i d) as [id|]; [|inversion H].
    match type of H with (if ?g then _ else _) = _ => destruct g end; [inversion H|].
    destruct (encode_fields (rb_conts b) id cj) as [conts' r] eqn:Ee.
    destruct r as [[]| | | |]; try (inversion H; fail).
    apply IH with (dbs := (id, cj) :: dbs) in H.
    + cbn [rev]. rewrite <- app_assoc. exact H.
    + cbn [rb_conts]. eapply encode_fields_repr_r; eassumption.
Qed.

Lemma radd_document_repr_r b d b' dbs :
  radd_document b d = (b', AddOk) -> conts_repr_r (rb_conts b) dbs ->
  conts_repr_r (rb_conts b') (rev (doc_entries d) ++ dbs).
Proof.
  unfold radd_document, doc_entries. intros H R. destruct (d_conjs d) as [|cj0 cjs] eqn:Ed; [inversion H|].
  rewrite <- Ed in *. clear Ed.
  destruct (radd_conjs b (d_id d) (indexed_from 0%Z (d_conjs d))) as [b1 o] eqn:Ea.
  destruct o; inversion H; subst. cbn [rb_conts]. eapply radd_conjs_repr_r; eassumption.
Qed.

Theorem radd_documents_repr_r ds : forall b b' os dbs,
  radd_documents b ds = (b', os) -> Forall (eq AddOk) os -> conts_repr_r (rb_conts b) dbs ->
  conts_repr_r (rb_conts b') (docs_db ds dbs).
Proof.
  induction ds as [|d ds IH]; intros b b' os dbs H Hok R; cbn [radd_documents docs_db fold_left] in *.
  - inversion H; subst. exact R.
  - destruct (radd_document b d) as [b1 o] eqn:E1. destruct (radd_documents b1 ds) as [b2 os'] eqn:E2.
    inversion H; subst. inversion Hok; subst. eapply IH; [exact E2 | assumption |].
    eapply radd_document_repr_r; eassumption.
Qed.

(* ================================================================== *)
(* 3. satisfaction of a conjunction and the end-to-end theorems        *)
(* ================================================================== *)

(* the expressions es of one field are satisfied, given which expressions are HIT (h):
   some include expression is hit unless there is none, and no exclude expression is hit *)
Definition field_sat_g (h : expr -> bool) (es : list expr) : bool :=
  (negb (existsb e_incl es) || existsb (fun e => e_incl e && h e) es)
  && negb (existsb (fun e => negb (e_incl e) && h e) es).

(* RoaringProof.field_sat is the instance "some parsed value of the expression is an assigned id" *)
Lemma field_sat_field_sat_g p ids es :
  field_sat p ids es = field_sat_g (fun e => existsb (fun v => val_hit p v e) ids) es.
Proof. reflexivity. Qed.

(* HIT RULE of a pattern field: some non-empty keyword of the expression occurs in the query text *)
Definition kw_hit (t : text) (e : expr) : bool := existsb (kw_ok t) (ac_keywords e).

Definition conj_sat_field_r (q : assignment) (cj : conj) (fc : fname * rcontainer) : bool :=
  match snd fc with
  | RCDefault p _ _ _ =>
    match rc_query_ids p (field_val q (fst fc)) with
    | POk ids => field_sat p ids (field_exprs (fst fc) cj)
    | _ => false
    end
  | RCAc _ _ _ =>
    match rc_query_text (field_val q (fst fc)) with
    | POk t => field_sat_g (kw_hit t) (field_exprs (fst fc) cj)
    | _ => false
    end
  end.

(* for every configured field: no exclude expression hit, and if there are include expressions one is hit *)
Definition conj_sat_r (q : assignment) (cj : conj) (conts : list (fname * rcontainer)) : bool :=
  forallb (conj_sat_field_r q cj) conts.

Lemma conj_sat_field_r_default q cj f p wc inc exc :
  conj_sat_field_r q cj (f, RCDefault p wc inc exc) = conj_sat_field q cj (f, RCDefault p wc inc exc).
Proof. reflexivity. Qed.

(* on default-only builders conj_sat_r is RoaringProof's forallb conj_sat_field *)
Lemma conj_sat_r_default q cj conts :
  Forall (fun fc => match snd fc with RCDefault _ _ _ _ => True | RCAc _ _ _ => False end) conts ->
  conj_sat_r q cj conts = forallb (conj_sat_field q cj) conts.
Proof.
  unfold conj_sat_r. induction 1 as [|[f c] l H _ IH]; cbn [forallb]; [reflexivity|].
  rewrite IH. destruct c; [reflexivity|destruct H].
Qed.

Lemma kw_swap (g : text -> bool) (sel : expr -> bool) es :
  (exists k, g k = true /\ existsb (fun e => sel e && existsb (text_eqb k) (ac_keywords e)) es = true) <->
  existsb (fun e => sel e && existsb g (ac_keywords e)) es = true.
Proof.
  split.
  - intros (k & Hg & H). apply existsb_exists in H. destruct H as (e & Hin & H).
    apply andb_prop in H. destruct H as [Hs H]. apply existsb_exists in H. destruct H as (k' & Hk' & E).
    destruct (text_eqb_spec k k'); [|discriminate]. subst k'.
    apply existsb_exists. exists e. split; [exact Hin|]. rewrite Hs. cbn [andb].
    apply existsb_exists. exists k. auto.
  - intros H. apply existsb_exists in H. destruct H as (e & Hin & H).
    apply andb_prop in H. destruct H as [Hs H]. apply existsb_exists in H. destruct H as (k & Hk & Hg).
    exists k. split; [exact Hg|]. apply existsb_exists. exists e. split; [exact Hin|]. rewrite Hs. cbn [andb].
    apply existsb_exists. exists k. split; [exact Hk|apply text_eqb_refl].
Qed.

Lemma field_mem_repr_r q x f c d cj :
  cont_repr_r f c d -> db_unique d x cj -> field_mem q x (f, c) = conj_sat_field_r q cj (f, c).
Proof.
  destruct c as [p wc inc exc|wc inc exc]; cbn [cont_repr_r].
  - intros R U. exact (field_mem_repr q x f _ d cj R U).
  - intros (Rw & Ri & Re) U. unfold field_mem, conj_sat_field_r. cbn [fst snd].
    rewrite rc_retrieve_ac_eq. destruct (rc_query_text (field_val q f)) as [t| | | |]; cbn [pbind]; try reflexivity.
    rewrite ac_result_mem. unfold field_sat_g. rewrite Rw, (db_any_unique _ _ _ _ U).
    f_equal; [f_equal|f_equal].
    + apply eq_iff_eq_true. rewrite existsb_ent. unfold kw_hit. rewrite <- (kw_swap (kw_ok t) e_incl).
      split; intros (k & Hk & H); exists k; (split; [exact Hk|]).
      * rewrite Ri, (db_any_unique _ _ _ _ U) in H. exact H.
      * rewrite Ri, (db_any_unique _ _ _ _ U). exact H.
    + apply eq_iff_eq_true. rewrite existsb_ent. unfold kw_hit. rewrite <- (kw_swap (kw_ok t) (fun e => negb (e_incl e))).
      split; intros (k & Hk & H); exists k; (split; [exact Hk|]).
      * rewrite Re, (db_any_unique _ _ _ _ U) in H. exact H.
      * rewrite Re, (db_any_unique _ _ _ _ U). exact H.
Qed.

Lemma field_mem_absent_r q x f c d :
  cont_repr_r f c d -> ~ In x (map fst d) -> field_mem q x (f, c) = false.
Proof.
  destruct c as [p wc inc exc|wc inc exc]; cbn [cont_repr_r].
  - intros R U. exact (field_mem_absent q x f _ d R U).
  - intros (Rw & Ri & Re) U. unfold field_mem. cbn [fst snd].
    rewrite rc_retrieve_ac_eq. destruct (rc_query_text (field_val q f)) as [t| | | |]; cbn [pbind]; try reflexivity.
    rewrite ac_result_mem, Rw, db_any_absent by exact U.
    replace (existsb (fun kb => kw_ok t (fst kb) && bm_mem x (snd kb)) inc) with false; [reflexivity|].
    symmetry. match goal with |- ?b = false => destruct b eqn:E end; [|reflexivity].
    apply existsb_ent in E. destruct E as (k & _ & H). rewrite Ri, db_any_absent in H by exact U. discriminate.
Qed.

Lemma all_in_repr_r conts d q x cj :
  conts_repr_r conts d -> db_unique d x cj -> all_in q x conts = conj_sat_r q cj conts.
Proof.
  intros R U. unfold all_in, conj_sat_r.
  induction R as [|[f c] l Rc Rl IH]; cbn [forallb]; [reflexivity|].
  cbn [fst snd] in Rc. rewrite (field_mem_repr_r _ _ _ _ _ _ Rc U), IH. reflexivity.
Qed.

Lemma all_in_absent_r conts d q x :
  conts <> [] -> conts_repr_r conts d -> ~ In x (map fst d) -> all_in q x conts = false.
Proof.
  intros Hne R U. destruct conts as [|[f c] rest]; [congruence|]. unfold all_in. cbn [forallb].
  inversion R as [|? ? Rc Rl]; subst. cbn [fst snd] in Rc. rewrite (field_mem_absent_r _ _ _ _ _ Rc U). reflexivity.
Qed.

(* END TO END against a represented database *)
Theorem roaring_end_to_end_r conts d q s x cj :
  conts <> [] -> conts_repr_r conts d -> db_unique d x cj ->
  sc_retrieve conts q fresh_scanner = POk s ->
  bm_mem x (sc_res s) = conj_sat_r q cj conts.
Proof.
  intros Hne R U H. rewrite (sc_retrieve_fresh _ _ _ Hne H). eapply all_in_repr_r; eassumption.
Qed.

Theorem roaring_unknown_id_r conts d q s x :
  conts_repr_r conts d -> ~ In x (map fst d) ->
  sc_retrieve conts q fresh_scanner = POk s -> bm_mem x (sc_res s) = false.
Proof.
  intros R U H. destruct conts as [|fc rest].
  - cbn in H. inversion H. reflexivity.
  - assert (fc :: rest <> []) as Hne by discriminate.
    rewrite (sc_retrieve_fresh _ _ _ Hne H). eapply all_in_absent_r; eassumption.
Qed.

Lemma conts_nonempty b0 ds b os :
  rb_conts b0 <> [] -> radd_documents b0 ds = (b, os) -> rb_conts b <> [].
Proof.
  intros Hne Ha. pose proof (radd_documents_keys ds b0) as Hkeys. rewrite Ha in Hkeys. cbn [fst] in Hkeys.
  intros E. rewrite E in Hkeys. destruct (rb_conts b0); [congruence | discriminate].
Qed.

(* FULL END TO END, raw result.  Fields with the default or the pattern container, at least one
   field, documents with distinct ids, all accepted.  The id of the k-th conjunction of document d
   is in the raw result of a fresh scanner iff the assignment satisfies that conjunction on every
   configured field. *)
Theorem roaring_index_correct_r b0 ds b os q s d k cj x :
  all_new_r (rb_conts b0) -> rb_conts b0 <> [] ->
  radd_documents b0 ds = (b, os) -> Forall (eq AddOk) os ->
  NoDup (map d_id ds) -> In d ds -> nth_error (d_conjs d) k = Some cj ->
  IdsGen.NewConjunctionID (Z.of_nat k) (d_id d) = Some x ->
  sc_retrieve (rb_conts b) q fresh_scanner = POk s ->
  bm_mem x (sc_res s) = conj_sat_r q cj (rb_conts b).
Proof.
  intros Hn Hne Ha Hok Hnd Hd Hk Hx H.
  pose proof (radd_documents_repr_r ds _ _ _ _ Ha Hok (all_new_r_repr _ Hn)) as R.
  eapply roaring_end_to_end_r; try eassumption.
  - eapply conts_nonempty; eassumption.
  - eapply docs_db_unique; eassumption.
Qed.

Lemma docs_db_known ds x : In x (map fst (docs_db ds [])) ->
  exists d cj i, In d ds /\ In (i, cj) (indexed_from 0%Z (d_conjs d)) /\ IdsGen.NewConjunctionID i (d_id d) = Some x.
Proof.
  intros Hin. rewrite docs_db_flat, app_nil_r in Hin. apply in_map_iff in Hin. destruct Hin as [[x' cj] [Hf Hin]].
  cbn [fst] in Hf. subst x'. apply in_rev in Hin. apply in_flat_map in Hin. destruct Hin as [d [Hd Hin]].
  apply conj_entries_In in Hin. destruct Hin as [i [Hi E]]. exists d, cj, i. auto.
Qed.

(* and nothing else: an id that no accepted document produced is never returned *)
Theorem roaring_index_sound_r b0 ds b os q s x :
  all_new_r (rb_conts b0) -> radd_documents b0 ds = (b, os) -> Forall (eq AddOk) os ->
  sc_retrieve (rb_conts b) q fresh_scanner = POk s -> bm_mem x (sc_res s) = true ->
  exists d cj i, In d ds /\ In (i, cj) (indexed_from 0%Z (d_conjs d)) /\ IdsGen.NewConjunctionID i (d_id d) = Some x.
Proof.
  intros Hn Ha Hok H Hx.
  pose proof (radd_documents_repr_r ds _ _ _ _ Ha Hok (all_new_r_repr _ Hn)) as R.
  destruct (in_dec N.eq_dec x (map fst (docs_db ds []))) as [Hin|Hnin].
  - apply docs_db_known. exact Hin.
  - rewrite (roaring_unknown_id_r _ _ _ _ _ R Hnin H) in Hx. discriminate.
Qed.

(* ---- hinted ---- *)
(* a scanner primed with hint documents: the hinted conjunction ids that are satisfied *)
Theorem roaring_index_hinted_r b0 ds b os q hs s0 s d k cj x :
  all_new_r (rb_conts b0) ->
  radd_documents b0 ds = (b, os) -> Forall (eq AddOk) os ->
  NoDup (map d_id ds) -> In d ds -> nth_error (d_conjs d) k = Some cj ->
  IdsGen.NewConjunctionID (Z.of_nat k) (d_id d) = Some x ->
  sc_with_hint (rb_maxconj b) fresh_scanner hs = Some s0 ->
  sc_retrieve (rb_conts b) q s0 = POk s ->
  bm_mem x (sc_res s) = bm_mem x (hint_ids (rb_maxconj b) hs) && conj_sat_r q cj (rb_conts b).
Proof.
  intros Hn Ha Hok Hnd Hd Hk Hx Hh H.
  pose proof (radd_documents_repr_r ds _ _ _ _ Ha Hok (all_new_r_repr _ Hn)) as R.
  rewrite (sc_retrieve_hinted _ _ _ _ _ _ Hh H). f_equal.
  eapply all_in_repr_r; [exact R|]. eapply docs_db_unique; eassumption.
Qed.

(* hinted soundness (needs a configured field: with none the hint ids themselves come back) *)
Theorem roaring_index_hinted_sound_r b0 ds b os q hs s0 s x :
  all_new_r (rb_conts b0) -> rb_conts b0 <> [] ->
  radd_documents b0 ds = (b, os) -> Forall (eq AddOk) os ->
  sc_with_hint (rb_maxconj b) fresh_scanner hs = Some s0 ->
  sc_retrieve (rb_conts b) q s0 = POk s -> bm_mem x (sc_res s) = true ->
  bm_mem x (hint_ids (rb_maxconj b) hs) = true /\
  exists d cj i, In d ds /\ In (i, cj) (indexed_from 0%Z (d_conjs d)) /\ IdsGen.NewConjunctionID i (d_id d) = Some x.
Proof.
  intros Hn Hne Ha Hok Hh H Hx.
  pose proof (radd_documents_repr_r ds _ _ _ _ Ha Hok (all_new_r_repr _ Hn)) as R.
  rewrite (sc_retrieve_hinted _ _ _ _ _ _ Hh H) in Hx. apply andb_prop in Hx. destruct Hx as [Hx1 Hx2].
  split; [exact Hx1|].
  destruct (in_dec N.eq_dec x (map fst (docs_db ds []))) as [Hin|Hnin].
  - apply docs_db_known. exact Hin.
  - rewrite (all_in_absent_r _ _ q x (conts_nonempty _ _ _ _ Hne Ha) R Hnin) in Hx2. discriminate.
Qed.

(* ================================================================== *)
(* 4. what acceptance tells about the documents                        *)
(* ================================================================== *)

Lemma alookup_keys {V} f (m : list (fname * V)) v : alookup N.eqb f m = Some v -> In f (map fst m).
Proof.
  induction m as [|[g w] m IH]; cbn [alookup map fst]; [discriminate|].
  destruct (N.eqb_spec f g) as [->|]; [left; reflexivity|]. intros H. right. apply IH. exact H.
Qed.

Lemma radd_conjs_accepted ics : forall b d b', radd_conjs b d ics = (b', AddOk) ->
  rb_maxconj b' = rb_maxconj b /\
  forall i cj, In (i, cj) ics ->
    (exists id, IdsGen.NewConjunctionID i d = Some id) /\
    (forall f es, In (f, es) cj -> In f (map fst (rb_conts b))).
Proof.
  induction ics as [|[i cj] rest IH]; intros b d b' H; cbn [radd_conjs] in H.
  - inversion H; subst. split; [reflexivity|]. intros i cj [].
  - destruct (IdsGen.NewConjunctionID i d) as [id|] eqn:Eid; [|inversion H].
    match type of H with (if negb ?g then _ else _) = _ => destruct g eqn:Ef end; cbn [negb] in H; [|inversion H].
    pose proof (encode_fields_keys (rb_conts b) id cj) as Hk.
    destruct (encode_fields (rb_conts b) id cj) as [conts' r] eqn:Ee. cbn [fst] in Hk.
    destruct r as [[]| | | |]; try (inversion H; fail).
    apply IH in H. cbn [rb_maxconj rb_conts] in H. destruct H as [Hm Hall]. split; [exact Hm|].
    intros i' cj' [E|Hin].
    + inversion E; subst i' cj'. split; [exists id; exact Eid|]. intros f es Hfe.
      rewrite forallb_forall in Ef. specialize (Ef (f, es) Hfe). cbn [fst] in Ef.
      destruct (alookup N.eqb f (rb_conts b)) eqn:El; [|discriminate]. eapply alookup_keys; exact El.
    + destruct (Hall i' cj' Hin) as [H1 H2]. split; [exact H1|]. intros f es Hfe. rewrite <- Hk. eapply H2; exact Hfe.
Qed.

Lemma indexed_from_nth' {A} (l : list A) : forall n k x, nth_error l k = Some x ->
  In ((n + Z.of_nat k)%Z, x) (indexed_from n l).
Proof.
  induction l as [|y l IH]; intros n k x H; destruct k as [|k]; cbn [nth_error] in H; try discriminate.
  - inversion H; subst. cbn [indexed_from]. left. f_equal. lia.
  - cbn [indexed_from]. right. replace (n + Z.of_nat (S k))%Z with ((n + 1) + Z.of_nat k)%Z by lia. apply IH. exact H.
Qed.

Lemma indexed_from_in' {A} : forall (l : list A) n i x,
  In (i, x) (indexed_from n l) -> (n <= i)%Z /\ nth_error l (Z.to_nat (i - n)) = Some x.
Proof.
  induction l as [|y l IH]; intros n i x; cbn [indexed_from]; [intros []|].
  intros [E|H].
  - inversion E; subst. rewrite Z.sub_diag. split; [lia|reflexivity].
  - apply IH in H. destruct H as [Hle Hn]. split; [lia|].
    replace (Z.to_nat (i - n)) with (S (Z.to_nat (i - (n + 1)))) by lia. exact Hn.
Qed.

Lemma radd_document_accepted b d b' : radd_document b d = (b', AddOk) ->
  (Z.of_nat (length (d_conjs d)) <= rb_maxconj b')%Z /\ (rb_maxconj b <= rb_maxconj b')%Z /\
  forall k cj, nth_error (d_conjs d) k = Some cj ->
    (exists id, IdsGen.NewConjunctionID (Z.of_nat k) (d_id d) = Some id) /\
    (forall f es, In (f, es) cj -> In f (map fst (rb_conts b))).
Proof.
  unfold radd_document. intros H. destruct (d_conjs d) as [|cj0 cjs] eqn:Ed; [inversion H|].
  rewrite <- Ed in *. clear Ed.
  destruct (radd_conjs b (d_id d) (indexed_from 0%Z (d_conjs d))) as [b1 o] eqn:Ea.
  destruct o; inversion H; subst. cbn [rb_maxconj]. clear H.
  apply radd_conjs_accepted in Ea. destruct Ea as [Hm Hall]. rewrite Hm.
  split; [lia|]. split; [lia|]. intros k cj Hk. apply (Hall (Z.of_nat k) cj).
  apply (indexed_from_nth' _ 0%Z) in Hk. exact Hk.
Qed.

Theorem radd_documents_accepted ds : forall b b' os,
  radd_documents b ds = (b', os) -> Forall (eq AddOk) os ->
  (rb_maxconj b <= rb_maxconj b')%Z /\
  forall d, In d ds ->
    (Z.of_nat (length (d_conjs d)) <= rb_maxconj b')%Z /\
    forall k cj, nth_error (d_conjs d) k = Some cj ->
      (exists id, IdsGen.NewConjunctionID (Z.of_nat k) (d_id d) = Some id) /\
      (forall f es, In (f, es) cj -> In f (map fst (rb_conts b))).
Proof.
  induction ds as [|d ds IH]; intros b b' os H Hok; cbn [radd_documents] in H.
  - inversion H; subst. split; [lia|]. intros d [].
  - destruct (radd_document b d) as [b1 o] eqn:E1. destruct (radd_documents b1 ds) as [b2 os'] eqn:E2.
    inversion H; subst. inversion Hok as [|? ? Ho Hos]; subst.
    pose proof (radd_document_keys b d) as Hk. rewrite E1 in Hk. cbn [fst] in Hk.
    apply radd_document_accepted in E1. destruct E1 as (L1 & M1 & A1).
    destruct (IH _ _ _ E2 Hos) as [M2 A2]. split; [lia|].
    intros d' [<-|Hd'].
    + split; [lia|exact A1].
    + destruct (A2 d' Hd') as [L2 A2']. split; [exact L2|]. intros k cj Hn. destruct (A2' k cj Hn) as [X Y].
      split; [exact X|]. intros f es Hfe. rewrite <- Hk. eapply Y; exact Hfe.
Qed.

(* the hint set of an accepted document is exactly "its id was hinted" *)
Lemma hint_ids_doc maxconj hs d k x :
  (Z.of_nat k < maxconj)%Z -> IdsGen.NewConjunctionID (Z.of_nat k) d = Some x ->
  bm_mem x (hint_ids maxconj hs) = existsb (Z.eqb d) hs.
Proof.
  intros Hk Hx. apply eq_iff_eq_true. rewrite bm_mem_In, hint_ids_In, existsb_exists. split.
  - intros (h & i & Hh & Hi & E). destruct (IdsProof.rr_injective _ _ _ _ _ E Hx) as [_ ->].
    exists d. split; [exact Hh|apply Z.eqb_refl].
  - intros (h & Hh & E). apply Z.eqb_eq in E. subst h. exists d, k. split; [exact Hh|]. split; [lia|exact Hx].
Qed.

(* HINTED, readable form: the k-th conjunction of accepted document d is reported by a scanner
   primed with hints hs iff d was hinted and the conjunction is satisfied *)
Theorem roaring_index_hinted_doc_r b0 ds b os q hs s0 s d k cj x :
  all_new_r (rb_conts b0) ->
  radd_documents b0 ds = (b, os) -> Forall (eq AddOk) os ->
  NoDup (map d_id ds) -> In d ds -> nth_error (d_conjs d) k = Some cj ->
  IdsGen.NewConjunctionID (Z.of_nat k) (d_id d) = Some x ->
  sc_with_hint (rb_maxconj b) fresh_scanner hs = Some s0 ->
  sc_retrieve (rb_conts b) q s0 = POk s ->
  bm_mem x (sc_res s) = existsb (Z.eqb (d_id d)) hs && conj_sat_r q cj (rb_conts b).
Proof.
  intros Hn Ha Hok Hnd Hd Hk Hx Hh H.
  rewrite (roaring_index_hinted_r _ _ _ _ _ _ _ _ _ _ _ _ Hn Ha Hok Hnd Hd Hk Hx Hh H). f_equal.
  apply (hint_ids_doc _ _ _ k); [|exact Hx].
  destruct (radd_documents_accepted _ _ _ _ Ha Hok) as [_ Hall]. destruct (Hall d Hd) as [Hl _].
  assert (k < length (d_conjs d))%nat by (apply nth_error_Some; congruence). lia.
Qed.

(* ================================================================== *)
(* 5. the documents result                                             *)
(* ================================================================== *)

(* uint64(conjID.DocID()) *)
Definition doc_key (d : Z) : N := Z.to_N (wrap_u64 d).

Lemma bm_mem_fold_add_map {A} (g : A -> N) y l : forall a,
  bm_mem y (fold_left (fun acc id => bm_add (g id) acc) l a) = bm_mem y a || existsb (fun id => y =? g id) l.
Proof.
  induction l as [|z l IH]; intros a; cbn [fold_left existsb].
  - rewrite orb_false_r. reflexivity.
  - rewrite IH, bm_mem_add. destruct (y =? g z), (bm_mem y a); reflexivity.
Qed.

Lemma docs_of_raw_mem y raw :
  bm_mem y (docs_of_raw raw) = existsb (fun id => y =? doc_key (IdsGen.ConjunctionID_DocID id)) raw.
Proof. unfold docs_of_raw. rewrite (bm_mem_fold_add_map (fun id => doc_key (IdsGen.ConjunctionID_DocID id))). reflexivity. Qed.

Lemma doc_key_inj a b : (Z.abs a <= 36028797018963967)%Z -> (Z.abs b <= 36028797018963967)%Z ->
  doc_key a = doc_key b -> a = b.
Proof.
  unfold doc_key, wrap_u64, two64. intros Ha Hb H.
  pose proof (Z.div_mod a 18446744073709551616 ltac:(lia)) as Da.
  pose proof (Z.div_mod b 18446744073709551616 ltac:(lia)) as Db.
  pose proof (Z.mod_pos_bound a 18446744073709551616 ltac:(lia)).
  pose proof (Z.mod_pos_bound b 18446744073709551616 ltac:(lia)).
  lia.
Qed.

Lemma conj_id_doc i d x : IdsGen.NewConjunctionID i d = Some x ->
  IdsGen.ConjunctionID_DocID x = d /\ (Z.abs d <= 36028797018963967)%Z.
Proof.
  intros H. destruct (IdsProof.NewConjunctionID_some_inrange _ _ _ H) as [Hd Hi].
  destruct (IdsProof.rr_roundtrip i d Hd Hi) as (c & E & _ & D & _). rewrite H in E. inversion E; subst c.
  split; [exact D|exact Hd].
Qed.

Lemma NoDup_map_eq {A B} (f : A -> B) l x y : NoDup (map f l) -> In x l -> In y l -> f x = f y -> x = y.
Proof.
  induction l as [|a l IH]; cbn [map]; intros Hnd Hx Hy E; [destruct Hx|].
  inversion Hnd as [|? ? Hna Hnd']; subst.
  destruct Hx as [<-|Hx], Hy as [<-|Hy]; try reflexivity.
  - exfalso. apply Hna. rewrite E. apply in_map. exact Hy.
  - exfalso. apply Hna. rewrite <- E. apply in_map. exact Hx.
  - apply IH; assumption.
Qed.

(* from a raw result to the documents result, for any restriction P on documents *)
Section Docs.
  Variables (ds : list doc) (q : assignment) (conts : list (fname * rcontainer)) (raw : bitmap) (P : doc -> bool).
  Hypothesis Hnd : NoDup (map d_id ds).
  Hypothesis Hacc : forall d k cj, In d ds -> nth_error (d_conjs d) k = Some cj ->
    exists id, IdsGen.NewConjunctionID (Z.of_nat k) (d_id d) = Some id.
  Hypothesis Hne : forall d, In d ds -> d_conjs d <> [].
  Hypothesis Hcorrect : forall d k cj x, In d ds -> nth_error (d_conjs d) k = Some cj ->
    IdsGen.NewConjunctionID (Z.of_nat k) (d_id d) = Some x -> bm_mem x raw = P d && conj_sat_r q cj conts.
  Hypothesis Hsound : forall x, bm_mem x raw = true ->
    exists d cj i, In d ds /\ In (i, cj) (indexed_from 0%Z (d_conjs d)) /\ IdsGen.NewConjunctionID i (d_id d) = Some x.

  Lemma doc_id_valid d : In d ds -> (Z.abs (d_id d) <= 36028797018963967)%Z.
  Proof.
    intros Hd. pose proof (Hne d Hd) as Hn. destruct (d_conjs d) as [|c cs] eqn:Ec; [congruence|].
    destruct (Hacc d O c Hd) as [id E]; [rewrite Ec; reflexivity|]. apply conj_id_doc in E. apply E.
  Qed.

  Lemma docs_correct d : In d ds ->
    (bm_mem (doc_key (d_id d)) (docs_of_raw raw) = true <->
     P d = true /\ exists k cj, nth_error (d_conjs d) k = Some cj /\ conj_sat_r q cj conts = true).
  Proof.
    intros Hd. rewrite docs_of_raw_mem, existsb_exists. split.
    - intros (x & Hx & E). apply N.eqb_eq in E. apply bm_mem_In in Hx.
      destruct (Hsound x Hx) as (d' & cj & i & Hd' & Hi & Ex).
      destruct (conj_id_doc _ _ _ Ex) as [D V]. rewrite D in E.
      apply doc_key_inj in E; [|apply doc_id_valid; exact Hd|exact V].
      assert (d = d') by (eapply NoDup_map_eq; eassumption). subst d'.
      apply indexed_from_in' in Hi. destruct Hi as [Hge Hn]. rewrite Z.sub_0_r in Hn.
      rewrite <- (Z2Nat.id i Hge) in Ex.
      rewrite (Hcorrect d _ cj x Hd Hn Ex) in Hx. apply andb_prop in Hx. destruct Hx as [HP Hs].
      split; [exact HP|]. exists (Z.to_nat i), cj. auto.
    - intros (HP & k & cj & Hn & Hs). destruct (Hacc d k cj Hd Hn) as [x Ex].
      exists x. split.
      + apply bm_mem_In. rewrite (Hcorrect d k cj x Hd Hn Ex), HP, Hs. reflexivity.
      + destruct (conj_id_doc _ _ _ Ex) as [D _]. rewrite D. apply N.eqb_refl.
  Qed.

  Lemma docs_sound y : bm_mem y (docs_of_raw raw) = true ->
    exists d, In d ds /\ y = doc_key (d_id d) /\ P d = true /\
              exists k cj, nth_error (d_conjs d) k = Some cj /\ conj_sat_r q cj conts = true.
  Proof.
    intros H. pose proof H as H'. rewrite docs_of_raw_mem, existsb_exists in H'. destruct H' as (x & Hx & E).
    apply N.eqb_eq in E. apply bm_mem_In in Hx.
    destruct (Hsound x Hx) as (d & cj & i & Hd & Hi & Ex). destruct (conj_id_doc _ _ _ Ex) as [D _]. rewrite D in E.
    exists d. split; [exact Hd|]. split; [exact E|]. apply (docs_correct d Hd). rewrite <- E. exact H.
  Qed.
End Docs.

Lemma accepted_nonempty ds : forall b b' os, radd_documents b ds = (b', os) -> Forall (eq AddOk) os ->
  forall d, In d ds -> d_conjs d <> [].
Proof.
  induction ds as [|d ds IH]; intros b b' os H Hok d' Hd'; [destruct Hd'|]. cbn [radd_documents] in H.
  destruct (radd_document b d) as [b1 o] eqn:E1. destruct (radd_documents b1 ds) as [b2 os'] eqn:E2.
  inversion H; subst. inversion Hok as [|? ? Ho Hos]; subst. destruct Hd' as [<-|Hd'].
  - unfold radd_document in E1. intros E. rewrite E in E1. inversion E1.
  - eapply IH; eassumption.
Qed.

(* DOCUMENTS, unhinted: Retrieve reports accepted document d iff one of its conjunctions is satisfied,
   and reports nothing but accepted documents *)
Theorem roaring_docs_correct_r b0 ds b os q s :
  all_new_r (rb_conts b0) -> rb_conts b0 <> [] ->
  radd_documents b0 ds = (b, os) -> Forall (eq AddOk) os -> NoDup (map d_id ds) ->
  sc_retrieve (rb_conts b) q fresh_scanner = POk s ->
  (forall d, In d ds ->
     (bm_mem (doc_key (d_id d)) (docs_of_raw (sc_res s)) = true <->
      exists k cj, nth_error (d_conjs d) k = Some cj /\ conj_sat_r q cj (rb_conts b) = true)) /\
  (forall y, bm_mem y (docs_of_raw (sc_res s)) = true -> exists d, In d ds /\ y = doc_key (d_id d)).
Proof.
  intros Hn Hne Ha Hok Hnd H.
  destruct (radd_documents_accepted _ _ _ _ Ha Hok) as [_ Hall].
  assert (Hacc : forall d k cj, In d ds -> nth_error (d_conjs d) k = Some cj ->
            exists id, IdsGen.NewConjunctionID (Z.of_nat k) (d_id d) = Some id).
  { intros d k cj Hd Hk. apply (proj2 (Hall d Hd) k cj Hk). }
  pose proof (accepted_nonempty _ _ _ _ Ha Hok) as Hnn.
  assert (Hc : forall d k cj x, In d ds -> nth_error (d_conjs d) k = Some cj ->
            IdsGen.NewConjunctionID (Z.of_nat k) (d_id d) = Some x ->
            bm_mem x (sc_res s) = (fun _ => true) d && conj_sat_r q cj (rb_conts b)).
  { intros d k cj x Hd Hk Hx. cbn [andb]. eapply roaring_index_correct_r; eassumption. }
  assert (Hs : forall x, bm_mem x (sc_res s) = true ->
            exists d cj i, In d ds /\ In (i, cj) (indexed_from 0%Z (d_conjs d)) /\ IdsGen.NewConjunctionID i (d_id d) = Some x).
  { intros x Hx. eapply roaring_index_sound_r; eassumption. }
  split.
  - intros d Hd. rewrite (docs_correct ds q (rb_conts b) (sc_res s) (fun _ => true) Hnd Hacc Hnn Hc Hs d Hd). tauto.
  - intros y Hy. destruct (docs_sound ds q (rb_conts b) (sc_res s) (fun _ => true) Hnd Hacc Hnn Hc Hs y Hy) as (d & Hd & E & _).
    exists d. auto.
Qed.

(* DOCUMENTS, hinted: ... iff d was hinted and one of its conjunctions is satisfied *)
Theorem roaring_docs_hinted_r b0 ds b os q hs s0 s :
  all_new_r (rb_conts b0) -> rb_conts b0 <> [] ->
  radd_documents b0 ds = (b, os) -> Forall (eq AddOk) os -> NoDup (map d_id ds) ->
  sc_with_hint (rb_maxconj b) fresh_scanner hs = Some s0 ->
  sc_retrieve (rb_conts b) q s0 = POk s ->
  (forall d, In d ds ->
     (bm_mem (doc_key (d_id d)) (docs_of_raw (sc_res s)) = true <->
      In (d_id d) hs /\ exists k cj, nth_error (d_conjs d) k = Some cj /\ conj_sat_r q cj (rb_conts b) = true)) /\
  (forall y, bm_mem y (docs_of_raw (sc_res s)) = true -> exists d, In d ds /\ In (d_id d) hs /\ y = doc_key (d_id d)).
Proof.
  intros Hn Hne Ha Hok Hnd Hh H.
  destruct (radd_documents_accepted _ _ _ _ Ha Hok) as [_ Hall].
  assert (Hacc : forall d k cj, In d ds -> nth_error (d_conjs d) k = Some cj ->
            exists id, IdsGen.NewConjunctionID (Z.of_nat k) (d_id d) = Some id).
  { intros d k cj Hd Hk. apply (proj2 (Hall d Hd) k cj Hk). }
  pose proof (accepted_nonempty _ _ _ _ Ha Hok) as Hnn.
  assert (Hc : forall d k cj x, In d ds -> nth_error (d_conjs d) k = Some cj ->
            IdsGen.NewConjunctionID (Z.of_nat k) (d_id d) = Some x ->
            bm_mem x (sc_res s) = (fun d => existsb (Z.eqb (d_id d)) hs) d && conj_sat_r q cj (rb_conts b)).
  { intros d k cj x Hd Hk Hx. eapply roaring_index_hinted_doc_r; eassumption. }
  assert (Hs : forall x, bm_mem x (sc_res s) = true ->
            exists d cj i, In d ds /\ In (i, cj) (indexed_from 0%Z (d_conjs d)) /\ IdsGen.NewConjunctionID i (d_id d) = Some x).
  { intros x Hx. eapply roaring_index_hinted_sound_r; eassumption. }
  assert (HP : forall d, existsb (Z.eqb (d_id d)) hs = true <-> In (d_id d) hs).
  { intros d. rewrite existsb_exists. split.
    - intros (h & Hin & E). apply Z.eqb_eq in E. subst h. exact Hin.
    - intros Hin. exists (d_id d). split; [exact Hin|apply Z.eqb_refl]. }
  split.
  - intros d Hd. rewrite (docs_correct ds q (rb_conts b) (sc_res s) _ Hnd Hacc Hnn Hc Hs d Hd), HP. reflexivity.
  - intros y Hy. destruct (docs_sound ds q (rb_conts b) (sc_res s) _ Hnd Hacc Hnn Hc Hs y Hy) as (d & Hd & E & Hp & _).
    exists d. rewrite <- HP. auto.
Qed.

(* ================================================================== *)
(* 6. readable forms, totality, configuration                          *)
(* ================================================================== *)

Lemma field_sat_g_iff h es :
  field_sat_g h es = true <->
  ((forall e, In e es -> e_incl e = false) \/ exists e, In e es /\ e_incl e = true /\ h e = true) /\
  (forall e, In e es -> e_incl e = false -> h e = false).
Proof.
  unfold field_sat_g. rewrite andb_true_iff, orb_true_iff, !negb_true_iff. split.
  - intros [Hi He]. split.
    + destruct Hi as [Hi|Hi]; [left|right].
      * intros e Hin. destruct (e_incl e) eqn:E; [|reflexivity].
        assert (existsb e_incl es = true) by (apply existsb_exists; eauto). congruence.
      * apply existsb_exists in Hi. destruct Hi as [e [Hin Hh]]. apply andb_prop in Hh. destruct Hh as [Hi Hh].
        exists e. auto.
    + intros e Hin Hie. destruct (h e) eqn:E; [|reflexivity].
      assert (existsb (fun e => negb (e_incl e) && h e) es = true); [|congruence].
      apply existsb_exists. exists e. split; [exact Hin|]. rewrite Hie, E. reflexivity.
  - intros [Hi He]. split.
    + destruct Hi as [Hi|(e & Hin & Hie & Hh)]; [left|right].
      * destruct (existsb e_incl es) eqn:E; [|reflexivity]. apply existsb_exists in E. destruct E as [e [Hin E]].
        rewrite (Hi _ Hin) in E. discriminate.
      * apply existsb_exists. exists e. split; [exact Hin|]. rewrite Hie, Hh. reflexivity.
    + match goal with |- ?t = false => destruct t eqn:E end; [|reflexivity].
      apply existsb_exists in E. destruct E as [e [Hin E]]. apply andb_prop in E. destruct E as [Hi' Hh].
      apply negb_true_iff in Hi'. rewrite (He _ Hin Hi') in Hh. discriminate.
Qed.

(* the hit rule of a pattern field, in words: some keyword of the expression is not empty and occurs
   as a contiguous block of the query text *)
Lemma kw_hit_iff t e :
  kw_hit t e = true <-> exists k, In k (ac_keywords e) /\ k <> [] /\ valid_text k = true /\ exists pre post, runes t = pre ++ k ++ post.
Proof.
  unfold kw_hit. rewrite existsb_exists. split.
  - intros (k & Hin & H). exists k. split; [exact Hin|]. unfold kw_ok in H. destruct k as [|c k]; [discriminate|].
    split; [discriminate|]. apply AcProof.kw_found_spec. exact H.
  - intros (k & Hin & Hne & H). exists k. split; [exact Hin|]. unfold kw_ok. destruct k as [|c k]; [congruence|].
    apply AcProof.kw_found_spec. exact H.
Qed.

(* the keywords of an expression, case by case *)
Lemma ac_keywords_nil e : nil_interface (e_val e) = POk true -> ac_keywords e = [].
Proof. unfold ac_keywords. intros ->. reflexivity. Qed.
Lemma ac_keywords_dict e ks : nil_interface (e_val e) = POk false -> ac_parse_dict (e_val e) = POk ks -> ac_keywords e = ks.
Proof. unfold ac_keywords. intros -> ->. reflexivity. Qed.

(* the query text, case by case *)
Lemma rc_query_text_nil v : nil_interface v = POk true -> rc_query_text v = POk [].
Proof. unfold rc_query_text. intros ->. reflexivity. Qed.
Lemma rc_query_text_missing q f : alookup N.eqb f q = None -> rc_query_text (field_val q f) = POk [].
Proof. unfold field_val. intros ->. reflexivity. Qed.
Lemma rc_query_text_str s : rc_query_text (VStr s) = POk s.
Proof. reflexivity. Qed.
Lemma rc_query_text_strs n ss : n = false ->
  rc_query_text (VSlice TSstring n (map VStr ss)) = POk (join_sep [32] ss).
Proof.
  intros ->. unfold rc_query_text. cbn [nil_interface type_of pbind].
  change (kind_in sw_NilInterface KSlice (kind_of TSstring)) with true. cbv iota.
  unfold reflect_is_nil. cbn [type_of kind_of is_nil_value pbind]. unfold ac_query_text. cbn [type_of].
  change (ty_in sw_BuildAcMatchContent Tstring TSstring) with false.
  change (ty_in sw_BuildAcMatchContent TSstring TSstring) with true. cbv iota.
  assert (E : pmap_list (fun e => match e with VStr s => POk s | _ => PUnmodelled end) (map VStr ss) = POk ss).
  { induction ss as [|s ss IH]; cbn [map pmap_list pbind]; [reflexivity|]. rewrite IH. reflexivity. }
  rewrite E. reflexivity.
Qed.

(* a pattern field whose query value is nil / missing / the empty text: only the wildcard set, i.e.
   satisfied iff the conjunction has NO include expression on the field; excludes are not hit *)
Lemma kw_hit_nil e : kw_hit [] e = false.
Proof. unfold kw_hit. induction (ac_keywords e) as [|k l IH]; cbn [existsb]; [reflexivity|]. rewrite kw_ok_nil, IH. reflexivity. Qed.

Lemma field_sat_g_no_text es : field_sat_g (kw_hit []) es = negb (existsb e_incl es).
Proof.
  unfold field_sat_g.
  replace (existsb (fun e => e_incl e && kw_hit [] e) es) with false.
  - replace (existsb (fun e => negb (e_incl e) && kw_hit [] e) es) with false; [rewrite orb_false_r, andb_true_r; reflexivity|].
    symmetry. induction es as [|e es IH]; cbn [existsb]; [reflexivity|]. rewrite kw_hit_nil, andb_false_r, IH. reflexivity.
  - symmetry. induction es as [|e es IH]; cbn [existsb]; [reflexivity|]. rewrite kw_hit_nil, andb_false_r, IH. reflexivity.
Qed.

(* totality: retrieval succeeds when every configured field accepts its assigned value *)
Definition query_ok (q : assignment) (fc : fname * rcontainer) : Prop :=
  match snd fc with
  | RCDefault p _ _ _ => exists ids, rc_query_ids p (field_val q (fst fc)) = POk ids
  | RCAc _ _ _ => exists t, rc_query_text (field_val q (fst fc)) = POk t
  end.

Lemma query_ok_fields_ok q conts : Forall (query_ok q) conts -> fields_ok q conts.
Proof.
  unfold fields_ok. apply Forall_impl. intros [f c]. unfold query_ok. cbn [fst snd].
  destruct c as [p wc inc exc|wc inc exc].
  - intros [ids H]. rewrite rc_retrieve_default_eq, H. eexists; reflexivity.
  - intros [t H]. rewrite rc_retrieve_ac_eq, H. eexists; reflexivity.
Qed.

Corollary sc_retrieve_total_r q conts s0 : Forall (query_ok q) conts -> exists s, sc_retrieve conts q s0 = POk s.
Proof. intros H. apply sc_retrieve_total, query_ok_fields_ok, H. Qed.

(* builders obtained from the empty builder by ConfigureField calls *)
Definition configure_all (cfg : list (fname * rcont_kind * parser_kind)) : rbuilder :=
  fold_left (fun b c => rb_configure b (fst (fst c)) (snd (fst c)) (snd c)) cfg new_rbuilder.

Lemma configure_all_new cfg : all_new_r (rb_conts (configure_all cfg)).
Proof.
  unfold configure_all. generalize new_rbuilder_new_r. generalize new_rbuilder.
  induction cfg as [|[[f k] p] cfg IH]; intros b Hb; cbn [fold_left fst snd]; [exact Hb|].
  apply IH. apply rb_configure_new_r. exact Hb.
Qed.

Lemma rb_configure_nonempty b f k p : rb_conts (rb_configure b f k p) <> [].
Proof.
  cbn [rb_configure rb_conts]. destruct (rb_conts b) as [|[f0 c0] l]; cbn [aupdate]; [discriminate|].
  destruct (f =? f0); discriminate.
Qed.

Lemma configure_all_nonempty cfg : cfg <> [] -> rb_conts (configure_all cfg) <> [].
Proof.
  unfold configure_all. intros Hne.
  assert (G : forall cfg b, rb_conts b <> [] ->
            rb_conts (fold_left (fun b c => rb_configure b (fst (fst c)) (snd (fst c)) (snd c)) cfg b) <> []).
  { induction cfg0 as [|c cfg0 IH]; intros b Hb; cbn [fold_left]; [exact Hb|]. apply IH, rb_configure_nonempty. }
  destruct cfg as [|c cfg]; [congruence|]. cbn [fold_left]. apply G, rb_configure_nonempty.
Qed.

(* ================================================================== *)
(* 7. non-vacuity: a concrete mixed index                              *)
(* ================================================================== *)
Module Witness.
  Definition b0 := configure_all [(1, RDefault, PCommon); (2, RAc, PCommon)].
  Definition ex (i : bool) (v : gval) := {| e_incl := i; e_op := OpEQ; e_val := v |}.
  (* d1: (f1 in {7} and f2 has keyword "a b")  or  (f2 has not keyword "zz") *)
  Definition d1 : doc := {| d_id := 1; d_conjs := [ [(1, [ex true (VInt KI 7)]); (2, [ex true (VStr [97;32;98])])];
                                                    [(2, [ex false (VStr [122;122])])] ] |}.
  (* d2: (f2 has keyword "x" or the EMPTY keyword)  or  (f2 in nil)  or  (f1 not in {7}) *)
  Definition d2 : doc := {| d_id := (-3); d_conjs := [ [(2, [ex true (VSlice TSstring false [VStr [120]; VStr []])])];
                                                       [(2, [ex true VNil])];
                                                       [(1, [ex false (VInt KI 7)])] ] |}.
  (* the text of q1 on f2 is "ca bd": keyword "a b" matches ACROSS the separator *)
  Definition q1 : assignment := [(1, VInt KI 7); (2, VSlice TSstring false [VStr [99;97]; VStr [98;100]])].
  Definition q2 : assignment := [(2, VStr [122;122;120])].
  Definition q3 : assignment := [(1, VInt KI 8); (2, VList true [])].
  Definition built := radd_documents b0 [d1; d2].
  Definition run (q : assignment) : option (bitmap * bitmap) :=
    match sc_retrieve (rb_conts (fst built)) q fresh_scanner with
    | POk s => Some (sc_res s, docs_of_raw (sc_res s)) | _ => None end.
  Definition sat (q : assignment) : list (list bool) :=
    map (fun d => map (fun cj => conj_sat_r q cj (rb_conts (fst built))) (d_conjs d)) [d1; d2].

  Example accepted : snd built = [AddOk; AddOk].
  Proof. vm_compute. reflexivity. Qed.
  Example ids : map (fun d => map (fun k => IdsGen.NewConjunctionID (Z.of_nat k) (d_id d)) (seq 0 (length (d_conjs d)))) [d1; d2]
    = [[Some 256; Some 257]; [Some 18446744073709550848; Some 18446744073709550849; Some 18446744073709550850]].
  Proof. vm_compute. reflexivity. Qed.
  Example keys : (doc_key 1, doc_key (-3)) = (1, 18446744073709551613).
  Proof. vm_compute. reflexivity. Qed.
  Example run1 : run q1 = Some ([256; 257], [1]) /\ sat q1 = [[true; true]; [false; false; false]].
  Proof. vm_compute. split; reflexivity. Qed.
  (* "zzx": d1's exclude keyword "zz" is hit; d2: "x" occurs, the empty keyword and the nil value never match,
     field 1 is not assigned so its exclude is not hit *)
  Example run2 : run q2 = Some ([18446744073709550848; 18446744073709550850], [18446744073709551613]) /\
                 sat q2 = [[false; false]; [true; false; true]].
  Proof. vm_compute. split; reflexivity. Qed.
  (* nil query value on the pattern field: only conjunctions without include expression on it *)
  Example run3 : run q3 = Some ([257; 18446744073709550850], [1; 18446744073709551613]) /\
                 sat q3 = [[false; true]; [false; false; true]].
  Proof. vm_compute. split; reflexivity. Qed.

  (* the hypotheses of the theorems hold for this index *)
  Example hyps : all_new_r (rb_conts b0) /\ rb_conts b0 <> [] /\ NoDup (map d_id [d1; d2]).
  Proof.
    split; [apply configure_all_new|]. split; [apply configure_all_nonempty; discriminate|].
    cbn. constructor; [intros [H|[]]; discriminate|]. constructor; [intros []|constructor].
  Qed.
End Witness.

(* no configured field: the known defect (finding F14) -- the document is accepted, its conjunction is
   vacuously satisfied, and nothing is ever returned.  `rb_conts b0 <> []` is a necessary premise. *)
Module NoFields.
  Definition d : doc := {| d_id := 5; d_conjs := [ [] ] |}.
  Definition built := radd_documents new_rbuilder [d].
  Example refuted :
    snd built = [AddOk] /\ conj_sat_r [] [] (rb_conts (fst built)) = true /\
    IdsGen.NewConjunctionID 0 5 = Some 1280 /\
    sc_retrieve (rb_conts (fst built)) [] fresh_scanner = POk fresh_scanner /\
    bm_mem 1280 (sc_res fresh_scanner) = false.
  Proof. vm_compute. repeat split. Qed.
End NoFields.

(* ---- audit ---- *)
Print Assumptions rc_retrieve_ac_rule.
Print Assumptions encode_fields_step_r.
Print Assumptions radd_documents_repr_r.
Print Assumptions roaring_end_to_end_r.
Print Assumptions roaring_index_correct_r.
Print Assumptions roaring_index_sound_r.
Print Assumptions roaring_index_hinted_r.
Print Assumptions roaring_index_hinted_doc_r.
Print Assumptions roaring_index_hinted_sound_r.
Print Assumptions roaring_docs_correct_r.
Print Assumptions roaring_docs_hinted_r.
Print Assumptions radd_documents_accepted.
Print Assumptions field_sat_g_iff.
Print Assumptions kw_hit_iff.
Print Assumptions sc_retrieve_total_r.
