package main

import (
	"encoding/json"
	"fmt"
	"reflect"
	"sort"
	"strings"

	be "github.com/echoface/be_indexer"
)

const c13Rule = "document sets over a default, a pattern and a range field (repeated fields, value lists longer than the caching threshold, wide ranges next to long lists, keywords with quotes/spaces/unicode), caching thresholds {0, 2, 512}, three successive builds sharing one cache provider whose Get misses and whose Set drops by seeded coin (0/30/100 %), new builder per build or Reset of the same builder, both index types; every cached build is compared with the plain build on AddDocument outcomes and 10..16 queries. Non-trivial = at least one conjunction was actually served from the cache in some build and some query returns a non-empty proper subset; distinct = distinct input"

type cacheIn struct {
	Cache   bool   `json:"cache"`
	Case    eCase  `json:"case"`
	Thr     int    `json:"thr"`
	Seed    int64  `json:"seed"`
	MissPct int    `json:"miss"`
	DropPct int    `json:"drop"`
	Reuse   bool   `json:"reuse"`            // Reset and reuse one builder instead of a new builder per build
	Case2   *eCase `json:"case2,omitempty"`  // with Reuse: the generations after the first Reset are built from THESE documents (same ids, changed conjunctions); they are what is compared, against a plain build of Case2
	Retain  bool   `json:"retain,omitempty"` // the provider keeps the very slice Set was given (a plain map provider) instead of copying it
	Trunc   int    `json:"trunc,omitempty"`  // percentage of Set calls that are CUT SHORT: the key is kept, the payload lost (a later Get answers found with zero bytes)
}

type lossyCache struct {
	retain       bool
	r            *Rand
	miss, drop   int
	trunc        int
	data         map[be.ConjID][]byte
	hits, resets int
}

func (c *lossyCache) Reset() { c.resets++; c.data = map[be.ConjID][]byte{} }
func (c *lossyCache) Get(id be.ConjID) ([]byte, bool) {
	d, ok := c.data[id]
	if !ok || c.r.Chance(c.miss) {
		return nil, false
	}
	c.hits++
	return d, true
}
func (c *lossyCache) Set(id be.ConjID, data []byte) {
	if c.r.Chance(c.drop) {
		return
	}
	if c.trunc > 0 && c.r.Chance(c.trunc) {
		c.data[id] = []byte{} // the write was cut short: the entry exists, its payload is lost
		return
	}
	if c.retain {
		c.data[id] = data
		return
	}
	c.data[id] = append([]byte{}, data...)
}

func execCache(raw json.RawMessage) (res execResult, err error) {
	var in cacheIn
	if err = json.Unmarshal(raw, &in); err != nil {
		return
	}
	old := be.BetterToCacheMaxItemsCount
	be.BetterToCacheMaxItemsCount = in.Thr
	defer func() { be.BetterToCacheMaxItemsCount = old }()
	ref := in.Case
	if in.Case2 != nil {
		ref = *in.Case2
	}
	rp, _ := json.Marshal(ref)
	plain, e := execE2E(rp)
	if e != nil {
		return res, e
	}
	cache := &lossyCache{retain: in.Retain, r: &Rand{s: uint64(in.Seed)}, miss: in.MissPct, drop: in.DropPct, trunc: in.Trunc, data: map[be.ConjID][]byte{}}
	c := in.Case
	var lits []string
	var shared *be.IndexerBuilder
	for b := 0; b < 3; b++ {
		obs := &e2eObs{}
		if in.Case2 != nil && b == 1 {
			c = *in.Case2 // the documents changed between the generations of the reused builder
		}
		var bld *be.IndexerBuilder
		if in.Reuse && shared != nil {
			bld = shared
			bld.Reset() // also resets the cache provider
		} else {
			bld = newBuilder(&c, be.WithCacheProvider(cache))
			shared = bld
		}
		var docLits []string
		for i := range c.Docs {
			d := &c.Docs[i]
			var aerr error
			p := safeCall(func() { aerr = bld.AddDocument(d.build()) })
			out := "IAddOk"
			switch {
			case p:
				out = "IAddPanic"
			case aerr != nil:
				out = "IAddErr"
			default:
				obs.NDocsOK++
			}
			docLits = append(docLits, fmt.Sprintf("(%s, %s)", d.coq(), out))
		}
		index := bld.BuildIndex()
		state := "None"
		if es, z, ok := indexEntries(index); ok {
			state = fmt.Sprintf("(Some (%s, %s))", nlist(es), nlist(z))
		}
		qLits := runIndexQueries(index, c.Queries, obs)
		if in.Case2 != nil && b == 0 {
			continue // the first generation only fills the cache
		}
		lits = append(lits, fmt.Sprintf("Build_ecase %s\n    %s\n    %s\n    %s", c.header(), listl(docLits), listl(qLits), state))
	}
	res.Coq = fmt.Sprintf("(%s,\n  [%s])", plain.Coq, strings.Join(lits, ";\n   "))
	res.Family = "C"
	res.Dist = fmt.Sprintf("thr=%d/miss=%d/drop=%d/hits>0=%v", in.Thr, in.MissPct, in.DropPct, cache.hits > 0)
	res.NonTrivial = cache.hits > 0 && plain.NonTrivial
	res.Summary = map[string]interface{}{"plain": plain.Summary, "cache_hits": cache.hits, "cache_entries": len(cache.data)}
	return
}

// flagHolder: a custom container registered through the public extension point.  It serves boolean flags; its cache
// codec writes `true` as one byte and `false` as NO bytes (as a protobuf BoolValue would).
type flagTx struct{ v bool }

func (t *flagTx) BetterToCache() bool     { return false }
func (t *flagTx) Encode() ([]byte, error) { return map[bool][]byte{true: {1}, false: {}}[t.v], nil }

type flagHolder struct{ pl map[bool]be.Entries }

func (h *flagHolder) EnableDebug(bool)             {}
func (h *flagHolder) DumpInfo(*strings.Builder)    {}
func (h *flagHolder) DumpEntries(*strings.Builder) {}
func (h *flagHolder) GetEntries(field *be.FieldDesc, assigns be.Values) (be.EntriesCursors, error) {
	v, ok := assigns.(bool)
	if !ok {
		return nil, fmt.Errorf("flag field needs a bool")
	}
	if len(h.pl[v]) == 0 {
		return nil, nil
	}
	return be.EntriesCursors{be.NewEntriesCursor(be.NewQKey(field.Field, v), h.pl[v])}, nil
}
func (h *flagHolder) IndexingBETx(_ *be.FieldDesc, bv *be.BoolValues) (be.TxData, error) {
	v, ok := bv.Value.(bool)
	if !ok {
		return nil, fmt.Errorf("flag field needs a bool")
	}
	return &flagTx{v}, nil
}
func (h *flagHolder) CommitIndexingBETx(tx be.IndexingBETx) error {
	d := tx.Data.(*flagTx)
	h.pl[d.v] = append(h.pl[d.v], tx.EID)
	return nil
}
func (h *flagHolder) DecodeTxData(data []byte) (be.TxData, error) {
	return &flagTx{len(data) > 0 && data[0] == 1}, nil
}
func (h *flagHolder) CompileEntries() error {
	for _, l := range h.pl {
		sort.Sort(l)
	}
	return nil
}

// customContainerCacheProbe: cached builds (cold, warm) against the plain build on an index with a flagHolder field
func customContainerCacheProbe() (calls int, viol []string) {
	be.RegisterEntriesHolder("verif_flag", func() be.EntriesHolder { return &flagHolder{pl: map[bool]be.Entries{}} })
	old := be.BetterToCacheMaxItemsCount
	be.BetterToCacheMaxItemsCount = 2
	defer func() { be.BetterToCacheMaxItemsCount = old }()
	ints := func(k, off int) []int {
		l := make([]int, k)
		for i := range l {
			l[i] = off + i
		}
		return l
	}
	for _, kind := range []string{"kgroups", "compact"} {
		build := func(cache be.CacheProvider) be.BEIndex {
			c := eCase{Kind: kind, Policy: "error"}
			var b *be.IndexerBuilder
			if cache != nil {
				b = newBuilder(&c, be.WithCacheProvider(cache))
			} else {
				b = newBuilder(&c)
			}
			b.ConfigField(fieldName(5), be.FieldOption{Container: "verif_flag"})
			for id, cj := range map[int]*be.Conjunction{
				1: be.NewConjunction().In(fieldName(5), false).In(fieldName(0), ints(6, 0)),
				3: be.NewConjunction().In(fieldName(5), true).In(fieldName(0), ints(6, 0)),
				4: be.NewConjunction().NotIn(fieldName(5), false).In(fieldName(0), ints(5, 3)),
				5: be.NewConjunction().In(fieldName(0), ints(2, 5)),
			} {
				d := be.NewDocument(be.DocID(id))
				d.AddConjunction(cj)
				b.AddDocument(d)
			}
			return b.BuildIndex()
		}
		plain := build(nil)
		cache := &lossyCache{r: &Rand{s: 1}, data: map[be.ConjID][]byte{}}
		for gen, idx := range []be.BEIndex{build(cache), build(cache), build(cache)} {
			for _, q := range []be.Assignments{{fieldName(5): false, fieldName(0): 5}, {fieldName(5): true, fieldName(0): 5}, {fieldName(0): 5}, {fieldName(5): false, fieldName(0): 1}, {fieldName(5): true, fieldName(0): 7}} {
				calls++
				want, e1 := plain.Retrieve(q)
				got, e2 := idx.Retrieve(q)
				if (e1 != nil) != (e2 != nil) || !reflect.DeepEqual(docIDs(want), docIDs(got)) {
					if len(viol) < 4 {
						viol = append(viol, fmt.Sprintf("%s index with a custom flag container: cached build %d answers %v with %v (%v), the plain build with %v (%v)", kind, gen, q, docIDs(got), e2, docIDs(want), e1))
					}
				}
			}
		}
	}
	return
}

// dictHolder: a second custom container.  It numbers its keywords in a dictionary of ITS OWN (as the stock holders do
// with parsed values); a cached transaction carries the words, and DecodeTxData numbers them in the dictionary of the
// holder that decodes -- which therefore has to be the holder that commits.
type dictTx struct {
	words []string
	ids   []int
}

func (t *dictTx) BetterToCache() bool     { return len(t.words) > 2 }
func (t *dictTx) Encode() ([]byte, error) { return []byte(strings.Join(t.words, "\x00")), nil }

type dictHolder struct {
	dict map[string]int
	pl   map[int]be.Entries
}

func (h *dictHolder) number(ws []string) []int {
	ids := make([]int, len(ws))
	for i, w := range ws {
		id, ok := h.dict[w]
		if !ok {
			id = len(h.dict)
			h.dict[w] = id
		}
		ids[i] = id
	}
	return ids
}
func (h *dictHolder) EnableDebug(bool)             {}
func (h *dictHolder) DumpInfo(*strings.Builder)    {}
func (h *dictHolder) DumpEntries(*strings.Builder) {}
func (h *dictHolder) GetEntries(field *be.FieldDesc, assigns be.Values) (be.EntriesCursors, error) {
	w, ok := assigns.(string)
	if !ok {
		return nil, fmt.Errorf("dict field needs a string")
	}
	id, ok := h.dict[w]
	if !ok || len(h.pl[id]) == 0 {
		return nil, nil
	}
	return be.EntriesCursors{be.NewEntriesCursor(be.NewQKey(field.Field, w), h.pl[id])}, nil
}
func (h *dictHolder) IndexingBETx(_ *be.FieldDesc, bv *be.BoolValues) (be.TxData, error) {
	ws, ok := bv.Value.([]string)
	if !ok {
		return nil, fmt.Errorf("dict field needs a []string")
	}
	return &dictTx{words: ws, ids: h.number(ws)}, nil
}
func (h *dictHolder) CommitIndexingBETx(tx be.IndexingBETx) error {
	for _, id := range tx.Data.(*dictTx).ids {
		h.pl[id] = append(h.pl[id], tx.EID)
	}
	return nil
}
func (h *dictHolder) DecodeTxData(data []byte) (be.TxData, error) {
	ws := strings.Split(string(data), "\x00")
	return &dictTx{words: ws, ids: h.number(ws)}, nil
}
func (h *dictHolder) CompileEntries() error {
	for _, l := range h.pl {
		sort.Sort(l)
	}
	return nil
}

// dictContainerCacheProbe: cached builds (cold, warm, warm in a NEW builder) against the plain build on an index with a
// dictHolder field; the conjunction the cache serves comes first, so that it is the first of its build to touch the field
func dictContainerCacheProbe() (calls int, viol []string) {
	be.RegisterEntriesHolder("verif_dict", func() be.EntriesHolder { return &dictHolder{dict: map[string]int{}, pl: map[int]be.Entries{}} })
	old := be.BetterToCacheMaxItemsCount
	be.BetterToCacheMaxItemsCount = 2
	defer func() { be.BetterToCacheMaxItemsCount = old }()
	kw := fieldName(6)
	long := []string{"w0", "w1", "w2", "w3", "w4", "w5"}
	for _, kind := range []string{"kgroups", "compact"} {
		for _, order := range [][]int{{1, 2, 3, 4}, {2, 1, 3, 4}, {4, 3, 1, 2}} {
			feed := func(b *be.IndexerBuilder) be.BEIndex {
				b.ConfigField(kw, be.FieldOption{Container: "verif_dict"})
				cjs := map[int]*be.Conjunction{
					1: be.NewConjunction().In(kw, long),
					2: be.NewConjunction().In(kw, []string{"solo"}),
					3: be.NewConjunction().In(kw, []string{"w5", "w9", "solo", "w0"}).In(fieldName(0), 1),
					4: be.NewConjunction().NotIn(kw, []string{"w3", "zz", "w1"}).In(fieldName(0), 2),
				}
				for _, id := range order {
					d := be.NewDocument(be.DocID(id))
					d.AddConjunction(cjs[id])
					b.AddDocument(d)
				}
				return b.BuildIndex()
			}
			c := eCase{Kind: kind, Policy: "error"}
			plain := feed(newBuilder(&c))
			cache := &lossyCache{r: &Rand{s: 1}, data: map[be.ConjID][]byte{}}
			reused := newBuilder(&c, be.WithCacheProvider(cache))
			cold := feed(reused)
			warmNew := feed(newBuilder(&c, be.WithCacheProvider(cache)))
			reused.Reset()
			for gen, idx := range []be.BEIndex{cold, warmNew, feed(newBuilder(&c, be.WithCacheProvider(cache)))} {
				for _, w := range []string{"w0", "w1", "w3", "w5", "w9", "solo", "zz", "none"} {
					for _, q := range []be.Assignments{{kw: w}, {kw: w, fieldName(0): 1}, {kw: w, fieldName(0): 2}} {
						calls++
						want, e1 := plain.Retrieve(q)
						got, e2 := idx.Retrieve(q)
						a, b := docIDs(want), docIDs(got)
						sort.Slice(a, func(i, j int) bool { return a[i] < a[j] })
						sort.Slice(b, func(i, j int) bool { return b[i] < b[j] })
						if (e1 != nil) != (e2 != nil) || !reflect.DeepEqual(a, b) {
							if len(viol) < 4 {
								viol = append(viol, fmt.Sprintf("%s index with a custom dictionary container (documents in order %v): cached build %d answers %v with %v (%v), the plain build with %v (%v)", kind, order, gen, q, b, e2, a, e1))
							}
						}
					}
				}
			}
		}
	}
	return
}

func init() {
	props["C13"] = &propDef{
		header:    "From BE Require Import Corr.CheckC13.",
		headers:   map[string]string{"C": "From BE Require Import Corr.CheckCache."},
		rule:      c13Rule,
		shardSize: 15,
		gen: func(tier string, r *Rand, add func(in interface{})) {
			n := 45
			if tier == "thorough" {
				n = 2500
			}
			longInts := func(k int) TV {
				l := make([]TV, k)
				for i := range l {
					l[i] = tvInt("int", int64(i)) // distinct, so that losing any single position is observable
				}
				return tvSlice("[]int", l...)
			}
			words := []string{"red", "blue", "re", "x y", "日本", " \"q\" #", "a\"b", strings.Repeat("a", 32), "red\nblue", "a,b;c", "t\tu", "nul\x00l"}
			// dedicated: a kept interval with bounds beyond float64 precision next to a long list (so the
			// conjunction is cached), probed at both edges, on cold and warm builds
			for _, kind := range []string{"kgroups", "compact"} {
				for _, a := range []int64{1<<53 + 1, 1700000000000000101, -(1<<61 + 3001)} {
					c := eCase{Kind: kind, Policy: "error", Configs: map[int]string{2: "ext_range"}}
					c.Docs = []eDoc{{ID: 1, Cons: []eConj{{{F: 0, Inc: true, V: longInts(4)}, {F: 2, Inc: true, Op: 3, V: tvSlice("[]int64", tvInt("int64", a), tvInt("int64", a+3000))}}}},
						{ID: 2, Cons: []eConj{{{F: 0, Inc: true, V: longInts(5)}, {F: 2, Inc: false, Op: 1, V: tvInt("int64", a+7)}}}}}
					for _, d := range []int64{-300, -2, -1, 0, 1, 2, 6, 7, 8, 9, 300, 2998, 2999, 3000, 3001, 3300} {
						c.Queries = append(c.Queries, eQuery{A: []eAssign{{F: 0, V: tvInt("int", 1)}, {F: 2, V: tvInt("int64", a+d)}}})
					}
					add(cacheIn{Cache: true, Case: c, Thr: 2, Seed: 7, MissPct: 0, DropPct: 0})
					add(cacheIn{Cache: true, Case: c, Thr: 2, Seed: 107, MissPct: 0, DropPct: 0, Trunc: 60}) // some writes cut short: entries found with their payload lost
				}
			}
			// dedicated: several expressions on default-container fields in one cached conjunction (two long lists of
			// equal length; a long and a short one in either order; include and exclude), probed at the first and
			// last value of every list, on cold and warm builds
			for _, kind := range []string{"kgroups", "compact"} {
				shift := func(k, off int) TV {
					l := make([]TV, k)
					for i := range l {
						l[i] = tvInt("int", int64(off+i))
					}
					return tvSlice("[]int", l...)
				}
				for _, L := range []int{6, 600} {
					if L == 600 && tier != "thorough" {
						continue // the model evaluates 600-term posting lists slowly: thorough tier only
					}
					c := eCase{Kind: kind, Policy: "error"}
					c.Docs = []eDoc{
						{ID: 1, Cons: []eConj{{{F: 0, Inc: true, V: shift(L, 0)}, {F: 3, Inc: true, V: shift(L, 10000)}}}},
						{ID: 2, Cons: []eConj{{{F: 0, Inc: true, V: shift(L, 0)}, {F: 3, Inc: true, V: shift(3, 10000)}}}},
						{ID: 3, Cons: []eConj{{{F: 0, Inc: true, V: shift(3, 0)}, {F: 3, Inc: false, V: shift(L, 10000)}, {F: 4, Inc: true, V: shift(2, 7)}}}},
						{ID: 4, Cons: []eConj{{{F: 3, Inc: true, V: shift(L-1, 20000)}}, {{F: 0, Inc: false, V: shift(L+1, 100)}, {F: 4, Inc: true, V: shift(1, 8)}}}},
					}
					for _, a := range [][3]int{{0, 10000, 7}, {L - 1, 10000 + L - 1, 8}, {5, 10005, 7}, {10001, 10001, 8}, {0, 0, 7}, {2, 10002, 8}, {100, 20000, 8}, {100 + L, 20000 + L - 2, 8}, {99, 10003, 7}, {1, 10000 + L, 7}} {
						c.Queries = append(c.Queries, eQuery{A: []eAssign{{F: 0, V: tvInt("int", int64(a[0]))}, {F: 3, V: tvInt("int", int64(a[1]))}, {F: 4, V: tvInt("int", int64(a[2]))}}})
					}
					thr := 2
					if L == 600 {
						thr = 512
					}
					add(cacheIn{Cache: true, Case: c, Thr: thr, Seed: 11, MissPct: 0, DropPct: 0})
					add(cacheIn{Cache: true, Case: c, Thr: thr, Seed: 111, MissPct: 0, DropPct: 0, Trunc: 60}) // some writes cut short: entries found with their payload lost
					add(cacheIn{Cache: true, Case: c, Thr: thr, Seed: 13, MissPct: 0, DropPct: 0, Retain: true})
					add(cacheIn{Cache: true, Case: c, Thr: thr, Seed: 12, MissPct: 30, DropPct: 30})
				}
			}
			// dedicated: one keyword table (unsorted) used whole by a cacheable conjunction and as a PREFIX by later
			// conjunctions of the same document (the harness hands the prefix over as a sub-slice of the same array): what
			// the cache path does with the list it encodes must not change what the later expressions list
			for _, kind := range []string{"kgroups", "compact"} {
				strs := func(ss ...string) TV {
					l := make([]TV, len(ss))
					for i, s := range ss {
						l[i] = tvStr(s)
					}
					return tvSlice("[]string", l...)
				}
				table := []string{"yoga", "kw2", "zebra", "apple", "kw1"}
				c := eCase{Kind: kind, Policy: "error", Configs: map[int]string{1: "ac_matcher"}}
				c.Docs = []eDoc{
					{ID: 1, Cons: []eConj{{{F: 1, Inc: true, V: strs(table...)}}, {{F: 1, Inc: true, V: strs(table[:1]...)}, {F: 0, Inc: true, V: tvSlice("[]int", tvInt("int", 7))}}, {{F: 1, Inc: false, V: strs(table[:3]...)}, {F: 0, Inc: true, V: tvSlice("[]int", tvInt("int", 8))}}}},
					{ID: 2, Cons: []eConj{{{F: 0, Inc: true, V: longInts(5)}}, {{F: 0, Inc: true, V: tvSlice("[]int", tvInt("int", 0), tvInt("int", 1))}, {F: 1, Inc: true, V: strs("apple")}}}},
				}
				for _, t := range []string{"yoga", "apple", "kw1", "zebra", "kw2", "none"} {
					c.Queries = append(c.Queries, eQuery{A: []eAssign{{F: 1, V: tvStr(t)}, {F: 0, V: tvInt("int", 7)}}}, eQuery{A: []eAssign{{F: 1, V: tvStr(t)}, {F: 0, V: tvInt("int", 8)}}},
						eQuery{A: []eAssign{{F: 1, V: tvStr(t)}, {F: 0, V: tvInt("int", 1)}}})
				}
				add(cacheIn{Cache: true, Case: c, Thr: 2, Seed: 71, MissPct: 0, DropPct: 0})
				add(cacheIn{Cache: true, Case: c, Thr: 2, Seed: 171, MissPct: 0, DropPct: 0, Trunc: 60}) // some writes cut short: entries found with their payload lost
				add(cacheIn{Cache: true, Case: c, Thr: 2, Seed: 72, MissPct: 100, DropPct: 0})
			}
			// dedicated: value lists of a range field in every order and with repeats and gaps (ascending runs, a run with
			// one value repeated and one skipped, descending, repeats only, gaps only), cached: a codec that abbreviates a
			// list must give the same list back
			for _, kind := range []string{"kgroups", "compact"} {
				vals := func(zs ...int64) TV {
					l := make([]TV, len(zs))
					for i, z := range zs {
						l[i] = tvInt("int64", z)
					}
					return tvSlice("[]int64", l...)
				}
				c := eCase{Kind: kind, Policy: "error", Configs: map[int]string{2: "ext_range"}}
				for i, zs := range [][]int64{{18, 19, 19, 21}, {18, 19, 20, 21}, {21, 20, 19, 18}, {5, 5, 5, 5}, {1, 3, 5, 7}, {30, 31, 31, 31, 34}, {-3, -2, -2, 0}, {40, 41, 43, 43}, {50, 50, 52}} {
					c.Docs = append(c.Docs, eDoc{ID: int64(i + 1), Cons: []eConj{{{F: 2, Inc: i%4 != 3, V: vals(zs...)}, {F: 0, Inc: true, V: tvSlice("[]int", tvInt("int", 5))}}}})
				}
				for a := int64(-4); a <= 53; a++ {
					if a > 8 && a < 17 || a > 22 && a < 29 {
						continue
					}
					c.Queries = append(c.Queries, eQuery{A: []eAssign{{F: 2, V: tvInt("int64", a)}, {F: 0, V: tvInt("int", 5)}}})
				}
				add(cacheIn{Cache: true, Case: c, Thr: 2, Seed: 95, MissPct: 0, DropPct: 0})
				add(cacheIn{Cache: true, Case: c, Thr: 3, Seed: 96, MissPct: 30, DropPct: 0, Retain: true})
			}
			// dedicated: Skip policy, an unparseable conjunction immediately before conjunctions that are served from the
			// cache on the warm builds (and one after them): the skipped one must not disturb its siblings
			for _, kind := range []string{"kgroups", "compact"} {
				bad := eConj{{F: 3, Inc: true, V: TV{T: "other:map"}}}
				c := eCase{Kind: kind, Policy: "skip"}
				c.Docs = []eDoc{
					{ID: 1, Cons: []eConj{bad, {{F: 0, Inc: true, V: longInts(5)}}, {{F: 0, Inc: false, V: longInts(4)}, {F: 3, Inc: true, V: tvStr("x")}}, bad, {{F: 3, Inc: true, V: tvStr("y")}}}},
					{ID: 2, Cons: []eConj{{{F: 0, Inc: true, V: longInts(6)}}, bad}},
				}
				for _, a := range []int64{0, 3, 4, 5, 9} {
					c.Queries = append(c.Queries, eQuery{A: []eAssign{{F: 0, V: tvInt("int", a)}}}, eQuery{A: []eAssign{{F: 0, V: tvInt("int", a)}, {F: 3, V: tvStr("x")}}})
				}
				c.Queries = append(c.Queries, eQuery{A: []eAssign{{F: 3, V: tvStr("y")}}})
				add(cacheIn{Cache: true, Case: c, Thr: 2, Seed: 51, MissPct: 0, DropPct: 0})
				add(cacheIn{Cache: true, Case: c, Thr: 2, Seed: 151, MissPct: 0, DropPct: 0, Trunc: 60}) // some writes cut short: entries found with their payload lost
				add(cacheIn{Cache: true, Case: c, Thr: 2, Seed: 52, MissPct: 0, DropPct: 0, Reuse: true})
			}
			// dedicated: a provider that keeps the very slice it is handed, and several cached conjunctions whose records
			// have the same encoded length (anything serialised into a builder-owned buffer would be overwritten)
			for _, kind := range []string{"kgroups", "compact"} {
				ints := func(k, off int) TV {
					l := make([]TV, k)
					for i := range l {
						l[i] = tvInt("int", int64(off+i))
					}
					return tvSlice("[]int", l...)
				}
				c := eCase{Kind: kind, Policy: "error"}
				c.Docs = []eDoc{
					{ID: 1, Cons: []eConj{{{F: 0, Inc: true, V: ints(5, 0)}}}},
					{ID: 2, Cons: []eConj{{{F: 0, Inc: true, V: ints(5, 10)}}}},
					{ID: 3, Cons: []eConj{{{F: 0, Inc: true, V: ints(5, 20)}}}},
					{ID: 4, Cons: []eConj{{{F: 0, Inc: false, V: ints(5, 30)}, {F: 3, Inc: true, V: ints(1, 7)}}}},
				}
				for _, a := range []int64{0, 4, 10, 14, 20, 24, 30, 34, 40} {
					c.Queries = append(c.Queries, eQuery{A: []eAssign{{F: 0, V: tvInt("int", a)}, {F: 3, V: tvInt("int", 7)}}})
				}
				add(cacheIn{Cache: true, Case: c, Thr: 2, Seed: 41, MissPct: 0, DropPct: 0, Retain: true})
				add(cacheIn{Cache: true, Case: c, Thr: 2, Seed: 42, MissPct: 0, DropPct: 0, Retain: true, Reuse: true})
			}
			// dedicated: pattern field whose SHORT keywords sit in cached conjunctions while the conjunctions that are
			// parsed on every build carry longer ones (anything a holder learns only while parsing is missing on a
			// warm build); probed with texts of every length from 0
			for _, kind := range []string{"kgroups", "compact"} {
				kws := func(inc bool, ss ...string) eExpr {
					l := make([]TV, len(ss))
					for i, s := range ss {
						l[i] = tvStr(s)
					}
					return eExpr{F: 1, Inc: inc, V: tvSlice("[]string", l...)}
				}
				c := eCase{Kind: kind, Policy: "error", Configs: map[int]string{1: "ac_matcher"}}
				c.Docs = []eDoc{
					{ID: 1, Cons: []eConj{{kws(true, "re", "red", "blue", "x y")}}},                                                  // 4 values > 2: cached
					{ID: 2, Cons: []eConj{{kws(true, "blue")}}},                                                                      // parsed on every build
					{ID: 3, Cons: []eConj{{kws(false, "a"), {F: 0, Inc: true, V: longInts(5)}}}},                                     // cached (long list)
					{ID: 4, Cons: []eConj{{kws(true, "green", "blues")}, {kws(false, "yellow"), {F: 0, Inc: true, V: longInts(2)}}}}, // parsed
					{ID: 5, Cons: []eConj{{kws(true, "日", "日本語", "é")}}},                                                             // cached
					{ID: 6, Cons: []eConj{{kws(true, "red\nblue", "a,b", "t\tu", "q\x00r")}}},                                        // cached: keywords holding the characters a home-made codec would split on
				}
				for _, t := range []string{"red\nblue", "a,b", "a", "b", "t\tu", "t", "q\x00r", "q", "blue"} {
					c.Queries = append(c.Queries, eQuery{A: []eAssign{{F: 1, V: tvStr(t)}}})
				}
				for _, t := range []string{"", "r", "re", "a", "xa", "e", "red", "blue", "x y", "日", "日本", "é", "ared", "blues", "zz", "yellow a"} {
					c.Queries = append(c.Queries, eQuery{A: []eAssign{{F: 1, V: tvStr(t)}}}, eQuery{A: []eAssign{{F: 1, V: tvStr(t)}, {F: 0, V: tvInt("int", 1)}}})
				}
				add(cacheIn{Cache: true, Case: c, Thr: 2, Seed: 21, MissPct: 0, DropPct: 0})
				add(cacheIn{Cache: true, Case: c, Thr: 2, Seed: 22, MissPct: 30, DropPct: 0})
			}
			// dedicated: a pattern keyword that is NOT valid UTF-8 inside conjunctions worth caching: the pattern
			// holder's codec (protobuf) refuses it, so the whole conjunction must stay uncached -- a record written
			// without that field would lose the pattern expression on the warm build.  Query texts stay valid UTF-8
			// (the matcher's rune view of invalid bytes is outside the model).
			for _, kind := range []string{"kgroups", "compact"} {
				kws := func(inc bool, ss ...string) eExpr {
					l := make([]TV, len(ss))
					for i, s := range ss {
						l[i] = tvStr(s)
					}
					return eExpr{F: 1, Inc: inc, V: tvSlice("[]string", l...)}
				}
				c := eCase{Kind: kind, Policy: "error", Configs: map[int]string{1: "ac_matcher"}}
				c.Docs = []eDoc{
					{ID: 1, Cons: []eConj{{kws(true, "re", "z\xff", "blue"), {F: 0, Inc: true, V: longInts(5)}}}},
					{ID: 2, Cons: []eConj{{{F: 0, Inc: true, V: longInts(4)}, kws(false, "\xfe\xff", "red", "x y")}}},
					{ID: 3, Cons: []eConj{{kws(true, "blue", "green", "\xc3", "re")}}},
					{ID: 4, Cons: []eConj{{kws(true, "blue", "green", "é", "re"), {F: 0, Inc: true, V: longInts(3)}}}},
				}
				for _, t := range []string{"", "re", "blue", "z", "red", "x y", "green re", "é", "zz"} {
					c.Queries = append(c.Queries, eQuery{A: []eAssign{{F: 1, V: tvStr(t)}}}, eQuery{A: []eAssign{{F: 1, V: tvStr(t)}, {F: 0, V: tvInt("int", 1)}}})
				}
				add(cacheIn{Cache: true, Case: c, Thr: 2, Seed: 31, MissPct: 0, DropPct: 0})
				add(cacheIn{Cache: true, Case: c, Thr: 2, Seed: 32, MissPct: 30, DropPct: 0, Reuse: true})
			}
			for i := 0; i < n; i++ {
				thr := []int{0, 2, 2}[i%3]
				if i%9 == 2 { // the default threshold: lists of 520+ distinct values (slow in the model, so fewer)
					thr = 512
				}
				big := 3
				if thr == 512 {
					big = 520
				}
				kind := "kgroups"
				if (i/3)%2 == 1 {
					kind = "compact"
				}
				c := eCase{Kind: kind, Policy: "error", Configs: map[int]string{1: "ac_matcher", 2: "ext_range"}}
				for d := 1 + r.Intn(4); d > 0; d-- {
					doc := eDoc{ID: int64(len(c.Docs)+1) * int64(1-2*r.Intn(2))}
					for k := 1 + r.Intn(2); k > 0; k-- {
						var cj eConj
						for e := 1 + r.Intn(4); e > 0; e-- {
							inc := r.Chance(65)
							switch r.Intn(7) {
							case 0:
								cj = append(cj, eExpr{F: 0, Inc: inc, V: longInts(big + r.Intn(3))})
							case 1:
								cj = append(cj, eExpr{F: 0, Inc: inc, V: intsShape(r, randVals(r, 1+r.Intn(2), 6))})
							case 2: // pattern field
								m := 1 + r.Intn(4)
								l := make([]TV, m)
								for j := range l {
									l[j] = tvStr(pick(r, words))
								}
								cj = append(cj, eExpr{F: 1, Inc: inc, V: tvSlice("[]string", l...)})
							case 3: // wide range
								bound := r.I64(-50, 3000)
								if r.Chance(25) { // beyond float64 precision: the cache codec must keep every bit
									bound = pick(r, []int64{1<<53 + 1, -(1<<53 + 3), 1700000000000000101, 1<<62 - 1, -(1<<62 - 5)})
								}
								cj = append(cj, eExpr{F: 2, Inc: inc, Op: 1 + r.Intn(2), V: tvInt("int64", bound)})
							case 4:
								a := r.I64(-10, 2000)
								if r.Chance(25) {
									a = pick(r, []int64{1<<53 + 1, -(1<<53 + 3000), 1700000000000000101, 1<<61 + 7})
								}
								cj = append(cj, eExpr{F: 2, Inc: inc, Op: 3, V: tvSlice("[]int64", tvInt("int64", a), tvInt("int64", a+int64(1+r.Intn(3000))))})
							case 5: // range field: long `in` list (cache trigger for the range holder)
								cj = append(cj, eExpr{F: 2, Inc: inc, V: longInts(big + r.Intn(3))})
							case 6:
								cj = append(cj, eExpr{F: 3, Inc: inc, V: tvSlice("[]string", tvStr(pick(r, words)))})
							}
						}
						doc.Cons = append(doc.Cons, cj)
					}
					c.Docs = append(c.Docs, doc)
				}
				for q := 10 + r.Intn(7); q > 0; q-- {
					var a []eAssign
					if r.Chance(70) {
						a = append(a, eAssign{F: 0, V: tvInt("int", pick(r, []int64{0, 1, 2, int64(big - 1), int64(big), int64(big + 1), r.I64(0, 45), r.I64(0, int64(big+3))}))})
					}
					if r.Chance(60) {
						w := pick(r, words)
						a = append(a, eAssign{F: 1, V: tvStr(pick(r, []string{w + " " + pick(r, words), w, string([]rune(w)[:1]), "x" + w}))})
					}
					if r.Chance(80) {
						v := r.I64(-60, 3100)
						if r.Chance(30) {
							v = pick(r, []int64{1<<53 + 1, 1<<53 + 2, -(1<<53 + 3), -(1<<53 + 2999), 1700000000000000100, 1700000000000000101, 1700000000000000200, 1<<61 + 7, 1<<61 + 8, 1<<62 - 1, 1<<62 - 2})
						}
						a = append(a, eAssign{F: 2, V: tvInt("int64", v)})
					}
					if r.Chance(30) {
						a = append(a, eAssign{F: 3, V: tvStr(pick(r, words))})
					}
					c.Queries = append(c.Queries, eQuery{A: a})
				}
				c.Queries = append(c.Queries, eQuery{})
				add(cacheIn{Cache: true, Case: c, Thr: thr, Seed: int64(r.U64() >> 1), MissPct: pick(r, []int{0, 0, 30, 100}), DropPct: pick(r, []int{0, 0, 30}), Reuse: r.Chance(20), Retain: r.Bool()})
			}
		},
		exec: execCache,
		// a container the Coq model does not know (registered through the public extension point): cached builds are
		// compared with the plain build directly
		extra: func(tier string, seed uint64, outdir string) (map[string]interface{}, []string) {
			calls, viol := customContainerCacheProbe()
			calls2, viol2 := dictContainerCacheProbe()
			return map[string]interface{}{"custom_container_cached_retrievals": calls, "custom_dictionary_container_cached_retrievals": calls2}, append(viol, viol2...)
		},
	}
}
