package main

import (
	"encoding/hex"
	"encoding/json"
	"fmt"
	"math"
	"math/big"
	"reflect"
	"strconv"
	"strings"
	"unicode/utf8"
)

// TV is a typed Go value in transit: the harness rebuilds the exact Go type from it and prints
// the Gallina literal (Model/GoVal.v: gval) of the same value.
type TV struct {
	T   string  `json:"t"`             // Go type name, "nil", or "other:<kind>"
	I   *int64  `json:"i,omitempty"`   // signed integers
	U   *uint64 `json:"u,omitempty"`   // unsigned integers
	F   string  `json:"f,omitempty"`   // floats, strconv 'g' -1 text ("NaN", "+Inf", "-Inf" allowed)
	S   *string `json:"s,omitempty"`   // string / json.Number
	X   string  `json:"x,omitempty"`   // in transit only: hex of S when S is not valid UTF-8 (JSON cannot carry it)
	B   *bool   `json:"b,omitempty"`   // bool
	L   []TV    `json:"l,omitempty"`   // slice / array / list elements
	Nil bool    `json:"nil,omitempty"` // typed nil (slices, maps, pointers ...)
}

type tvPlain TV

// MarshalJSON / UnmarshalJSON: a Go string that is not valid UTF-8 travels as hex (encoding/json would
// silently replace the offending bytes by U+FFFD).
func (tv TV) MarshalJSON() ([]byte, error) {
	a := tvPlain(tv)
	if tv.S != nil && !utf8.ValidString(*tv.S) {
		a.X = hex.EncodeToString([]byte(*tv.S))
		a.S = nil
	}
	return json.Marshal(a)
}

func (tv *TV) UnmarshalJSON(b []byte) error {
	var a tvPlain
	if err := json.Unmarshal(b, &a); err != nil {
		return err
	}
	if a.X != "" {
		raw, err := hex.DecodeString(a.X)
		if err != nil {
			return err
		}
		s := string(raw)
		a.S, a.X = &s, ""
	}
	*tv = TV(a)
	return nil
}

func tvInt(t string, v int64) TV     { return TV{T: t, I: &v} }
func tvUint(t string, v uint64) TV   { return TV{T: t, U: &v} }
func tvStr(v string) TV              { return TV{T: "string", S: &v} }
func tvJSON(v string) TV             { return TV{T: "json.Number", S: &v} }
func tvBool(v bool) TV               { return TV{T: "bool", B: &v} }
func tvFloat(t string, f float64) TV { return TV{T: t, F: strconv.FormatFloat(f, 'g', -1, 64)} }
func tvNil() TV                      { return TV{T: "nil"} }
func tvList(l ...TV) TV              { return TV{T: "[]interface{}", L: l} }
func tvSlice(t string, l ...TV) TV   { return TV{T: t, L: l} }

var signedKinds = map[string]bool{"int": true, "int8": true, "int16": true, "int32": true, "int64": true}
var unsignedKinds = map[string]bool{"uint": true, "uint8": true, "uint16": true, "uint32": true, "uint64": true}

func parseF(s string) float64 {
	f, err := strconv.ParseFloat(s, 64)
	if err != nil {
		panic(err)
	}
	return f
}

// scalar builds the Go scalar of type t.
func (tv TV) scalar() interface{} {
	switch tv.T {
	case "int":
		return int(*tv.I)
	case "int8":
		return int8(*tv.I)
	case "int16":
		return int16(*tv.I)
	case "int32":
		return int32(*tv.I)
	case "int64":
		return int64(*tv.I)
	case "uint":
		return uint(*tv.U)
	case "uint8":
		return uint8(*tv.U)
	case "uint16":
		return uint16(*tv.U)
	case "uint32":
		return uint32(*tv.U)
	case "uint64":
		return uint64(*tv.U)
	case "float64":
		return parseF(tv.F)
	case "float32":
		return float32(parseF(tv.F))
	case "string":
		return *tv.S
	case "json.Number":
		return json.Number(*tv.S)
	case "bool":
		return *tv.B
	}
	panic("not a scalar: " + tv.T)
}

var elemTypes = map[string]reflect.Type{
	"int": reflect.TypeOf(int(0)), "int8": reflect.TypeOf(int8(0)), "int16": reflect.TypeOf(int16(0)), "int32": reflect.TypeOf(int32(0)), "int64": reflect.TypeOf(int64(0)),
	"uint": reflect.TypeOf(uint(0)), "uint8": reflect.TypeOf(uint8(0)), "uint16": reflect.TypeOf(uint16(0)), "uint32": reflect.TypeOf(uint32(0)), "uint64": reflect.TypeOf(uint64(0)),
	"float32": reflect.TypeOf(float32(0)), "float64": reflect.TypeOf(float64(0)), "string": reflect.TypeOf(""), "json.Number": reflect.TypeOf(json.Number("")), "bool": reflect.TypeOf(false),
}

// A caller may build every list it hands to the library in buffers it reuses from one call to the next (the
// library must not keep a caller's slice beyond the call, nor tell lists apart by where they live).  With
// callerReusesBuffers set, the k-th typed list of a given type and length inside one document / assignment is
// materialised in the same backing array as the k-th such list of the previous document / assignment.
var (
	callerReusesBuffers bool
	callerBufs          = map[string]reflect.Value{}
	callerBufUse        = map[string]int{}
)

func newCallerObject() { // a new document or assignment starts: its lists may reuse the buffers of the previous one
	for k := range callerBufUse {
		delete(callerBufUse, k)
	}
}

func callerSlice(t string, st reflect.Type, n int) reflect.Value {
	if !callerReusesBuffers || n == 0 {
		return reflect.MakeSlice(st, n, n)
	}
	base := fmt.Sprintf("%s/%d", t, n)
	key := fmt.Sprintf("%s#%d", base, callerBufUse[base])
	callerBufUse[base]++
	if s, ok := callerBufs[key]; ok {
		return s
	}
	s := reflect.MakeSlice(st, n, n+2) // spare capacity, as append-built buffers have
	callerBufs[key] = s
	return s
}

type otherStruct struct{ A int }

// Value rebuilds the Go value.
func (tv TV) Value() interface{} {
	switch {
	case tv.T == "nil":
		return nil
	case tv.T == "[]interface{}":
		if tv.Nil {
			return []interface{}(nil)
		}
		l := make([]interface{}, len(tv.L))
		for i, e := range tv.L {
			l[i] = e.Value()
		}
		return l
	case strings.HasPrefix(tv.T, "[]") && elemTypes[tv.T[2:]] != nil:
		et := elemTypes[tv.T[2:]]
		st := reflect.SliceOf(et)
		if tv.Nil {
			return reflect.Zero(st).Interface()
		}
		s := callerSlice(tv.T, st, len(tv.L))
		for i, e := range tv.L {
			s.Index(i).Set(reflect.ValueOf(e.scalar()))
		}
		return s.Interface()
	case tv.T == "[2]int64":
		return [2]int64{*tv.L[0].I, *tv.L[1].I}
	case tv.T == "[2]int":
		return [2]int{int(*tv.L[0].I), int(*tv.L[1].I)}
	case tv.T == "[3]string":
		return [3]string{"a", "b", "c"}
	case tv.T == "[][]int":
		if tv.Nil {
			return [][]int(nil)
		}
		return [][]int{{1, 2}, {3}}
	case tv.T == "other:map":
		if tv.Nil {
			return map[string]int(nil)
		}
		return map[string]int{"a": 1}
	case tv.T == "other:ptr":
		if tv.Nil {
			return (*int)(nil)
		}
		x := 5
		return &x
	case tv.T == "other:chan":
		if tv.Nil {
			return (chan int)(nil)
		}
		return make(chan int)
	case tv.T == "other:func":
		if tv.Nil {
			return (func())(nil)
		}
		return func() {}
	case tv.T == "other:struct":
		return otherStruct{A: 1}
	case tv.T == "other:complex":
		return complex(1, 2)
	default:
		return tv.scalar()
	}
}

// textLit: the code points of s; a byte that is not part of valid UTF-8 is the item 1114112 + byte
// (Model/GoVal.v: text, valid_text).
func textLit(s string) string {
	if len(s) == 0 {
		return "[]"
	}
	var parts []string
	for i := 0; i < len(s); {
		r, w := utf8.DecodeRuneInString(s[i:])
		if r == utf8.RuneError && w == 1 {
			parts = append(parts, strconv.Itoa(1114112+int(s[i])))
		} else {
			parts = append(parts, strconv.Itoa(int(r)))
		}
		i += w
	}
	return "[" + strings.Join(parts, ";") + "]%N"
}

func bigZ(s string) string {
	if strings.HasPrefix(s, "-") {
		return "(" + s + ")%Z"
	}
	return s + "%Z"
}

func floatLit(f float64, text string) string {
	cls := "FFinite"
	ip := "0"
	frac := false
	switch {
	case math.IsNaN(f):
		cls = "FNaN"
	case math.IsInf(f, 1):
		cls = "FPosInf"
	case math.IsInf(f, -1):
		cls = "FNegInf"
	default:
		tr := math.Trunc(f)
		frac = tr != f
		bi, _ := big.NewFloat(tr).Int(nil)
		ip = bi.String()
	}
	return fmt.Sprintf("(Build_fl %s %s %s %s)", bigZ(ip), bl(frac), cls, textLit(text))
}

var ikindCoq = map[string]string{"int": "KI", "int8": "KI8", "int16": "KI16", "int32": "KI32", "int64": "KI64",
	"uint": "KU", "uint8": "KU8", "uint16": "KU16", "uint32": "KU32", "uint64": "KU64"}

func gtyOfElem(e string) string {
	return strings.ReplaceAll(e, ".", "")
}

// Coq prints the Gallina literal (type gval) of the value.
func (tv TV) Coq() string {
	switch {
	case tv.T == "nil":
		return "VNil"
	case signedKinds[tv.T]:
		return fmt.Sprintf("(VInt %s %s)", ikindCoq[tv.T], zl(*tv.I))
	case unsignedKinds[tv.T]:
		return fmt.Sprintf("(VInt %s %s%%Z)", ikindCoq[tv.T], strconv.FormatUint(*tv.U, 10))
	case tv.T == "float64":
		f := parseF(tv.F)
		return fmt.Sprintf("(VFloat false %s)", floatLit(f, fmt.Sprintf("%v", f)))
	case tv.T == "float32":
		f := float32(parseF(tv.F))
		return fmt.Sprintf("(VFloat true %s)", floatLit(float64(f), fmt.Sprintf("%v", f)))
	case tv.T == "string":
		return fmt.Sprintf("(VStr %s)", textLit(*tv.S))
	case tv.T == "json.Number":
		return fmt.Sprintf("(VJson %s)", textLit(*tv.S))
	case tv.T == "bool":
		return fmt.Sprintf("(VBool %s)", bl(*tv.B))
	case tv.T == "[]interface{}":
		es := make([]string, len(tv.L))
		for i, e := range tv.L {
			es[i] = e.Coq()
		}
		return fmt.Sprintf("(VList %s %s)", bl(tv.Nil), listl(es))
	case strings.HasPrefix(tv.T, "[]") && elemTypes[tv.T[2:]] != nil:
		es := make([]string, len(tv.L))
		for i, e := range tv.L {
			es[i] = e.Coq()
		}
		return fmt.Sprintf("(VSlice TS%s %s %s)", gtyOfElem(tv.T[2:]), bl(tv.Nil), listl(es))
	case tv.T == "[2]int64":
		return fmt.Sprintf("(VArr TA2int64 [%s; %s])", tv.L[0].Coq(), tv.L[1].Coq())
	case tv.T == "[2]int" || tv.T == "[3]string":
		return "(VArr TAother [])"
	case tv.T == "[][]int":
		return fmt.Sprintf("(VOther TSother %s)", bl(tv.Nil))
	case strings.HasPrefix(tv.T, "other:"):
		return fmt.Sprintf("(VOther T%s %s)", tv.T[6:], bl(tv.Nil))
	}
	panic("Coq: unknown type " + tv.T)
}

// short human readable form for summaries
func (tv TV) String() string {
	return fmt.Sprintf("%s(%v)", tv.T, tv.Value())
}

// ---- generators of value shapes ----

var intTypes = []string{"int", "int8", "int16", "int32", "int64", "uint", "uint8", "uint16", "uint32", "uint64"}

func fitInt(t string, v int64) TV {
	switch t {
	case "int8":
		return tvInt(t, int64(int8(v)))
	case "int16":
		return tvInt(t, int64(int16(v)))
	case "int32":
		return tvInt(t, int64(int32(v)))
	case "int", "int64":
		return tvInt(t, v)
	case "uint8":
		return tvUint(t, uint64(uint8(v)))
	case "uint16":
		return tvUint(t, uint64(uint16(v)))
	case "uint32":
		return tvUint(t, uint64(uint32(v)))
	default:
		return tvUint(t, uint64(v))
	}
}

// every shape of the universe with a representative value (C16/C17 exhaustive lists)
func allShapes() []TV {
	var out []TV
	out = append(out, tvNil())
	for _, t := range intTypes {
		out = append(out, fitInt(t, 7), fitInt(t, -3))
	}
	out = append(out, tvFloat("float64", 3), tvFloat("float64", 3.7), tvFloat("float64", -3), tvFloat("float32", 2.5), tvFloat("float32", 4))
	out = append(out, tvStr("7"), tvStr("abc"), tvStr(""), tvStr("-3"), tvStr("3.7"), tvJSON("7"), tvJSON("x"), tvBool(true))
	for _, t := range intTypes {
		out = append(out, tvSlice("[]"+t, fitInt(t, 7), fitInt(t, 1)), tvSlice("[]"+t), TV{T: "[]" + t, Nil: true})
	}
	out = append(out, tvSlice("[]float64", tvFloat("float64", 3), tvFloat("float64", 3.7)), tvSlice("[]float32", tvFloat("float32", 2)), TV{T: "[]float64", Nil: true})
	out = append(out, tvSlice("[]string", tvStr("7"), tvStr("abc")), tvSlice("[]string"), TV{T: "[]string", Nil: true})
	out = append(out, tvSlice("[]json.Number", tvJSON("7")), tvSlice("[]bool", tvBool(true)))
	out = append(out, tvList(), TV{T: "[]interface{}", Nil: true}, tvList(fitInt("int", 7), tvStr("abc")), tvList(tvNil(), fitInt("int", 1)),
		tvList(fitInt("int", 1), tvNil()), tvList(tvFloat("float64", 3.7)), tvList(tvList(fitInt("int", 1))), tvList(tvBool(true)), tvList(tvStr("1:3")),
		tvList(tvSlice("[]int", fitInt("int", 1))), tvList(tvJSON("7"), tvFloat("float32", 7)),
		// adjacent elements of the same uncomparable dynamic type (a JSON list of objects / of lists), equal scalars in a row
		tvList(TV{T: "other:map"}, TV{T: "other:map"}), tvList(fitInt("int", 2), tvList(fitInt("int", 1)), tvList(fitInt("int", 2))),
		tvList(fitInt("int", 7), fitInt("int", 7), tvStr("abc"), tvStr("abc")), tvList(TV{T: "other:func"}, TV{T: "other:func"}))
	out = append(out, TV{T: "[2]int64", L: []TV{tvInt("int64", 5), tvInt("int64", 9)}}, TV{T: "[2]int", L: []TV{tvInt("int", 5), tvInt("int", 9)}}, TV{T: "[3]string"})
	out = append(out, TV{T: "[][]int"}, TV{T: "[][]int", Nil: true})
	for _, k := range []string{"map", "ptr", "chan", "func"} {
		out = append(out, TV{T: "other:" + k}, TV{T: "other:" + k, Nil: true})
	}
	out = append(out, TV{T: "other:struct"}, TV{T: "other:complex"})
	return out
}
