package main

import (
	"encoding/json"
	"fmt"
	"math"

	be "github.com/echoface/be_indexer"
	"github.com/echoface/be_indexer/roaringidx"
)

const c16Rule = "exhaustive over the universe of value shapes (every scalar kind, every typed slice incl. empty and typed nil, fixed-size arrays, []interface{} with nil / nested / bool elements, maps, pointers, channels, funcs, structs, complex, untyped nil) x {field with default container, pattern container, range container, number parser, unknown field} x {k-groups, compact, roaring} x index states {ordinary documents; no document; configured pattern/range/default fields whose holders are empty (empty value lists, unparsable values skipped)}; every hostile retrieval is followed by ordinary retrievals on the same index/scanner; plus every shape on indexes published three times by one builder (panic-freedom only). retrievals with the WithStepDetail / WithDumpEntries options over keywords of 1..40 bytes (multi-byte ones of 6..24 characters), extreme numbers and range pieces; roaring indexes whose builder went on adding documents (keywords of the other polarity) after BuildIndexer, queried before the next build; Non-trivial = the hostile value reaches a holder of a known field (the retrieval returns an error or a result computed from it); distinct = distinct input"

// emptyListHolder: the stock default holder, except that "nothing matched" is an empty NON-nil cursor list
type emptyListHolder struct{ *be.DefaultEntriesHolder }

func (h *emptyListHolder) GetEntries(field *be.FieldDesc, assigns be.Values) (be.EntriesCursors, error) {
	cs, err := h.DefaultEntriesHolder.GetEntries(field, assigns)
	if err == nil && len(cs) == 0 {
		return make(be.EntriesCursors, 0, 4), nil
	}
	return cs, err
}

func init() {
	props["C16"] = &propDef{
		header:    "From BE Require Import Corr.CheckC16.",
		headers:   map[string]string{"E": "From BE Require Import Corr.CheckE2E.", "R": "From BE Require Import Corr.CheckRr."},
		rule:      c16Rule,
		shardSize: 60,
		gen: func(tier string, r *Rand, add func(in interface{})) {
			shapes := allShapes()
			// the ends of the integer ranges, in every spelling (a lookup structure indexed one past its end panics only there)
			shapes = append(shapes, tvInt("int64", 1<<63-1), tvInt("int64", -1<<63), tvUint("uint64", 1<<64-1), tvUint("uint64", 1<<63),
				tvStr("9223372036854775807"), tvJSON("-9223372036854775808"), tvList(tvInt("int64", 1<<63-1), tvInt("int64", 5)),
				tvSlice("[]int64", tvInt("int64", -1<<63), tvInt("int64", 1<<63-1)), tvFloat("float64", 9.3e18), tvFloat("float64", -9.3e18), tvStr("9223372036854775808"))
			// strings that are not valid UTF-8, and the replacement character such bytes read as
			shapes = append(shapes, tvStr("\xff"), tvStr("a\xfeb"), tvStr("\uFFFD"), tvSlice("[]string", tvStr("x"), tvStr("\xfe")), tvList(tvStr("\xc3"), tvInt("int", 1)), tvJSON("\xff"))
			if tier == "thorough" {
				shapes = append(shapes, scalarZoo()...)
			}
			docs := []eDoc{
				{ID: 8, Cons: []eConj{{{F: 1, Inc: true, V: tvSlice("[]string", tvStr("\xff"), tvStr("k\xfe"))}}}},
				{ID: 9, Cons: []eConj{{{F: 1, Inc: false, V: tvStr("\xfd")}, {F: 0, Inc: true, V: tvSlice("[]int", tvInt("int", 7))}}}},
				{ID: 1, Cons: []eConj{{{F: 0, Inc: true, V: tvSlice("[]int", tvInt("int", 7), tvInt("int", 1))}, {F: 1, Inc: true, V: tvSlice("[]string", tvStr("abc"), tvStr("7"))}}}},
				{ID: -2, Cons: []eConj{{{F: 2, Inc: true, Op: 3, V: tvSlice("[]int64", tvInt("int64", 0), tvInt("int64", 1000))}, {F: 0, Inc: false, V: tvSlice("[]int", tvInt("int", 3))}}}},
				{ID: 3, Cons: []eConj{{{F: 4, Inc: true, V: tvSlice("[]int", tvInt("int", 7))}}, {}}},
				{ID: 4, Cons: []eConj{{{F: 2, Inc: true, V: tvSlice("[]int", tvInt("int", 7), tvInt("int", 5))}}}},
			}
			good := []eQuery{
				{A: []eAssign{{F: 0, V: tvInt("int", 7)}, {F: 1, V: tvStr("xabcx")}, {F: 2, V: tvInt("int", 5)}, {F: 4, V: tvStr("7")}}},
				{A: []eAssign{{F: 0, V: tvInt("int", 3)}}},
				{},
			}
			for _, kind := range []string{"kgroups", "compact"} {
				for _, v := range shapes {
					c := eCase{Kind: kind, Policy: "error", Configs: map[int]string{1: "ac_matcher", 2: "ext_range"}, Parsers: map[int]string{4: "number"}, Docs: docs}
					for f := 0; f <= 5; f++ { // field 3 never occurs in a document; field 5 neither
						c.Queries = append(c.Queries, eQuery{A: []eAssign{{F: f, V: v}}}, good[f%len(good)])
					}
					// hostile value next to good ones
					c.Queries = append(c.Queries, eQuery{A: []eAssign{{F: 0, V: tvInt("int", 7)}, {F: 1, V: v}, {F: 2, V: tvInt("int", 5)}}}, good[0])
					// ... on each field in turn while the other fields satisfy conjunctions of larger size (the k-groups
					// scan has then collected documents before the holder of a smaller group rejects the value); the
					// retrievals that follow must not see them
					for _, f := range []int{2, 4, 0, 1} {
						a := append([]eAssign{}, good[0].A...)
						for j := range a {
							if a[j].F == f {
								a[j].V = v
							}
						}
						c.Queries = append(c.Queries, eQuery{A: a}, good[1], eQuery{A: []eAssign{{F: 0, V: tvInt("int", 9)}}})
					}
					add(c)
				}
			}
			// the retrieve options WithStepDetail / WithDumpEntries (every cursor is labelled and dumped): keys of every
			// kind -- keywords of 1..40 bytes and 1..20 characters incl. multi-byte ones, extreme numbers, range pieces
			for _, kind := range []string{"kgroups", "compact"} {
				kws := []string{"a", "redpacket", "fifteen-chars-xx", "sixteen-chars-xxx", "seventeen-chars-xx", "中华人民共和国万岁", "Привет, мир!!", "日本語のキーワードです", "ключевое слово подлиннее", "é", "naïve café crème"}
				c := eCase{Kind: kind, Policy: "error", Configs: map[int]string{1: "ac_matcher", 2: "ext_range"}, Parsers: map[int]string{4: "number"}}
				for i, k := range kws {
					c.Docs = append(c.Docs, eDoc{ID: int64(i + 1), Cons: []eConj{{{F: 1, Inc: i%3 != 2, V: tvSlice("[]string", tvStr(k))}}}})
				}
				c.Docs = append(c.Docs,
					eDoc{ID: 50, Cons: []eConj{{{F: 0, Inc: true, V: tvSlice("[]int64", tvInt("int64", 1<<62), tvInt("int64", -(1<<62)))}, {F: 2, Inc: true, Op: 3, V: tvSlice("[]int64", tvInt("int64", -(1<<61)), tvInt("int64", 1<<61))}}}},
					eDoc{ID: 51, Cons: []eConj{{{F: 4, Inc: true, V: tvSlice("[]int64", tvInt("int64", 1<<62))}, {F: 0, Inc: false, V: tvStr("a rather long text value on a default field")}}}})
				for _, k := range kws {
					c.Queries = append(c.Queries, eQuery{A: []eAssign{{F: 1, V: tvStr("标语: " + k + "!")}}, Debug: true}, eQuery{A: []eAssign{{F: 1, V: tvSlice("[]string", tvStr(k), tvStr("x"))}, {F: 0, V: tvInt("int64", 1<<62)}, {F: 2, V: tvInt("int64", 5)}}, Debug: true})
				}
				c.Queries = append(c.Queries, eQuery{A: []eAssign{{F: 4, V: tvInt("int64", 1<<62)}, {F: 0, V: tvStr("a rather long text value on a default field")}}, Debug: true}, eQuery{Debug: true})
				add(c)
			}
			// wide assignments: 5..9 fields each hitting a posting list of one size group (a scan over that many live
			// cursors), with and without a hostile value among them
			for _, kind := range []string{"kgroups", "compact"} {
				var wide eConj
				for f := 10; f < 19; f++ {
					wide = append(wide, eExpr{F: f, Inc: true, V: tvSlice("[]int", tvInt("int", 1), tvInt("int", 2))})
				}
				wdocs := []eDoc{{ID: 1, Cons: []eConj{wide}}, {ID: 2, Cons: []eConj{wide[:6], {{F: 10, Inc: false, V: tvInt("int", 2)}}}}, {ID: 3, Cons: []eConj{wide[2:9]}}}
				c := eCase{Kind: kind, Policy: "error", Docs: wdocs}
				for n := 4; n <= 9; n++ {
					var a []eAssign
					for f := 10; f < 10+n; f++ {
						a = append(a, eAssign{F: f, V: tvInt("int", int64(1+f%2))})
					}
					c.Queries = append(c.Queries, eQuery{A: a})
					for _, v := range []TV{tvBool(true), tvNil(), {T: "other:struct"}, tvList(tvInt("int", 1), tvNil())} {
						b := append([]eAssign{}, a...)
						b[len(b)-1].V = v
						c.Queries = append(c.Queries, eQuery{A: b}, eQuery{A: a})
					}
				}
				add(c)
			}
			// degenerate index states: configured fields whose holders hold nothing (no document at all; empty
			// value lists; a keyword / range value that does not parse under the Skip policy, so the holder was
			// created and stays empty), next to one match-everything document
			hollow := []eDoc{
				{ID: 1, Cons: []eConj{{{F: 1, Inc: true, V: tvSlice("[]string")}}}},
				{ID: 2, Cons: []eConj{{{F: 1, Inc: true, V: tvInt("int", 12345)}}}},
				{ID: 3, Cons: []eConj{{{F: 2, Inc: true, V: tvSlice("[]int")}}}},
				{ID: 4, Cons: []eConj{{{F: 2, Inc: true, V: tvStr("x")}}}},
				{ID: 5, Cons: []eConj{{{F: 0, Inc: true, V: tvSlice("[]int")}}}},
				{ID: 6, Cons: []eConj{{}}},
			}
			for _, kind := range []string{"kgroups", "compact"} {
				for _, st := range [][]eDoc{nil, hollow, hollow[:2], hollow[2:4]} {
					for _, v := range shapes {
						c := eCase{Kind: kind, Policy: "skip", Configs: map[int]string{1: "ac_matcher", 2: "ext_range"}, Parsers: map[int]string{4: "number"}, Docs: st}
						for f := 0; f <= 2; f++ {
							c.Queries = append(c.Queries, eQuery{A: []eAssign{{F: f, V: v}}})
						}
						c.Queries = append(c.Queries, good[0], eQuery{A: []eAssign{{F: 1, V: tvStr("hello world")}, {F: 2, V: tvInt("int", 5)}}},
							eQuery{A: []eAssign{{F: 1, V: tvSlice("[]string", tvStr("a"), tvStr("b"))}}}, eQuery{A: []eAssign{{F: 1, V: tvList(tvStr("a"), tvStr("b"))}}})
						add(c)
					}
				}
			}
			for _, st := range [][]eDoc{nil, {hollow[0], hollow[4], hollow[5]}} {
				for _, v := range shapes {
					c := rCase{Fields: []rField{{F: 0, Cont: "default"}, {F: 1, Cont: "ac_matcher"}, {F: 4, Cont: "default", Parser: "number"}}, Docs: st}
					for _, f := range []int{0, 1, 4} {
						c.Ops = append(c.Ops, rOp{S: 0, Op: "reset"}, rOp{S: 0, Op: "retrieve", A: []eAssign{{F: f, V: v}}})
					}
					c.Ops = append(c.Ops, rOp{S: 0, Op: "reset"}, rOp{S: 0, Op: "docs", A: []eAssign{{F: 1, V: tvStr("hello world")}}})
					add(c)
				}
			}
			rdocs := []eDoc{docs[0], docs[1], docs[2], {ID: -2, Cons: []eConj{{{F: 0, Inc: false, V: tvSlice("[]int", tvInt("int", 3))}}}}, {ID: 3, Cons: []eConj{{{F: 4, Inc: true, V: tvSlice("[]int", tvInt("int", 7))}}, {}}}}
			for _, v := range shapes {
				c := rCase{Fields: []rField{{F: 0, Cont: "default"}, {F: 1, Cont: "ac_matcher"}, {F: 4, Cont: "default", Parser: "number"}}, Docs: rdocs}
				for _, f := range []int{0, 1, 4, 5} {
					c.Ops = append(c.Ops, rOp{S: 0, Op: "reset"}, rOp{S: 0, Op: "retrieve", A: []eAssign{{F: f, V: v}}},
						rOp{S: 0, Op: "reset"}, rOp{S: 0, Op: "docs", A: good[0].A}, rOp{S: 1, Op: "retrieve", A: good[1].A}, rOp{S: 1, Op: "reset"})
				}
				add(c)
			}
		},
		// indexes published more than once by the same builder (BuildIndex, more documents, BuildIndex, BuildIndex):
		// only panic-freedom is checked here ("any built index"); the answers of such indexes are not claimed
		extra: func(tier string, seed uint64, outdir string) (map[string]interface{}, []string) {
			calls, viol := compileFaultProbe()
			for _, kind := range []string{"kgroups", "compact"} {
				c := eCase{Kind: kind, Policy: "skip", Configs: map[int]string{1: "ac_matcher", 2: "ext_range"}, Parsers: map[int]string{4: "number"}}
				restore := installParsers(c.Parsers)
				b := newBuilder(&c)
				mk := func(id int64, cj eConj) *be.Document { d := eDoc{ID: id, Cons: []eConj{cj}}; return d.build() }
				first := []*be.Document{
					mk(1, eConj{{F: 0, Inc: true, V: tvSlice("[]int", tvInt("int", 7))}, {F: 1, Inc: true, V: tvStr("abc")}}),
					mk(2, eConj{{F: 2, Inc: true, Op: 1, V: tvInt("int64", 18)}}),
					mk(3, eConj{{F: 2, Inc: true, V: tvSlice("[]int", tvInt("int", 5))}, {F: 4, Inc: false, V: tvInt("int", 3)}}),
				}
				later := []*be.Document{
					mk(4, eConj{{F: 2, Inc: true, Op: 2, V: tvInt("int64", 100)}}),
					mk(5, eConj{{F: 1, Inc: false, V: tvStr("zz")}, {F: 5, Inc: true, V: tvStr("late")}}),
				}
				for _, d := range first {
					safeCall(func() { b.AddDocument(d) })
				}
				var index be.BEIndex
				if safeCall(func() { index = b.BuildIndex() }) {
					restore()
					continue
				}
				for _, d := range later {
					safeCall(func() { b.AddDocument(d) })
				}
				if safeCall(func() { index = b.BuildIndex() }) || safeCall(func() { index = b.BuildIndex() }) {
					restore()
					continue // a refusal to build again is not a retrieval panic
				}
				for _, v := range allShapes() {
					for f := 0; f <= 5; f++ {
						for _, q := range []be.Assignments{
							{fieldName(f): v.Value()},
							{fieldName(0): 7, fieldName(1): "xabcx", fieldName(2): 20, fieldName(f): v.Value()},
						} {
							calls++
							if safeCall(func() { index.Retrieve(q) }) && len(viol) < 3 {
								viol = append(viol, fmt.Sprintf("Retrieve panicked on a %s index published three times by its builder: field f%d value %s", kind, f, v.T))
							}
						}
					}
				}
				restore()
			}
			// roaring builders that go on after BuildIndexer (documents with keywords / values of a polarity the built
			// index has not seen, no rebuild yet): the published index is queried in that window
			for _, incFirst := range []bool{true, false} {
				b := roaringidx.NewIndexerBuilder()
				b.ConfigureField(string(fieldName(0)), roaringidx.FieldSetting{Container: "default"})
				b.ConfigureField(string(fieldName(1)), roaringidx.FieldSetting{Container: roaringidx.ContainerNameAcMatch})
				d1 := eDoc{ID: 1, Cons: []eConj{{{F: 1, Inc: incFirst, V: tvSlice("[]string", tvStr("apple"))}, {F: 0, Inc: incFirst, V: tvSlice("[]int", tvInt("int", 1))}}}}
				d2 := eDoc{ID: 2, Cons: []eConj{{{F: 1, Inc: !incFirst, V: tvSlice("[]string", tvStr("day"), tvStr("apple"))}, {F: 0, Inc: !incFirst, V: tvSlice("[]int", tvInt("int", 2))}}}}
				if safeCall(func() { b.AddDocument(d1.build()) }) {
					continue
				}
				var idx *roaringidx.IvtBEIndexer
				if safeCall(func() { idx, _ = b.BuildIndexer() }) || idx == nil {
					continue
				}
				safeCall(func() { b.AddDocument(d2.build()) })
				for _, v := range append(allShapes(), tvStr("an apple a day"), tvSlice("[]string", tvStr("an apple"), tvStr("a day")), tvList(tvStr("day")), tvStr("")) {
					for _, q := range []be.Assignments{{fieldName(1): v.Value()}, {fieldName(0): 2, fieldName(1): v.Value()}, {fieldName(0): v.Value()}} {
						calls++
						sc := roaringidx.NewScanner(idx)
						if (safeCall(func() { sc.Retrieve(q) }) || safeCall(func() { sc.Reset(); sc.RetrieveDocs(q) })) && len(viol) < 5 {
							viol = append(viol, fmt.Sprintf("Retrieve panicked on a roaring index whose builder went on adding documents after BuildIndexer: value %s", v.T))
						}
					}
				}
			}
			// fields whose values go through the geohash parser (not in the Coq model): panic-freedom of Retrieve only,
			// for the default option and for precisions finer than the compression cutoff
			geoCalls := 0
			for _, kind := range []string{"kgroups", "compact"} {
				for _, pn := range []string{"geohash", "geohash7", "geohash8"} {
					c := eCase{Kind: kind, Policy: "skip", Parsers: map[int]string{6: pn}}
					restore := installParsers(c.Parsers)
					b := newBuilder(&c)
					d1 := eDoc{ID: 1, Cons: []eConj{{{F: 6, Inc: true, V: tvStr("39.9:116.4:60")}}}}
					d2 := eDoc{ID: 2, Cons: []eConj{{{F: 0, Inc: true, V: tvSlice("[]int", tvInt("int", 7))}, {F: 6, Inc: false, V: tvStr("10:20:40")}}}}
					safeCall(func() { b.AddDocument(d1.build()) })
					safeCall(func() { b.AddDocument(d2.build()) })
					var index be.BEIndex
					if safeCall(func() { index = b.BuildIndex() }) {
						restore()
						continue
					}
					vals := []interface{}{[2]float64{39.9, 116.4}, []float64{39.9, 116.4}, []float64{10, 20}, [2]float64{math.NaN(), 1}, [2]float64{math.Inf(1), math.Inf(-1)},
						[2]float64{1000, -1000}, [2]float64{-90, -180}, [2]float64{90, 180}, []float64{}, []float64{1}, []float64{1, 2, 3}, "39.9:116.4:500"}
					for _, v := range allShapes() {
						vals = append(vals, v.Value())
					}
					for _, v := range vals {
						for _, q := range []be.Assignments{{fieldName(6): v}, {fieldName(0): 7, fieldName(6): v}} {
							geoCalls++
							if safeCall(func() { index.Retrieve(q) }) && len(viol) < 5 {
								viol = append(viol, fmt.Sprintf("Retrieve panicked on a %s index with a %s field: value %T %v", kind, pn, v, v))
							}
						}
					}
					restore()
				}
			}
			// a custom holder registered through the public extension point (embeds the stock default holder) that answers
			// "nothing matched" with an EMPTY, non-nil cursor list, as a pre-sizing implementation would
			customCalls := 0
			for _, kind := range []string{"kgroups", "compact"} {
				be.RegisterEntriesHolder("verif_custom", func() be.EntriesHolder { return &emptyListHolder{be.NewDefaultEntriesHolder()} })
				c := eCase{Kind: kind, Policy: "error"}
				b := newBuilder(&c)
				safeCall(func() { b.ConfigField(fieldName(6), be.FieldOption{Container: "verif_custom"}) })
				for i, d := range []eDoc{
					{ID: 1, Cons: []eConj{{{F: 6, Inc: true, V: tvStr("gold")}, {F: 0, Inc: true, V: tvSlice("[]int", tvInt("int", 1))}}}},
					{ID: 2, Cons: []eConj{{{F: 6, Inc: false, V: tvStr("gold")}}, {{F: 0, Inc: true, V: tvSlice("[]int", tvInt("int", 2))}}}},
					{ID: 3, Cons: []eConj{{{F: 6, Inc: true, V: tvSlice("[]string", tvStr("silver"), tvStr("gold"))}}}},
				} {
					_ = i
					safeCall(func() { b.AddDocument(d.build()) })
				}
				var index be.BEIndex
				if safeCall(func() { index = b.BuildIndex() }) {
					continue
				}
				vals := []interface{}{"gold", "bronze", "", []string{}, []string{"none"}, []interface{}{}, nil, 7}
				for _, v := range allShapes() {
					vals = append(vals, v.Value())
				}
				for _, v := range vals {
					for _, q := range []be.Assignments{{fieldName(6): v}, {fieldName(6): v, fieldName(0): 1}, {fieldName(6): v, fieldName(0): 2}} {
						customCalls++
						if safeCall(func() { index.Retrieve(q) }) && len(viol) < 8 {
							viol = append(viol, fmt.Sprintf("Retrieve panicked on a %s index with a custom holder that answers with an empty non-nil cursor list: %v", kind, q))
						}
					}
				}
			}
			// large results: a retrieval returning more than 4096 documents (the size at which bitmaps change their layout
			// and pools their policy), then retrievals matching nothing, a few and everything again -- through Retrieve (pooled
			// collector) and through one caller-owned collector that is Reset between calls.  Panic-freedom and result sizes.
			bigCalls := 0
			for _, kind := range []string{"kgroups", "compact"} {
				c := eCase{Kind: kind, Policy: "error"}
				b := newBuilder(&c)
				for i := 0; i < 5000; i++ {
					d := eDoc{ID: int64(i), Cons: []eConj{{{F: 0, Inc: true, V: tvSlice("[]int", tvInt("int", 1))}}}}
					b.AddDocument(d.build())
				}
				small := eDoc{ID: 7000, Cons: []eConj{{{F: 0, Inc: true, V: tvSlice("[]int", tvInt("int", 2))}, {F: 1, Inc: true, V: tvStr("sh")}}}}
				b.AddDocument(small.build())
				var index be.BEIndex
				if safeCall(func() { index = b.BuildIndex() }) {
					continue
				}
				own := be.NewDocIDCollector()
				seq := []struct {
					q    be.Assignments
					want int
				}{
					{be.Assignments{fieldName(0): 1}, 5000}, {be.Assignments{fieldName(0): 2, fieldName(1): "bj"}, 0}, {be.Assignments{fieldName(0): 9}, 0},
					{be.Assignments{fieldName(0): 2, fieldName(1): "sh"}, 1}, {be.Assignments{fieldName(0): 1}, 5000}, {be.Assignments{}, 0}, {be.Assignments{fieldName(0): []int{1, 2}, fieldName(1): "sh"}, 5001},
				}
				for round := 0; round < 2; round++ {
					for _, st := range seq {
						bigCalls += 2
						var docs be.DocIDList
						var err error
						if safeCall(func() { docs, err = index.Retrieve(st.q) }) {
							viol = append(viol, fmt.Sprintf("Retrieve panicked on a %s index of 5001 documents after a result of more than 4096 documents: %v", kind, st.q))
						} else if err != nil || len(docs) != st.want {
							viol = append(viol, fmt.Sprintf("Retrieve on a %s index of 5001 documents: %v returned %d documents (%v), want %d", kind, st.q, len(docs), err, st.want))
						}
						p := safeCall(func() { own.Reset(); err = index.RetrieveWithCollector(st.q, own) })
						if p {
							viol = append(viol, fmt.Sprintf("RetrieveWithCollector (caller-owned collector, Reset between calls) panicked on a %s index of 5001 documents: %v", kind, st.q))
							own = be.NewDocIDCollector()
						} else if err != nil || own.DocCount() != st.want {
							viol = append(viol, fmt.Sprintf("caller-owned collector on a %s index of 5001 documents: %v collected %d documents (%v), want %d", kind, st.q, own.DocCount(), err, st.want))
						}
						if len(viol) > 6 {
							break
						}
					}
				}
			}
			return map[string]interface{}{"republished_index_retrievals": calls, "geohash_field_retrievals": geoCalls, "large_result_retrievals": bigCalls, "custom_holder_retrievals": customCalls}, viol
		},
		exec: func(raw json.RawMessage) (execResult, error) {
			var probe struct {
				Fields json.RawMessage `json:"fields"`
			}
			json.Unmarshal(raw, &probe)
			if probe.Fields != nil {
				res, err := execRr(raw)
				res.Family = "R"
				res.NonTrivial = true
				return res, err
			}
			res, err := execE2E(raw)
			res.Family = "E"
			res.NonTrivial = true
			return res, err
		},
	}
}
