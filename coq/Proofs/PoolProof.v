(* C10: with the Reset-before-Put discipline every retrieval of every history returns what the pure
   retrieval function returns, whatever objects sync.Pool hands out. *)
From Coq Require Import List NArith ZArith Bool Lia.
From BE Require Import Model.GoTypes Model.GoVal Model.Parsers Model.Index Model.Pool.
Import ListNotations.

Definition pool_inv (p : pool) : Prop := Forall (fun o => o = []) p.

Lemma remove_nth_inv {A} (P : A -> Prop) n l : Forall P l -> Forall P (remove_nth n l).
Proof.
  revert n. induction l as [|x l IH]; intros n H; destruct n; cbn; auto; inversion H; subst; auto.
Qed.

Lemma pool_get_inv p ch : pool_inv p -> fst (pool_get p ch) = [] /\ pool_inv (snd (pool_get p ch)).
Proof.
  intros H. unfold pool_get. destruct (nth_error p ch) as [o|] eqn:E; cbn.
  - split; [|apply remove_nth_inv; exact H].
    unfold pool_inv in H. rewrite Forall_forall in H. apply H. eapply nth_error_In; eauto.
  - split; auto.
Qed.

Lemma collect_docs_bits hits : docs_of_bits (map (fun h => Z.to_N (wrap_u64 (fst h))) hits) = collect_docs hits.
Proof. reflexivity. Qed.

Theorem retrieve_pooled_pure ix q p ch : pool_inv p ->
  fst (retrieve_pooled true ix q p ch) = retrieve ix q /\ pool_inv (snd (retrieve_pooled true ix q p ch)).
Proof.
  intros H. unfold retrieve_pooled, retrieve. destruct (pool_get_inv p ch H) as [Hc Hp].
  destruct (pool_get p ch) as [c p1]. cbn [fst snd] in *. subst c.
  destruct (retrieve_hits ix q); cbn [fst snd app]; split; try reflexivity; constructor; auto.
Qed.

Theorem history_independent : forall h p, pool_inv p ->
  run_history true h p = map (fun x => retrieve (fst (fst x)) (snd (fst x))) h.
Proof.
  induction h as [|[[ix q] ch] rest IH]; intros p H; cbn [run_history map fst snd]; [reflexivity|].
  destruct (retrieve_pooled_pure ix q p ch H) as [Hr Hp].
  destruct (retrieve_pooled true ix q p ch) as [r p']. cbn [fst snd] in *. subst r. f_equal. apply IH. exact Hp.
Qed.
