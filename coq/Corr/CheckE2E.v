(* End-to-end cases on the posting-list indexes: model leg (Model/Index.v against the real code). *)
From Coq Require Import List NArith ZArith Bool.
From BE Require Import Model.GoTypes Model.GoVal Model.Parsers Model.Index Model.RangeIdx Model.Spec Corr.Common.
From BE Require Gen.ConstsGen.
From BE Require Export Corr.SpecE2E.
Import ListNotations.
Local Open Scope Z_scope.

(* false: the tree registers a size-0 conjunction's match-everything entry only after a successful parse *)
Definition wildcard_first_in_tree : bool := false.

Definition model_builder (c : ecase) : option bstate :=
  fold_left (fun st fc => match st with Some s => config_field s (fst fc) (snd fc) | None => None end)
            (k_configs c)
            (Some (new_builder (k_kind c) (k_pol c) ConstsGen.RangeCvtValuesSize (parsers_of (k_parsers c)))).

Definition add_matches (m : add_out) (i : iadd) : option bool :=   (* None = outside the modelled fragment *)
  match m, i with
  | AddOk, IAddOk | AddErr, IAddErr | AddPanic, IAddPanic => Some true
  | AddUnmodelled, _ => None
  | _, _ => Some false
  end.

Definition hit_triples (hs : list hitrec) : list (Z * (Z * Z)) :=
  map (fun h => (fst h, (IdsGen.ConjID_Index (snd h), IdsGen.ConjID_Size (snd h)))) hs.

Definition query_matches (ix : index) (qr : assignment * ires) : option bool :=
  let '(q, r) := qr in
  match retrieve_hits ix q, r with
  | ROk hs, IRes docs hits => Some (eqb_list Z.eqb docs (collect_docs hs) && multiset_eqb triple_eqb hits (hit_triples hs))
  | RErr, IErr => Some true
  | RPanic, IPanic => Some true
  | RUnmodelled, _ => None
  | _, _ => Some false
  end.

Definition holder_entries (h : holder) : list N :=
  match h with
  | HDefault pls => flat_map snd pls
  | HAc vals => flat_map snd vals
  | HRange kv pcs => flat_map snd kv ++ flat_map RangeIdx.pe pcs
  end.
Definition index_entries (ix : index) : list N :=
  flat_map (fun ec => holder_entries (ec_default ec) ++ flat_map (fun fh => holder_entries (snd fh)) (ec_fields ec)) (ix_conts ix).
Definition state_matches (ix : index) (o : option (list N * list N)) : option bool :=
  match o with
  | None => Some true
  | Some (es, z) => Some (eqb_list N.eqb (sortN es) (sortN (index_entries ix)) && eqb_list N.eqb z (ix_z ix))
  end.

Fixpoint all_ok (l : list (option bool)) : bool * bool :=    (* (no mismatch, everything modelled) *)
  match l with
  | [] => (true, true)
  | Some b :: l' => let '(a, m) := all_ok l' in (b && a, m)
  | None :: l' => let '(a, _) := all_ok l' in (a, false)
  end.

(* (model agrees, fully modelled) *)
Definition model_verdict (c : ecase) : bool * bool :=
  match model_builder c with
  | None => (false, true)
  | Some st0 =>
    let '(st, outs) := add_documents wildcard_first_in_tree st0 (map fst (k_docs c)) in
    let adds := map (fun oi => add_matches (fst oi) (snd oi)) (combine outs (map snd (k_docs c))) in
    (* the model stops a document at its first failure exactly like the code, so states agree only
       when the outcomes agree; later comparisons are meaningful in either case *)
    let ix := build_index st in
    all_ok (adds ++ state_matches ix (k_state c) :: map (query_matches ix) (k_queries c))
  end.

Definition check (c : ecase) : verdict :=
  let '(s, d, g) := spec_verdict c in
  let '(m, modelled) := model_verdict c in
  (* once a step leaves the modelled fragment the model state is no longer comparable *)
  mk_verdict (m || negb modelled) s (d && modelled) g.
Definition run (cs : list ecase) := check_all check cs.
