(* C01  K-groups index returns exactly the documents whose DNF is satisfied.
   Statements only.  Layers (see DESIGN §6 C01):
     A  stream level: documents -> per-size posting streams -> generic conjunction scan = DNF semantics
        (Model/Build.v, Model/Scan.v; any term matcher `qmatch`)
     B  concrete cursors refine streams (Proofs/Refine.v: R_skip, R_hkey) and the id codec is an
        order isomorphism (Props/C11.v)
   The concrete executable model compared with the code on every run is Model/Index.v. *)
From Coq Require Import List NArith ZArith Bool Permutation.
From BE Require Import Model.Scan Model.Build Proofs.ScanProof Proofs.BuildProof Proofs.Glue.
Import ListNotations.
Local Open Scope N_scope.

(* Layer A, all document sets / assignments / matchers: the k-groups retrieval over the built
   streams terminates (fuel suffices) and returns, each exactly once, precisely the conjunction ids
   of the satisfied conjunctions. *)
Theorem C01_kgroups_streams_exact :
  forall (qval : Type) (qmatch : qval -> term -> bool) (cid_of : Z -> nat -> nat -> N)
         (ds : list doc) (q : assignment qval),
  NoDup (map fst q) ->
  (forall d i c d' i' c', has_conj ds d i c -> has_conj ds d' i' c' ->
     cid_of (d_id d) i (calc_size c) = cid_of (d_id d') i' (calc_size c') -> d = d' /\ i = i') ->
  exists r, retrieve qval qmatch (build cid_of ds) q = Some r /\ NoDup r /\
    forall x, In x r <-> exists d i c, has_conj ds d i c /\ sat_conj qval qmatch q c = true /\ x = the_cid cid_of d i c.
Proof. exact retrieve_correct. Qed.

Print Assumptions C01_kgroups_streams_exact.
