(* BRIDGE between the representation-free specification (Model/Spec.v) and the end-to-end theorems
   about the executable posting-list index (Proofs/IndexCorrect.v), for fields in the DEFAULT
   container (fields = []: no ConfigField, every field f uses parser `parsers f`).

   1. hit_ids            Spec.hit on denotations = "some parsed id of the expression is a parsed id
                         of the assigned value" (u64id is injective on what the specification's
                         integer denotations produce: they lie in [-2^63, 2^63) UNCONDITIONALLY)
   2. sat_conj_conj_sat  sat_conj [] parsers q sc = Some (conj_sat parsers q cj)
      conj_ok_conj_sem   conj_ok parsers cj = true <-> conj_sem [] parsers cj <> None
   3. index_correct_spec / index_sat_hits   index_correct restated against Model/Spec.v only. *)
From Coq Require Import List NArith ZArith Bool Lia Permutation.
From BE Require Import Model.GoTypes Model.GoVal Model.Parsers Model.Index Model.Spec.
From BE Require Import Proofs.ParsersProof Proofs.DenoteProof Proofs.IndexBuildInv Proofs.IndexCorrect.
From BE Require Gen.IdsGen Proofs.IdsProof Proofs.RoaringProof Proofs.NoTrace.
Import ListNotations.
Local Open Scope Z_scope.

(* ================================================================== *)
(* 0. the integers the specification denotes lie in the int64 range    *)
(* ================================================================== *)

Definition in_i64 (z : Z) : Prop := - two63 <= z < two63.

Lemma wrap_u64_inj a b : in_i64 a -> in_i64 b -> wrap_u64 a = wrap_u64 b -> a = b.
Proof.
  unfold in_i64, wrap_u64, two63, two64. intros Ha Hb H.
  pose proof (Z.div_mod a 18446744073709551616 ltac:(lia)) as Da.
  pose proof (Z.div_mod b 18446744073709551616 ltac:(lia)) as Db.
  pose proof (Z.mod_pos_bound a 18446744073709551616 ltac:(lia)).
  pose proof (Z.mod_pos_bound b 18446744073709551616 ltac:(lia)).
  lia.
Qed.

Lemma u64id_eqb a b : in_i64 a -> in_i64 b -> pid_eqb (u64id a) (u64id b) = (a =? b).
Proof.
  intros Ha Hb. unfold u64id. cbn [pid_eqb].
  destruct (Z.eqb_spec a b) as [->|Hne]; [apply Z.eqb_refl|].
  apply Z.eqb_neq. intros E. apply Hne. apply wrap_u64_inj; assumption.
Qed.

Lemma wrap_i64_range z : in_i64 (wrap_i64 z).
Proof.
  unfold in_i64, wrap_i64, two63, two64.
  pose proof (Z.mod_pos_bound (z + 9223372036854775808) 18446744073709551616 ltac:(lia)). lia.
Qed.

Lemma parse_int_text_range s z : parse_int_text s = Some z -> in_i64 z.
Proof.
  unfold parse_int_text.
  match goal with |- context [let '(a, b) := ?p in _] => destruct p as [neg ds] end.
  destruct ds as [|c ds]; [discriminate|].
  destruct (forallb is_digit (c :: ds)); [|discriminate].
  match goal with |- context [if ?c then Some ?v else None] => destruct c eqn:E end; [|discriminate].
  intros [= <-]. apply andb_prop in E. destruct E as [E1 E2].
  apply Z.leb_le in E1. apply Z.ltb_lt in E2. split; assumption.
Qed.

Lemma digits_val_nonneg ds : forallb is_digit ds = true -> 0 <= digits_val ds.
Proof.
  unfold digits_val. assert (G : forall acc, 0 <= acc -> forallb is_digit ds = true ->
    0 <= fold_left (fun a c => a * 10 + (Z.of_N c - 48)) ds acc); [|apply G; lia].
  induction ds as [|c ds IH]; intros acc Ha H; cbn [fold_left forallb] in *; [exact Ha|].
  apply andb_prop in H. destruct H as [Hc Hr]. apply IH; [|exact Hr].
  unfold is_digit in Hc. apply andb_prop in Hc. destruct Hc as [H1 H2].
  apply N.leb_le in H1. lia.
Qed.

Lemma plain_decimal_digits s neg ip fpd : plain_decimal s = Some (neg, ip, fpd) ->
  forallb is_digit ip = true /\ forallb is_digit fpd = true.
Proof.
  unfold plain_decimal.
  match goal with |- context [let '(a, b) := ?p in _] => destruct p as [n body] end.
  destruct (split_at_dot body) as [i fp].
  set (fd := match fp with Some d => d | None => [] end).
  destruct (forallb is_digit i) eqn:Ei; cbn [andb negb]; [|discriminate].
  destruct (forallb is_digit fd) eqn:Ef; cbn [negb]; [|discriminate].
  destruct i; [destruct fd eqn:E; [discriminate|]|]; intros [= <- <- <-]; rewrite ?Ei, ?Ef; auto.
Qed.
Lemma forallb_digit_app a b : forallb is_digit a = true -> forallb is_digit b = true -> forallb is_digit (a ++ b) = true.
Proof. intros Ha Hb. rewrite forallb_app, Ha, Hb. reflexivity. Qed.

Lemma parse_float_trunc_range s z : parse_float_trunc s = Some (Some z) -> in_i64 z.
Proof.
  assert (G : forall (neg : bool) (v : Z), (0 <= v)%Z ->
     (if v <? 9007199254740992 then Some (Some (if neg then - v else v)) else None) = Some (Some z) -> in_i64 z).
  { intros neg v Hv. destruct (Z.ltb_spec v 9007199254740992); [|discriminate].
    intros [= <-]. unfold in_i64, two63. destruct neg; lia. }
  unfold parse_float_trunc.
  destruct (negb (only_plain_chars s)).
  - destruct (forallb is_plain_or_exp s).
    + destruct (split_at_exp s) as [m [x|]]; [|discriminate].
      destruct (plain_decimal m) as [[[neg ip] fpd]|] eqn:Ep.
      * destruct (parse_int_text x) as [e|].
        -- destruct (plain_decimal_digits _ _ _ _ Ep) as [Hi Hf].
           pose proof (digits_val_nonneg (ip ++ fpd) (forallb_digit_app _ _ Hi Hf)) as Hd.
           match goal with |- context [if ?c then None else _] => destruct c end; [discriminate|].
           match goal with |- context [if 0 <=? ?sc then _ else _] => destruct (Z.leb_spec 0 sc) end.
           ++ apply G. apply Z.mul_nonneg_nonneg; [exact Hd|]. apply Z.pow_nonneg. lia.
           ++ apply G. apply Z.div_pos; [exact Hd|]. apply Z.pow_pos_nonneg; lia.
        -- destruct x; [discriminate|].
           match goal with |- context [if ?c then _ else _] => destruct c end; discriminate.
      * destruct (parse_int_text x); [|].
        -- destruct x; [discriminate|]. match goal with |- context [if ?c then _ else _] => destruct c end; discriminate.
        -- destruct x; [discriminate|]. match goal with |- context [if ?c then _ else _] => destruct c end; discriminate.
    + repeat match goal with |- context [if ?c then _ else _] => destruct c end; discriminate.
  - destruct (plain_decimal s) as [[[neg ip] fpd]|] eqn:Ep; [|discriminate].
    destruct (plain_decimal_digits _ _ _ _ Ep) as [Hi _].
    apply G. apply digits_val_nonneg. exact Hi.
Qed.

Lemma int_scalar_range v z : int_scalar v = Some z -> in_i64 z.
Proof.
  destruct v as [|k x|w f|s|s|b|t n vs|n vs|t vs|t n]; cbn [int_scalar]; try discriminate.
  - intros [= <-]. apply wrap_i64_range.
  - unfold float_to_i64. destruct (f_cls f); try discriminate.
    destruct (Z.ltb_spec (Z.abs (f_ip f)) two63); [|discriminate]. intros [= <-]. unfold in_i64. lia.
  - destruct (parse_int_text s) eqn:E; [intros [= <-]; eapply parse_int_text_range; eassumption|].
    destruct (parse_float_trunc s) as [[y|]|] eqn:E2; try discriminate.
    intros [= <-]. eapply parse_float_trunc_range; eassumption.
  - destruct (parse_int_text s) eqn:E; [intros [= <-]; eapply parse_int_text_range; eassumption|].
    destruct (parse_float_trunc s) as [[y|]|] eqn:E2; try discriminate.
    intros [= <-]. eapply parse_float_trunc_range; eassumption.
Qed.

Lemma all_some_Forall {A B} (P : B -> Prop) (g : A -> option B) l : forall xs,
  (forall x b, In x l -> g x = Some b -> P b) -> all_some (map g l) = Some xs -> Forall P xs.
Proof.
  induction l as [|a l IH]; intros xs Hg; cbn [map all_some].
  - intros [= <-]. constructor.
  - destruct (g a) as [b|] eqn:E; [|discriminate].
    destruct (all_some (map g l)) as [ys|] eqn:E2; [|discriminate]. cbn [option_map]. intros [= <-].
    constructor; [eapply Hg; [left; reflexivity|exact E]|].
    apply IH; [|reflexivity]. intros x b' Hin. apply Hg. right. exact Hin.
Qed.

Lemma ints_of_range v zs : ints_of v = Some zs -> Forall in_i64 zs.
Proof.
  unfold ints_of. destruct (scalars_of v) as [vs|]; [|discriminate].
  apply all_some_Forall. intros x b _. apply int_scalar_range.
Qed.

Lemma range_desc_bounds s st e sp : range_desc s = Some (st, e, sp) -> in_i64 st /\ in_i64 e.
Proof.
  unfold range_desc. destruct (split_colon s) as [|a [|b rest]]; try discriminate.
  destruct (parse_int_text b) as [e'|] eqn:Eb; [|discriminate].
  destruct (parse_int_text a) as [st'|] eqn:Ea; [|discriminate].
  apply parse_int_text_range in Ea, Eb.
  destruct rest as [|c rest].
  - intros [= <- <- <-]. auto.
  - destruct (parse_int_text c) as [sp'|]; [|discriminate]. destruct (sp' <? 1); [discriminate|].
    intros [= <- <- <-]. auto.
Qed.

Lemma desc_values_range s zs : desc_values s = Some zs -> Forall in_i64 zs.
Proof.
  unfold desc_values. destruct (range_desc s) as [[[st e] sp]|] eqn:E; [|discriminate].
  destruct (range_desc_bounds _ _ _ _ E) as [Hs He].
  destruct (Z.ltb_spec sp 1); [discriminate|].
  destruct (Z.ltb_spec e st); intros [= <-]; [constructor|].
  apply Forall_forall. intros x Hx. apply enum_range_in in Hx; [|assumption].
  destruct Hx as (k & Hk & -> & Hle). unfold in_i64 in *. nia.
Qed.

Lemma Forall_concat {A} (P : A -> Prop) ls : Forall (Forall P) ls -> Forall P (concat ls).
Proof. induction 1; cbn [concat]; [constructor|]. apply Forall_app. auto. Qed.

Lemma descs_of_range v zs : descs_of v = Some zs -> Forall in_i64 zs.
Proof.
  unfold descs_of. destruct (strings_of v) as [ss|]; [|discriminate].
  destruct (all_some (map desc_values ss)) as [zss|] eqn:E; [|discriminate]. cbn [option_map]. intros [= <-].
  apply Forall_concat. revert E. apply all_some_Forall. intros x b _. apply desc_values_range.
Qed.

(* ================================================================== *)
(* 1. Spec.hit in terms of parsed ids                                  *)
(* ================================================================== *)

(* default-container denotations: texts, or numbers inside int64 *)
Definition esem_def (s : esem) : Prop :=
  match s with ETexts _ => True | ENums zs => Forall in_i64 zs | _ => False end.
Definition qsem_def (q : qsem) : Prop :=
  match q with QNums zs => Forall in_i64 zs | _ => True end.

(* what the default container's expr_sem / assign_sem produce is of that form -- no hypothesis on the value *)
Lemma expr_sem_def fd e s : fd_cont fd = CDefault -> expr_sem fd e = Some s -> esem_def s.
Proof.
  intros Hc. unfold expr_sem. rewrite Hc. destruct (e_op e); try discriminate.
  destruct (fd_parser fd).
  - destruct (canon_texts (e_val e)); [|discriminate]. intros [= <-]. exact I.
  - destruct (ints_of (e_val e)) eqn:E; [|discriminate]. intros [= <-]. apply ints_of_range in E. exact E.
  - destruct (strings_of (e_val e)); [|discriminate]. intros [= <-]. exact I.
  - destruct (descs_of (e_val e)) eqn:E; [|discriminate]. intros [= <-]. apply descs_of_range in E. exact E.
Qed.

Lemma assign_sem_def fd v q : fd_cont fd = CDefault -> assign_sem fd v = Some q -> qsem_def q.
Proof.
  intros Hc. unfold assign_sem. rewrite Hc. destruct (nil_like v).
  - intros [= <-]. destruct (fd_parser fd); cbn; auto.
  - destruct (fd_parser fd).
    + destruct (canon_texts v); [|discriminate]. intros [= <-]. exact I.
    + destruct (ints_of v) eqn:E; [|discriminate]. intros [= <-]. apply ints_of_range in E. exact E.
    + destruct (strings_of v); [|discriminate]. intros [= <-]. exact I.
    + assert (G : option_map QNums (ints_of v) = Some q -> qsem_def q).
      { destruct (ints_of v) eqn:E; [|discriminate]. intros [= <-]. apply ints_of_range in E. exact E. }
      destruct v; try discriminate; exact G.
Qed.

Lemma existsb_ext_in {A} (f g : A -> bool) l : (forall x, In x l -> f x = g x) -> existsb f l = existsb g l.
Proof.
  induction l as [|a l IH]; intros H; cbn [existsb]; [reflexivity|].
  rewrite (H a) by (left; reflexivity). rewrite IH by (intros; apply H; right; assumption). reflexivity.
Qed.
Lemma existsb_map {A B} (f : B -> bool) (g : A -> B) l : existsb f (map g l) = existsb (fun x => f (g x)) l.
Proof. induction l as [|a l IH]; cbn [map existsb]; [reflexivity|]. rewrite IH. reflexivity. Qed.
Lemma existsb_false {A} (l : list A) : existsb (fun _ => false) l = false.
Proof. induction l; cbn; auto. Qed.

Theorem hit_ids es qs : esem_def es -> qsem_def qs ->
  Spec.hit es qs = existsb (fun a => existsb (pid_eqb a) (qsem_ids qs)) (esem_ids es).
Proof.
  destruct es as [ts|zs|l r|ks]; cbn [esem_def]; try contradiction; intros He Hq;
    destruct qs as [us|ys|t]; cbn [Spec.hit esem_ids qsem_ids qsem_def] in *;
    rewrite ?existsb_map; cbn [existsb]; rewrite ?existsb_false; try reflexivity.
  - apply existsb_ext_in. intros x _. rewrite existsb_map. reflexivity.
  - symmetry. etransitivity; [apply existsb_ext_in; intros x _; rewrite existsb_map; cbn [pid_eqb u64id]; apply existsb_false|].
    apply existsb_false.
  - symmetry. etransitivity; [apply existsb_ext_in; intros x _; rewrite existsb_map; cbn [pid_eqb u64id]; apply existsb_false|].
    apply existsb_false.
  - apply existsb_ext_in. intros x Hx. rewrite existsb_map. apply existsb_ext_in. intros y Hy.
    symmetry. apply u64id_eqb; [exact (Forall_In _ _ _ He Hx)|exact (Forall_In _ _ _ Hq Hy)].
Qed.

(* the same, read from the assigned value's side (the form RoaringProof.field_sat uses) *)
Lemma pid_eqb_sym a b : pid_eqb a b = pid_eqb b a.
Proof.
  destruct (RoaringProof.pid_eqb_spec a b) as [E|Hne]; destruct (RoaringProof.pid_eqb_spec b a) as [E'|Hne']; congruence.
Qed.

Lemma existsb_comm {A B} (h : A -> B -> bool) la lb :
  existsb (fun a => existsb (fun b => h a b) lb) la = existsb (fun b => existsb (fun a => h a b) la) lb.
Proof.
  apply eq_iff_eq_true. rewrite !existsb_exists. split.
  - intros (a & Ha & H). apply existsb_exists in H. destruct H as (b & Hb & H).
    exists b. split; [exact Hb|]. apply existsb_exists. exists a. auto.
  - intros (b & Hb & H). apply existsb_exists in H. destruct H as (a & Ha & H).
    exists a. split; [exact Ha|]. apply existsb_exists. exists b. auto.
Qed.

Corollary hit_ids' es qs : esem_def es -> qsem_def qs ->
  Spec.hit es qs = existsb (fun v => existsb (pid_eqb v) (esem_ids es)) (qsem_ids qs).
Proof.
  intros He Hq. rewrite (hit_ids es qs He Hq), existsb_comm.
  apply existsb_ext_in. intros v _. apply existsb_ext_in. intros a _. apply pid_eqb_sym.
Qed.

(* ================================================================== *)
(* 2. one conjunction: Spec.sat_conj = IndexCorrect.conj_sat           *)
(* ================================================================== *)

(* the modelled fragment as far as parser p looks at a value:
   an expression value (ParseValue) / an assigned value (ParseAssign) *)
Definition val_mod (p : parser_kind) (v : gval) : Prop :=
  match p with PCommon => modelled v | PNumber => modelled_num v | PStrHash | PNumRange => True end.
Definition asg_mod (p : parser_kind) (v : gval) : Prop :=
  match p with PCommon => modelled v | PNumber | PNumRange => modelled_num v | PStrHash => True end.

Lemma modelled_num_val_mod p v : modelled_num v -> val_mod p v.
Proof. intros H. destruct p; cbn; auto. apply H. Qed.
Lemma modelled_num_asg_mod p v : modelled_num v -> asg_mod p v.
Proof. intros H. destruct p; cbn; auto. apply H. Qed.

Lemma field_desc_nil parsers f : field_desc [] parsers f = mk_fd parsers f.
Proof. reflexivity. Qed.

Lemma expr_sem_default_eq fd e s : fd_cont fd = CDefault -> expr_sem fd e = Some s -> e_op e = OpEQ.
Proof. intros Hc. unfold expr_sem. rewrite Hc. destruct (e_op e); try discriminate. reflexivity. Qed.

(* DenoteProof.parse_value_expr_sem with the parser-wise fragment *)
Lemma parse_value_sem parsers f e : e_op e = OpEQ -> wf_val (e_val e) -> val_mod (parsers f) (e_val e) ->
  parse_value (parsers f) (e_val e) = ans (option_map esem_ids (expr_sem (mk_fd parsers f) e)).
Proof.
  intros Ho Hw Hm. unfold expr_sem. cbn [mk_fd fd_cont fd_parser]. rewrite Ho.
  destruct (parsers f); cbn [parse_value val_mod] in *.
  - rewrite (common_value_ans _ Hw Hm). destruct (canon_texts (e_val e)); reflexivity.
  - rewrite (number_value_ans _ Hw Hm). destruct (ints_of (e_val e)); reflexivity.
  - rewrite (strhash_value_ans _ Hw). destruct (strings_of (e_val e)); reflexivity.
  - rewrite (numrange_value_ans _ Hw). destruct (descs_of (e_val e)); reflexivity.
Qed.

(* DenoteProof.parse_assign_assign_sem, supported direction, with the parser-wise fragment *)
Lemma parse_assign_sem parsers f v qs : wf_val v -> asg_mod (parsers f) v ->
  assign_sem (mk_fd parsers f) v = Some qs -> parse_assign (parsers f) v = POk (qsem_ids qs).
Proof.
  intros Hw Hm. unfold assign_sem. cbn [mk_fd fd_cont fd_parser].
  destruct (nil_like v) eqn:En.
  - rewrite (assign_nil_like _ v Hw En). intros [= <-]. destruct (parsers f); reflexivity.
  - destruct (parsers f); cbn [parse_assign asg_mod] in *.
    + destruct (common_assign_exact v Hw Hm En) as (H1 & _ & _).
      destruct (canon_texts v) as [ts|]; [|discriminate]. intros [= <-]. apply H1. reflexivity.
    + pose proof (number_assign_exact v Hw Hm En) as H.
      destruct (ints_of v); [|discriminate]. intros [= <-]. exact H.
    + pose proof (strhash_assign_exact v Hw En) as H.
      destruct (strings_of v); [|discriminate]. intros [= <-]. exact H.
    + pose proof (numrange_assign_exact v Hw Hm En) as H.
      destruct v; try discriminate; (destruct (ints_of _); [|discriminate]); intros [= <-]; exact H.
Qed.

(* an expression parses iff it denotes something *)
Lemma expr_ok_expr_sem parsers f e : wf_val (e_val e) -> val_mod (parsers f) (e_val e) ->
  (expr_ok (parsers f) e = true <-> expr_sem (mk_fd parsers f) e <> None).
Proof.
  intros Hw Hm. unfold expr_ok. destruct (e_op e) eqn:Ho;
    try (split; [discriminate|]; intros H; exfalso; apply H; unfold expr_sem; cbn [mk_fd fd_cont]; rewrite Ho; reflexivity).
  rewrite (parse_value_sem parsers f e Ho Hw Hm).
  destruct (expr_sem (mk_fd parsers f) e); cbn [option_map ans]; split; congruence.
Qed.

(* one expression against the parsed ids of a supported assigned value *)
Lemma val_hit_sem parsers f e s qs : wf_val (e_val e) -> val_mod (parsers f) (e_val e) ->
  expr_sem (mk_fd parsers f) e = Some s -> qsem_def qs ->
  existsb (fun v => RoaringProof.val_hit (parsers f) v e) (qsem_ids qs) = Spec.hit s qs.
Proof.
  intros Hw Hm Hs Hq.
  pose proof (expr_sem_default_eq (mk_fd parsers f) e s eq_refl Hs) as Ho.
  pose proof (parse_value_sem parsers f e Ho Hw Hm) as Hp. rewrite Hs in Hp. cbn [option_map ans] in Hp.
  rewrite (hit_ids' s qs (expr_sem_def (mk_fd parsers f) e s eq_refl Hs) Hq).
  apply existsb_ext_in. intros v _. unfold RoaringProof.val_hit. rewrite Hp. reflexivity.
Qed.

Lemma lookup_assign_alookup f (q : assignment) : lookup_assign f q = alookup N.eqb f q.
Proof.
  induction q as [|[g v] q IH]; cbn [lookup_assign alookup]; [reflexivity|].
  rewrite N.eqb_sym, IH. reflexivity.
Qed.

(* the expressions of one field: Spec's two oexists and the flag test against field_sat's three existsb *)
Section Field.
  Variables (p : parser_kind) (fd : fdesc) (ids : list pid) (eh : esem -> option bool) (hb : esem -> bool).
  Hypothesis Heh : forall s, eh s = Some (hb s).

  Lemma field_bridge : forall es l,
    (forall e s, In e es -> expr_sem fd e = Some s -> existsb (fun v => RoaringProof.val_hit p v e) ids = hb s) ->
    all_some (map (fun e => option_map (fun s => (e_incl e, s)) (expr_sem fd e)) es) = Some l ->
    oexists (fun ie : bool * esem => if fst ie then Some false else eh (snd ie)) l
      = Some (existsb (fun e => negb (e_incl e) && existsb (fun v => RoaringProof.val_hit p v e) ids) es) /\
    oexists (fun ie : bool * esem => if fst ie then eh (snd ie) else Some false) l
      = Some (existsb (fun e => e_incl e && existsb (fun v => RoaringProof.val_hit p v e) ids) es) /\
    existsb (@fst bool esem) l = existsb e_incl es.
  Proof.
    induction es as [|e es IH]; intros l Hh; cbn [map all_some].
    - intros [= <-]. cbn. auto.
    - destruct (expr_sem fd e) as [s|] eqn:Es; cbn [option_map]; [|discriminate].
      destruct (all_some (map (fun e0 => option_map (fun s0 => (e_incl e0, s0)) (expr_sem fd e0)) es)) as [l'|] eqn:El;
        cbn [option_map]; [|discriminate].
      intros [= <-].
      destruct (IH l' (fun e0 s0 H => Hh e0 s0 (or_intror H)) eq_refl) as (I1 & I2 & I3).
      pose proof (Hh e s (or_introl eq_refl) Es) as He.
      cbn [oexists existsb fst snd]. rewrite I1, I2, I3, He, Heh.
      destruct (e_incl e); cbn [obind negb andb orb]; auto.
  Qed.

  Lemma field_bridge_sat es l :
    (forall e s, In e es -> expr_sem fd e = Some s -> existsb (fun v => RoaringProof.val_hit p v e) ids = hb s) ->
    all_some (map (fun e => option_map (fun s => (e_incl e, s)) (expr_sem fd e)) es) = Some l ->
    obind (oexists (fun ie : bool * esem => if fst ie then Some false else eh (snd ie)) l) (fun excluded =>
    obind (oexists (fun ie : bool * esem => if fst ie then eh (snd ie) else Some false) l) (fun included =>
      Some (negb excluded && (negb (existsb (@fst bool esem) l) || included))))
    = Some (field_sat p ids es).
  Proof.
    intros Hh Hl. destruct (field_bridge es l Hh Hl) as (I1 & I2 & I3). rewrite I1, I2, I3.
    cbn [obind]. unfold field_sat, RoaringProof.field_sat. rewrite andb_comm. reflexivity.
  Qed.
End Field.

(* the assigned value of one field: parsed ids and Spec.expr_hit *)
Lemma assigned_cases parsers q f :
  (forall v, In (f, v) q -> wf_val v /\ asg_mod (parsers f) v /\ assign_sem (field_desc [] parsers f) v <> None) ->
  exists ids hb,
    parse_assign (parsers f) (field_val q f) = POk ids /\
    (forall s, expr_hit [] parsers q f s = Some (hb s)) /\
    (forall e s, wf_val (e_val e) -> val_mod (parsers f) (e_val e) -> expr_sem (mk_fd parsers f) e = Some s ->
       existsb (fun v => RoaringProof.val_hit (parsers f) v e) ids = hb s).
Proof.
  intros Hq. unfold expr_hit, field_val, RoaringProof.field_val. rewrite lookup_assign_alookup.
  destruct (alookup N.eqb f q) as [v|] eqn:E.
  - apply alookup_In in E. destruct (Hq v E) as (Hw & Hm & Hs). rewrite field_desc_nil in *.
    destruct (assign_sem (mk_fd parsers f) v) as [qs|] eqn:Ea; [|congruence].
    exists (qsem_ids qs), (fun s => Spec.hit s qs). split; [apply parse_assign_sem; assumption|].
    split; [reflexivity|]. intros e s Hwe Hme Hse. apply val_hit_sem; try assumption.
    eapply assign_sem_def; [|exact Ea]. reflexivity.
  - exists [], (fun _ => false). split; [apply parse_assign_nil|]. split; reflexivity.
Qed.

Lemma conj_sem_cons fields parsers f es cj sc : conj_sem fields parsers ((f, es) :: cj) = Some sc ->
  exists l sc',
    all_some (map (fun e => option_map (fun s => (e_incl e, s)) (expr_sem (field_desc fields parsers f) e)) es) = Some l /\
    conj_sem fields parsers cj = Some sc' /\ sc = (f, l) :: sc'.
Proof.
  unfold conj_sem. cbn [map all_some fst snd].
  destruct (all_some (map (fun e => option_map (fun s => (e_incl e, s)) (expr_sem (field_desc fields parsers f) e)) es)) as [l|];
    cbn [option_map]; [|discriminate].
  match goal with |- context [option_map (cons (f, l)) ?x] => destruct x as [sc'|] end; cbn [option_map]; [|discriminate].
  intros [= <-]. exists l, sc'. auto.
Qed.

(* MAIN (per conjunction).  No NoDup hypothesis is needed: both sides are field-by-field, and both read
   the FIRST binding of a field in q.  "All operators are EQ" follows from conj_sem = Some. *)
Theorem sat_conj_conj_sat parsers q : forall cj sc,
  (forall f es e, In (f, es) cj -> In e es -> wf_val (e_val e) /\ val_mod (parsers f) (e_val e)) ->
  (forall f es v, In (f, es) cj -> In (f, v) q ->
     wf_val v /\ asg_mod (parsers f) v /\ assign_sem (field_desc [] parsers f) v <> None) ->
  conj_sem [] parsers cj = Some sc ->
  sat_conj [] parsers q sc = Some (conj_sat parsers q cj).
Proof.
  induction cj as [|[f es] cj IH]; intros sc He Hq Hs.
  - cbv in Hs. inversion Hs; subst. reflexivity.
  - apply conj_sem_cons in Hs. destruct Hs as (l & sc' & Hl & Hs' & ->).
    specialize (IH sc' (fun f' es' e H => He f' es' e (or_intror H)) (fun f' es' v H => Hq f' es' v (or_intror H)) Hs').
    destruct (assigned_cases parsers q f (fun v => Hq f es v (or_introl eq_refl))) as (ids & hb & Hp & Hh & Hv).
    unfold sat_conj in *. cbn [oforall fst snd]. rewrite IH.
    unfold conj_sat. cbn [forallb fst snd]. fold (conj_sat parsers q cj). rewrite Hp.
    rewrite (field_bridge_sat (parsers f) (field_desc [] parsers f) ids (expr_hit [] parsers q f) hb Hh es l); [reflexivity| |exact Hl].
    intros e s Hin Hse. destruct (He f es e (or_introl eq_refl) Hin) as [Hw Hm]. apply Hv; assumption.
Qed.

(* the form asked for: one fragment predicate (modelled_num) for every parser *)
Corollary sat_conj_conj_sat_num parsers q cj sc :
  (forall f es e, In (f, es) cj -> In e es -> wf_val (e_val e) /\ modelled_num (e_val e)) ->
  (forall f es v, In (f, es) cj -> In (f, v) q ->
     wf_val v /\ modelled_num v /\ assign_sem (field_desc [] parsers f) v <> None) ->
  conj_sem [] parsers cj = Some sc ->
  sat_conj [] parsers q sc = Some (conj_sat parsers q cj).
Proof.
  intros He Hq. apply sat_conj_conj_sat.
  - intros f es e H1 H2. destruct (He f es e H1 H2). split; [assumption|apply modelled_num_val_mod; assumption].
  - intros f es v H1 H2. destruct (Hq f es v H1 H2) as (A & B & C). split; [assumption|]. split; [apply modelled_num_asg_mod; assumption|assumption].
Qed.

(* ---- a conjunction parses iff it denotes ---- *)
Lemma all_some_not_none {A B} (g : A -> option B) l : all_some (map g l) <> None <-> forall x, In x l -> g x <> None.
Proof.
  induction l as [|a l IH]; cbn [map all_some].
  - split; [intros _ x []|discriminate].
  - destruct (g a) as [b|] eqn:E.
    + destruct (all_some (map g l)) as [ys|]; cbn [option_map].
      * split; [|discriminate]. intros _ x [<-|Hx]; [congruence|]. apply IH; [discriminate|exact Hx].
      * split; [congruence|]. intros H. apply IH. intros x Hx. apply H. right. exact Hx.
    + split; [congruence|]. intros H. exfalso. apply (H a); [left; reflexivity|exact E].
Qed.

Lemma conj_sem_not_none fields parsers cj : conj_sem fields parsers cj <> None <->
  forall f es e, In (f, es) cj -> In e es -> expr_sem (field_desc fields parsers f) e <> None.
Proof.
  unfold conj_sem. etransitivity; [apply all_some_not_none|]. split.
  - intros H f es e H1 H2. specialize (H (f, es) H1). cbn [fst snd] in H.
    assert (G : all_some (map (fun e0 => option_map (fun s => (e_incl e0, s)) (expr_sem (field_desc fields parsers f) e0)) es) <> None).
    { intros E. apply H. rewrite E. reflexivity. }
    rewrite all_some_not_none in G. specialize (G e H2).
    intros E. apply G. rewrite E. reflexivity.
  - intros H [f es] H1. cbn [fst snd].
    assert (G : all_some (map (fun e0 => option_map (fun s => (e_incl e0, s)) (expr_sem (field_desc fields parsers f) e0)) es) <> None).
    { apply all_some_not_none. intros e H2. specialize (H f es e H1 H2).
      destruct (expr_sem (field_desc fields parsers f) e); [discriminate|congruence]. }
    destruct (all_some _); [discriminate|congruence].
Qed.

Theorem conj_ok_conj_sem parsers cj :
  (forall f es e, In (f, es) cj -> In e es -> wf_val (e_val e) /\ val_mod (parsers f) (e_val e)) ->
  (conj_ok parsers cj = true <-> conj_sem [] parsers cj <> None).
Proof.
  intros He. rewrite conj_sem_not_none. unfold conj_ok. rewrite forallb_forall. split.
  - intros H f es e H1 H2. specialize (H (f, es) H1). cbn [fst snd] in H. rewrite forallb_forall in H.
    destruct (He f es e H1 H2) as [Hw Hm]. apply (expr_ok_expr_sem parsers f e Hw Hm). apply H. exact H2.
  - intros H [f es] H1. cbn [fst snd]. apply forallb_forall. intros e H2.
    destruct (He f es e H1 H2) as [Hw Hm]. apply (expr_ok_expr_sem parsers f e Hw Hm). apply (H f es e H1 H2).
Qed.

(* ================================================================== *)
(* 3. END TO END against Model/Spec.v                                  *)
(* ================================================================== *)

(* every expression value of the document is well formed and inside the modelled fragment *)
Definition doc_good (parsers : fname -> parser_kind) (d : doc) : Prop :=
  forall cj f es e, In cj (d_conjs d) -> In (f, es) cj -> In e es ->
    wf_val (e_val e) /\ val_mod (parsers f) (e_val e).
(* every assigned value is well formed, modelled and SUPPORTED (denotes something for its field) *)
Definition asg_good (parsers : fname -> parser_kind) (q : assignment) : Prop :=
  forall f v, In (f, v) q ->
    wf_val v /\ asg_mod (parsers f) v /\ assign_sem (field_desc [] parsers f) v <> None.

Lemma asg_good_parses parsers q : asg_good parsers q ->
  forall f v, In (f, v) q -> exists ids, parse_assign (parsers f) v = POk ids.
Proof.
  intros H f v Hin. destruct (H f v Hin) as (Hw & Hm & Hs). rewrite field_desc_nil in Hs.
  destruct (assign_sem (mk_fd parsers f) v) as [qs|] eqn:E; [|congruence].
  exists (qsem_ids qs). apply parse_assign_sem; assumption.
Qed.

(* accepted documents: every conjunction denotes *)
Lemma accepted_denote kind pol thr parsers ds st os :
  add_documents false (new_builder kind pol thr parsers) ds = (st, os) ->
  Forall (eq AddOk) os ->
  (forall d, In d ds -> doc_good parsers d) ->
  (pol <> PolSkip \/ forall d cj, In d ds -> In cj (d_conjs d) -> conj_sem [] parsers cj <> None) ->
  forall d cj, In d ds -> In cj (d_conjs d) -> conj_ok parsers cj = true /\ conj_sem [] parsers cj <> None.
Proof.
  intros Hadd Hok Hg Hpol d cj Hd Hcj.
  assert (Hiff : conj_ok parsers cj = true <-> conj_sem [] parsers cj <> None).
  { apply conj_ok_conj_sem. intros f es e H1 H2. exact (Hg d Hd cj f es e Hcj H1 H2). }
  destruct Hpol as [Hp|Hden].
  - destruct (add_documents_repr kind pol thr parsers ds st os Hadd Hok) as (_ & _ & Hall & _).
    pose proof (Hall Hp d cj Hd Hcj) as Hc. split; [exact Hc|apply Hiff; exact Hc].
  - pose proof (Hden d cj Hd Hcj) as Hs. split; [apply Hiff; exact Hs|exact Hs].
Qed.

Theorem index_correct_spec kind pol thr parsers ds st os q :
  add_documents false (new_builder kind pol thr parsers) ds = (st, os) ->
  Forall (eq AddOk) os ->
  NoDup (map d_id ds) ->
  (forall d cj, In d ds -> In cj (d_conjs d) -> NoDup (map fst cj)) ->
  (forall d, In d ds -> doc_good parsers d) ->
  (pol <> PolSkip \/ forall d cj, In d ds -> In cj (d_conjs d) -> conj_sem [] parsers cj <> None) ->
  NoDup (map fst q) ->
  asg_good parsers q ->
  exists hits,
    retrieve_hits (build_index st) q = ROk hits /\
    NoDup (map snd hits) /\
    (forall d k cj cid, has_conj ds d k cj cid ->
       conj_sem [] parsers cj <> None /\
       forall sc, conj_sem [] parsers cj = Some sc ->
         (In cid (map snd hits) <-> sat_conj [] parsers q sc = Some true)) /\
    (forall h, In h hits -> fst h = IdsGen.ConjID_DocID (snd h) /\
                            exists d k cj, has_conj ds d k cj (snd h)).
Proof.
  intros Hadd Hok Hnd Hcjs Hg Hpol Hq Hqg.
  pose proof (accepted_denote kind pol thr parsers ds st os Hadd Hok Hg Hpol) as Hden.
  destruct (index_correct kind pol thr parsers ds st os q Hadd Hok Hnd Hcjs
              (or_intror (fun d cj Hd Hc => proj1 (Hden d cj Hd Hc))) Hq (asg_good_parses parsers q Hqg))
    as (hits & E & N1 & I1 & O1).
  exists hits. split; [exact E|]. split; [exact N1|]. split; [|exact O1].
  intros d k cj cid Hh.
  assert (Hcj : In cj (d_conjs d)) by (destruct Hh as (_ & Hn & _); eapply nth_error_In; exact Hn).
  assert (Hd : In d ds) by apply Hh.
  split; [apply (Hden d cj Hd Hcj)|].
  intros sc Hsc. rewrite (I1 d k cj cid Hh).
  rewrite (sat_conj_conj_sat parsers q cj sc); [split; congruence| | |exact Hsc].
  - intros f es e H1 H2. exact (Hg d Hd cj f es e Hcj H1 H2).
  - intros f es v _ H2. exact (Hqg f v H2).
Qed.

(* ------------------------------------------------------------------ *)
(* sat_hits                                                            *)

Lemma all_some_total {A B} (f : A -> option B) (g : A -> B) l :
  (forall x, In x l -> f x = Some (g x)) -> all_some (map f l) = Some (map g l).
Proof.
  induction l as [|a l IH]; intros H; cbn [map all_some]; [reflexivity|].
  rewrite (H a) by (left; reflexivity). rewrite IH by (intros; apply H; right; assumption). reflexivity.
Qed.

Definition satb (parsers : fname -> parser_kind) (q : assignment) (sc : sconj) : bool :=
  match sat_conj [] parsers q sc with Some b => b | None => false end.

Definition hits_of parsers pol docok (q : assignment) (ds : list doc) : list (Z * (Z * Z)) :=
  flat_map (fun d => flat_map (fun ic : Z * sconj =>
                        if satb parsers q (snd ic) then [(d_id d, (fst ic, sconj_size (snd ic)))] else [])
                      (doc_sem [] parsers pol docok d)) ds.

Lemma sat_hits_total parsers pol docok ds q :
  (forall d ic, In d ds -> In ic (doc_sem [] parsers pol docok d) -> sat_conj [] parsers q (snd ic) <> None) ->
  sat_hits [] parsers pol docok ds q = Some (hits_of parsers pol docok q ds).
Proof.
  intros H. unfold sat_hits, hits_of.
  rewrite (all_some_total _ (fun d => flat_map (fun ic : Z * sconj =>
                        if satb parsers q (snd ic) then [(d_id d, (fst ic, sconj_size (snd ic)))] else [])
                      (doc_sem [] parsers pol docok d))).
  - cbn [option_map]. rewrite <- flat_map_concat_map. reflexivity.
  - intros d Hd.
    rewrite (all_some_total _ (fun ic : Z * sconj =>
                        if satb parsers q (snd ic) then [(d_id d, (fst ic, sconj_size (snd ic)))] else [])).
    + cbn [option_map]. rewrite <- flat_map_concat_map. reflexivity.
    + intros ic Hic. specialize (H d ic Hd Hic). unfold satb.
      destruct (sat_conj [] parsers q (snd ic)); [reflexivity|congruence].
Qed.

(* ---- indexed_conjs / indexed_from ---- *)
Lemma indexed_conjs_In pol l i sc : In (i, sc) (indexed_conjs pol l) -> In (i, Some sc) l.
Proof.
  induction l as [|[j [c|]] l IH]; cbn [indexed_conjs]; [intros []| |].
  - intros [[= <- <-]|H]; [left; reflexivity|right; auto].
  - destruct pol; try (intros []); intros H; right; auto.
Qed.

Lemma indexed_conjs_all pol l : (forall x, In x l -> snd x <> None) ->
  (forall i sc, In (i, Some sc) l -> In (i, sc) (indexed_conjs pol l)) /\
  map fst (indexed_conjs pol l) = map fst l.
Proof.
  induction l as [|[j [c|]] l IH]; intros H; cbn [indexed_conjs].
  - split; [intros i sc []|reflexivity].
  - destruct IH as [I1 I2]; [intros x Hx; apply H; right; exact Hx|]. split.
    + intros i sc [[= <- <-]|Hin]; [left; reflexivity|right; auto].
    + cbn [map fst]. rewrite I2. reflexivity.
  - exfalso. apply (H (j, None)); [left; reflexivity|reflexivity].
Qed.

Lemma indexed_from_fst_NoDup {A} (l : list A) : forall n, NoDup (map fst (indexed_from n l)).
Proof.
  induction l as [|a l IH]; intros n; cbn [indexed_from map fst]; constructor; [|apply IH].
  intros Hin. apply in_map_iff in Hin. destruct Hin as ([i x] & Ei & Hin). cbn [fst] in Ei. subst i.
  apply NoTrace.indexed_from_in in Hin. lia.
Qed.

(* ---- sizes ---- *)
Lemma flags_eq (g : expr -> option esem) es : forall l,
  all_some (map (fun e => option_map (fun s => (e_incl e, s)) (g e)) es) = Some l ->
  existsb (@fst bool esem) l = existsb e_incl es.
Proof.
  induction es as [|e es IH]; intros l; cbn [map all_some].
  - intros [= <-]. reflexivity.
  - destruct (g e) as [s|]; cbn [option_map]; [|discriminate].
    destruct (all_some (map (fun e0 => option_map (fun s0 => (e_incl e0, s0)) (g e0)) es)) as [l'|] eqn:El;
      cbn [option_map]; [|discriminate].
    intros [= <-]. cbn [existsb fst]. rewrite (IH l' eq_refl). reflexivity.
Qed.

Lemma sconj_size_calc fields parsers : forall cj sc, conj_sem fields parsers cj = Some sc -> sconj_size sc = calc_size cj.
Proof.
  induction cj as [|[f es] cj IH]; intros sc Hs.
  - cbv in Hs. inversion Hs; subst. reflexivity.
  - apply conj_sem_cons in Hs. destruct Hs as (l & sc' & Hl & Hs' & ->).
    specialize (IH sc' Hs'). unfold sconj_size, calc_size in *. cbn [filter snd].
    rewrite (flags_eq _ es l Hl). destruct (existsb e_incl es); cbn [length]; lia.
Qed.

(* ---- NoDup of a keyed flat_map ---- *)
Lemma NoDup_flat_map_keyed {A B K} (F : A -> list B) (kb : B -> K) (ka : A -> K) l :
  (forall x y, In x l -> In y (F x) -> kb y = ka x) -> (forall x, In x l -> NoDup (F x)) ->
  NoDup (map ka l) -> NoDup (flat_map F l).
Proof.
  induction l as [|a l IH]; intros Hk Hn Hd; cbn [flat_map]; [constructor|].
  cbn [map] in Hd. inversion Hd as [|? ? Hna Hdl]; subst.
  apply RoaringProof.NoDup_app'.
  - apply Hn. left. reflexivity.
  - apply IH; [intros x y Hx; apply Hk; right; exact Hx|intros x Hx; apply Hn; right; exact Hx|exact Hdl].
  - intros y Hy Hy'. apply in_flat_map in Hy'. destruct Hy' as (x & Hx & Hyx). apply Hna.
    rewrite <- (Hk a y (or_introl eq_refl) Hy), (Hk x y (or_intror Hx) Hyx). apply in_map. exact Hx.
Qed.

Lemma NoDup_map_inj_in {A B} (f : A -> B) l :
  (forall x y, In x l -> In y l -> f x = f y -> x = y) -> NoDup l -> NoDup (map f l).
Proof.
  induction l as [|a l IH]; intros Hi Hd; cbn [map]; [constructor|]. inversion Hd as [|? ? Hna Hdl]; subst.
  constructor.
  - intros Hin. apply in_map_iff in Hin. destruct Hin as (x & Ex & Hx). apply Hna.
    rewrite (Hi a x (or_introl eq_refl) (or_intror Hx) (eq_sym Ex)). exact Hx.
  - apply IH; [|exact Hdl]. intros x y Hx Hy. apply Hi; right; assumption.
Qed.

(* ---- accepted documents are admissible ---- *)
Lemma add_document_valid wf st d st' : add_document wf st d = (st', AddOk) -> doc_valid d = true.
Proof.
  unfold add_document, doc_valid. destruct (d_conjs d) as [|c cs]; [discriminate|].
  destruct (Z.ltb_spec 255 (Z.of_nat (length (c :: cs)))); [discriminate|]. intros _.
  cbn [negb andb]. apply Z.leb_le. assumption.
Qed.

Lemma add_documents_valid wf : forall ds st st' os, add_documents wf st ds = (st', os) -> Forall (eq AddOk) os ->
  forall d, In d ds -> doc_valid d = true.
Proof.
  induction ds as [|d ds IH]; intros st st' os H Hok d' Hd; [destruct Hd|]. cbn [add_documents] in H.
  destruct (add_document wf st d) as [st1 o] eqn:E1. destruct (add_documents wf st1 ds) as [st2 os'] eqn:E2.
  inversion H; subst. inversion Hok as [|? ? Ho Hos]; subst.
  destruct Hd as [<-|Hd]; [eapply add_document_valid; exact E1|eapply IH; eassumption].
Qed.

Definition triple (cid : N) : Z * (Z * Z) :=
  (IdsGen.ConjID_DocID cid, (IdsGen.ConjID_Index cid, IdsGen.ConjID_Size cid)).

Lemma has_conj_triple ds d k cj cid : has_conj ds d k cj cid ->
  triple cid = (d_id d, (Z.of_nat k, calc_size cj)).
Proof.
  intros (_ & _ & E). destruct (IdsProof.NewConjID_some_inrange _ _ _ _ E) as (A & B & C).
  destruct (IdsProof.conjid_roundtrip _ _ _ A B C) as (c & E' & _ & H1 & H2 & H3).
  rewrite E in E'. inversion E'; subst c. unfold triple. rewrite H1, H2, H3. reflexivity.
Qed.

Lemma accepted_docok kind pol thr parsers ds st os :
  add_documents false (new_builder kind pol thr parsers) ds = (st, os) ->
  Forall (eq AddOk) os -> forall d, In d ds -> pl_docok d = true.
Proof.
  intros Hadd Hok d Hd. unfold pl_docok.
  pose proof (add_documents_valid _ _ _ _ _ Hadd Hok d Hd) as Hv. rewrite Hv. cbn [andb].
  destruct (add_documents_repr kind pol thr parsers ds st os Hadd Hok) as (_ & _ & _ & Hids).
  unfold doc_valid in Hv. destruct (d_conjs d) as [|c cs] eqn:Ec; [discriminate|].
  specialize (Hids d O c Hd). rewrite Ec in Hids. specialize (Hids eq_refl).
  destruct (IdsGen.NewConjID (d_id d) (Z.of_nat 0) (calc_size c)) as [cid|] eqn:E; [|congruence].
  apply IdsProof.NewConjID_some_inrange in E. unfold valid_doc_id. apply Z.leb_le. apply E.
Qed.

(* the satisfied conjunctions the index reports = the ones the specification lists *)
Theorem index_sat_hits kind pol thr parsers ds st os q :
  add_documents false (new_builder kind pol thr parsers) ds = (st, os) ->
  Forall (eq AddOk) os ->
  NoDup (map d_id ds) ->
  (forall d cj, In d ds -> In cj (d_conjs d) -> NoDup (map fst cj)) ->
  (forall d, In d ds -> doc_good parsers d) ->
  (pol <> PolSkip \/ forall d cj, In d ds -> In cj (d_conjs d) -> conj_sem [] parsers cj <> None) ->
  NoDup (map fst q) ->
  asg_good parsers q ->
  exists hits spec_hits,
    retrieve_hits (build_index st) q = ROk hits /\
    sat_hits [] parsers pol pl_docok ds q = Some spec_hits /\
    Permutation (map (fun h : hitrec => triple (snd h)) hits) spec_hits.
Proof.
  intros Hadd Hok Hnd Hcjs Hg Hpol Hq Hqg.
  destruct (index_correct_spec kind pol thr parsers ds st os q Hadd Hok Hnd Hcjs Hg Hpol Hq Hqg)
    as (hits & E & N1 & I1 & O1).
  pose proof (accepted_denote kind pol thr parsers ds st os Hadd Hok Hg Hpol) as Hden.
  pose proof (accepted_docok kind pol thr parsers ds st os Hadd Hok) as Hdok.
  destruct (add_documents_repr kind pol thr parsers ds st os Hadd Hok) as (_ & _ & _ & Hids).
  (* doc_sem of an accepted document *)
  set (L := fun d : doc => map (fun ic : Z * conj => (fst ic, conj_sem [] parsers (snd ic))) (indexed_from 0 (d_conjs d))).
  assert (Hds : forall d, In d ds -> doc_sem [] parsers pol pl_docok d = indexed_conjs pol (L d)).
  { intros d Hd. unfold doc_sem. rewrite (Hdok d Hd). reflexivity. }
  assert (HL : forall d, In d ds -> forall x, In x (L d) -> snd x <> None).
  { intros d Hd x Hx. apply in_map_iff in Hx. destruct Hx as ([i cj] & <- & Hin). cbn [fst snd].
    apply NoTrace.indexed_from_in in Hin. destruct Hin as [_ Hn]. apply nth_error_In in Hn. apply (Hden d cj Hd Hn). }
  assert (HLin : forall d i sc, In d ds -> In (i, sc) (doc_sem [] parsers pol pl_docok d) ->
            exists cj, 0 <= i /\ nth_error (d_conjs d) (Z.to_nat i) = Some cj /\ conj_sem [] parsers cj = Some sc).
  { intros d i sc Hd Hin. rewrite (Hds d Hd) in Hin. apply indexed_conjs_In in Hin.
    apply in_map_iff in Hin. destruct Hin as ([j cj] & Ej & Hin). cbn [fst snd] in Ej. inversion Ej; subst j.
    apply NoTrace.indexed_from_in in Hin. destruct Hin as [Hge Hn]. rewrite Z.sub_0_r in Hn. exists cj. auto. }
  assert (Hsat : forall d cj sc, In d ds -> In cj (d_conjs d) -> conj_sem [] parsers cj = Some sc ->
            sat_conj [] parsers q sc = Some (conj_sat parsers q cj)).
  { intros d cj sc Hd Hcj Hsc. apply sat_conj_conj_sat; [| |exact Hsc].
    - intros f es e H1 H2. exact (Hg d Hd cj f es e Hcj H1 H2).
    - intros f es v _ H2. exact (Hqg f v H2). }
  exists hits, (hits_of parsers pol pl_docok q ds). split; [exact E|]. split.
  { apply sat_hits_total. intros d [i sc] Hd Hin. cbn [snd].
    destruct (HLin d i sc Hd Hin) as (cj & _ & Hn & Hsc). apply nth_error_In in Hn.
    rewrite (Hsat d cj sc Hd Hn Hsc). discriminate. }
  assert (Em : map (fun h : hitrec => triple (snd h)) hits = map triple (map snd hits)) by (rewrite map_map; reflexivity).
  rewrite Em. apply NoDup_Permutation.
  - (* reported triples are distinct *)
    apply NoDup_map_inj_in; [|exact N1]. intros x y Hx Hy Et.
    apply in_map_iff in Hx, Hy. destruct Hx as (hx & <- & Hx), Hy as (hy & <- & Hy).
    destruct (O1 hx Hx) as [_ (d1 & k1 & c1 & H1)]. destruct (O1 hy Hy) as [_ (d2 & k2 & c2 & H2)].
    rewrite (has_conj_triple _ _ _ _ _ H1), (has_conj_triple _ _ _ _ _ H2) in Et. inversion Et as [[Ed Ek Es]].
    destruct H1 as (_ & _ & E1), H2 as (_ & _ & E2). rewrite Ed, Ek, Es in E1. congruence.
  - (* specified triples are distinct *)
    unfold hits_of. apply (NoDup_flat_map_keyed _ fst d_id); [| |exact Hnd].
    + intros d y Hd Hy. apply in_flat_map in Hy. destruct Hy as (ic & _ & Hy).
      destruct (satb parsers q (snd ic)); [|destruct Hy]. destruct Hy as [<-|[]]. reflexivity.
    + intros d Hd. apply (NoDup_flat_map_keyed _ (fun y => fst (snd y)) fst).
      * intros ic y _ Hy. destruct (satb parsers q (snd ic)); [|destruct Hy]. destruct Hy as [<-|[]]. reflexivity.
      * intros ic _. destruct (satb parsers q (snd ic)); repeat constructor. intros [].
      * rewrite (Hds d Hd). destruct (indexed_conjs_all pol (L d) (HL d Hd)) as [_ ->].
        unfold L. rewrite map_map. cbn [fst]. apply indexed_from_fst_NoDup.
  - (* same members *)
    intros t. split.
    + intros Ht. apply in_map_iff in Ht. destruct Ht as (cid & <- & Hc).
      assert (Hc' := Hc). apply in_map_iff in Hc'. destruct Hc' as (h & <- & Hh).
      destruct (O1 h Hh) as [_ (d & k & cj & Hhc)]. rewrite (has_conj_triple _ _ _ _ _ Hhc).
      destruct (I1 d k cj (snd h) Hhc) as [Hs Hiff].
      destruct (conj_sem [] parsers cj) as [sc|] eqn:Esc; [|congruence].
      apply (Hiff sc eq_refl) in Hc. destruct Hhc as (Hd & Hn & _).
      unfold hits_of. apply in_flat_map. exists d. split; [exact Hd|].
      apply in_flat_map. exists (Z.of_nat k, sc). split.
      * rewrite (Hds d Hd). apply (indexed_conjs_all pol (L d) (HL d Hd)).
        unfold L. apply in_map_iff. exists (Z.of_nat k, cj). cbn [fst snd]. rewrite Esc. split; [reflexivity|].
        apply (indexed_from_nth _ 0) in Hn. exact Hn.
      * cbn [fst snd]. unfold satb. rewrite Hc. left. rewrite (sconj_size_calc _ _ _ _ Esc). reflexivity.
    + intros Ht. unfold hits_of in Ht. apply in_flat_map in Ht. destruct Ht as (d & Hd & Ht).
      apply in_flat_map in Ht. destruct Ht as ([i sc] & Hin & Ht). cbn [fst snd] in Ht.
      destruct (satb parsers q sc) eqn:Eb; [|destruct Ht]. destruct Ht as [<-|[]].
      destruct (HLin d i sc Hd Hin) as (cj & Hge & Hn & Hsc).
      pose proof (Hids d (Z.to_nat i) cj Hd Hn) as Hnc. rewrite Z2Nat.id in Hnc by exact Hge.
      destruct (IdsGen.NewConjID (d_id d) i (calc_size cj)) as [cid|] eqn:Ec; [|congruence].
      assert (Hhc : has_conj ds d (Z.to_nat i) cj cid).
      { split; [exact Hd|]. split; [exact Hn|]. rewrite Z2Nat.id by exact Hge. exact Ec. }
      apply in_map_iff. exists cid. split.
      * rewrite (has_conj_triple _ _ _ _ _ Hhc), Z2Nat.id by exact Hge. rewrite (sconj_size_calc _ _ _ _ Hsc). reflexivity.
      * apply (proj2 (I1 d (Z.to_nat i) cj cid Hhc) sc Hsc). unfold satb in Eb.
        destruct (sat_conj [] parsers q sc) as [[|]|]; congruence.
Qed.

(* documents (DocIDCollector) against the specification *)
Theorem retrieve_docs_correct_spec kind pol thr parsers ds st os q :
  add_documents false (new_builder kind pol thr parsers) ds = (st, os) ->
  Forall (eq AddOk) os ->
  NoDup (map d_id ds) ->
  (forall d cj, In d ds -> In cj (d_conjs d) -> NoDup (map fst cj)) ->
  (forall d, In d ds -> doc_good parsers d) ->
  (pol <> PolSkip \/ forall d cj, In d ds -> In cj (d_conjs d) -> conj_sem [] parsers cj <> None) ->
  NoDup (map fst q) ->
  asg_good parsers q ->
  exists docs,
    retrieve (build_index st) q = ROk docs /\
    (forall d, In d ds ->
       (In (d_id d) docs <-> exists cj sc, In cj (d_conjs d) /\ conj_sem [] parsers cj = Some sc /\
                                           sat_conj [] parsers q sc = Some true)) /\
    (forall z, In z docs -> exists d, In d ds /\ z = d_id d).
Proof.
  intros Hadd Hok Hnd Hcjs Hg Hpol Hq Hqg.
  pose proof (accepted_denote kind pol thr parsers ds st os Hadd Hok Hg Hpol) as Hden.
  destruct (retrieve_docs_correct kind pol thr parsers ds st os q Hadd Hok Hnd Hcjs
              (or_intror (fun d cj Hd Hc => proj1 (Hden d cj Hd Hc))) Hq (asg_good_parses parsers q Hqg))
    as (docs & E & I1 & O1).
  exists docs. split; [exact E|]. split; [|exact O1].
  assert (Hsat : forall d cj sc, In d ds -> In cj (d_conjs d) -> conj_sem [] parsers cj = Some sc ->
            sat_conj [] parsers q sc = Some (conj_sat parsers q cj)).
  { intros d cj sc Hd Hcj Hsc. apply sat_conj_conj_sat; [| |exact Hsc].
    - intros f es e H1 H2. exact (Hg d Hd cj f es e Hcj H1 H2).
    - intros f es v _ H2. exact (Hqg f v H2). }
  intros d Hd. rewrite (I1 d Hd). split.
  - intros (cj & Hcj & Hs). destruct (conj_sem [] parsers cj) as [sc|] eqn:Esc; [|exfalso; apply (Hden d cj Hd Hcj); exact Esc].
    exists cj, sc. split; [exact Hcj|]. split; [exact Esc|]. rewrite (Hsat d cj sc Hd Hcj Esc), Hs. reflexivity.
  - intros (cj & sc & Hcj & Esc & Hs). exists cj. split; [exact Hcj|]. rewrite (Hsat d cj sc Hd Hcj Esc) in Hs. congruence.
Qed.

(* ------------------------------------------------------------------ *)
(* the hypotheses are needed (by computation)                          *)
Module BridgeWitness.
  Definition ps : fname -> parser_kind := fun _ => PCommon.
  Definition inc (z : Z) := {| e_incl := true; e_op := OpEQ; e_val := VInt KI z |}.
  Definition cj1 : conj := [(1%N, [inc 7])].

  (* SUPPORTED is needed: ParseAssign of the common parser skips the unsupported element of a
     []interface{} (so conj_sat is decided), the specification refuses the whole value *)
  Definition q_skip : assignment := [(1%N, VList false [VInt KI 7; VBool true])].
  Example unsupported_element :
    assign_sem (field_desc [] ps 1%N) (VList false [VInt KI 7; VBool true]) = None /\
    parse_assign PCommon (VList false [VInt KI 7; VBool true]) = POk [PText (dec_text 7)] /\
    option_map (sat_conj [] ps q_skip) (conj_sem [] ps cj1) = Some None /\
    conj_sat ps q_skip cj1 = true.
  Proof. vm_compute. repeat split. Qed.

  (* ... also for a field without expressions: the specification never looks at the value *)
  Definition q_bad : assignment := [(1%N, VBool true)].
  Example unsupported_unused :
    option_map (sat_conj [] ps q_bad) (conj_sem [] ps [(1%N, [])]) = Some (Some true) /\
    conj_sat ps q_bad [(1%N, [])] = false.
  Proof. vm_compute. repeat split. Qed.

  (* hit_ids needs the int64 range (u64id wraps); expr_sem / assign_sem never leave it *)
  Example range_needed :
    Spec.hit (ENums [two64]) (QNums [0]) = false /\
    existsb (fun a => existsb (pid_eqb a) (qsem_ids (QNums [0]))) (esem_ids (ENums [two64])) = true.
  Proof. vm_compute. split; reflexivity. Qed.

  (* a concrete run of index_sat_hits, both kinds (IndexCorrect.Witness data, number parser): the
     reported triples are a permutation of sat_hits *)
  Import IndexCorrect.Witness.
  Definition reported (k : index_kind) : option (list (Z * (Z * Z))) :=
    let '(st, os) := add_documents false (new_builder k PolError 256 IndexCorrect.Witness.ps) [d1; d2; d3] in
    match retrieve_hits (build_index st) qq with
    | ROk hits => Some (map (fun h : hitrec => triple (snd h)) hits)
    | _ => None end.
  Example run_sat_hits :
    sat_hits [] IndexCorrect.Witness.ps PolError pl_docok [d1; d2; d3] qq = Some [(1, (0, 1)); (-3, (0, 0)); (-3, (1, 2))] /\
    reported IKGroups = Some [(-3, (1, 2)); (1, (0, 1)); (-3, (0, 0))] /\
    reported ICompact = Some [(-3, (0, 0)); (1, (0, 1)); (-3, (1, 2))].
  Proof. vm_compute. repeat split. Qed.
End BridgeWitness.

Check hit_ids.
Check sat_conj_conj_sat.
Check conj_ok_conj_sem.
Check index_correct_spec.
Check index_sat_hits.
Check retrieve_docs_correct_spec.
Print Assumptions hit_ids.
Print Assumptions sat_conj_conj_sat.
Print Assumptions conj_ok_conj_sem.
Print Assumptions index_correct_spec.
Print Assumptions index_sat_hits.
Print Assumptions retrieve_docs_correct_spec.
