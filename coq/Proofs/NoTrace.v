(* "A conjunction that fails to parse leaves no trace": the entries stored in a builder state
   (Model/Index.v, repaired tree: wildcard_first = false) are untouched by parsing, a conjunction
   that does not parse leaves exactly the entries that were there, and everything a conjunction
   adds is one of its own two entry ids. *)
From Coq Require Import List NArith ZArith Bool Lia.
From BE Require Import Model.GoTypes Model.GoVal Model.Parsers Model.RangeIdx Model.Index.
From BE Require Import Proofs.BuilderProof.
From BE Require Gen.IdsGen.
Import ListNotations.
Local Open Scope Z_scope.

(* ================================================================================== *)
(* 1. the entries of a builder state                                                   *)
(* ================================================================================== *)
Definition holder_entries (h : holder) : list N :=
  match h with
  | HDefault pls => flat_map snd pls
  | HAc vals => flat_map snd vals
  | HRange kv pcs => flat_map snd kv ++ flat_map RangeIdx.pe pcs
  end.

Definition fields_entries (fs : list (fname * holder)) : list N :=
  flat_map (fun fh => holder_entries (snd fh)) fs.
Definition cont_entries (ec : econtainer) : list N :=
  holder_entries (ec_default ec) ++ fields_entries (ec_fields ec).
Definition conts_entries (cs : list econtainer) : list N := flat_map cont_entries cs.
Definition st_entries (st : bstate) : list N := conts_entries (b_conts st) ++ b_z st.

(* the definition spelled out (same shape as index_entries in Corr/CheckE2E.v, plus the wildcards) *)
Lemma st_entries_unfold st :
  st_entries st =
  flat_map (fun ec => holder_entries (ec_default ec) ++
                      flat_map (fun fh => holder_entries (snd fh)) (ec_fields ec)) (b_conts st)
  ++ b_z st.
Proof. reflexivity. Qed.

(* ================================================================================== *)
(* 2. parsing leaves the entries untouched                                             *)
(* ================================================================================== *)
Lemma new_holder_entries k : holder_entries (new_holder k) = [].
Proof. destruct k; reflexivity. Qed.

Lemma new_econtainer_entries : cont_entries new_econtainer = [].
Proof. reflexivity. Qed.

Lemma grow_nil_entries n : conts_entries (grow n new_econtainer []) = [].
Proof. induction n as [|n IH]; cbn; [reflexivity|exact IH]. Qed.

Lemma grow_entries : forall l n, conts_entries (grow n new_econtainer l) = conts_entries l.
Proof.
  induction l as [|x l IH]; intros n.
  - apply grow_nil_entries.
  - destruct n as [|n]; cbn [grow]; [reflexivity|].
    unfold conts_entries in *. cbn [flat_map]. rewrite IH. reflexivity.
Qed.

Lemma ensure_cont_entries st k : st_entries (ensure_cont st k) = st_entries st.
Proof. unfold st_entries, ensure_cont. cbn [b_conts b_z with_conts]. rewrite grow_entries. reflexivity. Qed.

Lemma create_holder_entries ec fd : cont_entries (create_holder ec fd) = cont_entries ec.
Proof.
  unfold create_holder. destruct (get_holder ec fd); [reflexivity|].
  unfold cont_entries, fields_entries. cbn [ec_default ec_fields].
  rewrite flat_map_app. cbn [flat_map snd]. rewrite new_holder_entries. rewrite !app_nil_r. reflexivity.
Qed.

Lemma update_nth_entries_eq (f : econtainer -> econtainer) :
  (forall ec, cont_entries (f ec) = cont_entries ec) ->
  forall l n, conts_entries (update_nth n f l) = conts_entries l.
Proof.
  intros Hf. induction l as [|x l IH]; intros n.
  - destruct n; reflexivity.
  - destruct n as [|n]; cbn [update_nth]; unfold conts_entries in *; cbn [flat_map].
    + rewrite Hf. reflexivity.
    + rewrite IH. reflexivity.
Qed.

Lemma ensure_field_conts st f : b_conts (fst (ensure_field st f)) = b_conts st.
Proof. unfold ensure_field. destruct (find_field f (b_fields st)); reflexivity. Qed.

Lemma ensure_field_entries st f : st_entries (fst (ensure_field st f)) = st_entries st.
Proof. unfold st_entries. rewrite ensure_field_conts, ensure_field_z. reflexivity. Qed.

Lemma create_step_entries st k fd :
  st_entries (with_conts st (update_nth (cont_index st k) (fun ec => create_holder ec fd) (b_conts st)))
  = st_entries st.
Proof.
  unfold st_entries. cbn [b_conts b_z with_conts].
  rewrite update_nth_entries_eq; [reflexivity|]. intros ec. apply create_holder_entries.
Qed.

Lemma index_exprs_entries : forall es st k cid f acc,
  st_entries (fst (index_exprs st k cid f es acc)) = st_entries st.
Proof.
  induction es as [|e es IH]; intros st k cid f acc; cbn [index_exprs]; [reflexivity|].
  pose proof (ensure_field_entries st f) as He. destruct (ensure_field st f) as [st1 fd]. cbn [fst] in He.
  pose proof (create_step_entries st1 k fd) as Hc.
  destruct (indexing_tx _ fd e); cbn [fst]; try (rewrite Hc; exact He).
  rewrite IH, Hc. exact He.
Qed.

Lemma index_conj_entries : forall c st k cid acc,
  st_entries (fst (index_conj st k cid c acc)) = st_entries st.
Proof.
  induction c as [|[f es] c IH]; intros st k cid acc; cbn [index_conj]; [reflexivity|].
  pose proof (index_exprs_entries es st k cid f acc) as He.
  destruct (index_exprs st k cid f es acc) as [st' r]. cbn [fst] in He.
  destruct r; cbn [fst]; try exact He. rewrite IH. exact He.
Qed.

(* ================================================================================== *)
(* 3. a conjunction that does not parse leaves no trace, under every policy            *)
(* ================================================================================== *)
Theorem bad_conj_no_trace d st i c st' out :
  add_conj false d st (i, c) = (st', out) ->
  (forall cid, IdsGen.NewConjID d i (calc_size c) = Some cid ->
     forall txs, snd (index_conj (ensure_cont st (calc_size c)) (calc_size c) cid c []) <> POk txs) ->
  st_entries st' = st_entries st.
Proof.
  unfold add_conj. intros H Hbad.
  destruct (IdsGen.NewConjID d i (calc_size c)) as [cid|] eqn:Ec; [|inversion H; reflexivity].
  cbn [andb] in H. specialize (Hbad cid eq_refl).
  pose proof (index_conj_entries c (ensure_cont st (calc_size c)) (calc_size c) cid []) as He.
  rewrite ensure_cont_entries in He.
  destruct (index_conj (ensure_cont st (calc_size c)) (calc_size c) cid c []) as [st2 r]. cbn [fst snd] in *.
  destruct r as [txs| | | |]; try (inversion H; subst; exact He).
  exfalso. apply (Hbad txs). reflexivity.
Qed.

(* conjunction id out of range: the state itself is unchanged (for either tree) *)
Theorem bad_id_unchanged wf d st i c :
  IdsGen.NewConjID d i (calc_size c) = None -> add_conj wf d st (i, c) = (st, AddPanic).
Proof. unfold add_conj. intros ->. reflexivity. Qed.

(* the pinned tree (wildcard_first = true) DOES leave a trace: the match-everything entry of a
   size-0 conjunction stays registered although the conjunction was not indexed *)
Theorem bad_conj_trace_pinned d st i c st' out cid :
  add_conj true d st (i, c) = (st', out) ->
  IdsGen.NewConjID d i (calc_size c) = Some cid ->
  (forall txs, snd (index_conj (ensure_cont (if calc_size c =? 0 then with_z st (b_z st ++ [IdsGen.NewEntryID cid true]) else st) (calc_size c))
                               (calc_size c) cid c []) <> POk txs) ->
  st_entries st' = st_entries st ++ (if calc_size c =? 0 then [IdsGen.NewEntryID cid true] else []).
Proof.
  unfold add_conj. intros H Ec Hbad. rewrite Ec in H. cbn [andb negb] in H.
  set (st0 := if calc_size c =? 0 then with_z st (b_z st ++ [IdsGen.NewEntryID cid true]) else st) in *.
  assert (E0 : st_entries st0 = st_entries st ++ (if calc_size c =? 0 then [IdsGen.NewEntryID cid true] else [])).
  { subst st0. destruct (calc_size c =? 0).
    - unfold st_entries. cbn [b_conts b_z with_z]. rewrite app_assoc. reflexivity.
    - rewrite app_nil_r. reflexivity. }
  pose proof (index_conj_entries c (ensure_cont st0 (calc_size c)) (calc_size c) cid []) as He.
  rewrite ensure_cont_entries, E0 in He.
  destruct (index_conj (ensure_cont st0 (calc_size c)) (calc_size c) cid c []) as [st2 r]. cbn [fst snd] in *.
  destruct r as [txs| | | |]; try (inversion H; subst; exact He).
  exfalso. apply (Hbad txs). reflexivity.
Qed.

(* ================================================================================== *)
(* 4. what a commit adds                                                                *)
(* ================================================================================== *)
Section AssocEntries.
  Context {K : Type} (keqb : K -> K -> bool).

  Lemma aupdate_append_in k eid : forall (l : list (K * list N)) e,
    In e (flat_map snd (aupdate keqb k (append_entry eid) l)) -> In e (flat_map snd l) \/ e = eid.
  Proof.
    induction l as [|[k' v] l IH]; intros e; cbn [aupdate].
    - cbn. intros [H|[]]; auto.
    - destruct (keqb k k'); cbn [flat_map snd]; rewrite !in_app_iff.
      + cbn [append_entry]. rewrite in_app_iff. cbn. intuition auto.
      + intros [H|H]; [tauto|]. apply IH in H. tauto.
  Qed.

  Lemma fold_aupdate_append_in {X} (g : X -> K) eid : forall (xs : list X) (l : list (K * list N)) e,
    In e (flat_map snd (fold_left (fun acc x => aupdate keqb (g x) (append_entry eid) acc) xs l)) ->
    In e (flat_map snd l) \/ e = eid.
  Proof.
    induction xs as [|x xs IH]; intros l e; cbn [fold_left]; [auto|].
    intros H. apply IH in H. destruct H as [H|H]; [|auto]. apply aupdate_append_in in H. exact H.
  Qed.
End AssocEntries.

(* the interval index: every entry of the new pieces is an entry of an old piece or eid *)
Lemma mk_pieces_in p fl fr eid : forall rgs e,
  In e (flat_map pe (mk_pieces p fl fr eid rgs)) -> In e (pe p) \/ e = eid.
Proof.
  unfold mk_pieces. induction rgs as [|[a b] rgs IH]; intros e; cbn [map flat_map]; [intros []|].
  rewrite in_app_iff. intros [H|H]; [|auto]. cbn [pe] in H.
  destruct (contain_range fl fr a b); [|auto]. rewrite in_app_iff in H. cbn in H. intuition auto.
Qed.

Lemma index_loop_in : forall items rl rr fl fr right0 eid e,
  In e (flat_map pe (index_loop items rl rr fl fr right0 eid)) -> In e (flat_map pe items) \/ e = eid.
Proof.
  induction items as [|p rest IH]; intros rl rr fl fr right0 eid e; cbn [index_loop]; [auto|].
  destruct (rr <=? pl p); [auto|].
  assert (Hcons : forall a b, In e (flat_map pe (p :: index_loop rest a b fl fr right0 eid)) ->
                              In e (flat_map pe (p :: rest)) \/ e = eid).
  { intros a b. cbn [flat_map]. rewrite !in_app_iff. intros [H|H]; [tauto|]. apply IH in H. tauto. }
  assert (Happ : forall rgs a b, In e (flat_map pe (mk_pieces p fl fr eid rgs ++ index_loop rest a b fl fr right0 eid)) ->
                                 In e (flat_map pe (p :: rest)) \/ e = eid).
  { intros rgs a b. rewrite flat_map_app. cbn [flat_map]. rewrite !in_app_iff. intros [H|H].
    - apply mk_pieces_in in H. tauto.
    - apply IH in H. tauto. }
  destruct (pr p <=? rl); [apply Hcons|].
  destruct (contains p rl); [|apply Hcons].
  destruct (pr p <? rr); [|apply Happ].
  destruct (new_range (pr p) right0) as [nl nr]. apply Happ.
Qed.

Lemma indexing_range_in items l r eid e :
  In e (flat_map pe (indexing_range items l r eid)) -> In e (flat_map pe items) \/ e = eid.
Proof.
  unfold indexing_range.
  destruct (new_range l (if l =? r then r + 1 else r)) as [a b]. apply index_loop_in.
Qed.

Lemma commit_tx_in fid eid t h e :
  In e (holder_entries (commit_tx fid eid t h)) -> In e (holder_entries h) \/ e = eid.
Proof.
  destruct h as [pls|vals|kv pcs], t as [ids|ks|zs|l r]; cbn [commit_tx holder_entries]; auto.
  - apply (fold_aupdate_append_in term_key_eqb (fun id => (fid, id))).
  - apply (fold_aupdate_append_in text_eqb (fun k => k)).
  - rewrite !in_app_iff. intros [H|H]; [|tauto].
    apply (fold_aupdate_append_in Z.eqb (fun z => z)) in H. tauto.
  - rewrite !in_app_iff. intros [H|H]; [tauto|]. apply indexing_range_in in H. tauto.
Qed.

Lemma aupdate_const_in (k : N) h : forall l e,
  In e (fields_entries (aupdate N.eqb k (fun _ => h) l)) -> In e (fields_entries l) \/ In e (holder_entries h).
Proof.
  unfold fields_entries. induction l as [|[k' v] l IH]; intros e; cbn [aupdate].
  - cbn. rewrite app_nil_r. auto.
  - destruct (N.eqb k k'); cbn [flat_map snd]; rewrite !in_app_iff.
    + tauto.
    + intros [H|H]; [tauto|]. apply IH in H. tauto.
Qed.

Lemma set_holder_in ec fd h e :
  In e (cont_entries (set_holder ec fd h)) -> In e (cont_entries ec) \/ In e (holder_entries h).
Proof.
  unfold set_holder, cont_entries.
  destruct (fd_cont fd); cbn [ec_default ec_fields]; rewrite !in_app_iff;
    try (intros [H|H]; [tauto|]; apply aupdate_const_in in H; tauto).
  tauto.
Qed.

Lemma alookup_fields_in (k : N) h : forall l e,
  alookup N.eqb k l = Some h -> In e (holder_entries h) -> In e (fields_entries l).
Proof.
  unfold fields_entries. induction l as [|[k' v] l IH]; intros e; cbn [alookup]; [discriminate|].
  cbn [flat_map snd]. rewrite in_app_iff. destruct (N.eqb k k').
  - intros [= ->]. auto.
  - intros H1 H2. right. apply IH; assumption.
Qed.

Lemma get_holder_in ec fd h e :
  get_holder ec fd = Some h -> In e (holder_entries h) -> In e (cont_entries ec).
Proof.
  unfold get_holder, cont_entries. rewrite in_app_iff.
  destruct (fd_cont fd).
  - intros [= <-]. auto.
  - intros H1 H2. right. eapply alookup_fields_in; eassumption.
  - intros H1 H2. right. eapply alookup_fields_in; eassumption.
Qed.

Lemma update_nth_in (f : econtainer -> econtainer) (P : N -> Prop) :
  (forall ec e, In e (cont_entries (f ec)) -> In e (cont_entries ec) \/ P e) ->
  forall l n e, In e (conts_entries (update_nth n f l)) -> In e (conts_entries l) \/ P e.
Proof.
  intros Hf. unfold conts_entries. induction l as [|x l IH]; intros n e.
  - destruct n; cbn; auto.
  - destruct n as [|n]; cbn [update_nth flat_map]; rewrite !in_app_iff.
    + intros [H|H]; [|tauto]. apply Hf in H. tauto.
    + intros [H|H]; [tauto|]. apply IH in H. tauto.
Qed.

Lemma commit_one_in k st t e :
  In e (st_entries (commit_one k st t)) -> In e (st_entries st) \/ e = tx_eid t.
Proof.
  unfold commit_one, st_entries. cbn [b_conts b_z with_conts]. rewrite !in_app_iff.
  intros [H|H]; [|tauto].
  apply (update_nth_in _ (fun e => e = tx_eid t)) in H; [tauto|].
  clear. intros ec e. destruct (get_holder ec (tx_field t)) as [h|] eqn:Eg; [|auto].
  intros H. apply set_holder_in in H. destruct H as [H|H]; [auto|].
  apply commit_tx_in in H. destruct H as [H|H]; [|auto].
  left. eapply get_holder_in; eassumption.
Qed.

Lemma commit_all_in k : forall txs st e,
  In e (st_entries (fold_left (commit_one k) txs st)) ->
  In e (st_entries st) \/ exists t, In t txs /\ e = tx_eid t.
Proof.
  induction txs as [|t txs IH]; intros st e; cbn [fold_left]; [auto|].
  intros H. apply IH in H. destruct H as [H|[t' [Hi He]]].
  - apply commit_one_in in H. destruct H as [H|H]; [auto|]. right. exists t. split; [left; reflexivity|exact H].
  - right. exists t'. split; [right; exact Hi|exact He].
Qed.

(* every prepared transaction of a conjunction carries one of the conjunction's two entry ids *)
Definition tx_of (cid : N) (t : tx) : Prop := exists b, tx_eid t = IdsGen.NewEntryID cid b.

Lemma index_exprs_txs : forall es st k cid f acc st' txs,
  index_exprs st k cid f es acc = (st', POk txs) -> Forall (tx_of cid) acc -> Forall (tx_of cid) txs.
Proof.
  induction es as [|e es IH]; intros st k cid f acc st' txs; cbn [index_exprs].
  - intros [= _ <-]. auto.
  - destruct (ensure_field st f) as [st1 fd].
    destruct (indexing_tx _ fd e) as [d| | | |]; try discriminate.
    intros H Hacc. eapply IH; [exact H|]. apply Forall_app. split; [exact Hacc|].
    constructor; [|constructor]. exists (e_incl e). reflexivity.
Qed.

Lemma index_conj_txs : forall c st k cid acc st' txs,
  index_conj st k cid c acc = (st', POk txs) -> Forall (tx_of cid) acc -> Forall (tx_of cid) txs.
Proof.
  induction c as [|[f es] c IH]; intros st k cid acc st' txs; cbn [index_conj].
  - intros [= _ <-]. auto.
  - destruct (index_exprs st k cid f es acc) as [st1 r] eqn:E.
    destruct r as [acc'| | | |]; try discriminate.
    intros H Hacc. eapply IH; [exact H|]. eapply index_exprs_txs; eassumption.
Qed.

(* one conjunction, any outcome: everything new is one of its two entry ids *)
Theorem add_conj_entries d st i c st' out cid :
  add_conj false d st (i, c) = (st', out) ->
  IdsGen.NewConjID d i (calc_size c) = Some cid ->
  forall e, In e (st_entries st') ->
    In e (st_entries st) \/ e = IdsGen.NewEntryID cid true \/ e = IdsGen.NewEntryID cid false.
Proof.
  unfold add_conj. intros H Ec. rewrite Ec in H. cbn [andb negb] in H.
  pose proof (index_conj_entries c (ensure_cont st (calc_size c)) (calc_size c) cid []) as He.
  rewrite ensure_cont_entries in He.
  destruct (index_conj (ensure_cont st (calc_size c)) (calc_size c) cid c []) as [st2 r] eqn:Ei. cbn [fst] in He.
  destruct r as [txs| | | |]; try (inversion H; subst; intros e Hin; rewrite He in Hin; auto).
  apply index_conj_txs in Ei; [|constructor].
  inversion H; subst. clear H. intros e Hin. apply commit_all_in in Hin.
  destruct Hin as [Hin|[t [Ht ->]]].
  - destruct (calc_size c =? 0).
    + unfold st_entries in Hin. cbn [b_conts b_z with_z] in Hin. rewrite app_assoc in Hin.
      fold (st_entries st2) in Hin. rewrite in_app_iff in Hin. cbn in Hin. rewrite He in Hin.
      destruct Hin as [Hin|[Hin|[]]]; auto.
    + rewrite He in Hin. auto.
  - rewrite Forall_forall in Ei. destruct (Ei t Ht) as [[|] Hb]; auto.
Qed.

(* the form asked for: a GOOD conjunction *)
Corollary good_conj_entries d st i c st' out cid txs :
  add_conj false d st (i, c) = (st', out) ->
  IdsGen.NewConjID d i (calc_size c) = Some cid ->
  snd (index_conj (ensure_cont st (calc_size c)) (calc_size c) cid c []) = POk txs ->
  forall e, In e (st_entries st') ->
    In e (st_entries st) \/ e = IdsGen.NewEntryID cid true \/ e = IdsGen.NewEntryID cid false.
Proof. intros H Ec _. eapply add_conj_entries; eassumption. Qed.

(* ================================================================================== *)
(* 5. documents                                                                         *)
(* ================================================================================== *)
(* Whether a conjunction parses is a function of the builder CONFIGURATION only (threshold, field
   table, default parsers), and the configuration as seen by the parser never changes while
   documents are added: a field missing from the table is created with exactly the descriptor
   field_desc predicts. *)
Definition field_desc (st : bstate) (f : fname) : fdesc :=
  match find_field f (b_fields st) with
  | Some d => d
  | None => {| fd_name := f; fd_cont := CDefault; fd_parser := b_parsers st f |}
  end.

Definition expr_parses (thr : Z) (fd : fdesc) (e : expr) : bool :=
  match indexing_tx thr fd e with POk _ => true | _ => false end.
Definition conj_parses (st : bstate) (c : conj) : bool :=
  forallb (fun fe => forallb (expr_parses (b_thr st) (field_desc st (fst fe))) (snd fe)) c.

Definition is_ok {A} (r : pres A) : bool := match r with POk _ => true | _ => false end.

(* what the parser and the policy switch can see of a state *)
Definition same_cfg (st st' : bstate) : Prop :=
  b_kind st' = b_kind st /\ b_policy st' = b_policy st /\ b_thr st' = b_thr st /\
  forall f, field_desc st' f = field_desc st f.

Lemma same_cfg_refl st : same_cfg st st.
Proof. repeat split. Qed.
Lemma same_cfg_trans a b c : same_cfg a b -> same_cfg b c -> same_cfg a c.
Proof.
  intros (A1 & A2 & A3 & A4) (B1 & B2 & B3 & B4).
  split; [congruence|split; [congruence|split; [congruence|]]].
  intros f. rewrite B4. apply A4.
Qed.

Lemma conj_parses_cfg st st' c : same_cfg st st' -> conj_parses st' c = conj_parses st c.
Proof.
  intros (_ & _ & Ht & Hf). unfold conj_parses. rewrite Ht.
  induction c as [|fe c IH]; cbn [forallb]; [reflexivity|]. rewrite Hf, IH. reflexivity.
Qed.

Lemma find_field_snoc f d : forall fs,
  find_field f (fs ++ [d]) =
  match find_field f fs with Some x => Some x | None => if N.eqb (fd_name d) f then Some d else None end.
Proof.
  unfold find_field. induction fs as [|x fs IH]; cbn [app find]; [reflexivity|].
  destruct (N.eqb (fd_name x) f); [reflexivity|exact IH].
Qed.

Lemma ensure_field_snd st f : snd (ensure_field st f) = field_desc st f.
Proof. unfold ensure_field, field_desc. destruct (find_field f (b_fields st)); reflexivity. Qed.

Lemma ensure_field_cfg st f : same_cfg st (fst (ensure_field st f)).
Proof.
  unfold ensure_field. destruct (find_field f (b_fields st)) eqn:E; [apply same_cfg_refl|].
  cbn [fst]. repeat split. intros g. unfold field_desc. cbn [b_fields b_parsers with_fields].
  rewrite find_field_snoc. destruct (find_field g (b_fields st)); [reflexivity|].
  cbn [fd_name]. destruct (N.eqb_spec f g) as [->|]; reflexivity.
Qed.

Lemma with_conts_cfg st cs : same_cfg st (with_conts st cs).
Proof. repeat split. Qed.
Lemma with_z_cfg st z : same_cfg st (with_z st z).
Proof. repeat split. Qed.

Lemma index_exprs_cfg : forall es st k cid f acc, same_cfg st (fst (index_exprs st k cid f es acc)).
Proof.
  induction es as [|e es IH]; intros st k cid f acc; cbn [index_exprs]; [apply same_cfg_refl|].
  pose proof (ensure_field_cfg st f) as Hc. destruct (ensure_field st f) as [st1 fd]. cbn [fst] in Hc.
  set (st2 := with_conts st1 _).
  assert (H2 : same_cfg st st2) by (eapply same_cfg_trans; [exact Hc|apply with_conts_cfg]).
  destruct (indexing_tx _ fd e); cbn [fst]; try exact H2.
  eapply same_cfg_trans; [exact H2|apply IH].
Qed.

Lemma index_conj_cfg : forall c st k cid acc, same_cfg st (fst (index_conj st k cid c acc)).
Proof.
  induction c as [|[f es] c IH]; intros st k cid acc; cbn [index_conj]; [apply same_cfg_refl|].
  pose proof (index_exprs_cfg es st k cid f acc) as Hc.
  destruct (index_exprs st k cid f es acc) as [st' r]. cbn [fst] in Hc.
  destruct r; cbn [fst]; try exact Hc. eapply same_cfg_trans; [exact Hc|apply IH].
Qed.

Lemma commit_all_cfg k : forall txs st, same_cfg st (fold_left (commit_one k) txs st).
Proof.
  induction txs as [|t txs IH]; intros st; cbn [fold_left]; [apply same_cfg_refl|].
  eapply same_cfg_trans; [|apply IH]. unfold commit_one. apply with_conts_cfg.
Qed.

Lemma add_conj_cfg wf d st ic : same_cfg st (fst (add_conj wf d st ic)).
Proof.
  destruct ic as [i c]. unfold add_conj.
  destruct (IdsGen.NewConjID d i (calc_size c)) as [cid|]; [|apply same_cfg_refl].
  set (st0 := if wf && (calc_size c =? 0) then _ else st).
  assert (H0 : same_cfg st st0) by (subst st0; destruct (wf && (calc_size c =? 0)); [apply with_z_cfg|apply same_cfg_refl]).
  assert (H1 : same_cfg st (ensure_cont st0 (calc_size c))) by (eapply same_cfg_trans; [exact H0|apply with_conts_cfg]).
  pose proof (index_conj_cfg c (ensure_cont st0 (calc_size c)) (calc_size c) cid []) as Hc.
  destruct (index_conj (ensure_cont st0 (calc_size c)) (calc_size c) cid c []) as [st2 r]. cbn [fst] in Hc.
  assert (H2 : same_cfg st st2) by (eapply same_cfg_trans; eassumption).
  destruct r; cbn [fst]; try exact H2.
  eapply same_cfg_trans; [|apply commit_all_cfg].
  destruct (negb wf && (calc_size c =? 0)); [|exact H2].
  eapply same_cfg_trans; [exact H2|apply with_z_cfg].
Qed.

(* the outcome of parsing is the state-independent predicate *)
Lemma index_exprs_ok : forall es st k cid f acc,
  is_ok (snd (index_exprs st k cid f es acc)) = forallb (expr_parses (b_thr st) (field_desc st f)) es.
Proof.
  induction es as [|e es IH]; intros st k cid f acc; cbn [index_exprs forallb]; [reflexivity|].
  pose proof (ensure_field_cfg st f) as Hc. pose proof (ensure_field_snd st f) as Hs.
  destruct (ensure_field st f) as [st1 fd]. cbn [fst snd] in Hc, Hs. subst fd.
  set (st2 := with_conts st1 _).
  assert (H2 : same_cfg st st2) by (eapply same_cfg_trans; [exact Hc|apply with_conts_cfg]).
  destruct H2 as (_ & _ & Ht & Hf).
  unfold expr_parses at 1. rewrite <- Ht.
  destruct (indexing_tx (b_thr st2) (field_desc st f) e); cbn [snd is_ok andb]; try reflexivity.
  rewrite IH, Ht, Hf. reflexivity.
Qed.

Lemma index_conj_ok : forall c st k cid acc,
  is_ok (snd (index_conj st k cid c acc)) = conj_parses st c.
Proof.
  induction c as [|[f es] c IH]; intros st k cid acc; cbn [index_conj]; [reflexivity|].
  unfold conj_parses. cbn [forallb fst snd]. fold (conj_parses st c).
  pose proof (index_exprs_ok es st k cid f acc) as Ho. pose proof (index_exprs_cfg es st k cid f acc) as Hc.
  destruct (index_exprs st k cid f es acc) as [st' r]. cbn [fst snd] in Ho, Hc. rewrite <- Ho.
  destruct r; cbn [snd is_ok andb]; try reflexivity.
  rewrite IH. apply conj_parses_cfg. exact Hc.
Qed.

Lemma conj_parses_spec st k cid c :
  conj_parses st c = true <-> exists txs, snd (index_conj (ensure_cont st k) k cid c []) = POk txs.
Proof.
  rewrite <- (conj_parses_cfg st (ensure_cont st k) c) by apply with_conts_cfg.
  rewrite <- (index_conj_ok c (ensure_cont st k) k cid []).
  destruct (snd (index_conj (ensure_cont st k) k cid c [])) as [txs| | | |]; cbn [is_ok]; split;
    try discriminate; try (intros [? ?]; discriminate); eauto.
Qed.

(* items 3 and 4 with the state-independent predicate: only a conjunction that parses adds anything *)
Theorem add_conj_entries_parses d st i c st' out :
  add_conj false d st (i, c) = (st', out) ->
  forall e, In e (st_entries st') ->
    In e (st_entries st) \/
    exists cid b, IdsGen.NewConjID d i (calc_size c) = Some cid /\ conj_parses st c = true /\
                  e = IdsGen.NewEntryID cid b.
Proof.
  intros H e Hin.
  destruct (IdsGen.NewConjID d i (calc_size c)) as [cid|] eqn:Ec.
  - destruct (conj_parses st c) eqn:Ep.
    + destruct (add_conj_entries _ _ _ _ _ _ _ H Ec e Hin) as [?|[?|?]]; [auto| |]; right; eauto.
    + left. rewrite <- (bad_conj_no_trace _ _ _ _ _ _ H); [exact Hin|].
      intros cid' Ec' txs Hs. rewrite Ec in Ec'. injection Ec' as <-.
      assert (conj_parses st c = true) by (apply (conj_parses_spec st (calc_size c) cid c); eauto).
      congruence.
  - rewrite bad_id_unchanged in H by exact Ec. injection H as <- _. auto.
Qed.

Theorem add_conjs_entries : forall ics d st st' out,
  add_conjs false d st ics = (st', out) ->
  forall e, In e (st_entries st') ->
    In e (st_entries st) \/
    exists i c cid b, In (i, c) ics /\ IdsGen.NewConjID d i (calc_size c) = Some cid /\
                      conj_parses st c = true /\ e = IdsGen.NewEntryID cid b.
Proof.
  induction ics as [|[i c] rest IH]; intros d st st' out; cbn [add_conjs].
  - intros [= <- _]. auto.
  - pose proof (add_conj_cfg false d st (i, c)) as Hc.
    destruct (add_conj false d st (i, c)) as [st1 o] eqn:E1. cbn [fst] in Hc.
    assert (Hstep : forall e, In e (st_entries st1) -> In e (st_entries st) \/
              exists i0 c0 cid b, In (i0, c0) ((i, c) :: rest) /\ IdsGen.NewConjID d i0 (calc_size c0) = Some cid /\
                                  conj_parses st c0 = true /\ e = IdsGen.NewEntryID cid b).
    { intros e Hin. destruct (add_conj_entries_parses _ _ _ _ _ _ E1 e Hin) as [?|(cid & b & ? & ? & ?)]; [auto|].
      right. exists i, c, cid, b. repeat split; auto. left. reflexivity. }
    destruct o; try (intros [= <- _]; exact Hstep).
    intros H e Hin. destruct (IH _ _ _ _ H e Hin) as [Hold|(i0 & c0 & cid & b & Hi & Hn & Hp & He)].
    + apply Hstep. exact Hold.
    + right. exists i0, c0, cid, b. repeat split; auto.
      * right. exact Hi.
      * rewrite <- Hp. symmetry. apply conj_parses_cfg. exact Hc.
Qed.

Lemma indexed_from_in {A} : forall (l : list A) n i x,
  In (i, x) (indexed_from n l) -> n <= i /\ nth_error l (Z.to_nat (i - n)) = Some x.
Proof.
  induction l as [|y l IH]; intros n i x; cbn [indexed_from]; [intros []|].
  intros [[= <- <-]|H].
  - rewrite Z.sub_diag. split; [lia|reflexivity].
  - apply IH in H. destruct H as [Hle Hn]. split; [lia|].
    replace (Z.to_nat (i - n)) with (S (Z.to_nat (i - (n + 1)))) by lia. exact Hn.
Qed.

(* a document, any policy (in particular PolSkip, where bad conjunctions are skipped and the rest
   of the document is indexed): every entry of the new state is an old one or an entry id of a
   conjunction of the document THAT PARSES *)
Theorem add_document_entries st d st' out :
  add_document false st d = (st', out) ->
  forall e, In e (st_entries st') ->
    In e (st_entries st) \/
    exists i c cid b, 0 <= i /\ nth_error (d_conjs d) (Z.to_nat i) = Some c /\
                      IdsGen.NewConjID (d_id d) i (calc_size c) = Some cid /\
                      conj_parses st c = true /\ e = IdsGen.NewEntryID cid b.
Proof.
  unfold add_document. intros H e Hin.
  assert (Hgen : add_conjs false (d_id d) st (indexed_from 0 (d_conjs d)) = (st', out) ->
          In e (st_entries st) \/
          exists i c cid b, 0 <= i /\ nth_error (d_conjs d) (Z.to_nat i) = Some c /\
                      IdsGen.NewConjID (d_id d) i (calc_size c) = Some cid /\
                      conj_parses st c = true /\ e = IdsGen.NewEntryID cid b).
  { intros H'. destruct (add_conjs_entries _ _ _ _ _ H' e Hin) as [?|(i & c & cid & b & Hi & Hn & Hp & He)]; [auto|].
    right. apply indexed_from_in in Hi. destruct Hi as [Hle Hnth]. rewrite Z.sub_0_r in Hnth.
    exists i, c, cid, b. auto. }
  destruct (d_conjs d) as [|c0 cs] eqn:Ed.
  - injection H as <- _. auto.
  - destruct (255 <? Z.of_nat (length (c0 :: cs))).
    + injection H as <- _. auto.
    + apply Hgen. exact H.
Qed.

(* a document none of whose conjunctions parses leaves no trace, under every policy *)
Corollary bad_document_no_trace st d st' out :
  add_document false st d = (st', out) ->
  (forall c, In c (d_conjs d) -> conj_parses st c = false) ->
  forall e, In e (st_entries st') -> In e (st_entries st).
Proof.
  intros H Hbad e Hin.
  destruct (add_document_entries _ _ _ _ H e Hin) as [?|(i & c & cid & b & _ & Hn & _ & Hp & _)]; [assumption|].
  apply nth_error_In in Hn. rewrite (Hbad c Hn) in Hp. discriminate.
Qed.

(* documents rejected outright *)
Corollary rejected_no_trace wf st d :
  d_conjs d = [] \/ 255 < Z.of_nat (length (d_conjs d)) ->
  st_entries (fst (add_document wf st d)) = st_entries st.
Proof. intros H. rewrite rejected_unchanged by exact H. reflexivity. Qed.

(* ================================================================================== *)
(* 6. the Error and the Panic policy leave the same state                              *)
(* ================================================================================== *)
Definition set_policy (p : policy) (st : bstate) : bstate :=
  {| b_kind := b_kind st; b_policy := p; b_thr := b_thr st; b_fields := b_fields st;
     b_conts := b_conts st; b_z := b_z st; b_parsers := b_parsers st |}.

Lemma set_policy_entries p st : st_entries (set_policy p st) = st_entries st.
Proof. reflexivity. Qed.

Lemma ensure_field_pol p st f :
  ensure_field (set_policy p st) f = (set_policy p (fst (ensure_field st f)), snd (ensure_field st f)).
Proof. unfold ensure_field. cbn [b_fields set_policy]. destruct (find_field f (b_fields st)); reflexivity. Qed.

Lemma index_exprs_pol p : forall es st k cid f acc,
  index_exprs (set_policy p st) k cid f es acc =
  (set_policy p (fst (index_exprs st k cid f es acc)), snd (index_exprs st k cid f es acc)).
Proof.
  induction es as [|e es IH]; intros st k cid f acc; cbn [index_exprs]; [reflexivity|].
  rewrite ensure_field_pol. destruct (ensure_field st f) as [st1 fd]. cbn [fst snd].
  change (with_conts (set_policy p st1)
            (update_nth (cont_index (set_policy p st1) k) (fun ec => create_holder ec fd) (b_conts (set_policy p st1))))
    with (set_policy p (with_conts st1 (update_nth (cont_index st1 k) (fun ec => create_holder ec fd) (b_conts st1)))).
  set (st2 := with_conts st1 _).
  change (b_thr (set_policy p st2)) with (b_thr st2).
  destruct (indexing_tx (b_thr st2) fd e); try reflexivity. apply IH.
Qed.

Lemma index_conj_pol p : forall c st k cid acc,
  index_conj (set_policy p st) k cid c acc =
  (set_policy p (fst (index_conj st k cid c acc)), snd (index_conj st k cid c acc)).
Proof.
  induction c as [|[f es] c IH]; intros st k cid acc; cbn [index_conj]; [reflexivity|].
  rewrite index_exprs_pol. destruct (index_exprs st k cid f es acc) as [st' r]. cbn [fst snd].
  destruct r; try reflexivity. apply IH.
Qed.

Lemma commit_all_pol p k : forall txs st,
  fold_left (commit_one k) txs (set_policy p st) = set_policy p (fold_left (commit_one k) txs st).
Proof.
  induction txs as [|t txs IH]; intros st; cbn [fold_left]; [reflexivity|].
  change (commit_one k (set_policy p st) t) with (set_policy p (commit_one k st t)). apply IH.
Qed.

Definition out_ok (o : add_out) : bool := match o with AddOk => true | _ => false end.

(* one conjunction: the state does not depend on the policy at all; whether the document goes on
   does not depend on which of the two non-skipping policies is configured *)
Lemma add_conj_pol wf p d st ic :
  fst (add_conj wf d (set_policy p st) ic) = set_policy p (fst (add_conj wf d st ic)) /\
  (b_policy st <> PolSkip -> p <> PolSkip ->
   out_ok (snd (add_conj wf d (set_policy p st) ic)) = out_ok (snd (add_conj wf d st ic))).
Proof.
  destruct ic as [i c]. unfold add_conj.
  destruct (IdsGen.NewConjID d i (calc_size c)) as [cid|]; [|split; reflexivity].
  cbn [b_z set_policy b_policy]. fold (set_policy p st).
  set (z := IdsGen.NewEntryID cid true).
  change (if wf && (calc_size c =? 0) then with_z (set_policy p st) (b_z st ++ [z]) else set_policy p st)
    with (if wf && (calc_size c =? 0) then set_policy p (with_z st (b_z st ++ [z])) else set_policy p st).
  replace (if wf && (calc_size c =? 0) then set_policy p (with_z st (b_z st ++ [z])) else set_policy p st)
    with (set_policy p (if wf && (calc_size c =? 0) then with_z st (b_z st ++ [z]) else st))
    by (destruct (wf && (calc_size c =? 0)); reflexivity).
  set (st0 := if wf && (calc_size c =? 0) then with_z st (b_z st ++ [z]) else st).
  change (ensure_cont (set_policy p st0) (calc_size c)) with (set_policy p (ensure_cont st0 (calc_size c))).
  rewrite index_conj_pol.
  destruct (index_conj (ensure_cont st0 (calc_size c)) (calc_size c) cid c []) as [st2 r]. cbn [fst snd].
  destruct r as [txs| | | |]; cbn [fst snd]; try (split; reflexivity).
  - split; [|reflexivity].
    destruct (negb wf && (calc_size c =? 0)); [|apply commit_all_pol].
    change (with_z (set_policy p st2) (b_z (set_policy p st2) ++ [z])) with (set_policy p (with_z st2 (b_z st2 ++ [z]))).
    apply commit_all_pol.
  - split; [reflexivity|]. intros H1 H2. destruct p, (b_policy st); try reflexivity; congruence.
Qed.

Lemma add_conjs_pol wf p d : forall ics st,
  b_policy st <> PolSkip -> p <> PolSkip ->
  fst (add_conjs wf d (set_policy p st) ics) = set_policy p (fst (add_conjs wf d st ics)) /\
  out_ok (snd (add_conjs wf d (set_policy p st) ics)) = out_ok (snd (add_conjs wf d st ics)).
Proof.
  induction ics as [|ic rest IH]; intros st Hs Hp; cbn [add_conjs]; [split; reflexivity|].
  destruct (add_conj_pol wf p d st ic) as [Hf Ho]. specialize (Ho Hs Hp).
  pose proof (add_conj_cfg wf d st ic) as (_ & Hpol & _).
  destruct (add_conj wf d (set_policy p st) ic) as [sa oa].
  destruct (add_conj wf d st ic) as [sb ob]. cbn [fst snd] in *. subst sa.
  destruct oa, ob; cbn [out_ok] in Ho; try discriminate; cbn [fst snd out_ok]; try (split; reflexivity).
  apply IH; [rewrite Hpol; exact Hs|exact Hp].
Qed.

Lemma add_document_pol wf p st d :
  b_policy st <> PolSkip -> p <> PolSkip ->
  fst (add_document wf (set_policy p st) d) = set_policy p (fst (add_document wf st d)) /\
  out_ok (snd (add_document wf (set_policy p st) d)) = out_ok (snd (add_document wf st d)).
Proof.
  intros Hs Hp. unfold add_document. destruct (d_conjs d) as [|c0 cs]; [split; reflexivity|].
  destruct (255 <? Z.of_nat (length (c0 :: cs))); [split; reflexivity|].
  apply add_conjs_pol; assumption.
Qed.

(* two builders equal except for the policy, one PolError the other PolPanic: after the same
   document they are still equal except for the policy; in particular they hold the same entries,
   and the document is accepted by both or by neither *)
Theorem error_panic_same_entries wf st1 st2 d :
  b_kind st2 = b_kind st1 -> b_thr st2 = b_thr st1 -> b_fields st2 = b_fields st1 ->
  b_conts st2 = b_conts st1 -> b_z st2 = b_z st1 -> b_parsers st2 = b_parsers st1 ->
  b_policy st1 = PolError -> b_policy st2 = PolPanic ->
  fst (add_document wf st2 d) = set_policy PolPanic (fst (add_document wf st1 d)) /\
  st_entries (fst (add_document wf st2 d)) = st_entries (fst (add_document wf st1 d)) /\
  out_ok (snd (add_document wf st2 d)) = out_ok (snd (add_document wf st1 d)).
Proof.
  intros H1 H2 H3 H4 H5 H6 Hp1 Hp2.
  assert (E : st2 = set_policy PolPanic st1).
  { destruct st1, st2. cbn in *. subst. reflexivity. }
  subst st2.
  destruct (add_document_pol wf PolPanic st1 d) as [Hf Ho]; [rewrite Hp1; discriminate|discriminate|].
  split; [exact Hf|]. split; [|exact Ho]. rewrite Hf. apply set_policy_entries.
Qed.

(* ================================================================================== *)
(* Limits of the property (concrete witnesses, by computation)                          *)
(* ================================================================================== *)
Module Witness.
  Definition st0 : bstate :=
    match config_field (new_builder IKGroups PolError 256 (fun _ => PNumber)) 2%N CRange with
    | Some s => s | None => new_builder IKGroups PolError 256 (fun _ => PNumber) end.
  Definition e_good := {| e_incl := true; e_op := OpEQ; e_val := VInt KI 7 |}.
  Definition e_bad := {| e_incl := true; e_op := OpOther; e_val := VInt KI 7 |}.   (* PErr on a range field *)
  Definition good : conj := [(1%N, [e_good])].
  Definition bad : conj := [(2%N, [e_bad])].
  Definition bad2 : conj := [(1%N, [e_good]); (2%N, [e_bad])].

  (* "no trace" is per CONJUNCTION, not per document: under PolError a document whose second
     conjunction fails is answered AddErr, but the first conjunction stays indexed *)
  Example error_document_partial_trace :
    let r := add_document false st0 {| d_id := 5; d_conjs := [good; bad] |} in
    snd r = AddErr /\ st_entries st0 = [] /\ st_entries (fst r) <> [].
  Proof. vm_compute. repeat split. discriminate. Qed.

  (* a conjunction that does not parse leaves no ENTRY, but it does leave structure: the field seen
     before the failure is created (as a default-holder field) and the container list has grown;
     the auto-created field can no longer be configured *)
  Example bad_conj_structural_residue :
    let r := add_document false st0 {| d_id := 5; d_conjs := [bad2] |} in
    snd r = AddErr /\ st_entries (fst r) = [] /\
    map fd_name (b_fields st0) = [2%N] /\ map fd_name (b_fields (fst r)) = [2%N; 1%N] /\
    length (b_conts st0) = 0%nat /\ length (b_conts (fst r)) = 3%nat /\
    config_field st0 1%N CAc <> None /\ config_field (fst r) 1%N CAc = None.
  Proof. vm_compute. repeat split. discriminate. Qed.
End Witness.

Print Assumptions index_conj_entries.
Print Assumptions ensure_cont_entries.
Print Assumptions bad_conj_no_trace.
Print Assumptions bad_id_unchanged.
Print Assumptions bad_conj_trace_pinned.
Print Assumptions add_conj_entries.
Print Assumptions good_conj_entries.
Print Assumptions conj_parses_spec.
Print Assumptions add_conj_entries_parses.
Print Assumptions add_document_entries.
Print Assumptions bad_document_no_trace.
Print Assumptions rejected_no_trace.
Print Assumptions error_panic_same_entries.
