(* C10  Retrieval is pure: no dependence on query history, errors or pooled objects.  Statements only.
   In the functional model the scan itself is a function of (index, assignment); what makes the real
   Retrieve impure-looking are the process-wide sync.Pools.  Model/Pool.v models the pool as a multiset
   from which Get may hand out ANY pooled object (the `choice` of every step is universally quantified). *)
From Coq Require Import List NArith ZArith Bool.
From BE Require Import Model.GoTypes Model.GoVal Model.Parsers Model.Index Model.Pool Proofs.PoolProof.
Import ListNotations.

(* any history over any indexes (successful and failing retrievals alike), any pool behaviour:
   the i-th answer is the pure answer *)
Theorem C10_history_independent : forall (h : list (index * assignment * nat)) (p : pool), pool_inv p ->
  run_history true h p = map (fun x => retrieve (fst (fst x)) (snd (fst x))) h.
Proof. exact history_independent. Qed.

(* the invariant behind it: pooled objects are empty; kept by success and by failure (deferred Put) *)
Theorem C10_pool_invariant_preserved : forall ix q p ch, pool_inv p ->
  fst (retrieve_pooled true ix q p ch) = retrieve ix q /\ pool_inv (snd (retrieve_pooled true ix q p ch)).
Proof. exact retrieve_pooled_pure. Qed.

(* non-vacuity and necessity: without the Reset before Put a later retrieval sees an earlier one's documents *)
Definition ix1 : index :=
  build_index (fst (add_documents false (new_builder IKGroups PolError 256 (fun _ => PCommon))
    [ {| d_id := 7; d_conjs := [[(0%N, [ {| e_incl := true; e_op := OpEQ; e_val := VInt KI 1 |} ])]] |} ])).
Example C10_put_without_reset_leaks :
  run_history true  [(ix1, [(0%N, VInt KI 1)], 0%nat); (ix1, [(0%N, VInt KI 2)], 0%nat)] [] = [ROk [7%Z]; ROk []] /\
  run_history false [(ix1, [(0%N, VInt KI 1)], 0%nat); (ix1, [(0%N, VInt KI 2)], 0%nat)] [] = [ROk [7%Z]; ROk [7%Z]].
Proof. vm_compute. split; reflexivity. Qed.

Print Assumptions C10_history_independent.
Print Assumptions C10_pool_invariant_preserved.
