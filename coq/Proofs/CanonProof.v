(* C09: under the common parser a supported value is identified by its canonical text(s),
   whatever its Go representation.  Statements about Model/Parsers.v (table driven) against the
   representation-free Model/Spec.v (canon_scalar / canon_texts). *)
From Coq Require Import List NArith ZArith Bool Lia.
From BE Require Import Model.GoTypes Model.GoVal Model.Parsers Model.Index Model.Spec Gen.TypeSwitchGen.
Import ListNotations.
Local Open Scope Z_scope.

(* element type of a typed slice *)
Definition slice_of (t : gty) : option gty :=
  match t with
  | Tint => Some TSint | Tint8 => Some TSint8 | Tint16 => Some TSint16 | Tint32 => Some TSint32 | Tint64 => Some TSint64
  | Tuint => Some TSuint | Tuint8 => Some TSuint8 | Tuint16 => Some TSuint16 | Tuint32 => Some TSuint32 | Tuint64 => Some TSuint64
  | Tfloat32 => Some TSfloat32 | Tfloat64 => Some TSfloat64 | Tstring => Some TSstring | TjsonNumber => Some TSjsonNumber
  | Tbool => Some TSbool
  | _ => None
  end.

(* a well formed value: the elements of a typed slice have the slice's element type *)
Definition wf_gval (v : gval) : Prop :=
  match v with
  | VSlice t _ vs => Forall (fun e => slice_of (type_of e) = Some t) vs
  | _ => True
  end.

(* ---- scalars ---- *)
Lemma alloc_scalar v t : canon_scalar v = Some t -> common_alloc_iface v = POk (PText t).
Proof.
  destruct v as [|k z|w f|s|s|b|ty n vs|n vs|ty vs|ty n]; cbn [canon_scalar]; try discriminate.
  - intros H; inversion H; subst. destruct k; reflexivity.
  - destruct (f_cls f) eqn:Ec; try discriminate. destruct (Z.abs (f_ip f) <? two63) eqn:Eb; try discriminate.
    intros H; inversion H; subst. destruct w; unfold common_alloc_iface, float_u64_text, float_to_i64; cbn; rewrite Ec, Eb; reflexivity.
  - intros H; inversion H; subst. reflexivity.
  - intros H; inversion H; subst. reflexivity.
Qed.
Lemma find_scalar v t : canon_scalar v = Some t -> common_find_iface v = POk (Some (PText t)).
Proof.
  destruct v as [|k z|w f|s|s|b|ty n vs|n vs|ty vs|ty n]; cbn [canon_scalar]; try discriminate.
  - intros H; inversion H; subst. destruct k; reflexivity.
  - destruct (f_cls f) eqn:Ec; try discriminate. destruct (Z.abs (f_ip f) <? two63) eqn:Eb; try discriminate.
    intros H; inversion H; subst. destruct w; unfold common_find_iface, float_u64_text, float_to_i64; cbn; rewrite Ec, Eb; reflexivity.
  - intros H; inversion H; subst. reflexivity.
  - intros H; inversion H; subst. reflexivity.
Qed.

Lemma pmap_all_some {A B C} (f : A -> pres B) (g : A -> option C) (h : C -> B) l cs :
  (forall x c, In x l -> g x = Some c -> f x = POk (h c)) ->
  all_some (map g l) = Some cs -> pmap_list f l = POk (map h cs).
Proof.
  revert cs. induction l as [|x l IH]; intros cs Hf H; cbn in *.
  - inversion H; subst. reflexivity.
  - destruct (g x) as [c|] eqn:Eg; [|discriminate].
    destruct (all_some (map g l)) as [cs'|] eqn:El; [|discriminate]. inversion H; subst.
    rewrite (Hf x c) by auto. cbn [pbind]. rewrite (IH cs') by auto. reflexivity.
Qed.

(* ---- lists and typed slices, index side ---- *)
Lemma value_list n vs ts : canon_texts (VList n vs) = Some ts -> common_parse_value (VList n vs) = POk (map PText ts).
Proof.
  unfold canon_texts. cbn [scalars_of]. intros H.
  change (common_parse_value (VList n vs)) with (pmap_list common_alloc_iface vs).
  eapply pmap_all_some; eauto. intros x c _ Hc. apply alloc_scalar; auto.
Qed.
Lemma assign_list vs ts : canon_texts (VList false vs) = Some ts -> common_parse_assign (VList false vs) = POk (map PText ts).
Proof.
  unfold canon_texts. cbn [scalars_of]. intros H.
  assert (E : pmap_list common_find_iface vs = POk (map (fun t => Some (PText t)) ts)).
  { eapply pmap_all_some with (h := fun t => Some (PText t)); eauto. intros x c _ Hc. apply find_scalar; auto. }
  change (common_parse_assign (VList false vs)) with
    (pbind (pmap_list common_find_iface vs) (fun os => POk (flat_map (fun o => match o with Some i => [i] | None => [] end) os))).
  rewrite E. cbn [pbind]. f_equal. clear. induction ts; cbn; auto. f_equal; auto.
Qed.

(* element-wise facts for typed slices *)
Lemma elem_int_text e t : slice_of (type_of e) = Some t ->
  match t with TSint | TSint8 | TSint16 | TSint32 | TSint64 | TSuint | TSuint8 | TSuint16 | TSuint32 | TSuint64 | TSstring | TSjsonNumber => True | _ => False end ->
  forall c, canon_scalar e = Some c -> scalar_text e = Some c.
Proof.
  intros Hs Ht c Hc. destruct e as [|k z|w f|s|s|b|ty n vs|n vs|ty vs|ty n]; cbn in *; try discriminate; auto.
  all: try (destruct w; inversion Hs; subst; contradiction).
  all: try (destruct ty; discriminate).
Qed.
Lemma elem_float_text e t : slice_of (type_of e) = Some t ->
  match t with TSfloat32 | TSfloat64 => True | _ => False end ->
  forall c, canon_scalar e = Some c -> float_u64_text e = POk c.
Proof.
  intros Hs Ht c Hc. destruct e as [|k z|w f|s|s|b|ty n vs|n vs|ty vs|ty n]; cbn in *; try discriminate.
  all: try (destruct k; inversion Hs; subst; contradiction).
  all: try (inversion Hs; subst; contradiction).
  all: try (destruct ty; discriminate).
  unfold float_to_i64. destruct (f_cls f); try discriminate. destruct (Z.abs (f_ip f) <? two63); try discriminate.
  inversion Hc; reflexivity.
Qed.

Lemma value_slice t n vs ts : wf_gval (VSlice t n vs) -> canon_texts (VSlice t n vs) = Some ts ->
  match t with TSint | TSint8 | TSint16 | TSint32 | TSint64 | TSuint | TSuint8 | TSuint16 | TSuint32 | TSuint64
             | TSstring | TSjsonNumber | TSfloat32 | TSfloat64 => True | _ => False end ->
  common_parse_value (VSlice t n vs) = POk (map PText ts) /\
  (n = false -> common_parse_assign (VSlice t n vs) = POk (map PText ts)).
Proof.
  intros Hwf Hc Ht. cbn [wf_gval] in Hwf. rewrite Forall_forall in Hwf.
  assert (Hvs : all_some (map canon_scalar vs) = Some ts).
  { unfold canon_texts in Hc. cbn [scalars_of] in Hc. destruct t; try contradiction; exact Hc. }
  assert (Hint : match t with TSfloat32 | TSfloat64 => False | _ => True end ->
                 pmap_list (fun e => match scalar_text e with Some s => POk (PText s) | None => PUnmodelled end) vs = POk (map PText ts)).
  { intros Hnf. eapply pmap_all_some; eauto. intros x c Hin Hcx.
    rewrite (elem_int_text x t (Hwf x Hin) ltac:(destruct t; try contradiction; exact I) c Hcx). reflexivity. }
  assert (Hfl : match t with TSfloat32 | TSfloat64 => True | _ => False end ->
                pmap_list (fun e => pbind (float_u64_text e) (fun s => POk (PText s))) vs = POk (map PText ts)).
  { intros Hf. eapply pmap_all_some; eauto. intros x c Hin Hcx.
    rewrite (elem_float_text x t (Hwf x Hin) Hf c Hcx). reflexivity. }
  destruct t; try contradiction; split; try (intros ->);
    try (exact (Hint I)); try (exact (Hfl I)).
Qed.

(* ---- top-level scalars ---- *)
Lemma value_scalar v t : canon_scalar v = Some t ->
  common_parse_value v = POk [PText t] /\ common_parse_assign v = POk [PText t].
Proof.
  destruct v as [|k z|w f|s|s|b|ty n vs|n vs|ty vs|ty n]; cbn [canon_scalar]; try discriminate.
  - intros H; inversion H; subst. destruct k; split; reflexivity.
  - destruct (f_cls f) eqn:Ec; try discriminate. destruct (Z.abs (f_ip f) <? two63) eqn:Eb; try discriminate.
    intros H; inversion H; subst.
    destruct w; split; unfold common_parse_value, common_parse_assign, float_u64_text, float_to_i64; cbn; rewrite Ec, Eb; reflexivity.
  - intros H; inversion H; subst. split; reflexivity.
  - intros H; inversion H; subst. split; reflexivity.
Qed.

(* ids of texts: shared id <-> shared text (ids are texts under the no-collision model) *)
Lemma shared_id_iff_text ts1 ts2 :
  (exists i, In i (map PText ts1) /\ In i (map PText ts2)) <-> (exists t, In t ts1 /\ In t ts2).
Proof.
  split.
  - intros (i & H1 & H2). apply in_map_iff in H1. destruct H1 as (t & <- & Ht).
    apply in_map_iff in H2. destruct H2 as (t' & E & Ht'). inversion E; subst. exists t. auto.
  - intros (t & H1 & H2). exists (PText t). split; apply in_map; auto.
Qed.
