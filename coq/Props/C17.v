(* C17  Value parsers are total and never silently index a different predicate.  Statements only.
   Model: Model/Parsers.v (dispatch through the case tables regenerated from the source).
   Specification: Model/Spec.v (canon_texts / ints_of / strings_of / descs_of / expr_sem). *)
From Coq Require Import List NArith ZArith Bool.
From BE Require Import Model.GoTypes Model.GoVal Model.Parsers Gen.TypeSwitchGen Proofs.ParsersProof.
Import ListNotations.

(* generated-table obligations: no type outside the modelled universe appears in any case list *)
Theorem C17_tables_within_universe :
  sw_common_ParseAssign_extra = [] /\ sw_common_ParseValue_extra = [] /\ sw_common_allocInterfaceID_extra = [] /\
  sw_common_findInterfaceID_extra = [] /\ sw_ParseIntergers_extra = [] /\ sw_ParseIntegerNumber_extra = [] /\
  sw_number_ParseValue_extra = [] /\ sw_numrange_ParseAssign_extra = [] /\ sw_numrange_ParseValue_extra = [] /\
  sw_strhash_ParseValue_extra = [] /\ sw_NilInterface_extra = [] /\ sw_ParseAcMatchDict_extra = [] /\
  sw_BuildAcMatchContent_extra = [] /\ sw_ParseBetween_extra = [].
Proof. exact tables_within_universe. Qed.

(* no parser entry point panics or diverges, for every Go value whatsoever *)
Theorem C17_total : forall (p : parser_kind) (v : gval),
  parse_value p v <> PPanic /\ parse_value p v <> PDiverge /\
  parse_assign p v <> PPanic /\ parse_assign p v <> PDiverge.
Proof. exact parsers_total. Qed.

Theorem C17_range_helpers_total : forall (op : vop) (v : gval),
  parse_range op true v <> PPanic /\ parse_range op true v <> PDiverge /\
  parse_integers true v <> PPanic /\ parse_integers true v <> PDiverge /\
  nil_interface v <> PPanic.
Proof. exact range_helpers_total. Qed.

(* a range description denotes start, start+step, ... <= end for step >= 1 and is refused otherwise *)
Theorem C17_range_desc_refuses_bad_step : forall s st e sp, range_desc s = Some (st, e, sp) -> (1 <= sp)%Z.
Proof. exact range_desc_step_pos. Qed.
Theorem C17_enum_range_exact : forall st e sp, (1 <= sp)%Z -> (st <= e)%Z ->
  forall x, In x (enum_range (Z.to_nat ((e - st) / sp + 1)) st e sp) <->
            exists k, (0 <= k)%Z /\ x = (st + k * sp)%Z /\ (x <= e)%Z.
Proof. exact enum_range_exact. Qed.

Print Assumptions C17_tables_within_universe.
Print Assumptions C17_total.
Print Assumptions C17_range_helpers_total.
Print Assumptions C17_range_desc_refuses_bad_step.
Print Assumptions C17_enum_range_exact.
