package main

import (
	"encoding/json"
	"fmt"
	"math"

	be "github.com/echoface/be_indexer"
	"github.com/echoface/be_indexer/roaringidx"
)

type c11In struct {
	K    string `json:"k"` // conj | entry | rr | cast
	Doc  int64  `json:"doc"`
	Idx  int    `json:"idx"`
	Size int    `json:"size"`
	C1   uint64 `json:"c1,omitempty"`
	C2   uint64 `json:"c2,omitempty"`
	I1   bool   `json:"i1,omitempty"`
	I2   bool   `json:"i2,omitempty"`
}

func init() {
	docs := []int64{0, 1, -1, 2, -2, 1<<43 - 2, -(1<<43 - 2), 1<<43 - 1, -(1<<43 - 1), 1 << 43, -(1 << 43), 1<<43 + 1,
		1<<55 - 1, -(1<<55 - 1), 1 << 55, -(1 << 55), 1<<55 + 1, -(1<<55 + 1), 1<<55 - 2, math.MinInt64, math.MaxInt64, math.MinInt64 + 1, 1 << 62, -(1 << 62)}
	small := []int{-1, 0, 1, 127, 128, 254, 255, 256, 257, -256, 65536}
	props["C11"] = &propDef{
		header:    "From BE Require Import Corr.CheckC11.",
		headers:   map[string]string{"E": "From BE Require Import Corr.CheckE2E.", "R": "From BE Require Import Corr.CheckRr."},
		rule:      "exhaustive boundary grid (doc in 24 boundary values x idx,size in 11 boundary values) plus seeded random triples, entry pairs, roaring pairs and casts; through build and retrieval: every boundary id alone and together with the other in-range boundary ids as documents of 1..4 conjunctions (include-only, exclude-only, mixed) on the k-groups and compact indexes (under the error, skip and panic policies in turn; Retrieve and the recording collector) and on the roaring index (Retrieve, RetrieveDocs, GetRawResult, WithHint with the extreme ids), ids just outside the range offered to AddDocument; documents of 255, 256, 257 and 300 conjunctions (positions at and beyond the last encodable one); conjunctions of 127..255 include fields sharing posting lists with small ones; documents of two and three include-free conjunctions at the boundary ids; a third of the non-batch roaring cases and a dedicated case with ids 2^53+1 .. 2^55-1 add every document decoded from its own JSON encoding (the id a plain JSON number); a case is non-trivial when the ids involved are accepted and non-zero (conj/rr), when both conjunction ids are < 2^60 (entry), always for casts, when some retrieval returns a non-empty proper subset (through retrieval); distinct = distinct input",
		shardSize: 1500,
		gen: func(tier string, r *Rand, add func(in interface{})) {
			for _, d := range docs {
				for _, i := range small {
					for _, s := range small {
						add(c11In{K: "conj", Doc: d, Idx: i, Size: s})
					}
					add(c11In{K: "rr", Doc: d, Idx: i})
				}
				add(c11In{K: "cast", Doc: d})
			}
			c11Retrieval(tier, r, docs, add)
			for _, kind := range []string{"kgroups", "compact"} {
				kw := func(inc bool, s string) eExpr { return eExpr{F: 1, Inc: inc, V: tvStr(s)} }
				for _, docs := range [][]eDoc{
					{{ID: -5, Cons: []eConj{{kw(true, "kw")}}}, {ID: 7, Cons: []eConj{{kw(true, "kw")}}}, {ID: -9, Cons: []eConj{{kw(true, "kw")}}}},
					{{ID: 1, Cons: []eConj{{{F: 0, Inc: true, V: tvStr("nowhere")}}, {kw(true, "kw")}}}, {ID: 2, Cons: []eConj{{kw(true, "kw")}}}},
				} { // BuildIndex after the first document, then documents with KNOWN keywords, then BuildIndex again (no Reset)
					add(eCase{Kind: kind, Policy: "error", Configs: map[int]string{1: "ac_matcher"}, Docs: docs, Rebuild: 1,
						Queries: []eQuery{{A: []eAssign{{F: 1, V: tvStr("a kw b")}}}, {A: []eAssign{{F: 1, V: tvStr("none")}}}, {}}})
				}
			}
			// generations of one builder at the boundary ids: the published index of the first generation (boundary ids,
			// include-free and ordinary conjunctions) is kept and must report its own ids unchanged after the builder was
			// Reset and built a next generation with other ids (compared Go-side: e2e.go answersOf)
			for _, kind := range []string{"kgroups", "compact"} {
				ex := func(n int64) eConj { return eConj{{F: 0, Inc: false, V: tvSlice("[]int", tvInt("int", n))}} }
				in := func(n int64) eConj { return eConj{{F: 0, Inc: true, V: tvSlice("[]int", tvInt("int", n))}} }
				const maxID = 1<<43 - 1
				add(eCase{Kind: kind, Policy: "error",
					Pre:     []eDoc{{ID: -7, Cons: []eConj{ex(1)}}, {ID: maxID, Cons: []eConj{ex(2), in(5)}}, {ID: -maxID, Cons: []eConj{{}, in(6)}}, {ID: 3, Cons: []eConj{in(5)}}},
					Docs:    []eDoc{{ID: 100, Cons: []eConj{ex(1)}}, {ID: 200, Cons: []eConj{{}}}, {ID: -maxID + 1, Cons: []eConj{in(5), ex(5)}}, {ID: 1, Cons: []eConj{in(6)}}},
					Queries: []eQuery{{}, {A: []eAssign{{F: 0, V: tvInt("int", 5)}}}, {A: []eAssign{{F: 0, V: tvInt("int", 1)}}}, {A: []eAssign{{F: 0, V: tvInt("int", 6)}}}, {A: []eAssign{{F: 0, V: tvInt("int", 2)}}}}})
			}
			// skip policy at the boundary ids: conjunctions that are refused IN FRONT OF good ones -- every good conjunction keeps
			// the position it has in its document (the collector's conjunction id decodes to it)
			for _, kind := range []string{"kgroups", "compact"} {
				ex := func(n int64) eConj { return eConj{{F: 0, Inc: false, V: tvSlice("[]int", tvInt("int", n))}} }
				in := func(n int64) eConj { return eConj{{F: 0, Inc: true, V: tvSlice("[]int", tvInt("int", n))}} }
				bad := eConj{{F: 0, Inc: true, V: tvBool(true)}}
				bad2 := eConj{{F: 1, Inc: false, V: TV{T: "other:map"}}}
				const maxID = 1<<43 - 1
				add(eCase{Kind: kind, Policy: "skip",
					Docs:    []eDoc{{ID: maxID, Cons: []eConj{bad, in(5), ex(1)}}, {ID: -7, Cons: []eConj{in(6), bad2, in(5), bad, in(6)}}, {ID: -maxID, Cons: []eConj{bad, bad2, {}}}, {ID: 7, Cons: []eConj{in(5)}}},
					Queries: []eQuery{{}, {A: []eAssign{{F: 0, V: tvInt("int", 5)}}}, {A: []eAssign{{F: 0, V: tvInt("int", 6)}}}, {A: []eAssign{{F: 0, V: tvInt("int", 1)}}}}})
			}
			rangeSplitCases(add) // ids (negative ones, several conjunction positions) through the range container's split pieces
			n := 3000
			if tier == "thorough" {
				n = 250000
			}
			for k := 0; k < n; k++ {
				switch k % 4 {
				case 0:
					d := r.I64(-(1<<43 - 1), 1<<43-1)
					if r.Chance(10) {
						d = int64(r.U64())
					}
					add(c11In{K: "conj", Doc: d, Idx: r.Intn(260) - 2, Size: r.Intn(260) - 2})
				case 1:
					c1 := r.U64() >> 4
					c2 := r.U64() >> 4
					switch r.Intn(4) {
					case 0:
						c2 = c1
					case 1:
						c2 = c1 + 1
					case 2: // real conjunction ids
						c1 = uint64(be.NewConjID(be.DocID(r.I64(-100, 100)), r.Intn(256), r.Intn(256)))
						c2 = uint64(be.NewConjID(be.DocID(r.I64(-100, 100)), r.Intn(256), r.Intn(256)))
					}
					add(c11In{K: "entry", C1: c1, C2: c2, I1: r.Bool(), I2: r.Bool()})
				case 2:
					d := r.I64(-(1<<55 - 1), 1<<55-1)
					if r.Chance(10) {
						d = int64(r.U64())
					}
					add(c11In{K: "rr", Doc: d, Idx: r.Intn(260) - 2})
				case 3:
					add(c11In{K: "cast", Doc: int64(r.U64())})
				}
			}
		},
		exec: func(raw json.RawMessage) (res execResult, err error) {
			var probe struct {
				Kind   string          `json:"kind"`
				Fields json.RawMessage `json:"fields"`
			}
			json.Unmarshal(raw, &probe)
			if probe.Kind != "" {
				res, err = execE2E(raw)
				res.Family = "E"
				res.Dist = "retrieval/" + probe.Kind
				return
			}
			if probe.Fields != nil {
				res, err = execRr(raw)
				res.Family = "R"
				res.Dist = "retrieval/roaring"
				return
			}
			var in c11In
			if err = json.Unmarshal(raw, &in); err != nil {
				return
			}
			res.Dist = in.K
			switch in.K {
			case "conj":
				impl := "None"
				func() {
					defer func() {
						if recover() != nil {
							impl = "None"
							res.Dist = "conj/refused"
						}
					}()
					id := be.NewConjID(be.DocID(in.Doc), in.Idx, in.Size)
					impl = fmt.Sprintf("(Some (%s, (%s, (%s, %s))))", nl(uint64(id)), zl(int64(id.DocID())), zl(int64(id.Index())), zl(int64(id.Size())))
					res.NonTrivial = in.Doc != 0
					res.Dist = "conj/accepted"
					res.Summary = fmt.Sprintf("id=%d decode=<%d,%d,%d>", uint64(id), id.DocID(), id.Index(), id.Size())
				}()
				res.Coq = fmt.Sprintf("CConj %s %s %s %s", zl(in.Doc), zl(int64(in.Idx)), zl(int64(in.Size)), impl)
			case "entry":
				e1 := be.NewEntryID(be.ConjID(in.C1), in.I1)
				e2 := be.NewEntryID(be.ConjID(in.C2), in.I2)
				res.NonTrivial = in.C1 < 1<<60 && in.C2 < 1<<60
				res.Summary = fmt.Sprintf("e1=%d e2=%d", uint64(e1), uint64(e2))
				res.Coq = fmt.Sprintf("CEntry %s %s %s %s %s %s %s %s %s %s", nl(in.C1), bl(in.I1), nl(in.C2), bl(in.I2),
					nl(uint64(e1)), nl(uint64(e2)), nl(uint64(e1.GetConjID())), bl(e1.IsInclude()), bl(e1.IsExclude()), bl(e1.IsNULLEntry()))
			case "rr":
				id, e := roaringidx.NewConjunctionID(in.Idx, in.Doc)
				impl := "None"
				res.Dist = "rr/refused"
				if e == nil {
					impl = fmt.Sprintf("(Some (%s, (%s, %s)))", nl(uint64(id)), zl(id.DocID()), nl(uint64(id.Idx())))
					res.NonTrivial = in.Doc != 0
					res.Dist = "rr/accepted"
					res.Summary = fmt.Sprintf("id=%d decode=<%d,%d>", uint64(id), id.DocID(), id.Idx())
				}
				res.Coq = fmt.Sprintf("CRr %s %s %s", zl(int64(in.Idx)), zl(in.Doc), impl)
			case "cast":
				u := uint64(be.DocID(in.Doc))
				back := int64(be.DocID(u))
				res.NonTrivial = true
				res.Summary = fmt.Sprintf("u=%d back=%d", u, back)
				res.Coq = fmt.Sprintf("CCast %s %s %s", zl(in.Doc), nl(u), zl(back))
			default:
				err = fmt.Errorf("bad kind %q", in.K)
			}
			return
		},
	}
}

// documents carrying boundary ids through build and retrieval
func c11Retrieval(tier string, r *Rand, ids []int64, add func(in interface{})) {
	iv := func(v int) TV { return tvInt("int", int64(v)) }
	ivs := func(vs ...int) TV {
		l := make([]TV, len(vs))
		for i, v := range vs {
			l[i] = iv(v)
		}
		return tvSlice("[]int", l...)
	}
	// conjunction shapes over fields 0,1: include-only, exclude-only, mixed, two-field
	shapes := func(k int) []eConj {
		return [][]eConj{
			{{{F: 0, Inc: true, V: ivs(1, k)}}},
			{{{F: 0, Inc: false, V: ivs(2)}}},
			{{{F: 0, Inc: true, V: ivs(1)}, {F: 1, Inc: false, V: ivs(3)}}, {{F: 1, Inc: true, V: ivs(k)}}},
			{{{F: 0, Inc: true, V: ivs(k)}, {F: 1, Inc: true, V: ivs(1, 3)}}, {{F: 0, Inc: false, V: ivs(1)}}, {{F: 1, Inc: true, V: ivs(2)}}, {{F: 0, Inc: true, V: ivs(2)}, {F: 1, Inc: true, V: ivs(2)}}},
			// include written before exclude on one field, sharing a value: both entries of the conjunction on one list
			{{{F: 0, Inc: true, V: ivs(1, 2, k)}, {F: 0, Inc: false, V: ivs(2)}}, {{F: 1, Inc: false, V: ivs(3)}, {F: 1, Inc: true, V: ivs(3, 1)}}},
		}[k%5]
	}
	queries := func() []eQuery {
		var qs []eQuery
		for _, a := range [][2]int{{1, 1}, {1, 3}, {2, 2}, {3, 3}, {4, 0}, {5, 1}, {0, 4}, {6, 6}, {7, 2}} {
			qs = append(qs, eQuery{A: []eAssign{{F: 0, V: iv(a[0])}, {F: 1, V: iv(a[1])}}})
		}
		qs = append(qs, eQuery{A: []eAssign{{F: 0, V: ivs(1, 2, 4, 5)}}}, eQuery{A: []eAssign{{F: 1, V: ivs(1, 2, 3)}}}, eQuery{})
		return qs
	}
	inRange := func(d int64, lim int64) bool { return d <= lim && d >= -lim }
	for _, kind := range []string{"kgroups", "compact", "rr"} {
		lim := int64(1<<43 - 1)
		if kind == "rr" {
			lim = 1<<55 - 1
		}
		emitted := 0
		emit := func(docs []eDoc) {
			if kind != "rr" { // whatever the policy for unparseable conjunctions: an id or size outside the range is refused
				emitted++
				add(eCase{Kind: kind, Policy: []string{"error", "skip", "panic"}[emitted%3], Docs: docs, Queries: queries()})
				return
			}
			c := rCase{Fields: []rField{{F: 0, Cont: "default"}, {F: 1, Cont: "default"}}, Docs: docs}
			// every other case through the batch entry point AddDocuments; a document outside the range goes last in its group
			if emitted++; emitted%2 == 0 {
				var good, bad []eDoc
				for _, d := range docs {
					if inRange(d.ID, lim) {
						good = append(good, d)
					} else {
						bad = append(bad, d)
					}
				}
				if len(bad) <= 1 {
					c.Docs = append(good, bad...)
					c.Batch = len(c.Docs)
				}
			}
			c.ViaJSON = c.Batch == 0 && emitted%3 == 1 // a third of the others: each document decoded from its own JSON encoding (the id a plain JSON number)
			for i, q := range queries() {
				c.Ops = append(c.Ops, rOp{S: 0, Op: "reset"})
				if i%4 == 3 {
					var hs []int64
					for _, d := range docs {
						if len(hs) < 3 && d.ID < 0 {
							hs = append(hs, d.ID)
						}
					}
					hs = append(hs, 1<<55, -(1 << 55))
					for _, d := range docs { // out-of-range hints sharing their low 56 bits with an indexed id
						if inRange(d.ID, lim) {
							hs = append(hs, d.ID+1<<56, d.ID-1<<56)
						}
					}
					c.Ops = append(c.Ops, rOp{S: 0, Op: "hint", Hint: hs})
				}
				c.Ops = append(c.Ops, rOp{S: 0, Op: []string{"retrieve", "docs"}[i%2], A: q.A}, rOp{S: 0, Op: "raw"},
					rOp{S: 1, Op: "reset"}, rOp{S: 1, Op: []string{"docs", "retrieve"}[i%2], A: q.A})
			}
			add(c)
		}
		// each boundary id alone (refused outside the range), next to an ordinary document
		for k, d := range ids {
			emit([]eDoc{{ID: d, Cons: shapes(k)}, {ID: 7, Cons: shapes(k + 1)}})
		}
		// all in-range boundary ids together
		for rot := 0; rot < 4; rot++ {
			var docs []eDoc
			for k, d := range ids {
				if inRange(d, lim) {
					docs = append(docs, eDoc{ID: d, Cons: shapes(k + rot)})
				}
			}
			emit(docs)
		}
		// ids no float64 holds exactly (2^53 < |id| <= 2^55-1), next to their float64 neighbours, in documents decoded from JSON
		if kind == "rr" {
			var docs []eDoc
			for k, d := range []int64{1<<53 + 1, 1 << 53, 1<<54 + 3, -(1<<53 + 1), 1<<55 - 2, 1<<55 - 1, -(1<<55 - 1), 1<<54 + 2} {
				docs = append(docs, eDoc{ID: d, Cons: []eConj{{{F: 0, Inc: true, V: ivs(100 + k)}}, {{F: 1, Inc: true, V: ivs(k % 3)}}}})
			}
			for _, via := range []bool{true, false} {
				c := rCase{Fields: []rField{{F: 0, Cont: "default"}, {F: 1, Cont: "default"}}, Docs: docs, ViaJSON: via}
				for k := range docs {
					c.Ops = append(c.Ops, rOp{S: 0, Op: "reset"}, rOp{S: 0, Op: []string{"retrieve", "docs"}[k%2], A: []eAssign{{F: 0, V: iv(100 + k)}}}, rOp{S: 0, Op: "raw"})
				}
				c.Ops = append(c.Ops, rOp{S: 0, Op: "reset"}, rOp{S: 0, Op: "hint", Hint: []int64{1<<53 + 1, 1<<55 - 2}}, rOp{S: 0, Op: "docs", A: []eAssign{{F: 1, V: ivs(0, 1, 2)}}}, rOp{S: 0, Op: "raw"})
				add(c)
			}
		}
		// several include-free conjunctions in one document: each position keeps its own match-everything entry
		{
			neg := []eConj{{{F: 0, Inc: false, V: ivs(1)}}, {{F: 1, Inc: false, V: ivs(3)}}, {{F: 0, Inc: false, V: ivs(2)}, {F: 1, Inc: false, V: ivs(1)}}}
			var docs []eDoc
			for _, d := range []int64{7, -7, lim, -lim, 0} {
				docs = append(docs, eDoc{ID: d, Cons: neg})
			}
			docs = append(docs, eDoc{ID: 9, Cons: neg[1:]}, eDoc{ID: -9, Cons: []eConj{{}, neg[0]}})
			emit(docs)
			emit(docs[:2])
		}
		// conjunction positions at and beyond the limit (position 255 is the last encodable one): documents
		// of 255, 256, 257 and 300 conjunctions, each conjunction matched by its own value
		for _, nconj := range []int{255, 256, 257, 300} {
			for _, id := range []int64{10, -11} {
				d := eDoc{ID: id}
				for k := 0; k < nconj; k++ {
					d.Cons = append(d.Cons, eConj{{F: 0, Inc: true, V: ivs(1000 + k)}})
				}
				docs := []eDoc{{ID: 7, Cons: shapes(1)}, d, {ID: 8, Cons: shapes(2)}}
				var qs []eQuery
				for _, k := range []int{0, 1, 254, 255, 256, 257, 299, 300} {
					qs = append(qs, eQuery{A: []eAssign{{F: 0, V: iv(1000 + k)}}})
				}
				qs = append(qs, eQuery{A: []eAssign{{F: 0, V: ivs(1, 1255, 1256)}, {F: 1, V: iv(3)}}})
				if kind != "rr" {
					add(eCase{Kind: kind, Policy: "error", Docs: docs, Queries: qs})
					continue
				}
				c := rCase{Fields: []rField{{F: 0, Cont: "default"}, {F: 1, Cont: "default"}}, Docs: docs}
				for i, q := range qs {
					c.Ops = append(c.Ops, rOp{S: 0, Op: "reset"}, rOp{S: 0, Op: []string{"retrieve", "docs"}[i%2], A: q.A}, rOp{S: 0, Op: "raw"})
				}
				add(c)
			}
		}
		// conjunction sizes up to the last encodable one (255 include fields) sharing posting lists with small
		// conjunctions: entries must order by size first
		if kind != "rr" {
			for _, nf := range []int{127, 128, 129, 200, 255, 256, 257, 300} { // more than 255 include fields: refused, not stored under another size
				var big eConj
				var all []eAssign
				for f := 0; f < nf; f++ {
					big = append(big, eExpr{F: f, Inc: true, V: ivs(1)})
					all = append(all, eAssign{F: f, V: iv(1)})
				}
				docs := []eDoc{{ID: 9, Cons: []eConj{big}}, {ID: -7, Cons: []eConj{{{F: 0, Inc: true, V: ivs(1)}}}},
					{ID: 8, Cons: []eConj{{{F: 0, Inc: true, V: ivs(1)}, {F: 1, Inc: true, V: ivs(1)}}, {{F: 3, Inc: false, V: ivs(1)}}}}}
				qs := []eQuery{{A: []eAssign{{F: 0, V: iv(1)}}}, {A: all}, {A: all[:2]}, {A: all[:nf-1]}, {A: []eAssign{{F: 5, V: iv(2)}}}}
				add(eCase{Kind: kind, Policy: []string{"error", "skip", "panic"}[nf%3], Docs: docs, Queries: qs})
			}
		}
		n := 20
		if tier == "thorough" {
			n = 600
		}
		for i := 0; i < n; i++ {
			var docs []eDoc
			used := map[int64]bool{}
			for k := 2 + r.Intn(8); k > 0; k-- {
				d := r.I64(-lim, lim)
				switch r.Intn(4) {
				case 0:
					d = -lim + r.I64(0, 3)
				case 1:
					d = lim - r.I64(0, 3)
				case 2:
					d = r.I64(-5, 5)
				}
				if r.Chance(5) {
					d = lim + r.I64(1, 3)
				}
				if used[d] {
					continue
				}
				used[d] = true
				docs = append(docs, eDoc{ID: d, Cons: shapes(r.Intn(64))})
			}
			emit(docs)
		}
	}
}
