(* C08 uses the shared end-to-end case format. *)
From BE Require Export Corr.SpecE2E.
