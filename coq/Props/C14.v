(* C14  A published index is independent of later activity on its builder.  Statements only.
   PARTIAL like C07: the memory-level half (no race between Retrieve on the old index and the builder)
   is exhibited by the -race runs; here: the logical half and the regenerated hand-over fact. *)
From Coq Require Import List NArith ZArith Bool.
From BE Require Import Model.GoTypes Model.GoVal Model.Parsers Model.Index Model.Publish Proofs.PublishProof Gen.FootprintGen.
Import ListNotations.

(* any sequence of Reset / AddDocument / ConfigField / BuildIndex after publication, any assignment *)
Theorem C14_answers_unchanged : forall st0 ops q,
  retrieve_published false st0 ops q = retrieve (build_index st0) q.
Proof. exact published_independent. Qed.

(* regenerated from the source: BuildIndex does not hand the index the builder's own table
   (Some false = it does: the pinned tree; None = the call was not recognised, nothing is claimed) *)
Theorem C14_build_index_does_not_share_the_field_table : build_index_hands_over_fresh_table <> Some false.
Proof. vm_compute. intro H. discriminate H. Qed.

(* the pinned tree's sharing was observable even sequentially *)
Theorem C14_refuted_shared_table :
  retrieve_published false st_pub [BReset; BConfigField 9%N CDefault] q_late = ROk [1%Z] /\
  retrieve_published true  st_pub [BReset; BConfigField 9%N CDefault] q_late = RErr.
Proof. exact shared_table_refuted. Qed.

Print Assumptions C14_answers_unchanged.
Print Assumptions C14_build_index_does_not_share_the_field_table.
Print Assumptions C14_refuted_shared_table.
