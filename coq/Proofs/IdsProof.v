From Coq Require Import NArith ZArith Lia Bool.
From Coq Require Import ZifyBool ZifyN.
From BE Require Import Gen.IdsGen.
Local Open Scope N_scope.
Ltac Zify.zify_post_hook ::= Z.div_mod_to_equations.

Lemma lor_mul_low hi lo k : lo < 2 ^ k -> N.lor (hi * 2 ^ k) lo = hi * 2 ^ k + lo.
Proof.
  intros H.
  rewrite <- N.lxor_lor, <- N.add_nocarry_lxor; auto;
  apply N.bits_inj_0; intros n; rewrite N.land_spec;
  destruct (N.lt_ge_cases n k) as [Hn|Hn].
  1,3: rewrite N.mul_pow2_bits_low; auto.
  1,2: replace (N.testbit lo n) with false; [apply andb_false_r|];
       symmetry; destruct (N.eq_dec lo 0) as [->|Hz]; [apply N.bits_0|];
       apply N.bits_above_log2; apply N.log2_lt_pow2; try lia;
       eapply N.lt_le_trans; [exact H|]; apply N.pow_le_mono_r; lia.
Qed.

Definition enc (doc idx size : Z) : N :=
  Z.to_N size * 2^52 + Z.to_N idx * 2^44 + (if (doc <? 0)%Z then 1 else 0) * 2^43 + Z.to_N (Z.abs doc).

Lemma NewConjID_arith doc idx size :
  (Z.abs doc <= 8796093022207)%Z -> (0 <= idx < 256)%Z -> (0 <= size < 256)%Z ->
  NewConjID doc idx size = Some (enc doc idx size).
Proof.
  intros Hd Hi Hs. unfold NewConjID, ValidDocID, ValidIdxOrSize.
  replace (negb ((doc <=? 8796093022207)%Z && (-8796093022207 <=? doc)%Z) || negb ((0 <=? idx)%Z && (idx <? 256)%Z) || negb ((0 <=? size)%Z && (size <? 256)%Z)) with false by lia.
  unfold enc. f_equal.
  set (neg := if (doc <? 0)%Z then 1 else 0).
  assert (Hpair : (if (doc <? 0)%Z then (i64 (- doc), 1) else (doc, 0)) = (Z.abs doc, neg)).
  { unfold neg, i64. destruct (Z.ltb_spec doc 0); f_equal; lia. }
  cbv zeta. rewrite Hpair. clear Hpair.
  assert (Hneg : neg < 2) by (unfold neg; destruct (doc <? 0)%Z; lia).
  unfold u64. rewrite !N.shiftl_mul_pow2.
  change 18446744073709551616%Z with (2^64)%Z.
  rewrite !Z.mod_small by lia.
  assert (P52 : 2^52 = 4503599627370496) by reflexivity.
  assert (P44 : 2^44 = 17592186044416) by reflexivity.
  assert (P43 : 2^43 = 8796093022208) by reflexivity.
  rewrite !N.mod_small by (rewrite ?P52, ?P44, ?P43; lia).
  set (S := Z.to_N size). set (I := Z.to_N idx). set (A := Z.to_N (Z.abs doc)).
  assert (HS : S < 256) by (unfold S; lia). assert (HI : I < 256) by (unfold I; lia).
  assert (HA : A < 8796093022208) by (unfold A; lia).
  rewrite (lor_mul_low S (I * 2^44) 52) by (rewrite P52, P44; lia).
  replace (S * 2^52 + I * 2^44) with ((S * 256 + I) * 2^44) by (rewrite P52, P44; lia).
  rewrite (lor_mul_low _ (neg * 2^43) 44) by (rewrite P44, P43; lia).
  replace ((S * 256 + I) * 2^44 + neg * 2^43) with (((S * 256 + I) * 2 + neg) * 2^43) by (rewrite P44, P43; lia).
  rewrite (lor_mul_low _ A 43) by (rewrite P43; lia).
  rewrite ?P52, ?P44, ?P43. first [reflexivity | f_equal; lia].
Qed.

Theorem conjid_roundtrip doc idx size :
  (Z.abs doc <= 8796093022207)%Z -> (0 <= idx < 256)%Z -> (0 <= size < 256)%Z ->
  exists c, NewConjID doc idx size = Some c /\ c < 2^60 /\
            ConjID_DocID c = doc /\ ConjID_Index c = idx /\ ConjID_Size c = size.
Proof.
  intros Hd Hi Hs. exists (enc doc idx size). split; [apply NewConjID_arith; auto|].
  assert (P60 : 2^60 = 1152921504606846976) by reflexivity.
  unfold ConjID_DocID, ConjID_Index, ConjID_Size, enc, i64.
  rewrite !N.shiftr_div_pow2.
  change 255 with (N.ones 8). change 1 with (N.ones 1) at 3. change 8796093022207 with (N.ones 43).
  rewrite !N.land_ones.
  change (2^52) with 4503599627370496. change (2^44) with 17592186044416. change (2^43) with 8796093022208.
  change (2^8) with 256. change (2^1) with 2. rewrite P60.
  set (neg := if (doc <? 0)%Z then 1 else 0).
  assert (Hneg : neg = if (doc <? 0)%Z then 1 else 0) by reflexivity.
  clearbody neg.
  set (S := Z.to_N size) in *. set (I := Z.to_N idx) in *. set (A := Z.to_N (Z.abs doc)) in *.
  assert (HS : S < 256 /\ Z.of_N S = size) by (unfold S; lia). assert (HI : I < 256 /\ Z.of_N I = idx) by (unfold I; lia).
  assert (HA : A < 8796093022208 /\ Z.of_N A = Z.abs doc) by (unfold A; lia).
  clearbody S I A.
  assert (Hn1 : neg <= 1) by (subst neg; destruct (doc <? 0)%Z; lia).
  repeat split.
  - lia.
  - destruct (Z.ltb_spec doc 0); subst neg.
    + replace (0 <? _) with true by lia. lia.
    + replace (0 <? _) with false by lia. lia.
  - lia.
  - lia.
Qed.
Print Assumptions conjid_roundtrip.

(* ------------------------------------------------------------------------------------------ *)
(* refusal, injectivity *)

Lemma NewConjID_refuses doc idx size :
  ~ ((Z.abs doc <= 8796093022207)%Z /\ (0 <= idx < 256)%Z /\ (0 <= size < 256)%Z) ->
  NewConjID doc idx size = None.
Proof.
  intros H. unfold NewConjID, ValidDocID, ValidIdxOrSize.
  destruct (negb ((doc <=? 8796093022207)%Z && (-8796093022207 <=? doc)%Z) || negb ((0 <=? idx)%Z && (idx <? 256)%Z) || negb ((0 <=? size)%Z && (size <? 256)%Z)) eqn:E; [reflexivity|].
  exfalso. apply H. lia.
Qed.

Lemma NewConjID_some_inrange doc idx size c : NewConjID doc idx size = Some c ->
  (Z.abs doc <= 8796093022207)%Z /\ (0 <= idx < 256)%Z /\ (0 <= size < 256)%Z.
Proof.
  intros H.
  destruct (Z_le_dec (Z.abs doc) 8796093022207) as [Hd|Hd];
  destruct (Z_le_dec 0 idx) as [Hi1|Hi1]; destruct (Z_lt_dec idx 256) as [Hi2|Hi2];
  destruct (Z_le_dec 0 size) as [Hs1|Hs1]; destruct (Z_lt_dec size 256) as [Hs2|Hs2];
  try (repeat split; assumption);
  rewrite NewConjID_refuses in H by lia; discriminate.
Qed.

Theorem conjid_injective d1 i1 s1 d2 i2 s2 c :
  NewConjID d1 i1 s1 = Some c -> NewConjID d2 i2 s2 = Some c -> d1 = d2 /\ i1 = i2 /\ s1 = s2.
Proof.
  intros H1 H2.
  destruct (NewConjID_some_inrange _ _ _ _ H1) as (A1 & B1 & C1).
  destruct (NewConjID_some_inrange _ _ _ _ H2) as (A2 & B2 & C2).
  destruct (conjid_roundtrip d1 i1 s1 A1 B1 C1) as (c1 & E1 & _ & D1 & I1 & S1).
  destruct (conjid_roundtrip d2 i2 s2 A2 B2 C2) as (c2 & E2 & _ & D2 & I2 & S2).
  rewrite H1 in E1. rewrite H2 in E2. inversion E1; inversion E2; subst c1 c2.
  rewrite <- D1, <- I1, <- S1, D2, I2, S2. auto.
Qed.

(* ------------------------------------------------------------------------------------------ *)
(* entry ids *)

Lemma NewEntryID_arith c i : c < 2^60 -> NewEntryID c i = c * 16 + (if i then 1 else 0).
Proof.
  intros H. assert (P60 : 2^60 = 1152921504606846976) by reflexivity. rewrite P60 in H.
  unfold NewEntryID, u64. rewrite N.shiftl_mul_pow2. change (2^4) with 16.
  rewrite N.mod_small by lia.
  destruct i; cbn [negb].
  - change 16 with (2^4). rewrite lor_mul_low by (change (2^4) with 16; lia). reflexivity.
  - lia.
Qed.

Theorem entry_order c1 i1 c2 i2 : c1 < 2^60 -> c2 < 2^60 ->
  (NewEntryID c1 i1 < NewEntryID c2 i2 <-> (c1 < c2 \/ (c1 = c2 /\ i1 = false /\ i2 = true))).
Proof.
  intros H1 H2. rewrite !NewEntryID_arith by assumption.
  destruct i1, i2; split; intros H; try lia.
  all: try (destruct H as [H|(H & Ha & Hb)]; try discriminate; lia).
Qed.

Theorem entry_excl_succ c : c < 2^60 -> NewEntryID c false + 1 = NewEntryID c true.
Proof. intros H. rewrite !NewEntryID_arith by assumption. lia. Qed.

Theorem entry_lt_null c i : c < 2^60 -> NewEntryID c i < NULLENTRY.
Proof.
  intros H. rewrite NewEntryID_arith by assumption. unfold NULLENTRY.
  assert (P60 : 2^60 = 1152921504606846976) by reflexivity. rewrite P60 in H. destruct i; lia.
Qed.

Theorem entry_decode c i : c < 2^60 ->
  EntryID_GetConjID (NewEntryID c i) = c /\ EntryID_IsInclude (NewEntryID c i) = i /\
  EntryID_IsExclude (NewEntryID c i) = negb i /\ EntryID_IsNULLEntry (NewEntryID c i) = false.
Proof.
  intros H. pose proof (entry_lt_null c i H) as Hn. rewrite NewEntryID_arith in * by assumption.
  unfold EntryID_GetConjID, EntryID_IsInclude, EntryID_IsExclude, EntryID_IsNULLEntry, NULLENTRY in *.
  rewrite N.shiftr_div_pow2. change (2^4) with 16.
  assert (L : forall x, N.land x 1 = x mod 2) by (intros x; change 1 with (N.ones 1); apply N.land_ones).
  rewrite !L.
  destruct i; cbn [negb]; repeat split; lia.
Qed.

(* conjunction ids order by (size, index, sign, |doc|) *)
Theorem conj_order d1 i1 s1 d2 i2 s2 :
  (Z.abs d1 <= 8796093022207)%Z -> (0 <= i1 < 256)%Z -> (0 <= s1 < 256)%Z ->
  (Z.abs d2 <= 8796093022207)%Z -> (0 <= i2 < 256)%Z -> (0 <= s2 < 256)%Z ->
  (enc d1 i1 s1 < enc d2 i2 s2 <->
   (s1 < s2)%Z \/ (s1 = s2 /\ ((i1 < i2)%Z \/ (i1 = i2 /\
      (((d1 <? 0)%Z = false /\ (d2 <? 0)%Z = true) \/
       ((d1 <? 0)%Z = (d2 <? 0)%Z /\ (Z.abs d1 < Z.abs d2)%Z)))))).
Proof.
  intros. unfold enc.
  change (2^52) with 4503599627370496. change (2^44) with 17592186044416. change (2^43) with 8796093022208.
  destruct (d1 <? 0)%Z eqn:E1, (d2 <? 0)%Z eqn:E2; lia.
Qed.

Theorem enc_lt_2_60 d i s :
  (Z.abs d <= 8796093022207)%Z -> (0 <= i < 256)%Z -> (0 <= s < 256)%Z -> enc d i s < 2^60.
Proof.
  intros. unfold enc. change (2^60) with 1152921504606846976.
  change (2^52) with 4503599627370496. change (2^44) with 17592186044416. change (2^43) with 8796093022208.
  destruct (d <? 0)%Z; lia.
Qed.

(* the size field is the most significant: ids are monotone in size (used by the compact scan) *)
Theorem conj_size_monotone c1 c2 : c1 <= c2 -> c2 < 2^60 -> (ConjID_Size c1 <= ConjID_Size c2)%Z.
Proof.
  intros H H2. unfold ConjID_Size, i64. rewrite !N.shiftr_div_pow2.
  change 255 with (N.ones 8). rewrite !N.land_ones.
  change (2^52) with 4503599627370496 in *. change (2^8) with 256. change (2^60) with 1152921504606846976 in H2.
  assert (c1 / 4503599627370496 <= c2 / 4503599627370496) by (apply N.div_le_mono; lia).
  assert (c2 / 4503599627370496 < 256) by (apply N.div_lt_upper_bound; lia).
  rewrite !N.mod_small by lia. lia.
Qed.

(* ------------------------------------------------------------------------------------------ *)
(* roaring conjunction ids *)

Definition rr_enc (idx doc : Z) : N := Z.to_N ((doc * 256) mod 2^64) + Z.to_N idx.

Lemma NewConjunctionID_arith idx doc :
  (Z.abs doc <= 36028797018963967)%Z -> (0 <= idx < 256)%Z ->
  NewConjunctionID idx doc = Some (rr_enc idx doc).
Proof.
  intros Hd Hi. unfold NewConjunctionID, ValidRoaringIdxDocID, ValidIdxOrSize.
  replace (negb ((0 <=? idx)%Z && (idx <? 256)%Z) || negb ((doc <=? 36028797018963967)%Z && (-36028797018963967 <=? doc)%Z)) with false by lia.
  f_equal. unfold rr_enc, u64, i64. rewrite Z.shiftl_mul_pow2 by lia.
  change (2^8)%Z with 256%Z. change (2^64)%Z with 18446744073709551616%Z.
  set (hi := Z.to_N ((doc * 256) mod 18446744073709551616)).
  assert (Hhi : exists k, hi = k * 2^8 /\ k < 2^56).
  { exists (Z.to_N (doc mod 72057594037927936)). unfold hi. change (2^8) with 256. change (2^56) with 72057594037927936. lia. }
  destruct Hhi as (k & Hk & Hk56). change (2^56) with 72057594037927936 in Hk56.
  replace (Z.to_N (((doc * 256 + 9223372036854775808) mod 18446744073709551616 - 9223372036854775808) mod 18446744073709551616)) with hi by (unfold hi; lia).
  change (2^8) with 256 in Hk.
  rewrite (N.mod_small hi) by lia.
  rewrite (N.mod_small (Z.to_N (idx mod 18446744073709551616))) by lia.
  replace (Z.to_N (idx mod 18446744073709551616)) with (Z.to_N idx) by lia.
  rewrite Hk. change 256 with (2^8). apply lor_mul_low. change (2^8) with 256. lia.
Qed.

Theorem rr_roundtrip idx doc :
  (Z.abs doc <= 36028797018963967)%Z -> (0 <= idx < 256)%Z ->
  exists c, NewConjunctionID idx doc = Some c /\ c < 2^64 /\
            ConjunctionID_DocID c = doc /\ ConjunctionID_Idx c = Z.to_N idx.
Proof.
  intros Hd Hi. exists (rr_enc idx doc). split; [apply NewConjunctionID_arith; assumption|].
  unfold ConjunctionID_DocID, ConjunctionID_Idx, rr_enc, i64, u8.
  rewrite Z.shiftr_div_pow2 by lia. change (2^8)%Z with 256%Z. change (2^64)%Z with 18446744073709551616%Z.
  change 255 with (N.ones 8). rewrite N.land_ones. change (2^8) with 256. change (2^64) with 18446744073709551616.
  repeat split; lia.
Qed.

Lemma NewConjunctionID_refuses idx doc :
  ~ ((Z.abs doc <= 36028797018963967)%Z /\ (0 <= idx < 256)%Z) -> NewConjunctionID idx doc = None.
Proof.
  intros H. unfold NewConjunctionID, ValidRoaringIdxDocID, ValidIdxOrSize.
  destruct (negb ((0 <=? idx)%Z && (idx <? 256)%Z) || negb ((doc <=? 36028797018963967)%Z && (-36028797018963967 <=? doc)%Z)) eqn:E; [reflexivity|].
  exfalso. apply H. lia.
Qed.

Lemma NewConjunctionID_some_inrange idx doc c : NewConjunctionID idx doc = Some c ->
  (Z.abs doc <= 36028797018963967)%Z /\ (0 <= idx < 256)%Z.
Proof.
  intros H.
  destruct (Z_le_dec (Z.abs doc) 36028797018963967); destruct (Z_le_dec 0 idx); destruct (Z_lt_dec idx 256);
  try (repeat split; assumption); rewrite NewConjunctionID_refuses in H by lia; discriminate.
Qed.

Theorem rr_injective i1 d1 i2 d2 c :
  NewConjunctionID i1 d1 = Some c -> NewConjunctionID i2 d2 = Some c -> i1 = i2 /\ d1 = d2.
Proof.
  intros H1 H2.
  destruct (NewConjunctionID_some_inrange _ _ _ H1) as (A1 & B1).
  destruct (NewConjunctionID_some_inrange _ _ _ H2) as (A2 & B2).
  destruct (rr_roundtrip i1 d1 A1 B1) as (c1 & E1 & _ & D1 & I1).
  destruct (rr_roundtrip i2 d2 A2 B2) as (c2 & E2 & _ & D2 & I2).
  rewrite H1 in E1. rewrite H2 in E2. inversion E1; inversion E2; subst c1 c2.
  split; [|congruence]. rewrite I1 in I2. lia.
Qed.

(* result casts: DocID -> uint64 (collector bitmap / roaring Retrieve) -> DocID is the identity *)
Theorem result_cast_roundtrip d : (- 9223372036854775808 <= d < 9223372036854775808)%Z ->
  i64 (Z.of_N (u64 (Z.to_N (d mod 18446744073709551616)))) = d.
Proof. intros H. unfold i64, u64. lia. Qed.
