"""Per-property configuration shared by bin/check and bin/mkmanifest."""

TRUSTED_BASE_COMMON = [
    "Coq 8.16.1 kernel (coqc); vm_compute for case evaluation and finite obligations; no native_compute",
    "no Axiom/Parameter/Admitted in /verif/coq (scanned on every run)",
    "translator vh xlate (go/types constant evaluation, statement-level Go->Gallina for the id codecs, type-switch tables)",
    "correspondence harness vh cases (typed-value reconstruction, canonicalisation, Gallina literal printer); comparison done inside Coq",
]

PROPS = {
    "C11": {
        "level": "proof",
        "design_ref": "§6 C11",
        "technique": "Coq theorems over Gallina code regenerated from id_types.go/conjunction_types.go by a translator, plus differential check of the translated functions against the real ones (vm_compute)",
        "text": "Round trip, injectivity, refusal outside the range, entry order and result casts are Coq theorems about the Gallina translation of the current id_types.go / roaringidx/conjunction_types.go (regenerated on every run); the translated functions are run against the real ones on a boundary grid and random triples.",
        "note": "Trusted: Coq kernel, the Go->Gallina translator for the straight-line integer subset (cross-checked against the real functions on every run), uint64/int64 wrap semantics written as mod 2^64. No axioms.",
        "assumptions": ["Go integer conversions and shifts wrap modulo 2^64 as modelled by u64/i64 in Gen/IdsGen.v"],
    },
    "C12": {
        "level": "proof",
        "design_ref": "§6 C12",
        "technique": "Coq proof of a statement-level model of EntriesCursor.SkipTo (gallop + binary search with fuel), FieldCursor and insertion sort; model run against the real cursors on random and exhaustive small lists (vm_compute)",
        "text": "SkipTo (index-level and value-level over any target sequence), group minimum and sort are Coq theorems about Model/Cursor.v, a statement-by-statement model of index_scanner.go; the model and the specification are both compared with the real cursors on every call of generated op sequences.",
        "note": "Trusted: Coq kernel; the hand-written model of index_scanner.go (tied to the code only by the correspondence run on this tree); entries are uint64 so every entry <= NULLENTRY. No axioms.",
        "assumptions": ["posting lists are sorted ascending (the builder sorts them; C01/C02 cover that)", "targets and entries are uint64 values"],
    },
}

# properties not claimed (reason); empty when everything is claimed
NOT_APPLICABLE = {}

# commits in /repo that add hooks (//go:build verif)
HOOK_COMMITS = []
