(* Executable model of the posting-list indexes: documents, builder (two-phase commit, bad
   conjunction policy), the three entries holders, and concrete retrieval over cursors for the
   size-grouped (k-groups) and the compact index.  Statement level; mutable Go objects become
   values, Go maps become association lists (iteration order = list order; the observables the
   checks compare do not depend on it). *)
From Coq Require Import List NArith ZArith Bool.
From BE Require Import Model.GoTypes Model.GoVal Model.Parsers Model.Scan Model.Cursor Model.RangeIdx.
From BE Require Gen.IdsGen Gen.ConstsGen.
Import ListNotations.
Local Open Scope Z_scope.

(* ---------- documents ---------- *)
Definition fname := N.
Record expr := { e_incl : bool; e_op : vop; e_val : gval }.
Definition conj := list (fname * list expr).          (* Go map field -> expressions: fields distinct *)
Record doc := { d_id : Z; d_conjs : list conj }.

Inductive cont_kind := CDefault | CAc | CRange.
Inductive policy := PolError | PolSkip | PolPanic.
Inductive index_kind := IKGroups | ICompact.

(* Conjunction.CalcConjSize: number of fields having at least one include expression *)
Definition calc_size (c : conj) : Z :=
  Z.of_nat (length (filter (fun fe => existsb e_incl (snd fe)) c)).

(* ---------- association lists ---------- *)
Section Assoc.
  Context {K V : Type} (keqb : K -> K -> bool).
  Fixpoint alookup (k : K) (l : list (K * V)) : option V :=
    match l with [] => None | (k', v) :: l' => if keqb k k' then Some v else alookup k l' end.
  Fixpoint aupdate (k : K) (f : option V -> V) (l : list (K * V)) : list (K * V) :=
    match l with
    | [] => [(k, f None)]
    | (k', v) :: l' => if keqb k k' then (k', f (Some v)) :: l' else (k', v) :: aupdate k f l'
    end.
End Assoc.
Definition append_entry (e : N) (o : option (list N)) : list N :=
  match o with Some l => l ++ [e] | None => [e] end.

Fixpoint nodup_by {A} (eqb : A -> A -> bool) (l : list A) : list A :=
  match l with
  | [] => []
  | x :: l' => if existsb (eqb x) l' then nodup_by eqb l' else x :: nodup_by eqb l'
  end.

(* ---------- holders ---------- *)
Definition term_key := (N * pid)%type.                  (* Term{FieldID, IDValue} *)
Definition term_key_eqb (a b : term_key) := N.eqb (fst a) (fst b) && pid_eqb (snd a) (snd b).

Inductive holder :=
| HDefault (pls : list (term_key * list N))
| HAc (vals : list (text * list N))
| HRange (kv : list (Z * list N)) (pieces : list piece).

Definition new_holder (k : cont_kind) : holder :=
  match k with
  | CDefault => HDefault []
  | CAc => HAc []
  | CRange => HRange [] (RangeIdx.init min_i64 max_i64)
  end.

(* transaction data produced by IndexingBETx *)
Inductive txdata :=
| TxIds (ids : list pid)                 (* default holder: parsed ids, duplicates kept *)
| TxKeywords (ks : list text)            (* pattern holder *)
| TxEq (vals : list Z)                   (* range holder: discrete values *)
| TxRange (l r : Z).                     (* range holder: kept interval *)

Record fdesc := { fd_name : fname; fd_cont : cont_kind; fd_parser : parser_kind }.

(* float64(x) for an int64 x, as the integer it denotes: round to nearest, ties to even, 53-bit mantissa *)
Definition f64_of_Z (z : Z) : Z :=
  let a := Z.abs z in
  if a <? 9007199254740992 then z else
  let e := Z.log2 a - 52 in
  let p := 2 ^ e in
  let q := a / p in
  let rem := a mod p in
  let half := 2 ^ (e - 1) in
  let q' := if half <? rem then q + 1 else if rem =? half then (if Z.even q then q else q + 1) else q in
  Z.sgn z * (q' * p).

(* float64(right) - float64(left) < RangeCvtValuesSize, as Range.Size() computes it: near 2^62 the spacing of
   float64 is 512, so a range wider than the threshold can still be expanded (e.g. width 271 measured as 0)
   and a narrower one kept; either way the expression selects the same values (RangeHolderProof.range_tx_exact).
   The float subtraction of the two rounded bounds is exact whenever the result is below 2^53, and rounding is
   monotone, so comparing the exact integer difference with the threshold gives the same verdict. *)
Definition range_size_lt (l r : Z) (thr : Z) : bool := (f64_of_Z r - f64_of_Z l) <? thr.

Fixpoint z_range (fuel : nat) (l : Z) : list Z :=
  match fuel with O => [] | S f => l :: z_range f (l + 1) end.

Definition indexing_tx (thr : Z) (fd : fdesc) (e : expr) : pres txdata :=
  match fd_cont fd with
  | CDefault =>
    match e_op e with
    | OpEQ => pbind (parse_value (fd_parser fd) (e_val e)) (fun ids => POk (TxIds ids))
    | _ => PPanic                        (* util.PanicIf(bv.Operator != ValueOptEQ ...) *)
    end
  | CAc =>
    match e_op e with
    | OpEQ => pbind (ac_parse_dict (e_val e)) (fun ks => POk (TxKeywords ks))
    | _ => PPanic
    end
  | CRange =>
    match e_op e with
    | OpEQ => pbind (parse_integers true (e_val e)) (fun zs => POk (TxEq zs))
    | OpGT | OpLT | OpBetween =>
      pbind (parse_range (e_op e) true (e_val e)) (fun lr =>
        let '(l, r) := lr in
        if range_size_lt l r thr then POk (TxEq (z_range (Z.to_nat (r - l)) l)) else POk (TxRange l r))
    | OpOther => PErr
    end
  end.

Definition commit_tx (fid : N) (eid : N) (tx : txdata) (h : holder) : holder :=
  match h, tx with
  | HDefault pls, TxIds ids =>
    HDefault (fold_left (fun acc id => aupdate term_key_eqb (fid, id) (append_entry eid) acc) (nodup_by pid_eqb ids) pls)
  | HAc vals, TxKeywords ks =>
    HAc (fold_left (fun acc k => aupdate text_eqb k (append_entry eid) acc) ks vals)
  | HRange kv pcs, TxEq zs =>
    HRange (fold_left (fun acc z => aupdate Z.eqb z (append_entry eid) acc) (nodup_by Z.eqb zs) kv) pcs
  | HRange kv pcs, TxRange l r => HRange kv (indexing_range pcs l r eid)
  | _, _ => h
  end.

Fixpoint insN (x : N) (l : list N) : list N :=
  match l with [] => [x] | y :: l' => if (x <=? y)%N then x :: l else y :: insN x l' end.
Definition sort_entries (l : list N) : list N := fold_right insN [] l.

Definition compile_holder (h : holder) : holder :=
  match h with
  | HDefault pls => HDefault (map (fun kv => (fst kv, sort_entries (snd kv))) pls)
  | HAc vals => HAc (map (fun kv => (fst kv, sort_entries (snd kv))) vals)
  | HRange kv pcs => HRange (map (fun kv => (fst kv, sort_entries (snd kv))) kv)
                            (map (fun p => {| pl := pl p; pr := pr p; pe := sort_entries (pe p) |}) pcs)
  end.

(* substring (contiguous, rune level) *)
Fixpoint is_prefix (k t : text) : bool :=
  match k, t with
  | [], _ => true
  | x :: k', y :: t' => N.eqb x y && is_prefix k' t'
  | _, [] => false
  end.
Fixpoint substring (k t : text) : bool :=
  is_prefix k t || match t with [] => false | _ :: t' => substring k t' end.

(* What the automaton plus the keyword table find (ahocorasick_holder.go GetEntries, be_container_ac.go
   Retrieve).  Patterns and content are []rune(...): every byte of a string that is not valid UTF-8 reads as
   U+FFFD.  A matched pattern is looked up in the table under string(term.Word), the UTF-8 spelling of the
   runes -- which is the stored key only if the keyword was valid UTF-8.  So a keyword holding an invalid byte
   is never found, and a valid one is searched in the rune reading of the text. *)
Definition rune_of (c : N) : N := if (c <? 1114112)%N then c else 65533%N.
Definition runes (t : text) : text := map rune_of t.
Definition kw_found (k t : text) : bool := valid_text k && substring k (runes t).

Definition nonempty_lists (ls : list (list N)) : list (list N) :=
  filter (fun l => match l with [] => false | _ => true end) ls.

(* GetEntries: the posting lists selected by the assigned value (one cursor each) *)
Definition get_entries (fd : fdesc) (fid : N) (h : holder) (v : gval) : pres (list (list N)) :=
  match h with
  | HDefault pls =>
    pbind (parse_assign (fd_parser fd) v) (fun ids =>
      POk (nonempty_lists (flat_map (fun id => match alookup term_key_eqb (fid, id) pls with Some l => [l] | None => [] end) ids)))
  | HAc vals =>
    match vals with
    | [] => POk []
    | _ => pbind (ac_query_text [32%N] v) (fun t =>
             match t with
             | [] => POk []
             | _ => POk (nonempty_lists (flat_map (fun kv => if kw_found (fst kv) t then [snd kv] else []) vals))
             end)
    end
  | HRange kv pcs =>
    pbind (parse_integers true v) (fun zs =>
      let kvs := flat_map (fun z => match alookup Z.eqb z kv with Some l => [l] | None => [] end) zs in
      let hit := filter (fun p => existsb (fun z => contains p z && (min_i64 <=? z) && (z <? max_i64)) zs) pcs in
      POk (nonempty_lists (kvs ++ map pe hit)))
  end.

(* ---------- builder ---------- *)
Record econtainer := { ec_default : holder; ec_fields : list (fname * holder) }.
Definition new_econtainer : econtainer := {| ec_default := HDefault []; ec_fields := [] |}.

Record bstate := {
  b_kind : index_kind;
  b_policy : policy;
  b_thr : Z;                                   (* RangeCvtValuesSize *)
  b_fields : list fdesc;                       (* fieldsData; the field id is the field's name *)
  b_conts : list econtainer;                   (* kSizeContainers / the single compact container *)
  b_z : list N;                                (* wildcardEntries *)
  b_parsers : fname -> parser_kind             (* DefaultEntriesHolder.FieldParser configuration *)
}.

Definition new_builder (k : index_kind) (pol : policy) (thr : Z) (parsers : fname -> parser_kind) : bstate :=
  {| b_kind := k; b_policy := pol; b_thr := thr; b_fields := [];
     b_conts := match k with IKGroups => [] | ICompact => [new_econtainer] end;
     b_z := []; b_parsers := parsers |}.

Definition find_field (f : fname) (fs : list fdesc) : option fdesc :=
  find (fun d => N.eqb (fd_name d) f) fs.

(* ConfigField: error (panic in ConfigField) when configured twice *)
Definition config_field (st : bstate) (f : fname) (c : cont_kind) : option bstate :=
  match find_field f (b_fields st) with
  | Some _ => None
  | None => Some {| b_kind := b_kind st; b_policy := b_policy st; b_thr := b_thr st;
                    b_fields := b_fields st ++ [{| fd_name := f; fd_cont := c; fd_parser := b_parsers st f |}];
                    b_conts := b_conts st; b_z := b_z st; b_parsers := b_parsers st |}
  end.

Definition with_fields (st : bstate) (fs : list fdesc) : bstate :=
  {| b_kind := b_kind st; b_policy := b_policy st; b_thr := b_thr st; b_fields := fs;
     b_conts := b_conts st; b_z := b_z st; b_parsers := b_parsers st |}.
Definition with_conts (st : bstate) (cs : list econtainer) : bstate :=
  {| b_kind := b_kind st; b_policy := b_policy st; b_thr := b_thr st; b_fields := b_fields st;
     b_conts := cs; b_z := b_z st; b_parsers := b_parsers st |}.
Definition with_z (st : bstate) (z : list N) : bstate :=
  {| b_kind := b_kind st; b_policy := b_policy st; b_thr := b_thr st; b_fields := b_fields st;
     b_conts := b_conts st; b_z := z; b_parsers := b_parsers st |}.

(* createFieldData *)
Definition ensure_field (st : bstate) (f : fname) : bstate * fdesc :=
  match find_field f (b_fields st) with
  | Some d => (st, d)
  | None => let d := {| fd_name := f; fd_cont := CDefault; fd_parser := b_parsers st f |} in
            (with_fields st (b_fields st ++ [d]), d)
  end.

(* newContainer(k): k-groups grows the container list up to k; compact has one container *)
Definition cont_index (st : bstate) (k : Z) : nat :=
  match b_kind st with IKGroups => Z.to_nat k | ICompact => O end.
Fixpoint grow {A} (n : nat) (d : A) (l : list A) : list A :=   (* make nth n defined *)
  match n, l with
  | O, [] => [d]
  | O, _ => l
  | S n', [] => d :: grow n' d []
  | S n', x :: l' => x :: grow n' d l'
  end.
Definition ensure_cont (st : bstate) (k : Z) : bstate :=
  with_conts st (grow (cont_index st k) new_econtainer (b_conts st)).

Fixpoint update_nth {A} (n : nat) (f : A -> A) (l : list A) : list A :=
  match n, l with
  | _, [] => []
  | O, x :: l' => f x :: l'
  | S n', x :: l' => x :: update_nth n' f l'
  end.

(* CreateHolder / getFieldHolder *)
Definition get_holder (ec : econtainer) (fd : fdesc) : option holder :=
  match fd_cont fd with
  | CDefault => Some (ec_default ec)
  | _ => alookup N.eqb (fd_name fd) (ec_fields ec)
  end.
Definition create_holder (ec : econtainer) (fd : fdesc) : econtainer :=
  match get_holder ec fd with
  | Some _ => ec
  | None => {| ec_default := ec_default ec; ec_fields := ec_fields ec ++ [(fd_name fd, new_holder (fd_cont fd))] |}
  end.
Definition set_holder (ec : econtainer) (fd : fdesc) (h : holder) : econtainer :=
  match fd_cont fd with
  | CDefault => {| ec_default := h; ec_fields := ec_fields ec |}
  | _ => {| ec_default := ec_default ec; ec_fields := aupdate N.eqb (fd_name fd) (fun _ => h) (ec_fields ec) |}
  end.

(* one prepared transaction *)
Record tx := { tx_field : fdesc; tx_eid : N; tx_data : txdata }.

(* indexingConjunction: parse every expression (fields and holders are created on the way);
   the first failure aborts.  Returns the state (field table/holders may have grown) and the outcome. *)
Fixpoint index_exprs (st : bstate) (k : Z) (cid : N) (f : fname) (es : list expr) (acc : list tx)
  : bstate * pres (list tx) :=
  match es with
  | [] => (st, POk acc)
  | e :: es' =>
    let '(st1, fd) := ensure_field st f in
    let st2 := with_conts st1 (update_nth (cont_index st1 k) (fun ec => create_holder ec fd) (b_conts st1)) in
    match indexing_tx (b_thr st2) fd e with
    | POk d => index_exprs st2 k cid f es' (acc ++ [{| tx_field := fd; tx_eid := IdsGen.NewEntryID cid (e_incl e); tx_data := d |}])
    | PErr => (st2, PErr) | PPanic => (st2, PPanic) | PDiverge => (st2, PDiverge) | PUnmodelled => (st2, PUnmodelled)
    end
  end.
Fixpoint index_conj (st : bstate) (k : Z) (cid : N) (c : conj) (acc : list tx) : bstate * pres (list tx) :=
  match c with
  | [] => (st, POk acc)
  | (f, es) :: c' =>
    match index_exprs st k cid f es acc with
    | (st', POk acc') => index_conj st' k cid c' acc'
    | (st', r) => (st', r)
    end
  end.

Definition commit_one (k : Z) (st : bstate) (t : tx) : bstate :=
  with_conts st (update_nth (cont_index st k)
    (fun ec => match get_holder ec (tx_field t) with
               | Some h => set_holder ec (tx_field t) (commit_tx (fd_name (tx_field t)) (tx_eid t) (tx_data t) h)
               | None => ec end) (b_conts st)).

(* outcome of AddDocument *)
Inductive add_out := AddOk | AddErr | AddPanic | AddDiverge | AddUnmodelled.

(* buildDocEntries, one conjunction.  wildcard_first = the pinned tree registered the match-everything
   entry of a size-0 conjunction before parsing; the repaired tree registers it after a successful parse. *)
Definition add_conj (wildcard_first : bool) (d : Z) (st : bstate) (ic : Z * conj) : bstate * add_out :=
  let '(i, c) := ic in
  let k := calc_size c in
  match IdsGen.NewConjID d i k with
  | None => (st, AddPanic)
  | Some cid =>
    let zentry := IdsGen.NewEntryID cid true in
    let st0 := if wildcard_first && (k =? 0) then with_z st (b_z st ++ [zentry]) else st in
    let st1 := ensure_cont st0 k in
    match index_conj st1 k cid c [] with
    | (st2, POk txs) =>
      let st3 := if negb wildcard_first && (k =? 0) then with_z st2 (b_z st2 ++ [zentry]) else st2 in
      (fold_left (commit_one k) txs st3, AddOk)
    | (st2, PErr) => (st2, match b_policy st with PolSkip => AddOk | PolError => AddErr | PolPanic => AddPanic end)
    | (st2, PPanic) => (st2, AddPanic)
    | (st2, PDiverge) => (st2, AddDiverge)
    | (st2, PUnmodelled) => (st2, AddUnmodelled)
    end
  end.

Fixpoint indexed_from {A} (n : Z) (l : list A) : list (Z * A) :=
  match l with [] => [] | x :: l' => (n, x) :: indexed_from (n + 1) l' end.

Fixpoint add_conjs (wf : bool) (d : Z) (st : bstate) (ics : list (Z * conj)) : bstate * add_out :=
  match ics with
  | [] => (st, AddOk)
  | ic :: rest =>
    match add_conj wf d st ic with
    | (st', AddOk) => add_conjs wf d st' rest
    | r => r
    end
  end.

Definition add_document (wf : bool) (st : bstate) (d : doc) : bstate * add_out :=
  match d_conjs d with
  | [] => (st, AddErr)                                        (* no conjunctions *)
  | _ => if (255 <? Z.of_nat (length (d_conjs d))) then (st, AddErr)
         else add_conjs wf (d_id d) st (indexed_from 0 (d_conjs d))
  end.

(* a built index *)
Record index := {
  ix_kind : index_kind;
  ix_fields : list fdesc;
  ix_conts : list econtainer;
  ix_z : list N
}.
Definition compile_cont (ec : econtainer) : econtainer :=
  {| ec_default := compile_holder (ec_default ec);
     ec_fields := map (fun fh => (fst fh, compile_holder (snd fh))) (ec_fields ec) |}.
Definition build_index (st : bstate) : index :=
  {| ix_kind := b_kind st; ix_fields := b_fields st; ix_conts := map compile_cont (b_conts st);
     ix_z := sort_entries (b_z st) |}.

(* ---------- retrieval ---------- *)
Definition assignment := list (fname * gval).          (* Go map: fields distinct *)

(* Assignments.Size(): non-nil values; NilInterface may panic *)
Fixpoint assign_size (q : assignment) : pres Z :=
  match q with
  | [] => POk 0
  | (_, v) :: q' => pbind (nil_interface v) (fun b => pbind (assign_size q') (fun n => POk (if b then n else n + 1)))
  end.

(* initCursors for one container: a field cursor per assigned, known field with a holder that selects something *)
Fixpoint init_field_cursors (fields : list fdesc) (ec : econtainer) (q : assignment) : pres (list fcursor) :=
  match q with
  | [] => POk []
  | (f, v) :: q' =>
    match find_field f fields with
    | None => init_field_cursors fields ec q'
    | Some fd =>
      match get_holder ec fd with
      | None => init_field_cursors fields ec q'
      | Some h =>
        pbind (get_entries fd (fd_name fd) h v) (fun ls =>
        pbind (init_field_cursors fields ec q') (fun rest =>
          POk (match ls with [] => rest | _ => new_fcursor ls :: rest end)))
      end
    end
  end.

Definition z_cursor (z : list N) : list fcursor :=
  match z with [] => [] | _ => [new_fcursor [z]] end.

(* one call of collector.Add *)
Definition hitrec := (Z * N)%type.    (* (conjID.DocID(), conjID) *)

Fixpoint skip_all (cs : list fcursor) (next : N) : option (list fcursor) :=
  match cs with
  | [] => Some []
  | c :: cs' =>
    match (if (fc_current c <? next)%N then option_map fst (fcursor_skip_to c next) else Some c), skip_all cs' next with
    | Some c', Some r => Some (c' :: r)
    | _, _ => None
    end
  end.
Fixpoint skip_first (n : nat) (cs : list fcursor) (next : N) : option (list fcursor) :=
  match n, cs with
  | O, _ => Some cs
  | S n', c :: cs' =>
    match fcursor_skip_to c next, skip_first n' cs' next with
    | Some (c', _), Some r => Some (c' :: r)
    | _, _ => None
    end
  | S _, [] => Some []
  end.

(* the body of the k-groups loop: None = loop ends *)
Definition kg_round (need : nat) (cs : list fcursor) (res : list hitrec) : option (option (list fcursor * list hitrec)) :=
  match nth_error cs (need - 1) with
  | None => Some None
  | Some cend =>
    if (fc_current cend =? NULLENTRY)%N then Some None else
    match cs with
    | [] => Some None
    | c0 :: _ =>
      let eid := fc_current c0 in
      let endeid := fc_current cend in
      let cid := IdsGen.EntryID_GetConjID eid in
      let endcid := IdsGen.EntryID_GetConjID endeid in
      let same := (cid =? endcid)%N in
      let next := if same then ((IdsGen.NewEntryID endcid true) + 1)%N else IdsGen.NewEntryID endcid false in
      let res' := if same && IdsGen.EntryID_IsInclude eid then res ++ [(IdsGen.ConjID_DocID cid, cid)] else res in
      let tail := skipn need cs in
      match (if same && negb (IdsGen.EntryID_IsInclude eid) then skip_all tail next else Some tail),
            skip_first need (firstn need cs) next with
      | Some tail', Some head' => Some (Some (sort_fcursors (head' ++ tail'), res'))
      | _, _ => None
      end
    end
  end.

Fixpoint kg_loop (fuel : nat) (need : nat) (cs : list fcursor) (res : list hitrec) : option (list hitrec) :=
  match fuel with
  | O => None
  | S f => match kg_round need cs res with
           | None => None
           | Some None => Some res
           | Some (Some (cs', res')) => kg_loop f need cs' res'
           end
  end.

Definition fc_total (cs : list fcursor) : nat :=
  fold_right (fun c acc => (fold_right (fun m a => (length (fst m) + a)%nat) O (fc_group c) + acc)%nat) O cs.

(* retrieveK *)
Definition retrieve_k (need : nat) (cs : list fcursor) (res : list hitrec) : option (list hitrec) :=
  if (length cs <? need)%nat then Some res
  else kg_loop (S (fc_total cs)) need (sort_fcursors cs) res.

Inductive rres (A : Type) := ROk (a : A) | RErr | RPanic | ROutOfFuel | RUnmodelled.
Arguments ROk {A} a. Arguments RErr {A}. Arguments RPanic {A}. Arguments ROutOfFuel {A}. Arguments RUnmodelled {A}.

Definition pres_to_rres {A B} (r : pres A) (f : A -> rres B) : rres B :=
  match r with POk a => f a | PErr => RErr | PPanic => RPanic | PDiverge => ROutOfFuel | PUnmodelled => RUnmodelled end.

Fixpoint kgroups_from (ix : index) (q : assignment) (k : nat) (res : list hitrec) : rres (list hitrec) :=
  let ec := nth k (ix_conts ix) new_econtainer in
  pres_to_rres (init_field_cursors (ix_fields ix) ec q) (fun fcs =>
    let cs := (match k with O => z_cursor (ix_z ix) | _ => [] end) ++ fcs in
    match retrieve_k (Nat.max k 1) cs res with
    | None => ROutOfFuel
    | Some res' => match k with O => ROk res' | S k' => kgroups_from ix q k' res' end
    end).

Definition retrieve_kgroups_hits (ix : index) (q : assignment) : rres (list hitrec) :=
  pres_to_rres (assign_size q) (fun sz =>
    let maxk := Z.of_nat (length (ix_conts ix)) - 1 in
    let k0 := Z.min sz maxk in
    if k0 <? 0 then ROk [] else kgroups_from ix q (Z.to_nat k0) []).

(* compact: one cursor set, need = max 1 (size of the smallest conjunction); exhausted cursors dropped *)
Fixpoint drop_ended (rev_cs : list fcursor) : list fcursor :=
  match rev_cs with
  | c :: r => if fcursor_reach_end c then drop_ended r else rev_cs
  | [] => []
  end.
Definition trim_ended (cs : list fcursor) : list fcursor := rev (drop_ended (rev cs)).

Definition cp_round (cs : list fcursor) (res : list hitrec) : option (option (list fcursor * list hitrec)) :=
  match cs with
  | [] => Some None
  | c0 :: _ =>
    let eid := fc_current c0 in
    let cid := IdsGen.EntryID_GetConjID eid in
    let need := Z.to_nat (Z.max 1 (IdsGen.ConjID_Size cid)) in
    if (length cs <? need)%nat then Some None else
    match nth_error cs (need - 1) with
    | None => Some None
    | Some cend =>
      let endeid := fc_current cend in
      let endcid := IdsGen.EntryID_GetConjID endeid in
      let same := (cid =? endcid)%N in
      let next := if same then ((IdsGen.NewEntryID endcid true) + 1)%N else IdsGen.NewEntryID endcid false in
      let res' := if same && IdsGen.EntryID_IsInclude eid then res ++ [(IdsGen.ConjID_DocID cid, cid)] else res in
      let tail := skipn need cs in
      match (if same && negb (IdsGen.EntryID_IsInclude eid) then skip_all tail next else Some tail),
            skip_first need (firstn need cs) next with
      | Some tail', Some head' => Some (Some (trim_ended (sort_fcursors (head' ++ tail')), res'))
      | _, _ => None
      end
    end
  end.
Fixpoint cp_loop (fuel : nat) (cs : list fcursor) (res : list hitrec) : option (list hitrec) :=
  match fuel with
  | O => None
  | S f => match cp_round cs res with
           | None => None
           | Some None => Some res
           | Some (Some (cs', res')) => cp_loop f cs' res'
           end
  end.

Definition retrieve_compact_hits (ix : index) (q : assignment) : rres (list hitrec) :=
  let ec := nth O (ix_conts ix) new_econtainer in
  pres_to_rres (init_field_cursors (ix_fields ix) ec q) (fun fcs =>
    let cs := z_cursor (ix_z ix) ++ fcs in
    match cp_loop (S (fc_total cs)) (sort_fcursors cs) [] with
    | None => ROutOfFuel
    | Some res => ROk res
    end).

Definition retrieve_hits (ix : index) (q : assignment) : rres (list hitrec) :=
  match ix_kind ix with IKGroups => retrieve_kgroups_hits ix q | ICompact => retrieve_compact_hits ix q end.

(* DocIDCollector: a bitmap of uint64(docID); GetDocIDs iterates ascending and casts back *)
Fixpoint dedup_sorted (l : list N) : list N :=
  match l with
  | x :: ((y :: _) as l') => if (x =? y)%N then dedup_sorted l' else x :: dedup_sorted l'
  | _ => l
  end.
Definition collect_docs (hits : list hitrec) : list Z :=
  map (fun u => wrap_i64 (Z.of_N u))
      (dedup_sorted (sort_entries (map (fun h => Z.to_N (wrap_u64 (fst h))) hits))).

Definition retrieve (ix : index) (q : assignment) : rres (list Z) :=
  match retrieve_hits ix q with
  | ROk hits => ROk (collect_docs hits)
  | RErr => RErr | RPanic => RPanic | ROutOfFuel => ROutOfFuel | RUnmodelled => RUnmodelled
  end.

(* build from scratch *)
Fixpoint add_documents (wf : bool) (st : bstate) (ds : list doc) : bstate * list add_out :=
  match ds with
  | [] => (st, [])
  | d :: ds' => let '(st1, o) := add_document wf st d in
                let '(st2, os) := add_documents wf st1 ds' in (st2, o :: os)
  end.
