package main

import (
	"encoding/json"
	"fmt"
)

const c18Rule = "(a fifth more cases with a PATTERN field in all three indexes: list assignments, keywords spanning the join) the same documents and assignments given to the k-groups, compact and roaring index (all fields configured with the same parser: common, number or string-hash), values drawn from the C09 representation zoo (all integer widths, numeric strings, json.Number, floats incl. fractional and negative, unicode strings, typed slices, heterogeneous lists, also shapes with no written specification such as lists mixing numbers and words), include/exclude, repeated fields, empty conjunctions; the three answers are compared pairwise and each index with its model. Non-trivial = all three accept and some query returns a non-empty proper subset; distinct = distinct input"

type triIn struct {
	Tri       bool     `json:"tri"`
	Parser    string   `json:"parser"`
	NF        int      `json:"nf"`
	Docs      []eDoc   `json:"docs"`
	Qs        []eQuery `json:"qs"`
	Batch     int      `json:"batch,omitempty"`
	Rebuild   int      `json:"rebuild,omitempty"`
	RrRebuild int      `json:"rr_rebuild,omitempty"` // the roaring builder only: BuildIndexer() also after that many documents
	Pre       bool     `json:"pre,omitempty"`        // the posting-list builders have produced an earlier generation (the same documents under other ids) and were Reset
	Dump      bool     `json:"dump,omitempty"`       // the posting-list indexes are dumped (debug helpers) before they are queried
	Warm      int      `json:"warm,omitempty"`       // the posting-list indexes are built from a cache provider an earlier builder filled (eCase.Warm); roaring has no cache
	Ac        bool     `json:"ac,omitempty"`         // field 1 is a pattern field in all three indexes (documents from acDocsQueries)
}

func zooValue(r *Rand, parser string) TV {
	ints := []int64{0, 1, -1, 3, -3, 7, 127, 255, 1 << 31, -(1 << 31), 1<<53 - 1, 7 + 1<<32, 3 + 1<<32, 4294967295, 1 << 32}
	words := []string{"abc", "7", "-3", "3.7", "日本", "", "a b", "007"}
	z := pick(r, ints)
	switch parser {
	case "strhash":
		switch r.Intn(3) {
		case 0:
			return tvStr(pick(r, words))
		case 1:
			return tvSlice("[]string", tvStr(pick(r, words)), tvStr(pick(r, words)))
		}
		return tvList(tvStr(pick(r, words)))
	case "number":
		switch r.Intn(5) {
		case 0:
			return pick(r, reprsOf(z))
		case 1:
			return tvStr(fmt.Sprint(z))
		case 2:
			return tvList(tvInt("int", z), tvStr(fmt.Sprint(pick(r, ints))), tvFloat("float64", float64(pick(r, ints))+0.5))
		case 3:
			return tvSlice("[]float64", tvFloat("float64", float64(z)-0.25))
		}
		return tvSlice("[]int64", tvInt("int64", z), tvInt("int64", pick(r, ints)))
	}
	switch r.Intn(6) {
	case 0:
		return pick(r, reprsOf(z))
	case 1:
		return tvStr(pick(r, words))
	case 2:
		return tvList(tvInt("int8", int64(int8(z))), tvStr(pick(r, words)), tvFloat("float32", float64(int16(z))), tvJSON(fmt.Sprint(z)))
	case 3:
		return tvSlice("[]string", tvStr(pick(r, words)), tvStr(fmt.Sprint(z)))
	case 4:
		return tvSlice("[]float64", tvFloat("float64", float64(z)+0.5), tvFloat("float64", -2.5))
	}
	return tvSlice("[]uint16", fitInt("uint16", z), fitInt("uint16", 7))
}

func init() {
	props["C18"] = &propDef{
		header:    "From BE Require Import Corr.CheckC18.",
		headers:   map[string]string{"T": "From BE Require Import Corr.CheckTri."},
		rule:      c18Rule,
		shardSize: 25,
		gen: func(tier string, r *Rand, add func(in interface{})) {
			n := 60
			if tier == "thorough" {
				n = 4000
			}
			// a query one field rejects (a number on the pattern field) whose other fields satisfy a LARGER conjunction, straight
			// before ordinary queries: what the rejected one had collected must not show in the next answers of any index
			{
				one := func(f int, v int64) eExpr { return eExpr{F: f, Inc: true, V: tvSlice("[]int", tvInt("int", v))} }
				docs := []eDoc{
					{ID: 1, Cons: []eConj{{one(0, 7), one(2, 1)}}},
					{ID: 2, Cons: []eConj{{{F: 1, Inc: true, V: tvStr("abc")}}}},
					{ID: 3, Cons: []eConj{{one(0, 7)}}},
					{ID: 4, Cons: []eConj{{one(0, 8), one(2, 1)}}}, // (the pattern field must not occur at this size: its holder would reject first)
				}
				bad := eQuery{A: []eAssign{{F: 0, V: tvInt("int", 7)}, {F: 2, V: tvInt("int", 1)}, {F: 1, V: tvInt("int", 42)}}}
				var qs []eQuery
				for _, q := range []eQuery{{A: []eAssign{{F: 0, V: tvInt("int", 8)}}}, {A: []eAssign{{F: 1, V: tvStr("xabcx")}}}, {A: []eAssign{{F: 0, V: tvInt("int", 9)}, {F: 2, V: tvInt("int", 1)}}}, {}} {
					qs = append(qs, bad, q)
				}
				add(triIn{Tri: true, NF: 3, Ac: true, Docs: docs, Qs: qs})
			}
			// one conjunction with an include and an exclude on the SAME field (different values); assignments that list the
			// excluded value before the included one, after it, alone (first-round seed C18, which the random documents stopped
			// producing): exclusion dominates in all three implementations
			for _, ps := range []string{"", "number"} {
				iv := func(ns ...int64) TV {
					l := make([]TV, len(ns))
					for i, n := range ns {
						l[i] = tvInt("int", n)
					}
					return tvSlice("[]int", l...)
				}
				docs := []eDoc{
					{ID: 1, Cons: []eConj{{{F: 0, Inc: true, V: iv(1, 2)}, {F: 0, Inc: false, V: iv(3)}}}},
					{ID: 2, Cons: []eConj{{{F: 0, Inc: false, V: iv(1)}, {F: 0, Inc: true, V: iv(3, 4)}, {F: 1, Inc: true, V: iv(9)}}}},
					{ID: 3, Cons: []eConj{{{F: 0, Inc: true, V: iv(3)}}}},
				}
				var qs []eQuery
				for _, v := range []TV{iv(3, 1), iv(1, 3), iv(1), iv(3), iv(2, 3), iv(3, 2), iv(4, 1), iv(1, 4), iv(4)} {
					qs = append(qs, eQuery{A: []eAssign{{F: 0, V: v}}}, eQuery{A: []eAssign{{F: 0, V: v}, {F: 1, V: tvInt("int", 9)}}})
				}
				add(triIn{Tri: true, Parser: ps, NF: 2, Docs: docs, Qs: qs})
			}
			// pattern fields: the three implementations must join lists, match keywords and combine with ordinary fields alike
			for i := 0; i < n/5; i++ {
				docs, qs := acDocsQueries(r, i%3 == 0)
				tAc := triIn{Tri: true, NF: 2, Ac: true, Docs: docs, Qs: qs, Pre: r.Bool()}
				if len(docs) > 1 && r.Bool() && !tAc.Pre { // add, build, add, build on the roaring builder (the posting-list builders: default fields only)
					tAc.RrRebuild = 1 + r.Intn(len(docs)-1)
				}
				add(tAc)
			}
			{ // keywords that span, contain or border the join of a list assignment
				kw := func(inc bool, ss ...string) eExpr {
					l := make([]TV, len(ss))
					for i, s := range ss {
						l[i] = tvStr(s)
					}
					return eExpr{F: 1, Inc: inc, V: tvSlice("[]string", l...)}
				}
				docs := []eDoc{{ID: 1, Cons: []eConj{{kw(true, "abc")}}}, {ID: 2, Cons: []eConj{{kw(true, "b c")}}}, {ID: 3, Cons: []eConj{{kw(false, "ab")}}},
					{ID: 4, Cons: []eConj{{kw(true, "c"), kw(false, "a b")}}}, {ID: 5, Cons: []eConj{{kw(true, " ")}}}, {ID: 6, Cons: []eConj{{kw(true, "日本")}}}}
				var qs []eQuery
				for _, parts := range [][]string{{"ab", "c"}, {"a", "b"}, {"a", "b", "c"}, {"abc"}, {"ab c"}, {"xa", "bcy"}, {"日", "本"}, {"日本", "c"}, {"c"}, {"", "c"}} {
					l := make([]TV, len(parts))
					for i, s := range parts {
						l[i] = tvStr(s)
					}
					qs = append(qs, eQuery{A: []eAssign{{F: 1, V: tvSlice("[]string", l...)}}}, eQuery{A: []eAssign{{F: 1, V: tvList(l...)}, {F: 0, V: tvInt("int", 1)}}})
				}
				tAc := triIn{Tri: true, NF: 2, Ac: true, Docs: docs, Qs: qs, Pre: r.Bool()}
				if len(docs) > 1 && r.Bool() && !tAc.Pre { // add, build, add, build on the roaring builder (the posting-list builders: default fields only)
					tAc.RrRebuild = 1 + r.Intn(len(docs)-1)
				}
				add(tAc)
			}
			// the posting-list indexes built from a cache provider that an earlier builder filled (the roaring index has no
			// cache): conjunctions mixing an expression long enough to be cached with short ones, include and exclude
			{
				ints := func(k, off int) TV {
					l := make([]TV, k)
					for i := range l {
						l[i] = tvInt("int", int64(off+i))
					}
					return tvSlice("[]int", l...)
				}
				docs := []eDoc{
					{ID: 1, Cons: []eConj{{{F: 0, Inc: true, V: ints(6, 0)}, {F: 1, Inc: true, V: tvStr("sh")}}}},
					{ID: 2, Cons: []eConj{{{F: 0, Inc: true, V: ints(6, 3)}, {F: 1, Inc: false, V: tvStr("bj")}}}},
					{ID: 3, Cons: []eConj{{{F: 0, Inc: true, V: ints(2, 7)}}, {{F: 2, Inc: true, V: ints(5, 0)}, {F: 0, Inc: true, V: ints(1, 7)}, {F: 1, Inc: true, V: tvSlice("[]string", tvStr("sh"), tvStr("gz"))}}}},
					{ID: -4, Cons: []eConj{{{F: 0, Inc: false, V: ints(5, 0)}, {F: 1, Inc: false, V: tvStr("sh")}}}},
				}
				var qs []eQuery
				for _, a := range []int64{0, 4, 5, 7, 8, 9} {
					for _, city := range []string{"sh", "bj", "gz"} {
						qs = append(qs, eQuery{A: []eAssign{{F: 0, V: tvInt("int", a)}, {F: 1, V: tvStr(city)}}}, eQuery{A: []eAssign{{F: 0, V: tvInt("int", a)}, {F: 1, V: tvStr(city)}, {F: 2, V: tvInt("int", 2)}}})
					}
				}
				add(triIn{Tri: true, NF: 3, Docs: docs, Qs: qs, Warm: 2})
				add(triIn{Tri: true, NF: 3, Docs: docs, Qs: qs, Warm: 5})
			}
			// indexes dumped through the debug helpers before they are queried: posting lists on which ids of both signs,
			// later conjunctions of smaller ids and conjunctions of several sizes meet
			{
				one := func(v int64) TV { return tvSlice("[]int", tvInt("int", v)) }
				docs := []eDoc{
					{ID: 1, Cons: []eConj{{{F: 0, Inc: true, V: one(9)}}, {{F: 0, Inc: true, V: one(1)}}}},
					{ID: 2, Cons: []eConj{{{F: 0, Inc: true, V: one(1)}}}},
					{ID: -4, Cons: []eConj{{{F: 1, Inc: true, V: one(5)}}}},
					{ID: 9, Cons: []eConj{{{F: 1, Inc: true, V: one(5)}}}},
					{ID: 3, Cons: []eConj{{{F: 0, Inc: true, V: one(1)}, {F: 1, Inc: true, V: one(5)}}}},
					{ID: 12, Cons: []eConj{{{F: 0, Inc: false, V: one(1)}}, {{F: 1, Inc: false, V: one(5)}}}},
				}
				var qs []eQuery
				for _, a := range [][2]int64{{1, 0}, {0, 5}, {1, 5}, {9, 5}, {2, 2}} {
					qs = append(qs, eQuery{A: []eAssign{{F: 0, V: tvInt("int", a[0])}, {F: 1, V: tvInt("int", a[1])}}}, eQuery{A: []eAssign{{F: 0, V: tvInt("int", a[0])}}}, eQuery{A: []eAssign{{F: 1, V: tvInt("int", a[1])}}})
				}
				add(triIn{Tri: true, NF: 2, Docs: docs, Qs: qs, Dump: true})
			}
			for i := 0; i < n; i++ {
				p := []string{"", "number", "strhash"}[i%3]
				nf := 1 + r.Intn(4)
				if r.Chance(2) {
					nf = 0
				}
				t := triIn{Tri: true, Parser: p, NF: nf}
				for d := 1 + r.Intn(6); d > 0; d-- {
					doc := eDoc{ID: int64(len(t.Docs)+1) * int64(1-2*r.Intn(2))}
					for c := 1 + r.Intn(3); c > 0; c-- {
						var cj eConj
						if nf > 0 {
							for e := r.Intn(4); e > 0; e-- {
								f := r.Intn(nf)
								if len(cj) > 0 && r.Chance(25) {
									f = cj[0].F
								}
								cj = append(cj, eExpr{F: f, Inc: r.Chance(65), V: zooValue(r, p)})
							}
						}
						doc.Cons = append(doc.Cons, cj)
					}
					t.Docs = append(t.Docs, doc)
				}
				for q := 8 + r.Intn(8); q > 0; q-- {
					var a []eAssign
					for f := 0; f < nf+1; f++ {
						if r.Chance(60) {
							a = append(a, eAssign{F: f, V: zooValue(r, p)})
						}
					}
					t.Qs = append(t.Qs, eQuery{A: a})
				}
				t.Qs = append(t.Qs, eQuery{})
				switch { // the posting-list builders also get the documents in groups / with an intermediate BuildIndex
				case r.Chance(25):
					t.Batch = 2 + r.Intn(3)
				case r.Chance(30) && len(t.Docs) > 1:
					t.Rebuild = 1 + r.Intn(len(t.Docs)-1)
				case i%7 == 5: // dumped through the debug helpers before being queried
					t.Dump = true
				case i%7 == 3: // served from a cache an earlier builder filled (every expression of two and more values makes its conjunction cacheable)
					t.Warm = 1
				}
				add(t)
			}
		},
		exec: func(raw json.RawMessage) (res execResult, err error) {
			var t triIn
			if err = json.Unmarshal(raw, &t); err != nil {
				return
			}
			parsers := map[int]string{}
			var fields []rField
			for f := 0; f < t.NF; f++ {
				if t.Parser != "" {
					parsers[f] = t.Parser
				}
				fields = append(fields, rField{F: f, Cont: "default", Parser: t.Parser})
			}
			var configs map[int]string
			if t.Ac {
				configs = map[int]string{1: "ac_matcher"}
				fields[1] = rField{F: 1, Cont: "ac_matcher"}
			}
			// the unknown query field must use the same parser on the posting-list side when it happens
			// to be created by a document: it never is (documents use fields < NF)
			mk := func(kind string) (execResult, error) {
				c := eCase{Kind: kind, Policy: "error", Parsers: parsers, Configs: configs, Docs: t.Docs, Queries: t.Qs, Batch: t.Batch, Rebuild: t.Rebuild, Warm: t.Warm, Dump: t.Dump}
				if t.Pre { // a reused builder: BuildIndex, Reset, AddDocument, BuildIndex (field configuration must survive Reset)
					for _, d := range t.Docs {
						c.Pre = append(c.Pre, eDoc{ID: d.ID + 100000, Cons: d.Cons})
					}
				}
				b, _ := json.Marshal(c)
				return execE2E(b)
			}
			k, e1 := mk("kgroups")
			c, e2 := mk("compact")
			rc := rCase{Fields: fields, Docs: t.Docs, Rebuild: t.Rebuild}
			if t.RrRebuild > 0 {
				rc.Rebuild = t.RrRebuild
			}
			for _, q := range t.Qs {
				rc.Ops = append(rc.Ops, rOp{S: 0, Op: "reset"}, rOp{S: 0, Op: "retrieve", A: q.A})
			}
			rb, _ := json.Marshal(rc)
			rr, e3 := execRr(rb)
			if e1 != nil || e2 != nil || e3 != nil {
				return res, fmt.Errorf("tri: %v %v %v", e1, e2, e3)
			}
			res.Coq = fmt.Sprintf("(%s,\n   %s,\n   %s)", k.Coq, c.Coq, rr.Coq)
			res.Family = "T"
			res.Dist = "parser=" + t.Parser
			res.NonTrivial = k.NonTrivial && rr.NonTrivial
			res.Summary = map[string]interface{}{"kgroups": k.Summary, "compact": c.Summary, "roaring": rr.Summary}
			return
		},
	}
}
