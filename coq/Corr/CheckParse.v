(* Parser-level cases: model leg (Model/Parsers.v against the real parsers; ids compared exactly via FNV). *)
From Coq Require Import List NArith ZArith Bool.
From BE Require Import Model.Spec Corr.Common Corr.Fnv.
From BE Require Export Corr.SpecParse.
Import ListNotations.
Local Open Scope Z_scope.

Definition cmp {A B} (eqb : A -> B -> bool) (m : pres A) (i : pimpl B) : option bool :=
  match m, i with
  | POk a, PIOk b => Some (eqb a b)
  | PErr, PIErr | PPanic, PIPanic | PDiverge, PIDiverge => Some true
  | PUnmodelled, _ => None
  | _, _ => Some false
  end.
Definition ids_eqb (ps : list pid) (ns : list N) : bool := eqb_list N.eqb (map id_of_pid ps) ns.

Definition model_cmp (c : pcase) : option bool :=
  match c with
  | PCParse p assign v r => cmp ids_eqb (if assign then parse_assign p v else parse_value p v) r
  | PCInts v r => cmp (eqb_list Z.eqb) (parse_integers true v) r
  | PCNumber v r => cmp Z.eqb (parse_integer_number true v) r
  | PCRange op v r => cmp (fun a b : Z * Z => (fst a =? fst b) && (snd a =? snd b)) (parse_range op true v) r
  | PCIntsNF v r => cmp (eqb_list Z.eqb) (parse_integers false v) r
  | PCRangeNF op v r => cmp (fun a b : Z * Z => (fst a =? fst b) && (snd a =? snd b)) (parse_range op false v) r
  | PCNil v r => cmp Bool.eqb (nil_interface v) r
  | PCAcDict v r => cmp (eqb_list text_eqb) (ac_parse_dict v) r
  | PCAcText v r => cmp text_eqb (ac_query_text [32%N] v) r
  | PCMatch v1 v2 r1 r2 =>
    match cmp ids_eqb (common_parse_value v1) r1, cmp ids_eqb (common_parse_assign v2) r2 with
    | Some a, Some b => Some (a && b)
    | _, _ => None
    end
  end.

Definition check (c : pcase) : verdict :=
  let '(s, d, g) := spec_verdict c in
  match model_cmp c with
  | Some m => mk_verdict m s d g
  | None => mk_verdict true s false g
  end.
Definition run (cs : list pcase) := check_all check cs.
