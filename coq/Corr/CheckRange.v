(* RangeIdx insert histories: model leg (Model/RangeIdx.v against the real IndexingRange/Explode). *)
From Coq Require Import List NArith ZArith Bool.
From BE Require Import Model.RangeIdx Corr.Common.
From BE Require Export Corr.SpecRange.
Import ListNotations.
Local Open Scope Z_scope.

Definition model_items (c : hcase) : list piece :=
  fold_left (fun items '(l, r, e) => indexing_range items l r e) (h_hist c) (RangeIdx.init (h_min c) (h_max c)).

Definition piece_eqb (a : Z * Z * list N) (p : piece) : bool :=
  let '(l, r, es) := a in (l =? pl p) && (r =? pr p) && eqb_list N.eqb es (pe p).

Definition model_ok (c : hcase) : bool :=
  match h_obs c with
  | None => true
  | Some (pieces, probes) =>
    let items := model_items c in
    (Nat.eqb (length pieces) (length items)) && forallb (fun ab => piece_eqb (fst ab) (snd ab)) (combine pieces items) &&
    forallb (fun '(x, es) => if (h_min c <=? x) && (x <? h_max c)
                             then eqb_list N.eqb es (sortN (entries_at x items))
                             else match es with [] => true | _ => false end) probes
  end.

Definition check (c : hcase) : verdict := let '(s, d, g) := spec_verdict c in mk_verdict (model_ok c) s d g.
Definition run (cs : list hcase) := check_all check cs.
